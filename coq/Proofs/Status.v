(* Status bookkeeping: what elect/defeat/unpend do to the candidate list; epilogues leave nobody hopeful (C01). *)
From Coq Require Import ZArith List Bool Lia String PArith.
From Droop Require Import Model.KernelBase Model.Arith Model.Prelude Model.State Model.Prims
  Model.RulesGregory Model.RulesMeek Model.Election Proofs.CmdMeta.
Import ListNotations.
Open Scope Z_scope.

Section Status.
Variable A : arith.
Variable cfg : config.
Notation est := (est A).

Lemma cands_log t m (s : est) : cands (log_action A cfg t m s) = cands s.
Proof. unfold log_action. destruct (is_log t); [reflexivity|]. destruct (is_round t); reflexivity. Qed.

Lemma find_cand_in (l : list (cand A)) i : In i (map (@cid A) l) -> exists c, find_cand A l i = Some c.
Proof.
  induction l as [|c l IH]; cbn; [contradiction|]. intros [H|H].
  - exists c. unfold find_cand. cbn. rewrite H, Z.eqb_refl. reflexivity.
  - unfold find_cand in *. cbn. destruct (cid c =? i); [eauto|apply IH; exact H].
Qed.

Lemma cands_elect i m p (s : est) : In i (map (@cid A) (cands s)) ->
  cands (elect A cfg i m p s) = upd_cand A i (fun c => with_st c Elected (Some p)) (cands s).
Proof. intros H. unfold elect. destruct (find_cand_in _ _ H) as [c ->]. rewrite cands_log. reflexivity. Qed.
Lemma cands_defeat i m (s : est) : In i (map (@cid A) (cands s)) ->
  cands (defeat A cfg i m s) = upd_cand A i (fun c => with_st c Defeated (cpend c)) (cands s).
Proof. intros H. unfold defeat. destruct (find_cand_in _ _ H) as [c ->]. rewrite cands_log. reflexivity. Qed.

Lemma cids_upd i f (l : list (cand A)) : (forall c, cid (f c) = cid c) -> map (@cid A) (upd_cand A i f l) = map (@cid A) l.
Proof. intros Hf. unfold upd_cand. rewrite map_map. apply map_ext. intros c. destruct (cid c =? i); [apply Hf|reflexivity]. Qed.

(* [pending] says: every hopeful candidate's cid is among [l] *)
Definition hopeful_within (l : list Z) (s : est) : Prop :=
  forall c, In c (cands s) -> in_state A Hopeful c = true -> In (cid c) l.

Lemma hopeful_within_nil s : hopeful_within [] s -> hopefuls A s = [].
Proof.
  intros H. unfold hopefuls.
  assert (G: forall l : list (cand A), (forall c, In c l -> in_state A Hopeful c = true -> False) ->
                                       filter (in_state A Hopeful) l = []).
  { induction l as [|c l IH]; intros Hl; cbn; [reflexivity|]. destruct (in_state A Hopeful c) eqn:E.
    - exfalso. exact (Hl c (or_introl eq_refl) E).
    - apply IH. intros c' Hc'. apply Hl. right; exact Hc'. }
  apply G. intros c Hc Hh. exact (H c Hc Hh).
Qed.

(* a step that settles candidate i (elected or defeated) and changes nobody else *)
Definition settles (f : Z -> est -> est) : Prop :=
  forall i s, In i (map (@cid A) (cands s)) ->
    exists g, cands (f i s) = upd_cand A i g (cands s) /\ (forall c, cid (g c) = cid c) /\
              (forall c, in_state A Hopeful (g c) = false).

Lemma settle_fold f (l : list (cand A)) : settles f ->
  forall s, (forall c, In c l -> In (cid c) (map (@cid A) (cands s))) ->
  hopeful_within (map (@cid A) l) s ->
  hopefuls A (fold_left (fun s c => f (cid c) s) l s) = [].
Proof.
  intros Hf. induction l as [|c0 l IH]; intros s Hin Hw; cbn [fold_left map] in *.
  - apply hopeful_within_nil. exact Hw.
  - destruct (Hf (cid c0) s (Hin c0 (or_introl eq_refl))) as (g & Eg & Hcid & Hnh).
    apply IH.
    + intros c Hc. rewrite Eg, cids_upd by exact Hcid. apply Hin. right; exact Hc.
    + intros c Hc Hh. rewrite Eg in Hc. unfold upd_cand in Hc. apply in_map_iff in Hc. destruct Hc as (c' & Ec & Hc').
      destruct (cid c' =? cid c0) eqn:E.
      * subst c. rewrite Hnh in Hh. discriminate.
      * subst c. destruct (Hw c' Hc' Hh) as [H|H]; [lia|exact H].
Qed.

Lemma settles_elect m p : settles (fun i s => elect A cfg i m p s).
Proof. intros i s Hi. eexists. split; [apply cands_elect; exact Hi|]. split; intros; reflexivity. Qed.
Lemma settles_defeat m : settles (fun i s => defeat A cfg i m s).
Proof. intros i s Hi. eexists. split; [apply cands_defeat; exact Hi|]. split; intros; reflexivity. Qed.

Lemma hopefuls_in (s : est) c : In c (hopefuls A s) -> In (cid c) (map (@cid A) (cands s)).
Proof. unfold hopefuls. intros H. apply filter_In in H. apply in_map. exact (proj1 H). Qed.
Lemma hopeful_within_self (s : est) : hopeful_within (map (@cid A) (hopefuls A s)) s.
Proof. intros c Hc Hh. apply in_map. unfold hopefuls. apply filter_In. split; assumption. Qed.

(* "for c in C.hopeful(): c.elect(...)"  /  "... c.defeat(...)"  leave no hopeful candidate *)
Lemma elect_all_hopefuls m p s :
  hopefuls A (fold_left (fun s c => elect A cfg (cid c) m p s) (hopefuls A s) s) = [].
Proof. apply (settle_fold (fun i s => elect A cfg i m p s)); [apply settles_elect|apply hopefuls_in|apply hopeful_within_self]. Qed.
Lemma defeat_all_hopefuls m s :
  hopefuls A (fold_left (fun s c => defeat A cfg (cid c) m s) (hopefuls A s) s) = [].
Proof. apply (settle_fold (fun i s => defeat A cfg i m s)); [apply settles_defeat|apply hopefuls_in|apply hopeful_within_self]. Qed.

(* elect-or-defeat (the condition may depend on the running state) *)
Lemma settle_fold_dep (f : est -> Z -> est) (l : list (cand A)) :
  (forall i s, In i (map (@cid A) (cands s)) ->
     exists g, cands (f s i) = upd_cand A i g (cands s) /\ (forall c, cid (g c) = cid c) /\
               (forall c, in_state A Hopeful (g c) = false)) ->
  forall s, (forall c, In c l -> In (cid c) (map (@cid A) (cands s))) ->
  hopeful_within (map (@cid A) l) s ->
  hopefuls A (fold_left (fun s c => f s (cid c)) l s) = [].
Proof.
  intros Hf. induction l as [|c0 l IH]; intros s Hin Hw; cbn [fold_left map] in *.
  - apply hopeful_within_nil. exact Hw.
  - destruct (Hf (cid c0) s (Hin c0 (or_introl eq_refl))) as (g & Eg & Hcid & Hnh).
    apply IH.
    + intros c Hc. rewrite Eg, cids_upd by exact Hcid. apply Hin. right; exact Hc.
    + intros c Hc Hh. rewrite Eg in Hc. unfold upd_cand in Hc. apply in_map_iff in Hc. destruct Hc as (c' & Ec & Hc').
      destruct (cid c' =? cid c0) eqn:E.
      * subst c. rewrite Hnh in Hh. discriminate.
      * subst c. destruct (Hw c' Hc' Hh) as [H|H]; [lia|exact H].
Qed.

Lemma wigm_epilogue_settles s : hopefuls A (elect_or_defeat_remaining A cfg s) = [].
Proof.
  unfold elect_or_defeat_remaining.
  apply (settle_fold_dep (fun s i => if nlen (electeds A s) <? cf_nseats cfg then elect A cfg i "Elect remaining" false s
                                     else defeat A cfg i "Defeat remaining" s)).
  - intros i s0 Hi. destruct (_ <? _).
    + eexists. split; [apply cands_elect; exact Hi|]. split; intros; reflexivity.
    + eexists. split; [apply cands_defeat; exact Hi|]. split; intros; reflexivity.
  - apply hopefuls_in.
  - apply hopeful_within_self.
Qed.
End Status.
