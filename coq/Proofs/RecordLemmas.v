(* RecordLemmas: the renderings of Model.Record agree with the record (C18, renderings half).
   Plain Ltac + lia; no axioms. *)
From Coq Require Import ZArith String List Bool Lia.
From Droop Require Import Model.KernelBase Model.Str Model.Arith Model.Prelude Model.State Model.Prims
  Model.Election Model.DriverBase Model.CountCase Model.Record.
Import ListNotations.
Open Scope Z_scope.
Open Scope list_scope.

(* ------------------------------------------------------------------ lists *)
Lemma flat_map_length_const {X Y} (f : X -> list Y) (w : nat) (l : list X) :
  (forall x, length (f x) = w) -> length (flat_map f l) = (length l * w)%nat.
Proof.
  intros H. induction l as [|x t IH]; simpl; [reflexivity|].
  rewrite app_length, H, IH. reflexivity.
Qed.

Lemma skipn_flat_map_const {X Y} (f : X -> list Y) (w : nat) :
  (forall x, length (f x) = w) ->
  forall k l, skipn (k * w) (flat_map f l) = flat_map f (skipn k l).
Proof.
  intros H. induction k as [|k IH]; intros l.
  - reflexivity.
  - destruct l as [|x t].
    + simpl. apply skipn_nil.
    + simpl flat_map. change (S k * w)%nat with (w + k * w)%nat.
      rewrite skipn_app, H.
      rewrite skipn_all2 by (rewrite H; lia).
      replace (w + k * w - w)%nat with (k * w)%nat by lia.
      simpl. apply IH.
Qed.

Lemma nth_error_skipn_cons {X} (l : list X) : forall k x, nth_error l k = Some x -> exists t, skipn k l = x :: t.
Proof.
  induction l as [|y t IH]; intros k x H.
  - destruct k; discriminate.
  - destruct k; simpl in *.
    + inversion H. eauto.
    + apply IH. exact H.
Qed.

Lemma firstn_length_app {X} (a b : list X) : firstn (length a) (a ++ b) = a.
Proof. induction a; simpl; [destruct b; reflexivity|]. f_equal. assumption. Qed.

(* the k-th segment of width w after a prefix *)
Lemma segment_flat_map {X Y} (pre : list Y) (f : X -> list Y) (w : nat) (l : list X) (k : nat) (x : X) :
  (forall y, length (f y) = w) -> nth_error l k = Some x ->
  firstn w (skipn (length pre + k * w) (pre ++ flat_map f l)) = f x.
Proof.
  intros H Hk.
  rewrite skipn_app.
  rewrite skipn_all2 by lia.
  replace (length pre + k * w - length pre)%nat with (k * w)%nat by lia.
  simpl. rewrite (skipn_flat_map_const f w H).
  destruct (nth_error_skipn_cons l k x Hk) as [t Ht]. rewrite Ht. simpl.
  rewrite <- (H x). apply firstn_length_app.
Qed.

Lemma nth_error_segment {X} (l : list X) : forall n w seg j v,
  firstn w (skipn n l) = seg -> nth_error seg j = Some v -> nth_error l (n + j) = Some v.
Proof.
  induction l as [|y t IH]; intros n w seg j v Hs Hj.
  - rewrite skipn_nil, firstn_nil in Hs. subst seg. destruct j; discriminate.
  - destruct n as [|n].
    + simpl in Hs. subst seg. simpl.
      revert j w Hj. generalize (y :: t) as l0. clear.
      induction l0 as [|z u IH]; intros j w Hj.
      * rewrite firstn_nil in Hj. destruct j; discriminate.
      * destruct w; [destruct j; discriminate|]. destruct j; simpl in *; [assumption|]. eapply IH; eassumption.
    + simpl. eapply IH; eassumption.
Qed.

(* ------------------------------------------------------------------ dump: column counts *)
Section Dump.
Variable A : arith.
Variable cfg : config.

Lemma dump_cid_header_length : forall i, length (dump_cid_header cfg i) = dump_cand_width cfg.
Proof. intros i. unfold dump_cid_header, dump_cand_width. destruct (cf_method cfg); reflexivity. Qed.

Lemma dump_cand_cells_length : forall cs sn i, length (dump_cand_cells A cfg cs sn i) = dump_cand_width cfg.
Proof.
  intros cs sn i. unfold dump_cand_cells, dump_cand_width, dump_value_cells, dump_missing_cells.
  destruct (lookup_sn A (as_c sn) i); destruct (cf_method cfg); reflexivity.
Qed.

Lemma dump_rule_cells_length : forall sn, length (dump_rule_cells A cfg sn) = length (dump_rule_header cfg).
Proof. intros sn. unfold dump_rule_cells, dump_rule_header. destruct (cf_method cfg); reflexivity. Qed.

Lemma dump_header_length : forall ecids,
  length (dump_header cfg ecids) = (dump_base cfg + length ecids * dump_cand_width cfg)%nat.
Proof.
  intros. unfold dump_header, dump_base. rewrite !app_length.
  rewrite (flat_map_length_const _ _ _ dump_cid_header_length). simpl. lia.
Qed.

Definition full_row_prefix (a : action A) (sn : asnap A) : list string :=
  [(if is_end_tag (a_tag a) then "X"%string else string_of_Z (a_round a)); tag_name (a_tag a); sv A (as_quota sn)] ++
  dump_rule_cells A cfg sn.

Lemma dump_row_full : forall cs ecids a sn,
  is_short_tag (a_tag a) = false -> a_snap a = Some sn ->
  dump_row A cfg cs ecids a = full_row_prefix a sn ++ flat_map (dump_cand_cells A cfg cs sn) ecids.
Proof.
  intros cs ecids a sn Hs Hsn. unfold dump_row, full_row_prefix. rewrite Hs, Hsn.
  rewrite <- app_assoc. reflexivity.
Qed.

Lemma full_row_prefix_length : forall a sn, length (full_row_prefix a sn) = dump_base cfg.
Proof. intros. unfold full_row_prefix, dump_base. rewrite app_length, dump_rule_cells_length. reflexivity. Qed.

(* C18_dump_columns *)
Lemma dump_columns : forall cs ecids (a : action A) sn,
  is_short_tag (a_tag a) = false -> a_snap a = Some sn ->
  length (dump_row A cfg cs ecids a) = length (dump_header cfg ecids).
Proof.
  intros cs ecids a sn Hs Hsn. rewrite (dump_row_full cs ecids a sn Hs Hsn), dump_header_length.
  rewrite app_length, full_row_prefix_length.
  rewrite (flat_map_length_const _ _ _ (dump_cand_cells_length cs sn)). reflexivity.
Qed.

Lemma dump_short : forall cs ecids (a : action A),
  is_short_tag (a_tag a) = true ->
  dump_row A cfg cs ecids a = [string_of_Z (a_round a); tag_name (a_tag a); a_msg a].
Proof. intros cs ecids a Hs. unfold dump_row. rewrite Hs. reflexivity. Qed.

(* the whole table: a header row, then one row per recorded action (oldest first) *)
Lemma dump_table_shape : forall (s : est A),
  exists rows, dump_table A cfg s = dump_header cfg (elig_cids A s) :: rows /\
    length rows = length (actions s) /\
    forall k a, nth_error (record_actions A s) k = Some a ->
      exists row, nth_error rows k = Some row /\
        (is_short_tag (a_tag a) = true -> row = [string_of_Z (a_round a); tag_name (a_tag a); a_msg a]) /\
        (is_short_tag (a_tag a) = false -> forall sn, a_snap a = Some sn ->
           length row = length (dump_header cfg (elig_cids A s))).
Proof.
  intros s. unfold dump_table.
  exists (map (dump_row A cfg (cands s) (elig_cids A s)) (record_actions A s)).
  split; [reflexivity|]. split.
  - rewrite map_length. unfold record_actions. apply rev_length.
  - intros k a Hk. exists (dump_row A cfg (cands s) (elig_cids A s) a). split.
    + apply map_nth_error. exact Hk.
    + split.
      * apply dump_short.
      * intros Hs sn Hsn. eapply dump_columns; eassumption.
Qed.

(* C18_dump_codes: the k-th eligible candidate's cells, in the header and in a full row *)
Lemma dump_codes : forall cs ecids (a : action A) sn k i c,
  is_short_tag (a_tag a) = false -> a_snap a = Some sn ->
  nth_error ecids k = Some i -> lookup_sn A (as_c sn) i = Some c ->
  let w := dump_cand_width cfg in
  let off := (dump_base cfg + k * w)%nat in
  let row := dump_row A cfg cs ecids a in
  firstn w (skipn off (dump_header cfg ecids)) = dump_cid_header cfg i /\
  firstn w (skipn off row) =
    name_of A cs i :: code_of (cf_method cfg) (sn_st c) (sn_pend c) :: dump_value_cells A cfg c /\
  nth_error row off = Some (name_of A cs i) /\
  nth_error row (off + 1) = Some (code_of (cf_method cfg) (sn_st c) (sn_pend c)) /\
  (cf_method cfg <> MQpq -> nth_error row (off + 2) = Some (str A (sn_vote c))) /\
  (cf_method cfg = MQpq -> sn_quo c <> None -> nth_error row (off + 2) = option_map (str A) (sn_quo c)).
Proof.
  intros cs ecids a sn k i c Hs Hsn Hk Hc w off row.
  assert (Hh : firstn w (skipn off (dump_header cfg ecids)) = dump_cid_header cfg i).
  { unfold dump_header. rewrite app_assoc.
    replace off with (length (["R"; "Action"; "Quota"]%string ++ dump_rule_header cfg) + k * w)%nat
      by (unfold off, dump_base; rewrite app_length; reflexivity).
    apply segment_flat_map; [apply dump_cid_header_length | exact Hk]. }
  assert (Hr : firstn w (skipn off row) =
               name_of A cs i :: code_of (cf_method cfg) (sn_st c) (sn_pend c) :: dump_value_cells A cfg c).
  { unfold row. rewrite (dump_row_full cs ecids a sn Hs Hsn).
    replace off with (length (full_row_prefix a sn) + k * w)%nat
      by (unfold off; rewrite full_row_prefix_length; reflexivity).
    rewrite (segment_flat_map _ _ w ecids k i (dump_cand_cells_length cs sn) Hk).
    unfold dump_cand_cells. rewrite Hc. reflexivity. }
  split; [exact Hh|]. split; [exact Hr|].
  split; [|split; [|split]].
  - replace off with (off + 0)%nat by lia. eapply nth_error_segment; [exact Hr|reflexivity].
  - eapply nth_error_segment; [exact Hr|reflexivity].
  - intros Hm. eapply nth_error_segment; [exact Hr|].
    unfold dump_value_cells. destruct (cf_method cfg); try reflexivity. congruence.
  - intros Hm Hq. destruct (sn_quo c) as [q|] eqn:Eq; [|congruence]. cbn [option_map].
    eapply nth_error_segment; [exact Hr|].
    unfold dump_value_cells. rewrite Hm. simpl. rewrite Eq. reflexivity.
Qed.
End Dump.

(* ------------------------------------------------------------------ JSON *)
Section Json.
Variable A : arith.
Variable M : arith_meta.
Variable cfg : config.
Variable h : header.

Lemma json_actions : forall (s : est A),
  jget "actions" (json_tree A M cfg h s) = Some (JList (map (json_action A cfg) (record_actions A s))).
Proof. intros s. reflexivity. Qed.

Lemma json_action_head : forall (a : action A),
  jget "tag" (json_action A cfg a) = Some (JStr (tag_name (a_tag a))) /\
  jget "msg" (json_action A cfg a) = Some (JStr (a_msg a)) /\
  jget "round" (json_action A cfg a) = Some (JInt (a_round a)).
Proof.
  intros a. unfold json_action, jov.
  destruct (a_snap a) as [sn|]; [|repeat split; reflexivity].
  destruct (cf_method cfg); destruct (as_nt sn); destruct (as_surplus sn); repeat split; reflexivity.
Qed.

Lemma json_action_totals : forall (a : action A) sn, a_snap a = Some sn ->
  jget "quota" (json_action A cfg a) = Some (JStr (str A (as_quota sn))) /\
  jget "votes" (json_action A cfg a) = Some (JStr (str A (as_votes sn))) /\
  jget "cstate" (json_action A cfg a) = Some (json_cstate A cfg (as_c sn)) /\
  (forall v, as_surplus sn = Some v -> jget "surplus" (json_action A cfg a) = Some (JStr (str A v))) /\
  (forall v, cf_method cfg = MWigm -> as_nt sn = Some v -> jget "nt_votes" (json_action A cfg a) = Some (JStr (str A v))) /\
  (forall v, cf_method cfg = MMeek -> as_nt sn = Some v -> jget "residual" (json_action A cfg a) = Some (JStr (str A v))).
Proof.
  intros a sn Hsn. unfold json_action, jov. rewrite Hsn.
  destruct (cf_method cfg); destruct (as_nt sn); destruct (as_surplus sn);
    repeat split; try reflexivity; intros; try discriminate; try congruence;
    match goal with H : Some _ = Some _ |- _ => inversion H; subst; reflexivity end.
Qed.

Lemma json_cstate_entry_ok : forall (c : csnap A),
  let e := json_cstate_entry A cfg c in
  jget "state" e = Some (JStr (state_name (sn_st c))) /\
  jget "code" e = Some (JStr (code_of (cf_method cfg) (sn_st c) (sn_pend c))) /\
  (sn_st c <> Withdrawn -> jget "vote" e = Some (JStr (str A (sn_vote c)))) /\
  (sn_st c = Withdrawn -> jget "vote" e = None).
Proof.
  intros c. unfold json_cstate_entry, jov.
  destruct (sn_st c); destruct (sn_kf c); destruct (sn_pend c); destruct (sn_quo c);
    repeat split; try reflexivity; intros; try congruence; try discriminate.
Qed.

Lemma json_cstate_entries : forall (l : list (csnap A)),
  exists entries, json_cstate A cfg l = JObj entries /\ length entries = length l /\
    forall j c, nth_error l j = Some c ->
      nth_error entries j = Some (string_of_Z (sn_cid c), json_cstate_entry A cfg c).
Proof.
  intros l. unfold json_cstate. eexists. split; [reflexivity|]. split.
  - apply map_length.
  - intros j c Hj. apply (map_nth_error (fun c => (string_of_Z (sn_cid c), json_cstate_entry A cfg c))). exact Hj.
Qed.

(* C18_json_agrees *)
Lemma json_agrees : forall (s : est A),
  exists acts, jget "actions" (json_tree A M cfg h s) = Some (JList acts) /\
    length acts = length (actions s) /\
    forall k a, nth_error (record_actions A s) k = Some a ->
      exists ja, nth_error acts k = Some ja /\
        jget "tag" ja = Some (JStr (tag_name (a_tag a))) /\
        jget "msg" ja = Some (JStr (a_msg a)) /\
        jget "round" ja = Some (JInt (a_round a)) /\
        forall sn, a_snap a = Some sn ->
          jget "quota" ja = Some (JStr (str A (as_quota sn))) /\
          jget "votes" ja = Some (JStr (str A (as_votes sn))) /\
          (forall v, as_surplus sn = Some v -> jget "surplus" ja = Some (JStr (str A v))) /\
          (forall v, cf_method cfg = MWigm -> as_nt sn = Some v -> jget "nt_votes" ja = Some (JStr (str A v))) /\
          (forall v, cf_method cfg = MMeek -> as_nt sn = Some v -> jget "residual" ja = Some (JStr (str A v))) /\
          exists entries, jget "cstate" ja = Some (JObj entries) /\ length entries = length (as_c sn) /\
            forall j c, nth_error (as_c sn) j = Some c ->
              exists e, nth_error entries j = Some (string_of_Z (sn_cid c), e) /\
                jget "state" e = Some (JStr (state_name (sn_st c))) /\
                jget "code" e = Some (JStr (code_of (cf_method cfg) (sn_st c) (sn_pend c))) /\
                (sn_st c <> Withdrawn -> jget "vote" e = Some (JStr (str A (sn_vote c)))).
Proof.
  intros s. exists (map (json_action A cfg) (record_actions A s)).
  split; [apply json_actions|]. split.
  - rewrite map_length. unfold record_actions. apply rev_length.
  - intros k a Hk. exists (json_action A cfg a). split; [apply map_nth_error; exact Hk|].
    destruct (json_action_head a) as (Ht & Hm & Hr).
    split; [exact Ht|]. split; [exact Hm|]. split; [exact Hr|].
    intros sn Hsn.
    destruct (json_action_totals a sn Hsn) as (Hq & Hv & Hc & Hsu & Hnt & Hres).
    split; [exact Hq|]. split; [exact Hv|]. split; [exact Hsu|]. split; [exact Hnt|]. split; [exact Hres|].
    destruct (json_cstate_entries (as_c sn)) as (entries & He & Hl & Hn).
    exists entries. split; [rewrite Hc, He; reflexivity|]. split; [exact Hl|].
    intros j c Hj. exists (json_cstate_entry A cfg c). split; [apply Hn; exact Hj|].
    destruct (json_cstate_entry_ok c) as (H1 & H2 & H3 & _).
    split; [exact H1|]. split; [exact H2|]. exact H3.
Qed.
End Json.

(* ------------------------------------------------------------------ report *)
Section Report.
Variable A : arith.
Variable cfg : config.
Variable h : header.

Lemma sn_in_iff : forall st (c : csnap A), sn_in A st c = true <-> sn_st c = st.
Proof. intros st c. unfold sn_in. destruct (sn_st c); destruct st; simpl; split; congruence. Qed.

Lemma in_ordered_snaps : forall cids (sn : asnap A) c,
  In c (ordered_snaps A cids sn) <-> exists i, In i cids /\ lookup_sn A (as_c sn) i = Some c.
Proof.
  intros cids sn c. unfold ordered_snaps. rewrite in_flat_map. split.
  - intros (i & Hi & Hc). exists i. split; [exact Hi|].
    destruct (lookup_sn A (as_c sn) i); simpl in Hc; [destruct Hc as [->|[]]; reflexivity|contradiction].
  - intros (i & Hi & Hc). exists i. split; [exact Hi|]. rewrite Hc. left. reflexivity.
Qed.

Lemma in_defeated_zero : forall (l : list (csnap A)) c,
  In c (defeated_zero A l) <-> In c l /\ sn_st c = Defeated /\ eqv A (sn_vote c) (of_int A 0) = true.
Proof.
  intros l c. unfold defeated_zero, defeated_sn. rewrite !filter_In, sn_in_iff. tauto.
Qed.

Lemma default_lines_iff : forall cs (l : list (csnap A)) line,
  In line (default_cand_lines A cs l) <->
  (exists c, In c l /\ sn_st c = Elected /\ pend_true (sn_pend c) = false /\
             line = cand_line A cs "Elected:  " (vote_str A) c) \/
  (exists c, In c l /\ sn_st c = Elected /\ pend_true (sn_pend c) = true /\
             line = cand_line A cs "Pending:  " (vote_str A) c) \/
  (exists c, In c l /\ sn_st c = Hopeful /\ line = cand_line A cs "Hopeful:  " (vote_str A) c) \/
  (exists c, In c l /\ sn_st c = Defeated /\ gtv A (sn_vote c) (of_int A 0) = true /\
             line = cand_line A cs "Defeated: " (vote_str A) c) \/
  (defeated_zero A l <> [] /\ line = zero_defeated_line A cs (defeated_zero A l)).
Proof.
  intros cs l line. unfold default_cand_lines.
  rewrite !in_app_iff, !in_map_iff.
  unfold elected_np, elected_p, hopeful_sn, defeated_pos, defeated_sn.
  split.
  - intros [H|[H|[H|[H|H]]]].
    + destruct H as (c & <- & Hc). apply filter_In in Hc. destruct Hc as (Hc & Hb).
      apply andb_true_iff in Hb. destruct Hb as (Hb1 & Hb2). apply sn_in_iff in Hb1. apply negb_true_iff in Hb2.
      left. exists c. repeat split; assumption.
    + destruct H as (c & <- & Hc). apply filter_In in Hc. destruct Hc as (Hc & Hb).
      apply andb_true_iff in Hb. destruct Hb as (Hb1 & Hb2). apply sn_in_iff in Hb1.
      right; left. exists c. repeat split; assumption.
    + destruct H as (c & <- & Hc). apply filter_In in Hc. destruct Hc as (Hc & Hb). apply sn_in_iff in Hb.
      right; right; left. exists c. repeat split; assumption.
    + destruct H as (c & <- & Hc). apply filter_In in Hc. destruct Hc as (Hc & Hb).
      apply filter_In in Hc. destruct Hc as (Hc & Hd). apply sn_in_iff in Hd.
      right; right; right; left. exists c. repeat split; assumption.
    + right; right; right; right.
      destruct (defeated_zero A l) as [|z zs] eqn:Hz; [contradiction|].
      destruct H as [<-|[]]. split; [discriminate|reflexivity].
  - intros [H|[H|[H|[H|H]]]].
    + destruct H as (c & Hc & Hs & Hp & ->). left. exists c. split; [reflexivity|].
      apply filter_In. split; [exact Hc|]. apply andb_true_iff. split; [apply sn_in_iff; exact Hs|].
      apply negb_true_iff. exact Hp.
    + destruct H as (c & Hc & Hs & Hp & ->). right; left. exists c. split; [reflexivity|].
      apply filter_In. split; [exact Hc|]. apply andb_true_iff. split; [apply sn_in_iff; exact Hs|exact Hp].
    + destruct H as (c & Hc & Hs & ->). right; right; left. exists c. split; [reflexivity|].
      apply filter_In. split; [exact Hc|apply sn_in_iff; exact Hs].
    + destruct H as (c & Hc & Hs & Hg & ->). right; right; right; left. exists c. split; [reflexivity|].
      apply filter_In. split; [|exact Hg]. apply filter_In. split; [exact Hc|apply sn_in_iff; exact Hs].
    + destruct H as (Hnz & ->). right; right; right; right.
      destruct (defeated_zero A l) as [|z zs] eqn:Hz; [congruence|]. left. reflexivity.
Qed.

Lemma qpq_lines_iff : forall cs (l : list (csnap A)) line,
  In line (qpq_cand_lines A cs l) <->
  (exists c, In c l /\ sn_st c = Elected /\ line = cand_line A cs "Elected:  " (quo_str A) c) \/
  (exists c, In c l /\ sn_st c = Hopeful /\ line = cand_line A cs "Hopeful:  " (quo_str A) c) \/
  (exists c, In c l /\ sn_st c = Defeated /\ line = cand_line A cs "Defeated: " (quo_str A) c).
Proof.
  intros cs l line. unfold qpq_cand_lines, hopeful_sn, defeated_sn.
  rewrite !in_app_iff, !in_map_iff. split.
  - intros [H|[H|H]]; destruct H as (c & <- & Hc); apply filter_In in Hc; destruct Hc as (Hc & Hb);
      apply sn_in_iff in Hb; [left|right; left|right; right]; exists c; repeat split; assumption.
  - intros [H|[H|H]]; destruct H as (c & Hc & Hs & ->); [left|right; left|right; right];
      exists c; (split; [reflexivity|]); apply filter_In; (split; [exact Hc|apply sn_in_iff; exact Hs]).
Qed.

(* C18_report_lists_statuses *)
Lemma report_lists_statuses : forall cs cids (a : action A) sn,
  a_snap a = Some sn -> a_tag a <> TLog -> a_tag a <> TRound ->
  let l := ordered_snaps A cids sn in
  let block := block_cand_lines A cfg cs cids a sn in
  (exists tail, report_action A cfg h cs cids a = ("Action: " ++ a_msg a ++ nl)%string :: block ++ tail) /\
  (forall c, In c l <-> exists i, In i cids /\ lookup_sn A (as_c sn) i = Some c) /\
  (qpq_section cfg (a_tag a) = false -> lists_cands (a_tag a) = false -> block = []) /\
  (qpq_section cfg (a_tag a) = false -> lists_cands (a_tag a) = true -> forall line,
     In line block <->
     (exists c, In c l /\ sn_st c = Elected /\ pend_true (sn_pend c) = false /\
                line = cand_line A cs "Elected:  " (vote_str A) c) \/
     (exists c, In c l /\ sn_st c = Elected /\ pend_true (sn_pend c) = true /\
                line = cand_line A cs "Pending:  " (vote_str A) c) \/
     (exists c, In c l /\ sn_st c = Hopeful /\ line = cand_line A cs "Hopeful:  " (vote_str A) c) \/
     (exists c, In c l /\ sn_st c = Defeated /\ gtv A (sn_vote c) (of_int A 0) = true /\
                line = cand_line A cs "Defeated: " (vote_str A) c) \/
     (defeated_zero A l <> [] /\ line = zero_defeated_line A cs (defeated_zero A l))) /\
  (qpq_section cfg (a_tag a) = true -> is_tie (a_tag a) = true -> block = []) /\
  (qpq_section cfg (a_tag a) = true -> is_tie (a_tag a) = false -> forall line,
     In line block <->
     (exists c, In c l /\ sn_st c = Elected /\ line = cand_line A cs "Elected:  " (quo_str A) c) \/
     (exists c, In c l /\ sn_st c = Hopeful /\ line = cand_line A cs "Hopeful:  " (quo_str A) c) \/
     (exists c, In c l /\ sn_st c = Defeated /\ line = cand_line A cs "Defeated: " (quo_str A) c)).
Proof.
  intros cs cids a sn Hsn Hlog Hround l block.
  split.
  { unfold report_action. rewrite Hsn. fold block.
    destruct (a_tag a); try congruence; eexists; reflexivity. }
  split; [intros c; apply in_ordered_snaps|].
  unfold block, block_cand_lines. fold l.
  split; [intros Hq Hl; rewrite Hq, Hl; reflexivity|].
  split; [intros Hq Hl line; rewrite Hq, Hl; apply default_lines_iff|].
  split; [intros Hq Ht; rewrite Hq, Ht; reflexivity|].
  intros Hq Ht line. rewrite Hq, Ht. apply qpq_lines_iff.
Qed.
End Report.

(* ------------------------------------------------------------------ dump and JSON agree with one another *)
Lemma dump_json_agree : forall (A : arith) (M : arith_meta) (cfg : config) (h : header) (s : est A) k a sn p i j c,
  nth_error (record_actions A s) k = Some a -> is_short_tag (a_tag a) = false -> a_snap a = Some sn ->
  nth_error (elig_cids A s) p = Some i -> lookup_sn A (as_c sn) i = Some c -> nth_error (as_c sn) j = Some c ->
  cf_method cfg <> MQpq ->
  exists row acts ja entries e code vote,
    nth_error (dump_table A cfg s) (S k) = Some row /\
    jget "actions" (json_tree A M cfg h s) = Some (JList acts) /\ nth_error acts k = Some ja /\
    jget "cstate" ja = Some (JObj entries) /\ nth_error entries j = Some (string_of_Z (sn_cid c), e) /\
    code = code_of (cf_method cfg) (sn_st c) (sn_pend c) /\ vote = str A (sn_vote c) /\
    nth_error row (dump_base cfg + p * dump_cand_width cfg + 1) = Some code /\
    nth_error row (dump_base cfg + p * dump_cand_width cfg + 2) = Some vote /\
    nth_error row 2 = Some (str A (as_quota sn)) /\
    jget "code" e = Some (JStr code) /\
    (sn_st c <> Withdrawn -> jget "vote" e = Some (JStr vote)) /\
    jget "quota" ja = Some (JStr (str A (as_quota sn))).
Proof.
  intros A M cfg h s k a sn p i j c Hk Hs Hsn Hp Hc Hj Hm.
  destruct (json_agrees A M cfg h s) as (acts & Hacts & _ & Hall).
  destruct (Hall k a Hk) as (ja & Hja & _ & _ & _ & Hsnap).
  destruct (Hsnap sn Hsn) as (Hq & _ & _ & _ & _ & entries & Hcs & _ & Hent).
  destruct (Hent j c Hj) as (e & He & _ & Hcode & Hvote).
  destruct (dump_codes A cfg (cands s) (elig_cids A s) a sn p i c Hs Hsn Hp Hc) as (_ & _ & _ & Hc1 & Hc2 & _).
  exists (dump_row A cfg (cands s) (elig_cids A s) a), acts, ja, entries, e,
         (code_of (cf_method cfg) (sn_st c) (sn_pend c)), (str A (sn_vote c)).
  split.
  { unfold dump_table. simpl. apply map_nth_error. exact Hk. }
  split; [exact Hacts|]. split; [exact Hja|]. split; [exact Hcs|]. split; [exact He|].
  split; [reflexivity|]. split; [reflexivity|].
  split; [exact Hc1|]. split; [apply Hc2; exact Hm|].
  split.
  { rewrite (dump_row_full A cfg (cands s) (elig_cids A s) a sn Hs Hsn). reflexivity. }
  split; [exact Hcode|]. split; [exact Hvote|]. exact Hq.
Qed.

(* ------------------------------------------------------------------ what log_action records *)
Lemma log_action_records : forall (A : arith) (cfg : config) t msg (s : est A),
  exists a, actions (log_action A cfg t msg s) = a :: actions s /\ a_tag a = t /\ a_msg a = msg /\
    (is_log t = false -> exists sn, a_snap a = Some sn) /\ (is_log t = true -> a_snap a = None).
Proof.
  intros A cfg t msg s. unfold log_action.
  destruct (is_log t) eqn:El.
  - eexists. split; [reflexivity|]. repeat split; try reflexivity. discriminate.
  - destruct (is_round t); eexists; (split; [reflexivity|]); repeat split; try reflexivity; try discriminate;
      intros _; eexists; reflexivity.
Qed.

(* ------------------------------------------------------------------ a concrete count (non-vacuity Examples of Props/C18.v)
   4 candidates A B C D, 2 seats, ballots 5 x (A B), 3 x (B), 2 x (C); rule wigm, fixed-point arithmetic, 4 places.
   The header strings are those of the implementation for this election. *)
Definition c18_ex_arith : arith := Fixed 4 4.
Definition c18_ex_meta : arith_meta := FixedMeta 4 4.
Definition c18_ex_cfg : config := mkConfig "wigm" MWigm 2 10 false false false false 0.
Definition c18_ex_profile : profile :=
  mkProfile 2 10
    [mkPcand 1 1 1 "A" "1" false false; mkPcand 2 2 2 "B" "2" false false;
     mkPcand 3 3 3 "C" "3" false false; mkPcand 4 4 4 "D" "4" false false]
    [(5, [1; 2]); (3, [2]); (2, [3])] [].
Definition c18_ex_header : header :=
  mkHeader "t" "droop" "0.14" "Generic Weighted Inclusive Gregory Method (WIGM)"
           "fixed-point decimal arithmetic (4 places)" [] [] "Quota" None None None "" "" (JObj []).
Definition c18_ex_state : option (est c18_ex_arith) :=
  match run_count c18_ex_arith c18_ex_cfg (Pos.pow 2 12) RWigm c18_ex_profile with
  | Done s true => Some s
  | _ => None
  end.
