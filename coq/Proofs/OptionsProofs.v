(* OptionsProofs: lemmas about the option store (Model/Options.v) used by Props/C17.v. *)
From Coq Require Import ZArith List Bool String Ascii Lia.
From Droop Require Import Model.KernelBase Model.Str Model.Options.
Import ListNotations.
Open Scope Z_scope.

(* ------------------------------------------------------------------ dicts *)
Lemma dget_dset {V} k k' (v : V) d :
  dget k (dset k' v d) = if String.eqb k k' then Some v else dget k d.
Proof.
  induction d as [|[k0 v0] t IH]; cbn.
  - reflexivity.
  - destruct (String.eqb k' k0) eqn:E0; cbn.
    + apply String.eqb_eq in E0. subst k0. destruct (String.eqb k k'); reflexivity.
    + rewrite IH. destruct (String.eqb k k0) eqn:E1; [|reflexivity].
      destruct (String.eqb k k') eqn:E2; [|reflexivity].
      apply String.eqb_eq in E1, E2. subst. rewrite String.eqb_refl in E0. discriminate.
Qed.

Lemma dget_dset_eq {V} k (v : V) d : dget k (dset k v d) = Some v.
Proof. rewrite dget_dset, String.eqb_refl. reflexivity. Qed.

Lemma dget_dset_neq {V} k k' (v : V) d : String.eqb k k' = false -> dget k (dset k' v d) = dget k d.
Proof. intros H. rewrite dget_dset, H. reflexivity. Qed.

Lemma dget_dsetdefault {V} k k' (v : V) d :
  dget k (dsetdefault k' v d) =
  match dget k d with Some x => Some x | None => if String.eqb k k' then Some v else None end.
Proof.
  unfold dsetdefault, dmem. destruct (dget k' d) eqn:E.
  - destruct (dget k d) eqn:E2; [reflexivity|].
    destruct (String.eqb k k') eqn:E3; [|reflexivity]. apply String.eqb_eq in E3. subst. congruence.
  - rewrite dget_dset. destruct (String.eqb k k') eqn:E3.
    + apply String.eqb_eq in E3. subst. rewrite E. reflexivity.
    + destruct (dget k d); reflexivity.
Qed.

Lemma dget_none_notin {V} k (d : dict V) : ~ In k (dkeys d) -> dget k d = None.
Proof.
  induction d as [|[k0 v0] t IH]; cbn; intros H; [reflexivity|].
  destruct (String.eqb k k0) eqn:E.
  - apply String.eqb_eq in E. subst. exfalso. apply H. left. reflexivity.
  - apply IH. intros H1. apply H. right. exact H1.
Qed.

Lemma dget_some_in {V} k (d : dict V) v : dget k d = Some v -> In (k, v) d.
Proof.
  induction d as [|[k0 v0] t IH]; cbn; [discriminate|].
  destruct (String.eqb k k0) eqn:E; intros H.
  - apply String.eqb_eq in E. injection H as ->. subst. left. reflexivity.
  - right. apply IH. exact H.
Qed.

Lemma in_dget {V} k (d : dict V) v : NoDup (dkeys d) -> In (k, v) d -> dget k d = Some v.
Proof.
  induction d as [|[k0 v0] t IH]; cbn; intros Hn H; [contradiction|].
  inversion Hn as [|? ? Hk Ht]; subst. destruct H as [H|H].
  - injection H as -> ->. rewrite String.eqb_refl. reflexivity.
  - destruct (String.eqb k k0) eqn:E.
    + apply String.eqb_eq in E. subst. exfalso. apply Hk. apply (in_map fst) in H. exact H.
    + apply IH; assumption.
Qed.

Lemma dkeys_dset_in {V} k k' (v : V) d : In k (dkeys (dset k' v d)) <-> k = k' \/ In k (dkeys d).
Proof.
  induction d as [|[k0 v0] t IH]; cbn.
  - intuition.
  - destruct (String.eqb k' k0) eqn:E; cbn.
    + apply String.eqb_eq in E. subst. intuition.
    + rewrite IH. intuition.
Qed.

Lemma NoDup_dset {V} k (v : V) d : NoDup (dkeys d) -> NoDup (dkeys (dset k v d)).
Proof.
  induction d as [|[k0 v0] t IH]; cbn; intros H.
  - constructor; [intros []|constructor].
  - inversion H as [|? ? Hk Ht]; subst. destruct (String.eqb k k0) eqn:E; cbn.
    + constructor; assumption.
    + constructor; [|apply IH; exact Ht].
      intros Hin. apply dkeys_dset_in in Hin. destruct Hin as [->|Hin]; [|contradiction].
      rewrite String.eqb_refl in E. discriminate.
Qed.

Lemma NoDup_dsetdefault {V} k (v : V) d : NoDup (dkeys d) -> NoDup (dkeys (dsetdefault k v d)).
Proof. unfold dsetdefault. destruct (dmem k d); [auto|apply NoDup_dset]. Qed.

Lemma NoDup_dupdate {V} (d e : dict V) : NoDup (dkeys d) -> NoDup (dkeys (dupdate d e)).
Proof.
  unfold dupdate. revert d. induction e as [|[k v] t IH]; cbn; intros d H; [exact H|].
  apply IH. apply NoDup_dset. exact H.
Qed.

Lemma NoDup_dict_of_list {V} (l : list (string * V)) : NoDup (dkeys (dict_of_list l)).
Proof. apply NoDup_dupdate. constructor. Qed.

(* d.update(e) for a dict e: e's binding wins *)
Lemma dget_dupdate {V} k (d e : dict V) : NoDup (dkeys e) ->
  dget k (dupdate d e) = match dget k e with Some v => Some v | None => dget k d end.
Proof.
  unfold dupdate. revert d. induction e as [|[k0 v0] t IH]; cbn; intros d Hn; [reflexivity|].
  inversion Hn as [|? ? Hk Ht]; subst. rewrite (IH _ Ht).
  destruct (String.eqb k k0) eqn:E.
  - apply String.eqb_eq in E. subst. rewrite (dget_none_notin _ _ Hk). apply dget_dset_eq.
  - rewrite (dget_dset_neq _ _ _ _ E). reflexivity.
Qed.

(* ------------------------------------------------------------------ precedence *)
Fixpoint first_some {A} (l : list (option A)) : option A :=
  match l with [] => None | Some a :: _ => Some a | None :: t => first_some t end.

Definition layers (o : store) (k : string) : list (option oval) :=
  [dget k (o_force o); dget k (o_cmd o); dget k (o_file o); dget k (o_default o)].

Lemma getopt_precedence o k :
  getopt o k = match first_some (layers o k) with Some v => v | None => VNone end.
Proof.
  unfold getopt, dget_or, layers. cbn.
  destruct (dget k (o_force o)), (dget k (o_cmd o)), (dget k (o_file o)), (dget k (o_default o)); reflexivity.
Qed.

Definition wf_store (o : store) : Prop :=
  NoDup (dkeys (o_cmd o)) /\ NoDup (dkeys (o_file o)) /\ NoDup (dkeys (o_default o)) /\ NoDup (dkeys (o_force o)).

Lemma record_layers o :
  rec_cmd (record o) = o_cmd o /\ rec_file (record o) = o_file o /\ rec_default (record o) = o_default o /\
  rec_force (record o) = o_force o /\ rec_allowed (record o) = o_allowed o.
Proof. repeat split. Qed.

Lemma record_options_precedence o k : wf_store o ->
  dget k (rec_options (record o)) = first_some (layers o k).
Proof.
  intros (Hc & Hf & Hd & Hfo). unfold record, layers. cbn [rec_options].
  rewrite (dget_dupdate _ _ _ Hfo), (dget_dupdate _ _ _ Hc), (dget_dupdate _ _ _ Hf), (dget_dupdate _ _ _ Hd).
  cbn. destruct (dget k (o_force o)), (dget k (o_cmd o)), (dget k (o_file o)), (dget k (o_default o)); reflexivity.
Qed.

Lemma record_agrees_with_getopt o k : wf_store o ->
  match dget k (rec_options (record o)) with
  | Some v => getopt o k = v
  | None => getopt o k = VNone /\ first_some (layers o k) = None
  end.
Proof.
  intros H. rewrite (record_options_precedence o k H), getopt_precedence.
  destruct (first_some (layers o k)); auto.
Qed.

(* ------------------------------------------------------------------ sorted sets *)
Fixpoint sorted_lt (l : list string) : Prop :=
  match l with
  | x :: ((y :: _) as t) => String.compare x y = Lt /\ sorted_lt t
  | _ => True
  end.

Lemma compare_refl s : String.compare s s = Eq.
Proof.
  induction s as [|c t IH]; cbn; [reflexivity|].
  unfold Ascii.compare. rewrite N.compare_refl. exact IH.
Qed.

Lemma in_insert_sorted x y l : In x (insert_sorted y l) <-> x = y \/ In x l.
Proof.
  induction l as [|z t IH]; cbn.
  - intuition.
  - destruct (String.compare y z) eqn:E; cbn.
    + apply String.compare_eq_iff in E. subst. intuition.
    + intuition.
    + rewrite IH. intuition.
Qed.

Lemma sorted_insert y l : sorted_lt l -> sorted_lt (insert_sorted y l).
Proof.
  induction l as [|z t IH]; cbn [insert_sorted]; intros H.
  - exact I.
  - destruct (String.compare y z) eqn:E.
    + exact H.
    + cbn. split; assumption.
    + assert (Hzy : String.compare z y = Lt).
      { rewrite String.compare_antisym, E. reflexivity. }
      assert (Ht : sorted_lt t) by (destruct t; [exact I|apply H]).
      specialize (IH Ht).
      destruct t as [|w t'].
      * cbn. split; [exact Hzy|exact I].
      * cbn [insert_sorted] in *. destruct (String.compare y w) eqn:E2.
        -- cbn. cbn in H. exact H.
        -- cbn. split; [exact Hzy|]. exact IH.
        -- cbn. cbn in H. split; [apply H|]. exact IH.
Qed.

Lemma in_sort_set x l : In x (sort_set l) <-> In x l.
Proof.
  induction l as [|y t IH]; cbn; [tauto|]. rewrite in_insert_sorted, IH. intuition.
Qed.
Lemma sorted_sort_set l : sorted_lt (sort_set l).
Proof. induction l as [|y t IH]; cbn; [exact I|apply sorted_insert; exact IH]. Qed.

Lemma dmem_in {V} k (d : dict V) : dmem k d = true <-> In k (dkeys d).
Proof.
  unfold dmem. split.
  - destruct (dget k d) eqn:E; [|discriminate]. intros _. apply dget_some_in in E.
    apply (in_map fst) in E. exact E.
  - intros H. destruct (dget k d) eqn:E; [reflexivity|].
    exfalso. revert E H. induction d as [|[k0 v0] t IH]; cbn; [tauto|].
    destruct (String.eqb k k0) eqn:E0; [discriminate|]. intros E [H|H].
    + subst. rewrite String.eqb_refl in E0. discriminate.
    + exact (IH E H).
Qed.

(* unused(): every supplied key other than rule/path that no setopt() ever asked about, sorted *)
Lemma unused_spec o k :
  In k (unused o) <->
  (dmem k (o_file o) = true \/ dmem k (o_cmd o) = true) /\ k <> "rule"%string /\ k <> "path"%string /\
  dmem k (o_default o) = false.
Proof.
  unfold unused. rewrite in_sort_set, !filter_In, in_app_iff, <- !dmem_in.
  unfold str_in. cbn [existsb]. rewrite orb_false_r, !negb_true_iff, orb_false_iff, !String.eqb_neq.
  tauto.
Qed.
Lemma unused_sorted o : sorted_lt (unused o).
Proof. apply sorted_sort_set. Qed.

(* overrides(): forced keys for which the caller or the file supplied a different value, sorted *)
Lemma overrides_spec o k : wf_store o ->
  In k (overrides o) <->
  exists fv sv, dget k (o_force o) = Some fv /\
                first_some [dget k (o_cmd o); dget k (o_file o)] = Some sv /\ oval_eqb sv fv = false.
Proof.
  intros (Hc & Hf & Hd & Hfo). unfold overrides. rewrite in_sort_set, in_map_iff. split.
  - intros ([k' fv] & <- & Hin). apply filter_In in Hin. destruct Hin as [Hin Hb]. cbn [fst snd] in *.
    rewrite (dget_dupdate _ _ _ Hc) in Hb.
    exists fv. destruct (dget k' (o_cmd o)) as [sv|] eqn:E1.
    + exists sv. split; [apply in_dget; assumption|]. cbn. split; [reflexivity|]. apply negb_true_iff. exact Hb.
    + destruct (dget k' (o_file o)) as [sv|] eqn:E2; [|discriminate].
      exists sv. split; [apply in_dget; assumption|]. cbn. split; [reflexivity|]. apply negb_true_iff. exact Hb.
  - intros (fv & sv & H1 & H2 & H3). exists (k, fv). split; [reflexivity|]. apply filter_In.
    split; [apply dget_some_in; exact H1|]. cbn [fst snd]. rewrite (dget_dupdate _ _ _ Hc).
    cbn in H2. destruct (dget k (o_cmd o)).
    + injection H2 as ->. rewrite H3. reflexivity.
    + destruct (dget k (o_file o)); [|discriminate]. injection H2 as ->. rewrite H3. reflexivity.
Qed.
Lemma overrides_sorted o : sorted_lt (overrides o).
Proof. apply sorted_sort_set. Qed.

(* ------------------------------------------------------------------ setopt *)
Lemma setopt_store_layers o k d f :
  let o' := setopt_store o k d f in
  o_cmd o' = o_cmd o /\ o_file o' = o_file o /\ o_allowed o' = o_allowed o /\
  o_default o' = dsetdefault k (normalize_val d) (o_default o) /\
  o_force o' = (if f then dset k (normalize_val d) (o_force o) else o_force o).
Proof. unfold setopt_store. destruct f; cbn; repeat split. Qed.

Lemma setopt_spec k d f al o :
  let r := fst (setopt k d f al o) in let o' := snd (setopt k d f al o) in
  o_cmd o' = o_cmd o /\ o_file o' = o_file o /\
  o_default o' = dsetdefault k (normalize_val d) (o_default o) /\
  o_force o' = (if f then dset k (normalize_val d) (o_force o) else o_force o) /\
  o_allowed o' = (match al with [] => o_allowed o | _ => dset k al (o_allowed o) end) /\
  r = (if match al with [] => true | _ => existsb (fun x => oval_eqb x (getopt o' k)) al end
       then Ok (getopt o' k) else Raise UsageError).
Proof.
  unfold setopt. destruct (setopt_store_layers o k d f) as (H1 & H2 & H3 & H4 & H5).
  destruct al as [|a al'].
  - cbn. rewrite H1, H2, H3, H4, H5. repeat split.
  - set (o2 := setopt_store o k d f) in *.
    set (o3 := set_allowed o2 (dset k (a :: al') (o_allowed o2))).
    assert (Hg : getopt o3 k = getopt o2 k) by reflexivity.
    destruct (existsb (fun x => oval_eqb x (getopt o2 k)) (a :: al')) eqn:E; cbn [negb fst snd];
      fold o3; rewrite Hg, E; cbn; rewrite H1, H2, H3, H4, H5; repeat split.
Qed.

(* a forced key wins whatever the other layers hold *)
Lemma getopt_forced o k v : dget k (o_force o) = Some v -> getopt o k = v.
Proof. intros H. unfold getopt, dget_or. rewrite H. reflexivity. Qed.

(* ------------------------------------------------------------------ invariants of SM computations *)
Section Preserve.
Variable I : store -> Prop.
Hypothesis I_setopt : forall k d f al o, I o -> I (snd (setopt k d f al o)).

Definition pres {A} (m : SM store A) : Prop := forall o, I o -> I (snd (m o)).

Lemma pres_ret {A} (a : A) : pres (sret a).
Proof. intros o H. exact H. Qed.
Lemma pres_lift {A} (r : res A) : pres (slift r).
Proof. intros o H. exact H. Qed.
Lemma pres_sget {A} (f : store -> A) : pres (sget f).
Proof. intros o H. exact H. Qed.
Lemma pres_raise {A} e : pres (@sraise store A e).
Proof. intros o H. exact H. Qed.
Lemma pres_setopt k d f al : pres (setopt k d f al).
Proof. intros o H. apply I_setopt. exact H. Qed.
Lemma pres_bind {A B} (m : SM store A) (k : A -> SM store B) :
  pres m -> (forall a, pres (k a)) -> pres (sbind m k).
Proof.
  intros Hm Hk o H. unfold sbind. specialize (Hm o H). destruct (m o) as [[a|e] o1]; cbn in *.
  - apply Hk. exact Hm.
  - exact Hm.
Qed.

Ltac pres_tac :=
  repeat first
    [ apply pres_setopt | apply pres_ret | apply pres_lift | apply pres_sget | apply pres_raise
    | apply pres_bind; [|intros ?]
    | match goal with |- pres (if ?b then _ else _) => destruct b end
    | match goal with |- pres (match ?x with _ => _ end) => destruct x end ].

Lemma pres_rule_options k : pres (rule_options k).
Proof.
  destruct k; unfold rule_options, wigm_options, prf_options, statute_fixed_options, meek_options,
    meek_prf_options, qpq_options, getopt_m; pres_tac.
Qed.
End Preserve.

Lemma wf_setopt k d f al o : wf_store o -> wf_store (snd (setopt k d f al o)).
Proof.
  intros (Hc & Hf & Hd & Hfo). destruct (setopt_spec k d f al o) as (E1 & E2 & E3 & E4 & _).
  unfold wf_store. rewrite E1, E2, E3, E4. repeat split; try assumption.
  - apply NoDup_dsetdefault. exact Hd.
  - destruct f; [apply NoDup_dset|]; exact Hfo.
Qed.

Lemma wf_new_options cmd : NoDup (dkeys cmd) -> wf_store (new_options cmd).
Proof.
  intros H. unfold wf_store, new_options, normalize_dict. cbn.
  repeat split; try constructor. unfold dkeys. rewrite map_map. cbn. exact H.
Qed.

Lemma wf_update1 o k v b : wf_store o -> wf_store (update1 o k v b).
Proof.
  intros (Hc & Hf & Hd & Hfo). unfold update1, wf_store. destruct b; cbn; repeat split; try assumption;
    apply NoDup_dset; assumption.
Qed.
Lemma wf_update_dict o d b : wf_store o -> wf_store (update_dict o d b).
Proof.
  unfold update_dict. revert o. induction d as [|[k v] t IH]; cbn; intros o H; [exact H|].
  apply IH. apply wf_update1. exact H.
Qed.

Lemma wf_rule_options k o : wf_store o -> wf_store (snd (rule_options k o)).
Proof. apply (pres_rule_options wf_store wf_setopt). Qed.

(* the caller's and the ballot file's layers are never written by a rule *)
Lemma rule_options_keeps_supplied k o :
  o_cmd (snd (rule_options k o)) = o_cmd o /\ o_file (snd (rule_options k o)) = o_file o.
Proof.
  apply (pres_rule_options (fun o' => o_cmd o' = o_cmd o /\ o_file o' = o_file o)).
  - intros k0 d f al o0 [H1 H2]. destruct (setopt_spec k0 d f al o0) as (E1 & E2 & _). rewrite E1, E2. auto.
  - auto.
Qed.

Lemma unused_full o k :
  (In k (unused o) <->
   (dmem k (o_file o) = true \/ dmem k (o_cmd o) = true) /\ k <> "rule"%string /\ k <> "path"%string /\
   dmem k (o_default o) = false) /\ sorted_lt (unused o).
Proof. split; [apply unused_spec|apply unused_sorted]. Qed.

Lemma overrides_full o k : wf_store o ->
  (In k (overrides o) <->
   exists fv sv, dget k (o_force o) = Some fv /\
                 first_some [dget k (o_cmd o); dget k (o_file o)] = Some sv /\ oval_eqb sv fv = false) /\
  sorted_lt (overrides o).
Proof. intros H. split; [apply overrides_spec; exact H|apply overrides_sorted]. Qed.
