(* C11, the part of "candidate numbering is irrelevant" that is a statement about the profile alone: renumbering the candidates by
   an injective map leaves the number of ballots (hence the quota, C04) unchanged, carries every candidate's first-preference
   total over to its new number, and keeps the profile well-formed; and a withdrawn candidate has no first preferences at all
   (its number occurs in no ranking), so deleting it from the candidate list changes neither. *)
From Coq Require Import ZArith List Bool Lia.
From Droop Require Import Model.KernelBase Model.Election Proofs.ConserveCount Proofs.Majority.
Import ListNotations.
Open Scope Z_scope.

Definition renumber_cand (f : Z -> Z) (pc : pcand) : pcand :=
  mkPcand (f (pc_cid pc)) (pc_order pc) (pc_tie pc) (pc_name pc) (pc_nick pc) (pc_withdrawn pc) (pc_undeclared pc).
Definition renumber (f : Z -> Z) (pr : profile) : profile :=
  mkProfile (pr_nseats pr) (pr_nballots pr) (map (renumber_cand f) (pr_cands pr))
            (map (fun mr => (fst mr, map f (snd mr))) (pr_ballots pr))
            (map (fun mr => (fst mr, map (map f) (snd mr))) (pr_eballots pr)).

Definition injective (f : Z -> Z) : Prop := forall a b, f a = f b -> a = b.

Theorem renumber_ballot_total f pr : ballot_total (renumber f pr) = ballot_total pr.
Proof.
  unfold ballot_total, renumber. cbn [pr_ballots]. induction (pr_ballots pr) as [|[m r] l IH]; [reflexivity|].
  cbn [map fold_right fst snd]. rewrite IH. destruct r; reflexivity.
Qed.

Theorem renumber_first_prefs f pr m : injective f -> first_prefs (renumber f pr) (f m) = first_prefs pr m.
Proof.
  intros Hf. unfold first_prefs, renumber. cbn [pr_ballots]. induction (pr_ballots pr) as [|[mu r] l IH]; [reflexivity|].
  cbn [map fold_right fst snd]. rewrite IH. destruct r as [|c r]; [reflexivity|]. cbn [map].
  destruct (c =? m) eqn:E.
  - apply Z.eqb_eq in E. subst c. rewrite Z.eqb_refl. reflexivity.
  - apply Z.eqb_neq in E. assert (E': (f c =? f m) = false) by (apply Z.eqb_neq; intros H; apply E, Hf, H). rewrite E'. reflexivity.
Qed.

Theorem renumber_wf f pr : injective f -> wf_profile pr -> wf_profile (renumber f pr).
Proof.
  intros Hf [Hnd Hb]. split.
  - unfold renumber. cbn [pr_cands]. rewrite map_map. cbn [pc_cid renumber_cand].
    rewrite <- (map_map pc_cid f). apply FinFun.Injective_map_NoDup; [exact Hf|exact Hnd].
  - intros m r Hin. unfold renumber in Hin. cbn [pr_ballots] in Hin. apply in_map_iff in Hin. destruct Hin as ([m0 r0] & E & Hin0).
    cbn [fst snd] in E. injection E as <- <-. destruct (Hb m0 r0 Hin0) as [Hm Hr]. split; [exact Hm|].
    intros c Hc. apply in_map_iff in Hc. destruct Hc as (c0 & <- & Hc0). destruct (Hr c0 Hc0) as (pc & Hpc & Ei & Hw).
    exists (renumber_cand f pc). split; [unfold renumber; cbn [pr_cands]; apply in_map; exact Hpc|]. split; [cbn [pc_cid renumber_cand]; rewrite Ei; reflexivity|exact Hw].
Qed.

(* withdrawn means absent, at the start: in a well-formed profile a withdrawn candidate is nobody's first preference *)
Theorem withdrawn_no_first_prefs pr w : wf_profile pr ->
  (exists pc, In pc (pr_cands pr) /\ pc_cid pc = w /\ pc_withdrawn pc = true) -> first_prefs pr w = 0.
Proof.
  intros [Hnd Hb] (pc & Hpc & Ei & Hw). unfold first_prefs.
  assert (G: forall l, (forall m r, In (m, r) l -> forall c, In c r -> c <> w) ->
             fold_right (fun mr acc => (match snd mr with c :: _ => if c =? w then fst mr else 0 | [] => 0 end) + acc) 0 l = 0).
  { induction l as [|[m r] l IH]; intros H; [reflexivity|]. cbn [fold_right fst snd]. rewrite IH by (intros m' r' H' c Hc; exact (H m' r' (or_intror H') c Hc)).
    destruct r as [|c r]; [reflexivity|]. pose proof (H m (c :: r) (or_introl eq_refl) c (or_introl eq_refl)) as Hne.
    destruct (c =? w) eqn:E; [apply Z.eqb_eq in E; contradiction|reflexivity]. }
  apply G. intros m r Hin c Hc Ecw. destruct (Hb m r Hin) as [_ Hr]. destruct (Hr c Hc) as (pc' & Hpc' & Ei' & Hw').
  assert (pc' = pc).
  { clear -Hnd Hpc Hpc' Ei Ei' Ecw. assert (Eid: pc_cid pc' = pc_cid pc) by congruence. revert Hnd Hpc Hpc' Eid. generalize (pr_cands pr). intros L.
    induction L as [|x L IH]; intros Hnd H1 H2 Eid; [contradiction|]. cbn [map] in Hnd. inversion Hnd as [|? ? Hn Hnd']; subst.
    destruct H1 as [->|H1], H2 as [->|H2]; [reflexivity| | |apply IH; assumption].
    - exfalso. apply Hn. rewrite <- Eid. apply in_map. exact H2.
    - exfalso. apply Hn. rewrite Eid. apply in_map. exact H1. }
  subst pc'. congruence.
Qed.
