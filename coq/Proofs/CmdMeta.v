(* Meta-theorems about command trees: an invariant preserved by every micro-operation is
   preserved by every run (exec_inv); two equally shaped trees whose micro-operations and
   guards respect a relation run in lockstep (exec_sim). *)
From Coq Require Import ZArith List Bool PArith.
From Droop Require Import Model.Prelude.
Import ListNotations.

Section Inv.
Variable St : Type.
Variable crashed : St -> bool.
Variable Inv : St -> Prop.

Fixpoint pres (c : cmd St) : Prop :=
  match c with
  | Do f => forall s, Inv s -> Inv (f s)
  | Seq a b | Ite _ a b => pres a /\ pres b
  | While _ b => pres b
  | _ => True
  end.

Lemma iter_once_inv run g s r :
  (forall s s' k, Inv s -> run s = Some (s', k) -> Inv s') ->
  Inv s -> iter_once St run g s = Some r -> Inv (fst (fst r)).
Proof.
  intros Hrun Hi. unfold iter_once. destruct (g s).
  - destruct (run s) as [[s' k]|] eqn:E; [|discriminate].
    pose proof (Hrun _ _ _ Hi E) as Hi'. destruct k; intros H; inversion H; subst; exact Hi'.
  - intros H; inversion H; subst; exact Hi.
Qed.

Lemma loopP_inv run g :
  (forall s s' k, Inv s -> run s = Some (s', k) -> Inv s') ->
  forall p s r, Inv s -> loopP St run g p s = Some r -> Inv (fst (fst r)).
Proof.
  intros Hrun. induction p as [q IH|q IH|]; intros s r Hi H; cbn [loopP] in H.
  - destruct (iter_once St run g s) as [[[s1 b1] k1]|] eqn:E1; [|discriminate].
    pose proof (iter_once_inv run g s _ Hrun Hi E1) as Hi1. cbn in Hi1.
    destruct b1; [|inversion H; subst; exact Hi1].
    destruct (loopP St run g q s1) as [[[s2 b2] k2]|] eqn:E2; [|discriminate].
    pose proof (IH _ _ Hi1 E2) as Hi2. cbn in Hi2.
    destruct b2; [|inversion H; subst; exact Hi2].
    exact (IH _ _ Hi2 H).
  - destruct (loopP St run g q s) as [[[s1 b1] k1]|] eqn:E1; [|discriminate].
    pose proof (IH _ _ Hi E1) as Hi1. cbn in Hi1.
    destruct b1; [|inversion H; subst; exact Hi1].
    exact (IH _ _ Hi1 H).
  - exact (iter_once_inv run g s _ Hrun Hi H).
Qed.

Theorem exec_inv : forall c fuel s s' k,
  pres c -> Inv s -> exec crashed fuel c s = Some (s', k) -> Inv s'.
Proof.
  induction c as [f|a IHa b IHb|g a IHa b IHb|g body IH| | |]; intros fuel s s' k Hp Hi He; cbn [exec pres] in *.
  - inversion He; subst. apply Hp; exact Hi.
  - destruct Hp as [Ha Hb]. destruct (exec crashed fuel a s) as [[s1 k1]|] eqn:E1; [|discriminate].
    pose proof (IHa _ _ _ _ Ha Hi E1) as Hi1.
    destruct k1; try (inversion He; subst; exact Hi1). exact (IHb _ _ _ _ Hb Hi1 He).
  - destruct Hp as [Ha Hb]. destruct (g s); [exact (IHa _ _ _ _ Ha Hi He) | exact (IHb _ _ _ _ Hb Hi He)].
  - destruct (loopP St (exec crashed fuel body) g fuel s) as [[[s1 b1] k1]|] eqn:E1; [|discriminate].
    assert (Hi1: Inv s1).
    { pose proof (loopP_inv (exec crashed fuel body) g (fun x y z Hx Hy => IH fuel x y z Hp Hx Hy) fuel s _ Hi E1) as H.
      exact H. }
    destruct b1; [discriminate|]. inversion He; subst; exact Hi1.
  - inversion He; subst; exact Hi.
  - inversion He; subst; exact Hi.
  - inversion He; subst; exact Hi.
Qed.
End Inv.

(* a relational version: a step relation that is reflexive and transitive and holds across every
   micro-operation holds between the start and the end of every run (used for monotone history) *)
Section Step.
Variable St : Type.
Variable crashed : St -> bool.
Variable R : St -> St -> Prop.
Hypothesis R_refl : forall s, R s s.
Hypothesis R_trans : forall a b c, R a b -> R b c -> R a c.

Fixpoint steps (c : cmd St) : Prop :=
  match c with
  | Do f => forall s, R s (f s)
  | Seq a b | Ite _ a b => steps a /\ steps b
  | While _ b => steps b
  | _ => True
  end.

Theorem exec_steps : forall c fuel s s' k, steps c -> exec crashed fuel c s = Some (s', k) -> R s s'.
Proof.
  intros c fuel s s' k Hs He.
  apply (exec_inv St crashed (fun x => R s x) c fuel s s' k); [|apply R_refl|exact He].
  clear He. induction c as [f|a IHa b IHb|g a IHa b IHb|g body IH| | |]; cbn [pres steps] in *; auto.
  - intros x Hx. exact (R_trans _ _ _ Hx (Hs x)).
  - destruct Hs; split; auto.
  - destruct Hs; split; auto.
Qed.
End Step.

(* lockstep simulation between two trees of the same shape *)
Section Sim.
Variables S1 S2 : Type.
Variable cr1 : S1 -> bool.
Variable cr2 : S2 -> bool.
Variable R : S1 -> S2 -> Prop.
Hypothesis R_crash : forall a b, R a b -> cr1 a = cr2 b.

Inductive sim : cmd S1 -> cmd S2 -> Prop :=
| sDo f1 f2 : (forall a b, R a b -> R (f1 a) (f2 b)) -> sim (Do f1) (Do f2)
| sSeq a1 b1 a2 b2 : sim a1 a2 -> sim b1 b2 -> sim (Seq a1 b1) (Seq a2 b2)
| sIte g1 g2 a1 b1 a2 b2 : (forall a b, R a b -> g1 a = g2 b) -> sim a1 a2 -> sim b1 b2 ->
    sim (Ite g1 a1 b1) (Ite g2 a2 b2)
| sWhile g1 g2 b1 b2 : (forall a b, R a b -> g1 a = g2 b) -> sim b1 b2 -> sim (While g1 b1) (While g2 b2)
| sBrk : sim Break Break | sCont : sim Continue Continue | sSkip : sim Skip Skip.

Definition Rres (r1 : option (S1 * ctl)) (r2 : option (S2 * ctl)) : Prop :=
  match r1, r2 with
  | Some (a, k1), Some (b, k2) => R a b /\ k1 = k2
  | None, None => True
  | _, _ => False
  end.
Definition Rres3 (r1 : option (S1 * bool * ctl)) (r2 : option (S2 * bool * ctl)) : Prop :=
  match r1, r2 with
  | Some (a, w1, k1), Some (b, w2, k2) => R a b /\ w1 = w2 /\ k1 = k2
  | None, None => True
  | _, _ => False
  end.

Lemma iter_once_sim run1 run2 g1 g2 :
  (forall a b, R a b -> g1 a = g2 b) ->
  (forall a b, R a b -> Rres (run1 a) (run2 b)) ->
  forall a b, R a b -> Rres3 (iter_once S1 run1 g1 a) (iter_once S2 run2 g2 b).
Proof.
  intros Hg Hrun a b HR. unfold iter_once. rewrite (Hg a b HR). destruct (g2 b); [|cbn; auto].
  specialize (Hrun a b HR). destruct (run1 a) as [[x k]|], (run2 b) as [[y k']|]; cbn in *; try tauto.
  destruct Hrun as [HR' ->]. destruct k'; cbn; auto.
Qed.

Lemma loopP_sim run1 run2 g1 g2 :
  (forall a b, R a b -> g1 a = g2 b) ->
  (forall a b, R a b -> Rres (run1 a) (run2 b)) ->
  forall p a b, R a b -> Rres3 (loopP S1 run1 g1 p a) (loopP S2 run2 g2 p b).
Proof.
  intros Hg Hrun. induction p as [q IH|q IH|]; intros a b HR; cbn [loopP].
  - pose proof (iter_once_sim run1 run2 g1 g2 Hg Hrun a b HR) as H1.
    destruct (iter_once S1 run1 g1 a) as [[[x w] k]|], (iter_once S2 run2 g2 b) as [[[y w'] k']|]; cbn in H1; try tauto.
    destruct H1 as (HR1 & -> & ->). destruct w'; [|cbn; auto].
    pose proof (IH x y HR1) as H2.
    destruct (loopP S1 run1 g1 q x) as [[[x2 w2] k2]|], (loopP S2 run2 g2 q y) as [[[y2 w2'] k2']|]; cbn in H2; try tauto.
    destruct H2 as (HR2 & -> & ->). destruct w2'; [apply IH; exact HR2|cbn; auto].
  - pose proof (IH a b HR) as H1.
    destruct (loopP S1 run1 g1 q a) as [[[x w] k]|], (loopP S2 run2 g2 q b) as [[[y w'] k']|]; cbn in H1; try tauto.
    destruct H1 as (HR1 & -> & ->). destruct w'; [apply IH; exact HR1|cbn; auto].
  - apply iter_once_sim; assumption.
Qed.

Theorem exec_sim : forall c1 c2, sim c1 c2 -> forall fuel a b, R a b ->
  Rres (exec cr1 fuel c1 a) (exec cr2 fuel c2 b).
Proof.
  induction 1 as [f1 f2 Hf|a1 b1 a2 b2 Ha IHa Hb IHb|g1 g2 a1 b1 a2 b2 Hg Ha IHa Hb IHb|g1 g2 b1 b2 Hg Hb IHb| | |];
    intros fuel a b HR; cbn [exec].
  - cbn. split; [apply Hf; exact HR|]. rewrite (R_crash _ _ (Hf a b HR)). reflexivity.
  - specialize (IHa fuel a b HR).
    destruct (exec cr1 fuel a1 a) as [[x k]|], (exec cr2 fuel a2 b) as [[y k']|]; cbn in IHa; try tauto.
    destruct IHa as [HR' ->]. destruct k'; cbn; auto.
  - rewrite (Hg a b HR). destruct (g2 b); auto.
  - pose proof (loopP_sim (exec cr1 fuel b1) (exec cr2 fuel b2) g1 g2 Hg (IHb fuel) fuel a b HR) as H.
    destruct (loopP S1 (exec cr1 fuel b1) g1 fuel a) as [[[x w] k]|], (loopP S2 (exec cr2 fuel b2) g2 fuel b) as [[[y w'] k']|];
      cbn in H; try tauto.
    destruct H as (HR' & -> & ->). destruct w'; cbn; auto.
  - cbn; auto.
  - cbn; auto.
  - cbn; auto.
Qed.
End Sim.

(* a small Hoare logic over exec: postconditions indexed by the control outcome *)
Section Hoare.
Variable St : Type.
Variable crashed : St -> bool.

Definition triple (P : St -> Prop) (c : cmd St) (Qn Qb Qc : St -> Prop) : Prop :=
  forall fuel s s' k, P s -> exec crashed fuel c s = Some (s', k) ->
    match k with Next => Qn s' | Brk => Qb s' | Cont => Qc s' | Abort => True end.

Lemma t_do (P : St -> Prop) f (Qn Qb Qc : St -> Prop) : (forall s, P s -> Qn (f s)) -> triple P (Do f) Qn Qb Qc.
Proof. intros H fuel s s' k HP He. cbn in He. inversion He; subst. destruct (crashed (f s)); [exact I|apply H; exact HP]. Qed.
Lemma t_do_nc (P : St -> Prop) f (Qn Qb Qc : St -> Prop) :
  (forall s, P s -> crashed (f s) = false -> Qn (f s)) -> triple P (Do f) Qn Qb Qc.
Proof.
  intros H fuel s s' k HP He. cbn in He. inversion He; subst. destruct (crashed (f s)) eqn:C; [exact I|apply H; assumption].
Qed.
Lemma t_skip (P Qb Qc : St -> Prop) : triple P Skip P Qb Qc.
Proof. intros fuel s s' k HP He. cbn in He. inversion He; subst. exact HP. Qed.
Lemma t_break (P Qn Qc : St -> Prop) : triple P Break Qn P Qc.
Proof. intros fuel s s' k HP He. cbn in He. inversion He; subst. exact HP. Qed.
Lemma t_continue (P Qn Qb : St -> Prop) : triple P Continue Qn Qb P.
Proof. intros fuel s s' k HP He. cbn in He. inversion He; subst. exact HP. Qed.
Lemma t_seq (P M : St -> Prop) a b (Qn Qb Qc : St -> Prop) : triple P a M Qb Qc -> triple M b Qn Qb Qc -> triple P (Seq a b) Qn Qb Qc.
Proof.
  intros Ha Hb fuel s s' k HP He. cbn in He.
  destruct (exec crashed fuel a s) as [[s1 k1]|] eqn:E1; [|discriminate].
  pose proof (Ha fuel s s1 k1 HP E1) as H1.
  destruct k1; try (inversion He; subst; exact H1). exact (Hb fuel s1 s' k H1 He).
Qed.
Lemma t_ite (P : St -> Prop) g a b (Qn Qb Qc : St -> Prop) :
  triple (fun s => P s /\ g s = true) a Qn Qb Qc -> triple (fun s => P s /\ g s = false) b Qn Qb Qc ->
  triple P (Ite g a b) Qn Qb Qc.
Proof.
  intros Ha Hb fuel s s' k HP He. cbn in He. destruct (g s) eqn:G; [exact (Ha fuel s s' k (conj HP G) He)|exact (Hb fuel s s' k (conj HP G) He)].
Qed.
Lemma t_conseq (P P' : St -> Prop) c (Qn Qn' Qb Qb' Qc Qc' : St -> Prop) :
  (forall s, P' s -> P s) -> (forall s, Qn s -> Qn' s) -> (forall s, Qb s -> Qb' s) -> (forall s, Qc s -> Qc' s) ->
  triple P c Qn Qb Qc -> triple P' c Qn' Qb' Qc'.
Proof. intros HP Hn Hb Hc H fuel s s' k HP' He. specialize (H fuel s s' k (HP _ HP') He). destruct k; auto. Qed.
Lemma t_skip' (P Qn Qb Qc : St -> Prop) : (forall s, P s -> Qn s) -> triple P Skip Qn Qb Qc.
Proof. intros H fuel s s' k HP He. cbn in He. inversion He; subst. apply H; exact HP. Qed.
Lemma t_break' (P Qn Qb Qc : St -> Prop) : (forall s, P s -> Qb s) -> triple P Break Qn Qb Qc.
Proof. intros H fuel s s' k HP He. cbn in He. inversion He; subst. apply H; exact HP. Qed.
Lemma t_continue' (P Qn Qb Qc : St -> Prop) : (forall s, P s -> Qc s) -> triple P Continue Qn Qb Qc.
Proof. intros H fuel s s' k HP He. cbn in He. inversion He; subst. apply H; exact HP. Qed.
Lemma t_pre (P P' : St -> Prop) c (Qn Qb Qc : St -> Prop) : (forall s, P' s -> P s) -> triple P c Qn Qb Qc -> triple P' c Qn Qb Qc.
Proof. intros HP H fuel s s' k HP' He. exact (H fuel s s' k (HP _ HP') He). Qed.
Lemma t_post (P : St -> Prop) c (Qn Qn' Qb Qc : St -> Prop) : (forall s, Qn s -> Qn' s) -> triple P c Qn Qb Qc -> triple P c Qn' Qb Qc.
Proof. intros Hn H fuel s s' k HP He. specialize (H fuel s s' k HP He). destruct k; auto. Qed.
Lemma t_any (P : St -> Prop) c : triple P c (fun _ => True) (fun _ => True) (fun _ => True).
Proof. intros fuel s s' k _ _. destruct k; exact I. Qed.

(* while: I holds at every loop head; the loop ends when the guard fails (I /\ ~g) or the body breaks (X) *)
Section While.
Variables (I X : St -> Prop) (g : St -> bool) (body : cmd St) (fuel : positive).
Hypothesis Hbody : triple (fun s => I s /\ g s = true) body I X I.

Definition LP (r : St * bool * ctl) : Prop :=
  match r with
  | (s1, w, k1) => (k1 = Abort /\ w = false) \/
                   (k1 = Next /\ if w then I s1 else (X s1 \/ (I s1 /\ g s1 = false)))
  end.

Lemma iter_LP s0 r : I s0 -> iter_once St (exec crashed fuel body) g s0 = Some r -> LP r.
Proof.
  intros HI0. unfold iter_once. destruct (g s0) eqn:G.
  - destruct (exec crashed fuel body s0) as [[s1 k1]|] eqn:E; [|discriminate].
    pose proof (Hbody fuel s0 s1 k1 (conj HI0 G) E) as H1.
    destruct k1; intros H'; inversion H'; subst; cbn; auto.
  - intros H'; inversion H'; subst. cbn. right. split; [reflexivity|]. right; auto.
Qed.

Lemma loop_LP p : forall s0 r, I s0 -> loopP St (exec crashed fuel body) g p s0 = Some r -> LP r.
Proof.
  induction p as [q IH|q IH|]; intros s0 r HI0 H; cbn [loopP] in H.
  - destruct (iter_once St (exec crashed fuel body) g s0) as [[[s1 w1] k1]|] eqn:E1; [|discriminate].
    pose proof (iter_LP _ _ HI0 E1) as H1.
    destruct w1; [|inversion H; subst; exact H1].
    destruct H1 as [[_ Hw]|[_ HI1]]; [discriminate|].
    destruct (loopP St (exec crashed fuel body) g q s1) as [[[s2 w2] k2]|] eqn:E2; [|discriminate].
    pose proof (IH _ _ HI1 E2) as H2.
    destruct w2; [|inversion H; subst; exact H2].
    destruct H2 as [[_ Hw]|[_ HI2]]; [discriminate|]. exact (IH _ _ HI2 H).
  - destruct (loopP St (exec crashed fuel body) g q s0) as [[[s1 w1] k1]|] eqn:E1; [|discriminate].
    pose proof (IH _ _ HI0 E1) as H1.
    destruct w1; [|inversion H; subst; exact H1].
    destruct H1 as [[_ Hw]|[_ HI1]]; [discriminate|]. exact (IH _ _ HI1 H).
  - exact (iter_LP _ _ HI0 H).
Qed.
End While.

Lemma t_while (I X : St -> Prop) g body (Qb Qc : St -> Prop) :
  triple (fun s => I s /\ g s = true) body I X I ->
  triple I (While g body) (fun s => X s \/ (I s /\ g s = false)) Qb Qc.
Proof.
  intros Hbody fuel s s' k HI He. cbn [exec] in He.
  destruct (loopP St (exec crashed fuel body) g fuel s) as [[[s1 w1] k1]|] eqn:E1; [|discriminate].
  pose proof (loop_LP I X g body fuel Hbody fuel s _ HI E1) as H1.
  destruct w1; [discriminate|]. inversion He; subst.
  destruct H1 as [[-> _]|[-> H1]]; [exact Logic.I|exact H1].
Qed.
End Hoare.
