(* C15Proofs: text-level corollaries combining TokenizerLemmas and RenderLemmas. *)
From Coq Require Import ZArith String Ascii List Bool Lia.
From Droop Require Import Model.KernelBase Model.Profile Model.ProfileSpec Proofs.TokenizerLemmas Proofs.ParserLemmas Proofs.RenderLemmas.
Import ListNotations.
Open Scope Z_scope.

(* a rendering laid out with arbitrary whitespace is read as the election it denotes, provided the
   token sequence is one the comment / quote machinery of __bltBlob passes through unchanged *)
Lemma c15_text_level : forall e toks l trail,
  valid_election e -> renders e toks -> layout_ok true l -> is_ws trail -> map snd l = toks ->
  hash_free toks 0 false -> tok_flat toks = toks ->
  parse (layout_text l trail) = Ok (norm e).
Proof.
  intros e toks l trail Hv Hr Hl Htr Hm Hf Hflat.
  assert (Htok : tokenize (layout_text l trail) = toks).
  { rewrite (c15_tokenize_layout l trail Hl Htr); rewrite Hm; assumption. }
  unfold parse. destruct (layout_text l trail) as [|c t] eqn:E.
  - exfalso. assert (Hnil : tokenize [] = []) by reflexivity. rewrite Hnil in Htok.
    destruct Hr as (junk & _ & dn & ds & wds & btoks & dz & _ & _ & _ & _ & _ & Heq). rewrite Heq in Htok. discriminate Htok.
  - rewrite Htok. apply c15_parse_rendered; assumption.
Qed.

(* any two such layouts of the same rendering are read as the same profile *)
Lemma c15_two_texts : forall e toks l1 tr1 l2 tr2,
  valid_election e -> renders e toks ->
  layout_ok true l1 -> is_ws tr1 -> map snd l1 = toks -> layout_ok true l2 -> is_ws tr2 -> map snd l2 = toks ->
  hash_free toks 0 false -> tok_flat toks = toks ->
  parse (layout_text l1 tr1) = parse (layout_text l2 tr2).
Proof.
  intros. rewrite (c15_text_level e toks l1 tr1) by assumption. rewrite (c15_text_level e toks l2 tr2) by assumption.
  reflexivity.
Qed.

(* ------------------------------------------------------------------ rendered tokens pass through __bltBlob *)
(* [passes toks]: met outside quotes and comments, the run of tokens is yielded unchanged, ends outside
   quotes and comments, and opens no # comment *)
Definition passes (toks : list ustr) : Prop := forall rest,
  tok_line (toks ++ rest) 0 false = (let '(o, a, b) := tok_line rest 0 false in (toks ++ o, a, b)) /\
  (hash_free rest 0 false -> hash_free (toks ++ rest) 0 false).

Lemma passes_nil : passes [].
Proof. intro rest. cbn [app]. destruct (tok_line rest 0 false) as [[o a] b]. auto. Qed.

Lemma passes_app a b : passes a -> passes b -> passes (a ++ b).
Proof.
  intros Ha Hb rest. rewrite <- app_assoc. destruct (Ha (b ++ rest)) as [Ha1 Ha2]. destruct (Hb rest) as [Hb1 Hb2].
  split.
  - rewrite Ha1, Hb1. destruct (tok_line rest 0 false) as [[o x] y]. rewrite <- app_assoc. reflexivity.
  - intro H. apply Ha2. apply Hb2. exact H.
Qed.

Lemma passes_concat segs : Forall passes segs -> passes (concat segs).
Proof. induction 1 as [|s segs Hs _ IH]; [apply passes_nil | cbn [concat]; apply passes_app; assumption]. Qed.

Lemma passes_step t : tok_step t 0 false = (TYield, 0, false) -> passes [t].
Proof.
  intros Hs rest. cbn [app tok_line hash_free]. rewrite Hs. destruct (tok_line rest 0 false) as [[o a] b]. auto.
Qed.

Definition plain (t : ustr) : Prop :=
  starts_with [cQUOTE] t = false /\ starts_with [cSLASH; cSTAR] t = false /\ starts_with [cHASH] t = false.

Lemma tok_step_plain t : plain t -> tok_step t 0 false = (TYield, 0, false).
Proof. intros (H1 & H2 & H3). unfold tok_step. rewrite H1, H2, H3. reflexivity. Qed.

Lemma starts_with_cons_eq k p x r : starts_with (k :: p) (x :: r) = (k =? x) && starts_with p r.
Proof. reflexivity. Qed.

Lemma plain_first c r : c <> cQUOTE -> c <> cSLASH -> c <> cHASH -> plain (c :: r).
Proof.
  intros H1 H2 H3. unfold plain. rewrite !starts_with_cons_eq.
  assert (E1 : (cQUOTE =? c) = false) by (apply Z.eqb_neq; congruence).
  assert (E2 : (cSLASH =? c) = false) by (apply Z.eqb_neq; congruence).
  assert (E3 : (cHASH =? c) = false) by (apply Z.eqb_neq; congruence).
  rewrite E1, E2, E3. auto.
Qed.

Lemma digit_plain_char c : is_digit c = true -> c <> cQUOTE /\ c <> cSLASH /\ c <> cHASH.
Proof. intro H. repeat split; intro E; subst c; vm_compute in H; discriminate H. Qed.

Lemma plain_digits d : all_digits d = true -> plain d.
Proof.
  intro H. apply all_digits_cons in H. destruct H as [c [r [-> [Hc _]]]].
  destruct (digit_plain_char c Hc) as (A & B & C). apply plain_first; assumption.
Qed.

Lemma plain_minus d : plain (cMINUS :: d).
Proof. apply plain_first; unfold cMINUS, cQUOTE, cSLASH, cHASH; lia. Qed.

Lemma plain_group tok g : group_token tok g -> g <> [] -> plain tok.
Proof.
  intros [ds [Hds ->]] Hne. destruct Hds as [|d c ds g Hd Hrest]; [congruence|].
  destruct Hd as (Hd & _). apply all_digits_cons in Hd. destruct Hd as [x [r [-> [Hx _]]]].
  destruct (digit_plain_char x Hx) as (A & B & C).
  destruct ds as [|d2 ds']; [cbn [join_eq]; apply plain_first; assumption|].
  change (join_eq ((x :: r) :: d2 :: ds')) with (x :: (r ++ cEQ :: join_eq (d2 :: ds'))). apply plain_first; assumption.
Qed.

Lemma passes_plain_list l : Forall plain l -> passes l.
Proof.
  induction 1 as [|t l Ht _ IH]; [apply passes_nil|]. change (t :: l) with ([t] ++ l).
  apply passes_app; [apply passes_step; apply tok_step_plain; exact Ht | exact IH].
Qed.

(* inside a quoted string: tokens up to the closing one *)
Lemma in_quote_run r : r <> [] -> Forall word_ok r -> forall rest,
  tok_line (add_close r ++ rest) 0 true = (let '(o, a, b) := tok_line rest 0 false in (add_close r ++ o, a, b)) /\
  (hash_free rest 0 false -> hash_free (add_close r ++ rest) 0 true).
Proof.
  induction r as [|w r IH]; intros Hne Hok rest; [congruence|].
  inversion Hok as [|? ? [Hwne Hwq] Hr]; subst. destruct r as [|w2 r'].
  - cbn [add_close app tok_line hash_free].
    assert (Hs : tok_step (w ++ [cQUOTE]) 0 true = (TYield, 0, false)).
    { unfold tok_step. rewrite ends_with_snoc. destruct ((0 =? 0) && starts_with [cQUOTE] (w ++ [cQUOTE])); reflexivity. }
    rewrite Hs. destruct (tok_line rest 0 false) as [[o a] b]. auto.
  - change (add_close (w :: w2 :: r')) with (w :: add_close (w2 :: r')). cbn [app tok_line hash_free].
    assert (Hs : tok_step w 0 true = (TYield, 0, true)).
    { unfold tok_step. rewrite (ends_with_notin cQUOTE w Hwq).
      destruct ((0 =? 0) && starts_with [cQUOTE] w); reflexivity. }
    rewrite Hs. destruct (IH ltac:(discriminate) Hr rest) as [I1 I2]. rewrite I1.
    destruct (tok_line rest 0 false) as [[o a] b]. auto.
Qed.

Lemma passes_quoted ws : Forall word_ok ws -> passes (quoted_tokens ws).
Proof.
  intros Hok rest. destruct ws as [|w r].
  - cbn [quoted_tokens app tok_line hash_free].
    assert (Hs : tok_step [cQUOTE; cQUOTE] 0 false = (TYield, 0, false)) by reflexivity.
    rewrite Hs. destruct (tok_line rest 0 false) as [[o a] b]. auto.
  - inversion Hok as [|? ? [Hwne Hwq] Hr]; subst. destruct r as [|w2 r'].
    + cbn [quoted_tokens add_close app tok_line hash_free].
      assert (Hs : tok_step (cQUOTE :: w ++ [cQUOTE]) 0 false = (TYield, 0, false)).
      { change (cQUOTE :: w ++ [cQUOTE]) with ((cQUOTE :: w) ++ [cQUOTE]).
        unfold tok_step. rewrite ends_with_snoc. cbn [app]. rewrite starts_with1. reflexivity. }
      rewrite Hs. destruct (tok_line rest 0 false) as [[o a] b]. auto.
    + change (quoted_tokens (w :: w2 :: r')) with ((cQUOTE :: w) :: add_close (w2 :: r')).
      cbn [app tok_line hash_free].
      assert (Hs : tok_step (cQUOTE :: w) 0 false = (TYield, 0, true)).
      { unfold tok_step. rewrite starts_with1.
        assert (E : ends_with [cQUOTE] (cQUOTE :: w) = false).
        { change (cQUOTE :: w) with ([cQUOTE] ++ w). rewrite ends_with_app by exact Hwne. apply ends_with_notin. exact Hwq. }
        rewrite E. reflexivity. }
      rewrite Hs. destruct (in_quote_run (w2 :: r') ltac:(discriminate) Hr rest) as [I1 I2]. rewrite I1.
      destruct (tok_line rest 0 false) as [[o a] b]. auto.
Qed.

(* a rendering with nothing after its last string passes through the tokenizer unchanged *)
Lemma passes_rendered e toks : valid_election e -> renders_with e [] toks -> passes toks.
Proof.
  intros Hv (dn & ds & wds & btoks & dz & Hdn & Hds & Hwds & Hbt & Hdz & ->).
  destruct Hv as [Hn [Hwr Hwnd] Hbs Hsmall Hnms Htitle Hsrc Hcom _ _ _ _].
  change (dn :: ds :: ?x) with ([dn; ds] ++ x).
  apply passes_app.
  { apply passes_plain_list. constructor; [apply plain_digits; destruct Hdn; assumption|].
    constructor; [apply plain_digits; destruct Hds; assumption | constructor]. }
  apply passes_app. { apply passes_plain_list. apply Forall_forall. intros t Ht. apply in_map_iff in Ht. destruct Ht as [d [<- _]]. apply plain_minus. }
  apply passes_app.
  { apply passes_plain_list. clear -Hbt Hbs. induction Hbt as [|toks b btoks bs Hb _ IH]; [constructor|].
    inversion Hbs as [|? ? [_ Hg] Hbs']; subst. cbn [concat]. apply Forall_app. split; [|apply IH; exact Hbs'].
    destruct Hb as [dm [gtoks (Hdm & Hgt & ->)]]. constructor; [apply plain_digits; destruct Hdm; assumption|].
    apply Forall_app. split.
    - clear -Hgt Hg. induction Hgt as [|tok g gtoks gs Htg _ IH2]; [constructor|].
      inversion Hg as [|? ? [Hne _] Hg']; subst. constructor; [eapply plain_group; eassumption | apply IH2; exact Hg'].
    - constructor; [|constructor]. apply plain_first; unfold cZERO, cQUOTE, cSLASH, cHASH; lia. }
  change (dz :: ?x) with ([dz] ++ x).
  apply passes_app. { apply passes_plain_list. constructor; [apply plain_digits; destruct Hdz; assumption | constructor]. }
  apply passes_app. { apply passes_concat. apply Forall_forall. intros s Hs. apply in_map_iff in Hs. destruct Hs as [ws [<- Hws]].
                      apply passes_quoted. rewrite Forall_forall in Hnms. apply Hnms. exact Hws. }
  apply passes_app. { apply passes_quoted. exact Htitle. }
  apply passes_app. { destruct (e_source e) as [ws|]; [apply passes_quoted; exact Hsrc | apply passes_nil]. }
  apply passes_app. { destruct (e_comment e) as [ws|]; [apply passes_quoted; exact Hcom | apply passes_nil]. }
  apply passes_nil.
Qed.

Lemma passes_flat toks : passes toks -> hash_free toks 0 false /\ tok_flat toks = toks.
Proof.
  intro H. destruct (H []) as [H1 H2]. rewrite app_nil_r in H1, H2. split; [apply H2; exact I|].
  unfold tok_flat. rewrite H1. cbn. apply app_nil_r.
Qed.

Lemma renders_with_nil e toks : renders_with e [] toks -> renders e toks.
Proof. intro H. exists []. split; [exact I | exact H]. Qed.

(* every whitespace layout of every rendering (nothing after the last string) of a valid election is
   read as that election *)
Lemma c15_text_level_plain : forall e toks l trail,
  valid_election e -> renders_with e [] toks -> layout_ok true l -> is_ws trail -> map snd l = toks ->
  parse (layout_text l trail) = Ok (norm e).
Proof.
  intros e toks l trail Hv Hr Hl Htr Hm.
  destruct (passes_flat toks (passes_rendered e toks Hv Hr)) as [Hf Hflat].
  apply (c15_text_level e toks l trail Hv (renders_with_nil e toks Hr) Hl Htr Hm Hf Hflat).
Qed.

(* a # comment or a balanced nested comment between two tokens of a line changes nothing (tok_line level) *)
Lemma c15_comment_between : forall pre blk post out,
  tok_line pre 0 false = (out, 0, false) -> hash_free pre 0 false -> comment_run blk 0 = Some 0 ->
  tok_line (pre ++ blk ++ post) 0 false = (let '(o, a, b) := tok_line post 0 false in (out ++ o, a, b)).
Proof.
  intros pre blk post out Hpre Hf Hblk. rewrite (tok_line_app pre (blk ++ post) 0 false Hf). rewrite Hpre.
  rewrite (c15_comment_block_balanced blk post Hblk). reflexivity.
Qed.

Lemma c15_norm_valid : forall e toks, valid_election e -> renders e toks -> valid_profile (norm e).
Proof.
  intros e toks Hv Hr. pose proof (parse_tokens_spec toks) as H. rewrite (c15_parse_rendered e toks Hv Hr) in H. exact H.
Qed.

(* ------------------------------------------------------------------ the example election *)
Lemma ex_election_norm : norm ex_election = ex_election_profile.
Proof. vm_compute. reflexivity. Qed.

Ltac solve_denotes := split; [vm_compute; reflexivity | split; [vm_compute; reflexivity | vm_compute; let HH := fresh in (intro HH; discriminate HH)]].
Ltac solve_word := split; [let HH := fresh in (intro HH; discriminate HH) | cbv; intuition lia].

Lemma ex_election_valid : valid_election ex_election.
Proof.
  constructor; try rewrite ex_election_norm; cbn [ex_election e_nCand e_nSeats e_withdrawn e_ballots e_names e_title e_source e_comment
                                           ex_election_profile p_eligible p_nBallots p_lines p_linesEq List.length].
  - reflexivity.
  - split; [constructor; [unfold in_range; lia | constructor] | constructor; [intros [] | constructor]].
  - repeat (constructor; cbn [fst snd]); unfold in_range; try lia; try (intro HH; discriminate HH).
  - lia.
  - repeat (constructor; try solve_word).
  - repeat (constructor; try solve_word).
  - repeat (constructor; try solve_word).
  - exact I.
  - lia.
  - lia.
  - repeat constructor; cbn; intuition lia.
  - repeat constructor; cbn; intuition lia.
Qed.

Lemma ex_election_renders : renders_with ex_election [] ex_election_tokens.
Proof.
  exists (ustr_of_string "3"), (ustr_of_string "02"), [ustr_of_string "3"],
         [map ustr_of_string ["2"; "1=2"; "3"; "0"]%string; map ustr_of_string ["1"; "2"; "0"]%string;
          map ustr_of_string ["01"; "3"; "0"]%string], (ustr_of_string "00").
  split; [solve_denotes|]. split; [solve_denotes|]. split; [constructor; [solve_denotes | constructor]|].
  split.
  { constructor.
    { exists (ustr_of_string "2"), [ustr_of_string "1=2"; ustr_of_string "3"]. split; [solve_denotes|]. split; [|reflexivity].
      constructor; [exists [ustr_of_string "1"; ustr_of_string "2"]; split; [repeat (constructor; try solve_denotes) | reflexivity]|].
      constructor; [exists [ustr_of_string "3"]; split; [repeat (constructor; try solve_denotes) | reflexivity] | constructor]. }
    constructor.
    { exists (ustr_of_string "1"), [ustr_of_string "2"]. split; [solve_denotes|]. split; [|reflexivity].
      constructor; [exists [ustr_of_string "2"]; split; [repeat (constructor; try solve_denotes) | reflexivity] | constructor]. }
    constructor; [|constructor].
    exists (ustr_of_string "01"), [ustr_of_string "3"]. split; [solve_denotes|]. split; [|reflexivity].
    constructor; [exists [ustr_of_string "3"]; split; [repeat (constructor; try solve_denotes) | reflexivity] | constructor]. }
  split; [solve_denotes|]. vm_compute. reflexivity.
Qed.
