(* C18, whole run, every rule and arithmetic: the record of a count begins with the start of the count and ends with its
   completion.  (1) The oldest action that carries a snapshot is the 'begin' action (Minneapolis, which has none: its first
   'round' action); everything older is the log lines of the candidate roll.  (2) A count that ends normally ends with the
   'end' action "Count Complete", whose snapshot shows exactly the statuses, pending flags and quota of the final state. *)
From Coq Require Import ZArith List Bool String Lia Sorted.
From Droop Require Import Model.KernelBase Model.Str Model.Arith Model.Prelude Model.State Model.Prims
  Model.RulesGregory Model.RulesMeek Model.Election Proofs.CmdMeta Proofs.Hist Proofs.Forward Proofs.QHist Proofs.ConserveCount.
Import ListNotations.
Open Scope Z_scope.

Section Audit.
Variable A : arith.
Variable cfg : config.
Notation est := (est A).

(* generic facts about exec *)
Lemma exec_do_seq (f : est -> est) c fuel s s' k :
  exec (@crashed A) fuel (Seq (Do f) c) s = Some (s', k) -> k <> Abort ->
  crashed (f s) = false /\ exec (@crashed A) fuel c (f s) = Some (s', k).
Proof.
  cbn [exec]. destruct (crashed (f s)) eqn:C; intros H Hk; [inversion H; subst; congruence|]. split; [reflexivity|exact H].
Qed.
Lemma exec_seq_do (f : est -> est) c fuel s s' :
  exec (@crashed A) fuel (Seq c (Do f)) s = Some (s', Next) ->
  exists s1, exec (@crashed A) fuel c s = Some (s1, Next) /\ s' = f s1.
Proof.
  cbn [exec]. destruct (exec (@crashed A) fuel c s) as [[s1 k1]|]; [|discriminate].
  destruct k1; intros H; try discriminate. exists s1. split; [reflexivity|]. cbn in H. destruct (crashed (f s1)); inversion H; reflexivity.
Qed.
Lemma exec_seq_any a b fuel s s' k :
  exec (@crashed A) fuel (Seq a b) s = Some (s', k) ->
  exists s1 k1, exec (@crashed A) fuel a s = Some (s1, k1) /\
    ((k1 = Next /\ exec (@crashed A) fuel b s1 = Some (s', k)) \/ (k1 <> Next /\ s' = s1 /\ k = k1)).
Proof.
  cbn [exec]. destruct (exec (@crashed A) fuel a s) as [[s1 k1]|]; [|discriminate]. intros H. exists s1, k1. split; [reflexivity|].
  destruct k1; try (right; split; [discriminate|]; inversion H; split; reflexivity). left. split; [reflexivity|exact H].
Qed.

(* ---- the first operation of every rule adds exactly the opening action, with a snapshot ---- *)
Definition begin_tag (r : rule) : tag := match r with RMpls => TRound | _ => TBegin end.

Lemma actions_fold {X} (g : est -> X -> est) (l : list X) : (forall s x, actions (g s x) = actions s) -> forall s, actions (fold_left g l s) = actions s.
Proof. intros Hg. induction l as [|x l IH]; intros s; cbn [fold_left]; [reflexivity|]. rewrite IH. apply Hg. Qed.

Lemma log_snap_head t m (s : est) : is_log t = false ->
  exists b, actions (log_action A cfg t m s) = b :: actions s /\ a_tag b = t /\ a_snap b <> None.
Proof.
  intros Hl. unfold log_action. rewrite Hl. destruct (is_round t); eexists; (split; [reflexivity|]); (split; [reflexivity|discriminate]).
Qed.

Lemma actions_start q (s : est) : actions (start_count A (Ok q) s) = actions s.
Proof. unfold start_count. cbn [actions set_exhausted]. rewrite actions_initial_count. reflexivity. Qed.

Lemma actions_first_prefs (s : est) : actions (meek_first_prefs A s) = actions s.
Proof.
  unfold meek_first_prefs. cbv zeta. rewrite actions_fold.
  - apply actions_fold. intros s0 b. destruct (top_rank A b); reflexivity.
  - intros s0 eb. destruct (crashed s0); [reflexivity|]. destruct (erank eb) as [|top t]; [reflexivity|].
    destruct (divv A _ _); [|reflexivity]. apply actions_fold. reflexivity.
Qed.

Lemma rule_opening r : exists f rest, rule_cmd A cfg r = Seq (Do f) rest /\
  forall s, crashed (f s) = false -> exists b, actions (f s) = b :: actions s /\ a_tag b = begin_tag r /\ a_snap b <> None.
Proof.
  assert (Greg: forall qr (s : est), crashed (log_action A cfg TBegin "Begin Count" (start_count A qr s)) = false ->
            exists b, actions (log_action A cfg TBegin "Begin Count" (start_count A qr s)) = b :: actions s /\ a_tag b = TBegin /\ a_snap b <> None).
  { intros qr s Hc. destruct qr as [q|e].
    - destruct (log_snap_head TBegin "Begin Count" (start_count A (Ok q) s) eq_refl) as (b & E & T & N). exists b. rewrite E, actions_start. auto.
    - exfalso. unfold log_action, start_count in Hc. cbn [is_log is_round] in Hc. unfold crashed, set_crash in Hc. cbn in Hc. destruct (crash s); discriminate. }
  destruct r; cbn [rule_cmd begin_tag].
  - unfold wigm. eexists; eexists; split; [reflexivity|]. intros s Hc. exact (Greg _ s Hc).
  - unfold wigm_prf. eexists; eexists; split; [reflexivity|]. intros s Hc. exact (Greg _ s Hc).
  - unfold scotland. eexists; eexists; split; [reflexivity|]. intros s Hc. exact (Greg _ s Hc).
  - unfold cfer. eexists; eexists; split; [reflexivity|]. intros s Hc. exact (Greg _ s Hc).
  - unfold mpls. eexists; eexists; split; [reflexivity|]. intros s _. unfold new_round.
    destruct (log_snap_head TRound "New Round" (set_round (start_count A (Ok (integer_droop_quota A cfg)) s) (round (start_count A (Ok (integer_droop_quota A cfg)) s) + 1)) eq_refl) as (b & E & T & N).
    exists b. rewrite E. cbn [actions set_round]. rewrite actions_start. auto.
  - unfold meek. eexists; eexists; split; [reflexivity|]. intros s Hc. cbv beta in *. destruct (omega A cfg) as [o|e].
    + cbv zeta in *. set (s2 := set_quota_r A (set_votes s (of_int A (cf_nballots cfg))) (meek_quota A cfg (set_votes s (of_int A (cf_nballots cfg))))) in *.
      destruct (crashed s2) eqn:C2; [congruence|].
      destruct (log_snap_head TBegin "Begin Count" (meek_first_prefs A (init_kfs A s2)) eq_refl) as (b & E & T & N). exists b. rewrite E, actions_first_prefs.
      unfold init_kfs. cbn [actions set_cands]. unfold s2, set_quota_r. destruct (meek_quota A cfg _); auto.
    + exfalso. unfold crashed, set_crash in Hc. cbn in Hc. destruct (crash s); discriminate.
  - unfold meek_prf. eexists; eexists; split; [reflexivity|]. intros s Hc. cbv beta in *. destruct (omega A cfg) as [o|e].
    + cbv zeta in *. destruct (divv A _ _) as [q|e].
      * match type of Hc with crashed (log_action A cfg TBegin ?m ?x) = false => destruct (log_snap_head TBegin m x eq_refl) as (b & E & T & N) end.
        exists b. rewrite E. rewrite actions_fold; [auto|]. intros s0 b0. destruct (top_rank A b0); reflexivity.
      * exfalso. unfold crashed, set_crash in Hc. cbn in Hc. destruct (crash s); discriminate.
    + exfalso. unfold crashed, set_crash in Hc. cbn in Hc. destruct (crash s); discriminate.
  - unfold qpq. eexists; eexists; split; [reflexivity|]. intros s Hc. cbv beta zeta in *.
    match type of Hc with crashed (if crashed ?x then _ else _) = false => set (s3 := x) in *; destruct (crashed s3) eqn:C3; [congruence|] end.
    match type of Hc with crashed (log_action A cfg TBegin ?m ?x) = false => destruct (log_snap_head TBegin m x eq_refl) as (b & E & T & N) end.
    exists b. rewrite E. cbn [actions set_flag set_ballots]. unfold s3, set_quota_r. destruct (qpq_quota A cfg _); auto.
Qed.

Definition NoSnapL (l : list (action A)) : Prop := Forall (fun a => a_snap a = None) l.

Theorem record_begins_with_the_start r pr fuel s k :
  exec (@crashed A) fuel (count_cmd A cfg r) (init_state A cfg pr) = Some (s, k) -> k <> Abort ->
  exists l b, actions s = (l ++ b :: actions (init_state A cfg pr))%list /\ a_tag b = begin_tag r /\ a_snap b <> None /\
              NoSnapL (actions (init_state A cfg pr)).
Proof.
  intros He Hk. unfold count_cmd in He.
  destruct (exec_do_seq _ _ fuel _ s k He Hk) as [_ H1]. clear He.
  set (s0 := set_cands (init_state A cfg pr) (map (fun c => with_vote c (V0' A)) (cands (init_state A cfg pr)))) in *.
  destruct (rule_opening r) as (f & rest & Er & Hf). rewrite Er in H1.
  destruct (exec_seq_any _ _ fuel s0 s k H1) as (s1 & k1 & H2 & Hcase).
  assert (Hk1: k1 <> Abort) by (destruct Hcase as [[-> _]|(_ & _ & <-)]; [discriminate|exact Hk]).
  destruct (exec_do_seq f rest fuel s0 s1 k1 H2 Hk1) as [Hc H3].
  destruct (Hf s0 Hc) as (b & Eb & Tb & Nb).
  assert (Hs: steps est (@Ext A) rest).
  { pose proof (rule_steps A cfg r) as Hr. rewrite Er in Hr. cbn [steps] in Hr. exact (proj2 Hr). }
  pose proof (exec_steps est (@crashed A) (Ext A) (ext_refl A) (ext_trans A) rest fuel (f s0) s1 k1 Hs H3) as [_ (l1 & E1 & _)].
  assert (Efin: exists l2, actions s = (l2 ++ actions s1)%list).
  { destruct Hcase as [[-> H4]|(_ & -> & _)]; [|exists []; reflexivity].
    cbn [exec] in H4. inversion H4; subst. unfold log_action. cbn [is_log is_round]. eexists [_]. reflexivity. }
  destruct Efin as (l2 & E2). exists (l2 ++ l1)%list, b. split; [|split; [exact Tb|split; [exact Nb|]]].
  - rewrite E2, E1, Eb. unfold s0. cbn [actions set_cands]. rewrite <- app_assoc. reflexivity.
  - exact (proj2 (proj2 (init_state_shape A cfg pr))).
Qed.

Theorem record_ends_with_completion r pr fuel s :
  exec (@crashed A) fuel (count_cmd A cfg r) (init_state A cfg pr) = Some (s, Next) ->
  exists sn older, actions s = mkAction TEnd "Count Complete" (round s) (Some sn) :: older /\
    ssn A sn = stl A (cands s) /\ as_quota sn = quota s.
Proof.
  intros He. unfold count_cmd in He.
  destruct (exec_do_seq _ _ fuel _ s Next He ltac:(discriminate)) as [_ H1].
  destruct (exec_seq_do _ _ fuel _ s H1) as (s1 & _ & ->).
  unfold log_action. cbn [is_log is_round]. eexists; eexists; split; [reflexivity|]. split; [cbn [cands set_actions set_rounds]; apply ssn_snap|reflexivity].
Qed.
End Audit.

(* ---- every election or exclusion the record lists names a candidate whose status changes at that step (per operation) ---- *)
Section AuditOps.
Variable A : arith.
Variable cfg : config.
Notation est := (est A).

(* Candidate.elect(): one 'elect' action, named after the candidate, whose snapshot is the state before with that candidate
   (and nobody else) elected with the given pending flag; an unknown id crashes and logs nothing *)
Theorem elect_logs_the_change i msg p (s : est) :
  match find_cand A (cands s) i with
  | Some c => exists sn, actions (elect A cfg i msg p s) = mkAction TElect (msg ++ ": " ++ cname c) (round s) (Some sn) :: actions s /\
                         ssn A sn = stl A (upd_cand A i (fun x => with_st x Elected (Some p)) (cands s)) /\
                         cands (elect A cfg i msg p s) = upd_cand A i (fun x => with_st x Elected (Some p)) (cands s)
  | None => actions (elect A cfg i msg p s) = actions s /\ crashed (elect A cfg i msg p s) = true
  end.
Proof.
  unfold elect. destruct (find_cand A (cands s) i) as [c|].
  - unfold log_action. cbn [is_log is_round]. eexists. split; [reflexivity|]. split; [rewrite ssn_snap; reflexivity|reflexivity].
  - split; [reflexivity|]. unfold crashed, set_crash. cbn. destruct (crash s); reflexivity.
Qed.

Theorem defeat_logs_the_change i msg (s : est) :
  match find_cand A (cands s) i with
  | Some c => exists sn, actions (defeat A cfg i msg s) = mkAction TDefeat (msg ++ ": " ++ cname c) (round s) (Some sn) :: actions s /\
                         ssn A sn = stl A (upd_cand A i (fun x => with_st x Defeated (cpend x)) (cands s)) /\
                         cands (defeat A cfg i msg s) = upd_cand A i (fun x => with_st x Defeated (cpend x)) (cands s)
  | None => actions (defeat A cfg i msg s) = actions s /\ crashed (defeat A cfg i msg s) = true
  end.
Proof.
  unfold defeat. destruct (find_cand A (cands s) i) as [c|].
  - unfold log_action. cbn [is_log is_round]. eexists. split; [reflexivity|]. split; [rewrite ssn_snap; reflexivity|reflexivity].
  - split; [reflexivity|]. unfold crashed, set_crash. cbn. destruct (crash s); reflexivity.
Qed.
End AuditOps.
