(* consequences of monotone history for whole counts *)
From Coq Require Import ZArith List Bool String Lia Sorted PArith.
From Droop Require Import Model.KernelBase Model.Arith Model.Prelude Model.State Model.Prims Model.Election
  Proofs.CmdMeta Proofs.Hist Proofs.Interrupt.
Import ListNotations.
Open Scope Z_scope.

Section HC.
Variable A : arith.
Variable cfg : config.

(* C09, rounds: in the record of any run (finished, crashed, any fuel) round numbers never decrease *)
Lemma rounds_monotone r pr fuel s k :
  exec (@crashed A) fuel (count_cmd A cfg r) (init_state A cfg pr) = Some (s, k) ->
  StronglySorted (newer A) (actions s) /\ Forall (fun a => 0 <= a_round a <= round s) (actions s).
Proof.
  intros He.
  assert (HI: exists l0, actions (init_state A cfg pr) = l0 /\ round (init_state A cfg pr) = 0 /\
              StronglySorted (newer A) l0 /\ Forall (fun a => a_round a = 0) l0).
  { unfold init_state. cbv zeta.
    assert (G: forall cs (s0 : est A), round s0 = 0 -> StronglySorted (newer A) (actions s0) -> Forall (fun a => a_round a = 0) (actions s0) ->
               let s1 := fold_left (fun s p => log_msg A cfg ((if pc_withdrawn p then "Add withdrawn: " else if pc_undeclared p then "Add undeclared: " else "Add eligible: ") ++ pc_name p)%string
                                                  (set_cands s (cands s ++ [init_cand A p])%list)) cs s0 in
               round s1 = 0 /\ StronglySorted (newer A) (actions s1) /\ Forall (fun a => a_round a = 0) (actions s1)).
    { induction cs as [|p cs IH]; intros s0 R0 S0 F0; cbn [fold_left]; [auto|].
      apply IH; cbn; [exact R0| |constructor; [exact R0|exact F0]].
      constructor; [exact S0|]. eapply Forall_impl; [|exact F0]. unfold newer; cbn. intros a Ha. rewrite Ha, R0. lia. }
    eexists; split; [reflexivity|]. cbn [actions round set_eballots set_ballots].
    apply G; cbn; [reflexivity|constructor|constructor]. }
  destruct HI as (l0 & E0 & R0 & S0 & F0).
  pose proof (exec_steps (est A) (@crashed A) (Ext A) (ext_refl A) (ext_trans A) _ fuel _ _ _ (count_steps A cfg r) He) as [Rr (l & El & Fl & Sl)].
  rewrite El, E0. rewrite R0 in *. split.
  - apply (sorted_app A l l0 0); try assumption.
    + eapply Forall_impl; [|exact Fl]. cbn; intros; lia.
    + eapply Forall_impl; [|exact F0]. cbn; intros a Ha; lia.
  - apply Forall_app. split; [eapply Forall_impl; [|exact Fl]; cbn; intros; lia|].
    eapply Forall_impl; [|exact F0]. cbn; intros a Ha; lia.
Qed.

(* C19: a run interrupted after k micro-operations ends with a prefix (in time) of the actions of the full run *)
Lemma interrupted_prefix r pr fuel k sF kF :
  exec (@crashed A) fuel (count_cmd A cfg r) (init_state A cfg pr) = Some (sF, kF) ->
  exists n sI kI,
    exec (crashedI (est A) (@crashed A)) fuel (lift (est A) (count_cmd A cfg r)) (S k, init_state A cfg pr) = Some ((n, sI), kI) /\
    (exists l, actions sF = (l ++ actions sI)%list) /\
    (n <> O -> sI = sF).
Proof.
  intros He.
  pose proof (interrupted_below (est A) (@crashed A) (Ext A) (ext_refl A) (ext_trans A) _ (count_steps A cfg r)
                fuel (S k) (init_state A cfg pr) ltac:(congruence)) as H.
  rewrite He in H. cbn in H. destruct H as (n & sI & kI & E & [_ (l & El & _)] & Hne & _).
  exists n, sI, kI. split; [exact E|]. split; [exists l; exact El|]. intros Hn. apply Hne; exact Hn.
Qed.
End HC.
