(* C12 in the property's own vocabulary (exact rational values), derived from ArithLemmas. *)
From Coq Require Import ZArith QArith Qround Qabs List Bool Lia String.
From Droop Require Import Model.KernelBase Model.Arith Gen.FixedKernels Gen.RationalWrapped Proofs.ArithLemmas.
Import ListNotations.
Open Scope Z_scope.

Definition fixed_state_ok (st : fixed_cls) (p : Z) : Prop := 0 <= p /\ f_scale st = 10 ^ p.

Lemma pow10_pos p : 0 <= p -> 0 < 10 ^ p.
Proof. intros. apply Z.pow_pos_nonneg; lia. Qed.

Lemma ok_scale st p : fixed_state_ok st p -> f_scale st <> 0.
Proof. intros [Hp E]. rewrite E. pose proof (pow10_pos p Hp). lia. Qed.

Lemma valQ_add S a b : S <> 0 -> valQ S (a + b) == valQ S a + valQ S b.
Proof. intros. unfold valQ. rewrite inject_Z_plus. field. apply inject_Z_nonzero; assumption. Qed.
Lemma valQ_sub S a b : S <> 0 -> valQ S (a - b) == valQ S a - valQ S b.
Proof. intros. unfold valQ, Z.sub. rewrite inject_Z_plus, inject_Z_opp. field. apply inject_Z_nonzero; assumption. Qed.
Lemma valQ_opp S a : S <> 0 -> valQ S (- a) == - valQ S a.
Proof. intros. unfold valQ. rewrite inject_Z_opp. field. apply inject_Z_nonzero; assumption. Qed.
Lemma valQ_mulint S a n : S <> 0 -> valQ S (a * n) == valQ S a * inject_Z n.
Proof. intros. unfold valQ. rewrite inject_Z_mult. field. apply inject_Z_nonzero; assumption. Qed.
Lemma valQ_int S n : S <> 0 -> valQ S (n * S) == inject_Z n.
Proof. intros. unfold valQ. rewrite inject_Z_mult. field. apply inject_Z_nonzero; assumption. Qed.
Lemma valQ_abs S a : 0 < S -> valQ S (Z.abs a) == Qabs (valQ S a).
Proof.
  intros HS. unfold valQ, Qdiv. rewrite Qabs_Qmult. destruct S as [|s|s]; try lia.
  unfold Qabs at 2. simpl Qinv. unfold Qabs, inject_Z. simpl. reflexivity.
Qed.
Lemma valQ_lt S a b : 0 < S -> (valQ S a < valQ S b)%Q <-> a < b.
Proof.
  intros HS. unfold valQ, Qdiv. destruct S as [|s|s]; try lia. unfold Qlt, Qmult, Qinv, inject_Z; simpl.
  rewrite !Z.mul_1_r. nia.
Qed.
Lemma valQ_eq S a b : 0 < S -> (valQ S a == valQ S b)%Q <-> a = b.
Proof.
  intros HS. unfold valQ, Qdiv. destruct S as [|s|s]; try lia. unfold Qeq, Qmult, Qinv, inject_Z; simpl.
  rewrite !Z.mul_1_r. nia.
Qed.

Section C12.
Variables (st : fixed_cls) (p : Z).
Hypothesis Hok : fixed_state_ok st p.
Let S := f_scale st.
Let HS : S <> 0 := ok_scale st p Hok.
Lemma HSpos : 0 < S.
Proof. destruct Hok as [Hp E]. unfold S. rewrite E. apply pow10_pos; exact Hp. Qed.

(* (1) addition, subtraction, negation, abs and multiplication by an integer are exact *)
Lemma c12_exact_ops a b n :
  (exists r, dunder_add st a (OVal b) = Ok r /\ valQ S r == valQ S a + valQ S b) /\
  (exists r, dunder_add st a (OInt n) = Ok r /\ valQ S r == valQ S a + inject_Z n) /\
  (exists r, dunder_sub st a (OVal b) = Ok r /\ valQ S r == valQ S a - valQ S b) /\
  (exists r, dunder_sub st a (OInt n) = Ok r /\ valQ S r == valQ S a - inject_Z n) /\
  (exists r, dunder_neg st a = Ok r /\ valQ S r == - valQ S a) /\
  (exists r, dunder_pos st a = Ok r /\ valQ S r == valQ S a) /\
  (exists r, dunder_abs st a = Ok r /\ valQ S r == Qabs (valQ S a)) /\
  (exists r, dunder_mul st a (OInt n) = Ok r /\ valQ S r == valQ S a * inject_Z n) /\
  (init st (OInt n) false = n * S /\ valQ S (n * S) == inject_Z n).
Proof.
  repeat split.
  - eexists; split; [apply add_val|]. rewrite valQ_add by exact HS. ring.
  - eexists; split; [apply add_int|]. fold S. rewrite valQ_add, valQ_int by exact HS. ring.
  - eexists; split; [apply sub_val|]. apply valQ_sub; exact HS.
  - eexists; split; [apply sub_int|]. fold S. rewrite valQ_sub, valQ_int by exact HS. reflexivity.
  - eexists; split; [apply neg_val|]. apply valQ_opp; exact HS.
  - eexists; split; [apply pos_val|]. reflexivity.
  - eexists; split; [apply abs_val|]. apply valQ_abs; exact HSpos.
  - eexists; split; [apply mul_int|]. apply valQ_mulint; exact HS.
  - apply valQ_int; exact HS.
Qed.

(* shape of a correctly rounded result *)
Definition rounded (r : rnd) (x : Q) (res : Z) : Prop :=
  match r with
  | RDown => res = floor_at S x
  | RUp => (exact_at S x -> res = floor_at S x) /\ (~ exact_at S x -> res = floor_at S x + 1)
  | _ => False
  end.

Lemma rounded_intro r x n d : (r = RUp \/ r = RDown) -> d <> 0 ->
  x * inject_Z S == inject_Z n / inject_Z d ->
  rounded r x (n / d + up_adj r (n mod d)).
Proof.
  intros Hr Hd Hx.
  assert (F: floor_at S x = n / d).
  { unfold floor_at. rewrite (Qfloor_comp _ _ Hx). apply Qfloor_div_Z; exact Hd. }
  pose proof (exact_at_iff S x n d Hd Hx) as Hex.
  destruct Hr as [-> | ->]; cbn [rounded up_adj].
  - destruct (n mod d =? 0) eqn:E; split; intros H; rewrite F.
    + lia.
    + exfalso. apply H. apply Hex. lia.
    + exfalso. apply Hex in H. lia.
    + reflexivity.
  - rewrite F. lia.
Qed.

Lemma xmul a b : valQ S a * valQ S b * inject_Z S == inject_Z (a * b) / inject_Z S.
Proof. unfold valQ. rewrite inject_Z_mult. field. apply inject_Z_nonzero; exact HS. Qed.
Lemma xdiv a b : b <> 0 -> valQ S a / valQ S b * inject_Z S == inject_Z (a * S) / inject_Z b.
Proof. intros. unfold valQ. rewrite inject_Z_mult. field. split; apply inject_Z_nonzero; assumption. Qed.
Lemma xmuldiv a b c : c <> 0 -> valQ S a * valQ S b / valQ S c * inject_Z S == inject_Z (a * b) / inject_Z c.
Proof. intros. unfold valQ. rewrite inject_Z_mult. field. split; apply inject_Z_nonzero; assumption. Qed.

(* (2) products, quotients and the fused multiply-divide: floor at p places, or one unit more for an inexact round-up *)
Lemma c12_mul a b r : r = RUp \/ r = RDown ->
  exists res, mul st (OVal a) (OVal b) r = Ok res /\ rounded r (valQ S a * valQ S b) res.
Proof.
  intros Hr. eexists; split; [apply mul_k; [exact HS|exact Hr]|].
  apply rounded_intro; [exact Hr|exact HS|apply xmul].
Qed.
Lemma c12_div a b r : r = RUp \/ r = RDown -> b <> 0 ->
  exists res, div st (OVal a) (OVal b) r = Ok res /\ rounded r (valQ S a / valQ S b) res.
Proof.
  intros Hr Hb. eexists; split; [apply div_k; [exact Hr|exact Hb]|].
  apply rounded_intro; [exact Hr|exact Hb|apply xdiv; exact Hb].
Qed.
Lemma c12_muldiv a b c r : r = RUp \/ r = RDown -> c <> 0 ->
  exists res, muldiv st (OVal a) (OVal b) (OVal c) r = Ok res /\ rounded r (valQ S a * valQ S b / valQ S c) res.
Proof.
  intros Hr Hc. eexists; split; [apply muldiv_k; [exact Hr|exact Hc]|].
  apply rounded_intro; [exact Hr|exact Hc|apply xmuldiv; exact Hc].
Qed.
Lemma c12_star a b : dunder_mul st a (OVal b) = Ok (floor_at S (valQ S a * valQ S b)).
Proof. rewrite mul_val by exact HS. fold S. rewrite floor_at_mul by exact HS. reflexivity. Qed.
Lemma c12_slash a b : b <> 0 ->
  dunder_truediv st a (OVal b) = Ok (floor_at S (valQ S a / valQ S b)) /\
  dunder_floordiv st a (OVal b) = Ok (floor_at S (valQ S a / valQ S b)) /\
  dunder_div st a (OVal b) = Ok (floor_at S (valQ S a / valQ S b)).
Proof.
  intros Hb. unfold dunder_truediv, dunder_div. rewrite floordiv_val by exact Hb. fold S.
  rewrite floor_at_div by assumption. repeat split.
Qed.
Lemma c12_slash_int a n : n <> 0 ->
  dunder_floordiv st a (OInt n) = Ok (floor_at S (valQ S a / inject_Z n)).
Proof.
  intros Hn. rewrite floordiv_int by exact Hn. f_equal. unfold floor_at, valQ.
  rewrite <- (Qfloor_div_Z a n Hn). apply Qfloor_comp. field.
  split; apply inject_Z_nonzero; assumption.
Qed.
(* the domain the code rejects *)
Lemma c12_rejects a b c r :
  div st (OVal a) (OVal 0) RUp = Raise ZeroDivisionError /\
  div st (OVal a) (OVal 0) RDown = Raise ZeroDivisionError /\
  muldiv st (OVal a) (OVal b) (OVal 0) r = Raise ZeroDivisionError /\
  dunder_floordiv st a (OVal 0) = Raise ZeroDivisionError /\
  dunder_floordiv st a (OInt 0) = Raise ZeroDivisionError /\
  mul st (OVal a) (OVal b) RNone = Raise ValueError /\
  mul st (OVal a) (OVal b) ROther = Raise ValueError /\
  (c <> 0 -> muldiv st (OVal a) (OVal b) (OVal c) RNone = Raise ValueError) /\
  (b <> 0 -> div st (OVal a) (OVal b) RNone = Raise ValueError).
Proof.
  repeat split; try reflexivity.
  - intros Hc. unfold muldiv. cbn [init init_r]. cbv zeta. rewrite pydivmod_ok by exact Hc. reflexivity.
Qed.

(* (3) comparisons agree with the exact values *)
Lemma c12_compare a b :
  (dunder_lt st a (OVal b) = Ok true <-> (valQ S a < valQ S b)%Q) /\
  (dunder_gt st a (OVal b) = Ok true <-> (valQ S b < valQ S a)%Q) /\
  (dunder_le st a (OVal b) = Ok true <-> (valQ S a <= valQ S b)%Q) /\
  (dunder_ge st a (OVal b) = Ok true <-> (valQ S b <= valQ S a)%Q) /\
  (dunder_eq st a (OVal b) = Ok true <-> (valQ S a == valQ S b)%Q) /\
  (dunder_ne st a (OVal b) = Ok true <-> ~ (valQ S a == valQ S b)%Q) /\
  (exists t, dunder_lt st a (OVal b) = Ok t) /\ (exists t, dunder_eq st a (OVal b) = Ok t).
Proof.
  pose proof HSpos as HP.
  rewrite lt_val, gt_val, le_val, ge_val, eq_val, ne_val.
  rewrite !Qle_lteq, !(valQ_lt S) by exact HP. rewrite !(valQ_eq S) by exact HP.
  repeat split; try (intros H; injection H as H; lia); try (intros H; f_equal; lia); eexists; reflexivity.
Qed.

(* (5) min returns a least element of a non-empty list *)
Lemma c12_min (l : list Z) : l <> [] ->
  exists m, FixedKernels.min st l = Ok m /\ In m l /\ forall y, In y l -> (valQ S m <= valQ S y)%Q.
Proof.
  intros Hl. destruct (min_spec st l Hl) as (m & E & Hin & Hall). exists m. repeat split; try assumption.
  intros y Hy. specialize (Hall y Hy). rewrite Qle_lteq, (valQ_lt S), (valQ_eq S) by exact HSpos. lia.
Qed.
End C12.

(* (4) integer arithmetic is the zero-place case *)
Lemma c12_integer st a b : fixed_state_ok st 0 -> b <> 0 ->
  dunder_mul st a (OVal b) = Ok (a * b) /\ dunder_truediv st a (OVal b) = Ok (a / b) /\
  mul st (OVal a) (OVal b) RDown = Ok (a * b) /\ init st (OInt a) false = a.
Proof.
  intros Hok Hb. pose proof (ok_scale st 0 Hok) as HS. destruct Hok as [_ E]. change (10 ^ 0) with 1 in E.
  unfold dunder_truediv. rewrite mul_val by exact HS. rewrite floordiv_val by exact Hb.
  rewrite mul_k by (exact HS || (right; reflexivity)). rewrite init_int. rewrite !E. cbn [up_adj].
  rewrite !Z.div_1_r, !Z.mul_1_r, Z.add_0_r. repeat split.
Qed.

(* the state initialize() builds satisfies the hypothesis *)
Lemma mk_fixed_cls_ok p d : 0 <= p -> fixed_state_ok (mk_fixed_cls p d) p.
Proof. intros. split; [assumption|reflexivity]. Qed.

(* (6) Rational: results are exact (Q semantics) and the class is closed under the operators *)
Definition rational_operators : list string :=
  ["__add__"; "__sub__"; "__mul__"; "__truediv__"; "__floordiv__"; "__neg__"; "__pos__"; "__abs__";
   "__radd__"; "__rsub__"; "__rmul__"; "__rtruediv__"]%string.
Lemma c12_rational_closed :
  forallb (fun n => existsb (String.eqb n) rational_wrapped) rational_operators = true.
Proof. vm_compute. reflexivity. Qed.

Lemma c12_rational_exact dp (a b : Q) :
  (add (Rational dp) a b == a + b)%Q /\ (sub (Rational dp) a b == a - b)%Q /\
  (mulv (Rational dp) a b == a * b)%Q /\
  (forall up, kmul (Rational dp) a b up == a * b)%Q /\
  (~ b == 0 -> exists q, divv (Rational dp) a b = Ok q /\ q == a / b)%Q /\
  (~ b == 0 -> forall up, exists q, kdiv (Rational dp) a b up = Ok q /\ q == a / b)%Q /\
  (forall c up, ~ c == 0 -> exists q, kmuldiv (Rational dp) a b c up = Ok q /\ q == a * b / c)%Q /\
  (ltv (Rational dp) a b = true <-> a < b)%Q /\ (eqv (Rational dp) a b = true <-> a == b)%Q.
Proof.
  assert (Z0: forall c : Q, ~ (c == 0)%Q -> qz c = false).
  { intros c Hc. unfold qz. destruct (Qnum c =? 0) eqn:E; [|reflexivity]. exfalso. apply Hc.
    unfold Qeq. simpl. lia. }
  cbn [add sub mulv kmul divv kdiv kmuldiv ltv eqv Rational].
  repeat split; try apply Qred_correct.
  - intros _; apply Qred_correct.
  - intros Hb. unfold q_div. rewrite (Z0 b Hb). eexists; split; [reflexivity|apply Qred_correct].
  - intros Hb r. unfold q_div. rewrite (Z0 b Hb). eexists; split; [reflexivity|apply Qred_correct].
  - intros c r Hc. unfold q_div. rewrite (Z0 c Hc). eexists; split; [reflexivity|].
    rewrite Qred_correct. rewrite Qred_correct. reflexivity.
  - unfold q_lt. intros H. destruct (a ?= b)%Q eqn:E; try discriminate. apply Qlt_alt. exact E.
  - unfold q_lt. intros H. destruct (a ?= b)%Q eqn:E; [|reflexivity|].
    + apply Qeq_alt in E. rewrite E in H. exfalso. exact (Qlt_irrefl _ H).
    + apply Qgt_alt in E. exfalso. exact (Qlt_irrefl _ (Qlt_trans _ _ _ H E)).
  - apply Qeq_bool_iff.
  - apply Qeq_bool_iff.
Qed.
