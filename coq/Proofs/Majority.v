(* C05, the one-seat clause: with one seat, a candidate ranked first by more than half of the ballots wins -- under wigm-prf
   and the Scottish rule, for Fixed / integer / Guarded(guard 0).  After the first-preference count the candidate's tally
   is the value of the ballots that rank it first (the Gregory invariant), which reaches the quota; the first election
   step elects every hopeful holding the quota; statuses only move forward; and if the main loop never runs the
   candidate is the only one hopeful and is elected by the closing step. *)
From Coq Require Import ZArith List Bool String Lia PArith.
From Droop Require Import Model.KernelBase Model.Str Model.Arith Model.Prelude Model.State Model.Prims Model.RulesGregory
  Model.Election Proofs.CmdMeta Proofs.Zlike Proofs.Gregory Proofs.Status Proofs.Ties Proofs.SortLemmas Proofs.Forward Proofs.ForwardOps
  Proofs.ElectStep Proofs.Quota Proofs.Terminate Proofs.TerminateQpq Proofs.Conserve Proofs.ConserveCount Proofs.Winners.
Import ListNotations.
Open Scope Z_scope.

Section Maj.
Variable A : arith.
Variable S : Z.
Variable ZL : zlike A S.
Variable cfg : config.
Hypothesis Hex : exact A = false.
Variable m : Z.                 (* the candidate *)
Notation est := (est A).
Notation cand := (cand A).
Notation R := (raw ZL).

Definition SatE (s : est) : Prop := forall c, In c (cands s) -> cid c = m -> cst c = Elected.
Definition SatHQ (s : est) : Prop := forall c, In c (cands s) -> cid c = m -> cst c = Hopeful /\ R (quota s) <= R (cvote c).

(* once elected, always elected *)
Lemma fwdl_elected (l l' : list cand) : FwdL (stl A l) (stl A l') ->
  (forall c, In c l -> cid c = m -> cst c = Elected) -> forall c', In c' l' -> cid c' = m -> cst c' = Elected.
Proof.
  revert l'. induction l as [|c l IH]; intros [|c1 l1] H Hl c' Hc' Em; cbn [stl map] in H; revert Hl Em; inversion H as [|? ? ? ? [Eid Hf] Hr]; subst; intros Hl Em; [contradiction|].
  destruct Hc' as [<-|Hc'].
  - cbn [fst snd] in *. assert (Ec: cst c = Elected) by (apply Hl; [left; reflexivity|congruence]).
    unfold fwd in Hf. cbn [fst snd] in Hf. rewrite Ec in Hf. destruct (cst c1); try contradiction. reflexivity.
  - apply (IH l1 Hr); [intros x Hx; apply Hl; right; exact Hx|exact Hc'|exact Em].
Qed.
Lemma r_satE (s s' : est) : Forward.R A s s' -> SatE s -> SatE s'.
Proof. intros H Hs. exact (fwdl_elected _ _ (R_fwd A _ _ H) Hs). Qed.

(* what an election step can do to a candidate: nothing, or elect it; tallies and the quota are untouched *)
Definition ewq_rel (s s' : est) : Prop :=
  quota s' = quota s /\ forall c', In c' (cands s') -> exists c, In c (cands s) /\ cid c' = cid c /\ cvote c' = cvote c /\ (cst c' = cst c \/ cst c' = Elected).
Lemma ewq_refl s : ewq_rel s s.
Proof. split; [reflexivity|]. intros c' Hc'. exists c'. auto. Qed.
Lemma ewq_trans a b c : ewq_rel a b -> ewq_rel b c -> ewq_rel a c.
Proof.
  intros [Q1 H1] [Q2 H2]. split; [congruence|]. intros c' Hc'. destruct (H2 c' Hc') as (c1 & Hc1 & E1 & E2 & E3). destruct (H1 c1 Hc1) as (c0 & Hc0 & F1 & F2 & F3).
  exists c0. split; [exact Hc0|split; [congruence|split; [congruence|]]]. destruct E3 as [E3|E3]; [rewrite E3; exact F3|right; exact E3].
Qed.
Lemma ewq_elect i msg p (s : est) : ewq_rel s (elect A cfg i msg p s).
Proof.
  unfold elect. destruct (find_cand A (cands s) i) as [c0|]; [|split; [reflexivity|intros c' Hc'; exists c'; auto]].
  split; [rewrite (quota_log' A cfg); reflexivity|]. intros c' Hc'. rewrite (cands_log A cfg) in Hc'. unfold upd in Hc'. cbn [cands set_cands] in Hc'.
  destruct (in_upd_cand A i _ _ c' Hc') as (c & Hc & ->). exists c. split; [exact Hc|]. destruct (Z.eqb (cid c) i); cbn [cid cvote cst with_st]; auto.
Qed.
Lemma ewq_step hq pend msg extra (s : est) : ewq_rel s (elect_with_quota A cfg hq pend msg extra s).
Proof.
  unfold elect_with_quota. cbv zeta. generalize (filter (fun c => extra c && hq s c) (by_vote A true (hopefuls A s))) as L. intros L.
  revert s. induction L as [|c L IH]; intros t; cbn [fold_left]; [apply ewq_refl|].
  eapply ewq_trans; [|apply IH]. destruct msg; [apply ewq_elect|unfold elect_default; apply ewq_elect].
Qed.

Lemma ewq_elects_m pend msg (hq : est -> cand -> bool) (s : est) :
  (forall t c, hq t c = gev A (cvote c) (quota t)) -> SatHQ s -> SatE (elect_with_quota A cfg hq pend msg (fun _ => true) s).
Proof.
  intros Hhq Hs c' Hc' Em. destruct (ewq_step hq pend msg (fun _ => true) s) as [Eq Hrel].
  destruct (Hrel c' Hc') as (c & Hc & E1 & E2 & E3). destruct (Hs c Hc ltac:(congruence)) as [Hh Hq].
  destruct E3 as [E3|E3]; [|exact E3]. exfalso.
  assert (Hhop: is_hopeful A c' = true) by (unfold is_hopeful, in_state; rewrite E3, Hh; reflexivity).
  pose proof (elect_step_complete A cfg hq pend msg s) as Hcomp.
  assert (Hext: forall s1 s2 c0, quota s1 = quota s2 -> hq s1 c0 = hq s2 c0) by (intros s1 s2 c0 E; rewrite !Hhq, E; reflexivity).
  specialize (Hcomp Hext c' Hc' Hhop). rewrite Hhq, Eq, E2, (r_gev_exact A S ZL Hex) in Hcomp. apply Z.leb_gt in Hcomp. lia.
Qed.


(* ---- after the first-preference count the candidate holds the value of the ballots that rank it first ---- *)
Variable B : Z.
Definition HopM (s : est) : Prop := exists c, In c (cands s) /\ cid c = m /\ cst c = Hopeful.
Definition ExM (s : est) : Prop := In m (map (@cid A) (cands s)).

Lemma stl_in (l l' : list cand) c' : stl A l' = stl A l -> In c' l' -> exists c, In c l /\ cid c = cid c' /\ cst c = cst c' /\ cpend c = cpend c'.
Proof.
  revert l'. induction l as [|y l IH]; intros [|y' l'] El Hc0; cbn [stl map] in El; try discriminate; [contradiction|].
  injection El as E1 E2 E3 E4. destruct Hc0 as [<-|Hc0]; [exists y; repeat split; auto; left; reflexivity|].
  destruct (IH l' E4 Hc0) as (c & Hc & Hx). exists c. split; [right; exact Hc|exact Hx].
Qed.

Lemma begin_hq q tg msg (s : est) : Pre A S ZL B s -> (forall c, In c (cands s) -> cst c <> Elected) -> HopM s -> 0 <= R q ->
  R q <= stand A S ZL (ballots s) m ->
  crashed (log_action A cfg tg msg (start_count A (Ok q) s)) = false ->
  let s1 := log_action A cfg tg msg (start_count A (Ok q) s) in
  NoDup (map (@cid A) (cands s1)) /\ SatHQ s1 /\ eln A s1 = 0%nat /\ ExM s1.
Proof.
  intros P Hne (cm & Hcm & Eid & Ehop) Hq Hst Hc. cbv zeta. rewrite (crashed_log A cfg) in Hc.
  destruct (start_facts A S ZL B q s P) as (Est & Eqq & _). pose proof (gh_start A S ZL B q s P Hq Hc) as [G _].
  assert (Eb: ballots (start_count A (Ok q) s) = ballots s).
  { unfold start_count, initial_count. cbn [ballots set_exhausted set_quota].
    match goal with |- ballots (fold_left ?g ?l ?t) = _ => assert (Gf: forall l0 t0, ballots (fold_left g l0 t0) = ballots t0) end.
    { induction l0 as [|b l0 IH]; intros t0; cbn [fold_left]; [reflexivity|]. rewrite IH. destruct (top_rank A b); reflexivity. }
    rewrite Gf. reflexivity. }
  rewrite (cands_log A cfg). split; [exact (g_nd A S ZL B _ G)|split; [|split]].
  - intros c' Hc' Em. rewrite (cands_log A cfg) in Hc'. destruct (stl_in _ _ c' Est Hc') as (c & Hcin & E1 & E2 & E3).
    assert (c = cm) by (apply (nodup_cid_inj A (cands s)); [exact (p_nd A S ZL B s P)|exact Hcm|exact Hcin|congruence]). subst c.
    split; [congruence|]. rewrite (quota_log' A cfg), Eqq.
    destruct (g_tally A S ZL B _ G c' Hc') as [Et|[Ecn _]].
    + rewrite Et, Eb, Em. exact Hst.
    + exfalso. unfold cont, is_hopeful, in_state in Ecn. rewrite <- E2, Ehop in Ecn. discriminate Ecn.
  - unfold eln. rewrite (cands_log A cfg). unfold TerminateQpq.sumc.
    assert (Hall: forall c', In c' (cands (start_count A (Ok q) s)) -> cst c' <> Elected).
    { intros c' Hc' E. destruct (stl_in _ _ c' Est Hc') as (c & Hcin & _ & E2 & _). apply (Hne c Hcin). congruence. }
    revert Hall. generalize (cands (start_count A (Ok q) s)) as l. intros l Hall. induction l as [|c l IH]; [reflexivity|]. cbn [fold_right].
    rewrite IH by (intros c' Hc'; apply Hall; right; exact Hc'). unfold elc. pose proof (Hall c (or_introl eq_refl)). destruct (cst c); try reflexivity. congruence.
  - unfold ExM. rewrite (cands_log A cfg).
    assert (Eids: map (@cid A) (cands (start_count A (Ok q) s)) = map (@cid A) (cands s)).
    { assert (H: map fst (stl A (cands (start_count A (Ok q) s))) = map fst (stl A (cands s))) by (rewrite Est; reflexivity). unfold stl in H. rewrite !map_map in H. exact H. }
    rewrite Eids, <- Eid. apply in_map. exact Hcm.
Qed.


(* ---- wigm-prf with one seat ---- *)
Notation T3 := (triple est (@crashed A)).
Hypothesis Hseat : cf_nseats cfg = 1.
Definition JM (s : est) : Prop := NoDup (map (@cid A) (cands s)) /\ ExM s /\ (SatE s \/ (SatHQ s /\ eln A s = 0%nat)).

Lemma jm_R (f : est -> est) (s : est) : Forward.R A s (f s) -> NoDup (map (@cid A) (cands s)) -> ExM s -> SatE s -> JM (f s).
Proof.
  intros Hr Hnd He Hs. split; [exact (nd_R A _ _ Hr Hnd)|split; [unfold ExM; rewrite <- (R_cids A _ _ Hr); exact He|left; exact (r_satE _ _ Hr Hs)]].
Qed.

Lemma pendings_nil (s : est) : eln A s = 0%nat -> pendings A s = [].
Proof.
  unfold eln, pendings, TerminateQpq.sumc. induction (cands s) as [|c l IH]; [reflexivity|]. cbn [fold_right filter]. intros H.
  assert (elc A c = 0%nat /\ fold_right (fun c0 acc => (elc A c0 + acc)%nat) 0%nat l = 0%nat) as [H1 H2] by lia. rewrite (IH H2).
  unfold is_pending, in_state, elc in *. destruct (cst c); cbn [cstate_eqb andb]; try reflexivity. discriminate H1.
Qed.

Lemma prf_one_seat (Qb Qc : est -> Prop) q : cf_batch cfg = false -> droop_quota_eps A cfg = Ok q -> 0 <= R q ->
  T3 (fun s => Pre A S ZL B s /\ (forall c, In c (cands s) -> cst c <> Elected) /\ HopM s /\ R q <= stand A S ZL (ballots s) m)
     (wigm_prf A cfg) SatE Qb Qc.
Proof.
  intros Hb Eq Hq. unfold wigm_prf. rewrite Eq.
  eapply t_seq with (M := JM).
  { apply t_do_nc. intros s (P & Hne & Hm & Hst) Hc. destruct (begin_hq q TBegin "Begin Count" s P Hne Hm Hq Hst Hc) as (H1 & H2 & H3 & H4).
    split; [exact H1|split; [exact H4|right; split; assumption]]. }
  eapply t_seq with (M := fun s => JM s /\ guard_main A cfg s = false).
  { eapply t_post; [|apply (t_while est (@crashed A) JM (fun _ => False))].
    - intros s [H|H]; [contradiction|exact H].
    - eapply t_seq with (M := JM).
      { apply t_do. intros s [(Hnd & He & Hj) _]. pose proof (f_new_round A cfg s s (R_refl A s)) as Hr.
        split; [exact (nd_R A _ _ Hr Hnd)|split; [unfold ExM; rewrite <- (R_cids A _ _ Hr); exact He|]].
        destruct Hj as [Hs|[Hs He0]]; [left; exact (r_satE _ _ Hr Hs)|right]. unfold new_round. split.
        - intros c Hc Em. rewrite (cands_log A cfg) in Hc. rewrite (quota_log' A cfg). exact (Hs c Hc Em).
        - unfold eln. rewrite (cands_log A cfg). exact He0. }
      eapply t_seq with (M := fun s => NoDup (map (@cid A) (cands s)) /\ ExM s /\ SatE s).
      { apply t_do. intros s (Hnd & He & Hj). pose proof (f_elect_with_quota A cfg s (ge_quota A) (fun _ _ => true) None (fun _ => true) s (R_refl A s) Hnd) as Hr.
        split; [exact (nd_R A _ _ Hr Hnd)|split; [unfold ExM; rewrite <- (R_cids A _ _ Hr); exact He|]].
        destruct Hj as [Hs|[Hs _]]; [exact (r_satE _ _ Hr Hs)|]. apply ewq_elects_m; [intros t c; reflexivity|exact Hs]. }
      eapply t_seq with (M := fun s => (NoDup (map (@cid A) (cands s)) /\ ExM s /\ SatE s) /\ lv_batch s = []).
      { apply t_do. intros s H. split; [exact H|]. unfold prf_find_batch. rewrite Hb. reflexivity. }
      eapply t_seq with (M := fun s => NoDup (map (@cid A) (cands s)) /\ ExM s /\ SatE s).
      { apply t_ite; [|apply t_skip'; intros s [[H _] _]; exact H].
        intros fuel s s' k [[_ Hn] Hg] _. rewrite Hn in Hg. discriminate Hg. }
      apply t_ite.
      + apply t_do. intros s [(Hnd & He & Hs) _]. apply jm_R; [apply f_transfer_high; [apply bt_simple_ok|apply R_refl|exact Hnd]|assumption..].
      + apply t_ite; [|apply t_skip'; intros s [[(Hnd & He & Hs) _] _]; split; [exact Hnd|split; [exact He|left; exact Hs]]].
        apply t_do. intros s [[(Hnd & He & Hs) _] _]. apply jm_R; [apply f_defeat_low; [apply bt_simple_ok|apply R_refl|exact Hnd]|assumption..]. }
  eapply t_seq with (M := fun s => JM s /\ guard_main A cfg s = false).
  { apply t_do. intros s [(Hnd & He & Hj) Hg]. destruct Hj as [Hs|[Hs He0]].
    - split; [apply jm_R; [apply f_unpend_all; [apply R_refl|exact Hnd]|assumption..]|].
      (* the guard only looks at statuses, which unpend does not change *)
      assert (Esl: TerminateQpq.sl A (unpend_all A cfg s) = TerminateQpq.sl A s).
      { unfold unpend_all. generalize (pendings A s) as L. intros L. revert s Hnd He Hs Hg. induction L as [|c L IH]; intros s Hnd He Hs Hg; cbn [fold_left]; [reflexivity|].
        assert (E1: TerminateQpq.sl A (unpend A cfg (cid c) None s) = TerminateQpq.sl A s).
        { unfold unpend. destruct (find_cand A (cands s) (cid c)) as [c0|] eqn:Ef; [|reflexivity]. destruct (is_pending A c0) eqn:Ep; [|reflexivity].
          unfold TerminateQpq.sl, upd. cbn [cands set_cands]. unfold upd_cand. rewrite map_map. apply map_ext_in. intros x Hx.
          destruct (Z.eqb (cid x) (cid c)) eqn:E; [|reflexivity]. cbn [cid cst with_st]. f_equal.
          assert (x = c0) by (apply (find_cand_unique A (cands s) (cid c) c0 x Hnd Ef Hx); lia). subst x.
          unfold is_pending, in_state in Ep. destruct (cst c0); cbn in Ep; try discriminate. reflexivity. }
        pose proof (f_unpend A cfg s (cid c) None s (R_refl A s) Hnd) as Hr.
        rewrite IH; [exact E1|exact (nd_R A _ _ Hr Hnd)|unfold ExM; rewrite <- (R_cids A _ _ Hr); exact He|exact (r_satE _ _ Hr Hs)|].
        unfold guard_main, seats_left in *. rewrite nlen_electeds, nlen_hopefuls in *. destruct (counts_sl4 A _ _ E1) as (_ & F2 & F3 & _). rewrite F2, F3. exact Hg. }
      unfold guard_main, seats_left in *. rewrite nlen_electeds, nlen_hopefuls in *. destruct (counts_sl4 A _ _ Esl) as (_ & F2 & F3 & _). rewrite F2, F3. exact Hg.
    - unfold unpend_all. rewrite (pendings_nil s He0). cbn [fold_left]. split; [split; [exact Hnd|split; [exact He|right; split; assumption]]|exact Hg]. }
  apply t_do. intros s [(Hnd & He & Hj) Hg]. destruct Hj as [Hs|[Hs He0]].
  - exact (r_satE _ _ (f_elect_or_defeat A cfg s s (R_refl A s) Hnd) Hs).
  - (* the loop never ran: the candidate is the only one hopeful *)
    unfold ExM in He. apply in_map_iff in He. destruct He as (cm & Eid & Hcm). destruct (Hs cm Hcm Eid) as [Hh _].
    assert (Hin: In cm (hopefuls A s)) by (unfold hopefuls; apply filter_In; split; [exact Hcm|unfold in_state; rewrite Hh; reflexivity]).
    assert (Hlen: List.length (hopefuls A s) = 1%nat).
    { unfold guard_main, seats_left in Hg. rewrite nlen_electeds, He0, Hseat in Hg. cbn in Hg. rewrite andb_true_r in Hg. apply Z.ltb_ge in Hg.
      unfold nlen in Hg. destruct (hopefuls A s) as [|x [|y l]]; [contradiction|reflexivity|cbn [List.length] in Hg; lia]. }
    unfold elect_or_defeat_remaining. destruct (hopefuls A s) as [|x [|y l]]; try discriminate. destruct Hin as [->|[]]. cbn [fold_left].
    rewrite nlen_electeds, He0, Hseat. cbn [Z.of_nat Z.ltb Z.compare]. cbv iota.
    intros c' Hc' Em. unfold elect in Hc'. destruct (find_cand A (cands s) (cid cm)) as [c0|] eqn:Ef.
    + rewrite (cands_log A cfg) in Hc'. unfold upd in Hc'. cbn [cands set_cands] in Hc'. destruct (in_upd_cand A _ _ _ c' Hc') as (c1 & Hc1 & ->).
      destruct (Z.eqb (cid c1) (cid cm)) eqn:E; [reflexivity|]. exfalso. cbn [cid] in Em. apply Z.eqb_neq in E. congruence.
    + exfalso. destruct (find_cand_in A (cands s) (cid cm)) as [y Hy]; [apply in_map; exact Hcm|congruence].
Qed.


(* ---- wigm with one seat ---- *)
Lemma wigm_one_seat (Qb Qc : est -> Prop) q : wigm_quota A cfg = Ok q -> 0 <= R q ->
  T3 (fun s => Pre A S ZL B s /\ (forall c, In c (cands s) -> cst c <> Elected) /\ HopM s /\ R q <= stand A S ZL (ballots s) m)
     (wigm A cfg) SatE Qb Qc.
Proof.
  intros Eq Hq. unfold wigm. rewrite Eq.
  eapply t_seq with (M := JM).
  { apply t_do_nc. intros s (P & Hne & Hm & Hst) Hc. destruct (begin_hq q TBegin "Begin Count" s P Hne Hm Hq Hst Hc) as (H1 & H2 & H3 & H4).
    split; [exact H1|split; [exact H4|right; split; assumption]]. }
  eapply t_seq with (M := fun s => JM s /\ guard_main A cfg s = false).
  { eapply t_post; [|apply (t_while est (@crashed A) JM (fun _ => False))].
    - intros s [H|H]; [contradiction|exact H].
    - eapply t_seq with (M := JM).
      { apply t_do. intros s [(Hnd & He & Hj) _]. pose proof (f_new_round A cfg s s (R_refl A s)) as Hr.
        split; [exact (nd_R A _ _ Hr Hnd)|split; [unfold ExM; rewrite <- (R_cids A _ _ Hr); exact He|]].
        destruct Hj as [Hs|[Hs He0]]; [left; exact (r_satE _ _ Hr Hs)|right]. unfold new_round. split.
        - intros c Hc Em. rewrite (cands_log A cfg) in Hc. rewrite (quota_log' A cfg). exact (Hs c Hc Em).
        - unfold eln. rewrite (cands_log A cfg). exact He0. }
      eapply t_seq with (M := fun s => NoDup (map (@cid A) (cands s)) /\ ExM s /\ SatE s).
      { apply t_do. intros s (Hnd & He & Hj). pose proof (f_elect_with_quota A cfg s (has_quota_exact A) (fun _ _ => true) None (fun _ => true) s (R_refl A s) Hnd) as Hr.
        split; [exact (nd_R A _ _ Hr Hnd)|split; [unfold ExM; rewrite <- (R_cids A _ _ Hr); exact He|]].
        destruct Hj as [Hs|[Hs _]]; [exact (r_satE _ _ Hr Hs)|]. apply ewq_elects_m; [intros t c; unfold has_quota_exact; rewrite Hex; reflexivity|exact Hs]. }
      apply t_ite.
      + apply t_do. intros s [(Hnd & He & Hs) _]. apply jm_R; [apply f_transfer_high; [apply bt_simple_ok|apply R_refl|exact Hnd]|assumption..].
      + apply t_ite; [|apply t_skip'; intros s [[(Hnd & He & Hs) _] _]; split; [exact Hnd|split; [exact He|left; exact Hs]]].
        apply t_do. intros s [[(Hnd & He & Hs) _] _]. apply jm_R; [apply f_wigm_defeat; [apply R_refl|exact Hnd]|assumption..]. }
  eapply t_seq with (M := fun s => JM s /\ guard_main A cfg s = false).
  { apply t_do. intros s [(Hnd & He & Hj) Hg]. destruct Hj as [Hs|[Hs He0]].
    - split; [apply jm_R; [apply f_unpend_all; [apply R_refl|exact Hnd]|assumption..]|].
      assert (Esl: TerminateQpq.sl A (unpend_all A cfg s) = TerminateQpq.sl A s).
      { unfold unpend_all. generalize (pendings A s) as L. intros L. revert s Hnd He Hs Hg. induction L as [|c L IH]; intros s Hnd He Hs Hg; cbn [fold_left]; [reflexivity|].
        assert (E1: TerminateQpq.sl A (unpend A cfg (cid c) None s) = TerminateQpq.sl A s).
        { unfold unpend. destruct (find_cand A (cands s) (cid c)) as [c0|] eqn:Ef; [|reflexivity]. destruct (is_pending A c0) eqn:Ep; [|reflexivity].
          unfold TerminateQpq.sl, upd. cbn [cands set_cands]. unfold upd_cand. rewrite map_map. apply map_ext_in. intros x Hx.
          destruct (Z.eqb (cid x) (cid c)) eqn:E; [|reflexivity]. cbn [cid cst with_st]. f_equal.
          assert (x = c0) by (apply (find_cand_unique A (cands s) (cid c) c0 x Hnd Ef Hx); lia). subst x.
          unfold is_pending, in_state in Ep. destruct (cst c0); cbn in Ep; try discriminate. reflexivity. }
        pose proof (f_unpend A cfg s (cid c) None s (R_refl A s) Hnd) as Hr.
        rewrite IH; [exact E1|exact (nd_R A _ _ Hr Hnd)|unfold ExM; rewrite <- (R_cids A _ _ Hr); exact He|exact (r_satE _ _ Hr Hs)|].
        unfold guard_main, seats_left in *. rewrite nlen_electeds, nlen_hopefuls in *. destruct (counts_sl4 A _ _ E1) as (_ & F2 & F3 & _). rewrite F2, F3. exact Hg. }
      unfold guard_main, seats_left in *. rewrite nlen_electeds, nlen_hopefuls in *. destruct (counts_sl4 A _ _ Esl) as (_ & F2 & F3 & _). rewrite F2, F3. exact Hg.
    - unfold unpend_all. rewrite (pendings_nil s He0). cbn [fold_left]. split; [split; [exact Hnd|split; [exact He|right; split; assumption]]|exact Hg]. }
  apply t_do. intros s [(Hnd & He & Hj) Hg]. destruct Hj as [Hs|[Hs He0]].
  - exact (r_satE _ _ (f_elect_or_defeat A cfg s s (R_refl A s) Hnd) Hs).
  - unfold ExM in He. apply in_map_iff in He. destruct He as (cm & Eid & Hcm). destruct (Hs cm Hcm Eid) as [Hh _].
    assert (Hin: In cm (hopefuls A s)) by (unfold hopefuls; apply filter_In; split; [exact Hcm|unfold in_state; rewrite Hh; reflexivity]).
    assert (Hlen: List.length (hopefuls A s) = 1%nat).
    { unfold guard_main, seats_left in Hg. rewrite nlen_electeds, He0, Hseat in Hg. cbn in Hg. rewrite andb_true_r in Hg. apply Z.ltb_ge in Hg.
      unfold nlen in Hg. destruct (hopefuls A s) as [|x [|y l]]; [contradiction|reflexivity|cbn [List.length] in Hg; lia]. }
    unfold elect_or_defeat_remaining. destruct (hopefuls A s) as [|x [|y l]]; try discriminate. destruct Hin as [->|[]]. cbn [fold_left].
    rewrite nlen_electeds, He0, Hseat. cbn [Z.of_nat Z.ltb Z.compare]. cbv iota.
    intros c' Hc' Em. unfold elect in Hc'. destruct (find_cand A (cands s) (cid cm)) as [c0|] eqn:Ef.
    + rewrite (cands_log A cfg) in Hc'. unfold upd in Hc'. cbn [cands set_cands] in Hc'. destruct (in_upd_cand A _ _ _ c' Hc') as (c1 & Hc1 & ->).
      destruct (Z.eqb (cid c1) (cid cm)) eqn:E; [reflexivity|]. exfalso. cbn [cid] in Em. apply Z.eqb_neq in E. congruence.
    + exfalso. destruct (find_cand_in A (cands s) (cid cm)) as [y Hy]; [apply in_map; exact Hcm|congruence].
Qed.

(* ---- the Scottish rule with one seat: the main loop always runs, and its first step is the election step ---- *)
Lemma scot_one_seat (Qb Qc : est -> Prop) : 0 <= R (integer_droop_quota A cfg) ->
  T3 (fun s => Pre A S ZL B s /\ (forall c, In c (cands s) -> cst c <> Elected) /\ HopM s /\ R (integer_droop_quota A cfg) <= stand A S ZL (ballots s) m)
     (scotland A cfg) SatE Qb Qc.
Proof.
  intros Hq.
  change (scotland A cfg) with
    (Do (fun s => log_action A cfg TBegin "Begin Count" (start_count A (Ok (integer_droop_quota A cfg)) s)) ;;
     While (fun _ => true) (scot_body A cfg) ;;
     Do (unpend_all A cfg) ;;
     Ite (fun s => nlen (hopefuls A s) <=? seats_left A cfg s)
       (Do (fun s => fold_left (fun s c => elect A cfg (cid c) "Elect remaining candidates" false s) (hopefuls A s) s)) Skip ;;
     Do (fun s => fold_left (fun s c => defeat A cfg (cid c) "Defeat remaining candidates" s) (hopefuls A s) s)).
  eapply t_seq with (M := JM).
  { apply t_do_nc. intros s (P & Hne & Hm & Hst) Hc. destruct (begin_hq _ TBegin "Begin Count" s P Hne Hm Hq Hst Hc) as (H1 & H2 & H3 & H4).
    split; [exact H1|split; [exact H4|right; split; assumption]]. }
  set (E := fun s : est => NoDup (map (@cid A) (cands s)) /\ ExM s /\ SatE s).
  assert (HE: forall (f : est -> est) (s : est), Forward.R A s (f s) -> E s -> E (f s)).
  { intros f s Hr (Hnd & He & Hs). split; [exact (nd_R A _ _ Hr Hnd)|split; [unfold ExM; rewrite <- (R_cids A _ _ Hr); exact He|exact (r_satE _ _ Hr Hs)]]. }
  eapply t_seq with (M := E).
  { eapply t_post; [|apply (t_while est (@crashed A) JM E)].
    - intros s [H|[_ H]]; [exact H|discriminate H].
    - unfold scot_body.
      eapply t_seq with (M := E).
      { apply t_do. intros s [(Hnd & He & Hj) _]. pose proof (f_elect_with_quota A cfg s (ge_quota A) (fun _ _ => true) None (fun _ => true) s (R_refl A s) Hnd) as Hr.
        split; [exact (nd_R A _ _ Hr Hnd)|split; [unfold ExM; rewrite <- (R_cids A _ _ Hr); exact He|]].
        destruct Hj as [Hs|[Hs _]]; [exact (r_satE _ _ Hr Hs)|]. apply ewq_elects_m; [intros t c; reflexivity|exact Hs]. }
      eapply t_seq with (M := E); [apply t_ite; [apply t_break'; intros s [H _]; exact H|apply t_skip'; intros s [H _]; exact H]|].
      eapply t_seq with (M := E); [apply t_do; intros s H; apply HE; [apply f_new_round, R_refl|exact H]|].
      eapply t_seq with (M := E).
      { apply t_do. intros s H. apply (HE (fun s => set_surplus s (vsum A (map (cand_surplus A s) (pendings A s))))); [apply f_surplus, R_refl|exact H]. }
      assert (EJ: forall s, E s -> JM s) by (intros s (H1 & H2 & H3); split; [exact H1|split; [exact H2|left; exact H3]]).
      eapply t_seq with (M := E).
      { apply t_ite; [|apply t_skip'; intros s [H _]; exact H].
        eapply t_seq with (M := E); [|apply t_continue'; intros s H; apply EJ; exact H].
        apply t_do. intros s [H _]. apply HE; [apply f_transfer_high; [apply scot_bt_ok|apply R_refl|exact (proj1 H)]|exact H]. }
      eapply t_seq with (M := E).
      { apply t_ite; [|apply t_skip'; intros s [H _]; exact H].
        apply t_do. intros s [H _]. apply HE; [apply f_defeat_low; [apply scot_bt_ok|apply R_refl|exact (proj1 H)]|exact H]. }
      apply t_ite; [apply t_break'; intros s [H _]; exact H|apply t_skip'; intros s [H _]; apply EJ; exact H]. }
  eapply t_seq with (M := E); [apply t_do; intros s H; apply HE; [apply f_unpend_all; [apply R_refl|exact (proj1 H)]|exact H]|].
  eapply t_seq with (M := E).
  { apply t_ite; [|apply t_skip'; intros s [H _]; exact H].
    apply t_do. intros s [H _]. apply (HE (fun s => fold_left (fun s c => elect A cfg (cid c) "Elect remaining candidates" false s) (hopefuls A s) s)); [apply f_elect_all; [apply R_refl|exact (proj1 H)]|exact H]. }
  apply t_do. intros s H.
  exact (proj2 (proj2 (HE (fun s => fold_left (fun s c => defeat A cfg (cid c) "Defeat remaining candidates" s) (hopefuls A s) s) s (f_defeat_all A cfg s _ s (R_refl A s) (proj1 H)) H))).
Qed.

End Maj.

(* ================= whole counts ================= *)
Definition first_prefs (pr : profile) (m : Z) : Z :=
  fold_right (fun mr acc => (match snd mr with c :: _ => if c =? m then fst mr else 0 | [] => 0 end) + acc) 0 (pr_ballots pr).

Section MajCount.
Variable A : arith.
Variable S : Z.
Variable ZL : zlike A S.
Variable cfg : config.
Hypothesis Hmeth : cf_method cfg = MWigm.
Hypothesis Hex : exact A = false.
Hypothesis Heps : raw ZL (epsilon A) = 1.
Hypothesis Hseat : cf_nseats cfg = 1.
Notation R := (raw ZL).

Lemma stand_mk (pr : profile) m : wf_profile pr -> stand A S ZL (mk_ballots A (pr_ballots pr)) m = S * first_prefs pr m.
Proof.
  intros [_ Hb]. unfold first_prefs, mk_ballots. induction (pr_ballots pr) as [|[mu r] l IH]; cbn [flat_map fold_right fst snd]; [cbn; lia|].
  assert (IH': stand A S ZL (flat_map (fun '(m0, r0) => match r0 with [] => [] | _ => [mkBallot (of_int A m0) O (of_int A 1) (V0' A) r0] end) l) m =
               S * fold_right (fun mr acc => (match snd mr with c :: _ => if c =? m then fst mr else 0 | [] => 0 end) + acc) 0 l)
    by (apply IH; intros m' r' H'; apply Hb; right; exact H').
  destruct (Hb mu r (or_introl eq_refl)) as [Hm _]. destruct r as [|r0 r]; cbn [app]; [rewrite IH'; lia|].
  rewrite stand_cons, IH'. unfold top_is, top_rank. cbn [brank bidx nth_error]. destruct (r0 =? m); [rewrite (bval_mk A S ZL Hex mu r0 r Hm)|]; lia.
Qed.

(* wigm-prf (without sure-loser batches), one seat: a candidate ranked first by more than half of the ballots is elected *)
Theorem count_majority_prf (pr : profile) m fuel s k : cf_batch cfg = false -> wf_profile pr -> cf_nballots cfg = ballot_total pr ->
  (exists pc, In pc (pr_cands pr) /\ pc_cid pc = m /\ pc_withdrawn pc = false) ->
  ballot_total pr < 2 * first_prefs pr m ->
  exec (@crashed A) fuel (count_cmd A cfg RWigmPrf) (init_state A cfg pr) = Some (s, k) -> k <> Abort ->
  forall c, In c (cands s) -> cid c = m -> cst c = Elected.
Proof.
  intros Hb Hwf Hnbt (pc & Hpc & Epc & Hwd) Hmaj He Hk.
  assert (Hns: 0 <= cf_nseats cfg) by (rewrite Hseat; lia).
  destruct (droop_quota_eps_value A S ZL cfg Hns Heps) as (q & Eq & Rq). rewrite Hseat, Hnbt in Rq.
  assert (Ht: triple (est A) (@crashed A) (fun s0 => s0 = init_state A cfg pr) (count_cmd A cfg RWigmPrf)
            (SatE A m) (fun _ => False) (fun _ => False)).
  { unfold count_cmd. eapply t_seq with (M := fun s0 => Pre A S ZL (S * ballot_total pr) s0 /\ (forall c, In c (cands s0) -> cst c <> Elected) /\ HopM A m s0 /\
                                                       R q <= stand A S ZL (ballots s0) m).
    - apply t_do. intros s0 ->. destruct (pre2_init A S ZL cfg Hex pr Hwf) as [P Hne]. destruct (init_state_shape A cfg pr) as (Ec & Eb & _).
      split; [exact P|split; [exact Hne|split]].
      + exists (with_vote (init_cand A pc) (V0' A)). split; [|split; [exact Epc|cbn [cst with_vote init_cand]; rewrite Hwd; reflexivity]].
        unfold zero_votes. cbn [cands set_cands]. rewrite Ec, map_map. apply in_map_iff. exists pc. split; [reflexivity|exact Hpc].
      + unfold zero_votes. cbn [ballots set_cands]. rewrite Eb, (stand_mk pr m Hwf), Rq. pose proof (S_pos A S ZL) as HS.
        assert (Hd: 2 * (ballot_total pr * S / (1 + 1)) <= ballot_total pr * S) by (apply (Z.mul_div_le (ballot_total pr * S) 2); lia).
        assert (Hp: S * (ballot_total pr + 1) <= S * (2 * first_prefs pr m)) by (apply Z.mul_le_mono_nonneg_l; lia).
        lia.
    - eapply t_seq with (M := SatE A m); [cbn [rule_cmd]; apply (prf_one_seat A S ZL cfg Hex m (S * ballot_total pr) Hseat _ _ q Hb Eq)|].
      + rewrite Rq. pose proof (S_pos A S ZL).
        assert (Hbt: 0 <= ballot_total pr).
        { unfold ballot_total. clear -Hwf. destruct Hwf as [_ Hb]. induction (pr_ballots pr) as [|[mu r] l IH]; cbn [fold_right fst snd]; [lia|].
          assert (0 <= fold_right (fun mr acc => match snd mr with [] => 0 | _ :: _ => fst mr end + acc) 0 l) by (apply IH; intros m' r' H'; apply Hb; right; exact H').
          destruct (Hb mu r (or_introl eq_refl)) as [Hm _]. destruct r; lia. }
        assert (0 <= ballot_total pr * S / (1 + 1)) by (apply Z.div_pos; nia). lia.
      + apply t_do. intros s0 Hs c Hc Em. rewrite (Status.cands_log A cfg) in Hc. exact (Hs c Hc Em). }
  specialize (Ht fuel _ s k eq_refl He). destruct k; try contradiction. exact Ht.
Qed.

(* the Scottish rule, one seat *)
Theorem count_majority_scotland (pr : profile) m fuel s k : wf_profile pr -> cf_nballots cfg = ballot_total pr ->
  (exists pc, In pc (pr_cands pr) /\ pc_cid pc = m /\ pc_withdrawn pc = false) ->
  ballot_total pr < 2 * first_prefs pr m ->
  exec (@crashed A) fuel (count_cmd A cfg RScotland) (init_state A cfg pr) = Some (s, k) -> k <> Abort ->
  forall c, In c (cands s) -> cid c = m -> cst c = Elected.
Proof.
  intros Hwf Hnbt (pc & Hpc & Epc & Hwd) Hmaj He Hk.
  assert (Hns: 0 <= cf_nseats cfg) by (rewrite Hseat; lia).
  pose proof (integer_quota_value A S ZL cfg) as Rq. rewrite Hseat, Hnbt in Rq. pose proof (S_pos A S ZL) as HS.
  assert (Hbt: 0 <= ballot_total pr).
  { unfold ballot_total. clear -Hwf. destruct Hwf as [_ Hb]. induction (pr_ballots pr) as [|[mu r] l IH]; cbn [fold_right fst snd]; [lia|].
    assert (0 <= fold_right (fun mr acc => match snd mr with [] => 0 | _ :: _ => fst mr end + acc) 0 l) by (apply IH; intros m' r' H'; apply Hb; right; exact H').
    destruct (Hb mu r (or_introl eq_refl)) as [Hm _]. destruct r; lia. }
  assert (Hd: 2 * (ballot_total pr / (1 + 1)) <= ballot_total pr) by (apply (Z.mul_div_le (ballot_total pr) 2); lia).
  assert (Hd0: 0 <= ballot_total pr / (1 + 1)) by (apply Z.div_pos; lia).
  assert (Ht: triple (est A) (@crashed A) (fun s0 => s0 = init_state A cfg pr) (count_cmd A cfg RScotland)
            (SatE A m) (fun _ => False) (fun _ => False)).
  { unfold count_cmd. eapply t_seq with (M := fun s0 => Pre A S ZL (S * ballot_total pr) s0 /\ (forall c, In c (cands s0) -> cst c <> Elected) /\ HopM A m s0 /\
                                                       R (integer_droop_quota A cfg) <= stand A S ZL (ballots s0) m).
    - apply t_do. intros s0 ->. destruct (pre2_init A S ZL cfg Hex pr Hwf) as [P Hne]. destruct (init_state_shape A cfg pr) as (Ec & Eb & _).
      split; [exact P|split; [exact Hne|split]].
      + exists (with_vote (init_cand A pc) (V0' A)). split; [|split; [exact Epc|cbn [cst with_vote init_cand]; rewrite Hwd; reflexivity]].
        unfold zero_votes. cbn [cands set_cands]. rewrite Ec, map_map. apply in_map_iff. exists pc. split; [reflexivity|exact Hpc].
      + unfold zero_votes. cbn [ballots set_cands]. rewrite Eb, (stand_mk pr m Hwf), Rq.
        assert (Hf: ballot_total pr / (1 + 1) + 1 <= first_prefs pr m) by lia. rewrite (Z.mul_comm S). apply Z.mul_le_mono_nonneg_r; lia.
    - eapply t_seq with (M := SatE A m); [cbn [rule_cmd]; apply (scot_one_seat A S ZL cfg Hex m (S * ballot_total pr))|].
      + rewrite Rq. nia.
      + apply t_do. intros s0 Hs c Hc Em. rewrite (Status.cands_log A cfg) in Hc. exact (Hs c Hc Em). }
  specialize (Ht fuel _ s k eq_refl He). destruct k; try contradiction. exact Ht.
Qed.

(* wigm (every option), one seat *)
Theorem count_majority_wigm (pr : profile) m fuel s k : wf_profile pr -> cf_nballots cfg = ballot_total pr ->
  (exists pc, In pc (pr_cands pr) /\ pc_cid pc = m /\ pc_withdrawn pc = false) ->
  ballot_total pr < 2 * first_prefs pr m ->
  exec (@crashed A) fuel (count_cmd A cfg RWigm) (init_state A cfg pr) = Some (s, k) -> k <> Abort ->
  forall c, In c (cands s) -> cid c = m -> cst c = Elected.
Proof.
  intros Hwf Hnbt (pc & Hpc & Epc & Hwd) Hmaj He Hk.
  assert (Hns: 0 <= cf_nseats cfg) by (rewrite Hseat; lia).
  destruct (wigm_quota_value A S ZL cfg Hns Heps Hex) as (q & Eq & Rq). rewrite Hseat, Hnbt in Rq. pose proof (S_pos A S ZL) as HS.
  assert (Hbt: 0 <= ballot_total pr).
  { unfold ballot_total. clear -Hwf. destruct Hwf as [_ Hb]. induction (pr_ballots pr) as [|[mu r] l IH]; cbn [fold_right fst snd]; [lia|].
    assert (0 <= fold_right (fun mr acc => match snd mr with [] => 0 | _ :: _ => fst mr end + acc) 0 l) by (apply IH; intros m' r' H'; apply Hb; right; exact H').
    destruct (Hb mu r (or_introl eq_refl)) as [Hm _]. destruct r; lia. }
  assert (Hqb: 0 <= R q /\ R q <= S * first_prefs pr m).
  { rewrite Rq. destruct (cf_integer_quota cfg).
    - assert (Hd: 2 * (ballot_total pr / (1 + 1)) <= ballot_total pr) by (apply (Z.mul_div_le (ballot_total pr) 2); lia).
      assert (Hd0: 0 <= ballot_total pr / (1 + 1)) by (apply Z.div_pos; lia).
      assert (Hf: 1 + ballot_total pr / (1 + 1) <= first_prefs pr m) by lia. split; [nia|]. rewrite (Z.mul_comm S). apply Z.mul_le_mono_nonneg_r; lia.
    - assert (Hd: 2 * (ballot_total pr * S / (1 + 1)) <= ballot_total pr * S) by (apply (Z.mul_div_le (ballot_total pr * S) 2); lia).
      assert (Hd0: 0 <= ballot_total pr * S / (1 + 1)) by (apply Z.div_pos; nia).
      assert (Hp: S * (ballot_total pr + 1) <= S * (2 * first_prefs pr m)) by (apply Z.mul_le_mono_nonneg_l; lia). lia. }
  destruct Hqb as [Hq0 Hq1].
  assert (Ht: triple (est A) (@crashed A) (fun s0 => s0 = init_state A cfg pr) (count_cmd A cfg RWigm)
            (SatE A m) (fun _ => False) (fun _ => False)).
  { unfold count_cmd. eapply t_seq with (M := fun s0 => Pre A S ZL (S * ballot_total pr) s0 /\ (forall c, In c (cands s0) -> cst c <> Elected) /\ HopM A m s0 /\
                                                       R q <= stand A S ZL (ballots s0) m).
    - apply t_do. intros s0 ->. destruct (pre2_init A S ZL cfg Hex pr Hwf) as [P Hne]. destruct (init_state_shape A cfg pr) as (Ec & Eb & _).
      split; [exact P|split; [exact Hne|split]].
      + exists (with_vote (init_cand A pc) (V0' A)). split; [|split; [exact Epc|cbn [cst with_vote init_cand]; rewrite Hwd; reflexivity]].
        unfold zero_votes. cbn [cands set_cands]. rewrite Ec, map_map. apply in_map_iff. exists pc. split; [reflexivity|exact Hpc].
      + unfold zero_votes. cbn [ballots set_cands]. rewrite Eb, (stand_mk pr m Hwf). exact Hq1.
    - eapply t_seq with (M := SatE A m); [cbn [rule_cmd]; apply (wigm_one_seat A S ZL cfg Hex m (S * ballot_total pr) Hseat _ _ q Eq Hq0)|].
      apply t_do. intros s0 Hs c Hc Em. rewrite (Status.cands_log A cfg) in Hc. exact (Hs c Hc Em). }
  specialize (Ht fuel _ s k eq_refl He). destruct k; try contradiction. exact Ht.
Qed.
End MajCount.
