(* The number of winners (C01) for the CfER rule WITH sure-loser batches (rule name "cfer-batch"): the scan of cfer.py's
   batchDefeat only ever proposes a prefix of the hopefuls in ascending order of tally, and only while "the others + elected"
   are at least the seats, so the invariant of Winners.v / WinnersCfer.v survives batch exclusions. *)
From Coq Require Import ZArith List Bool String Lia PArith Permutation.
From Droop Require Import Model.KernelBase Model.Str Model.Arith Model.Prelude Model.State Model.Prims Model.RulesGregory
  Model.Election Proofs.CmdMeta Proofs.Zlike Proofs.Status Proofs.Ties Proofs.SortLemmas Proofs.Forward Proofs.ForwardOps Proofs.ForwardGreg2
  Proofs.Terminate Proofs.TerminateQpq Proofs.Conserve Proofs.ConserveCount Proofs.Winners Proofs.WinnersCfer Proofs.WinnersBatch.
Import ListNotations.
Open Scope Z_scope.

Section WCB.
Variable A : arith.
Variable S : Z.
Variable ZL : zlike A S.
Variable cfg : config.
Hypothesis Hex : exact A = false.
Notation est := (est A).
Notation cand := (cand A).
Notation actn := (actn A).
Notation hopn := (hopn A).
Notation eln := (eln A).
Notation dfn := (dfn A).
Notation sl := (sl A).
Notation seats := (cf_nseats cfg).
Notation WI := (WI A cfg).
Notation LB := (LB A cfg).
Notation CW := (CW A cfg).
Notation M1 := (M1 A cfg).
Notation BL := (BL A cfg).
Local Open Scope cmd_scope.
Notation T3 := (triple est (@crashed A)).

(* what the scan keeps as its best proposal: a prefix of the scanned list, empty or leaving enough candidates *)
Definition PB (nE : Z) (all best : list cand) : Prop :=
  exists suffix, all = (best ++ suffix)%list /\ (best = [] \/ seats <= nlen suffix + nE).

Lemma cfer_scan_prefix (s : est) surp nE all lastv : forall rest prefix_rev best,
  all = (rev prefix_rev ++ rest)%list -> PB nE all best -> PB nE all (cfer_scan A cfg s surp nE all lastv prefix_rev rest best).
Proof.
  induction rest as [|ct rest IH]; intros prefix_rev best Ha Hb; cbn [cfer_scan]; [exact Hb|].
  destruct rest as [|nextc rest']; [exact Hb|].
  destruct (nlen (nextc :: rest') + nE <? seats) eqn:E1; [exact Hb|].
  assert (Ha': all = (rev (ct :: prefix_rev) ++ nextc :: rest')%list) by (cbn [rev]; rewrite <- app_assoc; exact Ha).
  match goal with |- context [if ?c then _ else _] => destruct c end; [apply IH; assumption|].
  apply IH; [exact Ha'|].
  match goal with |- context [if ?c then _ else _] => destruct c end; [|exact Hb].
  exists (nextc :: rest'). split; [exact Ha'|right; apply Z.ltb_ge in E1; lia].
Qed.

Lemma cfer_batch_prefix (s : est) : NoDup (map (@cid A) (cands s)) ->
  NoDup (map (@cid A) (cfer_batch A cfg s)) /\
  (cfer_batch A cfg s <> [] -> nlen (cfer_batch A cfg s) <= nlen (hopefuls A s) - seats_left A cfg s).
Proof.
  intros Hnd. unfold cfer_batch. cbv zeta. set (cs := by_vote A false (hopefuls A s)).
  destruct (rev cs) as [|lastc r]; [split; [constructor|intros H; contradiction]|].
  assert (Hs: NoDup (map (@cid A) cs)).
  { unfold cs, by_vote. eapply Permutation_NoDup; [apply Permutation_map, Permutation_sym, py_sorted_perm|]. apply nodup_map_filter. exact Hnd. }
  assert (Hl: List.length cs = List.length (hopefuls A s)) by (unfold cs, by_vote; apply Permutation_length, py_sorted_perm).
  destruct (cfer_scan_prefix s (pending_surplus A s) (nlen (electeds A s)) cs (cvote lastc) cs [] []) as (suffix & Ea & Hp).
  - reflexivity.
  - exists cs. split; [reflexivity|left; reflexivity].
  - set (L := cfer_scan A cfg s (pending_surplus A s) (nlen (electeds A s)) cs (cvote lastc) [] cs []) in *.
    split; [rewrite Ea, map_app in Hs; exact (nodup_app_l _ _ Hs)|].
    intros Hne. destruct Hp as [Hp|Hp]; [contradiction|]. unfold seats_left.
    assert (El: nlen (hopefuls A s) = nlen L + nlen suffix) by (unfold nlen; rewrite <- Hl, Ea, app_length; lia). lia.
Qed.

Lemma cfer_find_batch_bl (s : est) : NoDup (map (@cid A) (cands s)) -> BL (cfer_find_batch A cfg s).
Proof.
  intros Hnd. unfold cfer_find_batch. destruct (cf_batch cfg); [|left; reflexivity].
  destruct (cfer_batch_prefix s Hnd) as [Hn Hlen]. pose proof (cfer_batch_hopeful A cfg s) as Hh. rewrite Forall_forall in Hh.
  destruct (cfer_batch A cfg s) as [|c0 L0] eqn:EL; [left; reflexivity|]. right.
  exists (c0 :: L0). cbn [lv_batch set_batch]. split; [reflexivity|].
  split; [exact Hh|split; [exact Hn|apply Hlen; discriminate]].
Qed.

Lemma m1_set_batch (s : est) b : M1 s -> M1 (set_batch s b).
Proof. intros H. exact H. Qed.

Theorem cfer_winners_any (Qb Qc : est -> Prop) : T3 (fun s => WI s /\ round s = 0) (cfer A cfg) LB Qb Qc.
Proof.
  unfold cfer. eapply t_seq with (M := CW).
  { apply t_do. intros s [W R0]. split.
    - apply (wi_mono A cfg s); [|exact W]. eapply mono_trans; [apply mono_sl, sl_start_count|apply mono_log].
    - rewrite (rd_log A cfg). assert (Er: round (start_count A (droop_quota_eps A cfg) s) = round s).
      { destruct (droop_quota_eps A cfg); [apply rd_start|reflexivity]. }
      rewrite Er, R0. split; [lia|intros; lia]. }
  eapply t_post; [|apply (t_while est (@crashed A) CW LB)]; [intros s [H|[_ Hg]]; [exact H|discriminate]|].
  eapply t_pre; [intros s [Hs _]; exact Hs|].
  eapply t_seq with (M := fun s => WI s /\ 1 <= round s /\ (2 <= round s -> seats < Z.of_nat (actn s))).
  { apply t_do. intros s (W & R0 & Hlt). pose proof (mono_sl A s (new_round A cfg s) (sl_log A cfg _ _ _)) as M.
    assert (Er: round (new_round A cfg s) = round s + 1) by (unfold new_round; rewrite (rd_log A cfg); reflexivity).
    split; [exact (wi_mono A cfg s _ M W)|]. split; [lia|]. intros H2. destruct M as (_ & M2 & _). specialize (Hlt ltac:(lia)). lia. }
  eapply t_seq with (M := M1).
  { apply t_ite.
    - eapply t_seq with (M := LB); [|apply t_break'; auto]. apply t_do. intros s [(W & _) _]. apply lb_elect_all. exact W.
    - apply t_skip'. intros s [(W & R1 & H2) Hg]. split; [exact W|]. split; [exact R1|].
      apply andb_false_iff in Hg. destruct Hg as [Hg|Hg].
      + apply Z.eqb_neq in Hg. apply H2. lia.
      + apply Z.leb_gt in Hg. rewrite (nlen_hopefuls A) in Hg. rewrite (actn_split A). lia. }
  eapply t_seq with (M := M1); [apply m1_step; [intros; apply rd_elect_with_quota|intros; apply (mono_elect_with_quota A cfg)]|].
  eapply t_seq with (M := M1).
  { apply t_ite; [|apply t_skip'; intros s [H _]; exact H].
    eapply t_seq with (M := fun s => NoDup (map (@cid A) (cands s)) /\ seats <= Z.of_nat (eln s)); [|eapply t_seq with (M := LB); [|apply t_break'; auto]].
    - apply t_do. intros s [(W & _) Hg]. split.
      + rewrite (proj2 (proj2 (mono_unpend_all A cfg s))). exact (proj1 W).
      + pose proof (eln_unpend_all A cfg s). apply Z.leb_le in Hg. rewrite (nlen_electeds A) in Hg. lia.
    - apply t_do. intros s [Hnd Hge].
      destruct (defeat_all_fold A cfg "Defeat remaining" (hopefuls A s) s Hnd (nodup_map_filter _ _ _ Hnd) (hop_self A s)) as (F1 & _ & _).
      cbv zeta in F1. unfold WinnersCfer.LB. rewrite F1. lia. }
  eapply t_seq with (M := fun s => M1 s /\ BL s).
  { apply t_do. intros s H. split; [exact H|apply cfer_find_batch_bl; exact (proj1 (proj1 H))]. }
  eapply t_seq with (M := fun s => WI s /\ 1 <= round s /\ (seats < Z.of_nat (actn s) \/ (seats <= Z.of_nat (actn s) /\ lv_batch s <> []))).
  { apply t_ite.
    - apply t_do. intros s [[(W & R1 & Hlt) Hb] Hg].
      destruct Hb as [Hb|(L & Eb & HL & HLn & Hlen)]; [rewrite Hb in Hg; discriminate Hg|].
      destruct (wi_defeat_batch A cfg Hex "Defeat batch" L s W Eb HL HLn Hlen) as [W' Hge].
      split; [exact W'|]. split; [rewrite (rd_defeat_batch_order A cfg); exact R1|]. right. split; [exact Hge|].
      unfold defeat_batch_in_ballot_order. rewrite (lvb_fold_defeat A cfg). intros E0. rewrite E0 in Hg. discriminate Hg.
    - apply t_ite.
      + apply t_do. intros s [[[(W & R1 & Hlt) _] _] _]. pose proof (mono_cfer_transfer_all A cfg s) as M.
        split; [exact (wi_mono A cfg s _ M W)|]. split; [rewrite rd_cfer_transfer_all; exact R1|]. left. destruct M as (_ & M2 & _). lia.
      + apply t_do. intros s [[[(W & R1 & Hlt) _] _] _]. destruct (cfer_defeat_low_wi A cfg s W Hlt) as [W' H'].
        split; [exact W'|]. split; [rewrite rd_cfer_defeat_low; exact R1|exact H']. }
  apply t_ite.
  - eapply t_seq with (M := M1).
    + apply t_ite.
      * eapply t_seq with (M := fun s => WI s); [|eapply t_seq with (M := LB); [|apply t_break'; auto]].
        -- apply t_do. intros s [[(W & _) _] _]. apply (wi_mono A cfg s); [|exact W].
           apply (mono_fold A (fun s c => elect A cfg (cid c) "Elect pending" false s)). intros; apply (mono_elect A cfg).
        -- apply t_do. intros s W. apply lb_elect_all. exact W.
      * apply t_skip'. intros s [[(W & R1 & H) _] Hg3]. split; [exact W|]. split; [exact R1|].
        apply Z.leb_gt in Hg3. rewrite (nlen_hopefuls A), (nlen_electeds A) in Hg3. rewrite (actn_split A). lia.
    + apply t_do. intros s (W & R1 & Hlt). pose proof (mono_sl A s _ (sl_transfer_batch A cfg (is_hopeful A) s)) as M.
      split; [exact (wi_mono A cfg s _ M W)|]. split; [rewrite rd_transfer_batch; lia|]. intros _. destruct M as (_ & M2 & _). lia.
  - apply t_skip'. intros s [(W & R1 & H) Hg]. split; [exact W|]. split; [lia|]. intros _.
    destruct H as [H|[_ Hne]]; [exact H|]. exfalso. apply Hne. exact (nonempty_false _ Hg).
Qed.
End WCB.

Section WCBCount.
Variable A : arith.
Variable S : Z.
Variable ZL : zlike A S.
Variable cfg : config.
Hypothesis Hmeth : cf_method cfg = MWigm.
Hypothesis Hex : exact A = false.
Hypothesis Hnb : 0 <= cf_nballots cfg.
Hypothesis Hns : 0 <= cf_nseats cfg.

(* cfer and cfer-batch alike: a count that ends normally elects exactly min(seats, candidates not withdrawn) *)
Theorem count_winners_cfer_any pr fuel s k : wf_profile pr -> cf_nballots cfg = ballot_total pr ->
  exec (@crashed A) fuel (count_cmd A cfg RCfer) (init_state A cfg pr) = Some (s, k) -> k <> Abort ->
  nlen (electeds A s) = Z.min (cf_nseats cfg) (nlen (eligibles A s)).
Proof.
  intros Hwf Hnbt He Hk.
  assert (Hsr: seat_rule RCfer) by (right; right; right; right; reflexivity).
  pose proof (count_seats A S ZL cfg Hmeth Hex Hnb Hns RCfer pr fuel s k Hsr Hwf Hnbt He Hk) as Hle.
  assert (Ht: triple (est A) (@crashed A) (fun s0 => s0 = init_state A cfg pr) (count_cmd A cfg RCfer)
            (LB A cfg) (LB A cfg) (LB A cfg)).
  { unfold count_cmd. eapply t_seq with (M := fun s0 => WI A cfg s0 /\ round s0 = 0).
    - apply t_do. intros s0 ->. split; [apply (wi_init A cfg); exact (proj1 Hwf)|]. unfold zero_votes. cbn [round set_cands]. apply init_round.
    - eapply t_seq with (M := LB A cfg); [cbn [rule_cmd]; apply (cfer_winners_any A cfg Hex)|].
      apply t_do. intros s0 H. unfold LB in *. destruct (counts_sl4 A _ _ (sl_log A cfg TEnd "Count Complete" s0)) as (E1 & E2 & E3 & E4).
      unfold Winners.nonw in *. rewrite E1, E3, E4. exact H. }
  specialize (Ht fuel _ s k eq_refl He). assert (H: LB A cfg s) by (destruct k; try exact Ht; congruence).
  unfold LB in H. rewrite (nlen_electeds A), (nlen_eligibles A Hex). rewrite (nlen_electeds A) in Hle.
  pose proof (actn_split A s) as Es. unfold Winners.nonw in *. lia.
Qed.
End WCBCount.
