(* C14 -- what "rounded half-up" means without reference to Qfloor: the printed integer of display units is
   the nearest one to the exact value, a tie going upward, and it is the only integer with that property. *)
From Coq Require Import ZArith QArith Qround Lia Lqa.
From Droop Require Import Proofs.C14Proofs.
Open Scope Z_scope.

Lemma half_up_nearest (x : Q) (d : Z) :
  let y := (x * inject_Z (10 ^ d))%Q in
  (inject_Z (half_up x d) - (1 # 2) <= y)%Q /\ (y < inject_Z (half_up x d) + (1 # 2))%Q.
Proof.
  cbv zeta. unfold half_up.
  set (y := (x * inject_Z (10 ^ d))%Q).
  pose proof (Qfloor_le (y + (1 # 2))) as L.
  pose proof (Qlt_floor (y + (1 # 2))) as U.
  rewrite inject_Z_plus in U. change (inject_Z 1) with 1%Q in U.
  split; lra.
Qed.

Lemma half_up_unique (x : Q) (d n : Z) :
  let y := (x * inject_Z (10 ^ d))%Q in
  (inject_Z n - (1 # 2) <= y)%Q -> (y < inject_Z n + (1 # 2))%Q -> n = half_up x d.
Proof.
  cbv zeta. intros L U. destruct (half_up_nearest x d) as [L' U']. cbv zeta in L', U'.
  set (y := (x * inject_Z (10 ^ d))%Q) in *. set (h := half_up x d) in *.
  assert (A: (inject_Z n < inject_Z h + 1)%Q) by lra.
  assert (B: (inject_Z h < inject_Z n + 1)%Q) by lra.
  change 1%Q with (inject_Z 1) in A, B. rewrite <- inject_Z_plus in A, B.
  rewrite <- Zlt_Qlt in A, B. lia.
Qed.

(* both together, in the form used by Props/C14.v *)
Lemma c14_half_up_is_nearest (x : Q) (d : Z) :
  let y := (x * inject_Z (10 ^ d))%Q in
  ((inject_Z (half_up x d) - (1 # 2) <= y)%Q /\ (y < inject_Z (half_up x d) + (1 # 2))%Q) /\
  (forall n, (inject_Z n - (1 # 2) <= y)%Q -> (y < inject_Z n + (1 # 2))%Q -> n = half_up x d).
Proof. cbv zeta. split; [apply half_up_nearest|intros n; apply half_up_unique]. Qed.
