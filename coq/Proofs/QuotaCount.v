(* C04, whole run, Gregory family: the quota reported by a count that ends normally -- at the end and in EVERY recorded
   snapshot -- is the one the rule prescribes.  QHist.v shows the quota is set once, before the first snapshot, and never
   changes; Quota.v gives the value. *)
From Coq Require Import ZArith List Bool String Lia.
From Droop Require Import Model.KernelBase Model.Str Model.Arith Model.Prelude Model.State Model.Prims Model.RulesGregory
  Model.Election Proofs.CmdMeta Proofs.Zlike Proofs.Quota Proofs.QHist Proofs.ForwardCount Proofs.ConserveCount.
Import ListNotations.
Open Scope Z_scope.

Section QC.
Variable A : arith.
Variable cfg : config.
Notation est := (est A).

Definition rule_quota (r : rule) : option (res (T A)) :=
  match r with
  | RWigm => Some (wigm_quota A cfg)
  | RWigmPrf | RCfer => Some (droop_quota_eps A cfg)
  | RScotland | RMpls => Some (Ok (integer_droop_quota A cfg))
  | _ => None
  end.

Lemma snaps_show_snaps q (l : list (action A)) : snaps_show A q l -> Forall (fun sn => as_quota sn = q) (snaps A l).
Proof.
  induction 1 as [|a t Ha _ IH]; cbn [snaps]; [constructor|]. destruct (a_snap a) as [sn|]; [constructor; [apply Ha; reflexivity|exact IH]|exact IH].
Qed.

Theorem count_quota_fixed r q pr fuel s k : rule_quota r = Some (Ok q) ->
  exec (@crashed A) fuel (count_cmd A cfg r) (init_state A cfg pr) = Some (s, k) -> k <> Abort ->
  quota s = q /\ Forall (fun sn => as_quota sn = q) (snaps A (actions s)).
Proof.
  intros Hq He Hk.
  assert (Ht: triple est (@crashed A) (fun s0 => s0 = init_state A cfg pr) (count_cmd A cfg r) (QJ A q) (QJ A q) (QJ A q)).
  { unfold count_cmd. eapply t_seq with (M := NoSnap A).
    - apply t_do. intros s0 ->. unfold NoSnap. cbn [actions set_cands]. exact (proj2 (proj2 (init_state_shape A cfg pr))).
    - eapply t_seq with (M := QJ A q).
      + destruct r; cbn [rule_quota rule_cmd] in *; try discriminate.
        * apply wigm_quota_fixed. intros q' E. congruence.
        * apply wigm_prf_quota_fixed. intros q' E. congruence.
        * replace q with (integer_droop_quota A cfg) by congruence. apply scotland_quota_fixed.
        * apply cfer_quota_fixed. intros q' E. congruence.
        * replace q with (integer_droop_quota A cfg) by congruence. apply mpls_quota_fixed.
      + apply t_do. intros s0 H. apply e_log. exact H. }
  specialize (Ht fuel _ s k eq_refl He). assert (H: QJ A q s) by (destruct k; try exact Ht; congruence).
  destruct H as [E F]. split; [exact E|apply snaps_show_snaps; exact F].
Qed.
End QC.

(* the value, for the integer-carrier arithmetics (raw units, S = 10^p) *)
Section QV.
Variable A : arith.
Variable S : Z.
Variable ZL : zlike A S.
Variable cfg : config.
Notation R := (@raw A S ZL).
Hypothesis Hs : 0 <= cf_nseats cfg.
Hypothesis Heps : R (epsilon A) = 1.
Hypothesis Hex : exact A = false.

Definition prescribed (r : rule) : Z :=
  let n := cf_nballots cfg in let s := cf_nseats cfg in
  match r with
  | RWigm => if cf_integer_quota cfg then (1 + n / (s + 1)) * S else n * S / (s + 1) + 1
  | RWigmPrf | RCfer => n * S / (s + 1) + 1
  | _ => (n / (s + 1) + 1) * S
  end.

Theorem count_quota_prescribed r pr fuel s k : seat_rule r ->
  exec (@crashed A) fuel (count_cmd A cfg r) (init_state A cfg pr) = Some (s, k) -> k <> Abort ->
  R (quota s) = prescribed r /\ Forall (fun sn => R (as_quota sn) = prescribed r) (snaps A (actions s)).
Proof.
  intros Hr He Hk.
  assert (Hq: exists q, rule_quota A cfg r = Some (Ok q) /\ R q = prescribed r).
  { destruct Hr as [ -> | [ -> | [ -> | [ -> | -> ] ] ] ]; cbn [rule_quota prescribed].
    - destruct (wigm_quota_value A S ZL cfg Hs Heps Hex) as (q & E & V). exists q. rewrite E. split; [reflexivity|exact V].
    - destruct (droop_quota_eps_value A S ZL cfg Hs Heps) as (q & E & V). exists q. rewrite E. split; [reflexivity|exact V].
    - eexists; split; [reflexivity|apply integer_quota_value].
    - eexists; split; [reflexivity|apply integer_quota_value].
    - destruct (droop_quota_eps_value A S ZL cfg Hs Heps) as (q & E & V). exists q. rewrite E. split; [reflexivity|exact V]. }
  destruct Hq as (q & Eq' & V). destruct (count_quota_fixed A cfg r q pr fuel s k Eq' He Hk) as [E F].
  split; [rewrite E; exact V|]. eapply Forall_impl; [|exact F]. cbn. intros sn Hsn. rewrite Hsn. exact V.
Qed.
End QV.
