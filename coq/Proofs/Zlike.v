(* Integer-carrier arithmetics (Fixed, integer, Guarded) seen through one set of laws:
   raw : T A -> Z is an injective homomorphism onto scaled integers. *)
From Coq Require Import ZArith List Bool Lia ZifyBool.
From Droop Require Import Model.KernelBase Model.Arith Gen.FixedKernels Gen.GuardedKernels
  Proofs.ArithLemmas Proofs.GuardedLemmas.
Import ListNotations.
Open Scope Z_scope.

(* round-up adjustment of the explicit-rounding kernels: one unit iff rounding up and the remainder is non-zero *)
Definition upadj (up : bool) (rem : Z) : Z := if up && negb (rem =? 0) then 1 else 0.

Record zlike (A : arith) (S : Z) := {
  raw : T A -> Z;
  raw_inj : forall a b, raw a = raw b -> a = b;
  S_pos : 0 < S;
  r_of_int : forall n, raw (of_int A n) = n * S;
  r_add : forall a b, raw (add A a b) = raw a + raw b;
  r_sub : forall a b, raw (sub A a b) = raw a - raw b;
  r_mulv : forall a b, raw (mulv A a b) = raw a * raw b / S;
  r_divv : forall a b, raw b <> 0 -> exists c, divv A a b = Ok c /\ raw c = raw a * S / raw b;
  r_divv0 : forall a b, raw b = 0 -> divv A a b = Raise ZeroDivisionError;
  r_kmuldiv_down : forall a b c, raw c <> 0 -> exists d, kmuldiv A a b c false = Ok d /\ raw d = raw a * raw b / raw c;
  r_ltv_exact : exact A = false -> forall a b, ltv A a b = (raw a <? raw b);
  r_gev_exact : exact A = false -> forall a b, gev A a b = (raw b <=? raw a);
  r_eqv_exact : exact A = false -> forall a b, eqv A a b = (raw a =? raw b);
  r_gtv_exact : exact A = false -> forall a b, gtv A a b = (raw b <? raw a);
  (* a multiplier compares equal to one exactly when it is one (also under the fuzzy Guarded comparison) *)
  r_eqv_one : forall a n, raw a = n * S -> eqv A a (of_int A 1) = (n =? 1);
  r_kmuldiv0 : forall a b c up, raw c = 0 -> kmuldiv A a b c up = Raise ZeroDivisionError;
  r_eps : 1 <= raw (epsilon A);
  r_truth : forall a, truth A a = negb (raw a =? 0);
  (* V.mul / V.div with explicit rounding (exact comparisons = Fixed, integer, Guarded with guard 0) *)
  r_kmul : exact A = false -> forall a b up, raw (kmul A a b up) = raw a * raw b / S + upadj up (raw a * raw b mod S);
  r_kdiv : exact A = false -> forall a b up, raw b <> 0 ->
           exists c, kdiv A a b up = Ok c /\ raw c = raw a * S / raw b + upadj up (raw a * S mod raw b);
  r_kdiv0 : exact A = false -> forall a b up, raw b = 0 -> kdiv A a b up = Raise ZeroDivisionError;
  r_lev_exact : exact A = false -> forall a b, lev A a b = (raw a <=? raw b)
}.
Arguments raw {A S}.

Lemma res_true_ok b : res_true (Ok b) = b.
Proof. destruct b; reflexivity. Qed.

Lemma up_adj_upadj up rem : up_adj (rnd_of up) rem = upadj up rem.
Proof. unfold up_adj, upadj. destruct up; cbn [rnd_of andb]; destruct (rem =? 0); reflexivity. Qed.
Lemma rnd_of_ok up : rnd_of up = RUp \/ rnd_of up = RDown.
Proof. destruct up; [left|right]; reflexivity. Qed.

Lemma pow10_pos'' k : 0 <= k -> 0 < 10 ^ k.
Proof. intros. apply Z.pow_pos_nonneg; lia. Qed.

Lemma zlike_fixed p d : 0 <= p -> zlike (Fixed p d) (10 ^ p).
Proof.
  intros Hp. pose proof (pow10_pos'' p Hp) as HS.
  assert (HS': f_scale (mk_fixed_cls p d) <> 0) by (cbn; lia).
  refine {| raw := fun a : T (Fixed p d) => (a : Z) |}; cbn [Fixed T of_int add sub mulv divv kmuldiv kmul kdiv ltv lev gev eqv gtv exact epsilon truth].
  - auto.
  - exact HS.
  - intros n. reflexivity.
  - intros a b. cbn. lia.
  - intros a b. reflexivity.
  - intros a b. rewrite (mul_val _ HS'). reflexivity.
  - intros a b Hb. unfold dunder_truediv. rewrite (floordiv_val _ a b Hb). eexists; split; reflexivity.
  - intros a b ->. reflexivity.
  - intros a b c Hc. rewrite (muldiv_k _ a b c RDown (or_intror eq_refl) Hc). eexists; split; [reflexivity|]. cbn. lia.
  - intros _ a b. unfold res_true, FixedKernels.dunder_lt, operand_value, bind. destruct (a <? b); reflexivity.
  - intros _ a b. unfold res_true, FixedKernels.dunder_ge, operand_value, bind. destruct (b <=? a); reflexivity.
  - intros _ a b. unfold res_true, FixedKernels.dunder_eq, operand_value, bind. destruct (a =? b); reflexivity.
  - intros _ a b. unfold res_true, FixedKernels.dunder_gt, operand_value, bind. destruct (b <? a); reflexivity.
  - intros a n Ha. cbn in Ha. unfold res_true, FixedKernels.dunder_eq, operand_value, bind. cbn [FixedKernels.init FixedKernels.init_r f_scale mk_fixed_cls].
    subst a. destruct (n * 10 ^ p =? 1 * 10 ^ p) eqn:E; destruct (n =? 1) eqn:E2; try reflexivity; nia.
  - intros a b c up Hc. cbn in Hc. subst c. unfold FixedKernels.muldiv. cbn [FixedKernels.init FixedKernels.init_r]. cbv zeta. unfold pydivmod. cbn [Z.eqb bind]. reflexivity.
  - cbn. lia.
  - intros a. unfold res_true. cbn. destruct (a =? 0); reflexivity.
  - intros _ a b up. rewrite (mul_k _ HS' a b _ (rnd_of_ok up)). cbn [unres]. rewrite up_adj_upadj. reflexivity.
  - intros _ a b up Hb. rewrite (div_k _ a b _ (rnd_of_ok up) Hb). eexists; split; [reflexivity|]. rewrite up_adj_upadj. reflexivity.
  - intros _ a b up Hb. cbn in Hb. subst b. apply (div_k_zero _ a _ (rnd_of_ok up)).
  - intros _ a b. unfold res_true, FixedKernels.dunder_le, operand_value, bind. destruct (a <=? b); reflexivity.
Defined.

Lemma zlike_guarded p g d s : 0 <= p -> 0 <= g -> zlike (Guarded p g d s) (10 ^ (p + g)).
Proof.
  intros Hp Hg. pose proof (pow10_pos'' (p + g) ltac:(lia)) as HS.
  set (st := mk_guarded_cls p g d s).
  assert (HS': g_scale st = 10 ^ (p + g)) by reflexivity.
  refine {| raw := fun a : T (Guarded p g d s) => (a : Z) |}; cbn [Guarded T of_int add sub mulv divv kmuldiv kmul kdiv ltv lev gev eqv gtv exact epsilon truth]; fold st.
  - auto.
  - exact HS.
  - intros n. reflexivity.
  - intros a b. reflexivity.
  - intros a b. reflexivity.
  - intros a b. unfold GuardedKernels.dunder_mul. cbn [operand_raw]. rewrite HS'.
    rewrite pydiv_ok by lia. reflexivity.
  - intros a b Hb. unfold GuardedKernels.dunder_truediv, GuardedKernels.dunder_floordiv. rewrite HS'.
    rewrite pydiv_ok by exact Hb. eexists; split; reflexivity.
  - intros a b ->. reflexivity.
  - intros a b c Hc. unfold GuardedKernels.muldiv. cbn [GuardedKernels.init GuardedKernels.init_r]. cbv zeta.
    unfold truthy. destruct (g_guard st =? 0) eqn:G0; cbn [negb].
    + rewrite pydivmod_ok by exact Hc. cbn [bind rnd_eqb andb]. rewrite andb_false_r. eexists; split; reflexivity.
    + rewrite pydiv_ok by exact Hc. cbn [bind]. eexists; split; reflexivity.
  - intros Hex a b.
    assert (G0: g = 0) by (destruct (g =? 0) eqn:E; [lia|discriminate]). subst g.
    destruct (rel_of_cmp st a b) as (_ & _ & E3 & _). rewrite E3, res_true_ok.
    change (g_geps st) with 1. lia.
  - intros Hex a b.
    assert (G0: g = 0) by (destruct (g =? 0) eqn:E; [lia|discriminate]). subst g.
    destruct (rel_of_cmp st a b) as (_ & _ & _ & _ & _ & E6). rewrite E6, res_true_ok.
    change (g_geps st) with 1. lia.
  - intros Hex a b.
    assert (G0: g = 0) by (destruct (g =? 0) eqn:E; [lia|discriminate]). subst g.
    destruct (rel_of_cmp st a b) as (E1 & _). rewrite E1, res_true_ok.
    change (g_geps st) with 1. lia.
  - intros Hex a b.
    assert (G0: g = 0) by (destruct (g =? 0) eqn:E; [lia|discriminate]). subst g.
    destruct (rel_of_cmp st a b) as (_ & _ & _ & E4 & _). rewrite E4, res_true_ok.
    change (g_geps st) with 1. lia.
  - intros a n Ha. cbn in Ha.
    destruct (rel_of_cmp st a (GuardedKernels.init st (OInt 1) false)) as (E1 & _). rewrite E1, res_true_ok.
    cbn [GuardedKernels.init GuardedKernels.init_r]. rewrite HS'. subst a.
    destruct (geps_spec p g d s Hg) as [He _]. fold st in He.
    assert (Hle: g_geps st <= 10 ^ (p + g)).
    { unfold st. cbn [g_geps mk_guarded_cls]. pose proof (pow10_pos'' g Hg).
      assert (10 ^ g <= 10 ^ (p + g)) by (apply Z.pow_le_mono_r; lia).
      destruct (10 ^ g / 2 =? 0) eqn:Z0; [lia|]. assert (10 ^ g / 2 <= 10 ^ g) by (apply Z.div_le_upper_bound; lia). lia. }
    destruct (n =? 1) eqn:E2.
    + assert (n = 1) by lia. subst n. rewrite Z.sub_diag. change (Z.abs 0) with 0.
      destruct (0 <? g_geps st) eqn:E3; [reflexivity|lia].
    + assert (10 ^ (p + g) <= Z.abs (n * 10 ^ (p + g) - 1 * 10 ^ (p + g))) by nia. lia.
  - intros a b c up Hc. cbn in Hc. subst c. unfold GuardedKernels.muldiv. cbn [GuardedKernels.init GuardedKernels.init_r]. cbv zeta.
    unfold pydivmod, pydiv. cbn [Z.eqb bind]. destruct (truthy (g_guard st)); reflexivity.
  - cbn. lia.
  - intros a. unfold res_true. cbn. destruct (a =? 0); reflexivity.
  - intros Hex a b up.
    assert (G0: g = 0) by (destruct (g =? 0) eqn:E; [lia|discriminate]). subst g. unfold st.
    assert (HSf: f_scale (mk_fixed_cls p d) <> 0) by (cbn; pose proof (pow10_pos'' p Hp); lia).
    destruct (g0_round p d s (OVal a) (OVal b) (OVal 0) _ (rnd_of_ok up)) as (E1 & _). rewrite E1.
    rewrite (mul_k _ HSf a b _ (rnd_of_ok up)). cbn [unres]. rewrite up_adj_upadj. cbn [f_scale mk_fixed_cls]. rewrite Z.add_0_r. reflexivity.
  - intros Hex a b up Hb.
    assert (G0: g = 0) by (destruct (g =? 0) eqn:E; [lia|discriminate]). subst g. unfold st.
    assert (HSf: f_scale (mk_fixed_cls p d) <> 0) by (cbn; pose proof (pow10_pos'' p Hp); lia).
    destruct (g0_round p d s (OVal a) (OVal b) (OVal 0) _ (rnd_of_ok up)) as (_ & E2 & _). rewrite E2.
    rewrite (div_k _ a b _ (rnd_of_ok up) Hb). eexists; split; [reflexivity|]. rewrite up_adj_upadj. cbn [f_scale mk_fixed_cls]. rewrite Z.add_0_r. reflexivity.
  - intros Hex a b up Hb. cbn in Hb. subst b.
    assert (G0: g = 0) by (destruct (g =? 0) eqn:E; [lia|discriminate]). subst g. unfold st.
    destruct (g0_round p d s (OVal a) (OVal 0) (OVal 0) _ (rnd_of_ok up)) as (_ & E2 & _). rewrite E2.
    apply (div_k_zero _ a _ (rnd_of_ok up)).
  - intros Hex a b.
    assert (G0: g = 0) by (destruct (g =? 0) eqn:E; [lia|discriminate]). subst g.
    destruct (rel_of_cmp st a b) as (_ & _ & _ & _ & E5 & _). rewrite E5, res_true_ok.
    change (g_geps st) with 1. lia.
Defined.
