(* C14 at the level of the integers handed to the "%d.%0Nd" format (the regenerated __str__ kernels). *)
From Coq Require Import ZArith QArith Qround List Bool Lia ZifyBool.
From Droop Require Import Model.KernelBase Model.Arith Gen.FixedKernels Gen.GuardedKernels
  Proofs.ArithLemmas Proofs.GuardedLemmas.
Import ListNotations.
Open Scope Z_scope.
Ltac Zify.zify_post_hook ::= Z.div_mod_to_equations.

(* exact value x rounded half-up to d decimal digits, as an integer number of 10^-d units *)
Definition half_up (x : Q) (d : Z) : Z := Qfloor (x * inject_Z (10 ^ d) + (1 # 2)).

(* what the format arguments denote, in 10^-d units; w2 = digits after the underscore *)
Fixpoint fmt_value (d w2 : Z) (f : fmt_args) : Z :=
  match f with
  | FmtInt a => a
  | Fmt2 a b => a * 10 ^ d + b
  | Fmt3 a b c => a * 10 ^ d + b * 10 ^ w2 + c
  | FmtNeg g => - fmt_value d w2 g
  end.
(* every field fits its zero-padded width and a sign is printed only for a value below zero *)
Definition fmt_pos_wf (d w2 : Z) (f : fmt_args) : Prop :=
  match f with
  | Fmt2 a b => 0 <= a /\ 0 <= b < 10 ^ d
  | Fmt3 a b c => 0 <= a /\ 0 <= b < 10 ^ (d - w2) /\ 0 <= c < 10 ^ w2
  | _ => False
  end.
Definition fmt_wf (d w2 : Z) (f : fmt_args) : Prop :=
  match f with
  | FmtInt _ => d = 0
  | FmtNeg g => fmt_pos_wf d w2 g /\ 0 < fmt_value d w2 g
  | g => fmt_pos_wf d w2 g
  end.

Lemma pow10_split a b : 0 <= a -> 0 <= b -> 10 ^ (a + b) = 10 ^ a * 10 ^ b.
Proof. intros. apply Z.pow_add_r; assumption. Qed.

Lemma inject_pow_nz k : 0 <= k -> ~ inject_Z (10 ^ k) == 0.
Proof. intros. apply inject_Z_nonzero. pose proof (pow10_pos' k H). lia. Qed.

Lemma half_up_raw P d v : 0 <= d <= P ->
  half_up (valQ (10 ^ P) v) d = (v + 10 ^ (P - d) / 2) / 10 ^ (P - d).
Proof.
  intros Hd. unfold half_up, valQ. set (T := 10 ^ (P - d)).
  assert (HT: 0 < T) by (apply pow10_pos'; lia).
  assert (E: 10 ^ P = 10 ^ d * T).
  { unfold T. rewrite <- pow10_split by lia. f_equal. lia. }
  assert (Q1: inject_Z v / inject_Z (10 ^ P) * inject_Z (10 ^ d) + (1 # 2) ==
              inject_Z (2 * v + T) / inject_Z (2 * T)).
  { rewrite E. rewrite !inject_Z_plus, !inject_Z_mult. change (1 # 2) with (/ inject_Z 2). field.
    repeat split; try (apply inject_Z_nonzero; lia); try (apply inject_pow_nz; lia). }
  rewrite (Qfloor_comp _ _ Q1), Qfloor_div_Z by lia.
  destruct (Z.eq_dec (P - d) 0) as [Z0|NZ].
  - unfold T. rewrite Z0. change (10 ^ 0) with 1. lia.
  - pose proof (pow10_even (P - d) ltac:(lia)) as Ev. fold T in Ev.
    replace (2 * v + T) with (2 * (v + T / 2)) by lia.
    rewrite Z.div_mul_cancel_l by lia. reflexivity.
Qed.

Lemma split_pos m sc : 0 <= m -> 0 < sc -> 0 <= m / sc /\ 0 <= m mod sc < sc /\ m / sc * sc + m mod sc = m.
Proof. intros. repeat split; try lia. apply Z.div_pos; lia. Qed.

(* ---- Fixed ---- *)
Lemma c14_fixed p d0 v : 0 <= p ->
  let st := mk_fixed_cls p d0 in let d := f_display st in
  exists f, FixedKernels.dunder_str st v = Ok f /\ fmt_wf d 0 f /\
            fmt_value d 0 f = half_up (valQ (10 ^ p) v) d /\ 0 <= d <= p.
Proof.
  intros Hp st d.
  assert (Hd: 0 <= d <= p).
  { unfold d, st. cbn [f_display mk_fixed_cls]. unfold fixed_display. destruct ((d0 <? 0) || (p <? d0)) eqn:E; lia. }
  assert (Hsc: f_scaled st = 10 ^ d) by reflexivity.
  assert (Hsd: f_scaledd st = 10 ^ (p - d)) by reflexivity.
  assert (Hsr: f_scaledr st = 10 ^ (p - d) / 2) by reflexivity.
  assert (Hpr: f_precision st = p) by reflexivity.
  pose proof (pow10_pos' d ltac:(lia)) as Pd. pose proof (pow10_pos' (p - d) ltac:(lia)) as Pk.
  rewrite (half_up_raw p d v Hd).
  unfold FixedKernels.dunder_str. cbv zeta. fold d. rewrite Hpr, Hsc, Hsd, Hsr.
  destruct (p =? 0) eqn:P0.
  - assert (d = 0) by lia. eexists; split; [reflexivity|]. cbn [fmt_wf fmt_value].
    replace (p - d) with 0 by lia. change (10 ^ 0) with 1. repeat split; try lia.
  - destruct (d <? p) eqn:Dp.
    + rewrite pydiv_ok by lia. cbn [bind]. set (m := (v + 10 ^ (p - d) / 2) / 10 ^ (p - d)).
      destruct (m <? 0) eqn:M0.
      * rewrite pydiv_ok, pymod_ok by lia. cbn [bind].
        destruct (split_pos (- m) (10 ^ d) ltac:(lia) Pd) as (A & B & C).
        eexists; split; [reflexivity|]. cbn [fmt_wf fmt_pos_wf fmt_value]. repeat split; lia.
      * rewrite pydiv_ok, pymod_ok by lia. cbn [bind].
        destruct (split_pos m (10 ^ d) ltac:(lia) Pd) as (A & B & C).
        eexists; split; [reflexivity|]. cbn [fmt_wf fmt_pos_wf fmt_value]. repeat split; lia.
    + assert (d = p) by lia. replace (p - d) with 0 by lia. change (10 ^ 0) with 1.
      replace ((v + 1 / 2) / 1) with v by lia.
      destruct (v <? 0) eqn:M0.
      * rewrite pydiv_ok, pymod_ok by lia. cbn [bind].
        destruct (split_pos (- v) (10 ^ d) ltac:(lia) Pd) as (A & B & C).
        eexists; split; [reflexivity|]. cbn [fmt_wf fmt_pos_wf fmt_value]. repeat split; lia.
      * rewrite pydiv_ok, pymod_ok by lia. cbn [bind].
        destruct (split_pos v (10 ^ d) ltac:(lia) Pd) as (A & B & C).
        eexists; split; [reflexivity|]. cbn [fmt_wf fmt_pos_wf fmt_value]. repeat split; lia.
Qed.

(* ---- Guarded ---- *)
Lemma c14_guarded p g d0 s v : 0 <= p -> 0 <= g -> 0 <= d0 ->
  let st := mk_guarded_cls p g d0 s in let d := g_display st in
  let w2 := if d <=? p then 0 else d - p in
  exists f, GuardedKernels.dunder_str st v = Ok f /\ fmt_wf d w2 f /\
            fmt_value d w2 f = half_up (valQ (10 ^ (p + g)) v) d /\ 0 <= d <= p + g.
Proof.
  intros Hp Hg Hd0 st d w2.
  assert (Hd: 0 <= d <= p + g).
  { unfold d, st. cbn [g_display mk_guarded_cls]. cbv zeta. destruct (p + g <? d0) eqn:E; lia. }
  assert (Hsc: g_scaled st = 10 ^ d) by reflexivity.
  assert (Hsd: g_scaledd st = 10 ^ (p + g - d)).
  { unfold d, st. cbn [g_scaledd g_display mk_guarded_cls]. cbv zeta. f_equal. destruct (p + g <? d0); lia. }
  assert (Hsr: g_scaledr st = 10 ^ (p + g - d) / 2).
  { unfold d, st. cbn [g_scaledr g_display mk_guarded_cls]. cbv zeta. do 2 f_equal. destruct (p + g <? d0); lia. }
  assert (Hpr: g_precision st = p) by reflexivity.
  assert (Hsg: p < d -> g_scaledg st = 10 ^ (d - p)).
  { intros H. assert (E: g_scaledg st = if p <? d then 10 ^ (d - p) else s) by reflexivity. rewrite E.
    destruct (p <? d) eqn:E2; [reflexivity|lia]. }
  pose proof (pow10_pos' d ltac:(lia)) as Pd. pose proof (pow10_pos' (p + g - d) ltac:(lia)) as Pk.
  rewrite (half_up_raw (p + g) d v Hd).
  unfold GuardedKernels.dunder_str. cbv zeta. fold d. rewrite Hpr, Hsc, Hsd, Hsr.
  rewrite pydiv_ok by lia. cbn [bind]. set (m := (v + 10 ^ (p + g - d) / 2) / 10 ^ (p + g - d)).
  unfold w2. destruct (d <=? p) eqn:Dp.
  - destruct (m <? 0) eqn:M0.
    + rewrite pydiv_ok, pymod_ok by lia. cbn [bind].
      destruct (split_pos (- m) (10 ^ d) ltac:(lia) Pd) as (A & B & C).
      eexists; split; [reflexivity|]. cbn [fmt_wf fmt_pos_wf fmt_value]. repeat split; lia.
    + rewrite pydiv_ok, pymod_ok by lia. cbn [bind].
      destruct (split_pos m (10 ^ d) ltac:(lia) Pd) as (A & B & C).
      eexists; split; [reflexivity|]. cbn [fmt_wf fmt_pos_wf fmt_value]. repeat split; lia.
  - rewrite (Hsg ltac:(lia)). pose proof (pow10_pos' (d - p) ltac:(lia)) as Pw. pose proof (pow10_pos' p Hp) as Pp.
    assert (E10: 10 ^ d = 10 ^ p * 10 ^ (d - p)) by (rewrite <- pow10_split by lia; f_equal; lia).
    assert (K: forall mm, 0 <= mm ->
      0 <= mm / 10 ^ d /\ 0 <= (mm mod 10 ^ d) / 10 ^ (d - p) < 10 ^ p /\
      0 <= (mm mod 10 ^ d) mod 10 ^ (d - p) < 10 ^ (d - p) /\
      mm / 10 ^ d * 10 ^ d + (mm mod 10 ^ d) / 10 ^ (d - p) * 10 ^ (d - p) + (mm mod 10 ^ d) mod 10 ^ (d - p) = mm).
    { intros mm Hm. destruct (split_pos mm (10 ^ d) Hm Pd) as (A & B & C).
      destruct (split_pos (mm mod 10 ^ d) (10 ^ (d - p)) ltac:(lia) Pw) as (A' & B' & C').
      split; [exact A|]. split; [|split; [exact B'|lia]].
      split; [exact A'|]. apply Z.div_lt_upper_bound; [lia|]. rewrite Z.mul_comm, <- E10. lia. }
    destruct (m <? 0) eqn:M0.
    + rewrite !pymod_ok, !pydiv_ok by lia. cbn [bind]. rewrite !pydiv_ok, !pymod_ok by lia. cbn [bind].
      destruct (K (- m) ltac:(lia)) as (A & B & C & D).
      eexists; split; [reflexivity|]. cbn [fmt_wf fmt_pos_wf fmt_value]. replace (d - (d - p)) with p by lia.
      revert A B C D. generalize (- m / 10 ^ d) (((- m) mod 10 ^ d) / 10 ^ (d - p)) (((- m) mod 10 ^ d) mod 10 ^ (d - p)).
      intros a b c A B C D. repeat split; lia.
    + rewrite !pymod_ok, !pydiv_ok by lia. cbn [bind]. rewrite !pydiv_ok, !pymod_ok by lia. cbn [bind].
      destruct (K m ltac:(lia)) as (A & B & C & D).
      eexists; split; [reflexivity|]. cbn [fmt_wf fmt_pos_wf fmt_value]. replace (d - (d - p)) with p by lia.
      revert A B C D. generalize (m / 10 ^ d) ((m mod 10 ^ d) / 10 ^ (d - p)) ((m mod 10 ^ d) mod 10 ^ (d - p)).
      intros a b c A B C D. repeat split; lia.
Qed.

(* ---- Rational (hand model of Rational.__str__) ---- *)
Lemma c14_rational dp (q : Q) : 0 <= dp ->
  let f := rational_fmt dp q in fmt_wf dp 0 f /\ fmt_value dp 0 f = half_up q dp.
Proof.
  intros Hdp. pose proof (pow10_pos' dp Hdp) as Pd.
  assert (V: (if ((Qnum (Qred q) =? 0) || (Z.pos (Qden (Qred q)) =? 1))%Z then (Qnum (Qred q) * 10 ^ dp)%Z
              else let w := Qred (Qred q + Qred (1 # Z.to_pos (10 ^ dp * 2))) in (Qnum w * 10 ^ dp / Z.pos (Qden w))%Z)
             = half_up q dp).
  { unfold half_up. pose proof (Qred_correct q) as Eq.
    destruct ((Qnum (Qred q) =? 0) || (Z.pos (Qden (Qred q)) =? 1)) eqn:C.
    - (* integer-valued (or zero): v = num * 10^dp *)
      assert (Hint: q == inject_Z (Qnum (Qred q))).
      { rewrite <- Eq at 1. destruct (Qred q) as [n dn]. cbn [Qnum Qden] in *. unfold Qeq, inject_Z. cbn.
        destruct (n =? 0) eqn:N0; [assert (n = 0) by lia; subst; lia|]. assert (Z.pos dn = 1) by lia. nia. }
      assert (Q1: q * inject_Z (10 ^ dp) + (1 # 2) == inject_Z (2 * (Qnum (Qred q) * 10 ^ dp) + 1) / inject_Z 2).
      { rewrite Hint at 1. rewrite !inject_Z_plus, !inject_Z_mult. change (1 # 2) with (/ inject_Z 2). field. }
      rewrite (Qfloor_comp _ _ Q1), Qfloor_div_Z by lia. lia.
    - cbv zeta. set (w := Qred (Qred q + Qred (1 # Z.to_pos (10 ^ dp * 2)))).
      assert (W: w * inject_Z (10 ^ dp) == q * inject_Z (10 ^ dp) + (1 # 2)).
      { unfold w. rewrite !Qred_correct. 
        assert (H2: (1 # Z.to_pos (10 ^ dp * 2)) == / (inject_Z (10 ^ dp) * inject_Z 2)).
        { rewrite <- inject_Z_mult. unfold Qinv, inject_Z. cbn [Qnum Qden]. destruct (10 ^ dp * 2) eqn:E; try lia. reflexivity. }
        rewrite H2. change (1 # 2) with (/ inject_Z 2). field. repeat split; try (apply inject_Z_nonzero; lia); try (apply inject_pow_nz; lia). }
      rewrite <- (Qfloor_comp _ _ W). destruct w as [wn wd]. unfold Qfloor, Qmult, inject_Z. cbn [Qnum Qden].
      rewrite Pos.mul_1_r. reflexivity. }
  unfold rational_fmt. cbv zeta. cbv zeta in V. rewrite V. set (m := half_up q dp).
  destruct (m <? 0) eqn:M0.
  - destruct (split_pos (- m) (10 ^ dp) ltac:(lia) Pd) as (A & B & C).
    cbn [fmt_wf fmt_pos_wf fmt_value]. repeat split; lia.
  - destruct (split_pos m (10 ^ dp) ltac:(lia) Pd) as (A & B & C).
    cbn [fmt_wf fmt_pos_wf fmt_value]. repeat split; lia.
Qed.
