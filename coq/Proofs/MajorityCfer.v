(* C05, "in particular" clause, for the CfER rule (cfer and cfer-batch): with one seat, a candidate ranked first by more than half
   of the ballots is elected.  The candidate holds the quota after the first-preference count, so the first election step
   elects it (or the round-1 "everybody fits" exit does, when it is the only candidate); from then on statuses only move
   forward -- the tail of the loop body is walked once with the forward-status relation of Forward.v. *)
From Coq Require Import ZArith List Bool String Lia PArith.
From Droop Require Import Model.KernelBase Model.Str Model.Arith Model.Prelude Model.State Model.Prims Model.RulesGregory
  Model.Election Proofs.CmdMeta Proofs.Zlike Proofs.Status Proofs.Ties Proofs.SortLemmas Proofs.Forward Proofs.ForwardOps
  Proofs.ForwardGreg2 Proofs.Gregory Proofs.Quota Proofs.ElectStep Proofs.Terminate Proofs.TerminateQpq Proofs.Conserve
  Proofs.ConserveCount Proofs.Winners Proofs.Majority.
Import ListNotations.
Open Scope Z_scope.
Local Open Scope cmd_scope.

Section MC.
Variable A : arith.
Variable S : Z.
Variable ZL : zlike A S.
Variable cfg : config.
Hypothesis Hex : exact A = false.
Variable m : Z.
Variable B : Z.
Hypothesis Hseat : cf_nseats cfg = 1.
Notation est := (est A).
Notation cand := (cand A).
Notation R := (raw ZL).
Notation T3 := (triple est (@crashed A)).
Notation SatE := (SatE A m).
Notation SatHQ := (SatHQ A S ZL m).
Notation ExM := (ExM A m).
Notation JM := (JM A S ZL m).

(* the loop body after the election step *)
Definition cfer_tail : cmd est :=
    Ite (fun s => cf_nseats cfg <=? nlen (electeds A s))
      (Do (unpend_all A cfg) ;;
       Do (fun s => fold_left (fun s c => defeat A cfg (cid c) "Defeat remaining" s) (hopefuls A s) s) ;;
       Break)
      Skip ;;
    Do (cfer_find_batch A cfg) ;;
    Ite (fun s => nonempty (lv_batch s))
      (Do (defeat_batch_in_ballot_order A cfg "Defeat batch"))
      (Ite (fun s => nonempty (pendings A s))
         (Do (cfer_transfer_all_pending A cfg))
         (Do (cfer_defeat_low A cfg))) ;;
    Ite (fun s => nonempty (lv_batch s))
      (Ite (fun s => nlen (hopefuls A s) + nlen (electeds A s) <=? cf_nseats cfg)
         (Do (fun s => fold_left (fun s c => elect A cfg (cid c) "Elect pending" false s) (pendings A s) s) ;;
          Do (fun s => fold_left (fun s c => elect A cfg (cid c) "Elect remaining" false s) (hopefuls A s) s) ;;
          Break)
         Skip ;;
       Do (transfer_batch A cfg (is_hopeful A)))
      Skip.

Lemma cfer_tail_forward (x : est) : ND A x -> T3 (Forward.R A x) cfer_tail (Forward.R A x) (Forward.R A x) (Forward.R A x).
Proof.
  intros Hx. pose (nd := fun s (H : Forward.R A x s) => nd_R A x s H Hx). unfold cfer_tail.
  eapply t_seq with (M := Forward.R A x).
  { apply t_ite; [|apply t_skip'; intros s [H _]; exact H].
    eapply t_seq with (M := Forward.R A x); [apply t_do; intros s [Hs _]; apply f_unpend_all; [exact Hs|exact (nd s Hs)]|].
    eapply t_seq with (M := Forward.R A x); [apply t_do; intros s Hs; apply f_defeat_all; [exact Hs|exact (nd s Hs)]|]. apply t_break'. auto. }
  eapply t_seq with (M := fun s => Forward.R A x s /\ BatchH A s).
  { apply t_do. intros s Hs. split; [apply f_batch; exact Hs|apply cfer_find_batch_H; exact (nd s Hs)]. }
  eapply t_seq with (M := Forward.R A x).
  { apply t_ite.
    - apply t_do. intros s [[Hs HB] _]. apply f_defeat_batch_order; assumption.
    - apply t_ite.
      + apply t_do. intros s [[[Hs _] _] _]. apply f_cfer_transfer_all; [exact Hs|exact (nd s Hs)].
      + apply t_do. intros s [[[Hs _] _] _]. apply f_cfer_defeat_low; [exact Hs|exact (nd s Hs)]. }
  apply t_ite; [|apply t_skip'; intros s [H _]; exact H].
  eapply t_seq with (M := Forward.R A x).
  { apply t_ite; [|apply t_skip'; intros s [[H _] _]; exact H].
    eapply t_seq with (M := Forward.R A x); [apply t_do; intros s [[Hs _] _]; apply f_elect_pendings; [exact Hs|exact (nd s Hs)]|].
    eapply t_seq with (M := Forward.R A x); [apply t_do; intros s Hs; apply f_elect_all; [exact Hs|exact (nd s Hs)]|]. apply t_break'. auto. }
  apply t_do. intros s Hs. apply f_transfer_batch, Hs.
Qed.

Definition EE (s : est) : Prop := NoDup (map (@cid A) (cands s)) /\ ExM s /\ SatE s.
Lemma ee_R (s s' : est) : Forward.R A s s' -> EE s -> EE s'.
Proof. intros Hr (Hnd & He & Hs). split; [exact (nd_R A _ _ Hr Hnd)|split; [unfold Majority.ExM; rewrite <- (R_cids A _ _ Hr); exact He|exact (r_satE A m _ _ Hr Hs)]]. Qed.

(* once the candidate is elected, any command that only moves statuses forward keeps it elected *)
Lemma forward_lift (c : cmd est) : (forall x, ND A x -> T3 (Forward.R A x) c (Forward.R A x) (Forward.R A x) (Forward.R A x)) -> T3 EE c EE EE EE.
Proof.
  intros H fuel s s' k He Hx. pose proof (H s (proj1 He) fuel s s' k (R_refl A s) Hx) as Hr.
  destruct k; try exact I; exact (ee_R _ _ Hr He).
Qed.

Lemma ee_jm (s : est) : EE s -> JM s.
Proof. intros (H1 & H2 & H3). split; [exact H1|split; [exact H2|left; exact H3]]. Qed.

Lemma cfer_one_seat (Qb Qc : est -> Prop) q : droop_quota_eps A cfg = Ok q -> 0 <= R q ->
  T3 (fun s => Pre A S ZL B s /\ (forall c, In c (cands s) -> cst c <> Elected) /\ HopM A m s /\ R q <= stand A S ZL (ballots s) m)
     (cfer A cfg) SatE Qb Qc.
Proof.
  intros Eq Hq. unfold cfer. rewrite Eq.
  eapply t_seq with (M := JM).
  { apply t_do_nc. intros s (P & Hne & Hm & Hst) Hc. destruct (begin_hq A S ZL cfg m B q TBegin "Begin Count" s P Hne Hm Hq Hst Hc) as (H1 & H2 & H3 & H4).
    split; [exact H1|split; [exact H4|right; split; assumption]]. }
  eapply t_post; [|apply (t_while est (@crashed A) JM EE)]; [intros s [H|[_ Hg]]; [exact (proj2 (proj2 H))|discriminate]|].
  eapply t_pre; [intros s [Hs _]; exact Hs|].
  eapply t_seq with (M := JM).
  { apply t_do. intros s (Hnd & He & Hj). pose proof (f_new_round A cfg s s (R_refl A s)) as Hr.
    split; [exact (nd_R A _ _ Hr Hnd)|split; [unfold Majority.ExM; rewrite <- (R_cids A _ _ Hr); exact He|]].
    destruct Hj as [Hs|[Hs He0]]; [left; exact (r_satE A m _ _ Hr Hs)|right]. unfold new_round. split.
    - intros c Hc Em. rewrite (cands_log A cfg) in Hc. rewrite (quota_log' A cfg). exact (Hs c Hc Em).
    - unfold eln. rewrite (cands_log A cfg). exact He0. }
  eapply t_seq with (M := JM).
  { apply t_ite; [|apply t_skip'; intros s [H _]; exact H].
    eapply t_seq with (M := EE); [|apply t_break'; auto].
    apply t_do. intros s [(Hnd & He & Hj) Hg]. destruct Hj as [Hs|[Hs He0]].
    - apply (ee_R s); [apply f_elect_all; [apply R_refl|exact Hnd]|split; [exact Hnd|split; assumption]].
    - (* the candidate is the only one hopeful *)
      pose proof He as He'. unfold Majority.ExM in He'. apply in_map_iff in He'. destruct He' as (cm & Eid & Hcm). destruct (Hs cm Hcm Eid) as [Hh _].
      assert (Hin: In cm (hopefuls A s)) by (unfold hopefuls; apply filter_In; split; [exact Hcm|unfold in_state; rewrite Hh; reflexivity]).
      apply andb_prop in Hg. destruct Hg as [_ Hg]. rewrite Hseat in Hg. apply Z.leb_le in Hg.
      pose proof (f_elect_all A cfg s "Elect all" false s (R_refl A s) Hnd) as Hr.
      split; [exact (nd_R A _ _ Hr Hnd)|split; [unfold Majority.ExM; rewrite <- (R_cids A _ _ Hr); exact He|]].
      unfold nlen in Hg. destruct (hopefuls A s) as [|x0 [|y l]]; [contradiction| |cbn [List.length] in Hg; lia]. destruct Hin as [->|[]]. cbn [fold_left].
      intros c' Hc' Em. unfold elect in Hc'. destruct (find_cand A (cands s) (cid cm)) as [c0|] eqn:Ef.
      + rewrite (cands_log A cfg) in Hc'. unfold upd in Hc'. cbn [cands set_cands] in Hc'. destruct (in_upd_cand A _ _ _ c' Hc') as (c1 & Hc1 & ->).
        destruct (Z.eqb (cid c1) (cid cm)) eqn:E; [reflexivity|]. exfalso. cbn [cid] in Em. apply Z.eqb_neq in E. congruence.
      + exfalso. destruct (find_cand_in A (cands s) (cid cm)) as [y Hy]; [apply in_map; exact Hcm|congruence]. }
  eapply t_seq with (M := EE).
  { apply t_do. intros s (Hnd & He & Hj). pose proof (f_elect_with_quota A cfg s (ge_quota A) (gt_quota A) None (fun _ => true) s (R_refl A s) Hnd) as Hr.
    split; [exact (nd_R A _ _ Hr Hnd)|split; [unfold Majority.ExM; rewrite <- (R_cids A _ _ Hr); exact He|]].
    destruct Hj as [Hs|[Hs _]]; [exact (r_satE A m _ _ Hr Hs)|]. apply (ewq_elects_m A S ZL cfg Hex m); [intros t c; reflexivity|exact Hs]. }
  eapply t_conseq; [| | | |apply (forward_lift cfer_tail cfer_tail_forward)]; try (intros s H; exact H); intros s H; apply ee_jm; exact H.
Qed.

(* ---- wigm-prf WITH sure-loser batches (wigm-prf-batch): the same argument; Majority.prf_one_seat asks for cf_batch = false ---- *)
Definition prf_tail : cmd est :=
    Do (prf_find_batch A cfg) ;;
    Ite (fun s => nonempty (lv_batch s))
      (Do (defeat_batch_in_ballot_order A cfg "Defeat sure loser") ;;
       Ite (fun s => nlen (hopefuls A s) <=? seats_left A cfg s) Break Skip ;;
       Do (transfer_batch A cfg (is_hopeful A)) ;;
       Continue)
      Skip ;;
    Ite (fun s => nonempty (pendings A s))
      (Do (transfer_high_surplus A cfg (bt_simple A cfg "surplus") (rew_wigm A)))
      (Ite (fun s => nonempty (hopefuls A s)) (Do (defeat_low A cfg (bt_simple A cfg "defeat") "Defeat")) Skip).

Lemma prf_tail_forward (x : est) : ND A x -> T3 (Forward.R A x) prf_tail (Forward.R A x) (Forward.R A x) (Forward.R A x).
Proof.
  intros Hx. pose (nd := fun s (H : Forward.R A x s) => nd_R A x s H Hx). unfold prf_tail.
  eapply t_seq with (M := fun s => Forward.R A x s /\ BatchH A s).
  { apply t_do. intros s Hs. split; [apply f_batch; exact Hs|apply prf_find_batch_H; exact (nd s Hs)]. }
  eapply t_seq with (M := Forward.R A x).
  { apply t_ite.
    - eapply t_seq with (M := Forward.R A x).
      { apply t_do. intros s [[Hs HB] _]. apply f_defeat_batch_order; assumption. }
      eapply t_seq with (M := Forward.R A x); [apply t_ite; [apply t_break'; intros s [H _]; exact H|apply t_skip'; intros s [H _]; exact H]|].
      eapply t_seq with (M := Forward.R A x); [apply t_do; intros s Hs; apply f_transfer_batch, Hs|].
      apply t_continue'. auto.
    - apply t_skip'. intros s [[H _] _]. exact H. }
  apply t_ite.
  - apply t_do. intros s [Hs _]. apply f_transfer_high; [apply bt_simple_ok|exact Hs|exact (nd s Hs)].
  - apply t_ite; [|apply t_skip'; intros s [[H _] _]; exact H].
    apply t_do. intros s [[Hs _] _]. apply f_defeat_low; [apply bt_simple_ok|exact Hs|exact (nd s Hs)].
Qed.

Definition PL (s : est) : Prop :=
  NoDup (map (@cid A) (cands s)) /\ ExM s /\ (SatE s \/ (SatHQ s /\ eln A s = 0%nat /\ guard_main A cfg s = false)).

Lemma prf_one_seat_any (Qb Qc : est -> Prop) q : droop_quota_eps A cfg = Ok q -> 0 <= R q ->
  T3 (fun s => Pre A S ZL B s /\ (forall c, In c (cands s) -> cst c <> Elected) /\ HopM A m s /\ R q <= stand A S ZL (ballots s) m)
     (wigm_prf A cfg) SatE Qb Qc.
Proof.
  intros Eq Hq. unfold wigm_prf. rewrite Eq.
  eapply t_seq with (M := JM).
  { apply t_do_nc. intros s (P & Hne & Hm & Hst) Hc. destruct (begin_hq A S ZL cfg m B q TBegin "Begin Count" s P Hne Hm Hq Hst Hc) as (H1 & H2 & H3 & H4).
    split; [exact H1|split; [exact H4|right; split; assumption]]. }
  eapply t_seq with (M := PL).
  { eapply t_post; [|apply (t_while est (@crashed A) JM EE)].
    - intros s [(H1 & H2 & H3)|[(H1 & H2 & Hj) Hg]]; (split; [exact H1|split; [exact H2|]]); [left; exact H3|].
      destruct Hj as [Hs|[Hs He0]]; [left; exact Hs|right; split; [exact Hs|split; assumption]].
    - eapply t_seq with (M := JM).
      { apply t_do. intros s [(Hnd & He & Hj) _]. pose proof (f_new_round A cfg s s (R_refl A s)) as Hr.
        split; [exact (nd_R A _ _ Hr Hnd)|split; [unfold Majority.ExM; rewrite <- (R_cids A _ _ Hr); exact He|]].
        destruct Hj as [Hs|[Hs He0]]; [left; exact (r_satE A m _ _ Hr Hs)|right]. unfold new_round. split.
        - intros c Hc Em. rewrite (cands_log A cfg) in Hc. rewrite (quota_log' A cfg). exact (Hs c Hc Em).
        - unfold eln. rewrite (cands_log A cfg). exact He0. }
      eapply t_seq with (M := EE).
      { apply t_do. intros s (Hnd & He & Hj). pose proof (f_elect_with_quota A cfg s (ge_quota A) (fun _ _ => true) None (fun _ => true) s (R_refl A s) Hnd) as Hr.
        split; [exact (nd_R A _ _ Hr Hnd)|split; [unfold Majority.ExM; rewrite <- (R_cids A _ _ Hr); exact He|]].
        destruct Hj as [Hs|[Hs _]]; [exact (r_satE A m _ _ Hr Hs)|]. apply (ewq_elects_m A S ZL cfg Hex m); [intros t c; reflexivity|exact Hs]. }
      eapply t_conseq; [| | | |apply (forward_lift prf_tail prf_tail_forward)]; try (intros s H; exact H); intros s H; apply ee_jm; exact H. }
  eapply t_seq with (M := PL).
  { apply t_do. intros s (Hnd & He & Hj). destruct Hj as [Hs|(Hs & He0 & Hg)].
    - destruct (ee_R s (unpend_all A cfg s) (f_unpend_all A cfg s s (R_refl A s) Hnd) (conj Hnd (conj He Hs))) as (H1 & H2 & H3).
      split; [exact H1|split; [exact H2|left; exact H3]].
    - unfold unpend_all. rewrite (pendings_nil A Hex s He0). cbn [fold_left]. split; [exact Hnd|split; [exact He|right; split; [exact Hs|split; assumption]]]. }
  apply t_do. intros s (Hnd & He & Hj). destruct Hj as [Hs|(Hs & He0 & Hg)].
  - exact (r_satE A m _ _ (f_elect_or_defeat A cfg s s (R_refl A s) Hnd) Hs).
  - unfold Majority.ExM in He. apply in_map_iff in He. destruct He as (cm & Eid & Hcm). destruct (Hs cm Hcm Eid) as [Hh _].
    assert (Hin: In cm (hopefuls A s)) by (unfold hopefuls; apply filter_In; split; [exact Hcm|unfold in_state; rewrite Hh; reflexivity]).
    assert (Hlen: List.length (hopefuls A s) = 1%nat).
    { unfold guard_main, seats_left in Hg. rewrite (nlen_electeds A), He0, Hseat in Hg. cbn in Hg. rewrite andb_true_r in Hg. apply Z.ltb_ge in Hg.
      unfold nlen in Hg. destruct (hopefuls A s) as [|x0 [|y l]]; [contradiction|reflexivity|cbn [List.length] in Hg; lia]. }
    unfold elect_or_defeat_remaining. destruct (hopefuls A s) as [|x0 [|y l]]; try discriminate. destruct Hin as [->|[]]. cbn [fold_left].
    rewrite (nlen_electeds A), He0, Hseat. cbn [Z.of_nat Z.ltb Z.compare]. cbv iota.
    intros c' Hc' Em. unfold elect in Hc'. destruct (find_cand A (cands s) (cid cm)) as [c0|] eqn:Ef.
    + rewrite (cands_log A cfg) in Hc'. unfold upd in Hc'. cbn [cands set_cands] in Hc'. destruct (in_upd_cand A _ _ _ c' Hc') as (c1 & Hc1 & ->).
      destruct (Z.eqb (cid c1) (cid cm)) eqn:E; [reflexivity|]. exfalso. cbn [cid] in Em. apply Z.eqb_neq in E. congruence.
    + exfalso. destruct (find_cand_in A (cands s) (cid cm)) as [y Hy]; [apply in_map; exact Hcm|congruence].
Qed.

(* ---- Minneapolis, one seat: a DECLARED candidate ranked first by more than half of the ballots is elected at the first count
        (an undeclared write-in is not: the ordinance excludes write-ins in round 2 whatever their support) ---- *)
Definition DeclM (s : est) : Prop := forall c, In c (cands s) -> cid c = m -> cundecl c = false.

Lemma sate_after_elect msg (s : est) : ExM s -> SatE (elect A cfg m msg false s).
Proof.
  intros He c' Hc' Em. unfold elect in Hc'. destruct (find_cand_in A (cands s) m He) as [c0 Ef]. rewrite Ef in Hc'.
  rewrite (cands_log A cfg) in Hc'. unfold upd in Hc'. cbn [cands set_cands] in Hc'. destruct (in_upd_cand A _ _ _ c' Hc') as (c1 & Hc1 & ->).
  destruct (Z.eqb (cid c1) m) eqn:E; [reflexivity|]. exfalso. cbn [cid] in Em. apply Z.eqb_neq in E. congruence.
Qed.
Lemma sate_elect i msg p (s : est) : SatE s -> SatE (elect A cfg i msg p s).
Proof.
  intros Hs c' Hc' Em. destruct (ewq_elect A cfg i msg p s) as [_ Hrel]. destruct (Hrel c' Hc') as (c & Hc & E1 & _ & E3).
  destruct E3 as [E3|E3]; [rewrite E3; apply (Hs c Hc); congruence|exact E3].
Qed.
Lemma exm_elect i msg p (s : est) : ExM s -> ExM (elect A cfg i msg p s).
Proof. intros He. unfold Majority.ExM. rewrite (ids_elect A cfg i msg p s). exact He. Qed.

Lemma fold_elect_sate msg (L : list cand) : forall s : est, ExM s -> (exists x, In x L /\ cid x = m) ->
  SatE (fold_left (fun s c => elect A cfg (cid c) msg false s) L s).
Proof.
  induction L as [|x L IH]; intros s He (y & Hy & Ey); [contradiction|]. cbn [fold_left].
  destruct (Z.eq_dec (cid x) m) as [Ex|Nx].
  - rewrite Ex. assert (H1: SatE (elect A cfg m msg false s)) by (apply sate_after_elect; exact He).
    revert H1. generalize (elect A cfg m msg false s). clear. induction L as [|z L IH]; intros t Ht; cbn [fold_left]; [exact Ht|]. apply IH, sate_elect, Ht.
  - apply IH; [apply exm_elect; exact He|]. destruct Hy as [<-|Hy]; [contradiction|]. exists y. split; assumption.
Qed.

Lemma start_undecl q (s : est) c' : In c' (cands (start_count A (Ok q) s)) -> exists c, In c (cands s) /\ cid c = cid c' /\ cundecl c = cundecl c'.
Proof.
  unfold start_count, initial_count. cbn [cands set_exhausted].
  assert (G: forall (l : list (ballot A)) (t : est), In c' (cands (fold_left (fun s b => match top_rank A b with Some c => add_vote A c (bvote A b) s | None => set_crash s AttributeError end) l t)) ->
             exists c, In c (cands t) /\ cid c = cid c' /\ cundecl c = cundecl c').
  { induction l as [|b l IH]; intros t H; cbn [fold_left] in H; [exists c'; auto|]. destruct (IH _ H) as (c1 & Hc1 & E1 & E2).
    destruct (top_rank A b) as [i|]; [|exists c1; auto]. unfold add_vote, upd in Hc1. cbn [cands set_cands] in Hc1.
    destruct (in_upd_cand A _ _ _ c1 Hc1) as (c0 & Hc0 & ->). exists c0. split; [exact Hc0|]. destruct (Z.eqb (cid c0) i); cbn [cid cundecl with_vote] in *; auto. }
  intros H. destruct (G _ _ H) as (c & Hc & E1 & E2). exists c. cbn [cands set_quota] in Hc. auto.
Qed.

Lemma mpls_one_seat (Qb Qc : est -> Prop) : 0 <= R (integer_droop_quota A cfg) ->
  T3 (fun s => Pre A S ZL B s /\ (forall c, In c (cands s) -> cst c <> Elected) /\ HopM A m s /\ DeclM s /\
               R (integer_droop_quota A cfg) <= stand A S ZL (ballots s) m)
     (mpls A cfg) SatE Qb Qc.
Proof.
  intros Hq. unfold mpls.
  set (HQD := fun s : est => NoDup (map (@cid A) (cands s)) /\ ExM s /\ SatHQ s /\ DeclM s).
  eapply t_seq with (M := HQD).
  { apply t_do_nc. intros s (P & Hne & Hm & Hd & Hst) Hc. unfold new_round in *. rewrite (crashed_log A cfg) in Hc.
    assert (Hc': crashed (log_action A cfg TRound "New Round" (start_count A (Ok (integer_droop_quota A cfg)) s)) = false) by (rewrite (crashed_log A cfg); exact Hc).
    destruct (begin_hq A S ZL cfg m B _ TRound "New Round" s P Hne Hm Hq Hst Hc') as (H1 & H2 & _ & H4).
    rewrite (cands_log A cfg) in H1. unfold Majority.ExM in H4. rewrite (cands_log A cfg) in H4.
    unfold HQD. rewrite (cands_log A cfg). cbn [cands set_round]. split; [exact H1|]. split; [exact H4|]. split.
    - intros c Hcin Em. rewrite (cands_log A cfg) in Hcin. cbn [cands set_round] in Hcin. rewrite (quota_log' A cfg). cbn [quota set_round].
      specialize (H2 c). rewrite (cands_log A cfg), (quota_log' A cfg) in H2. exact (H2 Hcin Em).
    - intros c Hcin Em. rewrite (cands_log A cfg) in Hcin. cbn [cands set_round] in Hcin.
      destruct (start_undecl _ s c Hcin) as (c0 & Hc0 & E1 & E2). rewrite <- E2. apply Hd; [exact Hc0|congruence]. }
  eapply t_seq with (M := EE).
  { eapply t_post; [|apply (t_while est (@crashed A) HQD EE)]; [intros s [H|[_ Hg]]; [exact H|discriminate]|].
    eapply t_pre; [intros s [Hs _]; exact Hs|].
    eapply t_seq with (M := HQD).
    { apply t_do. intros s (Hnd & He & Hs & Hd). unfold HQD. rewrite (cands_log A cfg). cbn [cands set_surplus]. split; [exact Hnd|]. split; [exact He|]. split.
      - intros c Hc Em. rewrite (cands_log A cfg) in Hc. rewrite (quota_log' A cfg). exact (Hs c Hc Em).
      - intros c Hc Em. rewrite (cands_log A cfg) in Hc. exact (Hd c Hc Em). }
    eapply t_seq with (M := fun _ => False); [|intros fuel s s' k []].
    (* the candidate is at the threshold: the test succeeds and it is elected *)
    assert (Hin: forall s, HQD s -> exists cm, In cm (hopeful_with_quota A true s) /\ cid cm = m).
    { intros s (Hnd & He & Hs & Hd). pose proof He as He'. unfold Majority.ExM in He'. apply in_map_iff in He'. destruct He' as (cm & Eid & Hcm).
      destruct (Hs cm Hcm Eid) as [Hh Hqm]. exists cm. split; [|exact Eid]. unfold hopeful_with_quota. apply filter_In. split.
      - unfold by_vote. apply py_sorted_in. unfold hopefuls. apply filter_In. split; [exact Hcm|unfold in_state; rewrite Hh; reflexivity].
      - rewrite (Hd cm Hcm Eid). cbn [andb negb]. unfold ge_quota. rewrite (r_gev_exact A S ZL Hex). apply Z.leb_le. exact Hqm. }
    apply t_ite.
    - eapply t_seq with (M := EE); [|apply t_break'; auto].
      apply t_do. intros s [H _]. pose proof H as (Hnd & He & Hs & Hd). destruct (Hin s H) as (cm & Hcm & Eid).
      pose proof (f_mpls_elect_threshold A cfg s s (R_refl A s) Hnd) as Hr.
      split; [exact (nd_R A _ _ Hr Hnd)|split; [unfold Majority.ExM; rewrite <- (R_cids A _ _ Hr); exact He|]].
      apply fold_elect_sate; [exact He|exists cm; split; assumption].
    - apply t_skip'. intros s [H Hg]. destruct (Hin s H) as (cm & Hcm & _). rewrite Hseat in Hg. apply Z.leb_gt in Hg.
      unfold nlen in Hg. destruct (hopeful_with_quota A true s); [contradiction|]. cbn [List.length] in Hg. lia. }
  eapply t_seq with (M := EE).
  { apply t_ite; [|apply t_skip'; intros s [H _]; exact H].
    apply t_do. intros s [H _]. apply (ee_R s); [apply f_elect_all; [apply R_refl|exact (proj1 H)]|exact H]. }
  apply (t_post est (@crashed A) EE _ EE SatE Qb Qc); [intros s H; exact (proj2 (proj2 H))|].
  apply t_ite; [|apply t_skip'; intros s [H _]; exact H].
  apply t_do. intros s [H _]. apply (ee_R s); [apply f_defeat_all; [apply R_refl|exact (proj1 H)]|exact H].
Qed.
End MC.

Section MCCount.
Variable A : arith.
Variable S : Z.
Variable ZL : zlike A S.
Variable cfg : config.
Hypothesis Hmeth : cf_method cfg = MWigm.
Hypothesis Hex : exact A = false.
Hypothesis Heps : raw ZL (epsilon A) = 1.
Hypothesis Hseat : cf_nseats cfg = 1.
Notation R := (raw ZL).

(* cfer and cfer-batch, one seat: a candidate ranked first by more than half of the ballots is elected *)
Theorem count_majority_cfer (pr : profile) m fuel s k : wf_profile pr -> cf_nballots cfg = ballot_total pr ->
  (exists pc, In pc (pr_cands pr) /\ pc_cid pc = m /\ pc_withdrawn pc = false) ->
  ballot_total pr < 2 * first_prefs pr m ->
  exec (@crashed A) fuel (count_cmd A cfg RCfer) (init_state A cfg pr) = Some (s, k) -> k <> Abort ->
  forall c, In c (cands s) -> cid c = m -> cst c = Elected.
Proof.
  intros Hwf Hnbt (pc & Hpc & Epc & Hwd) Hmaj He Hk.
  assert (Hns: 0 <= cf_nseats cfg) by (rewrite Hseat; lia).
  destruct (droop_quota_eps_value A S ZL cfg Hns Heps) as (q & Eq & Rq). rewrite Hseat, Hnbt in Rq.
  assert (Ht: triple (est A) (@crashed A) (fun s0 => s0 = init_state A cfg pr) (count_cmd A cfg RCfer)
            (SatE A m) (fun _ => False) (fun _ => False)).
  { unfold count_cmd. eapply t_seq with (M := fun s0 => Pre A S ZL (S * ballot_total pr) s0 /\ (forall c, In c (cands s0) -> cst c <> Elected) /\ HopM A m s0 /\
                                                       R q <= stand A S ZL (ballots s0) m).
    - apply t_do. intros s0 ->. destruct (pre2_init A S ZL cfg Hex pr Hwf) as [P Hne]. destruct (init_state_shape A cfg pr) as (Ec & Eb & _).
      split; [exact P|split; [exact Hne|split]].
      + exists (with_vote (init_cand A pc) (V0' A)). split; [|split; [exact Epc|cbn [cst with_vote init_cand]; rewrite Hwd; reflexivity]].
        unfold zero_votes. cbn [cands set_cands]. rewrite Ec, map_map. apply in_map_iff. exists pc. split; [reflexivity|exact Hpc].
      + unfold zero_votes. cbn [ballots set_cands]. rewrite Eb, (stand_mk A S ZL Hex pr m Hwf), Rq. pose proof (S_pos A S ZL) as HS.
        assert (Hd: 2 * (ballot_total pr * S / (1 + 1)) <= ballot_total pr * S) by (apply (Z.mul_div_le (ballot_total pr * S) 2); lia).
        assert (Hp: S * (ballot_total pr + 1) <= S * (2 * first_prefs pr m)) by (apply Z.mul_le_mono_nonneg_l; lia).
        lia.
    - eapply t_seq with (M := SatE A m); [cbn [rule_cmd]; apply (cfer_one_seat A S ZL cfg Hex m (S * ballot_total pr) Hseat _ _ q Eq)|].
      + rewrite Rq. pose proof (S_pos A S ZL).
        assert (Hbt: 0 <= ballot_total pr).
        { unfold ballot_total. clear -Hwf. destruct Hwf as [_ Hb]. induction (pr_ballots pr) as [|[mu r] l IH]; cbn [fold_right fst snd]; [lia|].
          assert (0 <= fold_right (fun mr acc => match snd mr with [] => 0 | _ :: _ => fst mr end + acc) 0 l) by (apply IH; intros m' r' H'; apply Hb; right; exact H').
          destruct (Hb mu r (or_introl eq_refl)) as [Hm _]. destruct r; lia. }
        assert (0 <= ballot_total pr * S / (1 + 1)) by (apply Z.div_pos; nia). lia.
      + apply t_do. intros s0 Hs c Hc Em. rewrite (Status.cands_log A cfg) in Hc. exact (Hs c Hc Em). }
  specialize (Ht fuel _ s k eq_refl He). destruct k; try contradiction. exact Ht.
Qed.

(* wigm-prf and wigm-prf-batch alike *)
Theorem count_majority_prf_any (pr : profile) m fuel s k : wf_profile pr -> cf_nballots cfg = ballot_total pr ->
  (exists pc, In pc (pr_cands pr) /\ pc_cid pc = m /\ pc_withdrawn pc = false) ->
  ballot_total pr < 2 * first_prefs pr m ->
  exec (@crashed A) fuel (count_cmd A cfg RWigmPrf) (init_state A cfg pr) = Some (s, k) -> k <> Abort ->
  forall c, In c (cands s) -> cid c = m -> cst c = Elected.
Proof.
  intros Hwf Hnbt (pc & Hpc & Epc & Hwd) Hmaj He Hk.
  assert (Hns: 0 <= cf_nseats cfg) by (rewrite Hseat; lia).
  destruct (droop_quota_eps_value A S ZL cfg Hns Heps) as (q & Eq & Rq). rewrite Hseat, Hnbt in Rq.
  assert (Ht: triple (est A) (@crashed A) (fun s0 => s0 = init_state A cfg pr) (count_cmd A cfg RWigmPrf)
            (SatE A m) (fun _ => False) (fun _ => False)).
  { unfold count_cmd. eapply t_seq with (M := fun s0 => Pre A S ZL (S * ballot_total pr) s0 /\ (forall c, In c (cands s0) -> cst c <> Elected) /\ HopM A m s0 /\
                                                       R q <= stand A S ZL (ballots s0) m).
    - apply t_do. intros s0 ->. destruct (pre2_init A S ZL cfg Hex pr Hwf) as [P Hne]. destruct (init_state_shape A cfg pr) as (Ec & Eb & _).
      split; [exact P|split; [exact Hne|split]].
      + exists (with_vote (init_cand A pc) (V0' A)). split; [|split; [exact Epc|cbn [cst with_vote init_cand]; rewrite Hwd; reflexivity]].
        unfold zero_votes. cbn [cands set_cands]. rewrite Ec, map_map. apply in_map_iff. exists pc. split; [reflexivity|exact Hpc].
      + unfold zero_votes. cbn [ballots set_cands]. rewrite Eb, (stand_mk A S ZL Hex pr m Hwf), Rq. pose proof (S_pos A S ZL) as HS.
        assert (Hd: 2 * (ballot_total pr * S / (1 + 1)) <= ballot_total pr * S) by (apply (Z.mul_div_le (ballot_total pr * S) 2); lia).
        assert (Hp: S * (ballot_total pr + 1) <= S * (2 * first_prefs pr m)) by (apply Z.mul_le_mono_nonneg_l; lia).
        lia.
    - eapply t_seq with (M := SatE A m); [cbn [rule_cmd]; apply (prf_one_seat_any A S ZL cfg Hex m (S * ballot_total pr) Hseat _ _ q Eq)|].
      + rewrite Rq. pose proof (S_pos A S ZL).
        assert (Hbt: 0 <= ballot_total pr).
        { unfold ballot_total. clear -Hwf. destruct Hwf as [_ Hb]. induction (pr_ballots pr) as [|[mu r] l IH]; cbn [fold_right fst snd]; [lia|].
          assert (0 <= fold_right (fun mr acc => match snd mr with [] => 0 | _ :: _ => fst mr end + acc) 0 l) by (apply IH; intros m' r' H'; apply Hb; right; exact H').
          destruct (Hb mu r (or_introl eq_refl)) as [Hm _]. destruct r; lia. }
        assert (0 <= ballot_total pr * S / (1 + 1)) by (apply Z.div_pos; nia). lia.
      + apply t_do. intros s0 Hs c Hc Em. rewrite (Status.cands_log A cfg) in Hc. exact (Hs c Hc Em). }
  specialize (Ht fuel _ s k eq_refl He). destruct k; try contradiction. exact Ht.
Qed.

(* Minneapolis, one seat: a candidate who is not an undeclared write-in *)
Theorem count_majority_mpls (pr : profile) m fuel s k : wf_profile pr -> cf_nballots cfg = ballot_total pr ->
  (exists pc, In pc (pr_cands pr) /\ pc_cid pc = m /\ pc_withdrawn pc = false /\ pc_undeclared pc = false) ->
  NoDup (map pc_cid (pr_cands pr)) ->
  ballot_total pr < 2 * first_prefs pr m ->
  exec (@crashed A) fuel (count_cmd A cfg RMpls) (init_state A cfg pr) = Some (s, k) -> k <> Abort ->
  forall c, In c (cands s) -> cid c = m -> cst c = Elected.
Proof.
  intros Hwf Hnbt (pc & Hpc & Epc & Hwd & Hud) Hndp Hmaj He Hk.
  pose proof (integer_quota_value A S ZL cfg) as Rq. rewrite Hseat, Hnbt in Rq.
  assert (Hbt: 0 <= ballot_total pr).
  { unfold ballot_total. clear -Hwf. destruct Hwf as [_ Hb]. induction (pr_ballots pr) as [|[mu r] l IH]; cbn [fold_right fst snd]; [lia|].
    assert (0 <= fold_right (fun mr acc => match snd mr with [] => 0 | _ :: _ => fst mr end + acc) 0 l) by (apply IH; intros m' r' H'; apply Hb; right; exact H').
    destruct (Hb mu r (or_introl eq_refl)) as [Hm _]. destruct r; lia. }
  pose proof (S_pos A S ZL) as HS.
  assert (Ht: triple (est A) (@crashed A) (fun s0 => s0 = init_state A cfg pr) (count_cmd A cfg RMpls)
            (SatE A m) (fun _ => False) (fun _ => False)).
  { unfold count_cmd. eapply t_seq with (M := fun s0 => Pre A S ZL (S * ballot_total pr) s0 /\ (forall c, In c (cands s0) -> cst c <> Elected) /\ HopM A m s0 /\
                                                       DeclM A m s0 /\ R (integer_droop_quota A cfg) <= stand A S ZL (ballots s0) m).
    - apply t_do. intros s0 ->. destruct (pre2_init A S ZL cfg Hex pr Hwf) as [P Hne]. destruct (init_state_shape A cfg pr) as (Ec & Eb & _).
      split; [exact P|split; [exact Hne|split; [|split]]].
      + exists (with_vote (init_cand A pc) (V0' A)). split; [|split; [exact Epc|cbn [cst with_vote init_cand]; rewrite Hwd; reflexivity]].
        unfold zero_votes. cbn [cands set_cands]. rewrite Ec, map_map. apply in_map_iff. exists pc. split; [reflexivity|exact Hpc].
      + intros c Hc Em. unfold zero_votes in Hc. cbn [cands set_cands] in Hc. rewrite Ec, map_map in Hc. apply in_map_iff in Hc. destruct Hc as (p0 & <- & Hp0).
        cbn [cid cundecl with_vote init_cand] in *.
        assert (p0 = pc).
        { clear -Hndp Hp0 Hpc Em Epc. revert Hndp Hp0 Hpc. induction (pr_cands pr) as [|a l IH]; intros Hnd H0 H1; [contradiction|]. cbn [map] in Hnd. inversion Hnd as [|? ? Hn Hnd']; subst.
          destruct H0 as [->|H0], H1 as [->|H1]; [reflexivity| | |exact (IH Hnd' H0 H1)]; exfalso; apply Hn; apply in_map_iff; [exists pc|exists p0]; split; try assumption; congruence. }
        subst p0. exact Hud.
      + unfold zero_votes. cbn [ballots set_cands]. rewrite Eb, (stand_mk A S ZL Hex pr m Hwf), Rq.
        assert (Hd: ballot_total pr / (1 + 1) < first_prefs pr m) by (apply Z.div_lt_upper_bound; lia).
        assert (Hp: (ballot_total pr / (1 + 1) + 1) * S <= first_prefs pr m * S) by (apply Z.mul_le_mono_nonneg_r; lia).
        lia.
    - eapply t_seq with (M := SatE A m); [cbn [rule_cmd]; apply (mpls_one_seat A S ZL cfg Hex m (S * ballot_total pr) Hseat)|].
      + rewrite Rq. assert (0 <= ballot_total pr / (1 + 1)) by (apply Z.div_pos; lia). nia.
      + apply t_do. intros s0 Hs c Hc Em. rewrite (Status.cands_log A cfg) in Hc. exact (Hs c Hc Em). }
  specialize (Ht fuel _ s k eq_refl He). destruct k; try contradiction. exact Ht.
Qed.
End MCCount.
