(* C07, first clause, Gregory family: the single-exclusion step of every rule excludes a hopeful candidate whose tally is
   the lowest among the hopefuls, and changes nobody else's status.  Stated for every state the step can be run in (so for
   every reachable one): wigm / wigm-prf / scotland (defeat_low with the rule's tie-break), wigm's own variant, cfer and
   Minneapolis.  Non-fuzzy arithmetics (Fixed / integer / Guarded guard 0), where "lowest" is lowest. *)
From Coq Require Import ZArith List Bool String Lia.
From Droop Require Import Model.KernelBase Model.Str Model.Arith Model.Prelude Model.State Model.Prims Model.RulesGregory Model.RulesMeek
  Proofs.Zlike Proofs.SortLemmas Proofs.Status Proofs.Ties Proofs.Forward Proofs.ForwardOps Proofs.ForwardMeek Proofs.Conserve.
Import ListNotations.
Open Scope Z_scope.

Section LE.
Variable A : arith.
Variable S : Z.
Variable ZL : zlike A S.
Variable cfg : config.
Hypothesis Hex : exact A = false.
Notation est := (est A).
Notation cand := (cand A).
Notation R := (raw ZL).
Notation stl := (stl A).

(* [s'] is [s] with one lowest hopeful excluded: statuses and pending flags of everybody else as in [s] *)
Definition excludes_a_lowest (s s' : est) : Prop :=
  exists c, In c (hopefuls A s) /\ (forall c', In c' (hopefuls A s) -> R (cvote c) <= R (cvote c')) /\
            stl (cands s') = stl (upd_cand A (cid c) (fun x => with_st x Defeated (cpend x)) (cands s)).

Lemma stl_same_cands (l l' : list cand) : l' = l -> stl l' = stl l.
Proof. intros ->. reflexivity. Qed.

(* the common core: tie-break among the lowest, then the exclusion *)
Lemma pick_and_defeat bt msg lv lows (s : est) : bt_ok A bt -> low_candidates A s = Some (lv, lows) ->
  forall s1 l, bt lows s = (s1, Some l) -> excludes_a_lowest s (defeat A cfg l msg s1).
Proof.
  intros Hok El s1 l Eb. destruct (Hok lows s) as (_ & Ec & Hin). rewrite Eb in Ec, Hin. cbn [fst snd] in Ec, Hin.
  destruct (Hin l eq_refl) as (c & Hcl & Hid). destruct (low_candidates_spec A S ZL Hex s lv lows El) as (_ & Hiff & Hmin).
  destruct (proj1 (Hiff c) Hcl) as [Hhop Hv]. exists c. split; [exact Hhop|]. split; [intros c' Hc'; rewrite Hv; apply Hmin; exact Hc'|].
  assert (Hi1: In l (map (@cid A) (cands s1))).
  { rewrite Ec, <- Hid. apply in_map. unfold hopefuls in Hhop. apply filter_In in Hhop. exact (proj1 Hhop). }
  unfold defeat. destruct (find_cand_in A _ _ Hi1) as [c0 ->]. rewrite (cands_log A cfg). unfold upd. cbn [cands set_cands]. rewrite Ec, Hid. reflexivity.
Qed.

Lemma low_some (s : est) : hopefuls A s <> [] -> exists lv lows, low_candidates A s = Some (lv, lows).
Proof.
  intros Hne. unfold low_candidates, min_vote. destruct (hopefuls A s) as [|h t]; [contradiction|]. eexists; eexists; reflexivity.
Qed.

(* wigm-prf, scotland (and wigm through wigm_defeat below): defeat_low with the rule's tie-break *)
Theorem defeat_low_excludes_a_lowest bt msg (s : est) : bt_ok A bt ->
  crashed (defeat_low A cfg bt msg s) = false ->
  excludes_a_lowest s (defeat_low A cfg bt msg s) \/
  (exists lv lows, low_candidates A s = Some (lv, lows) /\ snd (bt lows s) = None).
Proof.
  intros Hok Hcf. unfold defeat_low in *. destruct (low_candidates A s) as [[lv lows]|] eqn:El.
  2:{ rewrite sticky_set_crash in Hcf. discriminate. }
  destruct (bt lows s) as [s1 [l|]] eqn:Eb; [|right; exists lv, lows; split; [reflexivity|rewrite Eb; reflexivity]]. left.
  pose proof (pick_and_defeat bt msg lv lows s Hok El s1 l Eb) as (c & H1 & H2 & H3).
  destruct (crashed (defeat A cfg l msg s1)); [exists c; auto|]. exists c. split; [exact H1|]. split; [exact H2|].
  rewrite stl_tdo. exact H3.
Qed.

Corollary defeat_low_simple_excludes_a_lowest reason msg (s : est) :
  crashed (defeat_low A cfg (bt_simple A cfg reason) msg s) = false ->
  excludes_a_lowest s (defeat_low A cfg (bt_simple A cfg reason) msg s).
Proof.
  intros Hcf. destruct (defeat_low_excludes_a_lowest _ msg s (bt_simple_ok A cfg reason) Hcf) as [H|(lv & lows & El & Hn)]; [exact H|].
  exfalso. unfold defeat_low in Hcf. rewrite El in Hcf. pose proof (bt_simple_none A cfg reason lows s Hn) as Hc.
  destruct (bt_simple A cfg reason lows s) as [s1 [l|]]; cbn [fst snd] in *; [discriminate|congruence].
Qed.

(* wigm: when it does not exclude a batch of zero-vote candidates *)
Theorem wigm_defeat_excludes_a_lowest (s : est) : cf_batch_zero cfg = false ->
  crashed (wigm_defeat A cfg s) = false -> excludes_a_lowest s (wigm_defeat A cfg s).
Proof.
  intros Hbz Hcf. pose proof (defeat_low_simple_excludes_a_lowest "defeat" "Defeat" s) as H.
  unfold wigm_defeat in *. unfold defeat_low in H. destruct (low_candidates A s) as [[lv lows]|]; [|rewrite sticky_set_crash in Hcf; discriminate].
  rewrite Hbz, andb_false_r in *. cbn [andb] in *. exact (H Hcf).
Qed.

(* cfer: the exclusion itself (the transfer follows as a batch of one) *)
Theorem cfer_defeat_low_excludes_a_lowest (s : est) :
  crashed (cfer_defeat_low A cfg s) = false -> excludes_a_lowest s (cfer_defeat_low A cfg s).
Proof.
  intros Hcf. unfold cfer_defeat_low in *. destruct (low_candidates A s) as [[lv lows]|] eqn:El; [|rewrite sticky_set_crash in Hcf; discriminate].
  pose proof (bt_simple_none A cfg "defeat" lows s) as Hn.
  destruct (bt_simple A cfg "defeat" lows s) as [s1 [l|]] eqn:Eb; cbn [fst snd] in *; [|rewrite (Hn eq_refl) in Hcf; discriminate].
  exact (pick_and_defeat (bt_simple A cfg "defeat") "Defeat" lv lows s (bt_simple_ok A cfg "defeat") El s1 l Eb).
Qed.

(* Minneapolis *)
Theorem mpls_defeat_low_excludes_a_lowest (s : est) :
  crashed (mpls_defeat_low A cfg s) = false -> excludes_a_lowest s (mpls_defeat_low A cfg s).
Proof.
  intros Hcf. unfold mpls_defeat_low in *. destruct (low_candidates A s) as [[lv lows]|] eqn:El; [|rewrite sticky_set_crash in Hcf; discriminate].
  pose proof (bt_simple_none A cfg "defeat low candidate" lows s) as Hn.
  destruct (bt_simple A cfg "defeat low candidate" lows s) as [s1 [l|]] eqn:Eb; cbn [fst snd] in *; [|rewrite (Hn eq_refl) in Hcf; discriminate].
  pose proof (pick_and_defeat (bt_simple A cfg "defeat low candidate") "Defeat low candidate" lv lows s (bt_simple_ok A cfg _) El s1 l Eb) as (c & H1 & H2 & H3).
  exists c. split; [exact H1|]. split; [exact H2|].
  set (s2 := defeat A cfg l "Defeat low candidate" s1) in *. destruct (crashed s2); [exact H3|]. cbv zeta.
  destruct (seats_left A cfg s2 <? nlen (hopefuls A s2)); [|exact H3].
  rewrite (cands_log A cfg). cbn [cands set_surplus]. rewrite stl_set_vote, stl_for_ballots_plain. exact H3.
Qed.

(* ================= "where a rule transfers one surplus at a time, the one transferred first is the largest" ================= *)
Lemma fold_max_raw (l : list cand) (x : T A) :
  let m := fold_left (fun m y => if gtv A (cvote y) m then cvote y else m) l x in
  (m = x \/ exists c, In c l /\ m = cvote c) /\ R x <= R m /\ (forall c, In c l -> R (cvote c) <= R m).
Proof.
  revert x. induction l as [|y l IH]; intros x; cbn [fold_left].
  - split; [left; reflexivity|]. split; [lia|]. intros c [].
  - specialize (IH (if gtv A (cvote y) x then cvote y else x)). cbv zeta in *.
    destruct IH as (Hin & Hle & Hall). rewrite (r_gtv_exact A S ZL Hex) in *.
    destruct (R x <? R (cvote y)) eqn:E.
    + split; [destruct Hin as [->|(c & Hc & ->)]; right; [exists y; split; [left; reflexivity|reflexivity]|exists c; split; [right; exact Hc|reflexivity]]|].
      split; [lia|]. intros c [<-|Hc]; [exact Hle|apply Hall; exact Hc].
    + split; [destruct Hin as [->|(c & Hc & ->)]; [left; reflexivity|right; exists c; split; [right; exact Hc|reflexivity]]|].
      split; [exact Hle|]. intros c [<-|Hc]; [lia|apply Hall; exact Hc].
Qed.
Lemma max_vote_spec (l : list cand) hv : max_vote A l = Some hv -> forall c, In c l -> R (cvote c) <= R hv.
Proof.
  unfold max_vote. destruct l as [|c0 l]; [discriminate|]. intros H. injection H as <-.
  destruct (fold_max_raw l (cvote c0)) as (_ & Hle & Hall). cbv zeta in *. intros c [<-|Hc]; [exact Hle|apply Hall; exact Hc].
Qed.

Lemma stl_process (f : est -> ballot A -> est * ballot A) sel : (forall s b, stl (cands (fst (f s b))) = stl (cands s)) ->
  forall bs (s : est) acc, stl (cands (fst (process_ballots A f sel bs s acc))) = stl (cands s).
Proof.
  intros Hf. induction bs as [|b t IH]; intros s acc; cbn [process_ballots]; [reflexivity|].
  destruct (crashed s); [reflexivity|]. destruct (sel b); [|apply IH].
  specialize (Hf s b). destruct (f s b) as [s1 b1]. rewrite IH. exact Hf.
Qed.
Lemma stl_for_ballots_gen (f : est -> ballot A -> est * ballot A) sel (s : est) :
  (forall s b, stl (cands (fst (f s b))) = stl (cands s)) -> stl (cands (for_ballots A f sel s)) = stl (cands s).
Proof.
  intros Hf. unfold for_ballots. pose proof (stl_process f sel Hf (ballots s) s []) as H.
  destruct (process_ballots A f sel (ballots s) s []) as [s1 bs1]. exact H.
Qed.
Lemma stl_reweigh keep rew i surp (s : est) b : stl (cands (fst (reweigh_transfer A keep rew i surp s b))) = stl (cands s).
Proof. unfold reweigh_transfer. destruct (rew _ _ _); [apply stl_transfer|reflexivity]. Qed.

(* [s'] is [s] with the surplus of one pending winner holding the largest tally transferred: only its pending flag changed *)
Definition transfers_a_largest (s s' : est) : Prop :=
  exists c, In c (pendings A s) /\ (forall c', In c' (pendings A s) -> R (cvote c') <= R (cvote c)) /\
            stl (cands s') = stl (upd_cand A (cid c) (fun x => with_st x Elected (Some false)) (cands s)).

Theorem transfer_high_transfers_a_largest bt rew (s : est) : bt_ok A bt -> NoDup (map (@cid A) (cands s)) ->
  crashed s = false -> crashed (transfer_high_surplus A cfg bt rew s) = false ->
  transfers_a_largest s (transfer_high_surplus A cfg bt rew s) \/
  (exists hv, max_vote A (pendings A s) = Some hv /\ snd (bt (filter (fun c => eqv A (cvote c) hv) (pendings A s)) s) = None).
Proof.
  intros Hok Hnd Hc Hcf. unfold transfer_high_surplus in *.
  destruct (max_vote A (pendings A s)) as [hv|] eqn:Em; [|rewrite sticky_set_crash in Hcf; discriminate].
  cbv zeta in *. set (highs := filter (fun c => eqv A (cvote c) hv) (pendings A s)) in *.
  destruct (Hok highs s) as (_ & Ec & Hin).
  destruct (bt highs s) as [s1 [h|]] eqn:Eb; cbn [fst snd] in *; [|right; exists hv; split; [reflexivity|fold highs; rewrite Eb; reflexivity]]. left.
  destruct (Hin h eq_refl) as (c & Hch & Hid). unfold highs in Hch. apply filter_In in Hch. destruct Hch as [Hp Hv].
  rewrite (r_eqv_exact A S ZL Hex) in Hv. apply Z.eqb_eq in Hv.
  destruct (pending_in A s c Hp) as [Hcin Hpend].
  destruct (unpend_pending A cfg h (Some "Transfer high surplus"%string) s1 c ltac:(rewrite Ec; exact Hnd) ltac:(rewrite Ec; exact Hcin) Hid Hpend) as (Ec2 & _).
  cbv zeta in Ec2. set (s2 := unpend A cfg h (Some "Transfer high surplus"%string) s1) in *.
  exists c. split; [exact Hp|]. split; [intros c' Hc'; rewrite Hv; exact (max_vote_spec _ hv Em c' Hc')|].
  assert (E2: stl (cands s2) = stl (upd_cand A (cid c) (fun x => with_st x Elected (Some false)) (cands s))) by (rewrite Ec2, Ec, Hid; reflexivity).
  destruct (crashed s2); [exact E2|].
  match goal with |- context[for_ballots A ?f ?sel s2] => pose proof (stl_for_ballots_gen f sel s2 (fun t b => stl_reweigh _ _ _ _ t b)) as E3; set (s3 := for_ballots A f sel s2) in * end.
  destruct (crashed s3); [rewrite E3; exact E2|].
  rewrite (cands_log A cfg), stl_set_vote, E3. exact E2.
Qed.

(* ================= QPQ: the candidate excluded has the lowest quotient, the candidate elected the highest ================= *)
Lemma fold_minq_raw (l : list cand) (x : T A) :
  let m := fold_left (fun m y => if ltv A (quo_of A y) m then quo_of A y else m) l x in
  R m <= R x /\ (forall c, In c l -> R m <= R (quo_of A c)).
Proof.
  revert x. induction l as [|y l IH]; intros x; cbn [fold_left]; [split; [lia|intros c []]|].
  specialize (IH (if ltv A (quo_of A y) x then quo_of A y else x)). cbv zeta in *. destruct IH as (Hle & Hall).
  rewrite (r_ltv_exact A S ZL Hex) in *. destruct (R (quo_of A y) <? R x) eqn:E.
  - split; [lia|]. intros c [<-|Hc]; [exact Hle|apply Hall; exact Hc].
  - split; [exact Hle|]. intros c [<-|Hc]; [lia|apply Hall; exact Hc].
Qed.
Lemma fold_maxq_raw (l : list cand) (x : T A) :
  let m := fold_left (fun m y => if gtv A (quo_of A y) m then quo_of A y else m) l x in
  R x <= R m /\ (forall c, In c l -> R (quo_of A c) <= R m).
Proof.
  revert x. induction l as [|y l IH]; intros x; cbn [fold_left]; [split; [lia|intros c []]|].
  specialize (IH (if gtv A (quo_of A y) x then quo_of A y else x)). cbv zeta in *. destruct IH as (Hle & Hall).
  rewrite (r_gtv_exact A S ZL Hex) in *. destruct (R x <? R (quo_of A y)) eqn:E.
  - split; [lia|]. intros c [<-|Hc]; [exact Hle|apply Hall; exact Hc].
  - split; [exact Hle|]. intros c [<-|Hc]; [lia|apply Hall; exact Hc].
Qed.
Lemma min_quo_spec (l : list cand) lq : min_quo A l = Some lq -> forall c, In c l -> R lq <= R (quo_of A c).
Proof.
  unfold min_quo. destruct l as [|c0 l]; [discriminate|]. intros H. injection H as <-.
  destruct (fold_minq_raw l (quo_of A c0)) as (Hle & Hall). cbv zeta in *. intros c [<-|Hc]; [exact Hle|apply Hall; exact Hc].
Qed.
Lemma max_quo_spec (l : list cand) hq : max_quo A l = Some hq -> forall c, In c l -> R (quo_of A c) <= R hq.
Proof.
  unfold max_quo. destruct l as [|c0 l]; [discriminate|]. intros H. injection H as <-.
  destruct (fold_maxq_raw l (quo_of A c0)) as (Hle & Hall). cbv zeta in *. intros c [<-|Hc]; [exact Hle|apply Hall; exact Hc].
Qed.

(* one QPQ step, when it does not crash: the candidate whose status changes is a hopeful with the extreme quotient *)
Theorem qpq_step_extreme_quotient (s : est) : crashed (qpq_step A cfg s) = false ->
  exists c, In c (hopefuls A s) /\
    ((forall c', In c' (hopefuls A s) -> R (quo_of A c') <= R (quo_of A c)) /\
       stl (cands (qpq_step A cfg s)) = stl (upd_cand A (cid c) (fun x => with_st x Elected (Some false)) (cands s))
     \/
     (forall c', In c' (hopefuls A s) -> R (quo_of A c) <= R (quo_of A c')) /\
       stl (cands (qpq_step A cfg s)) = stl (upd_cand A (cid c) (fun x => with_st x Defeated (cpend x)) (cands s))).
Proof.
  intros Hcf. unfold qpq_step in *. destruct (max_quo A (hopefuls A s)) as [hq|] eqn:Emax; [|rewrite sticky_set_crash in Hcf; discriminate].
  destruct (gtv A hq (quota s)).
  - set (highs := filter (fun c => eqv A (quo_of A c) hq) (hopefuls A s)) in *.
    pose proof (break_tie_cands A cfg (qpq_tie "largest quotient") highs s) as Ec.
    pose proof (break_tie_spec A cfg (qpq_tie "largest quotient") highs s) as Hsp.
    pose proof (break_tie_none_crashes A cfg (qpq_tie "largest quotient") highs s) as Hno.
    destruct (break_tie A cfg (qpq_tie "largest quotient") highs s) as [s1 [h|]] eqn:Eb; cbn [fst snd] in *.
    2:{ destruct (Hno s1 eq_refl) as [_ ->]. rewrite sticky_set_crash in Hcf. discriminate. }
    destruct (Hsp h s1 eq_refl) as [(c & Hch & Hid) _]. unfold highs in Hch. apply filter_In in Hch. destruct Hch as [Hhop Hv].
    rewrite (r_eqv_exact A S ZL Hex) in Hv. apply Z.eqb_eq in Hv.
    exists c. split; [exact Hhop|]. left. split; [intros c' Hc'; rewrite Hv; exact (max_quo_spec _ hq Emax c' Hc')|].
    assert (Hi1: In h (map (@cid A) (cands s1))).
    { rewrite Ec, <- Hid. apply in_map. unfold hopefuls in Hhop. apply filter_In in Hhop. exact (proj1 Hhop). }
    assert (E2: stl (cands (elect A cfg h "Elect high quotient" false s1)) = stl (upd_cand A (cid c) (fun x => with_st x Elected (Some false)) (cands s))).
    { unfold elect. destruct (find_cand_in A _ _ Hi1) as [c0 ->]. rewrite (cands_log A cfg). unfold upd. cbn [cands set_cands]. rewrite Ec, Hid. reflexivity. }
    set (s2 := elect A cfg h "Elect high quotient" false s1) in *. destruct (crashed s2); [exact E2|].
    destruct (divv A _ _); [|exact E2]. rewrite (cands_log A cfg). cbn [cands set_ballots]. exact E2.
  - destruct (min_quo A (hopefuls A s)) as [lq|] eqn:Emin; [|rewrite sticky_set_crash in Hcf; discriminate].
    set (lows := filter (fun c => eqv A (quo_of A c) lq) (hopefuls A s)) in *.
    pose proof (break_tie_cands A cfg (qpq_tie "smallest quotient") lows s) as Ec.
    pose proof (break_tie_spec A cfg (qpq_tie "smallest quotient") lows s) as Hsp.
    pose proof (break_tie_none_crashes A cfg (qpq_tie "smallest quotient") lows s) as Hno.
    destruct (break_tie A cfg (qpq_tie "smallest quotient") lows s) as [s1 [l|]] eqn:Eb; cbn [fst snd] in *.
    2:{ destruct (Hno s1 eq_refl) as [_ ->]. rewrite sticky_set_crash in Hcf. discriminate. }
    destruct (Hsp l s1 eq_refl) as [(c & Hcl & Hid) _]. unfold lows in Hcl. apply filter_In in Hcl. destruct Hcl as [Hhop Hv].
    rewrite (r_eqv_exact A S ZL Hex) in Hv. apply Z.eqb_eq in Hv.
    exists c. split; [exact Hhop|]. right. split; [intros c' Hc'; rewrite Hv; exact (min_quo_spec _ lq Emin c' Hc')|].
    assert (Hi1: In l (map (@cid A) (cands s1))).
    { rewrite Ec, <- Hid. apply in_map. unfold hopefuls in Hhop. apply filter_In in Hhop. exact (proj1 Hhop). }
    assert (E2: stl (cands (defeat A cfg l "Defeat low quotient" s1)) = stl (upd_cand A (cid c) (fun x => with_st x Defeated (cpend x)) (cands s))).
    { unfold defeat. destruct (find_cand_in A _ _ Hi1) as [c0 ->]. rewrite (cands_log A cfg). unfold upd. cbn [cands set_cands]. rewrite Ec, Hid. reflexivity. }
    set (s2 := defeat A cfg l "Defeat low quotient" s1) in *. destruct (crashed s2); [exact E2|].
    cbn [cands set_flag]. rewrite (cands_log A cfg). cbn [cands set_ballots]. exact E2.
Qed.

(* ================= sure-loser batches (wigm-prf-batch, meek, warren): batch_defeat ================= *)
Definition rsum (l : list cand) : Z := fold_right (fun c acc => R (cvote c) + acc) 0 l.
Lemma rsum_app l1 l2 : rsum (l1 ++ l2) = rsum l1 + rsum l2.
Proof. unfold rsum. induction l1 as [|c l IH]; cbn [app fold_right]; [lia|rewrite IH; lia]. Qed.
Lemma r_vsum_cands (l : list cand) : R (vsum A (map (@cvote A) l)) = rsum l.
Proof. rewrite (r_vsum A S ZL). unfold rsum. induction l as [|c l IH]; cbn [map fold_right]; [reflexivity|]. rewrite IH. reflexivity. Qed.

(* what the scan records: the first g+1 groups are few enough and their tallies plus the surplus stay below the first
   candidate of the next group *)
Definition sure (surp : T A) (maxDefeat : Z) (all : list (list cand)) (g : nat) : Prop :=
  nlen (List.concat (firstn (Datatypes.S g) all)) <= maxDefeat /\
  exists c rest, nth_error all (Datatypes.S g) = Some (c :: rest) /\ rsum (List.concat (firstn (Datatypes.S g) all)) + R surp < R (cvote c).

Lemma nlen_app {X} (l1 l2 : list X) : nlen (l1 ++ l2) = nlen l1 + nlen l2.
Proof. unfold nlen. rewrite app_length, Nat2Z.inj_add. reflexivity. Qed.

Lemma firstn_snoc {X} (pre : list X) x rest : firstn (Datatypes.S (List.length pre)) (pre ++ x :: rest) = (pre ++ [x])%list.
Proof. induction pre as [|y pre IH]; cbn [List.length app firstn]; [reflexivity|]. f_equal. exact IH. Qed.
Lemma nth_after {X} (pre : list X) x y rest : nth_error (pre ++ x :: y :: rest) (Datatypes.S (List.length pre)) = Some y.
Proof. induction pre as [|z pre IH]; cbn [List.length app nth_error]; [reflexivity|exact IH]. Qed.

Lemma scan_groups_cons surp maxDefeat grp nxt (t' : list (list cand)) vote ncand g maxg :
  scan_groups A surp maxDefeat (grp :: nxt :: t') vote ncand g maxg =
  if maxDefeat <? ncand + nlen grp then maxg
  else scan_groups A surp maxDefeat (nxt :: t') (add A vote (vsum A (map (@cvote A) grp))) (ncand + nlen grp) (Datatypes.S g)
         (match nxt with
          | c :: _ => if ltv A (add A (add A vote (vsum A (map (@cvote A) grp))) surp) (cvote c) then Some g else maxg
          | [] => maxg end).
Proof. reflexivity. Qed.

Lemma scan_groups_sure surp maxDefeat (all : list (list cand)) : forall gs pre vote ncand maxg r,
  all = (pre ++ gs)%list -> R vote = rsum (List.concat pre) -> ncand = nlen (List.concat pre) ->
  (forall g0, maxg = Some g0 -> sure surp maxDefeat all g0) ->
  scan_groups A surp maxDefeat gs vote ncand (List.length pre) maxg = Some r -> sure surp maxDefeat all r.
Proof.
  induction gs as [|grp t IH]; intros pre vote ncand maxg r Eall Ev En Hm Hs; [cbn in Hs; exact (Hm r Hs)|].
  destruct t as [|nxt t']; [cbn in Hs; exact (Hm r Hs)|]. rewrite scan_groups_cons in Hs.
  destruct (maxDefeat <? ncand + nlen grp) eqn:Elim; [exact (Hm r Hs)|]. apply Z.ltb_ge in Elim.
  set (vote' := add A vote (vsum A (map (@cvote A) grp))) in *.
  assert (Ev': R vote' = rsum (List.concat (pre ++ [grp]))).
  { unfold vote'. rewrite (r_add A S ZL), r_vsum_cands, Ev, concat_app, rsum_app. cbn [List.concat]. rewrite app_nil_r. reflexivity. }
  assert (En': ncand + nlen grp = nlen (List.concat (pre ++ [grp]))).
  { rewrite concat_app, nlen_app, En. cbn [List.concat]. rewrite app_nil_r. reflexivity. }
  assert (Efirst: firstn (Datatypes.S (List.length pre)) all = (pre ++ [grp])%list) by (rewrite Eall; apply firstn_snoc).
  assert (El: Datatypes.S (List.length pre) = List.length (pre ++ [grp])) by (rewrite app_length; cbn [List.length]; lia).
  rewrite El in Hs. refine (IH (pre ++ [grp])%list vote' (ncand + nlen grp) _ r _ Ev' En' _ Hs).
  - rewrite Eall, <- app_assoc. reflexivity.
  - intros g0 Hg0. destruct nxt as [|c rest]; [exact (Hm g0 Hg0)|].
    destruct (ltv A (add A vote' surp) (cvote c)) eqn:Elt; [|exact (Hm g0 Hg0)].
    injection Hg0 as <-. unfold sure. rewrite Efirst. split; [rewrite <- En'; exact Elim|].
    exists c, rest. split; [rewrite Eall; apply nth_after|].
    rewrite (r_ltv_exact A S ZL Hex), (r_add A S ZL), Ev' in Elt. apply Z.ltb_lt in Elt. exact Elt.
Qed.

(* every member of a group comes from the scanned list *)
Lemma group_tied_in surp (l : list cand) : forall vote group acc c,
  In c (List.concat (group_tied A surp l vote group acc)) -> In c l \/ In c group \/ In c (List.concat acc).
Proof.
  induction l as [|x l IH]; intros vote group acc c Hc; cbn [group_tied] in Hc.
  - assert (G: forall (L : list (list cand)), In c (List.concat (rev L)) -> In c (List.concat L)).
    { intros L H. apply in_concat in H. destruct H as (g & Hg & Hcg). apply in_concat. exists g. split; [apply in_rev; exact Hg|exact Hcg]. }
    apply G in Hc. destruct group as [|g0 gr]; [right; right; exact Hc|].
    cbn [List.concat] in Hc. apply in_app_or in Hc. destruct Hc as [Hc|Hc]; [right; left; apply in_rev; exact Hc|right; right; exact Hc].
  - destruct (gev A (add A vote surp) (cvote x)).
    + destruct (IH _ _ _ _ Hc) as [H|[H|H]]; [left; right; exact H| |right; right; exact H].
      destruct H as [<-|H]; [left; left; reflexivity|right; left; exact H].
    + destruct (IH _ _ _ _ Hc) as [H|[H|H]]; [left; right; exact H|destruct H as [<-|[]]; left; left; reflexivity|].
      destruct group as [|g0 gr]; [right; right; exact H|]. cbn [List.concat] in H. apply in_app_or in H.
      destruct H as [H|H]; [right; left; apply in_rev; exact H|right; right; exact H].
Qed.

Theorem batch_defeat_sure_losers surp (s : est) : batch_defeat A cfg surp s <> [] ->
  nlen (batch_defeat A cfg surp s) <= nlen (hopefuls A s) - seats_left A cfg s /\
  exists c, In c (hopefuls A s) /\ rsum (batch_defeat A cfg surp s) + R surp < R (cvote c).
Proof.
  unfold batch_defeat. cbv zeta. set (groups := group_tied A surp (by_vote A false (hopefuls A s)) (V0 A) [] []).
  destruct (scan_groups A surp (nlen (hopefuls A s) - seats_left A cfg s) groups (V0 A) 0 0 None) as [g|] eqn:Es; [|intros H; contradiction].
  intros _. assert (Hs: sure surp (nlen (hopefuls A s) - seats_left A cfg s) groups g).
  { apply (scan_groups_sure surp _ groups groups [] (V0 A) 0 None g); try reflexivity; [unfold V0; rewrite (r_of_int A S ZL); reflexivity|intros g0 H; discriminate|exact Es]. }
  destruct Hs as (Hn & c & rest & Hnth & Hlt). split; [exact Hn|]. exists c. split; [|exact Hlt].
  assert (Hin: In c (List.concat groups)).
  { apply in_concat. exists (c :: rest). split; [exact (nth_error_In _ _ Hnth)|left; reflexivity]. }
  destruct (group_tied_in surp _ _ _ _ c Hin) as [H|[[]|[]]]. unfold by_vote in H. apply py_sorted_in in H. exact H.
Qed.

(* ================= Meek family: the candidate excluded is within the total surplus of the lowest tally ================= *)
(* the arithmetic's min() is Python's: the first minimal element under the class's own < *)
Definition vmin_is_fold : Prop := forall x l, vmin A x l = fold_left (fun m y => if ltv A y m then y else m) l x.

Lemma fold_minv_raw (l : list (T A)) (x : T A) :
  let m := fold_left (fun m y => if ltv A y m then y else m) l x in
  R m <= R x /\ (forall y, In y l -> R m <= R y).
Proof.
  revert x. induction l as [|y l IH]; intros x; cbn [fold_left]; [split; [lia|intros y []]|].
  specialize (IH (if ltv A y x then y else x)). cbv zeta in *. destruct IH as (Hle & Hall).
  rewrite (r_ltv_exact A S ZL Hex) in *. destruct (R y <? R x) eqn:E.
  - split; [lia|]. intros z [<-|Hz]; [exact Hle|apply Hall; exact Hz].
  - split; [exact Hle|]. intros z [<-|Hz]; [lia|apply Hall; exact Hz].
Qed.

Definition vmin_minimal : Prop := forall x l y, In y (x :: l) -> R (vmin A x l) <= R y.
Lemma vmin_fold_minimal : vmin_is_fold -> vmin_minimal.
Proof.
  intros VM x l y Hy. rewrite VM. destruct (fold_minv_raw l x) as (H1 & H2). cbv zeta in *. destruct Hy as [<-|Hy]; [exact H1|exact (H2 _ Hy)].
Qed.

Theorem meek_defeat_low_within_surplus fmt rd (s : est) : vmin_minimal ->
  crashed (meek_defeat_low A cfg fmt rd s) = false ->
  exists c, In c (hopefuls A s) /\
    (forall c', In c' (hopefuls A s) -> R (cvote c) <= R (cvote c') + Z.max 0 (R (surplus s))) /\
    stl (cands (meek_defeat_low A cfg fmt rd s)) = stl (upd_cand A (cid c) (fun x => with_st x Defeated (cpend x)) (cands s)).
Proof.
  intros VM Hcf. unfold meek_defeat_low in *. unfold low_within_surplus in *.
  destruct (map (@cvote A) (hopefuls A s)) as [|x l] eqn:Em; [rewrite sticky_set_crash in Hcf; discriminate|].
  set (lv := vmin A x l) in *.
  assert (Hlv: forall c', In c' (hopefuls A s) -> R lv <= R (cvote c')).
  { intros c' Hc'. unfold lv. apply VM. rewrite <- Em. apply in_map. exact Hc'. }
  set (lows := match filter (fun c => gev A (add A lv (surplus s)) (cvote c)) (hopefuls A s) with
               | [] => filter (fun c => eqv A (cvote c) lv) (hopefuls A s) | _ => filter (fun c => gev A (add A lv (surplus s)) (cvote c)) (hopefuls A s) end) in *.
  assert (Hlows: forall c, In c lows -> In c (hopefuls A s) /\ forall c', In c' (hopefuls A s) -> R (cvote c) <= R (cvote c') + Z.max 0 (R (surplus s))).
  { intros c Hc. unfold lows in Hc. destruct (filter (fun c => gev A (add A lv (surplus s)) (cvote c)) (hopefuls A s)) as [|c0 r] eqn:Ef.
    - apply filter_In in Hc. destruct Hc as [Hh Hv]. rewrite (r_eqv_exact A S ZL Hex) in Hv. apply Z.eqb_eq in Hv. split; [exact Hh|]. intros c' Hc'. pose proof (Hlv c' Hc'). lia.
    - rewrite <- Ef in Hc. apply filter_In in Hc. destruct Hc as [Hh Hv]. rewrite (r_gev_exact A S ZL Hex), (r_add A S ZL) in Hv. apply Z.leb_le in Hv.
      split; [exact Hh|]. intros c' Hc'. pose proof (Hlv c' Hc'). lia. }
  pose proof (break_tie_cands A cfg fmt lows s) as Ec. pose proof (break_tie_spec A cfg fmt lows s) as Hsp.
  pose proof (break_tie_none_crashes A cfg fmt lows s) as Hno.
  destruct (break_tie A cfg fmt lows s) as [s1 [i|]] eqn:Eb; cbn [fst snd] in *.
  2:{ destruct (Hno s1 eq_refl) as [_ ->]. rewrite sticky_set_crash in Hcf. discriminate. }
  destruct (Hsp i s1 eq_refl) as [(c & Hcl & Hid) _]. destruct (Hlows c Hcl) as [Hhop Hmin].
  exists c. split; [exact Hhop|]. split; [exact Hmin|]. cbv zeta in *.
  assert (Hi1: In i (map (@cid A) (cands s1))).
  { rewrite Ec, <- Hid. apply in_map. unfold hopefuls in Hhop. apply filter_In in Hhop. exact (proj1 Hhop). }
  match goal with |- context[defeat A cfg i ?m s1] => set (msg := m) in * end.
  assert (E2: stl (cands (zero_cand A i (defeat A cfg i msg s1))) = stl (upd_cand A (cid c) (fun x => with_st x Defeated (cpend x)) (cands s))).
  { unfold zero_cand, upd. cbn [cands set_cands]. rewrite stl_upd_same by (intros c0; repeat split).
    unfold defeat. destruct (find_cand_in A _ _ Hi1) as [c0 ->]. rewrite (cands_log A cfg). unfold upd. cbn [cands set_cands]. rewrite Ec, Hid. reflexivity. }
  destruct (crashed (zero_cand A i (defeat A cfg i msg s1))); [exact E2|]. destruct rd; [rewrite (distribute_stl A cfg)|]; exact E2.
Qed.
End LE.


(* the two arithmetics the Meek family runs on with exact comparisons: their min() is the fold above, by construction *)
From Droop Require Import Gen.FixedKernels Gen.GuardedKernels.
Lemma vmin_fold_fixed p d : vmin_is_fold (Fixed p d).
Proof. intros x l. cbn [Fixed vmin ltv]. unfold FixedKernels.min, py_min_by. cbn [bind unres]. reflexivity. Qed.

From Droop Require Import Proofs.ArithEq.
Lemma vmin_minimal_guard0 p d s S (ZL : zlike (Guarded p 0 d s) S) : 1 <= p -> 0 <= d ->
  exact (Guarded p 0 d s) = false -> vmin_minimal (Guarded p 0 d s) S ZL.
Proof.
  intros Hp Hd. revert ZL. rewrite (guard0_is_fixed p d s Hp Hd). intros ZL Hex.
  exact (vmin_fold_minimal (Fixed p d) S ZL Hex (vmin_fold_fixed p d)).
Qed.
