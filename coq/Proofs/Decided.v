(* C01, "when the count ends every non-withdrawn candidate is elected or defeated": whole-run theorem
   for every rule, by the Hoare logic of CmdMeta: every way out of a rule's command tree goes through a
   micro-operation that settles all remaining hopeful candidates. *)
From Coq Require Import ZArith List Bool Lia String PArith.
From Droop Require Import Model.KernelBase Model.Arith Model.Prelude Model.State Model.Prims
  Model.RulesGregory Model.RulesMeek Model.Election Proofs.CmdMeta Proofs.Status.
Import ListNotations.
Open Scope Z_scope.

Section Decided.
Variable A : arith.
Variable cfg : config.
Notation est := (est A).

Definition NoHop (s : est) : Prop := hopefuls A s = [].
Definition TT (s : est) : Prop := True.

(* (cid, status) of every candidate, in order *)
Definition stmap (l : list (cand A)) : list (Z * cstate) := map (fun c => (cid c, cst c)) l.
Lemma hopefuls_stmap (l l' : list (cand A)) : stmap l = stmap l' ->
  (filter (in_state A Hopeful) l = [] <-> filter (in_state A Hopeful) l' = []).
Proof.
  revert l'. induction l as [|c l IH]; intros [|c' l'] H; cbn [stmap map filter] in *; try discriminate; [tauto|].
  injection H as Hc Hs Ht.
  assert (E: in_state A Hopeful c = in_state A Hopeful c') by (unfold in_state; rewrite Hs; reflexivity). rewrite E.
  destruct (in_state A Hopeful c'); [split; intros X; discriminate X|apply IH; exact Ht].
Qed.
Lemma stmap_upd_vote i f (l : list (cand A)) : (forall c, cid (f c) = cid c /\ cst (f c) = cst c) ->
  stmap (upd_cand A i f l) = stmap l.
Proof.
  intros Hf. unfold stmap, upd_cand. rewrite map_map. apply map_ext. intros c.
  destruct (cid c =? i); [destruct (Hf c) as [-> ->]|]; reflexivity.
Qed.
Lemma stmap_map f (l : list (cand A)) : (forall c, cid (f c) = cid c /\ cst (f c) = cst c) -> stmap (map f l) = stmap l.
Proof. intros Hf. unfold stmap. rewrite map_map. apply map_ext. intros c. destruct (Hf c) as [-> ->]; reflexivity. Qed.

(* vote distribution (meek) changes tallies only *)
Lemma dist_ballot_stmap cs mult r w br :
  stmap (fst (fst (dist_ballot A cfg cs mult r w br))) = stmap cs.
Proof.
  revert cs w br. induction r as [|i r IH]; intros cs w br; cbn [dist_ballot]; [reflexivity|].
  destruct (find_cand A cs i) as [c|]; [|apply IH]. destruct (kf_truthy A c); [|apply IH].
  destruct (kt A cfg (kf_of A c) w) as [keep w']. cbv zeta.
  destruct (lev A w' (V0 A)); cbn [fst]; [|rewrite IH]; apply stmap_upd_vote; intros x; split; reflexivity.
Qed.
Lemma dist_ballot_prf_stmap cs mult r w br :
  stmap (fst (fst (dist_ballot_prf A cs mult r w br))) = stmap cs.
Proof.
  revert cs w br. induction r as [|i r IH]; intros cs w br; cbn [dist_ballot_prf]; [reflexivity|].
  destruct (find_cand A cs i) as [c|]; [|apply IH]. destruct (kf_truthy A c); [|apply IH]. cbv zeta.
  destruct (lev A _ (V0 A)); cbn [fst]; [|rewrite IH]; apply stmap_upd_vote; intros x; split; reflexivity.
Qed.

Lemma dist_eq_stmap cset mult ranks : forall w st cs br cs' br',
  st = Ok (cs, br) -> dist_eq A cfg cset mult ranks w st = Ok (cs', br') -> stmap cs' = stmap cs.
Proof.
  induction ranks as [|rank deeper IH]; intros w st cs br cs' br' -> H; cbn [dist_eq] in H.
  - destruct (negb (truth A w)); inversion H; reflexivity.
  - destruct (negb (truth A w)); [inversion H; reflexivity|].
    destruct (filter _ rank) as [|i0 cids0] eqn:Ef; [inversion H; reflexivity|].
    destruct (divv A w _) as [cw|]; [|discriminate].
    revert cs br H. generalize (i0 :: cids0). intros l. induction l as [|i l IHl]; intros cs br H; cbn [fold_left] in H.
    + inversion H; reflexivity.
    + destruct (find_cand A cs i) as [c|] eqn:Ec.
      * destruct (kt A cfg (kf_of A c) cw) as [keep w'] eqn:Ek. cbv zeta in H.
        match type of H with fold_left _ _ ?x = _ => destruct x as [[cs2 br2]|e] eqn:E2 end.
        -- rewrite (IHl _ _ H). rewrite (IH _ _ _ _ _ _ eq_refl E2).
           apply stmap_upd_vote; intros x; split; reflexivity.
        -- exfalso. clear - H. induction l as [|j l IHl']; cbn in H; [discriminate|exact (IHl' H)].
      * exfalso. clear - H. induction l as [|j l IHl']; cbn in H; [discriminate|exact (IHl' H)].
Qed.

Lemma zero_he_stmap s : stmap (cands (zero_he_votes A s)) = stmap (cands s).
Proof. unfold zero_he_votes. cbn [cands set_cands]. apply stmap_map. intros c. destruct (_ || _); split; reflexivity. Qed.

Lemma distribute_stmap s : stmap (cands (distribute_votes A cfg s)) = stmap (cands s).
Proof.
  unfold distribute_votes. cbv zeta.
  match goal with |- context[fold_left ?f (ballots ?s0) ?i] =>
    assert (G: forall bs cs r acc, stmap (fst (fst (fold_left f bs (cs, r, acc)))) = stmap cs) end.
  { induction bs as [|b bs IHb]; intros cs r acc; cbn [fold_left]; [reflexivity|].
    destruct (dist_ballot A cfg cs (bmult b) (brank b) (V1 A) (bmult b)) as [[cs1 w1] br1] eqn:Ed.
    rewrite IHb. pose proof (dist_ballot_stmap cs (bmult b) (brank b) (V1 A) (bmult b)) as H. rewrite Ed in H. exact H. }
  match goal with |- context[fold_left ?f (ballots ?s0) ?i] =>
    pose proof (G (ballots s0) (cands s0) (V0 A) []) as G0; destruct (fold_left f (ballots s0) i) as [[cs r] bs] end.
  cbn [fst] in G0.
  match goal with |- stmap (cands (fold_left ?f ?l ?s1)) = _ =>
    assert (G2: forall l0 s0, stmap (cands (fold_left f l0 s0)) = stmap (cands s0)) end.
  { induction l0 as [|eb l0 IHl]; intros s0; cbn [fold_left]; [reflexivity|]. rewrite IHl.
    destruct (crashed s0); [reflexivity|].
    destruct (dist_eq A cfg _ (emult eb) (erank eb) (V1 A) (Ok (cands s0, emult eb))) as [[cs2 br2]|e] eqn:Ee; [|reflexivity].
    cbn [cands set_residual set_cands]. exact (dist_eq_stmap _ _ _ _ _ _ _ _ _ eq_refl Ee). }
  rewrite G2. cbn [cands set_ballots set_residual set_cands]. rewrite G0. cbn [cands set_residual]. apply zero_he_stmap.
Qed.

Lemma nohop_stmap s s' : stmap (cands s') = stmap (cands s) -> NoHop s -> NoHop s'.
Proof. intros H Hn. unfold NoHop, hopefuls in *. exact (proj1 (hopefuls_stmap _ _ (eq_sym H)) Hn). Qed.

(* statuses after elect / defeat, as maps *)
Lemma stmap_log t m s : stmap (cands (log_action A cfg t m s)) = stmap (cands s).
Proof. rewrite cands_log. reflexivity. Qed.

(* generalised settling fold: each step makes candidate i non-hopeful, creates no hopeful, keeps the cids *)
Definition hcids (s : est) : list Z := map (@cid A) (hopefuls A s).
Definition cids (s : est) : list Z := map (@cid A) (cands s).
Definition settles2 (f : est -> Z -> est) : Prop :=
  forall i s, In i (cids s) -> cids (f s i) = cids s /\ (forall x, In x (hcids (f s i)) -> In x (hcids s) /\ x <> i).

Lemma settle2_fold f (l : list (cand A)) : settles2 f ->
  forall s, (forall c, In c l -> In (cid c) (cids s)) -> (forall x, In x (hcids s) -> In x (map (@cid A) l)) ->
  NoHop (fold_left (fun s c => f s (cid c)) l s).
Proof.
  intros Hf. induction l as [|c0 l IH]; intros s Hin Hw; cbn [fold_left map] in *.
  - unfold NoHop. unfold hcids in Hw. destruct (hopefuls A s) as [|c t]; [reflexivity|]. exfalso. exact (Hw (cid c) (or_introl eq_refl)).
  - destruct (Hf (cid c0) s (Hin c0 (or_introl eq_refl))) as (Ec & Hh). apply IH.
    + intros c Hc. rewrite Ec. apply Hin. right; exact Hc.
    + intros x Hx. destruct (Hh x Hx) as [Hx1 Hne]. destruct (Hw x Hx1) as [H|H]; [congruence|exact H].
Qed.

Lemma hcids_of_stmap s s' : stmap (cands s') = stmap (cands s) -> hcids s' = hcids s /\ cids s' = cids s.
Proof.
  unfold hcids, cids, hopefuls, stmap. generalize (cands s') (cands s). induction l as [|c l IH]; intros [|c' l'] H; cbn [map filter] in *; try discriminate; [auto|].
  injection H as Hc Hs Ht. destruct (IH _ Ht) as [E1 E2].
  assert (E: in_state A Hopeful c = in_state A Hopeful c') by (unfold in_state; rewrite Hs; reflexivity). rewrite E.
  destruct (in_state A Hopeful c'); cbn [map]; rewrite ?E1, ?E2, ?Hc; auto.
Qed.

Lemma upd_settles i g (s : est) : (forall c, cid (g c) = cid c) -> (forall c, in_state A Hopeful (g c) = false) ->
  cids (set_cands s (upd_cand A i g (cands s))) = cids s /\
  (forall x, In x (hcids (set_cands s (upd_cand A i g (cands s)))) -> In x (hcids s) /\ x <> i).
Proof.
  intros Hc Hn. split; [unfold cids; cbn [cands set_cands]; apply cids_upd; exact Hc|].
  unfold hcids, hopefuls. cbn [cands set_cands]. intros x Hx. apply in_map_iff in Hx. destruct Hx as (c & <- & Hin).
  apply filter_In in Hin. destruct Hin as [Hin Hh]. unfold upd_cand in Hin. apply in_map_iff in Hin. destruct Hin as (c' & Ec & Hc').
  destruct (cid c' =? i) eqn:E.
  - subst c. rewrite Hn in Hh. discriminate.
  - subst c. split; [apply in_map; apply filter_In; split; assumption|lia].
Qed.

Lemma settles2_of_stmap f f' : settles2 f -> (forall s i, stmap (cands (f' s i)) = stmap (cands (f s i))) -> settles2 f'.
Proof.
  intros Hf He i s Hi. destruct (hcids_of_stmap _ _ (He s i)) as [E1 E2]. rewrite E1, E2. apply Hf. exact Hi.
Qed.

Lemma elect_settles2 m p : settles2 (fun s i => elect A cfg i m p s).
Proof.
  intros i s Hi. unfold elect. destruct (find_cand_in A _ _ Hi) as [c ->].
  destruct (hcids_of_stmap _ _ (stmap_log TElect (m ++ ": " ++ cname c)%string (upd A s i (fun c0 => with_st c0 Elected (Some p))))) as [-> ->].
  apply upd_settles; intros; reflexivity.
Qed.
Lemma defeat_settles2 m : settles2 (fun s i => defeat A cfg i m s).
Proof.
  intros i s Hi. unfold defeat. destruct (find_cand_in A _ _ Hi) as [c ->].
  destruct (hcids_of_stmap _ _ (stmap_log TDefeat (m ++ ": " ++ cname c)%string (upd A s i (fun c0 => with_st c0 Defeated (cpend c0))))) as [-> ->].
  apply upd_settles; intros; reflexivity.
Qed.

Lemma hop_in_cids s c : In c (hopefuls A s) -> In (cid c) (cids s).
Proof. apply hopefuls_in. Qed.
Lemma hcids_self s x : In x (hcids s) -> In x (map (@cid A) (hopefuls A s)).
Proof. auto. Qed.

Lemma elect_all_nohop m p s : NoHop (fold_left (fun s c => elect A cfg (cid c) m p s) (hopefuls A s) s).
Proof. apply (settle2_fold (fun s i => elect A cfg i m p s)); [apply elect_settles2|apply hop_in_cids|apply hcids_self]. Qed.
Lemma defeat_all_nohop m s : NoHop (fold_left (fun s c => defeat A cfg (cid c) m s) (hopefuls A s) s).
Proof. apply (settle2_fold (fun s i => defeat A cfg i m s)); [apply defeat_settles2|apply hop_in_cids|apply hcids_self]. Qed.

Lemma eod_nohop s : NoHop (elect_or_defeat_remaining A cfg s).
Proof.
  unfold elect_or_defeat_remaining.
  apply (settle2_fold (fun s i => if nlen (electeds A s) <? cf_nseats cfg then elect A cfg i "Elect remaining" false s
                                  else defeat A cfg i "Defeat remaining" s)); [|apply hop_in_cids|apply hcids_self].
  intros i s0 Hi. destruct (_ <? _); [apply elect_settles2|apply defeat_settles2]; exact Hi.
Qed.

Lemma zero_cand_stmap i s : stmap (cands (zero_cand A i s)) = stmap (cands s).
Proof. unfold zero_cand, upd. cbn [cands set_cands]. apply stmap_upd_vote. intros c; split; reflexivity. Qed.

(* a fold whose step is skipped once the state has crashed equals the unchecked fold when it ends uncrashed *)
Lemma fold_checked {X} (h : est -> X -> est) (l : list X) : forall s,
  crashed (fold_left (fun s x => if crashed s then s else h s x) l s) = false ->
  fold_left (fun s x => if crashed s then s else h s x) l s = fold_left h l s.
Proof.
  induction l as [|x l IH]; intros s H; cbn [fold_left] in *; [reflexivity|].
  destruct (crashed s) eqn:C.
  - exfalso. assert (G: forall l0, fold_left (fun s0 x0 => if crashed s0 then s0 else h s0 x0) l0 s = s).
    { induction l0 as [|y l0 IHl]; cbn [fold_left]; [reflexivity|]. rewrite C. exact IHl. }
    rewrite G in H. congruence.
  - apply IH. exact H.
Qed.

Definition meek_final_step (rd : bool) (s0 : est) (i : Z) : est :=
  let s' := if nlen (electeds A s0) <? cf_nseats cfg then elect A cfg i "Elect remaining" false s0
            else zero_cand A i (defeat A cfg i "Defeat remaining" s0) in
  if rd then distribute_votes A cfg s' else s'.

Lemma meek_final_step_settles rd : settles2 (meek_final_step rd).
Proof.
  apply (settles2_of_stmap (fun s0 i => if nlen (electeds A s0) <? cf_nseats cfg then elect A cfg i "Elect remaining" false s0
                                        else defeat A cfg i "Defeat remaining" s0)).
  - intros i s0 Hi. destruct (_ <? _); [apply elect_settles2|apply defeat_settles2]; exact Hi.
  - intros s0 i. unfold meek_final_step. cbv zeta. destruct rd; [rewrite distribute_stmap|];
      (destruct (_ <? _); [reflexivity|apply zero_cand_stmap]).
Qed.

Lemma meek_final_nohop rd s : crashed (meek_final A cfg rd s) = false -> NoHop (meek_final A cfg rd s).
Proof.
  intros Hc. unfold meek_final in *. cbv zeta in *.
  match type of Hc with crashed (set_residual (set_votes ?s1 _) _) = false => assert (Hc1: crashed s1 = false) by exact Hc end.
  eapply nohop_stmap; [reflexivity|]. unfold NoHop, hopefuls. cbn [cands set_residual set_votes].
  change (NoHop (fold_left (fun s0 c => if crashed s0 then s0 else meek_final_step rd s0 (cid c)) (hopefuls A s) s)).
  change (crashed (fold_left (fun s0 c => if crashed s0 then s0 else meek_final_step rd s0 (cid c)) (hopefuls A s) s) = false) in Hc1.
  rewrite (fold_checked (fun s0 c => meek_final_step rd s0 (cid c)) _ _ Hc1).
  apply (settle2_fold (meek_final_step rd)); [apply meek_final_step_settles|apply hop_in_cids|apply hcids_self].
Qed.

(* ---------------- every rule: a run that ends normally leaves nobody hopeful *)
Notation triple := (triple est (@crashed A)).
Ltac skip_prefix := repeat (eapply t_seq; [apply t_any|]).

Lemma wigm_decided : triple TT (wigm A cfg) NoHop TT TT.
Proof. unfold wigm. skip_prefix. apply t_do. intros; apply eod_nohop. Qed.
Lemma wigm_prf_decided : triple TT (wigm_prf A cfg) NoHop TT TT.
Proof. unfold wigm_prf. skip_prefix. apply t_do. intros; apply eod_nohop. Qed.
Lemma scotland_decided : triple TT (scotland A cfg) NoHop TT TT.
Proof. unfold scotland. skip_prefix. apply t_do. intros; apply defeat_all_nohop. Qed.
Lemma qpq_decided : triple TT (qpq A cfg) NoHop TT TT.
Proof. unfold qpq. skip_prefix. apply t_do. intros; apply defeat_all_nohop. Qed.
Lemma mpls_decided : triple TT (mpls A cfg) NoHop TT TT.
Proof.
  unfold mpls. skip_prefix. apply t_ite.
  - apply t_do. intros; apply defeat_all_nohop.
  - apply t_skip'. intros s [_ Hg]. unfold NoHop. destruct (hopefuls A s); [reflexivity|discriminate Hg].
Qed.
Lemma meek_decided : triple TT (meek A cfg) NoHop TT TT.
Proof. unfold meek. skip_prefix. apply (t_do_nc est (@crashed A)). intros s _ Hc. apply meek_final_nohop; exact Hc. Qed.
Lemma meek_prf_decided : triple TT (meek_prf A cfg) NoHop TT TT.
Proof. unfold meek_prf. skip_prefix. apply (t_do_nc est (@crashed A)). intros s _ Hc. apply meek_final_nohop; exact Hc. Qed.

(* cfer: the count leaves its loop only through a Break, each preceded by a settling micro-operation *)
Lemma cfer_decided : triple TT (cfer A cfg) NoHop TT TT.
Proof.
  unfold cfer. eapply t_seq; [apply t_any|].
  eapply t_post; [|apply (t_while est (@crashed A) TT NoHop)].
  - intros s [H|[_ H]]; [exact H|discriminate H].
  - (* the loop body: TT at every loop head, NoHop at every break *)
    eapply t_pre with (P := TT); [intros; exact I|].
    eapply t_seq with (M := TT); [apply t_do; intros; exact I|].
    eapply t_seq with (M := TT).
    { apply t_ite; [|apply t_skip'; intros; exact I].
      eapply t_seq with (M := NoHop); [apply t_do; intros; apply elect_all_nohop|]. apply t_break'. auto. }
    eapply t_seq with (M := TT); [apply t_do; intros; exact I|].
    eapply t_seq with (M := TT).
    { apply t_ite; [|apply t_skip'; intros; exact I].
      eapply t_seq with (M := TT); [apply t_do; intros; exact I|].
      eapply t_seq with (M := NoHop); [apply t_do; intros; apply defeat_all_nohop|]. apply t_break'. auto. }
    eapply t_seq with (M := TT); [apply t_do; intros; exact I|].
    eapply t_seq with (M := TT).
    { apply t_ite; [apply t_do; intros; exact I|]. apply t_ite; apply t_do; intros; exact I. }
    apply t_ite; [|apply t_skip'; intros; exact I].
    eapply t_seq with (M := TT); [|apply t_do; intros; exact I].
    apply t_ite; [|apply t_skip'; intros; exact I].
    eapply t_seq with (M := TT); [apply t_do; intros; exact I|].
    eapply t_seq with (M := NoHop); [apply t_do; intros; apply elect_all_nohop|]. apply t_break'. auto.
Qed.

Theorem rule_decided r : triple TT (rule_cmd A cfg r) NoHop TT TT.
Proof.
  destruct r; cbn [rule_cmd]; auto using wigm_decided, wigm_prf_decided, scotland_decided, cfer_decided, mpls_decided,
    meek_decided, meek_prf_decided, qpq_decided.
Qed.

(* Election.count(): reset, rule, 'end' action *)
Theorem count_decided r pr fuel s :
  exec (@crashed A) fuel (count_cmd A cfg r) (init_state A cfg pr) = Some (s, Next) ->
  hopefuls A s = [] /\
  forall c, In c (cands s) -> cst c = Elected \/ cst c = Defeated \/ cst c = Withdrawn.
Proof.
  intros He.
  assert (T: triple TT (count_cmd A cfg r) NoHop TT TT).
  { unfold count_cmd. eapply t_seq; [apply t_any|]. eapply t_seq; [apply rule_decided|].
    apply t_do. intros s0 H0. eapply nohop_stmap; [apply stmap_log|exact H0]. }
  pose proof (T fuel _ _ _ Logic.I He) as H. cbn in H. split; [exact H|].
  intros c Hc. unfold NoHop, hopefuls in H.
  assert (Hf: in_state A Hopeful c = false).
  { destruct (in_state A Hopeful c) eqn:E; [|reflexivity]. exfalso.
    assert (In c (filter (in_state A Hopeful) (cands s))) by (apply filter_In; split; assumption).
    rewrite H in H0. exact H0. }
  unfold in_state in Hf. destruct (cst c); cbn in Hf; try discriminate; auto.
Qed.
End Decided.
