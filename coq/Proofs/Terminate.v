(* Termination (C01, first clause).  Part A: a total-correctness rule for the While of Model/Prelude.v -- a loop whose
   body always returns and strictly decreases a natural-number measure ends within [measure] iterations, so with
   fuel above the measure exec never answers None (OutOfFuel).  Part B: the measure for the Gregory rules: twice the
   hopeful candidates plus the winners whose surplus is still pending; statuses only move forward (Proofs/Forward*.v),
   so no operation increases it, and every pass of the main loop that neither crashes nor leaves the loop transfers a
   surplus or excludes somebody. *)
From Coq Require Import ZArith List Bool String Lia PArith.
From Droop Require Import Model.KernelBase Model.Str Model.Arith Model.Prelude Model.State Model.Prims Model.RulesGregory
  Model.Election Proofs.CmdMeta Proofs.Status Proofs.SortLemmas Proofs.Forward Proofs.ForwardOps Proofs.ForwardGreg2 Proofs.GuardedLemmas Gen.FixedKernels Gen.GuardedKernels.
Import ListNotations.

(* ================= Part A ================= *)
Section Term.
Variable St : Type.
Variable crashed : St -> bool.

Fixpoint loopfree (c : cmd St) : Prop :=
  match c with
  | While _ _ => False
  | Seq a b | Ite _ a b => loopfree a /\ loopfree b
  | _ => True
  end.

Lemma loopfree_total c : loopfree c -> forall fuel s, exists r, exec crashed fuel c s = Some r.
Proof.
  induction c as [f|a IHa b IHb|g a IHa b IHb|g body IH| | |]; cbn [loopfree]; intros H fuel s; cbn [exec]; try (eexists; reflexivity).
  - destruct H as [Ha Hb]. destruct (IHa Ha fuel s) as [[s1 k1] E1]. rewrite E1. destruct k1; try (eexists; reflexivity). apply IHb. exact Hb.
  - destruct H as [Ha Hb]. destruct (g s); [apply IHa|apply IHb]; assumption.
  - contradiction.
Qed.

Section Loop.
Variables (I : St -> Prop) (mu : St -> nat) (run : St -> option (St * ctl)) (g : St -> bool).
Hypothesis Hrun : forall s, I s -> g s = true ->
  exists s' k, run s = Some (s', k) /\ ((k = Next \/ k = Cont) -> I s' /\ (mu s' < mu s)%nat).

Lemma iter_progress s : I s -> exists s' w k, iter_once St run g s = Some (s', w, k) /\ (w = true -> I s' /\ (mu s' + 1 <= mu s)%nat).
Proof.
  intros Hs. unfold iter_once. destruct (g s) eqn:G; [|exists s, false, Next; split; [reflexivity|discriminate]].
  destruct (Hrun s Hs G) as (s' & k & E & Hk). rewrite E.
  destruct k; [exists s', true, Next|exists s', false, Next|exists s', true, Next|exists s', false, Abort]; (split; [reflexivity|]); try discriminate;
    intros _; (destruct Hk as [H1 H2]; [auto|split; [exact H1|lia]]).
Qed.

Lemma loop_progress p : forall s, I s ->
  exists s' w k, loopP St run g p s = Some (s', w, k) /\ (w = true -> I s' /\ (mu s' + Pos.to_nat p <= mu s)%nat).
Proof.
  induction p as [q IH|q IH|]; intros s Hs; cbn [loopP].
  - destruct (iter_progress s Hs) as (s1 & w1 & k1 & E1 & H1). rewrite E1. destruct w1; [|exists s1, false, k1; split; [reflexivity|discriminate]].
    destruct (H1 eq_refl) as [I1 M1]. destruct (IH s1 I1) as (s2 & w2 & k2 & E2 & H2). rewrite E2.
    destruct w2; [|exists s2, false, k2; split; [reflexivity|discriminate]].
    destruct (H2 eq_refl) as [I2 M2]. destruct (IH s2 I2) as (s3 & w3 & k3 & E3 & H3). rewrite E3.
    exists s3, w3, k3. split; [reflexivity|]. intros Hw. destruct (H3 Hw) as [I3 M3]. split; [exact I3|]. rewrite Pos2Nat.inj_xI. lia.
  - destruct (IH s Hs) as (s1 & w1 & k1 & E1 & H1). rewrite E1. destruct w1; [|exists s1, false, k1; split; [reflexivity|discriminate]].
    destruct (H1 eq_refl) as [I1 M1]. destruct (IH s1 I1) as (s2 & w2 & k2 & E2 & H2). rewrite E2.
    exists s2, w2, k2. split; [reflexivity|]. intros Hw. destruct (H2 Hw) as [I2 M2]. split; [exact I2|]. rewrite Pos2Nat.inj_xO. lia.
  - destruct (iter_progress s Hs) as (s1 & w1 & k1 & E1 & H1). exists s1, w1, k1. split; [exact E1|]. intros Hw. destruct (H1 Hw) as [I1 M1]. split; [exact I1|]. change (Pos.to_nat 1) with 1%nat. lia.
Qed.
End Loop.

(* a While whose body is loop-free (hence always returns) and, on Next/Continue, re-establishes I with a smaller measure *)
Lemma while_total (I : St -> Prop) (mu : St -> nat) g body fuel :
  loopfree body ->
  (forall n, triple St crashed (fun s => I s /\ g s = true /\ mu s = n) body
                    (fun s' => I s' /\ (mu s' < n)%nat) (fun _ => True) (fun s' => I s' /\ (mu s' < n)%nat)) ->
  forall s, I s -> (mu s < Pos.to_nat fuel)%nat -> exists r, exec crashed fuel (While g body) s = Some r.
Proof.
  intros Hlf Hbody s Hs Hmu. cbn [exec].
  destruct (loop_progress I mu (exec crashed fuel body) g) with (p := fuel) (s := s) as (s' & w & k & E & Hw); [|exact Hs|].
  - intros s0 I0 G0. destruct (loopfree_total body Hlf fuel s0) as [[s1 k1] E1]. exists s1, k1. split; [exact E1|].
    intros Hk. pose proof (Hbody (mu s0) fuel s0 s1 k1 (conj I0 (conj G0 eq_refl)) E1) as Hp. destruct Hk as [-> | ->]; exact Hp.
  - rewrite E. destruct w; [destruct (Hw eq_refl) as [_ Hle]; lia|]. eexists; reflexivity.
Qed.

(* the same with a body that is only known to answer from states satisfying the invariant (nested loops) *)
Definition total (fuel : positive) (P : St -> Prop) (c : cmd St) : Prop := forall s, P s -> exists r, exec crashed fuel c s = Some r.

Lemma total_loopfree fuel P c : loopfree c -> total fuel P c.
Proof. intros H s _. apply loopfree_total. exact H. Qed.
Lemma total_pre fuel (P P' : St -> Prop) c : (forall s, P' s -> P s) -> total fuel P c -> total fuel P' c.
Proof. intros H Ht s Hs. apply Ht, H, Hs. Qed.
Lemma total_seq fuel (P M : St -> Prop) a b (Qb Qc : St -> Prop) :
  total fuel P a -> triple St crashed P a M Qb Qc -> total fuel M b -> total fuel P (Seq a b).
Proof.
  intros Ha Hta Hb s Hs. cbn [exec]. destruct (Ha s Hs) as [[s1 k1] E1]. rewrite E1.
  destruct k1; try (eexists; reflexivity). apply Hb. exact (Hta fuel s s1 Next Hs E1).
Qed.
Lemma total_ite fuel (P : St -> Prop) g a b :
  total fuel (fun s => P s /\ g s = true) a -> total fuel (fun s => P s /\ g s = false) b -> total fuel P (Ite g a b).
Proof. intros Ha Hb s Hs. cbn [exec]. destruct (g s) eqn:G; [apply Ha|apply Hb]; auto. Qed.

Lemma while_total' (I : St -> Prop) (mu : St -> nat) g body fuel :
  total fuel (fun s => I s /\ g s = true) body ->
  (forall n, triple St crashed (fun s => I s /\ g s = true /\ mu s = n) body
                    (fun s' => I s' /\ (mu s' < n)%nat) (fun _ => True) (fun s' => I s' /\ (mu s' < n)%nat)) ->
  total fuel (fun s => I s /\ (mu s < Pos.to_nat fuel)%nat) (While g body).
Proof.
  intros Htot Hbody s [Hs Hmu]. cbn [exec].
  destruct (loop_progress I mu (exec crashed fuel body) g) with (p := fuel) (s := s) as (s' & w & k & E & Hw); [|exact Hs|].
  - intros s0 I0 G0. destruct (Htot s0 (conj I0 G0)) as [[s1 k1] E1]. exists s1, k1. split; [exact E1|].
    intros Hk. pose proof (Hbody (mu s0) fuel s0 s1 k1 (conj I0 (conj G0 eq_refl)) E1) as Hp. destruct Hk as [-> | ->]; exact Hp.
  - rewrite E. destruct w; [destruct (Hw eq_refl) as [_ Hle]; lia|]. eexists; reflexivity.
Qed.
End Term.

(* ================= Part B: the Gregory rules ================= *)
Section Greg.
Variable A : arith.
Variable cfg : config.
Notation est := (est A).
Notation cand := (cand A).

Definition rank (a : sp) : nat :=
  match fst a with
  | Hopeful => 2
  | Elected => if pend_true (snd a) then 1 else 0
  | _ => 0
  end.
Definition musts (l : sts) : nat := fold_right (fun a acc => rank (snd a) + acc)%nat 0%nat l.
Definition mu (s : est) : nat := musts (stl A (cands s)).

Lemma rank_fwd a b : fwd a b -> (rank b <= rank a)%nat.
Proof.
  destruct a as [[] pa], b as [[] pb]; unfold fwd, rank; cbn [fst snd]; intros H; try contradiction;
    destruct (pend_true pa) eqn:Ea; destruct (pend_true pb) eqn:Eb; try lia; try (specialize (H eq_refl); discriminate).
Qed.
Lemma musts_fwd x y : FwdL x y -> (musts y <= musts x)%nat.
Proof. induction 1 as [|a b x y [_ Hab] _ IH]; cbn [musts fold_right]; [lia|]. pose proof (rank_fwd _ _ Hab). fold (musts x). fold (musts y). lia. Qed.
Lemma mu_R x s : R A x s -> (mu s <= mu x)%nat.
Proof. intros H. apply musts_fwd. exact (R_fwd A _ _ H). Qed.

Definition rk (c : cand) : nat := rank (cst c, cpend c).
Lemma mu_cands (l : list cand) : musts (stl A l) = fold_right (fun c acc => rk c + acc)%nat 0%nat l.
Proof. unfold stl. induction l as [|c l IH]; [reflexivity|]. cbn [map musts fold_right]. fold (musts (map (fun c => (cid c, (cst c, cpend c))) l)). rewrite IH. reflexivity. Qed.

Lemma mu_bound (s : est) : (mu s <= 2 * List.length (cands s))%nat.
Proof.
  unfold mu. rewrite mu_cands. induction (cands s) as [|c l IH]; cbn [fold_right List.length]; [lia|].
  assert (rk c <= 2)%nat by (unfold rk, rank; cbn [fst snd]; destruct (cst c); try lia; destruct (pend_true (cpend c)); lia). lia.
Qed.

(* an update that lowers the rank of the candidates it addresses, and strictly for one of them *)
Lemma mu_upd_lt i f (l : list cand) : (forall c, In c l -> cid c = i -> rk (f c) <= rk c)%nat ->
  (exists c, In c l /\ cid c = i /\ (rk (f c) < rk c)%nat) ->
  (musts (stl A (upd_cand A i f l)) < musts (stl A l))%nat.
Proof.
  rewrite !mu_cands. unfold upd_cand.
  assert (Hge: forall l', (forall c, In c l' -> cid c = i -> rk (f c) <= rk c)%nat ->
             (fold_right (fun c acc => rk c + acc) 0 (map (fun c => if Z.eqb (cid c) i then f c else c) l') <= fold_right (fun c acc => rk c + acc) 0 l')%nat).
  { induction l' as [|c l' IH]; intros Hle; cbn [map fold_right]; [lia|]. specialize (IH (fun c' Hc' => Hle c' (or_intror Hc'))).
    destruct (Z.eqb (cid c) i) eqn:E; [pose proof (Hle c (or_introl eq_refl) ltac:(lia))|]; lia. }
  induction l as [|c l IH]; intros Hle (c0 & Hin & Ei & Hlt); [contradiction|]. cbn [map fold_right].
  pose proof (Hge l (fun c' Hc' => Hle c' (or_intror Hc'))) as Hl.
  destruct Hin as [->|Hin].
  - rewrite (proj2 (Z.eqb_eq _ _) Ei). lia.
  - specialize (IH (fun c' Hc' => Hle c' (or_intror Hc')) (ex_intro _ c0 (conj Hin (conj Ei Hlt)))).
    destruct (Z.eqb (cid c) i) eqn:E; [pose proof (Hle c (or_introl eq_refl) ltac:(lia))|]; lia.
Qed.

Lemma mu_log t m (s : est) : mu (log_action A cfg t m s) = mu s.
Proof. unfold mu. unfold log_action. destruct (is_log t); [reflexivity|]. destruct (is_round t); reflexivity. Qed.

Lemma hopefuls_mu_pos (s : est) : hopefuls A s <> [] -> (1 <= mu s)%nat.
Proof.
  unfold mu. rewrite mu_cands. unfold hopefuls. induction (cands s) as [|c l IH]; cbn [filter fold_right]; [congruence|].
  destruct (in_state A Hopeful c) eqn:E; [|intros H; specialize (IH H); lia]. intros _.
  unfold rk, rank, in_state in *. cbn [fst]. destruct (cst c); cbn in E; try discriminate. lia.
Qed.
Lemma no_cont_mu_zero (s : est) : hopefuls A s = [] -> pendings A s = [] -> mu s = 0%nat.
Proof.
  unfold mu. rewrite mu_cands. unfold hopefuls, pendings. induction (cands s) as [|c l IH]; cbn [filter fold_right]; [reflexivity|].
  destruct (in_state A Hopeful c) eqn:E1; [discriminate|]. destruct (is_pending A c) eqn:E2; [discriminate|]. intros H1 H2. rewrite (IH H1 H2).
  unfold rk, rank, in_state, is_pending, in_state in *. cbn [fst snd]. destruct (cst c); cbn in *; try reflexivity; try discriminate.
  unfold pend_true. destruct (cpend c) as [[]|]; cbn in *; try discriminate; reflexivity.
Qed.


Lemma sticky_crash (s : est) e : crashed (set_crash s e) = true.
Proof. unfold crashed, set_crash. cbn [crash]. destruct (crash s); reflexivity. Qed.

Lemma mu_upd_st_lt (s : est) i (f : cand -> cand) : (forall c, In c (cands s) -> cid c = i -> rk (f c) <= rk c)%nat ->
  (exists c, In c (cands s) /\ cid c = i /\ (rk (f c) < rk c)%nat) -> (mu (upd A s i f) < mu s)%nat.
Proof. intros H1 H2. unfold mu, upd. cbn [cands set_cands]. apply mu_upd_lt; assumption. Qed.

(* ---- transferring a pending surplus takes the winner off the pending list ---- *)
Lemma break_tie_none fmt tied (s : est) : snd (break_tie A cfg fmt tied s) = None -> crashed (fst (break_tie A cfg fmt tied s)) = true.
Proof.
  unfold break_tie. destruct tied as [|c [|c' l]]; cbn [fst snd]; [intros _; apply sticky_crash|discriminate|].
  destruct (by_tie A (c :: c' :: l)); cbn [fst snd]; [intros _; apply sticky_crash|discriminate].
Qed.

Lemma unpend_lt i m (s : est) : crashed (unpend A cfg i m s) = false -> (mu (unpend A cfg i m s) < mu s)%nat.
Proof.
  unfold unpend. destruct (find_cand A (cands s) i) as [c|] eqn:Ef; [|rewrite sticky_crash; discriminate].
  destruct (is_pending A c) eqn:Ep; [|rewrite sticky_crash; discriminate]. intros _.
  assert (Hlt: (mu (upd A s i (fun c0 => with_st c0 Elected (Some false))) < mu s)%nat).
  { apply mu_upd_st_lt.
    - intros c0 _ _. unfold rk, rank. cbn [fst snd cst cpend with_st pend_true]. lia.
    - unfold find_cand in Ef. apply find_some in Ef. destruct Ef as [Hc Hi]. exists c. split; [exact Hc|split; [lia|]].
      unfold rk, rank, is_pending, in_state in *. cbn [fst snd cst cpend with_st pend_true].
      destruct (cst c); cbn in Ep; try discriminate. unfold pend_true. destruct (cpend c) as [[]|]; try discriminate. lia. }
  destruct m; [rewrite mu_log|]; exact Hlt.
Qed.

Definition bt_total (bt : list cand -> est -> est * option Z) : Prop :=
  forall tied s, snd (bt tied s) = None -> crashed (fst (bt tied s)) = true.
Lemma bt_simple_total reason : bt_total (bt_simple A cfg reason).
Proof. intros tied s. unfold bt_simple. apply break_tie_none. Qed.
Lemma scot_bt_total isd reason : bt_total (scot_break_tie A cfg isd reason).
Proof.
  intros tied s. unfold scot_break_tie. destruct tied as [|c [|c' l]]; cbn [fst snd]; [intros _; apply sticky_crash|discriminate|].
  destruct (scot_search A isd _ _); cbn [fst snd]; [discriminate|]. destruct (by_tie A (c :: c' :: l)); cbn [fst snd]; [intros _; apply sticky_crash|discriminate].
Qed.

Lemma transfer_high_lt bt rew (s : est) : bt_ok A bt -> bt_total bt -> ND A s ->
  crashed (transfer_high_surplus A cfg bt rew s) = false ->
  (mu (transfer_high_surplus A cfg bt rew s) < mu s)%nat.
Proof.
  intros Hok Htot Hnd. unfold transfer_high_surplus. destruct (max_vote A (pendings A s)) as [hv|]; [|rewrite sticky_crash; discriminate]. cbv zeta.
  set (highs := filter _ (pendings A s)).
  destruct (Hok highs s) as (_ & Ec & _). pose proof (Htot highs s) as Hn.
  destruct (bt highs s) as [s1 [h|]]; cbn [fst snd] in *; [|intros Hc; rewrite (Hn eq_refl) in Hc; discriminate].
  assert (E1: mu s1 = mu s) by (unfold mu; rewrite Ec; reflexivity).
  set (s2 := unpend A cfg h (Some "Transfer high surplus") s1).
  destruct (crashed s2) eqn:C2; [congruence|]. pose proof (unpend_lt h _ s1 C2) as H2. fold s2 in H2.
  set (s3 := for_ballots A _ _ s2).
  assert (R3: R A s2 s3) by (apply f_for_ballots; [intros; apply f_reweigh; assumption|apply R_refl]).
  destruct (crashed s3) eqn:C3; [congruence|]. intros _.
  rewrite mu_log. pose proof (mu_R _ _ (f_set_vote A s2 h (quota s3) s3 R3)). lia.
Qed.

(* ---- excluding the lowest candidate ---- *)
Lemma defeat_hopeful_lt i m (s : est) : ND A s -> (exists c, In c (hopefuls A s) /\ cid c = i) -> (mu (defeat A cfg i m s) < mu s)%nat.
Proof.
  intros Hnd (c & Hc & Ei). unfold hopefuls in Hc. apply filter_In in Hc. destruct Hc as [Hc Hh].
  unfold defeat. destruct (find_cand A (cands s) i) as [c0|] eqn:Ef.
  - rewrite mu_log. apply mu_upd_st_lt.
    + intros c1 _ _. unfold rk, rank. cbn [fst snd cst cpend with_st]. lia.
    + exists c. split; [exact Hc|split; [exact Ei|]]. unfold rk, rank, in_state in *. cbn [fst snd cst cpend with_st].
      destruct (cst c); cbn in Hh; try discriminate. lia.
  - exfalso. destruct (find_cand_in A (cands s) i) as [y Hy]; [rewrite <- Ei; apply in_map; exact Hc|congruence].
Qed.

Lemma defeat_after_tie_lt bt msg lv lows (s : est) : bt_ok A bt -> bt_total bt -> ND A s -> low_candidates A s = Some (lv, lows) ->
  crashed (match bt lows s with
           | (s1, None) => s1
           | (s1, Some l) => let s2 := defeat A cfg l msg s1 in if crashed s2 then s2 else transfer_defeated_one A cfg l s2
           end) = false ->
  (mu (match bt lows s with
       | (s1, None) => s1
       | (s1, Some l) => let s2 := defeat A cfg l msg s1 in if crashed s2 then s2 else transfer_defeated_one A cfg l s2
       end) < mu s)%nat.
Proof.
  intros Hok Htot Hnd El. destruct (Hok lows s) as (_ & Ec & Hin). pose proof (Htot lows s) as Hn.
  destruct (bt lows s) as [s1 [l|]]; cbn [fst snd] in *; [|intros Hc; rewrite (Hn eq_refl) in Hc; discriminate].
  destruct (Hin l eq_refl) as (t & Ht & Et).
  assert (Hnd1: ND A s1) by (unfold ND in *; rewrite Ec; exact Hnd).
  assert (Hh1: exists c, In c (hopefuls A s1) /\ cid c = l).
  { exists t. split; [|exact Et]. unfold hopefuls. rewrite Ec. exact (low_in_hopefuls A s lv lows El t Ht). }
  pose proof (defeat_hopeful_lt l msg s1 Hnd1 Hh1) as H2.
  assert (E1: mu s1 = mu s) by (unfold mu; rewrite Ec; reflexivity).
  cbv zeta. set (s2 := defeat A cfg l msg s1) in *.
  destruct (crashed s2) eqn:C2; [congruence|]. intros _.
  pose proof (mu_R _ _ (f_transfer_defeated_one A cfg _ l _ (R_refl A s2))). lia.
Qed.

Lemma wigm_defeat_lt (s : est) : ND A s -> cf_batch_zero cfg = false ->
  crashed (wigm_defeat A cfg s) = false -> (mu (wigm_defeat A cfg s) < mu s)%nat.
Proof.
  intros Hnd Hbz. unfold wigm_defeat. destruct (low_candidates A s) as [[lv lows]|] eqn:El; [|rewrite sticky_crash; discriminate].
  rewrite Hbz, andb_false_r. cbn [andb].
  apply (defeat_after_tie_lt _ "Defeat" lv lows s (bt_simple_ok A cfg "defeat") (bt_simple_total "defeat") Hnd El).
Qed.

Lemma defeat_low_lt bt msg (s : est) : bt_ok A bt -> bt_total bt -> ND A s ->
  crashed (defeat_low A cfg bt msg s) = false -> (mu (defeat_low A cfg bt msg s) < mu s)%nat.
Proof.
  intros Hok Htot Hnd. unfold defeat_low. destruct (low_candidates A s) as [[lv lows]|] eqn:El; [|rewrite sticky_crash; discriminate].
  apply (defeat_after_tie_lt bt msg lv lows s Hok Htot Hnd El).
Qed.

(* ---- wigm ---- *)
Notation T3 := (triple est (@crashed A)).
Definition NDm (n : nat) (s : est) : Prop := ND A s /\ (mu s <= n)%nat.
Definition NDlt (n : nat) (s : est) : Prop := ND A s /\ (mu s < n)%nat.

Lemma step_le (f : est -> est) n : (forall s, ND A s -> R A s (f s)) -> forall s, NDm n s -> NDm n (f s).
Proof. intros Hf s [Hnd Hm]. pose proof (Hf s Hnd) as Hr. split; [exact (nd_R A s (f s) Hr Hnd)|pose proof (mu_R _ _ Hr); lia]. Qed.

Lemma wigm_body_decreases n : cf_batch_zero cfg = false ->
  T3 (fun s => ND A s /\ guard_main A cfg s = true /\ mu s = n)
     (Do (new_round A cfg) ;;
      Do (elect_with_quota A cfg (has_quota_exact A) (fun _ _ => true) None (fun _ => true)) ;;
      Ite (fun s => nonempty (pendings A s))
        (Do (transfer_high_surplus A cfg (bt_simple A cfg "surplus") (rew_wigm A)))
        (Ite (fun s => nonempty (hopefuls A s)) (Do (wigm_defeat A cfg)) Skip))
     (NDlt n) (fun _ => True) (NDlt n).
Proof.
  intros Hbz.
  eapply t_seq with (M := fun s => NDm n s /\ (1 <= n)%nat).
  { apply t_do. intros s (Hnd & Hg & Hm). split; [apply step_le; [intros t Ht; apply f_new_round, R_refl|split; [exact Hnd|lia]]|].
    rewrite <- Hm. apply hopefuls_mu_pos. unfold guard_main in Hg. apply andb_prop in Hg. destruct Hg as [Hg1 Hg2].
    destruct (hopefuls A s); [|discriminate]. unfold nlen in Hg1. cbn in Hg1. lia. }
  eapply t_seq with (M := fun s => NDm n s /\ (1 <= n)%nat).
  { apply t_do. intros s [H Hn]. split; [|exact Hn]. apply step_le; [|exact H]. intros t Ht. apply f_elect_with_quota; [apply R_refl|exact Ht]. }
  apply t_ite.
  - apply t_do_nc. intros s [[[Hnd Hm] Hn] _] Hc. pose proof (transfer_high_lt _ (rew_wigm A) s (bt_simple_ok A cfg "surplus") (bt_simple_total "surplus") Hnd Hc) as Hlt.
    split; [|lia]. exact (nd_R A s _ (f_transfer_high A cfg s _ _ s (bt_simple_ok A cfg "surplus") (R_refl A s) Hnd) Hnd).
  - apply t_ite.
    + apply t_do_nc. intros s [[[[Hnd Hm] Hn] _] _] Hc. pose proof (wigm_defeat_lt s Hnd Hbz Hc) as Hlt.
      split; [|lia]. exact (nd_R A s _ (f_wigm_defeat A cfg s s (R_refl A s) Hnd) Hnd).
    + apply t_skip'. intros s [[[[Hnd Hm] Hn] Hp] Hh]. split; [exact Hnd|].
      rewrite no_cont_mu_zero; [lia| |]; [destruct (hopefuls A s); [reflexivity|discriminate Hh]|destruct (pendings A s); [reflexivity|discriminate Hp]].
Qed.

Theorem wigm_total fuel (s : est) : cf_batch_zero cfg = false -> ND A s ->
  (2 * List.length (cands s) < Pos.to_nat fuel)%nat -> exists r, exec (@crashed A) fuel (wigm A cfg) s = Some r.
Proof.
  intros Hbz Hnd Hf. unfold wigm. cbn [exec].
  set (s1 := log_action A cfg TBegin "Begin Count" (start_count A (wigm_quota A cfg) s)).
  assert (R1: R A s s1) by (apply f_log, f_start_count, R_refl).
  destruct (crashed s1); [eexists; reflexivity|].
  match goal with |- context[loopP est ?run ?g fuel s1] =>
    destruct (while_total est (@crashed A) (ND A) mu g
                (Do (new_round A cfg) ;;
                 Do (elect_with_quota A cfg (has_quota_exact A) (fun _ _ => true) None (fun _ => true)) ;;
                 Ite (fun s => nonempty (pendings A s))
                   (Do (transfer_high_surplus A cfg (bt_simple A cfg "surplus") (rew_wigm A)))
                   (Ite (fun s => nonempty (hopefuls A s)) (Do (wigm_defeat A cfg)) Skip)) fuel) with (s := s1) as [[s2 k2] E2] end.
  - cbn [loopfree]. tauto.
  - intros n. eapply t_conseq; [| | | |apply (wigm_body_decreases n Hbz)]; cbv beta; auto.
  - exact (nd_R A s s1 R1 Hnd).
  - pose proof (mu_R _ _ R1). pose proof (mu_bound s). lia.
  - cbn [exec] in E2. rewrite E2. destruct k2; try (eexists; reflexivity).
    destruct (crashed (unpend_all A cfg s2)); eexists; reflexivity.
Qed.


(* ---- scotland ---- *)
Lemma count_complete_nohop (s : est) : hopefuls A s = [] -> count_complete A cfg s = true.
Proof.
  intros H. unfold count_complete. rewrite H. unfold nlen. cbn [List.length Z.of_nat].
  destruct (seats_left A cfg s <=? 0)%Z eqn:E; [reflexivity|]. cbn [orb]. apply Z.leb_le. apply Z.leb_gt in E. lia.
Qed.

Definition scot_body : cmd est :=
  Do (elect_with_quota A cfg (ge_quota A) (fun _ _ => true) None (fun _ => true)) ;;
  Ite (count_complete A cfg) Break Skip ;;
  Do (new_round A cfg) ;;
  Do (fun s => set_surplus s (vsum A (map (cand_surplus A s) (pendings A s)))) ;;
  Ite (fun s => nonempty (pendings A s))
    (Do (transfer_high_surplus A cfg (scot_break_tie A cfg false "largest surplus") (rew_scot A)) ;; Continue)
    Skip ;;
  Ite (fun s => nonempty (hopefuls A s))
    (Do (defeat_low A cfg (scot_break_tie A cfg true "defeat low candidate") "Defeat low candidate"))
    Skip ;;
  Ite (count_complete A cfg) Break Skip.

Lemma scot_body_decreases n :
  T3 (fun s => ND A s /\ true = true /\ mu s = n) scot_body (NDlt n) (fun _ => True) (NDlt n).
Proof.
  unfold scot_body.
  eapply t_seq with (M := NDm n).
  { apply t_do. intros s (Hnd & _ & Hm). apply step_le; [intros t Ht; apply f_elect_with_quota; [apply R_refl|exact Ht]|split; [exact Hnd|lia]]. }
  eapply t_seq with (M := NDm n); [apply t_ite; [apply t_break'; auto|apply t_skip'; intros s [H _]; exact H]|].
  eapply t_seq with (M := NDm n); [apply t_do; intros s H; apply step_le; [intros t Ht; apply f_new_round, R_refl|exact H]|].
  eapply t_seq with (M := NDm n); [apply t_do; intros s H; apply (step_le (fun s => set_surplus s (vsum A (map (cand_surplus A s) (pendings A s)))) n); [intros t Ht; apply f_surplus, R_refl|exact H]|].
  eapply t_seq with (M := fun s => NDm n s /\ pendings A s = []).
  { apply t_ite.
    - eapply t_seq with (M := NDlt n); [|apply t_continue'; auto].
      apply t_do_nc. intros s [[Hnd Hm] _] Hc.
      pose proof (transfer_high_lt _ (rew_scot A) s (scot_bt_ok A cfg false "largest surplus") (scot_bt_total false "largest surplus") Hnd Hc) as Hlt.
      split; [|lia]. exact (nd_R A s _ (f_transfer_high A cfg s _ _ s (scot_bt_ok A cfg false "largest surplus") (R_refl A s) Hnd) Hnd).
    - apply t_skip'. intros s [H Hp]. split; [exact H|]. destruct (pendings A s); [reflexivity|discriminate Hp]. }
  eapply t_seq with (M := fun s => NDlt n s \/ (ND A s /\ hopefuls A s = [])).
  { apply t_ite.
    - apply t_do_nc. intros s [[[Hnd Hm] _] _] Hc. left.
      pose proof (defeat_low_lt _ "Defeat low candidate" s (scot_bt_ok A cfg true "defeat low candidate") (scot_bt_total true "defeat low candidate") Hnd Hc) as Hlt.
      split; [|lia]. exact (nd_R A s _ (f_defeat_low A cfg s _ _ s (scot_bt_ok A cfg true "defeat low candidate") (R_refl A s) Hnd) Hnd).
    - apply t_skip'. intros s [[[Hnd _] _] Hh]. right. split; [exact Hnd|]. destruct (hopefuls A s); [reflexivity|discriminate Hh]. }
  apply t_ite; [apply t_break'; auto|]. apply t_skip'. intros s [[H|[_ Hh]] Hc]; [exact H|].
  rewrite (count_complete_nohop s Hh) in Hc. discriminate.
Qed.

Theorem scotland_total fuel (s : est) : ND A s ->
  (2 * List.length (cands s) < Pos.to_nat fuel)%nat -> exists r, exec (@crashed A) fuel (scotland A cfg) s = Some r.
Proof.
  intros Hnd Hf. change (scotland A cfg) with
    (Do (fun s => log_action A cfg TBegin "Begin Count" (start_count A (Ok (integer_droop_quota A cfg)) s)) ;;
     While (fun _ => true) scot_body ;;
     Do (unpend_all A cfg) ;;
     Ite (fun s => nlen (hopefuls A s) <=? seats_left A cfg s)%Z
       (Do (fun s => fold_left (fun s c => elect A cfg (cid c) "Elect remaining candidates" false s) (hopefuls A s) s)) Skip ;;
     Do (fun s => fold_left (fun s c => defeat A cfg (cid c) "Defeat remaining candidates" s) (hopefuls A s) s)).
  cbn [exec].
  set (s1 := log_action A cfg TBegin "Begin Count" (start_count A (Ok (integer_droop_quota A cfg)) s)).
  assert (R1: R A s s1) by (apply f_log, f_start_count, R_refl).
  destruct (crashed s1); [eexists; reflexivity|].
  destruct (while_total est (@crashed A) (ND A) mu (fun _ => true) scot_body fuel) with (s := s1) as [[s2 k2] E2].
  - unfold scot_body. cbn [loopfree]. tauto.
  - intros n. eapply t_conseq; [| | | |apply (scot_body_decreases n)]; cbv beta; auto.
  - exact (nd_R A s s1 R1 Hnd).
  - pose proof (mu_R _ _ R1). pose proof (mu_bound s). lia.
  - cbn [exec] in E2. rewrite E2. destruct k2; try (eexists; reflexivity).
    destruct (crashed (unpend_all A cfg s2)); [eexists; reflexivity|].
    match goal with |- context[if ?b then _ else _] => destruct b end.
    + match goal with |- context[crashed ?t] => destruct (crashed t) end; eexists; reflexivity.
    + eexists; reflexivity.
Qed.


(* ---- sure-loser batches (wigm-prf-batch) ---- *)
Lemma hop_exists (s : est) i : ND A s -> Sat A s i isH -> In i (map (@cid A) (cands s)) -> exists c, In c (hopefuls A s) /\ cid c = i.
Proof.
  intros Hnd HS Hin. apply in_map_iff in Hin. destruct Hin as (c & Ec & Hc). exists c. split; [|exact Ec].
  unfold hopefuls. apply filter_In. split; [exact Hc|]. specialize (HS c Hc Ec). unfold isH in HS. cbn in HS. unfold in_state. rewrite HS. reflexivity.
Qed.

Lemma fold_defeat_R (g : cand -> string) (L : list cand) : forall s : est, (forall c, In c L -> Sat A s (cid c) isHD) ->
  R A s (fold_left (fun s c => defeat A cfg (cid c) (g c) s) L s).
Proof.
  induction L as [|c L IH]; intros s Hall; cbn [fold_left]; [apply R_refl|].
  eapply R_trans; [apply r_defeat; [apply R_refl|apply Hall; left; reflexivity]|].
  apply IH. intros c' Hc'. apply sat_defeat_HD. apply Hall. right; exact Hc'.
Qed.

Lemma fold_defeat_lt_g (g : cand -> string) (L : list cand) : forall s : est, ND A s -> (forall c, In c L -> Sat A s (cid c) isHD) ->
  (exists c, In c L /\ Sat A s (cid c) isH /\ In (cid c) (map (@cid A) (cands s))) ->
  (mu (fold_left (fun s c => defeat A cfg (cid c) (g c) s) L s) < mu s)%nat.
Proof.
  induction L as [|c L IH]; intros s Hnd Hall (c0 & Hin & Hs0 & Hid); [contradiction|]. cbn [fold_left].
  assert (Hstep: R A s (defeat A cfg (cid c) (g c) s)) by (apply r_defeat; [apply R_refl|apply Hall; left; reflexivity]).
  assert (Hnd1: ND A (defeat A cfg (cid c) (g c) s)) by exact (nd_R A _ _ Hstep Hnd).
  assert (Hall1: forall c', In c' L -> Sat A (defeat A cfg (cid c) (g c) s) (cid c') isHD) by (intros c' Hc'; apply sat_defeat_HD; apply Hall; right; exact Hc').
  pose proof (fold_defeat_R g L _ Hall1) as Hrest.
  destruct (Z.eq_dec (cid c) (cid c0)) as [E|E].
  - assert (Hex: exists c1, In c1 (hopefuls A s) /\ cid c1 = cid c) by (rewrite E; exact (hop_exists s (cid c0) Hnd Hs0 Hid)).
    pose proof (defeat_hopeful_lt (cid c) (g c) s Hnd Hex) as Hlt. pose proof (mu_R _ _ Hrest). lia.
  - destruct Hin as [->|Hin]; [congruence|].
    assert (Hlt: (mu (fold_left (fun s c => defeat A cfg (cid c) (g c) s) L (defeat A cfg (cid c) (g c) s)) < mu (defeat A cfg (cid c) (g c) s))%nat).
    { apply IH; [exact Hnd1|exact Hall1|]. exists c0. split; [exact Hin|split].
      - apply sat_defeat_other; [congruence|exact Hs0].
      - rewrite <- (R_cids A _ _ Hstep). exact Hid. }
    pose proof (mu_R _ _ Hstep). lia.
Qed.
Lemma fold_defeat_lt msg (L : list cand) : forall s : est, ND A s -> (forall c, In c L -> Sat A s (cid c) isHD) ->
  (exists c, In c L /\ Sat A s (cid c) isH /\ In (cid c) (map (@cid A) (cands s))) ->
  (mu (fold_left (fun s c => defeat A cfg (cid c) msg s) L s) < mu s)%nat.
Proof. exact (fold_defeat_lt_g (fun _ => msg) L). Qed.


Definition BatchE (s : est) : Prop := lv_batch s <> [] -> exists c, In c (hopefuls A s) /\ In (cid c) (lv_batch s).

Lemma batch_order_lt msg (s : est) : ND A s -> BatchH A s -> BatchE s -> lv_batch s <> [] ->
  (mu (defeat_batch_in_ballot_order A cfg msg s) < mu s)%nat.
Proof.
  intros Hnd HB HE Hne. unfold defeat_batch_in_ballot_order. apply fold_defeat_lt; [exact Hnd| |].
  - intros c Hc. unfold by_order in Hc. apply py_sorted_in in Hc. destruct (cands_of_in A s _ c Hc) as [_ Hi].
    intros c' Hc' E. left. exact (HB (cid c) Hi c' Hc' E).
  - destruct (HE Hne) as (c0 & Hc0 & Hi0). unfold hopefuls in Hc0. apply filter_In in Hc0. destruct Hc0 as [Hc0 _].
    destruct (find_cand_in A (cands s) (cid c0)) as [c1 Ef]; [apply in_map; exact Hc0|].
    assert (E1: cid c1 = cid c0) by (unfold find_cand in Ef; apply find_some in Ef; destruct Ef as [_ Ee]; lia).
    exists c1. split; [|split].
    + unfold by_order. apply py_sorted_in. unfold cands_of. apply in_flat_map. exists (cid c0). split; [exact Hi0|]. rewrite Ef. left; reflexivity.
    + rewrite E1. exact (HB (cid c0) Hi0).
    + rewrite E1. apply in_map. exact Hc0.
Qed.

Lemma prf_find_batch_E (s : est) : BatchE (prf_find_batch A cfg s).
Proof.
  unfold BatchE, prf_find_batch. cbn [lv_batch set_batch hopefuls cands]. destruct (cf_batch cfg); [|intros H; contradiction].
  pose proof (batch_defeat_hopeful A cfg (pending_surplus A s) s) as HF. rewrite Forall_forall in HF.
  destruct (batch_defeat A cfg (pending_surplus A s) s) as [|c l]; [intros H; contradiction|]. intros _.
  exists c. split; [apply (HF c); left; reflexivity|left; reflexivity].
Qed.

(* ---- wigm-prf, wigm-prf-batch ---- *)
Definition prf_body : cmd est :=
  Do (new_round A cfg) ;;
  Do (elect_with_quota A cfg (ge_quota A) (fun _ _ => true) None (fun _ => true)) ;;
  Do (prf_find_batch A cfg) ;;
  Ite (fun s => nonempty (lv_batch s))
    (Do (defeat_batch_in_ballot_order A cfg "Defeat sure loser") ;;
     Ite (fun s => nlen (hopefuls A s) <=? seats_left A cfg s)%Z Break Skip ;;
     Do (transfer_batch A cfg (is_hopeful A)) ;;
     Continue)
    Skip ;;
  Ite (fun s => nonempty (pendings A s))
    (Do (transfer_high_surplus A cfg (bt_simple A cfg "surplus") (rew_wigm A)))
    (Ite (fun s => nonempty (hopefuls A s)) (Do (defeat_low A cfg (bt_simple A cfg "defeat") "Defeat")) Skip).

Lemma prf_body_decreases n :
  T3 (fun s => ND A s /\ guard_main A cfg s = true /\ mu s = n) prf_body (NDlt n) (fun _ => True) (NDlt n).
Proof.
  unfold prf_body.
  eapply t_seq with (M := fun s => NDm n s /\ (1 <= n)%nat).
  { apply t_do. intros s (Hnd & Hg & Hm). split; [apply step_le; [intros t Ht; apply f_new_round, R_refl|split; [exact Hnd|lia]]|].
    rewrite <- Hm. apply hopefuls_mu_pos. unfold guard_main in Hg. apply andb_prop in Hg. destruct Hg as [Hg1 Hg2].
    destruct (hopefuls A s); [|discriminate]. unfold nlen in Hg1. cbn in Hg1. lia. }
  eapply t_seq with (M := fun s => NDm n s /\ (1 <= n)%nat).
  { apply t_do. intros s [H Hn]. split; [|exact Hn]. apply step_le; [|exact H]. intros t Ht. apply f_elect_with_quota; [apply R_refl|exact Ht]. }
  eapply t_seq with (M := fun s => (NDm n s /\ (1 <= n)%nat) /\ BatchH A s /\ BatchE s).
  { apply t_do. intros s [[Hnd Hm] Hn]. split; [split; [|exact Hn]|split; [apply prf_find_batch_H; exact Hnd|apply prf_find_batch_E]].
    split; [exact Hnd|exact Hm]. }
  eapply t_seq with (M := fun s => NDm n s /\ (1 <= n)%nat).
  { apply t_ite.
    - eapply t_seq with (M := NDlt n).
      { apply t_do. intros s [[[[Hnd Hm] Hn] [HB HE]] Hg].
        assert (Hne: lv_batch s <> []) by (destruct (lv_batch s); [discriminate Hg|discriminate]).
        pose proof (batch_order_lt "Defeat sure loser" s Hnd HB HE Hne) as Hlt.
        split; [|lia]. exact (nd_R A s _ (f_defeat_batch_order A cfg s _ s (R_refl A s) HB) Hnd). }
      eapply t_seq with (M := NDlt n); [apply t_ite; [apply t_break'; auto|apply t_skip'; intros s [H _]; exact H]|].
      eapply t_seq with (M := NDlt n); [|apply t_continue'; auto].
      apply t_do. intros s [Hnd Hm]. pose proof (f_transfer_batch A cfg s (is_hopeful A) s (R_refl A s)) as Hr.
      split; [exact (nd_R A s _ Hr Hnd)|pose proof (mu_R _ _ Hr); lia].
    - apply t_skip'. intros s [[H _] _]. exact H. }
  apply t_ite.
  - apply t_do_nc. intros s [[[Hnd Hm] Hn] _] Hc.
    pose proof (transfer_high_lt _ (rew_wigm A) s (bt_simple_ok A cfg "surplus") (bt_simple_total "surplus") Hnd Hc) as Hlt.
    split; [|lia]. exact (nd_R A s _ (f_transfer_high A cfg s _ _ s (bt_simple_ok A cfg "surplus") (R_refl A s) Hnd) Hnd).
  - apply t_ite.
    + apply t_do_nc. intros s [[[[Hnd Hm] Hn] _] _] Hc.
      pose proof (defeat_low_lt _ "Defeat" s (bt_simple_ok A cfg "defeat") (bt_simple_total "defeat") Hnd Hc) as Hlt.
      split; [|lia]. exact (nd_R A s _ (f_defeat_low A cfg s _ _ s (bt_simple_ok A cfg "defeat") (R_refl A s) Hnd) Hnd).
    + apply t_skip'. intros s [[[[Hnd Hm] Hn] Hp] Hh]. split; [exact Hnd|].
      rewrite no_cont_mu_zero; [lia| |]; [destruct (hopefuls A s); [reflexivity|discriminate Hh]|destruct (pendings A s); [reflexivity|discriminate Hp]].
Qed.

Theorem wigm_prf_total fuel (s : est) : ND A s ->
  (2 * List.length (cands s) < Pos.to_nat fuel)%nat -> exists r, exec (@crashed A) fuel (wigm_prf A cfg) s = Some r.
Proof.
  intros Hnd Hf. change (wigm_prf A cfg) with
    (Do (fun s => log_action A cfg TBegin "Begin Count" (start_count A (droop_quota_eps A cfg) s)) ;;
     While (guard_main A cfg) prf_body ;;
     Do (unpend_all A cfg) ;;
     Do (elect_or_defeat_remaining A cfg)).
  cbn [exec].
  set (s1 := log_action A cfg TBegin "Begin Count" (start_count A (droop_quota_eps A cfg) s)).
  assert (R1: R A s s1) by (apply f_log, f_start_count, R_refl).
  destruct (crashed s1); [eexists; reflexivity|].
  destruct (while_total est (@crashed A) (ND A) mu (guard_main A cfg) prf_body fuel) with (s := s1) as [[s2 k2] E2].
  - unfold prf_body. cbn [loopfree]. tauto.
  - intros n. eapply t_conseq; [| | | |apply (prf_body_decreases n)]; cbv beta; auto.
  - exact (nd_R A s s1 R1 Hnd).
  - pose proof (mu_R _ _ R1). pose proof (mu_bound s). lia.
  - cbn [exec] in E2. rewrite E2. destruct k2; try (eexists; reflexivity).
    destruct (crashed (unpend_all A cfg s2)); eexists; reflexivity.
Qed.


(* the zero-vote batch of wigm (defeat_batch=zero): needs the arithmetic's == to be reflexive on the lowest tally *)
Lemma min_vote_in (l : list cand) v : min_vote A l = Some v -> exists c, In c l /\ cvote c = v.
Proof.
  unfold min_vote. destruct l as [|c l]; [discriminate|]. intros E. inversion E as [Ev]. clear E.
  assert (G: forall (t : list cand) (m : T A), (exists c0, In c0 (c :: l) /\ cvote c0 = m) -> (forall y, In y t -> In y (c :: l)) ->
             exists c0, In c0 (c :: l) /\ cvote c0 = fold_left (fun m y => if ltv A (cvote y) m then cvote y else m) t m).
  { induction t as [|y t IH]; intros m Hm Ht; cbn [fold_left]; [exact Hm|]. apply IH; [|intros z Hz; apply Ht; right; exact Hz].
    destruct (ltv A (cvote y) m); [exists y; split; [apply Ht; left; reflexivity|reflexivity]|exact Hm]. }
  apply G; [exists c; split; [left; reflexivity|reflexivity]|intros y Hy; right; exact Hy].
Qed.

Lemma wigm_defeat_lt' (s : est) : (forall x : T A, eqv A x x = true) -> ND A s ->
  crashed (wigm_defeat A cfg s) = false -> (mu (wigm_defeat A cfg s) < mu s)%nat.
Proof.
  intros Heq Hnd. unfold wigm_defeat. destruct (low_candidates A s) as [[lv lows]|] eqn:El; [|rewrite sticky_crash; discriminate].
  destruct (eqv A lv (V0 A) && cf_batch_zero cfg && (seats_left A cfg s <=? nlen (hopefuls A s) - nlen lows)%Z).
  - intros _.
    assert (Hlow: forall c, In c lows -> In c (hopefuls A s)) by exact (low_in_hopefuls A s lv lows El).
    assert (Hne: exists c, In c lows).
    { unfold low_candidates in El. destruct (min_vote A (hopefuls A s)) as [mv|] eqn:Em; [|discriminate]. inversion El; subst lv lows.
      destruct (min_vote_in _ _ Em) as (c & Hc & Ev). exists c. apply filter_In. split; [exact Hc|rewrite Ev; apply Heq]. }
    set (s1 := fold_left (fun s c => defeat A cfg (cid c) "Defeat batch(zero)" s) lows s).
    assert (H1: (mu s1 < mu s)%nat).
    { unfold s1. apply fold_defeat_lt; [exact Hnd| |].
      - intros c Hc c' Hc' E. left. exact (hopeful_sat A s c Hnd (Hlow c Hc) c' Hc' E).
      - destruct Hne as (c & Hc). exists c. split; [exact Hc|split].
        + exact (hopeful_sat A s c Hnd (Hlow c Hc)).
        + pose proof (Hlow c Hc) as Hh. unfold hopefuls in Hh. apply filter_In in Hh. apply in_map. exact (proj1 Hh). }
    assert (H2: R A s1 (fold_left (fun s c => transfer_defeated_one A cfg (cid c) s) lows s1)).
    { apply f_fold0; [intros; apply f_transfer_defeated_one; assumption|apply R_refl]. }
    pose proof (mu_R _ _ H2). lia.
  - apply (defeat_after_tie_lt _ "Defeat" lv lows s (bt_simple_ok A cfg "defeat") (bt_simple_total "defeat") Hnd El).
Qed.

Lemma wigm_body_decreases' n : (forall x : T A, eqv A x x = true) ->
  T3 (fun s => ND A s /\ guard_main A cfg s = true /\ mu s = n)
     (Do (new_round A cfg) ;;
      Do (elect_with_quota A cfg (has_quota_exact A) (fun _ _ => true) None (fun _ => true)) ;;
      Ite (fun s => nonempty (pendings A s))
        (Do (transfer_high_surplus A cfg (bt_simple A cfg "surplus") (rew_wigm A)))
        (Ite (fun s => nonempty (hopefuls A s)) (Do (wigm_defeat A cfg)) Skip))
     (NDlt n) (fun _ => True) (NDlt n).
Proof.
  intros Heq.
  eapply t_seq with (M := fun s => NDm n s /\ (1 <= n)%nat).
  { apply t_do. intros s (Hnd & Hg & Hm). split; [apply step_le; [intros t Ht; apply f_new_round, R_refl|split; [exact Hnd|lia]]|].
    rewrite <- Hm. apply hopefuls_mu_pos. unfold guard_main in Hg. apply andb_prop in Hg. destruct Hg as [Hg1 Hg2].
    destruct (hopefuls A s); [|discriminate]. unfold nlen in Hg1. cbn in Hg1. lia. }
  eapply t_seq with (M := fun s => NDm n s /\ (1 <= n)%nat).
  { apply t_do. intros s [H Hn]. split; [|exact Hn]. apply step_le; [|exact H]. intros t Ht. apply f_elect_with_quota; [apply R_refl|exact Ht]. }
  apply t_ite.
  - apply t_do_nc. intros s [[[Hnd Hm] Hn] _] Hc. pose proof (transfer_high_lt _ (rew_wigm A) s (bt_simple_ok A cfg "surplus") (bt_simple_total "surplus") Hnd Hc) as Hlt.
    split; [|lia]. exact (nd_R A s _ (f_transfer_high A cfg s _ _ s (bt_simple_ok A cfg "surplus") (R_refl A s) Hnd) Hnd).
  - apply t_ite.
    + apply t_do_nc. intros s [[[[Hnd Hm] Hn] _] _] Hc. pose proof (wigm_defeat_lt' s Heq Hnd Hc) as Hlt.
      split; [|lia]. exact (nd_R A s _ (f_wigm_defeat A cfg s s (R_refl A s) Hnd) Hnd).
    + apply t_skip'. intros s [[[[Hnd Hm] Hn] Hp] Hh]. split; [exact Hnd|].
      rewrite no_cont_mu_zero; [lia| |]; [destruct (hopefuls A s); [reflexivity|discriminate Hh]|destruct (pendings A s); [reflexivity|discriminate Hp]].
Qed.

Theorem wigm_total' fuel (s : est) : (forall x : T A, eqv A x x = true) -> ND A s ->
  (2 * List.length (cands s) < Pos.to_nat fuel)%nat -> exists r, exec (@crashed A) fuel (wigm A cfg) s = Some r.
Proof.
  intros Heq Hnd Hf. unfold wigm. cbn [exec].
  set (s1 := log_action A cfg TBegin "Begin Count" (start_count A (wigm_quota A cfg) s)).
  assert (R1: R A s s1) by (apply f_log, f_start_count, R_refl).
  destruct (crashed s1); [eexists; reflexivity|].
  match goal with |- context[loopP est ?run ?g fuel s1] =>
    destruct (while_total est (@crashed A) (ND A) mu g
                (Do (new_round A cfg) ;;
                 Do (elect_with_quota A cfg (has_quota_exact A) (fun _ _ => true) None (fun _ => true)) ;;
                 Ite (fun s => nonempty (pendings A s))
                   (Do (transfer_high_surplus A cfg (bt_simple A cfg "surplus") (rew_wigm A)))
                   (Ite (fun s => nonempty (hopefuls A s)) (Do (wigm_defeat A cfg)) Skip)) fuel) with (s := s1) as [[s2 k2] E2] end.
  - cbn [loopfree]. tauto.
  - intros n. eapply t_conseq; [| | | |apply (wigm_body_decreases' n Heq)]; cbv beta; auto.
  - exact (nd_R A s s1 R1 Hnd).
  - pose proof (mu_R _ _ R1). pose proof (mu_bound s). lia.
  - cbn [exec] in E2. rewrite E2. destruct k2; try (eexists; reflexivity).
    destruct (crashed (unpend_all A cfg s2)); eexists; reflexivity.
Qed.

(* ---- cfer, cfer-batch ---- *)
Lemma cfer_find_batch_E (s : est) : BatchE (cfer_find_batch A cfg s).
Proof.
  unfold BatchE, cfer_find_batch. cbn [lv_batch set_batch hopefuls cands]. destruct (cf_batch cfg); [|intros H; contradiction].
  pose proof (cfer_batch_hopeful A cfg s) as HF. rewrite Forall_forall in HF.
  destruct (cfer_batch A cfg s) as [|c l]; [intros H; contradiction|]. intros _.
  exists c. split; [apply (HF c); left; reflexivity|left; reflexivity].
Qed.

Definition tall_step (s : est) (c : cand) : est :=
  if crashed s then s else
  let h := cid c in
  let s2 := unpend A cfg h (Some "Transfer surplus") s in
  if crashed s2 then s2 else
  let surp := sub A (cvote_of A s2 h) (quota s2) in
  let s3 := for_ballots A (reweigh_transfer A (is_hopeful A) (rew_wigm A) h surp) (top_is A h) s2 in
  if crashed s3 then s3 else
  let s4 := set_vote A h (quota s3) s3 in
  log_action A cfg TTransfer ("Surplus transferred: " ++ cname_of A s4 h ++ " (" ++ str A surp ++ ")") s4.

Lemma tall_step_R (t : est) c : ND A t -> R A t (tall_step t c).
Proof.
  intros Hnd. unfold tall_step. destruct (crashed t); [apply R_refl|]. cbv zeta.
  assert (P2: R A t (unpend A cfg (cid c) (Some "Transfer surplus") t)) by (apply f_unpend; [apply R_refl|exact Hnd]).
  destruct (crashed (unpend A cfg (cid c) _ t)); [exact P2|].
  match goal with |- context[for_ballots A ?f ?sel ?st] =>
    assert (P3: R A t (for_ballots A f sel st)) by (apply f_for_ballots; [intros; apply f_reweigh; assumption|exact P2]) end.
  match goal with |- context[crashed ?st] => destruct (crashed st) end; [exact P3|].
  apply f_log, f_set_vote. exact P3.
Qed.
Lemma tall_fold_R (L : list cand) : forall t : est, ND A t -> R A t (fold_left tall_step L t).
Proof.
  induction L as [|c L IH]; intros t Hnd; cbn [fold_left]; [apply R_refl|].
  pose proof (tall_step_R t c Hnd) as H1. eapply R_trans; [exact H1|]. apply IH. exact (nd_R A _ _ H1 Hnd).
Qed.
Lemma tall_fold_crashed (L : list cand) : forall t : est, crashed t = true -> fold_left tall_step L t = t.
Proof. induction L as [|c L IH]; intros t Hc; cbn [fold_left]; [reflexivity|]. unfold tall_step at 2. rewrite Hc. apply IH. exact Hc. Qed.

Lemma tall_step_lt (t : est) c : crashed (tall_step t c) = false -> (mu (tall_step t c) < mu t)%nat.
Proof.
  unfold tall_step. destruct (crashed t) eqn:Ct; [congruence|]. cbv zeta.
  set (s2 := unpend A cfg (cid c) (Some "Transfer surplus") t).
  destruct (crashed s2) eqn:C2; [congruence|]. pose proof (unpend_lt (cid c) _ t C2) as H2. fold s2 in H2.
  set (s3 := for_ballots A _ _ s2).
  assert (R3: R A s2 s3) by (apply f_for_ballots; [intros; apply f_reweigh; assumption|apply R_refl]).
  destruct (crashed s3) eqn:C3; [congruence|]. intros _.
  rewrite mu_log. pose proof (mu_R _ _ (f_set_vote A s2 (cid c) (quota s3) s3 R3)). lia.
Qed.

Lemma cfer_tall_lt (s : est) : ND A s -> pendings A s <> [] ->
  crashed (cfer_transfer_all_pending A cfg s) = false -> (mu (cfer_transfer_all_pending A cfg s) < mu s)%nat.
Proof.
  intros Hnd Hne. unfold cfer_transfer_all_pending.
  change (fold_left _ (pendings A s) s) with (fold_left tall_step (pendings A s) s).
  destruct (pendings A s) as [|c L]; [congruence|]. cbn [fold_left]. intros Hc.
  destruct (crashed (tall_step s c)) eqn:C1; [rewrite (tall_fold_crashed L _ C1) in Hc; congruence|].
  pose proof (tall_step_lt s c C1) as H1.
  pose proof (mu_R _ _ (tall_fold_R L _ (nd_R A _ _ (tall_step_R s c Hnd) Hnd))). lia.
Qed.

Lemma cfer_defeat_low_lt (s : est) : ND A s -> crashed (cfer_defeat_low A cfg s) = false -> (mu (cfer_defeat_low A cfg s) < mu s)%nat.
Proof.
  intros Hnd. unfold cfer_defeat_low. destruct (low_candidates A s) as [[lv lows]|] eqn:El; [|rewrite sticky_crash; discriminate].
  destruct (bt_simple_ok A cfg "defeat" lows s) as (_ & Ec & Hin). pose proof (bt_simple_total "defeat" lows s) as Hn.
  destruct (bt_simple A cfg "defeat" lows s) as [s1 [l|]]; cbn [fst snd] in *; [|intros Hc; rewrite (Hn eq_refl) in Hc; discriminate].
  intros _. destruct (Hin l eq_refl) as (t & Ht & Et).
  assert (Hnd1: ND A s1) by (unfold ND in *; rewrite Ec; exact Hnd).
  assert (Hh1: exists c, In c (hopefuls A s1) /\ cid c = l).
  { exists t. split; [|exact Et]. unfold hopefuls. rewrite Ec. exact (low_in_hopefuls A s lv lows El t Ht). }
  pose proof (defeat_hopeful_lt l "Defeat" s1 Hnd1 Hh1) as H2.
  assert (E1: mu s1 = mu s) by (unfold mu; rewrite Ec; reflexivity).
  change (mu (set_batch (defeat A cfg l "Defeat" s1) [l])) with (mu (defeat A cfg l "Defeat" s1)). lia.
Qed.

Definition cfer_body : cmd est :=
  Do (new_round A cfg) ;;
  Ite (fun s => (round s =? 1)%Z && (nlen (hopefuls A s) <=? cf_nseats cfg)%Z)
    (Do (fun s => fold_left (fun s c => elect A cfg (cid c) "Elect all" false s) (hopefuls A s) s) ;; Break)
    Skip ;;
  Do (elect_with_quota A cfg (ge_quota A) (gt_quota A) None (fun _ => true)) ;;
  Ite (fun s => (cf_nseats cfg <=? nlen (electeds A s))%Z)
    (Do (unpend_all A cfg) ;;
     Do (fun s => fold_left (fun s c => defeat A cfg (cid c) "Defeat remaining" s) (hopefuls A s) s) ;;
     Break)
    Skip ;;
  Do (cfer_find_batch A cfg) ;;
  Ite (fun s => nonempty (lv_batch s))
    (Do (defeat_batch_in_ballot_order A cfg "Defeat batch"))
    (Ite (fun s => nonempty (pendings A s))
       (Do (cfer_transfer_all_pending A cfg))
       (Do (cfer_defeat_low A cfg))) ;;
  Ite (fun s => nonempty (lv_batch s))
    (Ite (fun s => (nlen (hopefuls A s) + nlen (electeds A s) <=? cf_nseats cfg)%Z)
       (Do (fun s => fold_left (fun s c => elect A cfg (cid c) "Elect pending" false s) (pendings A s) s) ;;
        Do (fun s => fold_left (fun s c => elect A cfg (cid c) "Elect remaining" false s) (hopefuls A s) s) ;;
        Break)
       Skip ;;
     Do (transfer_batch A cfg (is_hopeful A)))
    Skip.

Lemma do_break (P : est -> Prop) f (Qn Qc : est -> Prop) : T3 P (Do f ;; Break) Qn (fun _ => True) Qc.
Proof. eapply t_seq with (M := fun _ => True); [apply t_do; auto|apply t_break'; auto]. Qed.

Lemma cfer_body_decreases n :
  T3 (fun s => ND A s /\ true = true /\ mu s = n) cfer_body (NDlt n) (fun _ => True) (NDlt n).
Proof.
  unfold cfer_body.
  eapply t_seq with (M := NDm n).
  { apply t_do. intros s (Hnd & _ & Hm). apply step_le; [intros t Ht; apply f_new_round, R_refl|split; [exact Hnd|lia]]. }
  eapply t_seq with (M := NDm n); [apply t_ite; [apply do_break|apply t_skip'; intros s [H _]; exact H]|].
  eapply t_seq with (M := NDm n).
  { apply t_do. intros s H. apply step_le; [|exact H]. intros t Ht. apply f_elect_with_quota; [apply R_refl|exact Ht]. }
  eapply t_seq with (M := NDm n).
  { apply t_ite; [|apply t_skip'; intros s [H _]; exact H].
    eapply t_seq with (M := fun _ => True); [apply t_do; auto|apply do_break]. }
  eapply t_seq with (M := fun s => NDm n s /\ BatchH A s /\ BatchE s).
  { apply t_do. intros s [Hnd Hm]. split; [split; [exact Hnd|exact Hm]|split; [apply cfer_find_batch_H; exact Hnd|apply cfer_find_batch_E]]. }
  eapply t_seq with (M := NDlt n).
  { apply t_ite.
    - apply t_do. intros s [[[Hnd Hm] [HB HE]] Hg].
      assert (Hne: lv_batch s <> []) by (destruct (lv_batch s); [discriminate Hg|discriminate]).
      pose proof (batch_order_lt "Defeat batch" s Hnd HB HE Hne) as Hlt.
      split; [|lia]. exact (nd_R A s _ (f_defeat_batch_order A cfg s _ s (R_refl A s) HB) Hnd).
    - apply t_ite.
      + apply t_do_nc. intros s [[[[Hnd Hm] _] _] Hp] Hc.
        assert (Hne: pendings A s <> []) by (destruct (pendings A s); [discriminate Hp|discriminate]).
        pose proof (cfer_tall_lt s Hnd Hne Hc) as Hlt. split; [|lia].
        exact (nd_R A s _ (f_cfer_transfer_all A cfg s s (R_refl A s) Hnd) Hnd).
      + apply t_do_nc. intros s [[[[Hnd Hm] _] _] _] Hc. pose proof (cfer_defeat_low_lt s Hnd Hc) as Hlt. split; [|lia].
        exact (nd_R A s _ (f_cfer_defeat_low A cfg s s (R_refl A s) Hnd) Hnd). }
  apply t_ite; [|apply t_skip'; intros s [H _]; exact H].
  eapply t_seq with (M := NDlt n).
  { apply t_ite; [|apply t_skip'; intros s [[H _] _]; exact H].
    eapply t_seq with (M := fun _ => True); [apply t_do; auto|apply do_break]. }
  apply t_do. intros s [Hnd Hm]. pose proof (f_transfer_batch A cfg s (is_hopeful A) s (R_refl A s)) as Hr.
  split; [exact (nd_R A s _ Hr Hnd)|pose proof (mu_R _ _ Hr); lia].
Qed.

Theorem cfer_total fuel (s : est) : ND A s ->
  (2 * List.length (cands s) < Pos.to_nat fuel)%nat -> exists r, exec (@crashed A) fuel (cfer A cfg) s = Some r.
Proof.
  intros Hnd Hf. change (cfer A cfg) with
    (Do (fun s => log_action A cfg TBegin "Begin Count" (start_count A (droop_quota_eps A cfg) s)) ;;
     While (fun _ => true) cfer_body).
  cbn [exec].
  set (s1 := log_action A cfg TBegin "Begin Count" (start_count A (droop_quota_eps A cfg) s)).
  assert (R1: R A s s1) by (apply f_log, f_start_count, R_refl).
  destruct (crashed s1); [eexists; reflexivity|].
  destruct (while_total est (@crashed A) (ND A) mu (fun _ => true) cfer_body fuel) with (s := s1) as [[s2 k2] E2].
  - unfold cfer_body. cbn [loopfree]. tauto.
  - intros n. eapply t_conseq; [| | | |apply (cfer_body_decreases n)]; cbv beta; auto.
  - exact (nd_R A s s1 R1 Hnd).
  - pose proof (mu_R _ _ R1). pose proof (mu_bound s). lia.
  - cbn [exec] in E2. rewrite E2. eexists; reflexivity.
Qed.


(* ---- mpls ---- *)
Lemma mpls_find_defeats_E (s : est) : crashed (mpls_find_defeats A cfg s) = false -> BatchE (mpls_find_defeats A cfg s).
Proof.
  unfold mpls_find_defeats. cbv zeta.
  match goal with |- context[match ?u with Ok _ => _ | Raise _ => _ end] => destruct u as [uv|e] end; [|rewrite sticky_crash; discriminate].
  intros _. unfold BatchE. cbn [lv_batch set_batch hopefuls cands].
  set (und := if (round s =? 2)%Z then filter (@cundecl A) (hopefuls A s) else []).
  set (losers := find_certain_losers A cfg _ s).
  set (losers' := filter _ losers).
  assert (Hall: forall c, In c (und ++ losers') -> In c (hopefuls A s)).
  { intros c Hc. apply in_app_or in Hc. destruct Hc as [Hc|Hc].
    - unfold und in Hc. destruct (round s =? 2)%Z; [apply filter_In in Hc; exact (proj1 Hc)|contradiction].
    - unfold losers' in Hc. apply filter_In in Hc. destruct Hc as [Hc _].
      pose proof (certain_losers_hopeful A cfg (if (round s =? 2)%Z then add A (surplus s) uv else surplus s) s) as F. rewrite Forall_forall in F. exact (F c Hc). }
  destruct (und ++ losers')%list as [|c l]; [intros H; contradiction|]. intros _.
  exists c. split; [apply Hall; left; reflexivity|left; reflexivity].
Qed.

Lemma mpls_defeat_batch_lt (s : est) : ND A s -> BatchH A s -> BatchE s -> lv_batch s <> [] ->
  (mu (mpls_defeat_batch A cfg s) < mu s)%nat.
Proof.
  intros Hnd HB HE Hne. unfold mpls_defeat_batch. cbv zeta. rewrite mu_log.
  set (g := fun c : cand => if cundecl c then "Defeat undeclared write-in" else "Defeat certain loser").
  set (s1 := fold_left _ (cands_of A s (lv_batch s)) s).
  assert (H1: (mu s1 < mu s)%nat).
  { unfold s1. apply (fold_defeat_lt_g g); [exact Hnd| |].
    - intros c Hc. destruct (cands_of_in A s _ c Hc) as [_ Hi]. intros c' Hc' E. left. exact (HB (cid c) Hi c' Hc' E).
    - destruct (HE Hne) as (c0 & Hc0 & Hi0). unfold hopefuls in Hc0. apply filter_In in Hc0. destruct Hc0 as [Hc0 _].
      destruct (find_cand_in A (cands s) (cid c0)) as [c1 Ef]; [apply in_map; exact Hc0|].
      assert (E1: cid c1 = cid c0) by (unfold find_cand in Ef; apply find_some in Ef; destruct Ef as [_ Ee]; lia).
      exists c1. split; [|split].
      + unfold cands_of. apply in_flat_map. exists (cid c0). split; [exact Hi0|]. rewrite Ef. left; reflexivity.
      + rewrite E1. exact (HB (cid c0) Hi0).
      + rewrite E1. apply in_map. exact Hc0. }
  match goal with |- (mu (set_surplus ?t _) < _)%nat => assert (H2: R A s1 t) end.
  { apply f_fold0; [intros; apply f_set_vote; assumption|]. apply f_for_ballots; [intros; apply f_transfer; assumption|apply R_refl]. }
  match goal with |- (mu (set_surplus ?t _) < _)%nat => change (mu t < mu s)%nat end.
  pose proof (mu_R _ _ H2). lia.
Qed.

Lemma elect_hopeful_lt i m p (s : est) : ND A s -> (exists c, In c (hopefuls A s) /\ cid c = i) -> (mu (elect A cfg i m p s) < mu s)%nat.
Proof.
  intros Hnd (c & Hc & Ei). unfold hopefuls in Hc. apply filter_In in Hc. destruct Hc as [Hc Hh].
  unfold elect. destruct (find_cand A (cands s) i) as [c0|] eqn:Ef.
  - rewrite mu_log. apply mu_upd_st_lt.
    + intros c1 Hc1 E1. assert (c1 = c) by (apply (nodup_cid_inj A (cands s)); [exact Hnd|exact Hc|exact Hc1|congruence]). subst c1.
      unfold rk, rank, in_state in *. cbn [fst snd cst cpend with_st pend_true]. destruct (cst c); cbn in Hh; try discriminate. destruct p; lia.
    + exists c. split; [exact Hc|split; [exact Ei|]]. unfold rk, rank, in_state in *. cbn [fst snd cst cpend with_st pend_true].
      destruct (cst c); cbn in Hh; try discriminate. destruct p; lia.
  - exfalso. destruct (find_cand_in A (cands s) i) as [y Hy]; [rewrite <- Ei; apply in_map; exact Hc|congruence].
Qed.

Lemma mpls_elect_high_lt (s : est) : ND A s -> crashed (mpls_elect_high A cfg s) = false -> (mu (mpls_elect_high A cfg s) < mu s)%nat.
Proof.
  intros Hnd. unfold mpls_elect_high. cbv zeta. destruct (max_vote A _) as [hv|]; [|rewrite sticky_crash; discriminate].
  set (tied := filter (fun c => eqv A (cvote c) hv) (hopeful_with_quota A false s)).
  destruct (bt_simple_ok A cfg "largest surplus" tied s) as (_ & Ec & Hin). pose proof (bt_simple_total "largest surplus" tied s) as Hn.
  destruct (bt_simple A cfg "largest surplus" tied s) as [s1 [h|]]; cbn [fst snd] in *; [|intros Hc; rewrite (Hn eq_refl) in Hc; discriminate].
  destruct (Hin h eq_refl) as (c & Hct & Eh).
  assert (Hch: In c (hopefuls A s)) by (unfold tied in Hct; apply filter_In in Hct; exact (hwq_in A s false c (proj1 Hct))).
  assert (Hnd1: ND A s1) by (unfold ND in *; rewrite Ec; exact Hnd).
  assert (Hh1: exists c', In c' (hopefuls A s1) /\ cid c' = h) by (exists c; split; [unfold hopefuls; rewrite Ec; exact Hch|exact Eh]).
  pose proof (elect_hopeful_lt h "Elect" false s1 Hnd1 Hh1) as H2.
  assert (E1: mu s1 = mu s) by (unfold mu; rewrite Ec; reflexivity).
  set (s2 := elect A cfg h "Elect" false s1) in *.
  destruct (crashed s2) eqn:C2; [congruence|].
  set (s3 := for_ballots A _ _ s2).
  assert (R3: R A s2 s3) by (apply f_for_ballots; [intros; apply f_reweigh; assumption|apply R_refl]).
  destruct (crashed s3) eqn:C3; [congruence|]. intros _.
  rewrite mu_log. match goal with |- (mu (set_surplus ?t _) < _)%nat => change (mu t < mu s)%nat end.
  pose proof (mu_R _ _ (f_set_vote A s2 h (quota s3) s3 R3)). lia.
Qed.

Lemma mpls_defeat_low_lt (s : est) : ND A s -> crashed (mpls_defeat_low A cfg s) = false -> (mu (mpls_defeat_low A cfg s) < mu s)%nat.
Proof.
  intros Hnd. unfold mpls_defeat_low. destruct (low_candidates A s) as [[lv lows]|] eqn:El; [|rewrite sticky_crash; discriminate].
  destruct (bt_simple_ok A cfg "defeat low candidate" lows s) as (_ & Ec & Hin). pose proof (bt_simple_total "defeat low candidate" lows s) as Hn.
  destruct (bt_simple A cfg "defeat low candidate" lows s) as [s1 [l|]]; cbn [fst snd] in *; [|intros Hc; rewrite (Hn eq_refl) in Hc; discriminate].
  destruct (Hin l eq_refl) as (t & Ht & Et).
  assert (Hnd1: ND A s1) by (unfold ND in *; rewrite Ec; exact Hnd).
  assert (Hh1: exists c, In c (hopefuls A s1) /\ cid c = l).
  { exists t. split; [|exact Et]. unfold hopefuls. rewrite Ec. exact (low_in_hopefuls A s lv lows El t Ht). }
  pose proof (defeat_hopeful_lt l "Defeat low candidate" s1 Hnd1 Hh1) as H2.
  assert (E1: mu s1 = mu s) by (unfold mu; rewrite Ec; reflexivity).
  cbv zeta. set (s2 := defeat A cfg l "Defeat low candidate" s1) in *.
  destruct (crashed s2) eqn:C2; [congruence|]. intros _.
  destruct (seats_left A cfg s2 <? nlen (hopefuls A s2))%Z; [|lia].
  rewrite mu_log. match goal with |- (mu (set_surplus ?t _) < _)%nat => change (mu t < mu s)%nat end.
  match goal with |- (mu (set_vote A l ?v ?t3) < _)%nat => assert (R3: R A s2 t3) by (apply f_for_ballots; [intros; apply f_transfer; assumption|apply R_refl]);
    pose proof (mu_R _ _ (f_set_vote A s2 l v t3 R3)) end. lia.
Qed.

Definition mpls_body : cmd est :=
  Do (fun s => log_action A cfg TCount "Count Votes" (set_surplus s (mpls_surplus A true s))) ;;
  Ite (fun s => (cf_nseats cfg <=? nlen (electeds A s) + nlen (hopeful_with_quota A true s))%Z)
    (Do (fun s => fold_left (fun s c => elect A cfg (cid c) "Candidate at threshold" false s)
                            (hopeful_with_quota A true s) s) ;; Break)
    Skip ;;
  Do (new_round A cfg) ;;
  Do (mpls_find_defeats A cfg) ;;
  Ite (fun s => nonempty (lv_batch s)) (Do (mpls_defeat_batch A cfg) ;; Continue) Skip ;;
  Ite (fun s => nonempty (hopeful_with_quota A false s)) (Do (mpls_elect_high A cfg) ;; Continue) Skip ;;
  Ite (fun s => (seats_left A cfg s <? nlen (hopefuls A s))%Z) (Do (mpls_defeat_low A cfg)) Skip ;;
  Ite (fun s => (nlen (hopefuls A s) <=? seats_left A cfg s)%Z) Break Skip.

Lemma mpls_body_decreases n :
  T3 (fun s => ND A s /\ true = true /\ mu s = n) mpls_body (NDlt n) (fun _ => True) (NDlt n).
Proof.
  unfold mpls_body.
  eapply t_seq with (M := NDm n).
  { apply t_do. intros s (Hnd & _ & Hm).
    apply (step_le (fun s => log_action A cfg TCount "Count Votes" (set_surplus s (mpls_surplus A true s))) n); [intros t Ht; apply f_log, f_surplus, R_refl|split; [exact Hnd|lia]]. }
  eapply t_seq with (M := NDm n); [apply t_ite; [apply do_break|apply t_skip'; intros s [H _]; exact H]|].
  eapply t_seq with (M := NDm n); [apply t_do; intros s H; apply step_le; [intros t Ht; apply f_new_round, R_refl|exact H]|].
  eapply t_seq with (M := fun s => NDm n s /\ BatchH A s /\ BatchE s).
  { apply t_do_nc. intros s [Hnd Hm] Hc. destruct (mpls_find_defeats_ok A cfg s s (R_refl A s) Hnd Hc) as [Hr HB].
    split; [split; [exact (nd_R A _ _ Hr Hnd)|pose proof (mu_R _ _ Hr); lia]|split; [exact HB|apply mpls_find_defeats_E; exact Hc]]. }
  eapply t_seq with (M := NDm n).
  { apply t_ite; [|apply t_skip'; intros s [[H _] _]; exact H].
    eapply t_seq with (M := NDlt n); [|apply t_continue'; auto].
    apply t_do. intros s [[[Hnd Hm] [HB HE]] Hg].
    assert (Hne: lv_batch s <> []) by (destruct (lv_batch s); [discriminate Hg|discriminate]).
    pose proof (mpls_defeat_batch_lt s Hnd HB HE Hne) as Hlt. split; [|lia].
    exact (nd_R A s _ (f_mpls_defeat_batch A cfg s s (R_refl A s) HB) Hnd). }
  eapply t_seq with (M := NDm n).
  { apply t_ite; [|apply t_skip'; intros s [H _]; exact H].
    eapply t_seq with (M := NDlt n); [|apply t_continue'; auto].
    apply t_do_nc. intros s [[Hnd Hm] _] Hc. pose proof (mpls_elect_high_lt s Hnd Hc) as Hlt. split; [|lia].
    exact (nd_R A s _ (f_mpls_elect_high A cfg s s (R_refl A s) Hnd) Hnd). }
  eapply t_seq with (M := fun s => NDlt n s \/ (seats_left A cfg s <? nlen (hopefuls A s))%Z = false).
  { apply t_ite.
    - apply t_do_nc. intros s [[Hnd Hm] _] Hc. left. pose proof (mpls_defeat_low_lt s Hnd Hc) as Hlt. split; [|lia].
      exact (nd_R A s _ (f_mpls_defeat_low A cfg s s (R_refl A s) Hnd) Hnd).
    - apply t_skip'. intros s [_ Hg]. right. exact Hg. }
  apply t_ite; [apply t_break'; auto|]. apply t_skip'. intros s [[H|Hg] Hc]; [exact H|].
  exfalso. apply Z.ltb_ge in Hg. apply Z.leb_gt in Hc. lia.
Qed.

Theorem mpls_total fuel (s : est) : ND A s ->
  (2 * List.length (cands s) < Pos.to_nat fuel)%nat -> exists r, exec (@crashed A) fuel (mpls A cfg) s = Some r.
Proof.
  intros Hnd Hf. change (mpls A cfg) with
    (Do (fun s => new_round A cfg (start_count A (Ok (integer_droop_quota A cfg)) s)) ;;
     While (fun _ => true) mpls_body ;;
     Ite (fun s => (nlen (hopefuls A s) <=? seats_left A cfg s)%Z)
       (Do (fun s => fold_left (fun s c => elect A cfg (cid c) "Elect remaining candidates" false s) (hopefuls A s) s)) Skip ;;
     Ite (fun s => nonempty (hopefuls A s))
       (Do (fun s => fold_left (fun s c => defeat A cfg (cid c) "Defeat remaining candidates" s) (hopefuls A s) s)) Skip).
  cbn [exec].
  set (s1 := new_round A cfg (start_count A (Ok (integer_droop_quota A cfg)) s)).
  assert (R1: R A s s1) by (apply f_new_round, f_start_count, R_refl).
  destruct (crashed s1); [eexists; reflexivity|].
  destruct (while_total est (@crashed A) (ND A) mu (fun _ => true) mpls_body fuel) with (s := s1) as [[s2 k2] E2].
  - unfold mpls_body. cbn [loopfree]. tauto.
  - intros n. eapply t_conseq; [| | | |apply (mpls_body_decreases n)]; cbv beta; auto.
  - exact (nd_R A s s1 R1 Hnd).
  - pose proof (mu_R _ _ R1). pose proof (mu_bound s). lia.
  - cbn [exec] in E2. rewrite E2. destruct k2; try (eexists; reflexivity).
    match goal with |- context[if ?b then _ else _] => destruct b end.
    + match goal with |- context[crashed ?t] => destruct (crashed t) end; [eexists; reflexivity|].
      match goal with |- context[if ?b then _ else _] => destruct b end; eexists; reflexivity.
    + match goal with |- context[if ?b then _ else _] => destruct b end; eexists; reflexivity.
Qed.

End Greg.

(* ================= whole counts ================= *)
Section Count.
Variable A : arith.
Variable cfg : config.

Lemma cands_init_len (pr : profile) : List.length (cands (init_state A cfg pr)) = List.length (pr_cands pr).
Proof.
  unfold init_state. cbv zeta. cbn [cands set_eballots set_ballots].
  match goal with |- List.length (cands (fold_left ?f ?l0 ?s0)) = _ =>
    assert (G: forall l s, List.length (cands (fold_left f l s)) = (List.length (cands s) + List.length l)%nat) end.
  { induction l as [|p l IH]; intros s; cbn [fold_left List.length]; [lia|]. rewrite IH. unfold log_msg, log_action. cbn [is_log cands set_actions set_cands]. rewrite app_length. cbn [List.length]. lia. }
  rewrite G. reflexivity.
Qed.
Lemma cids_init (pr : profile) : map (@cid A) (cands (init_state A cfg pr)) = map pc_cid (pr_cands pr).
Proof.
  unfold init_state. cbv zeta. cbn [cands set_eballots set_ballots].
  match goal with |- map _ (cands (fold_left ?f ?l0 ?s0)) = _ =>
    assert (G: forall l s, map (@cid A) (cands (fold_left f l s)) = (map (@cid A) (cands s) ++ map pc_cid l)%list) end.
  { induction l as [|p l IH]; intros s; cbn [fold_left map]; [rewrite app_nil_r; reflexivity|]. rewrite IH. unfold log_msg, log_action. cbn [is_log cands set_actions set_cands].
    rewrite map_app. cbn [map cid init_cand]. rewrite <- app_assoc. reflexivity. }
  rewrite G. reflexivity.
Qed.

(* the Gregory family -- wigm (any options but defeat_batch=zero), wigm-prf(-batch), scotland, cfer(-batch), mpls: under any
   arithmetic a count never runs out of fuel once the fuel exceeds twice the number of candidates: exec answers Some --
   the count ends, normally or with one of the modelled exceptions *)
Definition term_rule (r : rule) : Prop :=
  (r = RWigm /\ cf_batch_zero cfg = false) \/ r = RWigmPrf \/ r = RScotland \/ r = RCfer \/ r = RMpls.

Theorem count_terminates (r : rule) (pr : profile) fuel : term_rule r -> NoDup (map pc_cid (pr_cands pr)) ->
  (2 * List.length (pr_cands pr) < Pos.to_nat fuel)%nat ->
  exists s k, exec (@crashed A) fuel (count_cmd A cfg r) (init_state A cfg pr) = Some (s, k).
Proof.
  intros Hr Hnd Hf. unfold count_cmd. cbn [exec].
  set (s0 := set_cands (init_state A cfg pr) _).
  destruct (crashed s0); [eexists; eexists; reflexivity|].
  assert (Hnd0: ND A s0) by (unfold ND, s0; cbn [cands set_cands]; rewrite map_map; cbn [cid with_vote]; rewrite cids_init; exact Hnd).
  assert (Hf0: (2 * List.length (cands s0) < Pos.to_nat fuel)%nat) by (unfold s0; cbn [cands set_cands]; rewrite map_length, cands_init_len; exact Hf).
  assert (Ht: exists r1, exec (@crashed A) fuel (rule_cmd A cfg r) s0 = Some r1).
  { destruct Hr as [[-> Hbz]|[->|[->|[->| ->]]]]; cbn [rule_cmd]; [apply wigm_total|apply wigm_prf_total|apply scotland_total|apply cfer_total|apply mpls_total]; assumption. }
  destruct Ht as [[s1 k1] E1]. rewrite E1. destruct k1; eexists; eexists; reflexivity.
Qed.

(* wigm with defeat_batch=zero as well, given that the arithmetic's == is reflexive (it is, for all three families: see below) *)
Theorem wigm_count_terminates_any_option (pr : profile) fuel : (forall x : T A, eqv A x x = true) ->
  NoDup (map pc_cid (pr_cands pr)) -> (2 * List.length (pr_cands pr) < Pos.to_nat fuel)%nat ->
  exists s k, exec (@crashed A) fuel (count_cmd A cfg RWigm) (init_state A cfg pr) = Some (s, k).
Proof.
  intros Heq Hnd Hf. unfold count_cmd. cbn [exec rule_cmd].
  set (s0 := set_cands (init_state A cfg pr) _).
  destruct (crashed s0); [eexists; eexists; reflexivity|].
  destruct (wigm_total' A cfg fuel s0 Heq) as [[s1 k1] E1].
  - unfold ND, s0. cbn [cands set_cands]. rewrite map_map. cbn [cid with_vote]. rewrite cids_init. exact Hnd.
  - unfold s0. cbn [cands set_cands]. rewrite map_length, cands_init_len. exact Hf.
  - rewrite E1. destruct k1; eexists; eexists; reflexivity.
Qed.
End Count.

(* == is reflexive in each of the three arithmetic families *)
Lemma eqv_refl_fixed p d x : eqv (Fixed p d) x x = true.
Proof. cbn. unfold res_true, FixedKernels.dunder_eq, operand_value, bind. rewrite Z.eqb_refl. reflexivity. Qed.
Lemma eqv_refl_rational dp x : eqv (Rational dp) x x = true.
Proof. cbn. apply QArith_base.Qeq_bool_iff. reflexivity. Qed.
Lemma eqv_refl_guarded p g d st x : (0 <= g)%Z -> eqv (Guarded p g d st) x x = true.
Proof.
  intros Hg. cbn [Guarded eqv]. destruct (GuardedLemmas.rel_of_cmp (mk_guarded_cls p g d st) x x) as (E1 & _). rewrite E1.
  unfold res_true. rewrite Z.sub_diag. cbn [Z.abs]. destruct (GuardedLemmas.geps_spec p g d st Hg) as [He _]. cbv zeta in He.
  destruct (0 <? g_geps (mk_guarded_cls p g d st))%Z eqn:E; [reflexivity|apply Z.ltb_ge in E; lia].
Qed.
