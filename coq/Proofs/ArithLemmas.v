(* Lemmas about the regenerated Fixed kernels (C12). *)
From Coq Require Import ZArith QArith Qround List Bool Lia ZifyBool.
From Droop Require Import Model.KernelBase Gen.FixedKernels.
Import ListNotations.
Open Scope Z_scope.

(* ---------- the semantic vocabulary of the property ---------- *)
(* exact value of a raw integer at scale S = 10^p *)
Definition valQ (S r : Z) : Q := inject_Z r / inject_Z S.
(* raw representation of x rounded toward minus infinity at scale S *)
Definition floor_at (S : Z) (x : Q) : Z := Qfloor (x * inject_Z S).
(* x is representable exactly at scale S *)
Definition exact_at (S : Z) (x : Q) : Prop := inject_Z (floor_at S x) == x * inject_Z S.

Lemma Qfloor_div_Z n b : b <> 0 -> Qfloor (inject_Z n / inject_Z b) = n / b.
Proof.
  intros Hb. unfold Qdiv, Qmult, Qinv, inject_Z. simpl Qnum.
  destruct b as [|p|p]; [congruence| |]; simpl.
  - rewrite Z.mul_1_r. reflexivity.
  - replace (n * Z.neg 1) with (- n) by lia.
    rewrite <- (Z.div_opp_opp n (Z.neg p)) by lia. reflexivity.
Qed.

Lemma inject_Z_nonzero z : z <> 0 -> ~ inject_Z z == 0.
Proof. intros H E. apply H. unfold Qeq, inject_Z in E. simpl in E. lia. Qed.

Lemma floor_at_mul S a b : S <> 0 -> floor_at S (valQ S a * valQ S b) = a * b / S.
Proof.
  intros HS. unfold floor_at, valQ.
  rewrite <- (Qfloor_div_Z (a * b) S HS). apply Qfloor_comp.
  rewrite inject_Z_mult. field. apply inject_Z_nonzero; exact HS.
Qed.

Lemma floor_at_div S a b : S <> 0 -> b <> 0 -> floor_at S (valQ S a / valQ S b) = a * S / b.
Proof.
  intros HS Hb. unfold floor_at, valQ.
  rewrite <- (Qfloor_div_Z (a * S) b Hb). apply Qfloor_comp.
  rewrite inject_Z_mult. field. split; apply inject_Z_nonzero; assumption.
Qed.

Lemma floor_at_muldiv S a b c : S <> 0 -> c <> 0 ->
  floor_at S (valQ S a * valQ S b / valQ S c) = a * b / c.
Proof.
  intros HS Hc. unfold floor_at, valQ.
  rewrite <- (Qfloor_div_Z (a * b) c Hc). apply Qfloor_comp.
  rewrite inject_Z_mult. field. split; apply inject_Z_nonzero; assumption.
Qed.

Lemma exact_at_iff S x n d : d <> 0 -> x * inject_Z S == inject_Z n / inject_Z d ->
  (exact_at S x <-> n mod d = 0).
Proof.
  intros Hd Hx. unfold exact_at, floor_at. rewrite (Qfloor_comp _ _ Hx), Qfloor_div_Z by exact Hd.
  rewrite Hx. split; intros H.
  - assert (E: inject_Z (n / d) * inject_Z d == inject_Z n).
    { rewrite H. field. apply inject_Z_nonzero; exact Hd. }
    rewrite <- inject_Z_mult in E. unfold Qeq, inject_Z in E; simpl in E.
    rewrite !Z.mul_1_r in E. rewrite Z.mod_eq by exact Hd. lia.
  - apply Z.div_exact in H; [|exact Hd]. rewrite H at 2. rewrite inject_Z_mult. field.
    apply inject_Z_nonzero; exact Hd.
Qed.

(* ---------- what each regenerated kernel computes ---------- *)
Lemma pydiv_ok a b : b <> 0 -> pydiv a b = Ok (a / b).
Proof. intros H. unfold pydiv. destruct (b =? 0) eqn:E; [lia|reflexivity]. Qed.
Lemma pymod_ok a b : b <> 0 -> pymod a b = Ok (a mod b).
Proof. intros H. unfold pymod. destruct (b =? 0) eqn:E; [lia|reflexivity]. Qed.
Lemma pydivmod_ok a b : b <> 0 -> pydivmod a b = Ok (a / b, a mod b).
Proof. intros H. unfold pydivmod. destruct (b =? 0) eqn:E; [lia|reflexivity]. Qed.
Lemma pydiv_zero a : pydiv a 0 = Raise ZeroDivisionError.  Proof. reflexivity. Qed.
Lemma pydivmod_zero a : pydivmod a 0 = Raise ZeroDivisionError.  Proof. reflexivity. Qed.
Section FixedK.
Variable st : fixed_cls.
Let S := f_scale st.
Hypothesis HS : S <> 0.

Lemma init_int n : init st (OInt n) false = n * S.
Proof. reflexivity. Qed.
Lemma init_val r : init st (OVal r) false = r.
Proof. reflexivity. Qed.

Lemma add_val a b : dunder_add st a (OVal b) = Ok (b + a).   Proof. reflexivity. Qed.
Lemma add_int a n : dunder_add st a (OInt n) = Ok (n * S + a). Proof. reflexivity. Qed.
Lemma sub_val a b : dunder_sub st a (OVal b) = Ok (a - b).   Proof. reflexivity. Qed.
Lemma sub_int a n : dunder_sub st a (OInt n) = Ok (a - n * S). Proof. reflexivity. Qed.
Lemma neg_val a : dunder_neg st a = Ok (- a).               Proof. reflexivity. Qed.
Lemma pos_val a : dunder_pos st a = Ok a.                   Proof. reflexivity. Qed.
Lemma abs_val a : dunder_abs st a = Ok (Z.abs a).           Proof. reflexivity. Qed.
Lemma bool_val a : dunder_bool st a = Ok (negb (a =? 0)).   Proof. reflexivity. Qed.
Lemma mul_int a n : dunder_mul st a (OInt n) = Ok (a * n).  Proof. reflexivity. Qed.


Lemma mul_val a b : dunder_mul st a (OVal b) = Ok (a * b / S).
Proof. unfold dunder_mul. cbn [init init_r]. cbv zeta. fold S. rewrite pydiv_ok by exact HS. reflexivity. Qed.

Lemma floordiv_int a n : n <> 0 -> dunder_floordiv st a (OInt n) = Ok (a / n).
Proof. intros H. unfold dunder_floordiv. cbn [init init_r]. cbv zeta. rewrite pydiv_ok by exact H. reflexivity. Qed.
Lemma floordiv_val a b : b <> 0 -> dunder_floordiv st a (OVal b) = Ok (a * S / b).
Proof. intros H. unfold dunder_floordiv. cbn [init init_r]. cbv zeta. fold S. rewrite pydiv_ok by exact H. reflexivity. Qed.
Lemma floordiv_val_zero a : dunder_floordiv st a (OVal 0) = Raise ZeroDivisionError.
Proof. reflexivity. Qed.
Lemma floordiv_int_zero a : dunder_floordiv st a (OInt 0) = Raise ZeroDivisionError.
Proof. reflexivity. Qed.

(* round-up adjustment: one unit iff the remainder is non-zero *)
Definition up_adj (r : rnd) (rem : Z) : Z :=
  match r with RUp => if rem =? 0 then 0 else 1 | _ => 0 end.

Lemma mul_k a b r : r = RUp \/ r = RDown ->
  mul st (OVal a) (OVal b) r = Ok (a * b / S + up_adj r (a * b mod S)).
Proof.
  intros [->| ->]; unfold mul; cbn [init init_r rnd_in existsb rnd_eqb negb orb]; cbv zeta; fold S;
  rewrite pydivmod_ok by exact HS; cbn [bind]; unfold truthy, up_adj; cbn [rnd_eqb];
  destruct (a * b mod S =? 0); cbn [negb andb]; f_equal; lia.
Qed.
Lemma mul_k_bad a b r : r = RNone \/ r = ROther -> mul st a b r = Raise ValueError.
Proof. intros [->| ->]; reflexivity. Qed.

Lemma div_k a b r : r = RUp \/ r = RDown -> b <> 0 ->
  div st (OVal a) (OVal b) r = Ok (a * S / b + up_adj r (a * S mod b)).
Proof.
  intros [->| ->] Hb; unfold div; cbn [init init_r rnd_in existsb rnd_eqb negb orb]; cbv zeta; fold S;
  rewrite pydivmod_ok by exact Hb; cbn [bind]; unfold truthy, up_adj; cbn [rnd_eqb];
  destruct (a * S mod b =? 0); cbn [negb andb]; f_equal; lia.
Qed.
Lemma div_k_zero a r : r = RUp \/ r = RDown -> div st (OVal a) (OVal 0) r = Raise ZeroDivisionError.
Proof. intros [->| ->]; reflexivity. Qed.

Lemma muldiv_k a b c r : r = RUp \/ r = RDown -> c <> 0 ->
  muldiv st (OVal a) (OVal b) (OVal c) r = Ok (a * b / c + up_adj r (a * b mod c)).
Proof.
  intros [->| ->] Hc; unfold muldiv; cbn [init init_r]; cbv zeta;
  rewrite pydivmod_ok by exact Hc; cbn [bind rnd_in existsb rnd_eqb negb orb]; unfold truthy, up_adj; cbn [rnd_eqb];
  destruct (a * b mod c =? 0); cbn [negb andb]; f_equal; lia.
Qed.
Lemma muldiv_k_zero a b r : muldiv st (OVal a) (OVal b) (OVal 0) r = Raise ZeroDivisionError.
Proof. reflexivity. Qed.

Lemma eq_val a b : dunder_eq st a (OVal b) = Ok (a =? b).  Proof. reflexivity. Qed.
Lemma ne_val a b : dunder_ne st a (OVal b) = Ok (negb (a =? b)).  Proof. reflexivity. Qed.
Lemma lt_val a b : dunder_lt st a (OVal b) = Ok (a <? b).  Proof. reflexivity. Qed.
Lemma le_val a b : dunder_le st a (OVal b) = Ok (a <=? b). Proof. reflexivity. Qed.
Lemma gt_val a b : dunder_gt st a (OVal b) = Ok (b <? a).  Proof. reflexivity. Qed.
Lemma ge_val a b : dunder_ge st a (OVal b) = Ok (b <=? a). Proof. reflexivity. Qed.

(* min: a least element, and the first such *)
Lemma fold_min_spec (l : list Z) (x : Z) :
  let m := fold_left (fun m y => if y <? m then y else m) l x in
  (m = x \/ In m l) /\ m <= x /\ (forall y, In y l -> m <= y).
Proof.
  revert x. induction l as [|y l IH]; intros x; cbn [fold_left].
  - split; [left; reflexivity|]. split; [lia|]. intros y [].
  - specialize (IH (if y <? x then y else x)). cbv zeta in *.
    destruct IH as (Hin & Hle & Hall). destruct (y <? x) eqn:E.
    + split; [destruct Hin as [->|H]; [right; left; reflexivity | right; right; exact H]|].
      split; [lia|]. intros z [<-|Hz]; [exact Hle | apply Hall; exact Hz].
    + split; [destruct Hin as [->|H]; [left; reflexivity | right; right; exact H]|].
      split; [exact Hle|]. intros z [<-|Hz]; [lia | apply Hall; exact Hz].
Qed.

Lemma min_spec (l : list Z) : l <> [] ->
  exists m, FixedKernels.min st l = Ok m /\ In m l /\ forall y, In y l -> m <= y.
Proof.
  destruct l as [|x l]; [congruence|]. intros _.
  unfold FixedKernels.min, py_min_by. cbn [bind].
  assert (E: forall m y, res_true (dunder_lt st y (OVal m)) = (y <? m)).
  { intros m y. unfold dunder_lt, operand_value, bind, res_true. destruct (y <? m); reflexivity. }
  set (f := fun m y => if res_true (dunder_lt st y (OVal m)) then y else m).
  assert (Ef: forall l0 x0, fold_left f l0 x0 = fold_left (fun m y => if y <? m then y else m) l0 x0).
  { induction l0 as [|y l0 IH]; intros x0; cbn [fold_left]; [reflexivity|]. unfold f at 2. rewrite E. apply IH. }
  rewrite Ef. destruct (fold_min_spec l x) as (Hin & Hle & Hall). eexists; split; [reflexivity|].
  split.
  - destruct Hin as [->|H]; [left; reflexivity | right; exact H].
  - intros y [<-|Hy]; [exact Hle | apply Hall; exact Hy].
Qed.
Lemma min_empty : FixedKernels.min st [] = Raise ValueError.
Proof. reflexivity. Qed.

End FixedK.
