(* py_sort (count_run + binary insertion) returns a permutation of its input, for ANY comparison. *)
From Coq Require Import List Bool Permutation PeanoNat Lia.
From Droop Require Import Model.Prelude.
Import ListNotations.

Section S.
Variable X : Type.
Variable lt : X -> X -> bool.

Lemma insert_at_perm (a : list X) i x : Permutation (insert_at X a i x) (x :: a).
Proof.
  unfold insert_at. symmetry. etransitivity; [|apply Permutation_middle]. rewrite firstn_skipn. reflexivity.
Qed.

Lemma binsort_perm rest : forall sorted, Permutation (binsort X lt sorted rest) (sorted ++ rest).
Proof.
  induction rest as [|x t IH]; intros sorted; cbn [binsort].
  - rewrite app_nil_r. reflexivity.
  - rewrite IH. rewrite insert_at_perm. cbn. apply Permutation_middle.
Qed.

Theorem py_sort_perm l : Permutation (py_sort lt l) l.
Proof.
  destruct l as [|x [|y t]]; cbn [py_sort]; try reflexivity.
  destruct (lt y x).
  - rewrite binsort_perm. rewrite <- (firstn_skipn (S (S (run_desc X lt y t))) (x :: y :: t)) at 3.
    apply Permutation_app_tail. symmetry. apply Permutation_rev.
  - rewrite binsort_perm. rewrite firstn_skipn. reflexivity.
Qed.

Theorem py_sorted_perm rv l : Permutation (py_sorted lt rv l) l.
Proof.
  unfold py_sorted. destruct rv; [|apply py_sort_perm].
  rewrite <- Permutation_rev. rewrite py_sort_perm. symmetry. apply Permutation_rev.
Qed.

Lemma py_sorted_in rv l x : In x (py_sorted lt rv l) <-> In x l.
Proof. split; apply Permutation_in; [|symmetry]; apply py_sorted_perm. Qed.
End S.
