(* Whole counts transported along equalities of arithmetic instances. *)
From Coq Require Import ZArith List Bool String PArith.
From Droop Require Import Model.KernelBase Model.Str Model.Arith Model.Prelude Model.State Model.Prims
  Model.Election Model.Driver Proofs.ArithEq.
Open Scope Z_scope.

(* the canonical trace of a count: every action with every candidate's status, raw and printed tally,
   keep factor, quotient, every ballot's index and raw weight, the outcome *)
Definition trace (A : arith) (cfg : config) (fuel : positive) (r : rule) (pr : profile) : string :=
  show_outcome A (cf_method cfg) (run_count A cfg fuel r pr).

Lemma trace_guard0 p d s cfg fuel r pr : 1 <= p -> 0 <= d ->
  trace (Guarded p 0 d s) cfg fuel r pr = trace (Fixed p d) cfg fuel r pr.
Proof. intros Hp Hd. rewrite (guard0_is_fixed p d s Hp Hd). reflexivity. Qed.

Lemma trace_stale p g d s s' cfg fuel r pr :
  trace (Guarded p g d s) cfg fuel r pr = trace (Guarded p g d s') cfg fuel r pr.
Proof. rewrite (guarded_stale_irrelevant p g d s s'). reflexivity. Qed.
