(* The reader model and the count model meet: a profile the reader accepts, handed to the count model the way
   Election.__init__ reads it, satisfies the hypotheses of the whole-run theorems (wf_profile, wf_profile_m). *)
From Coq Require Import ZArith List Bool String Lia.
From Droop Require Import Proofs.QuotaCount Proofs.ForwardCount Proofs.WinnersCfer Proofs.MajorityCfer Proofs.WinnersBatch Proofs.WinnersZero Proofs.WinnersCferBatch Proofs.QpqSeats Proofs.QpqWinners.
From Droop Require Import Model.KernelBase Model.Str Model.Arith Model.State Model.Prims Model.Prelude Model.Profile Model.ProfileSpec
  Model.Election Model.EndToEnd Proofs.Zlike Proofs.Gregory Proofs.Conserve Proofs.Forward Proofs.ParserLemmas Proofs.ConserveCount
  Proofs.MeekRun Proofs.MeekKfRun Proofs.MeekPrfRun Proofs.MeekCount Proofs.Terminate Proofs.TerminateMeek Proofs.Winners Proofs.Majority.
Import ListNotations.
Open Scope Z_scope.

Lemma memZ_false c l : ~ In c l -> memZ c l = false.
Proof.
  intros H. unfold memZ. destruct (existsb (Z.eqb c) l) eqn:E; [|reflexivity]. exfalso. apply existsb_exists in E.
  destruct E as (x & Hx & Ex). apply H. assert (c = x) by lia. subst. exact Hx.
Qed.

Lemma cands_ids (p : Profile.profile) : map pc_cid (pr_cands (to_count_profile p)) = cids_upto (p_nCand p).
Proof. unfold to_count_profile. cbn [pr_cands]. rewrite map_map. cbn [pc_cid to_pcand]. apply map_id. Qed.

Lemma live_cand (p : Profile.profile) c : in_range (p_nCand p) c -> ~ In c (p_withdrawn p) ->
  exists pc, In pc (pr_cands (to_count_profile p)) /\ pc_cid pc = c /\ pc_withdrawn pc = false.
Proof.
  intros Hr Hw. exists (to_pcand p c). split; [|split; [reflexivity|cbn [pc_withdrawn to_pcand]; apply memZ_false; exact Hw]].
  unfold to_count_profile. cbn [pr_cands]. apply in_map. apply in_cids_upto. exact Hr.
Qed.

Theorem valid_is_wf (p : Profile.profile) : valid_profile p -> wf_profile_m (to_count_profile p).
Proof.
  intros V. split; [split|].
  - rewrite cands_ids. apply nodup_cids_upto.
  - intros m r Hmr. cbn [pr_ballots to_count_profile] in Hmr. pose proof (vp_lines p V) as HL. rewrite Forall_forall in HL.
    destruct (HL (m, r) Hmr) as (Hm & _ & Hc). cbn [fst snd] in *. split; [lia|]. intros c Hin. rewrite Forall_forall in Hc.
    destruct (Hc c Hin) as [Hr Hw]. apply live_cand; assumption.
  - intros m r Hmr. cbn [pr_eballots to_count_profile] in Hmr. pose proof (vp_linesEq p V) as HL. rewrite Forall_forall in HL.
    destruct (HL (m, r) Hmr) as (Hm & _ & _ & Hc & _). cbn [fst snd] in *. split; [lia|]. intros g c Hg Hin.
    rewrite Forall_forall in Hc. specialize (Hc g Hg). rewrite Forall_forall in Hc. destruct (Hc c Hin) as [Hr Hw]. apply live_cand; assumption.
Qed.

Theorem accepted_is_wf text p : parse text = Ok p -> wf_profile_m (to_count_profile p).
Proof. intros H. apply valid_is_wf. exact (c16_accepted_is_valid text p H). Qed.
Theorem accepted_file_is_wf text p : parse_file text = Ok p -> wf_profile_m (to_count_profile p).
Proof. intros H. apply valid_is_wf. exact (strip_bom_declared text p H). Qed.

(* the ballot count of an accepted file is the number of papers the count model sees *)
Lemma totals_agree (p : Profile.profile) : valid_profile p ->
  pr_nballots (to_count_profile p) = ballot_total (to_count_profile p) + eballot_total (to_count_profile p).
Proof.
  intros V. cbn [pr_nballots to_count_profile]. rewrite (vp_total p V). unfold ballot_total, eballot_total. cbn [pr_ballots pr_eballots to_count_profile].
  pose proof (vp_lines p V) as H1. pose proof (vp_linesEq p V) as H2. f_equal.
  - induction (p_lines p) as [|[m r] l IH]; [reflexivity|]. inversion H1 as [|? ? Hx Hl]; subst. unfold ProfileSpec.sum_mult in *. cbn [fold_right fst snd].
    rewrite IH by exact Hl. destruct Hx as (_ & Hne & _). cbn [snd] in Hne. destruct r; [contradiction|reflexivity].
  - induction (p_linesEq p) as [|[m r] l IH]; [reflexivity|]. inversion H2 as [|? ? Hx Hl]; subst. unfold ProfileSpec.sum_mult in *. cbn [fold_right fst snd].
    rewrite IH by exact Hl. destruct Hx as (_ & Hne & _). cbn [snd] in Hne. destruct r; [contradiction|reflexivity].
Qed.

(* ================= the whole-run theorems, for every file the reader accepts ================= *)
Section Accepted.
Variables (A : arith) (S : Z) (ZL : zlike A S) (cfg : config).
Notation R := (raw ZL).

(* Gregory family: no votes created, tally = standing ballots *)
Theorem accepted_no_votes_created : cf_method cfg = MWigm -> exact A = false -> 0 <= cf_nballots cfg -> 0 <= cf_nseats cfg ->
  forall r text p fuel s k, greg_rule r -> parse_file text = Ok p ->
  exec (@crashed A) fuel (count_cmd A cfg r) (init_state A cfg (to_count_profile p)) = Some (s, k) -> k <> Abort ->
  (Gregory.total A S ZL s <= S * ballot_total (to_count_profile p)) /\
  (Forall (snap_ok A S ZL (S * ballot_total (to_count_profile p))) (actions s)) /\
  (forall c, In c (cands s) -> 0 <= R (cvote c)).
Proof.
  intros Hm Hex Hnb Hns r text p fuel s k Hr Hp He Hk.
  exact (count_no_votes_created A S ZL cfg Hm Hex Hnb Hns r _ fuel s k Hr (proj1 (accepted_file_is_wf text p Hp)) He Hk).
Qed.

Theorem accepted_tally_is_standing : cf_method cfg = MWigm -> exact A = false -> 0 <= cf_nballots cfg -> 0 <= cf_nseats cfg ->
  forall r text p fuel s k, greg_rule r -> parse_file text = Ok p ->
  exec (@crashed A) fuel (count_cmd A cfg r) (init_state A cfg (to_count_profile p)) = Some (s, k) -> k <> Abort ->
  NoDup (map (@cid A) (cands s)) /\
  Forall (wfb A S ZL) (State.ballots s) /\
  (forall c, In c (cands s) ->
     R (cvote c) = stand A S ZL (State.ballots s) (cid c) \/ (cont A c = false /\ stand A S ZL (State.ballots s) (cid c) = 0)) /\
  (forall c, In c (cands s) -> is_pending A c = true -> R (quota s) <= R (cvote c)).
Proof.
  intros Hm Hex Hnb Hns r text p fuel s k Hr Hp He Hk.
  exact (count_tally_is_standing A S ZL cfg Hm Hex Hnb Hns r _ fuel s k Hr (proj1 (accepted_file_is_wf text p Hp)) He Hk).
Qed.

(* seats: the driver hands the count the file's own ballot count; files without equal-rank ballots *)
Theorem accepted_seats : cf_method cfg = MWigm -> exact A = false -> 0 <= cf_nseats cfg ->
  forall r text p fuel s k, seat_rule r -> parse_file text = Ok p -> p_linesEq p = [] -> cf_nballots cfg = p_nBallots p ->
  exec (@crashed A) fuel (count_cmd A cfg r) (init_state A cfg (to_count_profile p)) = Some (s, k) -> k <> Abort ->
  nlen (electeds A s) <= cf_nseats cfg.
Proof.
  intros Hm Hex Hns r text p fuel s k Hr Hp Hq Hn He Hk.
  pose proof (strip_bom_declared text p Hp) as V. pose proof (totals_agree p V) as Ht.
  assert (Ez: eballot_total (to_count_profile p) = 0) by (unfold eballot_total; cbn [pr_eballots to_count_profile]; rewrite Hq; reflexivity).
  assert (Hnb: cf_nballots cfg = ballot_total (to_count_profile p)) by (rewrite Hn; cbn [pr_nballots to_count_profile] in Ht; lia).
  assert (Hnb0: 0 <= cf_nballots cfg).
  { rewrite Hn. pose proof (vp_enough_ballots p V). lia. }
  exact (count_seats A S ZL cfg Hm Hex Hnb0 Hns r _ fuel s k Hr (proj1 (accepted_file_is_wf text p Hp)) Hnb He Hk).
Qed.

(* meek / warren: every 'iterate' snapshot balances against the file's ballot count *)
Theorem accepted_meek_iterations : cf_method cfg = MMeek ->
  forall text p fuel s k, parse_file text = Ok p ->
  exec (@crashed A) fuel (count_cmd A cfg RMeek) (init_state A cfg (to_count_profile p)) = Some (s, k) -> k <> Abort ->
  forall a sn, In a (actions s) -> a_tag a = TIterate -> a_snap a = Some sn ->
  R (as_votes sn) + match as_nt sn with Some x => R x | None => 0 end = S * p_nBallots p.
Proof.
  intros Hm text p fuel s k Hp He Hk a sn Ha Ht Hs.
  pose proof (totals_agree p (strip_bom_declared text p Hp)) as Et. cbn [pr_nballots to_count_profile] in Et. rewrite Et.
  exact (count_meek_iterations A S ZL cfg Hm _ fuel s k (accepted_file_is_wf text p Hp) He Hk a sn Ha Ht Hs).
Qed.

Theorem accepted_meek_kf_ranges : cf_method cfg = MMeek -> exact A = false -> 0 <= cf_nseats cfg -> 0 <= cf_nballots cfg ->
  forall text p fuel s k, parse_file text = Ok p ->
  exec (@crashed A) fuel (count_cmd A cfg RMeek) (init_state A cfg (to_count_profile p)) = Some (s, k) -> k <> Abort ->
  forall a sn, In a (actions s) -> a_tag a = TIterate -> a_snap a = Some sn ->
  (forall x, In x (as_c sn) -> 0 <= R (sn_vote x) /\ kf_range S (sn_st x) (kfs A S ZL (sn_kf x))) /\
  match as_nt sn with Some r => 0 <= R r | None => True end.
Proof.
  intros Hm Hex Hns Hnb text p fuel s k Hp He Hk.
  exact (count_meek_kf_ranges A S ZL cfg Hm Hex Hns Hnb _ fuel s k (accepted_file_is_wf text p Hp) He Hk).
Qed.

Theorem accepted_meek_prf : cf_method cfg = MMeek ->
  forall text p fuel s k, parse_file text = Ok p ->
  exec (@crashed A) fuel (count_cmd A cfg RMeekPrf) (init_state A cfg (to_count_profile p)) = Some (s, k) -> k <> Abort ->
  (forall a sn, In a (actions s) -> claimed (a_tag a) (a_msg a) = true -> a_snap a = Some sn ->
     R (as_votes sn) + match as_nt sn with Some x => R x | None => 0 end = S * ballot_total (to_count_profile p)) /\
  (exists a rest sn, actions s = a :: rest /\ a_tag a = TEnd /\ a_snap a = Some sn /\
     R (as_votes sn) + match as_nt sn with Some x => R x | None => 0 end = cf_nballots cfg * S).
Proof.
  intros Hm text p fuel s k Hp He Hk.
  exact (count_meek_prf A S ZL cfg Hm _ fuel s k (proj1 (accepted_file_is_wf text p Hp)) He Hk).
Qed.

(* termination, for every accepted file: the fuel bound is in terms of the declared number of candidates *)
Lemma cands_len (p : Profile.profile) : List.length (pr_cands (to_count_profile p)) = List.length (cids_upto (p_nCand p)).
Proof. unfold to_count_profile. cbn [pr_cands]. apply map_length. Qed.

Theorem accepted_gregory_terminates : forall r text p fuel, term_rule cfg r -> parse_file text = Ok p ->
  (2 * List.length (cids_upto (p_nCand p)) < Pos.to_nat fuel)%nat ->
  exists s k, exec (@crashed A) fuel (count_cmd A cfg r) (init_state A cfg (to_count_profile p)) = Some (s, k).
Proof.
  intros r text p fuel Hr Hp Hf. apply count_terminates; [exact Hr| |rewrite cands_len; exact Hf].
  rewrite cands_ids. apply nodup_cids_upto.
Qed.

Theorem accepted_meek_terminates : exact A = false -> forall text p fuel, parse_file text = Ok p ->
  (Z.to_nat (cf_nballots cfg * S) < Pos.to_nat fuel)%nat -> (List.length (cids_upto (p_nCand p)) < Pos.to_nat fuel)%nat ->
  exists s k, exec (@crashed A) fuel (count_cmd A cfg RMeek) (init_state A cfg (to_count_profile p)) = Some (s, k).
Proof.
  intros Hex text p fuel Hp Hf1 Hf2. apply (meek_count_terminates A S ZL cfg Hex); [|exact Hf1|rewrite cands_len; exact Hf2].
  rewrite cands_ids. apply nodup_cids_upto.
Qed.

(* the number of winners and the one-seat majority clause, for every accepted file without equal-rank ballots *)
Lemma nballots_strict (text : ustr) p : parse_file text = Ok p -> p_linesEq p = [] -> p_nBallots p = ballot_total (to_count_profile p).
Proof.
  intros Hp Hq. pose proof (totals_agree p (strip_bom_declared text p Hp)) as Ht. cbn [pr_nballots to_count_profile] in Ht.
  assert (Ez: eballot_total (to_count_profile p) = 0) by (unfold eballot_total; cbn [pr_eballots to_count_profile]; rewrite Hq; reflexivity). lia.
Qed.

Theorem accepted_winners : cf_method cfg = MWigm -> exact A = false -> 0 <= cf_nseats cfg ->
  forall r text p fuel s k, win_rule cfg r -> parse_file text = Ok p -> p_linesEq p = [] -> cf_nballots cfg = p_nBallots p ->
  exec (@crashed A) fuel (count_cmd A cfg r) (init_state A cfg (to_count_profile p)) = Some (s, k) -> k <> Abort ->
  nlen (electeds A s) = Z.min (cf_nseats cfg) (nlen (eligibles A s)).
Proof.
  intros Hm Hex Hns r text p fuel s k Hr Hp Hq Hn He Hk.
  pose proof (nballots_strict text p Hp Hq) as Hb. pose proof (vp_enough_ballots p (strip_bom_declared text p Hp)) as Hen.
  apply (count_winners A S ZL cfg Hm Hex ltac:(lia) Hns r _ fuel s k Hr (proj1 (accepted_file_is_wf text p Hp)) ltac:(congruence) He Hk).
Qed.

Theorem accepted_majority_scotland : exact A = false -> cf_nseats cfg = 1 ->
  forall text p m fuel s k, parse_file text = Ok p -> p_linesEq p = [] -> cf_nballots cfg = p_nBallots p ->
  In m (p_eligible p) -> p_nBallots p < 2 * first_prefs (to_count_profile p) m ->
  exec (@crashed A) fuel (count_cmd A cfg RScotland) (init_state A cfg (to_count_profile p)) = Some (s, k) -> k <> Abort ->
  forall c, In c (State.cands s) -> cid c = m -> cst c = Elected.
Proof.
  intros Hex Hseat text p m fuel s k Hp Hq Hn Hel Hmaj He Hk.
  pose proof (strip_bom_declared text p Hp) as V. pose proof (nballots_strict text p Hp Hq) as Hb.
  apply (count_majority_scotland A S ZL cfg Hex Hseat _ m fuel s k (proj1 (accepted_file_is_wf text p Hp)) ltac:(congruence)); [|lia|exact He|exact Hk].
  destruct (proj1 (vp_eligible p V m) Hel) as [Hr Hw]. apply live_cand; assumption.
Qed.

(* the quota of a Gregory count of an accepted file, in every snapshot: the prescribed function of the file's ballot count *)
Theorem accepted_gregory_quota : 0 <= cf_nseats cfg -> R (epsilon A) = 1 -> exact A = false ->
  forall r text p fuel s k, seat_rule r -> parse_file text = Ok p -> cf_nballots cfg = p_nBallots p ->
  exec (@crashed A) fuel (count_cmd A cfg r) (init_state A cfg (to_count_profile p)) = Some (s, k) -> k <> Abort ->
  let n := p_nBallots p in let st := cf_nseats cfg in
  let q := match r with
           | RWigm => if cf_integer_quota cfg then (1 + n / (st + 1)) * S else n * S / (st + 1) + 1
           | RWigmPrf | RCfer => n * S / (st + 1) + 1
           | _ => (n / (st + 1) + 1) * S
           end in
  R (quota s) = q /\ Forall (fun sn => R (as_quota sn) = q) (snaps A (actions s)).
Proof.
  intros Hns Heps Hex r text p fuel s k Hr Hp Hn He Hk. cbv zeta.
  pose proof (count_quota_prescribed A S ZL cfg Hns Heps Hex r _ fuel s k Hr He Hk) as H.
  unfold prescribed in H. rewrite Hn in H. exact H.
Qed.

(* cfer (no sure-loser batches): exactly min(seats, candidates not withdrawn) winners; cfer(-batch): the one-seat majority *)
Theorem accepted_winners_cfer : cf_method cfg = MWigm -> exact A = false -> 0 <= cf_nseats cfg -> cf_batch cfg = false ->
  forall text p fuel s k, parse_file text = Ok p -> p_linesEq p = [] -> cf_nballots cfg = p_nBallots p ->
  exec (@crashed A) fuel (count_cmd A cfg RCfer) (init_state A cfg (to_count_profile p)) = Some (s, k) -> k <> Abort ->
  nlen (electeds A s) = Z.min (cf_nseats cfg) (nlen (eligibles A s)).
Proof.
  intros Hm Hex Hns Hbt text p fuel s k Hp Hq Hn He Hk.
  pose proof (nballots_strict text p Hp Hq) as Hb. pose proof (vp_enough_ballots p (strip_bom_declared text p Hp)) as Hen.
  apply (count_winners_cfer A S ZL cfg Hm Hex ltac:(lia) Hns _ fuel s k Hbt (proj1 (accepted_file_is_wf text p Hp)) ltac:(congruence) He Hk).
Qed.

(* wigm with any defeat_batch option, wigm-prf and cfer with or without batches: exactly min(seats, candidates not withdrawn) winners *)
Theorem accepted_winners_any : cf_method cfg = MWigm -> exact A = false -> 0 <= cf_nseats cfg ->
  forall r, r = RWigm \/ r = RWigmPrf \/ r = RCfer ->
  forall text p fuel s k, parse_file text = Ok p -> p_linesEq p = [] -> cf_nballots cfg = p_nBallots p ->
  exec (@crashed A) fuel (count_cmd A cfg r) (init_state A cfg (to_count_profile p)) = Some (s, k) -> k <> Abort ->
  nlen (electeds A s) = Z.min (cf_nseats cfg) (nlen (eligibles A s)).
Proof.
  intros Hm Hex Hns r Hr text p fuel s k Hp Hq Hn He Hk.
  pose proof (nballots_strict text p Hp Hq) as Hb. pose proof (vp_enough_ballots p (strip_bom_declared text p Hp)) as Hen.
  destruct Hr as [-> | [-> | ->]].
  3: apply (count_winners_cfer_any A S ZL cfg Hm Hex ltac:(lia) Hns _ fuel s k (proj1 (accepted_file_is_wf text p Hp)) ltac:(congruence) He Hk).
  - apply (count_winners_wigm_any A S ZL cfg Hm Hex ltac:(lia) Hns _ fuel s k (proj1 (accepted_file_is_wf text p Hp)) ltac:(congruence) He Hk).
  - apply (count_winners_prf_any A S ZL cfg Hm Hex ltac:(lia) Hns _ fuel s k (proj1 (accepted_file_is_wf text p Hp)) ltac:(congruence) He Hk).
Qed.

(* QPQ, every arithmetic, equal-rank lines included: at most [seats] winners, exactly min(seats, candidates not withdrawn) *)
Theorem accepted_qpq : 0 <= cf_nseats cfg ->
  forall text p fuel s k, parse_file text = Ok p ->
  exec (@crashed A) fuel (count_cmd A cfg RQpq) (init_state A cfg (to_count_profile p)) = Some (s, k) -> k <> Abort ->
  nlen (electeds A s) <= cf_nseats cfg /\ nlen (electeds A s) = Z.min (cf_nseats cfg) (nlen (eligibles A s)).
Proof.
  intros Hns text p fuel s k Hp He Hk. pose proof (proj1 (proj1 (accepted_file_is_wf text p Hp))) as Hnd.
  split; [exact (count_seats_qpq A cfg _ fuel s k Hns Hnd He Hk)|exact (count_winners_qpq A cfg _ fuel s k Hns Hnd He Hk)].
Qed.

Theorem accepted_majority_cfer : exact A = false -> R (epsilon A) = 1 -> cf_nseats cfg = 1 ->
  forall text p m fuel s k, parse_file text = Ok p -> p_linesEq p = [] -> cf_nballots cfg = p_nBallots p ->
  In m (p_eligible p) -> p_nBallots p < 2 * first_prefs (to_count_profile p) m ->
  exec (@crashed A) fuel (count_cmd A cfg RCfer) (init_state A cfg (to_count_profile p)) = Some (s, k) -> k <> Abort ->
  forall c, In c (State.cands s) -> cid c = m -> cst c = Elected.
Proof.
  intros Hex Heps Hseat text p m fuel s k Hp Hq Hn Hel Hmaj He Hk.
  pose proof (strip_bom_declared text p Hp) as V. pose proof (nballots_strict text p Hp Hq) as Hb.
  apply (count_majority_cfer A S ZL cfg Hex Heps Hseat _ m fuel s k (proj1 (accepted_file_is_wf text p Hp)) ltac:(congruence)); [|lia|exact He|exact Hk].
  destruct (proj1 (vp_eligible p V m) Hel) as [Hr Hw]. apply live_cand; assumption.
Qed.

End Accepted.
