(* C04 for QPQ: after every tally that does not crash, the quota in force is the prescribed function of the totals the tally has just
   recorded -- active votes / (1 + seats - inactive share) -- under every arithmetic; and one step (election or exclusion) does not
   touch it. *)
From Coq Require Import ZArith List Bool String Lia.
From Droop Require Import Model.KernelBase Model.Str Model.Arith Model.Prelude Model.State Model.Prims Model.RulesMeek.
Import ListNotations.
Open Scope Z_scope.

Section QQ.
Variable A : arith.
Variable cfg : config.
Notation est := (est A).

Theorem qpq_tally_quota (s : est) : crashed (qpq_tally A cfg s) = false ->
  qpq_quota A cfg (qpq_tally A cfg s) = Ok (quota (qpq_tally A cfg s)).
Proof.
  unfold qpq_tally. cbv zeta.
  match goal with |- crashed (if crashed ?x then _ else _) = false -> _ => set (s3 := x) end.
  destruct (crashed s3) eqn:C3; [intros H; rewrite C3 in H; discriminate H|].
  unfold set_quota_r. destruct (qpq_quota A cfg s3) as [q|e] eqn:Eq; [intros _|unfold crashed; cbn [crash set_crash]; destruct (crash s3); intros H; discriminate H].
  cbn [quota set_quota]. rewrite <- Eq. reflexivity.
Qed.
End QQ.

(* the value, in the raw units of any arithmetic that satisfies the laws (Fixed, integer, Guarded, Rational instances):
   quota = floor(active * S / ((1 + seats) * S - inactive)) *)
From Droop Require Import Proofs.Zlike.
Section QQV.
Variable A : arith.
Variable S : Z.
Variable ZL : zlike A S.
Variable cfg : config.

Theorem qpq_tally_quota_value (s : est A) : crashed (qpq_tally A cfg s) = false ->
  raw ZL (quota (qpq_tally A cfg s)) =
  raw ZL (lv_va (qpq_tally A cfg s)) * S / ((1 + cf_nseats cfg) * S - raw ZL (lv_tx (qpq_tally A cfg s))).
Proof.
  intros Hc. pose proof (qpq_tally_quota A cfg s Hc) as H. unfold qpq_quota in H.
  set (t := qpq_tally A cfg s) in *.
  destruct (Z.eq_dec (raw ZL (sub A (of_int A (1 + cf_nseats cfg)) (lv_tx t))) 0) as [E0|E0].
  - rewrite (r_divv0 A S ZL _ _ E0) in H. discriminate H.
  - destruct (r_divv A S ZL (lv_va t) _ E0) as (c & Ec & Rc). rewrite Ec in H. injection H as <-.
    rewrite Rc, (r_sub A S ZL), (r_of_int A S ZL). reflexivity.
Qed.
End QQV.
