(* C08: a Meek/Warren vote distribution conserves votes exactly: what is credited to candidates plus the
   residual equals the ballots' multipliers (integer-carrier arithmetics; strict-ranking ballots). *)
From Coq Require Import ZArith List Bool Lia String.
From Droop Require Import Model.KernelBase Model.Arith Model.Prelude Model.State Model.Prims Model.RulesMeek
  Proofs.Zlike Proofs.Gregory.
Import ListNotations.
Open Scope Z_scope.

Section M.
Variable A : arith.
Variable S : Z.
Variable ZL : zlike A S.
Variable cfg : config.
Notation R := (@raw A S ZL).

Definition tot (l : list (cand A)) : Z := fold_right (fun c acc => R (cvote c) + acc) 0 l.

Lemma cids_upd_vote i v (l : list (cand A)) :
  map (@cid A) (upd_cand A i (fun c => with_vote c (add A (cvote c) v)) l) = map (@cid A) l.
Proof. unfold upd_cand. rewrite map_map. apply map_ext. intros c. destruct (cid c =? i); reflexivity. Qed.

(* one ballot: every kept value goes to exactly one candidate and is subtracted from the ballot's residual *)
Lemma dist_ballot_conserves r : forall cs mult w br,
  NoDup (map (@cid A) cs) ->
  let res := dist_ballot A cfg cs mult r w br in
  tot (fst (fst res)) + R (snd res) = tot cs + R br /\
  map (@cid A) (fst (fst res)) = map (@cid A) cs.
Proof.
  induction r as [|i r IH]; intros cs mult w br Hnd; cbn [dist_ballot]; [cbn; auto|].
  destruct (find_cand A cs i) as [c|] eqn:Ef; [|apply IH; exact Hnd].
  destruct (kf_truthy A c); [|apply IH; exact Hnd].
  destruct (kt A cfg (kf_of A c) w) as [keep w']. cbv zeta.
  set (kv := mulv A keep mult).
  assert (E1: tot (upd_cand A i (fun c0 => with_vote c0 (add A (cvote c0) kv)) cs) = tot cs + R kv).
  { unfold tot. apply (tot_add_vote A S ZL cs i kv Hnd). apply (find_in A _ _ _ Ef). }
  destruct (lev A w' (V0 A)); cbn [fst snd].
  - rewrite E1, (r_sub A S ZL), cids_upd_vote. split; [lia|reflexivity].
  - destruct (IH (upd_cand A i (fun c0 => with_vote c0 (add A (cvote c0) kv)) cs) mult w' (sub A br kv)) as [H1 H2].
    { rewrite cids_upd_vote. exact Hnd. }
    cbv zeta in H1, H2. rewrite H1, H2, E1, (r_sub A S ZL), cids_upd_vote. split; [lia|reflexivity].
Qed.

Lemma dist_ballot_prf_conserves r : forall cs mult w br,
  NoDup (map (@cid A) cs) ->
  let res := dist_ballot_prf A cs mult r w br in
  tot (fst (fst res)) + R (snd res) = tot cs + R br /\
  map (@cid A) (fst (fst res)) = map (@cid A) cs.
Proof.
  induction r as [|i r IH]; intros cs mult w br Hnd; cbn [dist_ballot_prf]; [cbn; auto|].
  destruct (find_cand A cs i) as [c|] eqn:Ef; [|apply IH; exact Hnd].
  destruct (kf_truthy A c); [|apply IH; exact Hnd]. cbv zeta.
  set (kv := mulv A (kmul A w (kf_of A c) true) mult).
  assert (E1: tot (upd_cand A i (fun c0 => with_vote c0 (add A (cvote c0) kv)) cs) = tot cs + R kv).
  { unfold tot. apply (tot_add_vote A S ZL cs i kv Hnd). apply (find_in A _ _ _ Ef). }
  destruct (lev A _ (V0 A)); cbn [fst snd].
  - rewrite E1, (r_sub A S ZL), cids_upd_vote. split; [lia|reflexivity].
  - match goal with |- context[dist_ballot_prf A ?cs' mult r ?w' ?br'] => destruct (IH cs' mult w' br') as [H1 H2] end.
    { rewrite cids_upd_vote. exact Hnd. }
    cbv zeta in H1, H2. rewrite H1, H2, E1, (r_sub A S ZL), cids_upd_vote. split; [lia|reflexivity].
Qed.

(* all strict ballots: candidates' tallies + accumulated residual = tallies before + sum of multipliers *)
Definition sum_mult (bs : list (ballot A)) : Z := fold_right (fun b acc => R (bmult b) + acc) 0 bs.

Lemma strict_fold_conserves (bs : list (ballot A)) : forall cs res acc,
  NoDup (map (@cid A) cs) ->
  let r := fold_left (fun '(cs, res_, acc) b =>
      let '(cs', w', br') := dist_ballot A cfg cs (bmult b) (brank b) (V1 A) (bmult b) in
      (cs', add A res_ br', with_bres (with_bweight b w') br' :: acc)) bs (cs, res, acc) in
  tot (fst (fst r)) + R (snd (fst r)) = tot cs + R res + sum_mult bs /\
  map (@cid A) (fst (fst r)) = map (@cid A) cs.
Proof.
  induction bs as [|b bs IH]; intros cs res acc Hnd; cbn [fold_left]; unfold sum_mult; cbn [fold_right]; [cbn [fst snd]; split; [lia|reflexivity]|]. fold (sum_mult bs).
  pose proof (dist_ballot_conserves (brank b) cs (bmult b) (V1 A) (bmult b) Hnd) as [H1 H2]. cbv zeta in H1, H2.
  destruct (dist_ballot A cfg cs (bmult b) (brank b) (V1 A) (bmult b)) as [[cs1 w1] br1]. cbn [fst snd] in H1, H2.
  destruct (IH cs1 (add A res br1) (with_bres (with_bweight b w1) br1 :: acc)) as [H3 H4]; [rewrite H2; exact Hnd|].
  cbv zeta in H3, H4. rewrite H3, H4, H2, (r_add A S ZL). split; [lia|reflexivity].
Qed.
End M.
