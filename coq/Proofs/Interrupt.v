(* Interrupted runs.  An interrupt after k micro-operations is modelled by running the same
   command tree over (budget, state): each Do consumes one unit and the run aborts when the
   budget is exhausted.  Theorem: if every micro-operation only extends the state in a preorder
   R (here: appends to the action list), the interrupted run ends in a state below the state the
   uninterrupted run ends in -- for every k, every tree, every fuel. *)
From Coq Require Import ZArith List Bool PArith Lia.
From Droop Require Import Model.Prelude Proofs.CmdMeta.
Import ListNotations.

Section Interrupt.
Variable St : Type.
Variable crashed : St -> bool.
Variable R : St -> St -> Prop.
Hypothesis R_refl : forall s, R s s.
Hypothesis R_trans : forall a b c, R a b -> R b c -> R a c.

Definition StI : Type := (nat * St)%type.
Definition crashedI (ns : StI) : bool := Nat.eqb (fst ns) 0 || crashed (snd ns).

Fixpoint lift (c : cmd St) : cmd StI :=
  match c with
  | Do f => Do (fun ns => match fst ns with O => ns | S n => (n, f (snd ns)) end)
  | Seq a b => Seq (lift a) (lift b)
  | Ite g a b => Ite (fun ns => g (snd ns)) (lift a) (lift b)
  | While g b => While (fun ns => g (snd ns)) (lift b)
  | Break => Break | Continue => Continue | Skip => Skip
  end.

(* interrupted result vs full result *)
Definition Rel (rF : option (St * ctl)) (rI : option (StI * ctl)) : Prop :=
  match rF with
  | None => True
  | Some (sF, kF) =>
    exists n sI kI, rI = Some ((n, sI), kI) /\ R sI sF /\
                    (n <> O -> sI = sF /\ kI = kF) /\ (n = O -> kI = Abort)
  end.
Definition Rel3 (rF : option (St * bool * ctl)) (rI : option (StI * bool * ctl)) : Prop :=
  match rF with
  | None => True
  | Some (sF, wF, kF) =>
    exists n sI wI kI, rI = Some ((n, sI), wI, kI) /\ R sI sF /\
                       (n <> O -> sI = sF /\ wI = wF /\ kI = kF) /\ (n = O -> wI = false /\ kI = Abort)
  end.

Section Loop.
Variable runF : St -> option (St * ctl).
Variable runI : StI -> option (StI * ctl).
Variable g : St -> bool.
Hypothesis Hrun : forall n s, n <> O -> Rel (runF s) (runI (n, s)).
Hypothesis HrunR : forall s s' k, runF s = Some (s', k) -> R s s'.

Lemma iter_rel n s : n <> O ->
  Rel3 (iter_once St runF g s) (iter_once StI runI (fun ns => g (snd ns)) (n, s)).
Proof.
  intros Hn. unfold iter_once. cbn [snd]. destruct (g s).
  - specialize (Hrun n s Hn). destruct (runF s) as [[sF kF]|]; [|exact I]. cbn in Hrun.
    destruct Hrun as (n' & sI & kI & -> & HR & Hne & He). destruct n' as [|n'].
    + pose proof (He eq_refl) as HkI. subst kI.
      destruct kF; cbn; exists O, sI; do 2 eexists; (split; [reflexivity|]); (split; [exact HR|]); split; try congruence; auto.
    + destruct (Hne ltac:(congruence)) as [-> ->].
      destruct kF; cbn; exists (S n'), sF; do 2 eexists; (split; [reflexivity|]); (split; [apply R_refl|]); split; auto; congruence.
  - cbn. exists n, s, false, Next. repeat split; auto; congruence.
Qed.

Lemma iter_R s r : iter_once St runF g s = Some r -> R s (fst (fst r)).
Proof.
  unfold iter_once. destruct (g s); [|intros H; inversion H; subst; apply R_refl].
  destruct (runF s) as [[s' k]|] eqn:E; [|discriminate]. pose proof (HrunR _ _ _ E).
  destruct k; intros H'; inversion H'; subst; assumption.
Qed.

Lemma loop_R p : forall s r, loopP St runF g p s = Some r -> R s (fst (fst r)).
Proof.
  induction p as [q IH|q IH|]; intros s r H; cbn [loopP] in H.
  - destruct (iter_once St runF g s) as [[[s1 w1] k1]|] eqn:E1; [|discriminate].
    pose proof (iter_R _ _ E1) as R1. cbn in R1. destruct w1; [|inversion H; subst; exact R1].
    destruct (loopP St runF g q s1) as [[[s2 w2] k2]|] eqn:E2; [|discriminate].
    pose proof (IH _ _ E2) as R2. cbn in R2. destruct w2; [|inversion H; subst; eauto].
    pose proof (IH _ _ H). eauto.
  - destruct (loopP St runF g q s) as [[[s1 w1] k1]|] eqn:E1; [|discriminate].
    pose proof (IH _ _ E1) as R1. cbn in R1. destruct w1; [|inversion H; subst; exact R1].
    pose proof (IH _ _ H). eauto.
  - exact (iter_R _ _ H).
Qed.

Lemma loop_rel p : forall n s, n <> O ->
  Rel3 (loopP St runF g p s) (loopP StI runI (fun ns => g (snd ns)) p (n, s)).
Proof.
  induction p as [q IH|q IH|]; intros n s Hn; cbn [loopP].
  - pose proof (iter_rel n s Hn) as H1.
    destruct (iter_once St runF g s) as [[[s1 w1] k1]|] eqn:E1; [|exact I]. cbn in H1.
    destruct H1 as (n1 & sI1 & wI1 & kI1 & -> & HR1 & Hne1 & He1).
    destruct n1 as [|n1].
    + destruct (He1 eq_refl) as [-> ->].
      (* interrupted during the first iteration; the full run goes on and only extends *)
      destruct w1.
      * destruct (loopP St runF g q s1) as [[[s2 w2] k2]|] eqn:E2; [|exact I].
        pose proof (loop_R _ _ _ E2) as R2. cbn in R2.
        destruct w2.
        -- destruct (loopP St runF g q s2) as [[[s3 w3] k3]|] eqn:E3; [|exact I].
           pose proof (loop_R _ _ _ E3) as R3. cbn in R3. cbn.
           exists O, sI1, false, Abort. repeat split; eauto; congruence.
        -- cbn. exists O, sI1, false, Abort. repeat split; eauto; congruence.
      * cbn. exists O, sI1, false, Abort. repeat split; eauto; congruence.
    + destruct (Hne1 ltac:(congruence)) as (-> & -> & ->).
      destruct w1; [|cbn; exists (S n1), s1, false, k1; repeat split; auto; congruence].
      pose proof (IH (S n1) s1 ltac:(congruence)) as H2.
      destruct (loopP St runF g q s1) as [[[s2 w2] k2]|] eqn:E2; [|exact I]. cbn in H2.
      destruct H2 as (n2 & sI2 & wI2 & kI2 & -> & HR2 & Hne2 & He2).
      destruct n2 as [|n2].
      * destruct (He2 eq_refl) as [-> ->].
        destruct w2.
        -- destruct (loopP St runF g q s2) as [[[s3 w3] k3]|] eqn:E3; [|exact I].
           pose proof (loop_R _ _ _ E3) as R3. cbn in R3. cbn.
           exists O, sI2, false, Abort. repeat split; eauto; congruence.
        -- cbn. exists O, sI2, false, Abort. repeat split; eauto; congruence.
      * destruct (Hne2 ltac:(congruence)) as (-> & -> & ->).
        destruct w2; [apply IH; congruence|]. cbn. exists (S n2), s2, false, k2. repeat split; auto; congruence.
  - pose proof (IH n s Hn) as H1.
    destruct (loopP St runF g q s) as [[[s1 w1] k1]|] eqn:E1; [|exact I]. cbn in H1.
    destruct H1 as (n1 & sI1 & wI1 & kI1 & -> & HR1 & Hne1 & He1).
    destruct n1 as [|n1].
    + destruct (He1 eq_refl) as [-> ->].
      destruct w1.
      * destruct (loopP St runF g q s1) as [[[s2 w2] k2]|] eqn:E2; [|exact I].
        pose proof (loop_R _ _ _ E2) as R2. cbn in R2. cbn.
        exists O, sI1, false, Abort. repeat split; eauto; congruence.
      * cbn. exists O, sI1, false, Abort. repeat split; eauto; congruence.
    + destruct (Hne1 ltac:(congruence)) as (-> & -> & ->).
      destruct w1; [apply IH; congruence|]. cbn. exists (S n1), s1, false, k1. repeat split; auto; congruence.
  - apply iter_rel; exact Hn.
Qed.
End Loop.

Theorem interrupted_below : forall c, steps St R c -> forall fuel n s, n <> O ->
  Rel (exec crashed fuel c s) (exec crashedI fuel (lift c) (n, s)).
Proof.
  induction c as [f|a IHa b IHb|g a IHa b IHb|g body IH| | |]; intros Hs fuel n s Hn; cbn [exec lift steps] in *.
  - destruct n as [|n]; [congruence|]. cbn [fst snd]. unfold crashedI. cbn [fst snd].
    destruct n as [|n]; cbn [Nat.eqb orb].
    + exists O, (f s), Abort. repeat split; auto; congruence.
    + exists (S n), (f s). eexists. split; [reflexivity|]. split; [apply R_refl|]. split; [auto|congruence].
  - destruct Hs as [Ha Hb]. pose proof (IHa Ha fuel n s Hn) as H1.
    destruct (exec crashed fuel a s) as [[s1 k1]|] eqn:E1; [|exact I]. cbn in H1.
    destruct H1 as (n1 & sI1 & kI1 & -> & HR1 & Hne1 & He1).
    destruct n1 as [|n1].
    + rewrite (He1 eq_refl).
      destruct k1.
      * destruct (exec crashed fuel b s1) as [[s2 k2]|] eqn:E2; [|exact I].
        pose proof (exec_steps St crashed R R_refl R_trans b fuel s1 s2 k2 Hb E2) as R2. cbn.
        exists O, sI1, Abort. repeat split; eauto; congruence.
      * cbn. exists O, sI1, Abort. repeat split; eauto; congruence.
      * cbn. exists O, sI1, Abort. repeat split; eauto; congruence.
      * cbn. exists O, sI1, Abort. repeat split; eauto; congruence.
    + destruct (Hne1 ltac:(congruence)) as [-> ->].
      destruct k1; try (cbn; exists (S n1), s1; eexists; repeat split; eauto; congruence).
      apply IHb; [exact Hb|congruence].
  - destruct Hs as [Ha Hb]. cbn [snd]. destruct (g s); [apply IHa|apply IHb]; assumption.
  - pose proof (loop_rel (exec crashed fuel body) (exec crashedI fuel (lift body)) g
                 (fun n0 s0 H0 => IH Hs fuel n0 s0 H0)
                 (fun s0 s' k E => exec_steps St crashed R R_refl R_trans body fuel s0 s' k Hs E) fuel n s Hn) as H.
    destruct (loopP St (exec crashed fuel body) g fuel s) as [[[s1 w1] k1]|] eqn:E1; [|exact I]. cbn in H.
    destruct H as (n1 & sI1 & wI1 & kI1 & EI & HR1 & Hne1 & He1).
    destruct w1; [exact I|].
    change (Rel (Some (s1, k1)) (match loopP StI (exec crashedI fuel (lift body)) (fun ns => g (snd ns)) fuel (n, s) with
       | Some (s', false, k) => Some (s', k) | Some (_, true, _) => None | None => None end)).
    rewrite EI.
    destruct n1 as [|n1].
    + destruct (He1 eq_refl) as [-> ->]. cbn. exists O, sI1, Abort. repeat split; auto; congruence.
    + destruct (Hne1 ltac:(congruence)) as (-> & -> & ->). cbn. exists (S n1), s1, k1. repeat split; auto; congruence.
  - cbn. exists n, s, Brk. repeat split; auto; congruence.
  - cbn. exists n, s, Cont. repeat split; auto; congruence.
  - cbn. exists n, s, Next. repeat split; auto; congruence.
Qed.
End Interrupt.
