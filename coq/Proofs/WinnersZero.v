(* The number of winners (C01) for the parametric wigm rule WITH defeat_batch=zero: the batch of zero-tally hopefuls is only
   excluded when "hopefuls - batch >= seats left to fill" (the guard repaired by fix F7), its members are distinct hopefuls,
   so the invariant of Winners.v survives it -- with the guard dropped or miscounted the proof of [wigm_defeat_wi] fails. *)
From Coq Require Import ZArith List Bool String Lia PArith Permutation.
From Droop Require Import Model.KernelBase Model.Str Model.Arith Model.Prelude Model.State Model.Prims Model.RulesGregory
  Model.Election Proofs.CmdMeta Proofs.Zlike Proofs.Status Proofs.Ties Proofs.SortLemmas Proofs.Forward Proofs.ForwardOps
  Proofs.Terminate Proofs.TerminateQpq Proofs.Conserve Proofs.ConserveCount Proofs.Winners Proofs.WinnersBatch.
Import ListNotations.
Open Scope Z_scope.

Section WZ.
Variable A : arith.
Variable S : Z.
Variable ZL : zlike A S.
Variable cfg : config.
Hypothesis Hex : exact A = false.
Notation est := (est A).
Notation cand := (cand A).
Notation actn := (actn A).
Notation hopn := (hopn A).
Notation eln := (eln A).
Notation dfn := (dfn A).
Notation sl := (sl A).
Notation seats := (cf_nseats cfg).
Notation WI := (WI A cfg).
Local Open Scope cmd_scope.
Notation T3 := (triple est (@crashed A)).

Lemma sl_fold_transfer_defeated (L : list cand) : forall t : est,
  sl (fold_left (fun s c => transfer_defeated_one A cfg (cid c) s) L t) = sl t.
Proof. induction L as [|c L IH]; intros t; cbn [fold_left]; [reflexivity|]. rewrite IH. apply sl_transfer_defeated_one. Qed.

(* wigm's zero batch (defeat_batch=zero): when the step takes the batch branch, exactly the candidates tied at the lowest (zero)
   tally are excluded -- nobody is elected, the number of excluded grows by the size of the batch -- and the candidates still
   in the running (elected + hopeful) are at least as many as the seats *)
Theorem zero_batch_leaves_enough (s : est) lv lows : NoDup (map (@cid A) (cands s)) -> low_candidates A s = Some (lv, lows) ->
  eqv A lv (V0 A) && cf_batch_zero cfg && (seats_left A cfg s <=? nlen (hopefuls A s) - nlen lows) = true ->
  let r := wigm_defeat A cfg s in
  eln r = eln s /\ dfn r = (dfn s + List.length lows)%nat /\ seats <= Z.of_nat (actn r) /\ map (@cid A) (cands r) = map (@cid A) (cands s).
Proof.
  intros Hnd El Eg. cbv zeta. unfold wigm_defeat. rewrite El, Eg.
  apply andb_prop in Eg. destruct Eg as [_ Eg]. apply Z.leb_le in Eg.
  unfold low_candidates in El. destruct (min_vote A (hopefuls A s)) as [lv0|]; [|discriminate El]. injection El as <- <-.
  set (lows := filter (fun c => eqv A (cvote c) lv0) (hopefuls A s)) in *.
  assert (Hnl: NoDup (map (@cid A) lows)) by (unfold lows, hopefuls; apply nodup_map_filter, nodup_map_filter; exact Hnd).
  assert (Hh: forall c, In c lows -> HopId A s (cid c)).
  { intros c Hc. exists c. split; [|reflexivity]. unfold lows in Hc. apply filter_In in Hc. exact (proj1 Hc). }
  destruct (defeat_all_fold A cfg "Defeat batch(zero)" lows s Hnd Hnl Hh) as (F1 & F2 & F3). cbv zeta in *.
  set (s1 := fold_left (fun s c => defeat A cfg (cid c) "Defeat batch(zero)" s) lows s) in *.
  assert (Eids: map (@cid A) (cands s1) = map (@cid A) (cands s)) by (unfold s1; apply ids_fold_defeat).
  assert (Hge: seats <= Z.of_nat (actn s1)).
  { rewrite (actn_split A s1), F1. unfold seats_left in Eg. rewrite (nlen_electeds A), (nlen_hopefuls A) in Eg. unfold nlen in Eg. lia. }
  destruct (counts_sl4 A _ _ (sl_fold_transfer_defeated lows s1)) as (E1 & E2 & E3 & E4).
  pose proof (mono_sl A s1 _ (sl_fold_transfer_defeated lows s1)) as (_ & _ & M3).
  rewrite E1, E3, E4, M3. split; [exact F1|split; [exact F3|split; [exact Hge|exact Eids]]].
Qed.

(* the exclusion step of wigm, zero batch or single exclusion: afterwards the seats can still be filled *)
Lemma wigm_defeat_wi (s : est) : WI s -> seats < Z.of_nat (actn s) -> WI (wigm_defeat A cfg s).
Proof.
  intros H Hlt. destruct (low_candidates A s) as [[lv lows]|] eqn:El.
  2:{ unfold wigm_defeat. rewrite El. apply (wi_mono A cfg s); [apply mono_sl; reflexivity|exact H]. }
  destruct (eqv A lv (V0 A) && cf_batch_zero cfg && (seats_left A cfg s <=? nlen (hopefuls A s) - nlen lows)) eqn:Eg.
  - destruct (zero_batch_leaves_enough s lv lows (proj1 H) El Eg) as (_ & _ & Hge & Eids). cbv zeta in *.
    split; [rewrite Eids; exact (proj1 H)|right; exact Hge].
  - unfold wigm_defeat. rewrite El, Eg. exact (wi_defeat_after_tie A cfg _ "Defeat" lv lows s (bt_simple_ok A cfg "defeat") H Hlt El).
Qed.

Lemma wigm_winners_any (Qb Qc : est -> Prop) : T3 WI (wigm A cfg) (POST A cfg) Qb Qc.
Proof.
  unfold wigm.
  eapply t_seq with (M := WI).
  { apply t_do. intros s H. apply (wi_mono A cfg s); [|exact H]. eapply mono_trans; [apply mono_sl, sl_start_count|apply mono_log]. }
  eapply t_seq with (M := WI).
  { eapply t_post; [|apply (t_while est (@crashed A) WI (fun _ => False))].
    - intros s [H|[H _]]; [contradiction|exact H].
    - eapply t_seq with (M := fun s => WI s /\ seats < Z.of_nat (actn s)).
      { apply t_do. intros s [H Hg]. pose proof (guard_actn A cfg s Hg) as Hlt. pose proof (mono_sl A s (new_round A cfg s) (sl_log A cfg _ _ _)) as M.
        split; [apply (wi_mono A cfg s); assumption|destruct M as (_ & M2 & _); lia]. }
      eapply t_seq with (M := fun s => WI s /\ seats < Z.of_nat (actn s)).
      { apply t_do. intros s [H Hlt]. pose proof (mono_elect_with_quota A cfg (has_quota_exact A) (fun _ _ => true) None (fun _ => true) s) as M.
        split; [apply (wi_mono A cfg s); assumption|destruct M as (_ & M2 & _); lia]. }
      apply t_ite.
      + apply t_do. intros s [[H _] _]. apply (wi_mono A cfg s); [apply mono_transfer_high, bt_simple_ok|exact H].
      + apply t_ite; [|apply t_skip'; intros s [[[H _] _] _]; exact H].
        apply t_do. intros s [[[H Hlt] _] _]. exact (wigm_defeat_wi s H Hlt). }
  eapply t_seq with (M := WI).
  { apply t_do. intros s H. apply (wi_mono A cfg s); [apply mono_unpend_all|exact H]. }
  apply t_do. intros s H. exists s. split; [exact H|reflexivity].
Qed.
End WZ.

Section WZCount.
Variable A : arith.
Variable S : Z.
Variable ZL : zlike A S.
Variable cfg : config.
Hypothesis Hmeth : cf_method cfg = MWigm.
Hypothesis Hex : exact A = false.
Hypothesis Hnb : 0 <= cf_nballots cfg.
Hypothesis Hns : 0 <= cf_nseats cfg.

(* wigm with defeat_batch=none and defeat_batch=zero alike: a count that ends normally elects exactly min(seats, candidates not withdrawn) *)
Theorem count_winners_wigm_any pr fuel s k : wf_profile pr -> cf_nballots cfg = ballot_total pr ->
  exec (@crashed A) fuel (count_cmd A cfg RWigm) (init_state A cfg pr) = Some (s, k) -> k <> Abort ->
  nlen (electeds A s) = Z.min (cf_nseats cfg) (nlen (eligibles A s)).
Proof.
  intros Hwf Hnbt He Hk.
  assert (Hsr: seat_rule RWigm) by (left; reflexivity).
  pose proof (count_seats A S ZL cfg Hmeth Hex Hnb Hns RWigm pr fuel s k Hsr Hwf Hnbt He Hk) as Hle.
  assert (Ht: triple (est A) (@crashed A) (fun s0 => s0 = init_state A cfg pr) (count_cmd A cfg RWigm)
            (fun sf => exists s2, WI A cfg s2 /\ sl A sf = sl A (elect_or_defeat_remaining A cfg s2)) (fun _ => False) (fun _ => False)).
  { unfold count_cmd. eapply t_seq with (M := WI A cfg).
    - apply t_do. intros s0 ->. apply wi_init. exact (proj1 Hwf).
    - eapply t_seq with (M := POST A cfg); [cbn [rule_cmd]; apply (wigm_winners_any A cfg Hex)|].
      apply t_do. intros s0 (s2 & W2 & ->). exists s2. split; [exact W2|apply sl_log]. }
  specialize (Ht fuel _ s k eq_refl He). destruct k; try contradiction.
  destruct Ht as (s2 & W2 & Esl). destruct (counts_sl4 A _ _ Esl) as (E1 & E2 & E3 & E4).
  rewrite (nlen_electeds A), (nlen_eligibles A Hex). rewrite (nlen_electeds A) in Hle. unfold nonw. rewrite E1, E3, E4 in *.
  destruct (eodr_counts A cfg s2 (proj1 W2)) as (C1 & _ & _). cbv zeta in C1.
  assert (Hle2: Z.of_nat (eln A s2) <= cf_nseats cfg) by lia.
  destruct (winners_from_inv A cfg s2 W2 Hle2) as (F1 & F2 & _). unfold nonw in F2. rewrite F1. f_equal. f_equal. unfold nonw. symmetry. exact F2.
Qed.
End WZCount.
