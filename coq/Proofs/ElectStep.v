(* The election step is complete: after it no hopeful candidate holds the quota (C04). *)
From Coq Require Import ZArith List Bool String Lia ZifyBool.
From Droop Require Import Model.KernelBase Model.Str Model.Arith Model.Prelude Model.State Model.Prims
  Proofs.Status Proofs.SortLemmas.
Import ListNotations.
Open Scope Z_scope.

Section ElectStep.
Variable A : arith.
Variable cfg : config.
Notation est := (est A).
Notation cand := (cand A).

Lemma quota_log' t m (s : est) : quota (log_action A cfg t m s) = quota s.
Proof. unfold log_action. destruct (is_log t); [reflexivity|]. destruct (is_round t); reflexivity. Qed.
Lemma quota_elect' i m p (s : est) : quota (elect A cfg i m p s) = quota s.
Proof. unfold elect. destruct (find_cand A (cands s) i); [rewrite quota_log'|]; reflexivity. Qed.

Lemma hopeful_after_elect i m p (s : est) c' : In c' (cands (elect A cfg i m p s)) -> is_hopeful A c' = true ->
  In c' (cands s) /\ cid c' <> i.
Proof.
  unfold elect. destruct (find_cand A (cands s) i) as [c|] eqn:Ef.
  - rewrite cands_log. unfold upd, upd_cand. cbn [cands set_cands]. intros Hin Hh. apply in_map_iff in Hin. destruct Hin as (c0 & E & Hc0).
    destruct (cid c0 =? i) eqn:Ei.
    + subst c'. unfold is_hopeful, in_state in Hh. cbn in Hh. discriminate.
    + subst c'. split; [exact Hc0|lia].
  - cbn [cands set_crash]. intros Hin _. split; [exact Hin|]. intros E.
    assert (Hf: exists c, find_cand A (cands s) i = Some c) by (apply find_cand_in; rewrite <- E; apply in_map; exact Hin).
    destruct Hf as [c Hf]. congruence.
Qed.

Lemma fold_elect_hopeful (msg : option string) (pend : est -> cand -> bool) (l : list cand) : forall (s : est) c',
  let s' := fold_left (fun s c => match msg with
                                  | None => elect_default A cfg (cid c) (pend s c) s
                                  | Some m => elect A cfg (cid c) m (pend s c) s end) l s in
  (quota s' = quota s) /\
  (In c' (cands s') -> is_hopeful A c' = true -> In c' (cands s) /\ ~ In (cid c') (map (@cid A) l)).
Proof.
  induction l as [|c0 l IH]; intros s c'; cbn [fold_left map].
  - split; [reflexivity|]. intros H _. split; [exact H|intros []].
  - set (s1 := match msg with None => elect_default A cfg (cid c0) (pend s c0) s | Some m => elect A cfg (cid c0) m (pend s c0) s end).
    destruct (IH s1 c') as [Eq Hc]. cbv zeta in *.
    assert (Eq1: quota s1 = quota s) by (unfold s1; destruct msg; [|unfold elect_default]; apply quota_elect').
    split; [rewrite Eq; exact Eq1|]. intros Hin Hh. destruct (Hc Hin Hh) as [Hin1 Hn].
    assert (H1: In c' (cands s) /\ cid c' <> cid c0).
    { unfold s1 in Hin1. destruct msg; [|unfold elect_default in Hin1]; exact (hopeful_after_elect _ _ _ _ _ Hin1 Hh). }
    destruct H1 as [Hin0 Hne]. split; [exact Hin0|]. intros [E|H']; [congruence|exact (Hn H')].
Qed.

Theorem elect_step_complete (hq : est -> cand -> bool) pend msg (s : est) :
  (forall s1 s2 c, quota s1 = quota s2 -> hq s1 c = hq s2 c) ->
  forall c', In c' (cands (elect_with_quota A cfg hq pend msg (fun _ => true) s)) -> is_hopeful A c' = true ->
  hq (elect_with_quota A cfg hq pend msg (fun _ => true) s) c' = false.
Proof.
  intros Hext c' Hin Hh. unfold elect_with_quota in *. cbv zeta in *.
  set (l := filter (fun c => true && hq s c) (by_vote A true (hopefuls A s))) in *.
  destruct (fold_elect_hopeful msg pend l s c') as [Eq Hc]. cbv zeta in *. destruct (Hc Hin Hh) as [Hin0 Hn].
  rewrite (Hext _ s c' Eq). destruct (hq s c') eqn:E; [|reflexivity]. exfalso. apply Hn. apply in_map. unfold l. apply filter_In.
  split; [|rewrite E; reflexivity]. unfold by_vote. apply py_sorted_in. unfold hopefuls. apply filter_In. split; [exact Hin0|exact Hh].
Qed.

Lemma ge_quota_ext (s1 s2 : est) c : quota s1 = quota s2 -> ge_quota A s1 c = ge_quota A s2 c.
Proof. intros E. unfold ge_quota. rewrite E. reflexivity. Qed.
Lemma has_quota_exact_ext (s1 s2 : est) c : quota s1 = quota s2 -> has_quota_exact A s1 c = has_quota_exact A s2 c.
Proof. intros E. unfold has_quota_exact. rewrite E. reflexivity. Qed.
End ElectStep.
