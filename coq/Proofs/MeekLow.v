(* After fix F11 (/repo 00f004d) the list of candidates offered to breakTie at the Meek defeat step is never empty:
   when no hopeful is within the (negative) surplus of the lowest tally, the holders of the lowest tally are offered. *)
From Coq Require Import ZArith List Bool Lia ZifyBool QArith.
From Droop Require Import Model.KernelBase Model.Arith Model.Prelude Model.State Model.Prims Model.RulesMeek
  Gen.FixedKernels Gen.GuardedKernels Proofs.ArithLemmas Proofs.GuardedLemmas Proofs.Zlike.
Import ListNotations.
Open Scope Z_scope.

Lemma fold_pick_in {X} (f : X -> X -> bool) t x : In (fold_left (fun m y => if f y m then y else m) t x) (x :: t).
Proof.
  revert x; induction t as [|y t IH]; intros x; cbn [fold_left]; [left; reflexivity|].
  destruct (IH (if f y x then y else x)) as [E|Hin].
  - rewrite <- E. destruct (f y x); [right; left; reflexivity | left; reflexivity].
  - right; right; exact Hin.
Qed.

Record minlaws (A : arith) := {
  vmin_in : forall x l, In (vmin A x l) (x :: l);
  eqv_refl : forall a, eqv A a a = true
}.

Lemma minlaws_fixed p d : minlaws (Fixed p d).
Proof.
  split; cbn [Fixed vmin eqv].
  - intros x l. unfold FixedKernels.min, py_min_by. cbn [bind unres]. apply fold_pick_in.
  - intros a. unfold FixedKernels.dunder_eq, operand_value, bind, res_true. rewrite Z.eqb_refl. reflexivity.
Qed.

Lemma minlaws_guarded p g d s : 0 <= g -> minlaws (Guarded p g d s).
Proof.
  intros Hg. split; cbn [Guarded vmin eqv].
  - intros x l. unfold GuardedKernels.min. cbn [unres]. apply fold_pick_in.
  - intros a. destruct (rel_of_cmp (mk_guarded_cls p g d s) a a) as (E1 & _). rewrite E1, res_true_ok.
    destruct (geps_spec p g d s Hg) as [He _]. rewrite Z.sub_diag. change (Z.abs 0) with 0. lia.
Qed.

Lemma minlaws_rational dp : minlaws (Rational dp).
Proof.
  split; cbn [Rational vmin eqv].
  - intros x l. unfold py_min_by. cbn [unres]. apply fold_pick_in.
  - intros a. apply Qeq_bool_iff. reflexivity.
Qed.

Theorem low_within_nonempty A (L : minlaws A) (s : est A) lows :
  low_within_surplus A s = Ok lows -> lows <> [].
Proof.
  unfold low_within_surplus. destruct (map (@cvote A) (hopefuls A s)) as [|x l] eqn:Em; [discriminate|].
  intros H; inversion H as [Hl]; clear H.
  destruct (filter (fun c => gev A (add A (vmin A x l) (surplus s)) (cvote c)) (hopefuls A s)) as [|c0 r] eqn:Ef; [|discriminate].
  pose proof (vmin_in A L x l) as Hin. rewrite <- Em in Hin. apply in_map_iff in Hin. destruct Hin as (c & Ec & Hc).
  intros E0. assert (Hf: In c (filter (fun c => eqv A (cvote c) (vmin A x l)) (hopefuls A s))).
  { apply filter_In. split; [exact Hc|]. rewrite Ec. apply (eqv_refl A L). }
  rewrite E0 in Hf. exact Hf.
Qed.
