(* Forward-only status for whole counts (every rule except QPQ, whose restart un-elects). *)
From Coq Require Import ZArith List Bool String Lia Sorted PArith.
From Droop Require Import Model.KernelBase Model.Str Model.Arith Model.Prelude Model.State Model.Prims
  Model.RulesGregory Model.RulesMeek Model.Election Proofs.CmdMeta Proofs.Forward Proofs.ForwardOps
  Proofs.ForwardMeek Proofs.ForwardGreg2.
Import ListNotations.
Open Scope Z_scope.

Section FC.
Variable A : arith.
Variable cfg : config.
Notation est := (est A).

Lemma pres_triple (Inv : est -> Prop) c : pres est Inv c -> triple est (@crashed A) Inv c Inv Inv Inv.
Proof.
  intros Hp fuel s s' k Hi He. pose proof (exec_inv est (@crashed A) Inv c fuel s s' k Hp Hi He) as H.
  destruct k; auto.
Qed.

Definition not_qpq (r : rule) : Prop := match r with RQpq => False | _ => True end.

Theorem rule_forward x r : ND A x -> not_qpq r ->
  triple est (@crashed A) (InvF A x) (rule_cmd A cfg r) (InvF A x) (InvF A x) (InvF A x).
Proof.
  intros Hx Hr. destruct r; cbn [rule_cmd]; try contradiction.
  - apply pres_triple, wigm_forward; exact Hx.
  - apply wigm_prf_forward; exact Hx.
  - apply pres_triple, scotland_forward; exact Hx.
  - apply cfer_forward; exact Hx.
  - apply mpls_forward; exact Hx.
  - apply meek_forward; exact Hx.
  - apply pres_triple, meek_prf_forward; exact Hx.
Qed.

(* snapshots of an action list, newest first *)
Fixpoint snaps (l : list (action A)) : list (asnap A) :=
  match l with
  | [] => []
  | a :: t => match a_snap a with Some sn => sn :: snaps t | None => snaps t end
  end.

Lemma chain_sorted lo l : forall hi, chain A lo l hi ->
  StronglySorted (fun newer older => FwdL (ssn A older) (ssn A newer)) (snaps l) /\
  Forall (fun sn => FwdL lo (ssn A sn) /\ FwdL (ssn A sn) hi) (snaps l).
Proof.
  induction l as [|a t IH]; intros hi H; cbn [chain snaps] in *; [split; constructor|].
  destruct (a_snap a) as [sn|].
  - destruct H as [H1 H2]. destruct (IH _ H2) as [S F]. split.
    + constructor; [exact S|]. eapply Forall_impl; [|exact F]. cbn. intros x [_ Hx]. exact Hx.
    + constructor; [split; [eapply chain_fwd; exact H2|exact H1]|].
      eapply Forall_impl; [|exact F]. cbn. intros x [Hx1 Hx2]. split; [exact Hx1|eapply FwdL_trans; eauto].
  - apply IH. exact H.
Qed.

(* the initial state: distinct cids carry over; its actions are all 'log' *)
Lemma init_cands (pr : profile) : cands (init_state A cfg pr) = map (init_cand A) (pr_cands pr).
Proof.
  unfold init_state. cbv zeta. cbn [cands set_eballots set_ballots].
  assert (G: forall (l : list pcand) (s0 : est),
    cands (fold_left (fun s p => log_msg A cfg ((if pc_withdrawn p then "Add withdrawn: " else if pc_undeclared p then "Add undeclared: " else "Add eligible: ") ++ pc_name p)%string
                                       (set_cands s (cands s ++ [init_cand A p])%list)) l s0) = (cands s0 ++ map (init_cand A) l)%list).
  { induction l as [|p l IH]; intros s0; cbn [fold_left map]; [rewrite app_nil_r; reflexivity|].
    rewrite IH. unfold log_msg, log_action. cbn [is_log cands set_actions set_cands]. rewrite <- app_assoc. reflexivity. }
  rewrite G. reflexivity.
Qed.
Lemma init_snaps (pr : profile) : snaps (actions (init_state A cfg pr)) = [].
Proof.
  unfold init_state. cbv zeta. cbn [actions set_eballots set_ballots].
  assert (G: forall (l : list pcand) (s0 : est), snaps (actions s0) = [] ->
    snaps (actions (fold_left (fun s p => log_msg A cfg ((if pc_withdrawn p then "Add withdrawn: " else if pc_undeclared p then "Add undeclared: " else "Add eligible: ") ++ pc_name p)%string
                                       (set_cands s (cands s ++ [init_cand A p])%list)) l s0)) = []).
  { induction l as [|p l IH]; intros s0 H0; cbn [fold_left]; [exact H0|]. apply IH.
    unfold log_msg, log_action. cbn [is_log actions set_actions set_cands snaps a_snap]. exact H0. }
  apply G. reflexivity.
Qed.

Lemma snaps_app l1 l2 : snaps (l1 ++ l2) = (snaps l1 ++ snaps l2)%list.
Proof. induction l1 as [|a t IH]; cbn [app snaps]; [reflexivity|]. destruct (a_snap a); cbn; rewrite IH; reflexivity. Qed.

(* C09 (statuses): in the record of a count that ends normally, any later snapshot is forward of any earlier
   one, every snapshot is forward of the initial statuses, and the final statuses are forward of every snapshot *)
Theorem count_forward r pr fuel s :
  not_qpq r -> NoDup (map pc_cid (pr_cands pr)) ->
  exec (@crashed A) fuel (count_cmd A cfg r) (init_state A cfg pr) = Some (s, Next) ->
  StronglySorted (fun newer older => FwdL (ssn A older) (ssn A newer)) (snaps (actions s)) /\
  Forall (fun sn => FwdL (stl A (cands (init_state A cfg pr))) (ssn A sn) /\ FwdL (ssn A sn) (stl A (cands s))) (snaps (actions s)) /\
  FwdL (stl A (cands (init_state A cfg pr))) (stl A (cands s)).
Proof.
  intros Hr Hnd He. set (x := init_state A cfg pr) in *.
  assert (Hx: ND A x).
  { unfold ND, x. rewrite init_cands, map_map. cbn [cid init_cand]. exact Hnd. }
  assert (T: triple est (@crashed A) (InvF A x) (count_cmd A cfg r) (InvF A x) (InvF A x) (InvF A x)).
  { unfold count_cmd. eapply t_seq with (M := InvF A x).
    - apply t_do. intros s0 Hs. unfold InvF in *. apply r_cands; [exact Hs|].
      rewrite stl_map_same; [apply FwdL_refl|]. intros c; repeat split.
    - eapply t_seq with (M := InvF A x); [apply rule_forward; assumption|].
      apply t_do. intros s0 Hs. apply f_log. exact Hs. }
  pose proof (T fuel x s Next (R_refl A x) He) as HR. cbn in HR. destruct HR as (l & El & C).
  destruct (chain_sorted _ _ _ C) as [S F].
  rewrite El, snaps_app. replace (snaps (actions x)) with (@nil (asnap A)) by (symmetry; apply init_snaps).
  rewrite !app_nil_r. split; [exact S|]. split; [exact F|].
  eapply chain_fwd; exact C.
Qed.
End FC.

(* withdrawn means withdrawn throughout: forward steps neither leave nor enter the Withdrawn state *)
Lemma fwd_withdrawn a b : fwd a b -> (fst a = Withdrawn <-> fst b = Withdrawn).
Proof. destruct a as [[] pa], b as [[] pb]; cbn; intros H; try contradiction; split; intros X; try discriminate X; auto. Qed.
Lemma fwdl_withdrawn x y : FwdL x y ->
  Forall2 (fun a b => fst a = fst b /\ (fst (snd a) = Withdrawn <-> fst (snd b) = Withdrawn)) x y.
Proof. induction 1 as [|a b x y [E F] _ IH]; constructor; [split; [exact E|apply fwd_withdrawn; exact F]|exact IH]. Qed.
