(* Lemmas about the regenerated Guarded kernels (C13) *)
From Coq Require Import ZArith QArith Qround List Bool Lia ZifyBool.
From Droop Require Import Model.KernelBase Model.Arith Gen.FixedKernels Gen.GuardedKernels Proofs.ArithLemmas.
Import ListNotations.
Open Scope Z_scope.

Lemma pow10_pos' k : 0 <= k -> 0 < 10 ^ k.
Proof. intros. apply Z.pow_pos_nonneg; lia. Qed.

Lemma pow10_even k : 1 <= k -> 10 ^ k = 2 * (10 ^ k / 2).
Proof.
  intros Hk. replace k with (Z.succ (k - 1)) by lia. rewrite Z.pow_succ_r by lia.
  replace (10 * 10 ^ (k - 1)) with ((5 * 10 ^ (k - 1)) * 2) by ring. rewrite Z.div_mul by lia. ring.
Qed.

(* geps as computed by initialize(): 10^g // 2, but no less than 1 *)
Lemma geps_spec p g d s : 0 <= g ->
  let e := g_geps (mk_guarded_cls p g d s) in 1 <= e /\ (forall x, 0 <= x -> (x < e <-> 2 * x < 10 ^ g)).
Proof.
  intros Hg. cbn [g_geps mk_guarded_cls]. destruct (Z.eq_dec g 0) as [->|Hn].
  - change (10 ^ 0 / 2 =? 0) with true. cbv iota. change (10 ^ 0) with 1. split; [lia|]. intros; lia.
  - pose proof (pow10_even g ltac:(lia)) as E. pose proof (pow10_pos' g Hg).
    destruct (10 ^ g / 2 =? 0) eqn:Z0; [lia|]. split; [lia|]. intros x Hx. lia.
Qed.

Section GuardedK.
Variable st : guarded_cls.
Let S := g_scale st.
Let e := g_geps st.

Lemma g_init_int n : GuardedKernels.init st (OInt n) false = n * S.  Proof. reflexivity. Qed.
Lemma g_init_val r : GuardedKernels.init st (OVal r) false = r.      Proof. reflexivity. Qed.

(* the three-way comparison, statistics updates elided by the translator *)
Lemma cmp_spec a b :
  dunder_cmp st a (OVal b) =
  Ok (if Z.abs (a - b) <? e then 0 else if b <? a then 1 else -1).
Proof.
  unfold dunder_cmp. cbn [operand_value bind]. cbv zeta. fold e.
  destruct (Z.abs (a - b) <? e); [reflexivity|]. destruct (b <? a); reflexivity.
Qed.

Lemma cmp_cases a b : 1 <= e ->
  (Z.abs (a - b) < e /\ dunder_cmp st a (OVal b) = Ok 0) \/
  (e <= Z.abs (a - b) /\ b < a /\ dunder_cmp st a (OVal b) = Ok 1) \/
  (e <= Z.abs (a - b) /\ a < b /\ dunder_cmp st a (OVal b) = Ok (-1)).
Proof.
  intros He. rewrite cmp_spec. destruct (Z.abs (a - b) <? e) eqn:E1.
  - left. split; [lia|reflexivity].
  - destruct (b <? a) eqn:E2; [right; left|right; right]; (split; [lia|split; [lia|reflexivity]]).
Qed.

Lemma rel_of_cmp a b :
  dunder_eq st a (OVal b) = Ok (Z.abs (a - b) <? e) /\
  dunder_ne st a (OVal b) = Ok (negb (Z.abs (a - b) <? e)) /\
  dunder_lt st a (OVal b) = Ok (negb (Z.abs (a - b) <? e) && negb (b <? a)) /\
  dunder_gt st a (OVal b) = Ok (negb (Z.abs (a - b) <? e) && (b <? a)) /\
  dunder_le st a (OVal b) = Ok ((Z.abs (a - b) <? e) || negb (b <? a)) /\
  dunder_ge st a (OVal b) = Ok ((Z.abs (a - b) <? e) || (b <? a)).
Proof.
  unfold dunder_eq, dunder_ne, dunder_lt, dunder_gt, dunder_le, dunder_ge. rewrite cmp_spec. cbn [bind].
  destruct (Z.abs (a - b) <? e); cbn [negb andb orb]; [repeat split|].
  destruct (b <? a); repeat split.
Qed.
End GuardedK.

(* ---------- guard = 0: every kernel coincides with the Fixed kernel ---------- *)
Section Guard0.
Variables (p d s : Z).
Hypothesis Hp : 0 <= p.
Let sg := mk_guarded_cls p 0 d s.
Let sf := mk_fixed_cls p d.

Lemma g0_scale : g_scale sg = f_scale sf.
Proof. cbn. rewrite Z.add_0_r. reflexivity. Qed.
Lemma g0_geps : g_geps sg = 1.
Proof. reflexivity. Qed.
Lemma g0_guard : g_guard sg = 0.
Proof. reflexivity. Qed.

Lemma g0_init o : GuardedKernels.init sg o false = FixedKernels.init sf o false.
Proof. destruct o; cbn; rewrite ?Z.add_0_r; reflexivity. Qed.

Lemma g0_ops a (o : operand) :
  GuardedKernels.dunder_add sg a o = FixedKernels.dunder_add sf a o /\
  GuardedKernels.dunder_sub sg a o = FixedKernels.dunder_sub sf a o /\
  GuardedKernels.dunder_neg sg a = FixedKernels.dunder_neg sf a /\
  GuardedKernels.dunder_pos sg a = FixedKernels.dunder_pos sf a /\
  GuardedKernels.dunder_abs sg a = FixedKernels.dunder_abs sf a /\
  GuardedKernels.dunder_bool sg a = FixedKernels.dunder_bool sf a /\
  GuardedKernels.dunder_mul sg a o = FixedKernels.dunder_mul sf a o /\
  GuardedKernels.dunder_floordiv sg a o = FixedKernels.dunder_floordiv sf a o /\
  GuardedKernels.dunder_truediv sg a o = FixedKernels.dunder_truediv sf a o.
Proof.
  unfold GuardedKernels.dunder_truediv, FixedKernels.dunder_truediv.
  unfold GuardedKernels.dunder_add, GuardedKernels.dunder_sub, GuardedKernels.dunder_neg, GuardedKernels.dunder_pos,
    GuardedKernels.dunder_abs, GuardedKernels.dunder_bool, GuardedKernels.dunder_mul, GuardedKernels.dunder_floordiv,
    FixedKernels.dunder_add, FixedKernels.dunder_sub, FixedKernels.dunder_neg, FixedKernels.dunder_pos,
    FixedKernels.dunder_abs, FixedKernels.dunder_bool, FixedKernels.dunder_mul, FixedKernels.dunder_floordiv.
  rewrite !g0_init. rewrite ?g0_scale.
  destruct o as [n|b]; cbn [GuardedKernels.init GuardedKernels.init_r FixedKernels.init FixedKernels.init_r operand_raw];
    cbv zeta; rewrite ?g0_scale; repeat split; try (f_equal; ring);
    try (match goal with |- bind ?x _ = bind ?y _ => replace x with y by (f_equal; ring); destruct y; reflexivity end).
Qed.

Lemma g0_round (A B C : operand) r : r = RUp \/ r = RDown ->
  GuardedKernels.mul sg A B r = FixedKernels.mul sf A B r /\
  GuardedKernels.div sg A B r = FixedKernels.div sf A B r /\
  GuardedKernels.muldiv sg A B C r = FixedKernels.muldiv sf A B C r.
Proof.
  intros Hr. unfold GuardedKernels.mul, GuardedKernels.div, GuardedKernels.muldiv,
    FixedKernels.mul, FixedKernels.div, FixedKernels.muldiv.
  rewrite !g0_init. cbn [g_guard sg mk_guarded_cls truthy]. change (negb (0 =? 0)) with false. cbv iota.
  rewrite !g0_scale.
  destruct Hr as [-> | ->]; cbn [rnd_in existsb rnd_eqb negb orb]; repeat split;
  match goal with |- bind ?x _ = bind ?x _ => destruct x as [[q rm]|]; reflexivity end.
Qed.

Lemma g0_compare a b :
  GuardedKernels.dunder_eq sg a (OVal b) = FixedKernels.dunder_eq sf a (OVal b) /\
  GuardedKernels.dunder_ne sg a (OVal b) = FixedKernels.dunder_ne sf a (OVal b) /\
  GuardedKernels.dunder_lt sg a (OVal b) = FixedKernels.dunder_lt sf a (OVal b) /\
  GuardedKernels.dunder_le sg a (OVal b) = FixedKernels.dunder_le sf a (OVal b) /\
  GuardedKernels.dunder_gt sg a (OVal b) = FixedKernels.dunder_gt sf a (OVal b) /\
  GuardedKernels.dunder_ge sg a (OVal b) = FixedKernels.dunder_ge sf a (OVal b).
Proof.
  destruct (rel_of_cmp sg a b) as (E1 & E2 & E3 & E4 & E5 & E6).
  rewrite E1, E2, E3, E4, E5, E6, g0_geps.
  cbn [FixedKernels.dunder_eq FixedKernels.dunder_ne FixedKernels.dunder_lt FixedKernels.dunder_le
       FixedKernels.dunder_gt FixedKernels.dunder_ge operand_value bind].
  repeat split; f_equal; lia.
Qed.

Lemma g0_min l : l <> [] -> GuardedKernels.min sg l = FixedKernels.min sf l.
Proof.
  destruct l as [|x l]; [congruence|]. intros _. unfold GuardedKernels.min, FixedKernels.min, py_min_by. cbn [bind]. f_equal.
  revert x. induction l as [|y l IH]; intros x; cbn [fold_left]; [reflexivity|].
  rewrite IH. f_equal. unfold FixedKernels.dunder_lt, operand_value, bind, res_true.
  destruct (y <? x); reflexivity.
Qed.
End Guard0.
