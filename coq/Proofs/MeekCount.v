(* Whole meek / warren counts: every 'iterate' snapshot accounts for every ballot paper.
   From the initial state built from a profile, through count_cmd RMeek, the invariant MI of Proofs/MeekRun.v holds at
   every loop head and the recorded history satisfies iter_ok: votes + residual = papers cast. *)
From Coq Require Import ZArith List Bool String Lia.
From Droop Require Import Model.KernelBase Model.Arith Model.State Model.Prims Model.Prelude Model.RulesMeek Model.Election
  Proofs.Zlike Proofs.CmdMeta Proofs.MeekDist Proofs.Decided Proofs.MeekRun Proofs.MeekKfRun Proofs.MeekPrfRun Proofs.ConserveCount.
Import ListNotations.
Open Scope Z_scope.

Definition wf_profile_m (pr : profile) : Prop :=
  wf_profile pr /\
  forall m r, In (m, r) (pr_eballots pr) -> 0 <= m /\ forall g c, In g r -> In c g ->
    exists pc, In pc (pr_cands pr) /\ pc_cid pc = c /\ pc_withdrawn pc = false.

Definition eballot_total (pr : profile) : Z :=
  fold_right (fun mr acc => (match snd mr with [] => 0 | _ => fst mr end) + acc) 0 (pr_eballots pr).

Definition live_ids (pr : profile) : list Z := map pc_cid (filter (fun p => negb (pc_withdrawn p)) (pr_cands pr)).

Lemma nodup_map_inj {X Y} (f : X -> Y) (l : list X) a b : NoDup (map f l) -> In a l -> In b l -> f a = f b -> a = b.
Proof.
  induction l as [|y l IH]; intros Hnd Ha Hb Heq; [contradiction|].
  cbn [map] in Hnd. inversion Hnd as [|? ? Hn Hnd']; subst. destruct Ha as [->|Ha], Hb as [->|Hb]; auto.
  - exfalso. apply Hn. rewrite Heq. apply in_map. exact Hb.
  - exfalso. apply Hn. rewrite <- Heq. apply in_map. exact Ha.
Qed.

Section MeekCount.
Variables (A : arith) (S : Z) (ZL : zlike A S) (cfg : config).
Hypothesis Hmeth : cf_method cfg = MMeek.
Notation est := (est A).
Notation R := (raw ZL).

Definition mk_eballots (l : list (Z * list (list Z))) : list (eballot A) :=
  flat_map (fun '(m, r) => match r with [] => [] | _ => [mkEBallot (of_int A m) (V0' A) r] end) l.

Lemma eballots_init (pr : profile) : eballots (init_state A cfg pr) = mk_eballots (pr_eballots pr).
Proof. reflexivity. Qed.

Lemma sum_mult_mk (l : list (Z * list Z)) :
  sum_mult A S ZL (mk_ballots A l) = S * fold_right (fun mr acc => (match snd mr with [] => 0 | _ => fst mr end) + acc) 0 l.
Proof.
  unfold sum_mult, mk_ballots. induction l as [|[m r] l IH]; cbn [flat_map fold_right fst snd]; [lia|].
  destruct r as [|r0 r]; cbn [app fold_right bmult]; rewrite IH; [lia|]. rewrite (r_of_int A S ZL). lia.
Qed.
Lemma sum_emult_mk (l : list (Z * list (list Z))) :
  sum_emult A S ZL (mk_eballots l) = S * fold_right (fun mr acc => (match snd mr with [] => 0 | _ => fst mr end) + acc) 0 l.
Proof.
  unfold sum_emult, mk_eballots. induction l as [|[m r] l IH]; cbn [flat_map fold_right fst snd]; [lia|].
  destruct r as [|r0 r]; cbn [app fold_right emult]; rewrite IH; [lia|]. rewrite (r_of_int A S ZL). lia.
Qed.

Lemma live_in (pr : profile) c : (exists pc, In pc (pr_cands pr) /\ pc_cid pc = c /\ pc_withdrawn pc = false) -> In c (live_ids pr).
Proof. intros (pc & Hpc & <- & Hw). unfold live_ids. apply in_map. apply filter_In. split; [exact Hpc|rewrite Hw; reflexivity]. Qed.

Definition T0 (pr : profile) : Z := S * (ballot_total pr + eballot_total pr).

Lemma pre0_init (pr : profile) : wf_profile_m pr ->
  Pre0 A S ZL cfg (T0 pr) (live_ids pr) (zero_votes A (init_state A cfg pr)).
Proof.
  intros [Hwf Hwe]. destruct (init_state_shape A cfg pr) as (Ec & Eb & Ea).
  assert (HV0: R (V0' A) = 0) by (unfold V0'; rewrite (r_of_int A S ZL); lia).
  assert (Hc0: forall c, In c (cands (zero_votes A (init_state A cfg pr))) -> exists p, In p (pr_cands pr) /\ c = with_vote (init_cand A p) (V0' A)).
  { intros c Hc. unfold zero_votes in Hc. cbn [cands set_cands] in Hc. apply in_map_iff in Hc. destruct Hc as (c0 & <- & Hc0).
    rewrite Ec in Hc0. apply in_map_iff in Hc0. destruct Hc0 as (p & <- & Hp). exists p. split; [exact Hp|reflexivity]. }
  split; [split; [constructor|]|split].
  - unfold zero_votes. cbn [cands set_cands]. rewrite Ec, !map_map. cbn [cid with_vote init_cand]. exact (proj1 Hwf).
  - intros c Hc _. destruct (Hc0 c Hc) as (p & _ & ->). exact HV0.
  - intros c Hc _. destruct (Hc0 c Hc) as (p & _ & ->). reflexivity.
  - unfold zero_votes. cbn [ballots eballots set_cands]. rewrite Eb, eballots_init, sum_mult_mk, sum_emult_mk. unfold T0, ballot_total, eballot_total. lia.
  - unfold zero_votes. cbn [actions set_cands]. eapply Forall_impl; [|exact Ea]. intros a Ha _. rewrite Ha. exact I.
  - intros c Hc Hh. destruct (Hc0 c Hc) as (p & Hp & ->). cbn [cid with_vote init_cand]. intros Hin.
    unfold live_ids in Hin. apply in_map_iff in Hin. destruct Hin as (pc & Eid & Hpc). apply filter_In in Hpc. destruct Hpc as [Hpc Hw].
    assert (pc = p) by (apply (nodup_map_inj pc_cid (pr_cands pr)); [exact (proj1 Hwf)|exact Hpc|exact Hp|exact Eid]). subst pc.
    unfold is_he, in_state in Hh. cbn [cst with_vote init_cand] in Hh. destruct (pc_withdrawn p); cbn in *; discriminate.
  - unfold zero_votes. cbn [ballots set_cands]. rewrite Eb. intros b Hb c Et. unfold mk_ballots in Hb. apply in_flat_map in Hb. destruct Hb as ([m r] & Hmr & Hb).
    destruct r as [|r0 r]; [contradiction|]. destruct Hb as [<-|[]]. unfold top_rank in Et. cbn [brank bidx nth_error] in Et. inversion Et; subst c.
    apply live_in. exact (proj2 (proj2 Hwf m (r0 :: r) Hmr) r0 (or_introl eq_refl)).
  - unfold zero_votes. cbn [eballots set_cands]. rewrite eballots_init. intros eb Heb g i Hg Hi. unfold mk_eballots in Heb. apply in_flat_map in Heb. destruct Heb as ([m r] & Hmr & Heb).
    destruct r as [|r0 r]; [contradiction|]. destruct Heb as [<-|[]]. cbn [erank] in Hg. apply live_in. exact (proj2 (Hwe m (r0 :: r) Hmr) g i Hg Hi).
Qed.

Theorem count_meek_inv pr fuel s k : wf_profile_m pr ->
  exec (@crashed A) fuel (count_cmd A cfg RMeek) (init_state A cfg pr) = Some (s, k) -> k <> Abort ->
  MI A S ZL cfg (T0 pr) s.
Proof.
  intros Hwf He Hk.
  assert (Ht: triple est (@crashed A) (fun s0 => s0 = init_state A cfg pr) (count_cmd A cfg RMeek)
            (MI A S ZL cfg (T0 pr)) (MI A S ZL cfg (T0 pr)) (MI A S ZL cfg (T0 pr))).
  { unfold count_cmd. eapply t_seq with (M := Pre0 A S ZL cfg (T0 pr) (live_ids pr)).
    - apply t_do. intros s0 ->. apply pre0_init. exact Hwf.
    - eapply t_seq with (M := MI A S ZL cfg (T0 pr)); [cbn [rule_cmd]; apply (meek_triple A S ZL cfg (T0 pr) Hmeth)|].
      apply t_do. intros s0 M. apply (mi_log A S ZL cfg (T0 pr) Hmeth); [discriminate|exact M]. }
  specialize (Ht fuel _ s k eq_refl He). destruct k; try exact Ht. congruence.
Qed.

(* every 'iterate' snapshot in the recorded history: tallies + residual = papers cast *)
Theorem count_meek_iterations pr fuel s k : wf_profile_m pr ->
  exec (@crashed A) fuel (count_cmd A cfg RMeek) (init_state A cfg pr) = Some (s, k) -> k <> Abort ->
  forall a sn, In a (actions s) -> a_tag a = TIterate -> a_snap a = Some sn ->
  R (as_votes sn) + match as_nt sn with Some x => R x | None => 0 end = S * (ballot_total pr + eballot_total pr).
Proof.
  intros Hwf He Hk a sn Ha Ht Hs. pose proof (mi_hist A S ZL cfg (T0 pr) s (count_meek_inv pr fuel s k Hwf He Hk)) as H.
  rewrite Forall_forall in H. specialize (H a Ha Ht). rewrite Hs in H. exact (proj1 H).
Qed.

(* ... and the quota it reports is the prescribed one, recomputed from the votes still credited:
   floor(votes / (seats + 1)) in the arithmetic's precision, plus one unit in the last place unless the arithmetic is exact *)
Theorem count_meek_quota pr fuel s k : wf_profile_m pr ->
  exec (@crashed A) fuel (count_cmd A cfg RMeek) (init_state A cfg pr) = Some (s, k) -> k <> Abort ->
  forall a sn, In a (actions s) -> a_tag a = TIterate -> a_snap a = Some sn ->
  R (as_quota sn) = R (as_votes sn) * S / ((cf_nseats cfg + 1) * S) + (if exact A then 0 else R (epsilon A)).
Proof.
  intros Hwf He Hk a sn Ha Ht Hs. pose proof (mi_hist A S ZL cfg (T0 pr) s (count_meek_inv pr fuel s k Hwf He Hk)) as H.
  rewrite Forall_forall in H. specialize (H a Ha Ht). rewrite Hs in H. exact (proj2 H).
Qed.

(* the final 'end' action: tallies of the non-withdrawn candidates + residual = the ballot count the count was given *)
Theorem count_meek_end pr fuel s k : wf_profile_m pr ->
  exec (@crashed A) fuel (count_cmd A cfg RMeek) (init_state A cfg pr) = Some (s, k) -> k <> Abort ->
  exists a rest sn, actions s = a :: rest /\ a_tag a = TEnd /\ a_snap a = Some sn /\
    R (as_votes sn) + match as_nt sn with Some x => R x | None => 0 end = cf_nballots cfg * S.
Proof.
  intros Hwf He Hk.
  assert (Ht: triple est (@crashed A) (fun s0 => s0 = init_state A cfg pr) (count_cmd A cfg RMeek)
            (EndSnap A S ZL cfg) (fun _ => False) (fun _ => False)).
  { unfold count_cmd. eapply t_seq with (M := Pre0 A S ZL cfg (T0 pr) (live_ids pr)).
    - apply t_do. intros s0 ->. apply pre0_init. exact Hwf.
    - eapply t_seq with (M := EndOK A S ZL cfg (T0 pr)); [cbn [rule_cmd]; apply (meek_triple_end A S ZL cfg (T0 pr) Hmeth)|].
      apply t_do. intros s0 H. apply (end_snap A S ZL cfg (T0 pr) Hmeth). exact H. }
  specialize (Ht fuel _ s k eq_refl He). destruct k; try contradiction.
  unfold EndSnap in Ht. destruct (actions s) as [|a rest]; [contradiction|]. destruct Ht as [Et Hs].
  destruct (a_snap a) as [sn|] eqn:Es; [|contradiction]. exists a, rest, sn. auto.
Qed.

(* ================= meek-prf ================= *)
Lemma residual_init (pr : profile) : residual (init_state A cfg pr) = V0' A.
Proof.
  unfold init_state. cbv zeta. cbn [residual set_eballots set_ballots].
  match goal with |- residual (fold_left ?f ?l ?s0) = _ => change (residual (fold_left f l s0) = residual s0) end.
  apply proj_fold. intros s p. reflexivity.
Qed.

Lemma tot_zero_votes (l : list (cand A)) : tot A S ZL (map (fun c => with_vote c (V0' A)) l) = 0.
Proof.
  unfold MeekDist.tot. induction l as [|c l IH]; [reflexivity|]. cbn [map fold_right cvote with_vote]. rewrite IH.
  unfold V0'. rewrite (r_of_int A S ZL). lia.
Qed.

Lemma prep_init (pr : profile) : wf_profile pr ->
  PreP A S ZL cfg (S * ballot_total pr) (S * eballot_total pr) (live_ids pr) (zero_votes A (init_state A cfg pr)).
Proof.
  intros Hwf. destruct (init_state_shape A cfg pr) as (Ec & Eb & Ea).
  assert (HV0: R (V0' A) = 0) by (unfold V0'; rewrite (r_of_int A S ZL); lia).
  assert (Hc0: forall c, In c (cands (zero_votes A (init_state A cfg pr))) -> exists p, In p (pr_cands pr) /\ c = with_vote (init_cand A p) (V0' A)).
  { intros c Hc. unfold zero_votes in Hc. cbn [cands set_cands] in Hc. apply in_map_iff in Hc. destruct Hc as (c0 & <- & Hc0).
    rewrite Ec in Hc0. apply in_map_iff in Hc0. destruct Hc0 as (p & <- & Hp). exists p. split; [exact Hp|reflexivity]. }
  assert (Eids: map (@cid A) (cands (zero_votes A (init_state A cfg pr))) = map pc_cid (pr_cands pr)).
  { unfold zero_votes. cbn [cands set_cands]. rewrite Ec, !map_map. reflexivity. }
  split; [split; [constructor|]|split; [split|split; [|split]]].
  - rewrite Eids. exact (proj1 Hwf).
  - intros c Hc _. destruct (Hc0 c Hc) as (p & _ & ->). exact HV0.
  - intros c Hc _. destruct (Hc0 c Hc) as (p & _ & ->). reflexivity.
  - unfold zero_votes. cbn [ballots eballots set_cands]. rewrite Eb, eballots_init, sum_mult_mk, sum_emult_mk. unfold ballot_total, eballot_total. lia.
  - unfold zero_votes. cbn [actions set_cands]. eapply Forall_impl; [|exact Ea]. intros a Ha _. rewrite Ha. exact I.
  - intros c Hc Hh. destruct (Hc0 c Hc) as (p & Hp & ->). cbn [cid with_vote init_cand]. intros Hin.
    unfold live_ids in Hin. apply in_map_iff in Hin. destruct Hin as (pc & Eid & Hpc). apply filter_In in Hpc. destruct Hpc as [Hpc Hw].
    assert (pc = p) by (apply (nodup_map_inj pc_cid (pr_cands pr)); [exact (proj1 Hwf)|exact Hpc|exact Hp|exact Eid]). subst pc.
    unfold is_he, in_state in Hh. cbn [cst with_vote init_cand] in Hh. destruct (pc_withdrawn p); cbn in *; discriminate.
  - unfold zero_votes. cbn [ballots set_cands]. rewrite Eb, sum_mult_mk. unfold ballot_total. reflexivity.
  - unfold zero_votes. cbn [actions set_cands]. eapply Forall_impl; [|exact Ea]. intros a Ha _. rewrite Ha. exact I.
  - unfold zero_votes. cbn [cands set_cands]. apply tot_zero_votes.
  - unfold zero_votes. cbn [residual set_cands]. rewrite residual_init. exact HV0.
  - unfold zero_votes at 1. cbn [ballots set_cands]. rewrite Eb. intros b Hb. unfold mk_ballots in Hb. apply in_flat_map in Hb. destruct Hb as ([m r] & Hmr & Hb).
    destruct r as [|r0 r]; [contradiction|]. destruct Hb as [<-|[]]. exists r0. split; [reflexivity|].
    destruct (proj2 (proj2 Hwf m (r0 :: r) Hmr) r0 (or_introl eq_refl)) as (pc & Hpc & Eid & Hw).
    split; [apply live_in; exists pc; auto|]. rewrite Eids, <- Eid. apply in_map. exact Hpc.
Qed.

(* the snapshots the property names (begin, elections inside an iteration, ties, the defeat logged before the exclusion):
   tallies + residual = the strictly ranked ballots cast; and the final 'end' action *)
Theorem count_meek_prf pr fuel s k : wf_profile pr ->
  exec (@crashed A) fuel (count_cmd A cfg RMeekPrf) (init_state A cfg pr) = Some (s, k) -> k <> Abort ->
  (forall a sn, In a (actions s) -> claimed (a_tag a) (a_msg a) = true -> a_snap a = Some sn ->
     R (as_votes sn) + match as_nt sn with Some x => R x | None => 0 end = S * ballot_total pr) /\
  (exists a rest sn, actions s = a :: rest /\ a_tag a = TEnd /\ a_snap a = Some sn /\
     R (as_votes sn) + match as_nt sn with Some x => R x | None => 0 end = cf_nballots cfg * S).
Proof.
  intros Hwf He Hk.
  set (T := S * ballot_total pr). set (E := S * eballot_total pr).
  assert (Ht: triple est (@crashed A) (fun s0 => s0 = init_state A cfg pr) (count_cmd A cfg RMeekPrf)
            (fun s => PH A S ZL T s /\ EndSnap A S ZL cfg s) (fun _ => False) (fun _ => False)).
  { unfold count_cmd. eapply t_seq with (M := PreP A S ZL cfg T E (live_ids pr)).
    - apply t_do. intros s0 ->. apply prep_init. exact Hwf.
    - eapply t_seq with (M := EndOKp A S ZL cfg T E); [cbn [rule_cmd]; apply (meek_prf_triple A S ZL cfg T E Hmeth)|].
      apply t_do. intros s0 (M & Hn & Hq & P). split.
      + apply (ph_log A S ZL cfg T Hmeth); [discriminate|exact P].
      + apply (end_snap A S ZL cfg (T + E) Hmeth). split; [exact M|split; assumption]. }
  specialize (Ht fuel _ s k eq_refl He). destruct k; try contradiction. destruct Ht as [[_ P2] Hs]. split.
  - intros a sn Ha Hc Hsn. rewrite Forall_forall in P2. specialize (P2 a Ha Hc). rewrite Hsn in P2. exact P2.
  - unfold EndSnap in Hs. destruct (actions s) as [|a rest]; [contradiction|]. destruct Hs as [Et Hs].
    destruct (a_snap a) as [sn|] eqn:Es; [|contradiction]. exists a, rest, sn. auto.
Qed.

(* ---- keep factors in range, nothing negative (arithmetics with exact comparisons and roundings) ---- *)
Hypothesis Hex : exact A = false.
Hypothesis Hseats : 0 <= cf_nseats cfg.
Hypothesis Hnb : 0 <= cf_nballots cfg.

Lemma prek_init (pr : profile) : wf_profile_m pr -> PreK A S ZL (zero_votes A (init_state A cfg pr)).
Proof.
  intros [Hwf Hwe]. destruct (init_state_shape A cfg pr) as (Ec & Eb & Ea).
  split; [|split; [|split]].
  - intros c Hc. unfold zero_votes in Hc. cbn [cands set_cands] in Hc. apply in_map_iff in Hc. destruct Hc as (c0 & <- & Hc0).
    rewrite Ec in Hc0. apply in_map_iff in Hc0. destruct Hc0 as (p & <- & Hp). cbn [ckf cst with_vote init_cand].
    split; [reflexivity|]. destruct (pc_withdrawn p); [right|left]; reflexivity.
  - unfold zero_votes. cbn [ballots set_cands]. rewrite Eb. apply Forall_forall. intros b Hb. unfold mk_ballots in Hb. apply in_flat_map in Hb.
    destruct Hb as ([m r] & Hmr & Hb). destruct r as [|r0 r]; [contradiction|]. destruct Hb as [<-|[]].
    exists m. split; [exact (proj1 (proj2 Hwf m (r0 :: r) Hmr))|cbn [bmult]; apply (r_of_int A S ZL)].
  - unfold zero_votes. cbn [eballots set_cands]. rewrite eballots_init. apply Forall_forall. intros eb Heb. unfold mk_eballots in Heb. apply in_flat_map in Heb.
    destruct Heb as ([m r] & Hmr & Heb). destruct r as [|r0 r]; [contradiction|]. destruct Heb as [<-|[]].
    exists m. split; [exact (proj1 (Hwe m (r0 :: r) Hmr))|cbn [emult]; apply (r_of_int A S ZL)].
  - unfold zero_votes. cbn [actions set_cands]. eapply Forall_impl; [|exact Ea]. intros a Ha _. rewrite Ha. exact I.
Qed.

Theorem count_meek_inv_j pr fuel s k : wf_profile_m pr ->
  exec (@crashed A) fuel (count_cmd A cfg RMeek) (init_state A cfg pr) = Some (s, k) -> k <> Abort ->
  J A S ZL cfg (T0 pr) s.
Proof.
  intros Hwf He Hk.
  assert (Ht: triple est (@crashed A) (fun s0 => s0 = init_state A cfg pr) (count_cmd A cfg RMeek)
            (J A S ZL cfg (T0 pr)) (J A S ZL cfg (T0 pr)) (J A S ZL cfg (T0 pr))).
  { unfold count_cmd. eapply t_seq with (M := fun s0 => Pre0 A S ZL cfg (T0 pr) (live_ids pr) s0 /\ PreK A S ZL s0).
    - apply t_do. intros s0 ->. split; [apply pre0_init; exact Hwf|apply prek_init; exact Hwf].
    - eapply t_seq with (M := J A S ZL cfg (T0 pr)); [cbn [rule_cmd]; apply (meek_triple_j A S ZL cfg Hex (T0 pr) Hmeth Hseats Hnb (live_ids pr))|].
      apply t_do. intros s0 [M K]. split; [apply (mi_log A S ZL cfg (T0 pr) Hmeth); [discriminate|exact M]|apply (ki_log A S ZL cfg Hmeth); [discriminate|exact K]]. }
  specialize (Ht fuel _ s k eq_refl He). destruct k; try exact Ht. congruence.
Qed.

(* every 'iterate' snapshot: no negative tally, hopeful keep factor 1, elected in (0, 1], defeated and withdrawn 0,
   residual not negative *)
Theorem count_meek_kf_ranges pr fuel s k : wf_profile_m pr ->
  exec (@crashed A) fuel (count_cmd A cfg RMeek) (init_state A cfg pr) = Some (s, k) -> k <> Abort ->
  forall a sn, In a (actions s) -> a_tag a = TIterate -> a_snap a = Some sn ->
  (forall x, In x (as_c sn) -> 0 <= R (sn_vote x) /\ kf_range S (sn_st x) (kfs A S ZL (sn_kf x))) /\
  match as_nt sn with Some r => 0 <= R r | None => True end.
Proof.
  intros Hwf He Hk a sn Ha Ht Hs. destruct (count_meek_inv_j pr fuel s k Hwf He Hk) as [_ [_ K]].
  pose proof (ki_hist A S ZL s K) as H. rewrite Forall_forall in H. specialize (H a Ha Ht). rewrite Hs in H. destruct H as [H1 H2].
  split; [|exact H2]. intros x Hx. rewrite Forall_forall in H1. exact (H1 x Hx).
Qed.
End MeekCount.
