(* Meek / Warren, whole runs (C08), part 2: keep factors stay in range and nothing goes negative.
   Under the arithmetics whose comparisons and explicit roundings are exact (Fixed, integer, Guarded with guard 0):
   hopeful candidates keep factor 1, elected ones in (0, 1], defeated and withdrawn ones 0; after every distribution
   no tally and no residual is negative.  (Under Guarded arithmetic with guard > 0 this is false: findings K1, K9-K12.) *)
From Coq Require Import ZArith List Bool String Lia ZifyBool.
From Droop Require Import Model.KernelBase Model.Str Model.Arith Model.Prelude Model.State Model.Prims Model.RulesMeek
  Proofs.CmdMeta Proofs.Zlike Proofs.Gregory Proofs.MeekDist Proofs.Status Proofs.ForwardOps Proofs.MeekRun.
Import ListNotations.
Open Scope Z_scope.

Section MeekKfRun.
Variable A : arith.
Variable S : Z.
Variable ZL : zlike A S.
Variable cfg : config.
Hypothesis Hex : exact A = false.
Notation est := (est A).
Notation cand := (cand A).
Notation R := (@raw A S ZL).

Definition kfr (c : cand) : Z := R (kf_of A c).
Definition KFB (l : list cand) : Prop := forall c, In c l -> 0 <= kfr c <= S.
Definition VN (l : list cand) : Prop := forall c, In c l -> 0 <= R (cvote c).
Definition wfm (v : T A) : Prop := exists m, 0 <= m /\ R v = m * S.

Lemma RV0 : R (V0 A) = 0. Proof. unfold V0. rewrite (r_of_int A S ZL). lia. Qed.
Lemma RV1 : R (V1 A) = S. Proof. unfold V1. rewrite (r_of_int A S ZL). lia. Qed.

(* ---- arithmetic of one keep/pass-on split ---- *)
Lemma floor_split x k : 0 < S -> 0 <= x -> 0 <= k <= S -> 0 <= x * k / S /\ 0 <= x * (S - k) / S /\ x * k / S + x * (S - k) / S <= x.
Proof.
  intros HS Hx Hk. split; [apply Z.div_pos; nia|]. split; [apply Z.div_pos; nia|].
  assert (H1: S * (x * k / S) <= x * k) by (apply Z.mul_div_le; exact HS).
  assert (H2: S * (x * (S - k) / S) <= x * (S - k)) by (apply Z.mul_div_le; exact HS).
  nia.
Qed.

Lemma kt_bounds kf w : 0 <= R kf <= S -> 0 <= R w ->
  0 <= R (fst (kt A cfg kf w)) /\ 0 <= R (snd (kt A cfg kf w)) /\ R (fst (kt A cfg kf w)) + R (snd (kt A cfg kf w)) <= R w.
Proof.
  intros Hk Hw. pose proof (S_pos A S ZL) as HS. unfold kt. destruct (cf_warren cfg).
  - unfold kw_warren. cbv zeta. cbn [fst snd]. rewrite (r_sub A S ZL), (r_ltv_exact A S ZL Hex).
    destruct (R kf <? R w) eqn:E; lia.
  - unfold kw_meek. cbn [fst snd]. rewrite !(r_kmul A S ZL Hex), (r_sub A S ZL), RV1. unfold upadj. cbn [andb]. rewrite !Z.add_0_r.
    apply floor_split; assumption.
Qed.

Lemma kfb_upd_vote i (f : cand -> cand) (l : list cand) : (forall c, ckf (f c) = ckf c) -> KFB l -> KFB (upd_cand A i f l).
Proof.
  intros Hf H c' Hc'. destruct (in_upd_c A i f l c' Hc') as (c & Hc & [[_ ->]|[_ ->]]); [|exact (H c Hc)].
  unfold kfr, kf_of. rewrite Hf. exact (H c Hc).
Qed.
Lemma vn_add_vote i kv (l : list cand) : 0 <= R kv -> VN l -> VN (upd_cand A i (fun c => with_vote c (add A (cvote c) kv)) l).
Proof.
  intros Hkv H c' Hc'. destruct (in_upd_c A i _ l c' Hc') as (c & Hc & [[_ ->]|[_ ->]]); [|exact (H c Hc)].
  cbn [cvote with_vote]. rewrite (r_add A S ZL). specialize (H c Hc). lia.
Qed.

Lemma mulv_mult keep mult m : R mult = m * S -> R (mulv A keep mult) = R keep * m.
Proof. intros Hm. pose proof (S_pos A S ZL). rewrite (r_mulv A S ZL), Hm, Z.mul_assoc, Z.div_mul; lia. Qed.

(* ---- one strict ballot ---- *)
Lemma dist_ballot_nn r : forall cs mult w br m, KFB cs -> VN cs -> R mult = m * S -> 0 <= m -> 0 <= R w -> R w * m <= R br ->
  let res := dist_ballot A cfg cs mult r w br in
  KFB (fst (fst res)) /\ VN (fst (fst res)) /\ 0 <= R (snd (fst res)) /\ R (snd (fst res)) * m <= R (snd res).
Proof.
  induction r as [|i r IH]; intros cs mult w br m HK HV Hm Hm0 Hw Hbr; cbn [dist_ballot]; cbv zeta; [cbn [fst snd]; auto|].
  destruct (find_cand A cs i) as [c|] eqn:Ef; [|apply IH; assumption].
  destruct (kf_truthy A c) eqn:Hk; [|apply IH; assumption].
  destruct (find_cand_In' A cs i c Ef) as [Hc _].
  pose proof (kt_bounds (kf_of A c) w (HK c Hc) Hw) as (B1 & B2 & B3).
  destruct (kt A cfg (kf_of A c) w) as [keep w']. cbn [fst snd] in B1, B2, B3. cbv zeta.
  set (kv := mulv A keep mult).
  assert (Ekv: R kv = R keep * m) by (apply mulv_mult; exact Hm).
  set (cs' := upd_cand A i (fun c0 => with_vote c0 (add A (cvote c0) kv)) cs).
  assert (HK': KFB cs') by (apply kfb_upd_vote; [reflexivity|exact HK]).
  assert (HV': VN cs') by (apply vn_add_vote; [rewrite Ekv; nia|exact HV]).
  assert (Hbr': R w' * m <= R (sub A br kv)) by (rewrite (r_sub A S ZL), Ekv; nia).
  destruct (lev A w' (V0 A)); [cbn [fst snd]; auto|]. apply IH; assumption.
Qed.

Definition wfb_m (b : ballot A) : Prop := wfm (bmult b).

Lemma strict_fold_nn (bs : list (ballot A)) : forall cs res acc, KFB cs -> VN cs -> 0 <= R res ->
  Forall wfb_m bs -> Forall wfb_m acc ->
  let r := fold_left (fun '(cs, res_, acc) b =>
      let '(cs', w', br') := dist_ballot A cfg cs (bmult b) (brank b) (V1 A) (bmult b) in
      (cs', add A res_ br', with_bres (with_bweight b w') br' :: acc)) bs (cs, res, acc) in
  KFB (fst (fst r)) /\ VN (fst (fst r)) /\ 0 <= R (snd (fst r)) /\ Forall wfb_m (snd r).
Proof.
  induction bs as [|b bs IH]; intros cs res acc HK HV Hres Hbs Hacc; cbn [fold_left]; [cbn [fst snd]; auto|].
  inversion Hbs as [|? ? Hb Hbs']; subst. destruct Hb as (m & Hm0 & Hm).
  pose proof (dist_ballot_nn (brank b) cs (bmult b) (V1 A) (bmult b) m HK HV Hm Hm0 ltac:(rewrite RV1; pose proof (S_pos A S ZL); lia) ltac:(rewrite RV1, Hm; lia)) as H.
  cbv zeta in H. destruct (dist_ballot A cfg cs (bmult b) (brank b) (V1 A) (bmult b)) as [[cs1 w1] br1]. cbn [fst snd] in H.
  destruct H as (K1 & V1' & W1 & B1).
  apply IH; [exact K1|exact V1'|rewrite (r_add A S ZL); nia|exact Hbs'|].
  constructor; [|exact Hacc]. exists m. split; [exact Hm0|exact Hm].
Qed.


(* ---- ballots with equal rankings: a call consumes at most w * m of the ballot's residual ---- *)
Lemma fold_raise {X Y} (g : res X -> Y -> res X) (l : list Y) e : (forall y, g (Raise e) y = Raise e) -> fold_left g l (Raise e) = Raise e.
Proof. intros Hg. induction l as [|y l IH]; cbn [fold_left]; [reflexivity|]. rewrite Hg. exact IH. Qed.

Lemma dist_eq_nn cset mult m ranks : R mult = m * S -> 0 <= m -> forall w cs bres cs' bres',
  KFB cs -> VN cs -> 0 <= R w ->
  dist_eq A cfg cset mult ranks w (Ok (cs, bres)) = Ok (cs', bres') ->
  KFB cs' /\ VN cs' /\ R bres - R w * m <= R bres'.
Proof.
  intros Hm Hm0. pose proof (S_pos A S ZL) as HS.
  induction ranks as [|rank deeper IH]; intros w cs bres cs' bres' HK HV Hw He; cbn [dist_eq] in He.
  - assert (E: Ok (cs, bres) = Ok (cs', bres')) by (destruct (negb (truth A w)); exact He). inversion E; subst. split; [exact HK|split; [exact HV|nia]].
  - destruct (negb (truth A w)); [inversion He; subst; split; [exact HK|split; [exact HV|nia]]|].
    set (cids := filter (fun i => existsb (Z.eqb i) cset) rank) in *.
    destruct cids as [|i0 cids0] eqn:Ec; [inversion He; subst; split; [exact HK|split; [exact HV|nia]]|]. rewrite <- Ec in He.
    assert (Hn: 1 <= nlen cids) by (rewrite Ec; unfold nlen; cbn [Datatypes.length]; lia).
    assert (Hne: R (of_int A (nlen cids)) <> 0) by (rewrite (r_of_int A S ZL); nia).
    destruct (r_divv A S ZL w (of_int A (nlen cids)) Hne) as (cw & Ecw & Rcw). rewrite Ecw in He.
    assert (Hcw: 0 <= R cw /\ nlen cids * R cw <= R w).
    { rewrite Rcw, (r_of_int A S ZL), Z.div_mul_cancel_r by lia. split; [apply Z.div_pos; lia|apply Z.mul_div_le; lia]. }
    destruct Hcw as [Hcw0 Hcw1].
    assert (Hgoal: KFB cs' /\ VN cs' /\ R bres - nlen cids * (R cw * m) <= R bres'); [|destruct Hgoal as (G1 & G2 & G3); split; [exact G1|split; [exact G2|nia]]].
    clear Ec Hn Hne Ecw Rcw Hcw1. revert cs bres HK HV He. generalize cids as l. clear cids.
    induction l as [|i l IHl]; intros cs bres HK HV He; cbn [fold_left] in He.
    + inversion He; subst. split; [exact HK|split; [exact HV|unfold nlen; cbn [Datatypes.length]; lia]].
    + destruct (find_cand A cs i) as [c|] eqn:Ef.
      2:{ exfalso. rewrite fold_raise in He; [discriminate|reflexivity]. }
      destruct (find_cand_In' A cs i c Ef) as [Hc _].
      pose proof (kt_bounds (kf_of A c) cw (HK c Hc) Hcw0) as (B1 & B2 & B3).
      destruct (kt A cfg (kf_of A c) cw) as [keep w'] eqn:Ek. cbn [fst snd] in B1, B2, B3. set (kv := mulv A keep mult) in *.
      assert (Ekv: R kv = R keep * m) by (apply mulv_mult; exact Hm).
      set (cs1 := upd_cand A i (fun c0 => with_vote c0 (add A (cvote c0) kv)) cs) in *.
      assert (HK1: KFB cs1) by (apply kfb_upd_vote; [reflexivity|exact HK]).
      assert (HV1: VN cs1) by (apply vn_add_vote; [rewrite Ekv; nia|exact HV]).
      destruct (dist_eq A cfg cset mult deeper w' (Ok (cs1, sub A bres kv))) as [[cs2 br2]|e] eqn:Ed.
      2:{ exfalso. rewrite fold_raise in He; [discriminate|reflexivity]. }
      destruct (IH w' cs1 (sub A bres kv) cs2 br2 HK1 HV1 B2 Ed) as (K2 & V2 & T2).
      destruct (IHl cs2 br2 K2 V2 He) as (K3 & V3 & T3).
      split; [exact K3|split; [exact V3|]]. rewrite (r_sub A S ZL), Ekv in T2.
      replace (nlen (i :: l)) with (1 + nlen l) by (unfold nlen; cbn [Datatypes.length]; lia). nia.
Qed.

Definition wfe_m (eb : eballot A) : Prop := wfm (emult eb).
Definition DN (s : est) : Prop := KFB (cands s) /\ VN (cands s) /\ 0 <= R (residual s).

Lemma eq_step_nn (s : est) eb : wfe_m eb -> DN s -> DN (eq_step A cfg s eb).
Proof.
  intros (m & Hm0 & Hm) (HK & HV & Hr). unfold eq_step. destruct (crashed s); [split; [exact HK|split; [exact HV|exact Hr]]|]. cbv zeta.
  destruct (dist_eq A cfg _ (emult eb) (erank eb) (V1 A) (Ok (cands s, emult eb))) as [[cs br]|e] eqn:Ed; [|split; [exact HK|split; [exact HV|exact Hr]]].
  pose proof (S_pos A S ZL) as HS.
  destruct (dist_eq_nn _ (emult eb) m (erank eb) Hm Hm0 (V1 A) (cands s) (emult eb) cs br HK HV ltac:(rewrite RV1; lia) Ed) as (K1 & V1' & T1).
  rewrite RV1, Hm in T1. split; [exact K1|split; [exact V1'|]]. cbn [residual set_residual set_cands]. rewrite (r_add A S ZL). lia.
Qed.

Lemma eq_fold_nn (l : list (eballot A)) : Forall wfe_m l -> forall s, DN s -> DN (fold_left (eq_step A cfg) l s).
Proof.
  induction l as [|eb l IH]; intros Hl s Hs; cbn [fold_left]; [exact Hs|]. inversion Hl as [|? ? H1 H2]; subst.
  apply IH; [exact H2|apply eq_step_nn; assumption].
Qed.

Lemma ballots_eq_fold (l : list (eballot A)) : forall s : est, ballots (fold_left (eq_step A cfg) l s) = ballots s /\ eballots (fold_left (eq_step A cfg) l s) = eballots s.
Proof.
  induction l as [|eb l IH]; intros s; cbn [fold_left]; [split; reflexivity|]. destruct (IH (eq_step A cfg s eb)) as [E1 E2]. rewrite E1, E2.
  unfold eq_step. destruct (crashed s); [split; reflexivity|]. cbv zeta. destruct (dist_eq A cfg _ _ _ _ _) as [[cs br]|e]; split; reflexivity.
Qed.

(* a whole distribution: given keep factors within [0, 1] and no votes left with candidates that are neither hopeful
   nor elected, every tally and the residual come out non-negative; multipliers are untouched *)
Theorem distribute_nn (s : est) : KFB (cands s) -> (forall c, In c (cands s) -> is_he A c = false -> 0 <= R (cvote c)) ->
  Forall wfb_m (ballots s) -> Forall wfe_m (eballots s) ->
  DN (distribute_votes A cfg s) /\ Forall wfb_m (ballots (distribute_votes A cfg s)) /\ eballots (distribute_votes A cfg s) = eballots s.
Proof.
  intros HK Hz Hb He. unfold distribute_votes.
  set (s0 := set_residual (zero_he_votes A s) (V0 A)).
  assert (Ec0: cands s0 = map (fun c => if in_state A Hopeful c || in_state A Elected c then with_vote c (V0 A) else c) (cands s)) by reflexivity.
  assert (HK0: KFB (cands s0)).
  { rewrite Ec0. intros c' Hc'. apply in_map_iff in Hc'. destruct Hc' as (c & <- & Hc). destruct (_ || _); exact (HK c Hc). }
  assert (HV0: VN (cands s0)).
  { rewrite Ec0. intros c' Hc'. apply in_map_iff in Hc'. destruct Hc' as (c & <- & Hc).
    destruct (in_state A Hopeful c || in_state A Elected c) eqn:E; [cbn [cvote with_vote]; rewrite RV0; lia|apply Hz; [exact Hc|exact E]]. }
  pose proof (strict_fold_nn (ballots s0) (cands s0) (V0 A) [] HK0 HV0 ltac:(rewrite RV0; lia) Hb (Forall_nil _)) as H1. cbv zeta in H1.
  destruct (fold_left _ (ballots s0) (cands s0, V0 A, [])) as [[cs res_] bs_rev]. cbn [fst snd] in H1. destruct H1 as (K1 & V1' & R1 & F1).
  set (s1 := set_ballots (set_residual (set_cands s0 cs) res_) (rev bs_rev)).
  change (fold_left _ (eballots s1) s1) with (fold_left (eq_step A cfg) (eballots s1) s1).
  destruct (ballots_eq_fold (eballots s1) s1) as [E1 E2].
  split; [apply eq_fold_nn; [exact He|split; [exact K1|split; [exact V1'|exact R1]]]|].
  split; [rewrite E1; cbn [ballots s1 set_ballots]; apply Forall_rev; exact F1|rewrite E2; reflexivity].
Qed.


(* ================= whole runs ================= *)
Variable T0 : Z.
Hypothesis Hmeth : cf_method cfg = MMeek.
Hypothesis Hseats : 0 <= cf_nseats cfg.
Notation MI := (MI A S ZL cfg T0).

Definition kf_range (st : cstate) (k : Z) : Prop :=
  match st with
  | Hopeful => k = S
  | Elected => 0 < k <= S
  | Defeated | Withdrawn => k = 0
  end.
Definition ok_c (c : cand) : Prop := kf_range (cst c) (kfr c).
Definition kfs (o : option (T A)) : Z := R (match o with Some k => k | None => V0 A end).
Definition csn_ok (x : csnap A) : Prop := 0 <= R (sn_vote x) /\ kf_range (sn_st x) (kfs (sn_kf x)).
Definition snap_kf_ok (a : action A) : Prop :=
  a_tag a = TIterate ->
  match a_snap a with
  | Some sn => Forall csn_ok (as_c sn) /\ match as_nt sn with Some x => 0 <= R x | None => True end
  | None => True
  end.

Record KW (s : est) : Prop := {
  ki_b : Forall wfb_m (ballots s);
  ki_e : Forall wfe_m (eballots s);
  ki_q : 0 < R (quota s);
  ki_hist : Forall snap_kf_ok (actions s)
}.
Definition OK (l : list cand) : Prop := forall c, In c l -> ok_c c.
Definition KI (s : est) : Prop := OK (cands s) /\ KW s.
Definition NN (s : est) : Prop := VN (cands s) /\ 0 <= R (residual s).

Lemma ok_kfb (l : list cand) : OK l -> KFB l.
Proof.
  intros H c Hc. specialize (H c Hc). pose proof (S_pos A S ZL). unfold ok_c, kf_range in H. destruct (cst c); lia.
Qed.

Lemma kw_same (s s' : est) : ballots s' = ballots s -> eballots s' = eballots s -> quota s' = quota s ->
  actions s' = actions s -> KW s -> KW s'.
Proof. intros E2 E3 E4 E5 [K2 K3 K4 K5]. constructor; rewrite ?E2, ?E3, ?E4, ?E5; assumption. Qed.
Lemma ki_same (s s' : est) : cands s' = cands s -> ballots s' = ballots s -> eballots s' = eballots s -> quota s' = quota s ->
  actions s' = actions s -> KI s -> KI s'.
Proof. intros E1 E2 E3 E4 E5 [K1 K]. split; [rewrite E1; exact K1|exact (kw_same s s' E2 E3 E4 E5 K)]. Qed.
Lemma nn_same (s s' : est) : cands s' = cands s -> residual s' = residual s -> NN s -> NN s'.
Proof. intros E1 E2 [H1 H2]. split; rewrite ?E1, ?E2; assumption. Qed.
Lemma ki_set_crash (s : est) e : KI s -> KI (set_crash s e). Proof. apply ki_same; reflexivity. Qed.

Lemma log_fields t m (s : est) : cands (log_action A cfg t m s) = cands s /\ ballots (log_action A cfg t m s) = ballots s /\
  eballots (log_action A cfg t m s) = eballots s /\ quota (log_action A cfg t m s) = quota s /\ residual (log_action A cfg t m s) = residual s.
Proof. unfold log_action. destruct (is_log t); [repeat split|]. destruct (is_round t); repeat split. Qed.

Lemma kw_log t m (s : est) : (t = TIterate -> OK (cands s) /\ NN s) -> KW s -> KW (log_action A cfg t m s).
Proof.
  intros Hnn K. destruct (log_fields t m s) as (E1 & E2 & E3 & E4 & E5). destruct K as [K2 K3 K4 K5].
  constructor; rewrite ?E2, ?E3, ?E4; try assumption.
  unfold log_action. destruct (is_log t) eqn:El.
  - cbn [actions set_actions]. constructor; [|exact K5]. unfold snap_kf_ok. cbn [a_tag a_snap]. auto.
  - set (s1 := if is_round t then set_rounds s (rounds s ++ [cands s]) else s).
    assert (F: cands s1 = cands s /\ actions s1 = actions s /\ residual s1 = residual s) by (unfold s1; destruct (is_round t); repeat split).
    destruct F as (F1 & F2 & F3). cbn [actions set_actions]. rewrite F2.
    constructor; [|exact K5]. unfold snap_kf_ok. cbn [a_tag a_snap]. intros Et. destruct (Hnn Et) as [K1 [HV Hr]].
    unfold snap_of. cbn [as_c as_nt]. rewrite Hmeth, F1, F3. split; [|exact Hr].
    apply Forall_forall. intros x Hx. apply in_map_iff in Hx. destruct Hx as (c & <- & Hc). split; [exact (HV c Hc)|exact (K1 c Hc)].
Qed.
Lemma ki_log t m (s : est) : (t = TIterate -> NN s) -> KI s -> KI (log_action A cfg t m s).
Proof.
  intros Hnn [K1 K]. destruct (log_fields t m s) as (E1 & _). split; [rewrite E1; exact K1|].
  apply kw_log; [|exact K]. intros Et. split; [exact K1|exact (Hnn Et)].
Qed.
Lemma nn_log t m (s : est) : NN s -> NN (log_action A cfg t m s).
Proof. intros H. destruct (log_fields t m s) as (E1 & _ & _ & _ & E5). apply (nn_same s); assumption. Qed.

(* status writers *)
Definition kf_at (s : est) (i : Z) : Prop := forall c, In c (cands s) -> cid c = i -> 0 < kfr c <= S.

Lemma ok_upd i f (l : list cand) : (forall c, In c l -> cid c = i -> ok_c c -> ok_c (f c)) -> OK l -> OK (upd_cand A i f l).
Proof.
  intros Hf K1 c' Hc'. destruct (in_upd_c A i f _ c' Hc') as (c & Hc & [[Ei ->]|[Ei ->]]); [apply Hf; auto|exact (K1 c Hc)].
Qed.
Lemma ki_upd (s : est) i f : (forall c, In c (cands s) -> cid c = i -> ok_c c -> ok_c (f c)) -> KI s -> KI (upd A s i f).
Proof. intros Hf [K1 K]. split; [apply ok_upd; assumption|revert K; apply kw_same; reflexivity]. Qed.

Lemma ki_elect i m p (s : est) : kf_at s i -> KI s -> KI (elect A cfg i m p s).
Proof.
  intros Hat K. unfold elect. destruct (find_cand A (cands s) i) as [c0|]; [|apply ki_set_crash; exact K].
  apply ki_log; [discriminate|]. apply ki_upd; [|exact K]. intros c Hc Ei _. exact (Hat c Hc Ei).
Qed.
Lemma nn_upd_votes (s : est) i f : (forall c, cvote (f c) = cvote c) -> NN s -> NN (upd A s i f).
Proof.
  intros Hf [HV Hr]. split; [|exact Hr]. unfold upd. cbn [cands set_cands]. intros c' Hc'.
  destruct (in_upd_c A i f _ c' Hc') as (c & Hc & [[_ ->]|[_ ->]]); [rewrite Hf|]; exact (HV c Hc).
Qed.
Lemma nn_elect i m p (s : est) : NN s -> NN (elect A cfg i m p s).
Proof.
  intros H. unfold elect. destruct (find_cand A (cands s) i) as [c0|]; [|revert H; apply nn_same; reflexivity].
  apply nn_log. apply nn_upd_votes; [reflexivity|exact H].
Qed.
Lemma kf_at_elect i j m p (s : est) : kf_at s i -> kf_at (elect A cfg j m p s) i.
Proof.
  intros H. unfold elect. destruct (find_cand A (cands s) j) as [c0|]; [|exact H].
  intros c' Hc' Ei. destruct (log_fields TElect (m ++ ": " ++ cname c0)%string (upd A s j (fun c => with_st c Elected (Some p)))) as [E1 _].
  rewrite E1 in Hc'. unfold upd in Hc'. cbn [cands set_cands] in Hc'.
  destruct (in_upd_c A j _ _ c' Hc') as (c & Hc & [[Ej ->]|[Ej ->]]); [apply (H c Hc); exact Ei|exact (H c Hc Ei)].
Qed.

(* exclusion: the defeated candidate is left with keep factor 0 and no votes *)
Lemma ok_dz i (f : cand -> cand) (l : list cand) : (forall c, cid (f c) = cid c) -> (forall c, cst (f c) = Defeated) -> OK l ->
  OK (upd_cand A i (fun c => with_vote (with_kf c (Some (V0 A))) (V0 A)) (upd_cand A i f l)).
Proof.
  intros Hid Hst K1 c2 Hc2.
  destruct (in_upd_c A i _ _ c2 Hc2) as (c1 & Hc1 & H2). destruct (in_upd_c A i f l c1 Hc1) as (c & Hc & H1).
  destruct H2 as [[E2 ->]|[E2 ->]], H1 as [[E1 ->]|[E1 ->]].
  - unfold ok_c, kfr, kf_of. cbn [cst ckf with_vote with_kf]. rewrite Hst. exact RV0.
  - congruence.
  - rewrite Hid in E2. congruence.
  - exact (K1 c Hc).
Qed.

Lemma ki_dz i msg (s : est) : KI s -> KI (zero_cand A i (defeat A cfg i msg s)).
Proof.
  intros [K1 K]. unfold defeat. destruct (find_cand A (cands s) i) as [c0|] eqn:Ef.
  - set (s1 := upd A s i (fun c => with_st c Defeated (cpend c))).
    destruct (log_fields TDefeat (msg ++ ": " ++ cname c0)%string s1) as (E1 & _).
    split.
    + unfold zero_cand, upd. cbn [cands set_cands]. rewrite E1. unfold s1, upd. cbn [cands set_cands]. apply ok_dz; [reflexivity|reflexivity|exact K1].
    + unfold zero_cand. apply (kw_same (log_action A cfg TDefeat (msg ++ ": " ++ cname c0)%string s1)); [reflexivity|reflexivity|reflexivity|reflexivity|].
      apply kw_log; [discriminate|]. revert K. apply kw_same; reflexivity.
  - split; [|revert K; apply kw_same; reflexivity]. unfold zero_cand, upd. cbn [cands set_cands set_crash].
    intros c' Hc'. destruct (in_upd_c A i _ _ c' Hc') as (c & Hc & [[Ei ->]|[Ei ->]]); [|exact (K1 c Hc)].
    exfalso. destruct (find_cand_in A (cands s) i) as [x Hx]; [rewrite <- Ei; apply in_map; exact Hc|congruence].
Qed.


(* ---- a distribution ---- *)
Lemma ki_distribute (s : est) : MI s -> KI s -> crashed (distribute_votes A cfg s) = false ->
  KI (distribute_votes A cfg s) /\ NN (distribute_votes A cfg s).
Proof.
  intros M [K1 [K2 K3 K4 K5]] Hcf.
  destruct (distribute_spec A S ZL cfg s (mi_nd _ _ _ _ _ _ M) Hcf) as [D1 D2 D3 D4 D5 D6].
  destruct (distribute_nn s (ok_kfb _ K1)) as ((_ & HV & Hr) & Fb & Ee); [|exact K2|exact K3|].
  { intros c Hc Hh. rewrite (mi_z0 _ _ _ _ _ _ M c Hc Hh). lia. }
  split; [split; [|constructor]|split; [exact HV|exact Hr]].
  - intros c' Hc'. destruct (relk_in A _ _ _ c' D2 Hc') as (c & Hc & Hrk). destruct (rk_id A _ _ _ Hrk) as (_ & E2 & _ & E4).
    unfold ok_c, kfr, kf_of. rewrite E2, E4. exact (K1 c Hc).
  - exact Fb.
  - rewrite Ee. exact K3.
  - rewrite D5. exact K4.
  - rewrite D6. exact K5.
Qed.

(* ---- the keep-factor update ---- *)
Lemma ceil_pos n d : 0 < n -> 0 < d -> 0 < n / d + upadj true (n mod d).
Proof.
  intros Hn Hd. pose proof (Z.div_mod n d ltac:(lia)). pose proof (Z.mod_pos_bound n d Hd). assert (0 <= n / d) by (apply Z.div_pos; lia).
  unfold upadj. cbn [andb]. destruct (n mod d =? 0) eqn:E; cbn [negb]; nia.
Qed.

Definition statmap (l : list cand) : list (Z * cstate) := map (fun c => (cid c, cst c)) l.
Lemma statmap_upd i f (l : list cand) : (forall c, cid (f c) = cid c /\ cst (f c) = cst c) -> statmap (upd_cand A i f l) = statmap l.
Proof.
  intros Hf. unfold statmap, upd_cand. rewrite map_map. apply map_ext. intros c. destruct (cid c =? i); [|reflexivity].
  destruct (Hf c) as [-> ->]. reflexivity.
Qed.
Lemma statmap_in (l l0 : list cand) c1 : statmap l = statmap l0 -> In c1 l -> exists c0, In c0 l0 /\ cid c0 = cid c1 /\ cst c0 = cst c1.
Proof.
  intros E H. assert (Hin: In (cid c1, cst c1) (statmap l0)) by (rewrite <- E; unfold statmap; apply (in_map (fun c => (cid c, cst c))); exact H).
  unfold statmap in Hin. apply in_map_iff in Hin. destruct Hin as (c0 & E0 & H0). inversion E0. exists c0. auto.
Qed.

Lemma ki_update_kfs_fold (s0 : est) (l : list cand) : NoDup (map (@cid A) (cands s0)) ->
  (forall c, In c l -> In c (cands s0) /\ cst c = Elected /\ 0 < kfr c <= S /\ 0 <= R (cvote c)) ->
  forall t : est, statmap (cands t) = statmap (cands s0) -> KI t ->
  KI (fold_left (fun s c =>
    if crashed s then s else
    match kdiv A (kmul A (kf_of A c) (quota s) true) (cvote c) true with
    | Ok k => let k' := if true && gtv A k (V1 A) then V1 A else k in upd A s (cid c) (fun c => with_kf c (Some k'))
    | Raise e => set_crash s e
    end) l t).
Proof.
  intros Hnd. pose proof (S_pos A S ZL) as HS. induction l as [|c l IH]; intros Hl t Est K; cbn [fold_left]; [exact K|].
  apply IH; [intros x Hx; apply Hl; right; exact Hx| |].
  - destruct (crashed t); [exact Est|]. destruct (kdiv A _ _ _); [|exact Est]. cbv zeta. unfold upd. cbn [cands set_cands].
    rewrite statmap_upd; [exact Est|intros x; split; reflexivity].
  - destruct (crashed t); [exact K|].
    destruct (Hl c (or_introl eq_refl)) as (Hc & Hst & Hkf & Hv).
    destruct (Z.eq_dec (R (cvote c)) 0) as [Hz|Hnz]; [rewrite (r_kdiv0 A S ZL Hex _ _ true Hz); apply ki_set_crash; exact K|].
    destruct (r_kdiv A S ZL Hex (kmul A (kf_of A c) (quota t) true) (cvote c) true Hnz) as (k & Ek & Rk). rewrite Ek. cbv zeta.
    assert (Hx: 0 < R (kmul A (kf_of A c) (quota t) true)).
    { rewrite (r_kmul A S ZL Hex). apply ceil_pos; [|exact HS]. pose proof (ki_q _ (proj2 K)). unfold kfr in Hkf. nia. }
    assert (Hk: 0 < R k) by (rewrite Rk; apply ceil_pos; nia).
    set (k' := if true && gtv A k (V1 A) then V1 A else k).
    assert (Hk': 0 < R k' <= S).
    { unfold k'. cbn [andb]. rewrite (r_gtv_exact A S ZL Hex), RV1. destruct (S <? R k) eqn:E; [rewrite RV1|]; lia. }
    apply ki_upd; [|exact K]. intros c1 Hc1 Ei _.
    destruct (statmap_in _ _ c1 Est Hc1) as (c0 & Hc0 & E1 & E2).
    assert (c0 = c) by (apply (nodup_cid_inj A (cands s0)); [exact Hnd|exact Hc|exact Hc0|congruence]). subst c0.
    unfold ok_c, kfr, kf_of. cbn [cst ckf with_kf]. rewrite <- E2, Hst. exact Hk'.
Qed.

Lemma ki_update_kfs (s : est) : NoDup (map (@cid A) (cands s)) -> KI s -> VN (cands s) -> KI (update_kfs A true s).
Proof.
  intros Hnd K HV. unfold update_kfs. apply (ki_update_kfs_fold s); [exact Hnd| |reflexivity|exact K].
  intros c Hc. unfold electeds in Hc. apply filter_In in Hc. destruct Hc as [Hc Hst].
  assert (Es: cst c = Elected) by (unfold in_state in Hst; destruct (cst c); cbn in Hst; congruence).
  split; [exact Hc|split; [exact Es|split; [|exact (HV c Hc)]]].
  pose proof (proj1 K c Hc) as Ho. unfold ok_c in Ho. rewrite Es in Ho. exact Ho.
Qed.


(* ---- election of the quota holders, the quota ---- *)
Lemma ki_elect_fold m p (st : Z) (l : list cand) : forall t : est, (forall w, In w l -> kf_at t (cid w)) -> KI t ->
  KI (fold_left (fun s c => set_status (elect A cfg (cid c) m p s) st) l t).
Proof.
  induction l as [|c l IH]; intros t Hat K; cbn [fold_left]; [exact K|]. apply IH.
  - intros w Hw. intros c' Hc' Ei. apply (kf_at_elect (cid w) (cid c) m p t (Hat w (or_intror Hw)) c'); [exact Hc'|exact Ei].
  - apply (ki_same (elect A cfg (cid c) m p t)); [reflexivity|reflexivity|reflexivity|reflexivity|reflexivity|].
    apply ki_elect; [apply Hat; left; reflexivity|exact K].
Qed.
Lemma nn_fold {X} (g : est -> X -> est) (l : list X) : (forall s x, NN s -> NN (g s x)) -> forall s, NN s -> NN (fold_left g l s).
Proof. intros Hg. induction l as [|x l IH]; intros s Hs; cbn [fold_left]; [exact Hs|]. apply IH, Hg, Hs. Qed.

Lemma hopeful_kf_at (s : est) w : NoDup (map (@cid A) (cands s)) -> OK (cands s) -> In w (hopefuls A s) -> kf_at s (cid w).
Proof.
  intros Hnd K1 Hw. unfold hopefuls in Hw. apply filter_In in Hw. destruct Hw as [Hw Hst].
  assert (Es: cst w = Hopeful) by (unfold in_state in Hst; destruct (cst w); cbn in Hst; congruence).
  intros c Hc Ei. assert (c = w) by (apply (nodup_cid_inj A (cands s)); [exact Hnd|exact Hw|exact Hc|exact Ei]). subst c.
  pose proof (K1 w Hw) as Ho. unfold ok_c in Ho. rewrite Es in Ho. cbn in Ho. pose proof (S_pos A S ZL). lia.
Qed.

Lemma sum_nonneg (l : list (T A)) : (forall x, In x l -> 0 <= R x) -> 0 <= fold_right (fun x acc => R x + acc) 0 l.
Proof. induction l as [|x l IH]; intros H; cbn [fold_right]; [lia|]. pose proof (H x (or_introl eq_refl)). pose proof (IH (fun y Hy => H y (or_intror Hy))). lia. Qed.

Lemma meek_quota_pos (s : est) q : 0 <= R (votes s) -> meek_quota A cfg s = Ok q -> 0 < R q.
Proof.
  intros Hv. unfold meek_quota. pose proof (S_pos A S ZL) as HS.
  assert (Hne: R (of_int A (cf_nseats cfg + 1)) <> 0) by (rewrite (r_of_int A S ZL); nia).
  destruct (r_divv A S ZL (votes s) (of_int A (cf_nseats cfg + 1)) Hne) as (q0 & E0 & R0). rewrite E0, Hex. intros E. inversion E; subst q.
  rewrite (r_add A S ZL), R0, (r_of_int A S ZL). pose proof (r_eps A S ZL).
  assert (0 <= R (votes s) * S / ((cf_nseats cfg + 1) * S)) by (apply Z.div_pos; nia). lia.
Qed.

Lemma ki_iter_head (s : est) : MI s -> KI s -> crashed (meek_iter_head A cfg s) = false ->
  KI (meek_iter_head A cfg s) /\ NN (meek_iter_head A cfg s).
Proof.
  intros M K. unfold meek_iter_head. cbv zeta. set (s1 := distribute_votes A cfg s).
  destruct (crashed s1) eqn:C1; [congruence|]. intros Hc.
  destruct (ki_distribute s M K C1) as [K1 N1]. destruct (mi_distribute A S ZL cfg T0 s M C1) as [M1 _]. fold s1 in K1, N1, M1.
  set (s2 := set_votes s1 _) in *.
  assert (Hv2: 0 <= R (votes s2)).
  { unfold s2. cbn [votes set_votes]. rewrite r_vsum'. apply sum_nonneg. intros x Hx. apply in_map_iff in Hx. destruct Hx as (c & <- & Hc0).
    apply (proj1 N1). unfold he_cands, hopefuls, electeds in Hc0. apply in_app_or in Hc0. destruct Hc0 as [H|H]; apply filter_In in H; exact (proj1 H). }
  set (s3 := set_quota_r A s2 _) in *.
  destruct (crashed s3) eqn:C3; [congruence|].
  assert (H3: KI s3 /\ NN s3 /\ MI s3).
  { unfold s3, set_quota_r in *. destruct (meek_quota A cfg s2) as [q|e] eqn:Eq; [|rewrite (sticky_set_crash' A) in C3; discriminate].
    split; [|split; [revert N1; apply nn_same; reflexivity|revert M1; apply mi_same; reflexivity]].
    destruct K1 as [O1 [B1 E1 _ H1]]. split; [exact O1|constructor; cbn [ballots eballots quota actions set_quota set_votes s2]; try assumption].
    exact (meek_quota_pos s2 q Hv2 Eq). }
  destruct H3 as (K3 & N3 & M3).
  split.
  - match goal with |- KI (set_surplus ?x _) => apply (ki_same x); [reflexivity|reflexivity|reflexivity|reflexivity|reflexivity|] end.
    apply ki_elect_fold; [|exact K3]. intros w Hw. apply filter_In in Hw. apply hopeful_kf_at; [exact (mi_nd _ _ _ _ _ _ M3)|exact (proj1 K3)|exact (proj1 Hw)].
  - match goal with |- NN (set_surplus ?x _) => apply (nn_same x); [reflexivity|reflexivity|] end.
    apply nn_fold; [|exact N3]. intros t c Nt. apply (nn_same (elect A cfg (cid c) "Elect" false t)); [reflexivity|reflexivity|]. apply nn_elect. exact Nt.
Qed.


(* ---- ties, exclusions, the closing loop ---- *)
Definition J (s : est) : Prop := MI s /\ KI s.
Definition JV (s : est) : Prop := MV A S ZL cfg T0 s /\ KI s /\ NN s.

Lemma ki_break_tie fmt tied (s : est) : KI s -> KI (fst (break_tie A cfg fmt tied s)).
Proof.
  intros K. unfold break_tie. destruct tied as [|c [|c' l]]; cbn [fst]; [apply ki_set_crash; exact K|exact K|].
  destruct (by_tie A (c :: c' :: l)); cbn [fst]; [apply ki_set_crash; exact K|]. apply ki_log; [discriminate|exact K].
Qed.

Lemma j_dzd i msg (s : est) : J s -> crashed (distribute_votes A cfg (zero_cand A i (defeat A cfg i msg s))) = false ->
  J (distribute_votes A cfg (zero_cand A i (defeat A cfg i msg s))).
Proof.
  intros [M K] Hc. pose proof (mi_dz A S ZL cfg T0 i msg s M) as M1. pose proof (ki_dz i msg s K) as K1.
  split; [exact (proj1 (mi_distribute A S ZL cfg T0 _ M1 Hc))|exact (proj1 (ki_distribute _ M1 K1 Hc))].
Qed.

Lemma j_defeat_batch (s : est) : J s -> crashed (meek_defeat_batch A cfg s) = false -> J (meek_defeat_batch A cfg s).
Proof.
  intros Hj Hc. unfold meek_defeat_batch in *.
  apply (fold_guard A J (fun s c => distribute_votes A cfg (zero_cand A (cid c) (defeat A cfg (cid c) "Defeat certain loser" s)))); [|exact Hj|exact Hc].
  intros t c Jt Hct. apply j_dzd; assumption.
Qed.

Lemma j_defeat_low fmt (s : est) : J s -> crashed (meek_defeat_low A cfg fmt true s) = false -> J (meek_defeat_low A cfg fmt true s).
Proof.
  intros [M K]. unfold meek_defeat_low. destruct (low_within_surplus A s) as [lows|e]; [|intros _; split; [apply mi_set_crash; exact M|apply ki_set_crash; exact K]].
  pose proof (mi_break_tie A S ZL cfg T0 Hmeth fmt lows s M) as Mb. pose proof (ki_break_tie fmt lows s K) as Kb.
  destruct (break_tie A cfg fmt lows s) as [s1 [l|]]; cbn [fst] in Mb, Kb; [|intros _; split; assumption].
  cbv zeta. set (msg := if lv_status s1 =? IS_omega then _ else _).
  destruct (crashed (zero_cand A l (defeat A cfg l msg s1))) eqn:C2; [intros _; split; [apply mi_dz; exact Mb|apply ki_dz; exact Kb]|].
  intros Hc. apply j_dzd; [split; assumption|exact Hc].
Qed.

Definition hop_at (s : est) (i : Z) : Prop := forall c, In c (cands s) -> cid c = i -> cst c = Hopeful.

Lemma hop_kf_at (s : est) i : OK (cands s) -> hop_at s i -> kf_at s i.
Proof.
  intros K1 H c Hc Ei. pose proof (K1 c Hc) as Ho. unfold ok_c in Ho. rewrite (H c Hc Ei) in Ho. cbn in Ho. pose proof (S_pos A S ZL). lia.
Qed.
Lemma hop_at_upd i j f (s : est) : (forall c, cid (f c) = cid c) -> i <> j -> hop_at s i -> hop_at (upd A s j f) i.
Proof.
  intros Hf Hij H c' Hc' Ei. unfold upd in Hc'. cbn [cands set_cands] in Hc'.
  destruct (in_upd_c A j f _ c' Hc') as (c & Hc & [[Ej ->]|[Ej ->]]); [|exact (H c Hc Ei)].
  exfalso. rewrite Hf in Ei. congruence.
Qed.
Lemma hop_at_same i (s s' : est) : cands s' = cands s -> hop_at s i -> hop_at s' i.
Proof. intros E H c Hc. rewrite E in Hc. exact (H c Hc). Qed.
Lemma hop_at_elect i j m p (s : est) : i <> j -> hop_at s i -> hop_at (elect A cfg j m p s) i.
Proof.
  intros Hij H. unfold elect. destruct (find_cand A (cands s) j) as [c0|]; [|exact H].
  eapply hop_at_same; [exact (proj1 (log_fields _ _ _))|]. apply hop_at_upd; [reflexivity|exact Hij|exact H].
Qed.
Lemma hop_at_dz i j msg (s : est) : i <> j -> hop_at s i -> hop_at (zero_cand A j (defeat A cfg j msg s)) i.
Proof.
  intros Hij H. unfold zero_cand. apply hop_at_upd; [reflexivity|exact Hij|].
  unfold defeat. destruct (find_cand A (cands s) j) as [c0|]; [|exact H].
  eapply hop_at_same; [exact (proj1 (log_fields _ _ _))|]. apply hop_at_upd; [reflexivity|exact Hij|exact H].
Qed.
Lemma hop_at_distribute i (s : est) : NoDup (map (@cid A) (cands s)) -> crashed (distribute_votes A cfg s) = false ->
  hop_at s i -> hop_at (distribute_votes A cfg s) i.
Proof.
  intros Hnd Hcf H c' Hc' Ei. destruct (distribute_spec A S ZL cfg s Hnd Hcf) as [_ D2 _ _ _ _].
  destruct (relk_in A _ _ _ c' D2 Hc') as (c & Hc & Hrk). destruct (rk_id A _ _ _ Hrk) as (E1 & E2 & _). rewrite E2. apply (H c Hc). congruence.
Qed.

Lemma nodup_map_filter {X Y} (f : X -> Y) (p : X -> bool) (l : list X) : NoDup (map f l) -> NoDup (map f (filter p l)).
Proof.
  induction l as [|x l IH]; intros H; cbn [filter map]; [constructor|]. cbn [map] in H. inversion H as [|? ? Hn Hnd]; subst.
  destruct (p x); [|apply IH; exact Hnd]. cbn [map]. constructor; [|apply IH; exact Hnd].
  intros Hin. apply Hn. apply in_map_iff in Hin. destruct Hin as (y & Ey & Hy). apply filter_In in Hy. rewrite <- Ey. apply in_map. exact (proj1 Hy).
Qed.

Definition final_step (s : est) (c : cand) : est :=
  distribute_votes A cfg
    (if nlen (electeds A s) <? cf_nseats cfg then elect A cfg (cid c) "Elect remaining" false s
     else zero_cand A (cid c) (defeat A cfg (cid c) "Defeat remaining" s)).

Lemma j_final_fold (l : list cand) : NoDup (map (@cid A) l) -> forall t : est, J t -> (forall x, In x l -> hop_at t (cid x)) ->
  crashed (fold_left (fun s c => if crashed s then s else final_step s c) l t) = false ->
  J (fold_left (fun s c => if crashed s then s else final_step s c) l t).
Proof.
  induction l as [|c l IH]; intros Hnd t Hj Hh Hc; cbn [fold_left] in *; [exact Hj|].
  cbn [map] in Hnd. inversion Hnd as [|? ? Hn Hnd']; subst.
  destruct (crashed t) eqn:Ct; [exfalso; rewrite (guard_fold_crashed A) in Hc by exact Ct; congruence|].
  destruct (crashed (final_step t c)) eqn:C1; [exfalso; rewrite (guard_fold_crashed A) in Hc by exact C1; congruence|].
  destruct Hj as [M K].
  set (s' := if nlen (electeds A t) <? cf_nseats cfg then elect A cfg (cid c) "Elect remaining" false t
             else zero_cand A (cid c) (defeat A cfg (cid c) "Defeat remaining" t)) in *.
  assert (H': MI s' /\ KI s' /\ forall x, In x l -> hop_at s' (cid x)).
  { unfold s'. destruct (nlen (electeds A t) <? cf_nseats cfg).
    - split; [apply (mi_elect A S ZL cfg T0 Hmeth); exact M|split].
      + apply ki_elect; [apply hop_kf_at; [exact (proj1 K)|apply Hh; left; reflexivity]|exact K].
      + intros x Hx. apply hop_at_elect; [|apply Hh; right; exact Hx]. intros E. apply Hn. rewrite <- E. apply in_map. exact Hx.
    - split; [apply mi_dz; exact M|split; [apply ki_dz; exact K|]].
      intros x Hx. apply hop_at_dz; [|apply Hh; right; exact Hx]. intros E. apply Hn. rewrite <- E. apply in_map. exact Hx. }
  destruct H' as (M' & K' & Hh'). change (final_step t c) with (distribute_votes A cfg s') in *.
  apply IH; [exact Hnd'| | |exact Hc].
  - split; [exact (proj1 (mi_distribute A S ZL cfg T0 _ M' C1))|exact (proj1 (ki_distribute _ M' K' C1))].
  - intros x Hx. apply hop_at_distribute; [exact (mi_nd _ _ _ _ _ _ M')|exact C1|apply Hh'; exact Hx].
Qed.

Lemma j_final (s : est) : J s -> crashed (meek_final A cfg true s) = false -> J (meek_final A cfg true s).
Proof.
  intros Hj. unfold meek_final. cbv zeta. cbn [crashed set_residual set_votes]. intros Hc.
  match goal with |- J (set_residual (set_votes ?x _) _) =>
    assert (Hx: J x); [|destruct Hx as [Mx Kx]; split; [revert Mx; apply mi_same; reflexivity|revert Kx; apply ki_same; reflexivity]] end.
  apply (j_final_fold (hopefuls A s)); [apply nodup_map_filter; exact (mi_nd _ _ _ _ _ _ (proj1 Hj))|exact Hj| |exact Hc].
  intros x Hx c Hc0 Ei. unfold hopefuls in Hx. apply filter_In in Hx. destruct Hx as [Hx Hst].
  assert (c = x) by (apply (nodup_cid_inj A (cands s)); [exact (mi_nd _ _ _ _ _ _ (proj1 Hj))|exact Hx|exact Hc0|exact Ei]). subst c.
  unfold in_state in Hst. destruct (cst x); cbn in Hst; congruence.
Qed.


(* ---- the first operation ---- *)
Hypothesis Hnb : 0 <= cf_nballots cfg.

Definition PreK (s : est) : Prop :=
  (forall c, In c (cands s) -> ckf c = None /\ (cst c = Hopeful \/ cst c = Withdrawn)) /\
  Forall wfb_m (ballots s) /\ Forall wfe_m (eballots s) /\ Forall snap_kf_ok (actions s).

Lemma ki_fold {X} (g : est -> X -> est) (l : list X) : (forall s x, KI s -> KI (g s x)) -> forall s, KI s -> KI (fold_left g l s).
Proof. intros Hg. induction l as [|x l IH]; intros s Hs; cbn [fold_left]; [exact Hs|]. apply IH, Hg, Hs. Qed.
Lemma ki_add_vote i v (s : est) : KI s -> KI (add_vote A i v s).
Proof. intros K. unfold add_vote. apply ki_upd; [|exact K]. intros c _ _ H. exact H. Qed.

Lemma ki_begin (s : est) : PreK s -> crashed (meek_begin A cfg s) = false -> KI (meek_begin A cfg s).
Proof.
  intros (P1 & P2 & P3 & P4). unfold meek_begin. destruct (omega A cfg) as [o|e]; [|rewrite (sticky_set_crash' A); discriminate]. cbv zeta.
  set (s1 := set_votes s (of_int A (cf_nballots cfg))).
  destruct (meek_quota A cfg s1) as [q|e] eqn:Eq; [|cbn [set_quota_r]; rewrite (sticky_set_crash' A); cbv iota; rewrite (sticky_set_crash' A); discriminate].
  cbn [set_quota_r]. destruct (crashed (set_quota s1 q)) eqn:C2; [intros H; cbv iota in H; congruence|]. intros _.
  assert (Hq: 0 < R q).
  { apply (meek_quota_pos s1 q); [|exact Eq]. unfold s1. cbn [votes set_votes]. rewrite (r_of_int A S ZL). pose proof (S_pos A S ZL). nia. }
  apply ki_log; [discriminate|]. unfold meek_first_prefs.
  apply ki_fold.
  { intros t eb Kt. destruct (crashed t); [exact Kt|]. destruct (erank eb); [apply ki_set_crash; exact Kt|].
    destruct (divv A _ _); [|apply ki_set_crash; exact Kt]. cbv zeta. apply ki_fold; [|exact Kt]. intros u i Ku. apply ki_add_vote. exact Ku. }
  apply ki_fold.
  { intros t b Kt. destruct (top_rank A b); [apply ki_add_vote|]; exact Kt. }
  split; [|constructor; cbn [ballots eballots quota actions init_kfs set_cands set_quota set_votes s1]; assumption].
  unfold init_kfs. cbn [cands set_cands set_quota set_votes s1]. intros c' Hc'. apply in_map_iff in Hc'. destruct Hc' as (c & <- & Hc).
  destruct (P1 c Hc) as [Ek Est]. unfold in_state. destruct Est as [Est|Est]; rewrite Est; cbn [cstate_eqb].
  - unfold ok_c, kfr, kf_of. cbn [cst ckf with_kf]. rewrite Est. exact RV1.
  - unfold ok_c, kfr, kf_of. rewrite Est, Ek. exact RV0.
Qed.

(* ---- the iteration and the rule as Hoare triples ---- *)
Notation T3 := (triple est (@crashed A)).

Lemma j_same (s s' : est) : cands s' = cands s -> ballots s' = ballots s -> eballots s' = eballots s -> actions s' = actions s ->
  quota s' = quota s -> J s -> J s'.
Proof. intros E1 E2 E3 E4 E5 [M K]. split; [exact (mi_same A S ZL cfg T0 s s' E1 E2 E3 E4 M)|exact (ki_same s s' E1 E2 E3 E5 E4 K)]. Qed.
Lemma jv_same (s s' : est) : cands s' = cands s -> ballots s' = ballots s -> eballots s' = eballots s -> actions s' = actions s ->
  quota s' = quota s -> residual s' = residual s -> JV s -> JV s'.
Proof.
  intros E1 E2 E3 E4 E5 E6 (V & K & N). split; [exact (mv_same A S ZL cfg T0 s s' E1 E2 E3 E4 E6 E5 V)|split; [exact (ki_same s s' E1 E2 E3 E5 E4 K)|exact (nn_same s s' E1 E6 N)]].
Qed.
Lemma jv_j (s : est) : JV s -> J s. Proof. intros ([M _] & K & _). split; assumption. Qed.

Lemma meek_iterate_triple_j (Qb Qc : est -> Prop) : T3 J (meek_iterate A cfg) JV Qb Qc.
Proof.
  unfold meek_iterate.
  eapply t_seq with (M := J).
  { apply t_do. intros s H. revert H. apply j_same; reflexivity. }
  eapply t_post; [|apply (t_while est (@crashed A) J JV)].
  - intros s [H|[_ H]]; [exact H|discriminate H].
  - eapply t_pre with (P := J); [intros s H; exact (proj1 H)|].
    eapply t_seq with (M := JV).
    { apply t_do_nc. intros s [M K] Hc. split; [exact (mi_iter_head A S ZL cfg T0 Hmeth s M Hc)|exact (ki_iter_head s M K Hc)]. }
    eapply t_seq with (M := JV); [apply t_ite; [apply t_break'; intros s [H _]; exact H|apply t_skip'; intros s [H _]; exact H]|].
    eapply t_seq with (M := JV).
    { apply t_ite; [|apply t_skip'; intros s [H _]; exact H].
      eapply t_seq with (M := JV); [apply t_do; intros s [H _]; revert H; apply jv_same; reflexivity|].
      apply t_break'. auto. }
    eapply t_seq with (M := JV).
    { apply t_ite; [|apply t_skip'; intros s [H _]; exact H].
      eapply t_seq with (M := JV).
      { apply t_do. intros s [([M V] & K & N) _].
        match goal with |- JV (set_status ?x _) => apply (jv_same x); [reflexivity|reflexivity|reflexivity|reflexivity|reflexivity|reflexivity|] end.
        split; [split; [apply (mi_log A S ZL cfg T0 Hmeth); [discriminate|exact M]|apply cvq_log; exact V]|split; [apply ki_log; [discriminate|exact K]|apply nn_log; exact N]]. }
      apply t_break'. auto. }
    eapply t_seq with (M := JV).
    { apply t_do. intros s H. revert H. apply jv_same; reflexivity. }
    eapply t_seq with (M := JV).
    { apply t_ite; [|apply t_skip'; intros s [H _]; exact H].
      eapply t_seq with (M := JV); [apply t_do; intros s [H _]; revert H; apply jv_same; reflexivity|].
      apply t_break'. auto. }
    apply t_do. intros s ([M V] & K & N). split.
    + apply mi_update_kfs. revert M. apply mi_same; reflexivity.
    + apply ki_update_kfs; [exact (mi_nd _ _ _ _ _ _ M)|revert K; apply ki_same; reflexivity|exact (proj1 N)].
Qed.

Lemma meek_body_triple_j (Qb : est -> Prop) : T3 J (meek_body A cfg) J Qb J.
Proof.
  unfold meek_body.
  eapply t_seq with (M := J).
  { apply t_do. intros s [M K]. unfold new_round. split.
    - apply (mi_log A S ZL cfg T0 Hmeth); [discriminate|]. revert M. apply mi_same; reflexivity.
    - apply ki_log; [discriminate|]. revert K. apply ki_same; reflexivity. }
  eapply t_seq with (M := JV); [apply meek_iterate_triple_j|].
  eapply t_seq with (M := J).
  { apply t_do. intros s ([M V] & K & N). split; [apply (mi_log A S ZL cfg T0 Hmeth); [intros _; exact V|exact M]|apply ki_log; [intros _; exact N|exact K]]. }
  eapply t_seq with (M := J); [apply t_ite; [apply t_continue'; intros s [H _]; exact H|apply t_skip'; intros s [H _]; exact H]|].
  eapply t_seq with (M := J).
  { apply t_ite; [|apply t_skip'; intros s [H _]; exact H].
    eapply t_seq with (M := J); [|apply t_continue'; auto].
    apply t_do_nc. intros s [H _] Hc. apply j_defeat_batch; assumption. }
  apply t_ite; [|apply t_skip'; intros s [H _]; exact H].
  apply t_do_nc. intros s [H _] Hc. apply j_defeat_low; assumption.
Qed.

Variable ids : list Z.
Theorem meek_triple_j (Qb Qc : est -> Prop) : T3 (fun s => Pre0 A S ZL cfg T0 ids s /\ PreK s) (meek A cfg) J Qb Qc.
Proof.
  rewrite meek_unfold.
  eapply t_seq with (M := J).
  { apply t_do_nc. intros s [P0 PK] Hc. split; [apply (mi_begin A S ZL cfg T0 Hmeth ids); assumption|apply ki_begin; assumption]. }
  eapply t_seq with (M := J).
  { eapply t_post; [|apply (t_while est (@crashed A) J (fun _ => False))].
    - intros s [H|[H _]]; [contradiction|exact H].
    - eapply t_pre with (P := J); [intros s H; exact (proj1 H)|]. apply meek_body_triple_j. }
  apply t_do_nc. intros s H Hc. apply j_final; assumption.
Qed.

End MeekKfRun.
