From Coq Require Import ZArith QArith Qround List Bool Lia ZifyBool.
From Droop Require Import Model.KernelBase Model.Arith Gen.FixedKernels Gen.GuardedKernels
  Proofs.ArithLemmas Proofs.GuardedLemmas.
Import ListNotations.
Open Scope Z_scope.

Lemma ok_true (b : bool) : (@Ok bool b = Ok true) <-> b = true.
Proof. split; [intros H; injection H; auto | intros ->; reflexivity]. Qed.

(* (a) exactly one of <, ==, > *)
Lemma c13_trichotomy st a b : 1 <= g_geps st ->
  exists lt eq gt, dunder_lt st a (OVal b) = Ok lt /\ dunder_eq st a (OVal b) = Ok eq /\
                   dunder_gt st a (OVal b) = Ok gt /\
                   ((lt = true /\ eq = false /\ gt = false) \/ (lt = false /\ eq = true /\ gt = false) \/
                    (lt = false /\ eq = false /\ gt = true)).
Proof.
  intros He. destruct (rel_of_cmp st a b) as (E1 & _ & E3 & E4 & _ & _).
  do 3 eexists. split; [exact E3|]. split; [exact E1|]. split; [exact E4|].
  destruct (Z.abs (a - b) <? g_geps st); cbn [negb andb]; [right; left; auto|].
  destruct (b <? a); cbn [negb]; [right; right; auto|left; auto].
Qed.

(* (a) the tolerance law for the state initialize() builds *)
Lemma c13_tolerance p g d s a b : 0 <= g ->
  let st := mk_guarded_cls p g d s in
  (dunder_eq st a (OVal b) = Ok true <-> 2 * Z.abs (a - b) < 10 ^ g) /\
  (dunder_lt st a (OVal b) = Ok true <-> 10 ^ g <= 2 * Z.abs (a - b) /\ a < b) /\
  (dunder_gt st a (OVal b) = Ok true <-> 10 ^ g <= 2 * Z.abs (a - b) /\ b < a) /\
  (dunder_le st a (OVal b) = Ok true <-> 2 * Z.abs (a - b) < 10 ^ g \/ a < b) /\
  (dunder_ge st a (OVal b) = Ok true <-> 2 * Z.abs (a - b) < 10 ^ g \/ b < a) /\
  (dunder_ne st a (OVal b) = Ok true <-> 10 ^ g <= 2 * Z.abs (a - b)).
Proof.
  intros Hg st. destruct (geps_spec p g d s Hg) as [He Hx]. fold st in He, Hx.
  specialize (Hx (Z.abs (a - b)) (Z.abs_nonneg _)).
  destruct (rel_of_cmp st a b) as (E1 & E2 & E3 & E4 & E5 & E6). rewrite E1, E2, E3, E4, E5, E6.
  rewrite !ok_true. repeat split; lia.
Qed.

(* guard > 0: every multiplicative kernel is the floor at p+g places (rounding argument ignored) *)
Lemma c13_guarded_floor st a b c r : g_guard st <> 0 -> g_scale st <> 0 ->
  GuardedKernels.mul st (OVal a) (OVal b) r = Ok (a * b / g_scale st) /\
  (b <> 0 -> GuardedKernels.div st (OVal a) (OVal b) r = Ok (a * g_scale st / b)) /\
  (c <> 0 -> GuardedKernels.muldiv st (OVal a) (OVal b) (OVal c) r = Ok (a * b / c)) /\
  GuardedKernels.dunder_mul st a (OVal b) = Ok (a * b / g_scale st) /\
  (b <> 0 -> GuardedKernels.dunder_truediv st a (OVal b) = Ok (a * g_scale st / b)).
Proof.
  intros Hg HS.
  unfold GuardedKernels.mul, GuardedKernels.div, GuardedKernels.muldiv, GuardedKernels.dunder_mul,
    GuardedKernels.dunder_truediv, GuardedKernels.dunder_floordiv.
  cbn [GuardedKernels.init GuardedKernels.init_r]. cbv zeta. unfold truthy.
  destruct (g_guard st =? 0) eqn:E; [lia|]. cbn [negb].
  rewrite (pydiv_ok _ _ HS). cbn [bind]. repeat split; intros H; rewrite (pydiv_ok _ _ H); reflexivity.
Qed.
