(* StatutoryProofs: a statutory rule forces every option its construction reads, so the rule
   parameters, the arithmetic class and every class attribute assigned are constants (C17, second half). *)
From Coq Require Import ZArith List Bool String Ascii Lia.
From Droop Require Import Model.KernelBase Model.Str Model.Arith Model.Options Model.ClassState
  Proofs.OptionsProofs Proofs.ClassStateProofs.
Import ListNotations.
Open Scope Z_scope.
Open Scope list_scope.

Lemma wbind_step {A B} (m : WM A) (k : A -> WM B) o a o1 l1 :
  m o = (Ok a, o1, l1) -> wbind m k o = (match k a o1 with (r, o2, l2) => (r, o2, l1 ++ l2) end).
Proof. intros H. unfold wbind. rewrite H. reflexivity. Qed.

Lemma leaf_getopt k o : w_op (getopt_m k) o = (Ok (getopt o k), o, []).
Proof. reflexivity. Qed.
Lemma leaf_setopt k d f o :
  w_op (setopt k d f []) o = (Ok (getopt (setopt_store o k d f) k), setopt_store o k d f, []).
Proof. reflexivity. Qed.
Lemma leaf_when b e o : b = false -> wwhen_raise b e o = (Ok tt, o, []).
Proof. intros ->. reflexivity. Qed.
Lemma leaf_lift {A} (a : A) o : wlift (Ok a) o = (Ok a, o, []).
Proof. reflexivity. Qed.
Lemma leaf_wr f v o : wr f v o = (Ok tt, o, [(f, v)]).
Proof. reflexivity. Qed.
Lemma leaf_ret {A} (a : A) o : wret a o = (Ok a, o, []).
Proof. reflexivity. Qed.

Tactic Notation "st" constr(L) := rewrite (wbind_step _ _ _ _ _ _ L); cbv beta.

Lemma checked_int_attr_VInt f p o : 0 <= p -> checked_int_attr f (VInt p) o = (Ok p, o, [(f, FZ p)]).
Proof.
  intros H. unfold checked_int_attr.
  st (leaf_lift p o). st (leaf_wr f (FZ p) o).
  assert (Hc : (p <? 0) || negb (String.eqb (string_of_Z p) (py_str (VInt p))) = false).
  { cbn [py_str]. rewrite String.eqb_refl. assert (E : (p <? 0) = false) by lia. rewrite E. reflexivity. }
  st (leaf_when _ UsageError o Hc). rewrite leaf_ret. reflexivity.
Qed.

Lemma initialize_guarded_known o p : 0 <= p ->
  getopt o "arithmetic" = VStr "guarded" -> getopt o "precision" = VInt p -> getopt o "guard" = VInt p ->
  getopt o "display" = VInt p ->
  initialize_guarded o = (Ok tt, o, guarded_log p p p).
Proof.
  intros H0 Ha Hp Hg Hd. unfold initialize_guarded.
  st (leaf_getopt "arithmetic" o). rewrite Ha.
  st (leaf_when (negb (oval_eqb (VStr "guarded") (vs "guarded"))) UsageError o eq_refl).
  st (leaf_getopt "precision" o). rewrite Hp.
  st (checked_int_attr_VInt GdPrecision p o H0).
  st (leaf_getopt "guard" o). rewrite Hg. cbn [is_none].
  st (leaf_ret tt o).
  st (leaf_getopt "guard" o). rewrite Hg.
  st (checked_int_attr_VInt GdGuard p o H0).
  st (leaf_getopt "display" o). rewrite Hd. cbn [is_none].
  st (leaf_ret tt o).
  st (leaf_getopt "display" o). rewrite Hd.
  st (checked_int_attr_VInt GdDisplay p o H0).
  unfold wtell. reflexivity.
Qed.

Lemma initialize_fixed_known o p : 0 < p ->
  getopt o "arithmetic" = VStr "fixed" -> getopt o "precision" = VInt p -> getopt o "display" = VInt p ->
  initialize_fixed o = (Ok tt, o, fixed_log "fixed" p p).
Proof.
  intros H0 Ha Hp Hd. unfold initialize_fixed.
  st (leaf_getopt "arithmetic" o). rewrite Ha.
  st (leaf_when (negb (oval_eqb (VStr "fixed") (vs "fixed") || oval_eqb (VStr "fixed") (vs "integer"))) UsageError o eq_refl).
  change (oval_eqb (VStr "fixed") (vs "integer")) with false. cbv iota.
  st (leaf_getopt "precision" o). rewrite Hp.
  assert (E0 : oval_eqb (VInt p) (VInt 0) = false) by (cbn; lia). rewrite E0.
  st (leaf_wr FxName (FS "fixed") o).
  change (usage_int (VInt p)) with (@Ok Z p). st (leaf_lift p o).
  st (leaf_wr FxPrecision (FZ p) o).
  assert (Hc : (p <? 0) || negb (String.eqb (string_of_Z p) (py_str (VInt p))) = false).
  { cbn [py_str]. rewrite String.eqb_refl. assert (E : (p <? 0) = false) by lia. rewrite E. reflexivity. }
  st (leaf_when _ UsageError o Hc).
  st (leaf_getopt "display" o). rewrite Hd. cbn [is_none].
  st (leaf_ret tt o).
  st (leaf_getopt "display" o). rewrite Hd.
  change (usage_int (VInt p)) with (@Ok Z p). st (leaf_lift p o).
  assert (E1 : (p <? 0) || (p <? p) = false) by (apply orb_false_iff; lia). rewrite E1.
  unfold wtell. reflexivity.
Qed.

(* ------------------------------------------------------------------ forced keys *)
Definition forced (o : store) (k : string) (v : oval) : Prop := dget k (o_force o) = Some v.

Lemma sbind_step {A B} (m : SM store A) (k : A -> SM store B) o a o1 :
  m o = (Ok a, o1) -> sbind m k o = k a o1.
Proof. intros H. unfold sbind. rewrite H. reflexivity. Qed.
Lemma leaf_wop {A} (m : SM store A) o a o1 : m o = (Ok a, o1) -> w_op m o = (Ok a, o1, []).
Proof. intros H. unfold w_op. rewrite H. reflexivity. Qed.

Lemma setopt_forced_eq k d o : setopt k d true [] o = (Ok (normalize_val d), setopt_store o k d true).
Proof.
  unfold setopt. f_equal. f_equal. apply getopt_forced.
  destruct (setopt_store_layers o k d true) as (_ & _ & _ & _ & E). rewrite E. apply dget_dset_eq.
Qed.
Lemma forced_same o k d : forced (setopt_store o k d true) k (normalize_val d).
Proof.
  unfold forced. destruct (setopt_store_layers o k d true) as (_ & _ & _ & _ & E). rewrite E. apply dget_dset_eq.
Qed.
Lemma forced_other o k d f k' v : String.eqb k' k = false -> forced o k' v -> forced (setopt_store o k d f) k' v.
Proof.
  unfold forced. intros Hk H. destruct (setopt_store_layers o k d f) as (_ & _ & _ & _ & E). rewrite E.
  destruct f; [rewrite (dget_dset_neq _ _ _ _ Hk)|]; exact H.
Qed.
Lemma forced_unforced o k d k' v : forced o k' v -> forced (setopt_store o k d false) k' v.
Proof.
  unfold forced. intros H. destruct (setopt_store_layers o k d false) as (_ & _ & _ & _ & E). rewrite E. exact H.
Qed.
Lemma supplied_kept o k d f :
  o_cmd (setopt_store o k d f) = o_cmd o /\ o_file (setopt_store o k d f) = o_file o.
Proof. destruct (setopt_store_layers o k d f) as (E1 & E2 & _). auto. Qed.

(* ------------------------------------------------------------------ ArithmeticClass under forced options *)
Lemma arithmetic_class_fixed o p : 0 < p ->
  forced o "arithmetic" (VStr "fixed") -> forced o "precision" (VInt p) -> forced o "display" (VInt p) ->
  arithmetic_class o = (Ok AFixed, setopt_store o "arithmetic" (vs "guarded") false, fixed_log "fixed" p p).
Proof.
  intros H0 Ha Hp Hd. unfold arithmetic_class.
  st (leaf_setopt "arithmetic" (vs "guarded") false o).
  set (o2 := setopt_store o "arithmetic" (vs "guarded") false).
  assert (Ha2 : getopt o2 "arithmetic" = VStr "fixed") by (apply getopt_forced, forced_unforced, Ha).
  assert (Hp2 : getopt o2 "precision" = VInt p) by (apply getopt_forced, forced_unforced, Hp).
  assert (Hd2 : getopt o2 "display" = VInt p) by (apply getopt_forced, forced_unforced, Hd).
  rewrite Ha2. change (arithmetic_dispatch (VStr "fixed")) with (@Ok acls AFixed).
  st (leaf_lift AFixed o2). cbv iota.
  st (initialize_fixed_known o2 p H0 Ha2 Hp2 Hd2). rewrite leaf_ret. rewrite ?app_nil_r. reflexivity.
Qed.

Lemma arithmetic_class_guarded o p : 0 <= p ->
  forced o "arithmetic" (VStr "guarded") -> forced o "precision" (VInt p) -> forced o "guard" (VInt p) ->
  forced o "display" (VInt p) ->
  arithmetic_class o = (Ok AGuarded, setopt_store o "arithmetic" (vs "guarded") false, guarded_log p p p).
Proof.
  intros H0 Ha Hp Hg Hd. unfold arithmetic_class.
  st (leaf_setopt "arithmetic" (vs "guarded") false o).
  set (o2 := setopt_store o "arithmetic" (vs "guarded") false).
  assert (Ha2 : getopt o2 "arithmetic" = VStr "guarded") by (apply getopt_forced, forced_unforced, Ha).
  assert (Hp2 : getopt o2 "precision" = VInt p) by (apply getopt_forced, forced_unforced, Hp).
  assert (Hg2 : getopt o2 "guard" = VInt p) by (apply getopt_forced, forced_unforced, Hg).
  assert (Hd2 : getopt o2 "display" = VInt p) by (apply getopt_forced, forced_unforced, Hd).
  rewrite Ha2. change (arithmetic_dispatch (VStr "guarded")) with (@Ok acls AGuarded).
  st (leaf_lift AGuarded o2). cbv iota.
  st (initialize_guarded_known o2 p H0 Ha2 Hp2 Hg2 Hd2). rewrite leaf_ret. rewrite ?app_nil_r. reflexivity.
Qed.

(* ------------------------------------------------------------------ the rules' options() *)
Definition forces (o1 o : store) (fo : list (string * oval)) : Prop :=
  (forall k v, In (k, v) fo -> forced o1 k v) /\ o_cmd o1 = o_cmd o /\ o_file o1 = o_file o.

Ltac forced_tac :=
  repeat first [ apply forced_same | apply forced_other; [reflexivity|] ].

Lemma fixed3_forces o p :
  let o1 := setopt_store (setopt_store (setopt_store o "arithmetic" (vs "fixed") true) "precision" (VInt p) true)
                         "display" (VInt p) true in
  forces o1 o [("arithmetic"%string, VStr "fixed"); ("precision"%string, VInt p); ("display"%string, VInt p)].
Proof.
  cbv zeta. split; [|split].
  - intros k v [E|[E|[E|[]]]]; injection E as <- <-.
    + apply forced_other; [reflexivity|]. apply forced_other; [reflexivity|]. exact (forced_same o "arithmetic" (vs "fixed")).
    + apply forced_other; [reflexivity|]. exact (forced_same _ "precision" (VInt p)).
    + exact (forced_same _ "display" (VInt p)).
  - rewrite !(proj1 (supplied_kept _ _ _ _)). reflexivity.
  - rewrite !(proj2 (supplied_kept _ _ _ _)). reflexivity.
Qed.

Lemma statute_fixed_options_eval rname p o :
  statute_fixed_options rname p o =
  (Ok (mkParams (Some (vs rname)) None None None None),
   setopt_store (setopt_store (setopt_store o "arithmetic" (vs "fixed") true) "precision" (VInt p) true) "display" (VInt p) true).
Proof.
  unfold statute_fixed_options.
  rewrite (sbind_step _ _ _ _ _ (setopt_forced_eq "arithmetic" (vs "fixed") o)).
  rewrite (sbind_step _ _ _ _ _ (setopt_forced_eq "precision" (VInt p) _)).
  rewrite (sbind_step _ _ _ _ _ (setopt_forced_eq "display" (VInt p) _)).
  reflexivity.
Qed.

Lemma prf_options_eval name p o : getopt o "rule" = VStr name ->
  prf_options p o =
  (Ok (mkParams (Some (VStr name)) None (Some (VBool (str_endswith name "batch"))) None None),
   setopt_store (setopt_store (setopt_store o "arithmetic" (vs "fixed") true) "precision" (VInt p) true) "display" (VInt p) true).
Proof.
  intros Hr. unfold prf_options.
  rewrite (sbind_step _ _ _ _ _ (eq_refl : getopt_m "rule" o = (Ok (getopt o "rule"), o))). rewrite Hr.
  rewrite (sbind_step _ _ _ _ _ (eq_refl : slift (endswith_batch (VStr name)) o = (Ok (VBool (str_endswith name "batch")), o))).
  rewrite (sbind_step _ _ _ _ _ (setopt_forced_eq "arithmetic" (vs "fixed") o)).
  rewrite (sbind_step _ _ _ _ _ (setopt_forced_eq "precision" (VInt p) _)).
  rewrite (sbind_step _ _ _ _ _ (setopt_forced_eq "display" (VInt p) _)).
  reflexivity.
Qed.

Lemma meek_prf_options_eval o :
  meek_prf_options o =
  (Ok (mkParams (Some (vs "meek-prf")) None None None (Some (VInt 6))),
   setopt_store (setopt_store (setopt_store (setopt_store o "arithmetic" (vs "fixed") true) "precision" (VInt 9) true)
                              "display" (VInt 9) true) "omega" (VInt 6) true).
Proof.
  unfold meek_prf_options.
  rewrite (sbind_step _ _ _ _ _ (setopt_forced_eq "arithmetic" (vs "fixed") o)).
  rewrite (sbind_step _ _ _ _ _ (setopt_forced_eq "precision" (VInt 9) _)).
  rewrite (sbind_step _ _ _ _ _ (setopt_forced_eq "display" (VInt 9) _)).
  rewrite (sbind_step _ _ _ _ _ (setopt_forced_eq "omega" (VInt 6) _)).
  reflexivity.
Qed.

Lemma qpq_options_eval o :
  qpq_options o =
  (Ok (mkParams (Some (vs "qpq")) None None None None),
   setopt_store (setopt_store (setopt_store (setopt_store o "arithmetic" (vs "guarded") true) "precision" (VInt 9) true)
                              "guard" (VInt 9) true) "display" (VInt 9) true).
Proof.
  unfold qpq_options.
  rewrite (sbind_step _ _ _ _ _ (setopt_forced_eq "arithmetic" (vs "guarded") o)).
  rewrite (sbind_step _ _ _ _ _ (setopt_forced_eq "precision" (VInt 9) _)).
  rewrite (sbind_step _ _ _ _ _ (setopt_forced_eq "guard" (VInt 9) _)).
  rewrite (sbind_step _ _ _ _ _ (setopt_forced_eq "display" (VInt 9) _)).
  reflexivity.
Qed.

(* ------------------------------------------------------------------ Election construction for each statutory rule *)
(* the constant outcome: Rule class, rule attributes, arithmetic class, class-attribute assignments,
   effective values of the option names the construction consults *)
Definition fixed_forced (p : Z) : list (string * oval) :=
  [("arithmetic"%string, VStr "fixed"); ("precision"%string, VInt p); ("display"%string, VInt p)].
Definition statutory_spec (name : string) : option (rulecls * ruleparams * acls * wlog * list (string * oval)) :=
  if String.eqb name "scotland" then
    Some (KScotland, mkParams (Some (vs "scotland")) None None None None, AFixed, fixed_log "fixed" 5 5, fixed_forced 5)
  else if String.eqb name "mpls" then
    Some (KMpls, mkParams (Some (vs "mpls")) None None None None, AFixed, fixed_log "fixed" 4 4, fixed_forced 4)
  else if String.eqb name "wigm-prf" then
    Some (KWigmPrf, mkParams (Some (vs "wigm-prf")) None (Some (VBool false)) None None, AFixed, fixed_log "fixed" 4 4, fixed_forced 4)
  else if String.eqb name "wigm-prf-batch" then
    Some (KWigmPrf, mkParams (Some (vs "wigm-prf-batch")) None (Some (VBool true)) None None, AFixed, fixed_log "fixed" 4 4, fixed_forced 4)
  else if String.eqb name "cfer" then
    Some (KCfer, mkParams (Some (vs "cfer")) None (Some (VBool false)) None None, AFixed, fixed_log "fixed" 5 5, fixed_forced 5)
  else if String.eqb name "cfer-batch" then
    Some (KCfer, mkParams (Some (vs "cfer-batch")) None (Some (VBool true)) None None, AFixed, fixed_log "fixed" 5 5, fixed_forced 5)
  else if String.eqb name "meek-prf" then
    Some (KMeekPrf, mkParams (Some (vs "meek-prf")) None None None (Some (VInt 6)), AFixed, fixed_log "fixed" 9 9,
          (fixed_forced 9 ++ [("omega"%string, VInt 6)]))
  else if String.eqb name "qpq" then
    Some (KQpq, mkParams (Some (vs "qpq")) None None None None, AGuarded, guarded_log 9 9 9,
          [("arithmetic"%string, VStr "guarded"); ("precision"%string, VInt 9); ("guard"%string, VInt 9); ("display"%string, VInt 9)])
  else None.

Definition setup_result (o : store) k ps c l (fo : list (string * oval)) : Prop :=
  exists o', election_setup_w o = (Ok (k, ps, c), o', l) /\ o_cmd o' = o_cmd o /\ o_file o' = o_file o /\
             (forall kk v, In (kk, v) fo -> getopt o' kk = v).

(* shared tail: after the rule's options() the store is o1 with the forced keys fo *)
Lemma setup_from_rule o name k ps c l fo o1 :
  getopt o "rule" = VStr name -> rule_by_name name = Some k ->
  rule_options k o = (Ok ps, o1) -> forces o1 o fo ->
  arithmetic_class o1 = (Ok c, setopt_store o1 "arithmetic" (vs "guarded") false, l) ->
  setup_result o k ps c l fo.
Proof.
  intros Hr Hk Hopt (Hf & Hc1 & Hc2) Ha. exists (setopt_store o1 "arithmetic" (vs "guarded") false).
  split; [|split; [|split]].
  - unfold election_setup_w. st (leaf_getopt "rule" o). rewrite Hr.
    st (leaf_when (is_none (VStr name)) ElectionError o eq_refl). cbv iota. rewrite Hk.
    st (leaf_wop _ _ _ _ Hopt). st Ha. rewrite leaf_ret. rewrite ?app_nil_r. reflexivity.
  - rewrite (proj1 (supplied_kept _ _ _ _)). exact Hc1.
  - rewrite (proj2 (supplied_kept _ _ _ _)). exact Hc2.
  - intros kk v Hin. apply getopt_forced, forced_unforced, Hf, Hin.
Qed.

Lemma In3 {A} (x a b c : A) : In x [a; b; c] -> x = a \/ x = b \/ x = c.
Proof. cbn. intuition. Qed.

Lemma setup_fixed3 o name k ps p :
  0 < p -> getopt o "rule" = VStr name -> rule_by_name name = Some k ->
  rule_options k o = (Ok ps, setopt_store (setopt_store (setopt_store o "arithmetic" (vs "fixed") true)
                                                        "precision" (VInt p) true) "display" (VInt p) true) ->
  setup_result o k ps AFixed (fixed_log "fixed" p p) (fixed_forced p).
Proof.
  intros H0 Hr Hk Hopt. pose proof (fixed3_forces o p) as HF. cbv zeta in HF.
  eapply setup_from_rule; eauto.
  destruct HF as (Hf & _). apply arithmetic_class_fixed; [exact H0| | |]; apply Hf; cbn; auto.
Qed.

Lemma statutory_setup name k ps c l fo : statutory_spec name = Some (k, ps, c, l, fo) ->
  forall o, getopt o "rule" = VStr name -> setup_result o k ps c l fo.
Proof.
  unfold statutory_spec. intros H o Hr.
  destruct (String.eqb name "scotland") eqn:E1.
  { apply String.eqb_eq in E1. subst name. injection H as <- <- <- <- <-.
    apply (setup_fixed3 o "scotland" KScotland _ 5); [lia|exact Hr|reflexivity|apply statute_fixed_options_eval]. }
  destruct (String.eqb name "mpls") eqn:E2.
  { apply String.eqb_eq in E2. subst name. injection H as <- <- <- <- <-.
    apply (setup_fixed3 o "mpls" KMpls _ 4); [lia|exact Hr|reflexivity|apply statute_fixed_options_eval]. }
  destruct (String.eqb name "wigm-prf") eqn:E3.
  { apply String.eqb_eq in E3. subst name. injection H as <- <- <- <- <-.
    apply (setup_fixed3 o "wigm-prf" KWigmPrf _ 4); [lia|exact Hr|reflexivity|]. apply (prf_options_eval "wigm-prf" 4 o Hr). }
  destruct (String.eqb name "wigm-prf-batch") eqn:E4.
  { apply String.eqb_eq in E4. subst name. injection H as <- <- <- <- <-.
    apply (setup_fixed3 o "wigm-prf-batch" KWigmPrf _ 4); [lia|exact Hr|reflexivity|]. apply (prf_options_eval "wigm-prf-batch" 4 o Hr). }
  destruct (String.eqb name "cfer") eqn:E5.
  { apply String.eqb_eq in E5. subst name. injection H as <- <- <- <- <-.
    apply (setup_fixed3 o "cfer" KCfer _ 5); [lia|exact Hr|reflexivity|]. apply (prf_options_eval "cfer" 5 o Hr). }
  destruct (String.eqb name "cfer-batch") eqn:E6.
  { apply String.eqb_eq in E6. subst name. injection H as <- <- <- <- <-.
    apply (setup_fixed3 o "cfer-batch" KCfer _ 5); [lia|exact Hr|reflexivity|]. apply (prf_options_eval "cfer-batch" 5 o Hr). }
  destruct (String.eqb name "meek-prf") eqn:E7.
  { apply String.eqb_eq in E7. subst name. injection H as <- <- <- <- <-.
    set (o1 := setopt_store (setopt_store (setopt_store (setopt_store o "arithmetic" (vs "fixed") true) "precision" (VInt 9) true)
                              "display" (VInt 9) true) "omega" (VInt 6) true).
    assert (HF : forces o1 o (fixed_forced 9 ++ [("omega"%string, VInt 6)])).
    { destruct (fixed3_forces o 9) as (Hf & Hc1 & Hc2). split; [|split].
      - intros kk v Hin. apply in_app_or in Hin. destruct Hin as [Hin|[E|[]]].
        + unfold o1. destruct (In3 _ _ _ _ Hin) as [E|[E|E]]; injection E as -> ->;
            (apply forced_other; [reflexivity|]); apply Hf; cbn; auto.
        + injection E as <- <-. exact (forced_same _ "omega" (VInt 6)).
      - unfold o1. rewrite (proj1 (supplied_kept _ _ _ _)). exact Hc1.
      - unfold o1. rewrite (proj2 (supplied_kept _ _ _ _)). exact Hc2. }
    eapply (setup_from_rule o "meek-prf" KMeekPrf); [exact Hr|reflexivity|apply meek_prf_options_eval|exact HF|].
    destruct HF as (Hf & _). apply arithmetic_class_fixed; [lia| | |]; apply Hf; cbn; auto. }
  destruct (String.eqb name "qpq") eqn:E8; [|discriminate].
  apply String.eqb_eq in E8. subst name. injection H as <- <- <- <- <-.
  set (o1 := setopt_store (setopt_store (setopt_store (setopt_store o "arithmetic" (vs "guarded") true) "precision" (VInt 9) true)
                            "guard" (VInt 9) true) "display" (VInt 9) true).
  assert (HF : forces o1 o [("arithmetic"%string, VStr "guarded"); ("precision"%string, VInt 9); ("guard"%string, VInt 9); ("display"%string, VInt 9)]).
  { split; [|split].
    - unfold o1. intros kk v [E|[E|[E|[E|[]]]]]; injection E as <- <-.
      + do 3 (apply forced_other; [reflexivity|]). exact (forced_same o "arithmetic" (vs "guarded")).
      + do 2 (apply forced_other; [reflexivity|]). exact (forced_same _ "precision" (VInt 9)).
      + apply forced_other; [reflexivity|]. exact (forced_same _ "guard" (VInt 9)).
      + exact (forced_same _ "display" (VInt 9)).
    - unfold o1. rewrite !(proj1 (supplied_kept _ _ _ _)). reflexivity.
    - unfold o1. rewrite !(proj2 (supplied_kept _ _ _ _)). reflexivity. }
  eapply (setup_from_rule o "qpq" KQpq); [exact Hr|reflexivity|apply qpq_options_eval|exact HF|].
  destruct HF as (Hf & _). apply arithmetic_class_guarded; [lia| | | |]; apply Hf; cbn; auto.
Qed.

(* two elections under the same statutory rule, whatever options either was given, on any class state:
   same rule attributes, same arithmetic class, and class states that agree on every attribute *)
Lemma statutory_immune name spec : statutory_spec name = Some spec ->
  forall o o2 g, getopt o "rule" = VStr name -> getopt o2 "rule" = VStr name ->
  fst (election_setup (o, g)) = fst (election_setup (o2, g)) /\
  (exists k ps c, fst (election_setup (o, g)) = Ok (k, ps, c)) /\
  (forall f, snd (snd (election_setup (o, g))) f = snd (snd (election_setup (o2, g))) f).
Proof.
  destruct spec as [[[[k ps] c] l] fo]. intros Hs o o2 g H1 H2.
  destruct (statutory_setup _ _ _ _ _ _ Hs o H1) as (o' & E1 & _).
  destruct (statutory_setup _ _ _ _ _ _ Hs o2 H2) as (o2' & E2 & _).
  unfold election_setup, run_w. cbn [fst snd]. rewrite E1, E2. cbn [fst snd].
  split; [reflexivity|]. split; [exists k, ps, c; reflexivity|]. reflexivity.
Qed.

Lemma stores_well_formed cmd file k :
  wf_store (election_options (dict_of_list cmd) file) /\
  wf_store (snd (rule_options k (election_options (dict_of_list cmd) file))).
Proof.
  assert (H : wf_store (election_options (dict_of_list cmd) file)).
  { apply wf_update_dict, wf_new_options, NoDup_dict_of_list. }
  split; [exact H|apply wf_rule_options; exact H].
Qed.
