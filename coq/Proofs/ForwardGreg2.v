(* Forward-only status: cfer(-batch) and mpls *)
From Coq Require Import ZArith List Bool String Lia Permutation.
From Droop Require Import Model.KernelBase Model.Str Model.Arith Model.Prelude Model.State Model.Prims
  Model.RulesGregory Model.RulesMeek Model.Election Proofs.CmdMeta Proofs.SortLemmas Proofs.Forward Proofs.Ties
  Proofs.ForwardOps Proofs.ForwardMeek.
Import ListNotations.
Open Scope Z_scope.

Section G2.
Variable A : arith.
Variable cfg : config.
Notation est := (est A).
Notation R := (R A).
Notation Sat := (Sat A).
Notation ND := (ND A).

Definition isE (a : sp) : Prop := fst a = Elected.

Lemma f_elect_E x i m s : R x s -> Sat s i isE -> R x (elect A cfg i m false s).
Proof.
  intros H HS. apply r_elect; [exact H|]. eapply sat_of_pre; [|exact HS]. intros [st pd] Ha. unfold isE in Ha. cbn in Ha. rewrite Ha.
  unfold fwd. cbn. intros X; discriminate X.
Qed.

Lemma f_elect_pendings x m s : R x s -> ND s -> R x (fold_left (fun s c => elect A cfg (cid c) m false s) (pendings A s) s).
Proof.
  intros H Hnd. apply (f_fold_cand A (fun s0 c => elect A cfg (cid c) m false s0) isE).
  - intros; apply f_elect_E; assumption.
  - intros; apply sat_elect_other; assumption.
  - exact H.
  - unfold pendings. apply nodup_map_filter. exact Hnd.
  - intros c Hc. eapply sat_of_pre; [|apply (pending_sat A s c Hnd Hc)]. intros a [Ha _]. exact Ha.
Qed.

(* cfer batch: only hopeful candidates *)
Lemma cfer_scan_all (P : cand A -> Prop) s surp nE all lastv : forall rest prefix_rev best,
  Forall P rest -> Forall P prefix_rev -> Forall P best -> Forall P (cfer_scan A cfg s surp nE all lastv prefix_rev rest best).
Proof.
  induction rest as [|ct rest IH]; intros prefix_rev best Hr Hp Hb; cbn [cfer_scan]; [exact Hb|].
  destruct rest as [|nextc rest']; [exact Hb|]. inversion Hr as [|? ? Hct Hr']; subst.
  destruct (_ <? _); [exact Hb|]. cbv zeta.
  assert (Ht: Forall P (rev (ct :: prefix_rev))) by (apply Forall_rev; constructor; assumption).
  destruct (gev A _ _).
  - apply IH; auto.
  - apply IH; auto. destruct (_ || _); assumption.
Qed.
Lemma cfer_batch_hopeful (s : est) : Forall (fun c => In c (hopefuls A s)) (cfer_batch A cfg s).
Proof.
  unfold cfer_batch. cbv zeta. destruct (rev _); [constructor|]. apply cfer_scan_all; [apply sorted_hopefuls_all|constructor|constructor].
Qed.
Lemma cfer_find_batch_H (s : est) : ND s -> BatchH A (cfer_find_batch A cfg s).
Proof.
  intros Hnd. unfold cfer_find_batch. destruct (cf_batch cfg).
  - eapply (batchH_of_hopefuls A s _ _ Hnd); [reflexivity|reflexivity|apply cfer_batch_hopeful].
  - intros i [].
Qed.

Lemma f_cfer_transfer_all x s : R x s -> ND s -> R x (cfer_transfer_all_pending A cfg s).
Proof.
  intros H Hnd. unfold cfer_transfer_all_pending. apply (f_fold A); [|exact H|exact Hnd].
  intros y t c Hy Hn. destruct (crashed t); [exact Hy|]. cbv zeta.
  assert (P2: R y (unpend A cfg (cid c) (Some "Transfer surplus"%string) t)) by (apply f_unpend; assumption).
  destruct (crashed (unpend A cfg (cid c) _ t)); [exact P2|].
  match goal with |- context[for_ballots A ?f ?sel ?st] =>
    assert (P3: R y (for_ballots A f sel st)) by (apply f_for_ballots; [intros; apply f_reweigh; assumption|exact P2]) end.
  match goal with |- context[crashed ?st] => destruct (crashed st) end; [exact P3|].
  apply f_log, f_set_vote. exact P3.
Qed.

Lemma f_cfer_defeat_low x s : R x s -> ND s -> R x (cfer_defeat_low A cfg s).
Proof.
  intros H Hnd. unfold cfer_defeat_low. destruct (low_candidates A s) as [[lv lows]|] eqn:El; [|apply f_crash; exact H].
  destruct (bt_simple_ok A cfg "defeat"%string lows s) as (HR & Hc & Hin). specialize (HR x H).
  destruct (bt_simple A cfg "defeat" lows s) as [s1 [l|]]; cbn [fst snd] in *; [|exact HR].
  destruct (Hin l eq_refl) as (c & Hcl & <-). apply f_batch. apply f_defeat_H; [exact HR|].
  intros c' Hc' E. rewrite Hc in Hc'. exact (hopeful_sat A s c Hnd (low_in_hopefuls A s lv lows El c Hcl) c' Hc' E).
Qed.

(* mpls *)
Lemma mpls_scan_all (P : cand A -> Prop) surp maxD : forall l vote maybe_rev losers,
  Forall P l -> Forall P maybe_rev -> Forall P losers -> Forall P (mpls_scan A surp maxD l vote maybe_rev losers).
Proof.
  induction l as [|c l IH]; intros vote maybe_rev losers Hl Hm Hlo; cbn [mpls_scan]; [exact Hlo|].
  destruct l as [|nxt t]; [exact Hlo|]. inversion Hl as [|? ? Hc Hl']; subst.
  destruct (_ <? _); [exact Hlo|]. cbv zeta. apply IH; auto.
  destruct (ltv A _ _); [apply Forall_rev; constructor; assumption|exact Hlo].
Qed.
Lemma certain_losers_hopeful surp (s : est) : Forall (fun c => In c (hopefuls A s)) (find_certain_losers A cfg surp s).
Proof.
  unfold find_certain_losers. cbv zeta. apply Forall_forall. intros c Hc. unfold by_order in Hc. apply py_sorted_in in Hc.
  pose proof (mpls_scan_all (fun c => In c (hopefuls A s)) surp (nlen (hopefuls A s) - seats_left A cfg s)
                (by_vote A false (hopefuls A s)) (V0 A) [] [] (sorted_hopefuls_all A s false) (Forall_nil _) (Forall_nil _)) as F.
  rewrite Forall_forall in F. exact (F c Hc).
Qed.

Lemma mpls_find_defeats_ok x s : R x s -> ND s -> crashed (mpls_find_defeats A cfg s) = false ->
  R x (mpls_find_defeats A cfg s) /\ BatchH A (mpls_find_defeats A cfg s).
Proof.
  intros H Hnd. unfold mpls_find_defeats. cbv zeta.
  match goal with |- context[match ?u with Ok _ => _ | Raise _ => _ end] => destruct u as [uv|e] end.
  - intros _. split; [apply f_batch; exact H|].
    eapply (batchH_of_hopefuls A s _ _ Hnd); [reflexivity|reflexivity|].
    apply Forall_app. split.
    + destruct (round s =? 2); [|constructor]. apply Forall_forall. intros c Hc. apply filter_In in Hc. exact (proj1 Hc).
    + apply Forall_forall. intros c Hc. apply filter_In in Hc. destruct Hc as [Hc _].
      pose proof (certain_losers_hopeful (if round s =? 2 then add A (surplus s) uv else surplus s) s) as F.
      rewrite Forall_forall in F. exact (F c Hc).
  - intros C. unfold crashed in C. cbn [crash set_crash] in C. destruct (crash s); discriminate C.
Qed.

Lemma f_mpls_defeat_batch x s : R x s -> BatchH A s -> R x (mpls_defeat_batch A cfg s).
Proof.
  intros H HB. unfold mpls_defeat_batch. cbv zeta. apply f_log, f_surplus.
  apply f_fold0; [intros; apply f_set_vote; assumption|].
  apply f_for_ballots; [intros; apply f_transfer; assumption|].
  apply (f_fold_HD A (fun s0 c => defeat A cfg (cid c) (if cundecl c then "Defeat undeclared write-in" else "Defeat certain loser") s0)).
  - intros y t c Hy HS. apply r_defeat; assumption.
  - intros t c j HS. apply sat_defeat_HD. exact HS.
  - exact H.
  - intros c Hc. destruct (cands_of_in A s _ c Hc) as [_ Hi]. eapply sat_of_pre; [|apply HB; exact Hi]. intros a Ha. left; exact Ha.
Qed.

Lemma hwq_in (s : est) d c : In c (hopeful_with_quota A d s) -> In c (hopefuls A s).
Proof. unfold hopeful_with_quota. intros H. apply filter_In in H. destruct H as [H _]. unfold by_vote in H. apply py_sorted_in in H. exact H. Qed.

Lemma f_mpls_elect_threshold x s : R x s -> ND s ->
  R x (fold_left (fun s c => elect A cfg (cid c) "Candidate at threshold" false s) (hopeful_with_quota A true s) s).
Proof.
  intros H Hnd. apply (f_fold_cand A (fun s0 c => elect A cfg (cid c) "Candidate at threshold" false s0) (isH)).
  - intros; apply f_elect_H; assumption.
  - intros; apply sat_elect_other; assumption.
  - exact H.
  - unfold hopeful_with_quota. apply nodup_map_filter. unfold by_vote. apply nodup_sorted_hopefuls. exact Hnd.
  - apply hopeful_list_ok; [exact Hnd|]. intros c Hc. exact (hwq_in s true c Hc).
Qed.

Lemma f_mpls_elect_high x s : R x s -> ND s -> R x (mpls_elect_high A cfg s).
Proof.
  intros H Hnd. unfold mpls_elect_high. cbv zeta. destruct (max_vote A _); [|apply f_crash; exact H].
  set (tied := filter (fun c => eqv A (cvote c) t) (hopeful_with_quota A false s)).
  destruct (bt_simple_ok A cfg "largest surplus"%string tied s) as (HR & Hc & Hin). specialize (HR x H).
  destruct (bt_simple A cfg "largest surplus" tied s) as [s1 [h|]]; cbn [fst snd] in *; [|exact HR].
  destruct (Hin h eq_refl) as (c & Hct & <-).
  assert (Hch: In c (hopefuls A s)) by (unfold tied in Hct; apply filter_In in Hct; exact (hwq_in s false c (proj1 Hct))).
  assert (HS: Sat s1 (cid c) isH) by (intros c' Hc' E; rewrite Hc in Hc'; exact (hopeful_sat A s c Hnd Hch c' Hc' E)).
  assert (P2: R x (elect A cfg (cid c) "Elect" false s1)) by (apply f_elect_H; assumption).
  destruct (crashed _); [exact P2|].
  match goal with |- context[for_ballots A ?f ?sel ?st] =>
    assert (P3: R x (for_ballots A f sel st)) by (apply f_for_ballots; [intros; apply f_reweigh; assumption|exact P2]) end.
  match goal with |- context[crashed ?st] => destruct (crashed st) end; [exact P3|].
  apply f_log, f_surplus, f_set_vote. exact P3.
Qed.

Lemma f_mpls_defeat_low x s : R x s -> ND s -> R x (mpls_defeat_low A cfg s).
Proof.
  intros H Hnd. unfold mpls_defeat_low. destruct (low_candidates A s) as [[lv lows]|] eqn:El; [|apply f_crash; exact H].
  destruct (bt_simple_ok A cfg "defeat low candidate"%string lows s) as (HR & Hc & Hin). specialize (HR x H).
  destruct (bt_simple A cfg "defeat low candidate" lows s) as [s1 [l|]]; cbn [fst snd] in *; [|exact HR].
  destruct (Hin l eq_refl) as (c & Hcl & <-).
  assert (HS: Sat s1 (cid c) isH).
  { intros c' Hc' E. rewrite Hc in Hc'. exact (hopeful_sat A s c Hnd (low_in_hopefuls A s lv lows El c Hcl) c' Hc' E). }
  assert (P2: R x (defeat A cfg (cid c) "Defeat low candidate" s1)) by (apply f_defeat_H; assumption).
  destruct (crashed _); [exact P2|]. destruct (_ <? _); [|exact P2].
  apply f_log, f_surplus, f_set_vote. apply f_for_ballots; [intros; apply f_transfer; assumption|exact P2].
Qed.

Section WholeG2.
Variable x : est.
Hypothesis Hx : ND x.
Notation InvF := (InvF A x).
Notation triple := (triple est (@crashed A)).
Definition IB2 (s : est) : Prop := InvF s /\ BatchH A s.
Let nd := inv_nd A x Hx.

Theorem cfer_forward : triple InvF (cfer A cfg) InvF InvF InvF.
Proof.
  unfold cfer.
  eapply t_seq with (M := InvF); [apply t_do; intros s Hs; apply f_log, f_start_count, Hs|].
  eapply t_post; [|apply (t_while est (@crashed A) InvF InvF)].
  - intros s [H|[H _]]; exact H.
  - eapply t_pre with (P := InvF); [intros s H; exact (proj1 H)|].
    eapply t_seq with (M := InvF); [apply t_do; intros s Hs; apply f_new_round, Hs|].
    eapply t_seq with (M := InvF).
    { apply t_ite; [|apply t_skip'; intros s [H _]; exact H].
      eapply t_seq with (M := InvF); [apply t_do; intros s [Hs _]; apply f_elect_all; [exact Hs|exact (nd s Hs)]|]. apply t_break'. auto. }
    eapply t_seq with (M := InvF); [apply t_do; intros s Hs; apply f_elect_with_quota; [exact Hs|exact (nd s Hs)]|].
    eapply t_seq with (M := InvF).
    { apply t_ite; [|apply t_skip'; intros s [H _]; exact H].
      eapply t_seq with (M := InvF); [apply t_do; intros s [Hs _]; apply f_unpend_all; [exact Hs|exact (nd s Hs)]|].
      eapply t_seq with (M := InvF); [apply t_do; intros s Hs; apply f_defeat_all; [exact Hs|exact (nd s Hs)]|]. apply t_break'. auto. }
    eapply t_seq with (M := IB2).
    { apply t_do. intros s Hs. split; [apply f_batch; exact Hs|apply cfer_find_batch_H; exact (nd s Hs)]. }
    eapply t_seq with (M := InvF).
    { apply t_ite.
      - apply t_do. intros s [[Hs HB] _]. apply f_defeat_batch_order; assumption.
      - apply t_ite.
        + apply t_do. intros s [[[Hs _] _] _]. apply f_cfer_transfer_all; [exact Hs|exact (nd s Hs)].
        + apply t_do. intros s [[[Hs _] _] _]. apply f_cfer_defeat_low; [exact Hs|exact (nd s Hs)]. }
    apply t_ite; [|apply t_skip'; intros s [H _]; exact H].
    eapply t_seq with (M := InvF).
    { apply t_ite; [|apply t_skip'; intros s [[H _] _]; exact H].
      eapply t_seq with (M := InvF); [apply t_do; intros s [[Hs _] _]; apply f_elect_pendings; [exact Hs|exact (nd s Hs)]|].
      eapply t_seq with (M := InvF); [apply t_do; intros s Hs; apply f_elect_all; [exact Hs|exact (nd s Hs)]|]. apply t_break'. auto. }
    apply t_do. intros s Hs. apply f_transfer_batch, Hs.
Qed.

Theorem mpls_forward : triple InvF (mpls A cfg) InvF InvF InvF.
Proof.
  unfold mpls.
  eapply t_seq with (M := InvF); [apply t_do; intros s Hs; apply f_new_round, f_start_count, Hs|].
  eapply t_seq with (M := InvF).
  { eapply t_post; [|apply (t_while est (@crashed A) InvF InvF)].
    - intros s [H|[H _]]; exact H.
    - eapply t_pre with (P := InvF); [intros s H; exact (proj1 H)|].
      eapply t_seq with (M := InvF); [apply t_do; intros s Hs; apply f_log, f_surplus, Hs|].
      eapply t_seq with (M := InvF).
      { apply t_ite; [|apply t_skip'; intros s [H _]; exact H].
        eapply t_seq with (M := InvF); [apply t_do; intros s [Hs _]; apply f_mpls_elect_threshold; [exact Hs|exact (nd s Hs)]|]. apply t_break'. auto. }
      eapply t_seq with (M := InvF); [apply t_do; intros s Hs; apply f_new_round, Hs|].
      eapply t_seq with (M := IB2).
      { apply (t_do_nc est (@crashed A)). intros s Hs Hc. apply mpls_find_defeats_ok; [exact Hs|exact (nd s Hs)|exact Hc]. }
      eapply t_seq with (M := InvF).
      { apply t_ite; [|apply t_skip'; intros s [[H _] _]; exact H].
        eapply t_seq with (M := InvF); [apply t_do; intros s [[Hs HB] _]; apply f_mpls_defeat_batch; assumption|]. apply t_continue'. auto. }
      eapply t_seq with (M := InvF).
      { apply t_ite; [|apply t_skip'; intros s [H _]; exact H].
        eapply t_seq with (M := InvF); [apply t_do; intros s [Hs _]; apply f_mpls_elect_high; [exact Hs|exact (nd s Hs)]|]. apply t_continue'. auto. }
      eapply t_seq with (M := InvF).
      { apply t_ite; [|apply t_skip'; intros s [H _]; exact H]. apply t_do. intros s [Hs _]. apply f_mpls_defeat_low; [exact Hs|exact (nd s Hs)]. }
      apply t_ite; [apply t_break'; intros s [H _]; exact H|apply t_skip'; intros s [H _]; exact H]. }
  eapply t_seq with (M := InvF).
  { apply t_ite; [|apply t_skip'; intros s [H _]; exact H]. apply t_do. intros s [Hs _]. apply f_elect_all; [exact Hs|exact (nd s Hs)]. }
  apply t_ite; [|apply t_skip'; intros s [H _]; exact H]. apply t_do. intros s [Hs _]. apply f_defeat_all; [exact Hs|exact (nd s Hs)].
Qed.
End WholeG2.
End G2.
