(* C07 at the level of the micro-operations: who is chosen for exclusion / transfer, and how ties are resolved. *)
From Coq Require Import ZArith List Bool Lia String Permutation.
From Droop Require Import Model.KernelBase Model.Arith Model.Prelude Model.State Model.Prims Proofs.Zlike Proofs.SortLemmas.
Import ListNotations.
Open Scope Z_scope.

Section T.
Variable A : arith.
Variable cfg : config.
Notation est := (est A).

(* breakTie: the chosen candidate is one of the tied; a lone candidate is taken silently; otherwise exactly one
   'tie' action naming the tied set and the choice is logged, and nothing else in the state changes *)
Lemma break_tie_spec fmt tied (s : est) i s' :
  break_tie A cfg fmt tied s = (s', Some i) ->
  (exists c, In c tied /\ cid c = i) /\
  ((exists c, tied = [c] /\ s' = s) \/
   (2 <= List.length tied)%nat /\ exists c, In c tied /\ cid c = i /\ s' = log_action A cfg TTie (fmt (names A tied) (cname c)) s).
Proof.
  unfold break_tie. destruct tied as [|c [|c2 t]]; [discriminate| |].
  - intros H; inversion H; subst. split; [exists c; split; [left; reflexivity|reflexivity]|]. left. exists c; auto.
  - destruct (by_tie A (c :: c2 :: t)) as [|t0 rest] eqn:E; [discriminate|].
    intros H; inversion H; subst.
    assert (Hin: In t0 (c :: c2 :: t)).
    { unfold by_tie in E. apply (py_sorted_in _ (fun a b : cand A => ctie a <? ctie b) false). rewrite E. left; reflexivity. }
    split; [exists t0; auto|]. right. split; [cbn; lia|]. exists t0; auto.
Qed.

Lemma break_tie_none_crashes fmt tied (s : est) s' :
  break_tie A cfg fmt tied s = (s', None) -> tied = [] /\ s' = set_crash s IndexError.
Proof.
  unfold break_tie. destruct tied as [|c [|c2 t]]; [intros H; inversion H; auto|discriminate|].
  destruct (by_tie A (c :: c2 :: t)) as [|t0 rest] eqn:E; [|discriminate].
  exfalso. unfold by_tie in E.
  pose proof (py_sorted_perm _ (fun a b => ctie a <? ctie b) false (c :: c2 :: t)) as P. rewrite E in P.
  apply Permutation_nil in P. discriminate.
Qed.

Variable S : Z.
Variable ZL : zlike A S.
Hypothesis Hex : exact A = false.
Notation R := (@raw A S ZL).

Lemma fold_min_raw (l : list (cand A)) (x : T A) :
  let m := fold_left (fun m y => if ltv A (cvote y) m then cvote y else m) l x in
  (m = x \/ exists c, In c l /\ m = cvote c) /\ R m <= R x /\ (forall c, In c l -> R m <= R (cvote c)).
Proof.
  revert x. induction l as [|y l IH]; intros x; cbn [fold_left].
  - split; [left; reflexivity|]. split; [lia|]. intros c [].
  - specialize (IH (if ltv A (cvote y) x then cvote y else x)). cbv zeta in *.
    destruct IH as (Hin & Hle & Hall). rewrite (r_ltv_exact A S ZL Hex) in *.
    destruct (R (cvote y) <? R x) eqn:E.
    + split; [destruct Hin as [->|(c & Hc & ->)]; right; [exists y; split; [left; reflexivity|reflexivity]|exists c; split; [right; exact Hc|reflexivity]]|].
      split; [lia|]. intros c [<-|Hc]; [exact Hle|apply Hall; exact Hc].
    + split; [destruct Hin as [->|(c & Hc & ->)]; [left; reflexivity|right; exists c; split; [right; exact Hc|reflexivity]]|].
      split; [exact Hle|]. intros c [<-|Hc]; [lia|apply Hall; exact Hc].
Qed.

(* min(c.vote for c in C.hopeful()) and the candidates at that vote *)
Theorem low_candidates_spec (s : est) lv lows :
  low_candidates A s = Some (lv, lows) ->
  lows <> [] /\
  (forall c, In c lows <-> In c (hopefuls A s) /\ R (cvote c) = R lv) /\
  (forall c, In c (hopefuls A s) -> R lv <= R (cvote c)).
Proof.
  unfold low_candidates, min_vote. destruct (hopefuls A s) as [|c0 l] eqn:Eh; [discriminate|].
  intros H. injection H as Hlv Hlows.
  destruct (fold_min_raw l (cvote c0)) as (Hin & Hle & Hall). cbv zeta in *. rewrite Hlv in *.
  assert (Hmem: forall c, In c lows <-> In c (c0 :: l) /\ R (cvote c) = R lv).
  { intros c. rewrite <- Hlows.
    change (In c (filter (fun c1 : cand A => eqv A (cvote c1) lv) (c0 :: l)) <-> In c (c0 :: l) /\ R (cvote c) = R lv).
    rewrite filter_In, (r_eqv_exact A S ZL Hex). split; intros [H1 H2]; split; auto; lia. }
  split.
  - destruct Hin as [Em|(c & Hc & Em)]; intros E.
    + assert (HI: In c0 lows) by (apply Hmem; split; [left; reflexivity|rewrite Em; reflexivity]).
      rewrite E in HI. exact HI.
    + assert (HI: In c lows) by (apply Hmem; split; [right; exact Hc|rewrite Em; reflexivity]).
      rewrite E in HI. exact HI.
  - split; [exact Hmem|]. intros c [<-|Hc]; [exact Hle|apply Hall; exact Hc].
Qed.
End T.
