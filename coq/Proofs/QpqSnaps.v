(* C09 for QPQ, snapshot by snapshot: no recorded snapshot of a QPQ count shows more than [seats] winners -- under every arithmetic.
   The walk of QpqSeats.v again, with the record in the invariant: every action is logged in a state that has at most [seats]
   elected candidates (an election is logged after its status change, and it happens only while a seat is free). *)
From Coq Require Import ZArith List Bool String Lia PArith.
From Droop Require Import Model.KernelBase Model.Str Model.Arith Model.Prelude Model.State Model.Prims Model.RulesMeek
  Model.Election Proofs.CmdMeta Proofs.Status Proofs.Ties Proofs.Forward Proofs.ForwardOps Proofs.ForwardCount Proofs.Terminate Proofs.TerminateQpq
  Proofs.Conserve Proofs.ConserveCount Proofs.Winners Proofs.QpqSeats.
Import ListNotations.
Open Scope Z_scope.

Section QN.
Variable A : arith.
Variable cfg : config.
Notation est := (est A).
Notation cand := (cand A).
Notation eln := (eln A).
Notation sl := (sl A).
Notation seats := (cf_nseats cfg).
Notation J := (J A cfg).
Notation J1 := (J1 A cfg).
Local Open Scope cmd_scope.
Notation T3 := (triple est (@crashed A)).

Definition HS (s : est) : Prop := Forall (fun a => forall sn, a_snap a = Some sn -> nel_sts (ssn A sn) <= seats) (actions s).
Lemma hs_same (s s' : est) : actions s' = actions s -> HS s -> HS s'.
Proof. unfold HS. intros ->. auto. Qed.

Lemma nel_stl_any (l : list cand) : nel_sts (stl A l) = nlen (filter (in_state A Elected) l).
Proof.
  unfold nel_sts, nlen, stl. induction l as [|c l IH]; [reflexivity|]. cbn [map filter fst snd]. unfold in_state at 1.
  destruct (cst c); cbn [cstate_eqb List.length]; lia.
Qed.
Lemma nel_snap (s : est) : nel_sts (ssn A (snap_of A cfg s)) = Z.of_nat (eln s).
Proof. rewrite (ssn_snap A cfg), nel_stl_any. exact (nlen_electeds A s). Qed.

Lemma hs_log t m (s : est) : Z.of_nat (eln s) <= seats -> HS s -> HS (log_action A cfg t m s).
Proof.
  intros Hle H. unfold log_action. destruct (is_log t).
  - constructor; [intros sn E; discriminate|exact H].
  - destruct (is_round t); (constructor; [intros sn E; cbn in E; injection E as <-; rewrite nel_snap; exact Hle|exact H]).
Qed.

Definition HJ (s : est) : Prop := J s /\ HS s.
Definition HJ1 (s : est) : Prop := J1 s /\ HS s.

(* a logged state with the same statuses as the result *)
Lemma hj_log t m (u : est) : J (log_action A cfg t m u) -> HS u -> HJ (log_action A cfg t m u).
Proof.
  intros Hj Hs. split; [exact Hj|]. apply hs_log; [|exact Hs].
  destruct (counts_sl4 A _ _ (sl_log A cfg t m u)) as (_ & _ & E3 & _). rewrite <- E3. exact (proj2 Hj).
Qed.
Lemma hj_cands (s s' : est) : cands s' = cands s -> actions s' = actions s -> HJ s -> HJ s'.
Proof. intros Ec Ea [Hj Hs]. split; [exact (j_cands A cfg s s' Ec Hj)|exact (hs_same s s' Ea Hs)]. Qed.

Lemma hj_elect h m (s : est) : HopId A s h -> HJ1 s -> HJ (elect A cfg h m false s).
Proof.
  intros Hh [[Hnd Hlt] Hs].
  destruct (elect_counts A cfg h m false s Hnd Hh) as (_ & F2 & _ & F4).
  assert (Hj: J (elect A cfg h m false s)) by (split; [rewrite F4; exact Hnd|rewrite F2; lia]).
  revert Hj. unfold elect. destruct (find_cand A (cands s) h); intros Hj; [|split; [exact Hj|exact Hs]].
  apply hj_log; [exact Hj|exact Hs].
Qed.
Lemma hj_defeat l m (s : est) : HopId A s l -> HJ s -> HJ (defeat A cfg l m s).
Proof.
  intros Hh [[Hnd Hle] Hs].
  destruct (defeat_counts A cfg l m s Hnd Hh) as (_ & F2 & _ & F4).
  assert (Hj: J (defeat A cfg l m s)) by (split; [rewrite F4; exact Hnd|rewrite F2; exact Hle]).
  revert Hj. unfold defeat. destruct (find_cand A (cands s) l); intros Hj; [|split; [exact Hj|exact Hs]].
  apply hj_log; [exact Hj|exact Hs].
Qed.

Lemma hj_break_tie fmt tied (s : est) : HJ s -> HJ (fst (break_tie A cfg fmt tied s)).
Proof.
  intros H. pose proof (break_tie_cands A cfg fmt tied s) as Ec. revert Ec.
  unfold break_tie. destruct tied as [|c [|c2 t]]; cbn [fst]; intros Ec; [apply (hj_cands s); [reflexivity|reflexivity|exact H]|exact H|].
  destruct (by_tie A (c :: c2 :: t)); cbn [fst] in *; [apply (hj_cands s); [reflexivity|reflexivity|exact H]|].
  apply hj_log; [|exact (proj2 H)]. apply (j_cands A cfg s); [exact Ec|exact (proj1 H)].
Qed.

Lemma acts_fold {X} (f : est -> X -> est) (l : list X) : (forall s y, actions (f s y) = actions s) -> forall s, actions (fold_left f l s) = actions s.
Proof. intros Hf. induction l as [|y l IH]; intros s; cbn [fold_left]; [reflexivity|]. rewrite IH. apply Hf. Qed.

Lemma acts_restart (s : est) : actions (qpq_restart A s) = actions s.
Proof. unfold qpq_restart. cbv zeta. cbn [actions set_ballots]. apply acts_fold. intros; reflexivity. Qed.

Lemma acts_tally (s : est) : actions (qpq_tally A cfg s) = actions s.
Proof.
  unfold qpq_tally. cbv zeta.
  match goal with |- actions (if crashed ?x then _ else _) = _ => set (s3 := x) end.
  assert (E3: actions s3 = actions s).
  { unfold s3. rewrite acts_fold.
    - rewrite acts_fold; [reflexivity|]. intros t b. destruct (b_exhausted A b); [reflexivity|]. destruct (top_rank A b); reflexivity.
    - intros t c. destruct (crashed t); [reflexivity|]. destruct (divv A _ _); reflexivity. }
  destruct (crashed s3); [exact E3|]. unfold set_quota_r. destruct (qpq_quota A cfg s3); exact E3.
Qed.

Lemma step_hj (s : est) : HJ1 s -> HJ (qpq_step A cfg s).
Proof.
  intros [H1 Hs]. pose proof (j1_j A cfg s H1) as Hj. assert (H: HJ s) by (split; assumption). unfold qpq_step.
  destruct (max_quo A (hopefuls A s)) as [hq|]; [|apply (hj_cands s); [reflexivity|reflexivity|exact H]].
  destruct (gtv A hq (quota s)).
  - set (highs := filter _ (hopefuls A s)).
    pose proof (break_tie_cands A cfg (qpq_tie "largest quotient") highs s) as Ec.
    pose proof (hj_break_tie (qpq_tie "largest quotient") highs s H) as Hb.
    destruct (break_tie A cfg (qpq_tie "largest quotient") highs s) as [s1 [h|]] eqn:Eb; cbn [fst snd] in *; [|exact Hb].
    destruct (proj1 (break_tie_spec A cfg _ _ _ _ _ Eb)) as (c & Hch & Eh).
    assert (Hc1: HopId A s1 h).
    { exists c. split; [|exact Eh]. unfold hopefuls. rewrite Ec. unfold highs in Hch. apply filter_In in Hch. exact (proj1 Hch). }
    assert (H11: HJ1 s1).
    { split; [|exact (proj2 Hb)]. destruct H1 as [Hnd Hlt]. split; [rewrite Ec; exact Hnd|]. unfold Winners.eln. rewrite Ec. exact Hlt. }
    pose proof (hj_elect h "Elect high quotient" s1 Hc1 H11) as H2.
    cbv zeta. set (s2 := elect A cfg h "Elect high quotient" false s1) in *.
    destruct (crashed s2); [exact H2|].
    destruct (divv A (V1 A) _) as [nw|e]; [|apply (hj_cands s2); [reflexivity|reflexivity|exact H2]].
    apply hj_log; [|exact (hs_same s2 _ eq_refl (proj2 H2))].
    apply (j_cands A cfg s2); [rewrite (cands_log A cfg); reflexivity|exact (proj1 H2)].
  - destruct (min_quo A (hopefuls A s)) as [lq|]; [|apply (hj_cands s); [reflexivity|reflexivity|exact H]].
    set (lows := filter _ (hopefuls A s)).
    pose proof (break_tie_cands A cfg (qpq_tie "smallest quotient") lows s) as Ec.
    pose proof (hj_break_tie (qpq_tie "smallest quotient") lows s H) as Hb.
    destruct (break_tie A cfg (qpq_tie "smallest quotient") lows s) as [s1 [l|]] eqn:Eb; cbn [fst snd] in *; [|exact Hb].
    destruct (proj1 (break_tie_spec A cfg _ _ _ _ _ Eb)) as (c & Hcl & El).
    assert (Hc1: HopId A s1 l).
    { exists c. split; [|exact El]. unfold hopefuls. rewrite Ec. unfold lows in Hcl. apply filter_In in Hcl. exact (proj1 Hcl). }
    pose proof (hj_defeat l "Defeat low quotient" s1 Hc1 Hb) as H2.
    cbv zeta. set (s2 := defeat A cfg l "Defeat low quotient" s1) in *.
    destruct (crashed s2); [exact H2|].
    match goal with |- HJ (set_flag ?x true) => apply (hj_cands x); [reflexivity|reflexivity|] end.
    apply hj_log; [|exact (hs_same s2 _ eq_refl (proj2 H2))].
    apply (j_cands A cfg s2); [rewrite (cands_log A cfg); reflexivity|exact (proj1 H2)].
Qed.

Lemma hj_elect_all m (L : list cand) : forall t : est, HJ t -> NoDup (map (@cid A) L) -> (forall c, In c L -> HopId A t (cid c)) ->
  Z.of_nat (eln t) + Z.of_nat (List.length L) <= seats -> HJ (fold_left (fun s c => elect A cfg (cid c) m false s) L t).
Proof.
  induction L as [|c L IH]; intros t H HL Hh Hle; cbn [fold_left]; [exact H|].
  cbn [map] in HL. inversion HL as [|? ? Hn HL']; subst. cbn [List.length] in Hle.
  assert (H1: HJ1 t) by (split; [split; [exact (proj1 (proj1 H))|lia]|exact (proj2 H)]).
  pose proof (hj_elect (cid c) m t (Hh c (or_introl eq_refl)) H1) as H2.
  destruct (elect_counts A cfg (cid c) m false t (proj1 (proj1 H)) (Hh c (or_introl eq_refl))) as (_ & F2 & _ & _).
  apply IH; [exact H2|exact HL'| |rewrite F2; lia].
  intros x Hx. apply (hopid_other_elect A cfg); [|apply Hh; right; exact Hx]. intros Eq. apply Hn. rewrite <- Eq. apply in_map. exact Hx.
Qed.
Lemma hj_defeat_all m (L : list cand) : forall t : est, HJ t -> NoDup (map (@cid A) L) -> (forall c, In c L -> HopId A t (cid c)) ->
  HJ (fold_left (fun s c => defeat A cfg (cid c) m s) L t).
Proof.
  induction L as [|c L IH]; intros t H HL Hh; cbn [fold_left]; [exact H|].
  cbn [map] in HL. inversion HL as [|? ? Hn HL']; subst.
  apply IH; [exact (hj_defeat (cid c) m t (Hh c (or_introl eq_refl)) H)|exact HL'|].
  intros x Hx. apply (hopid_other_defeat A cfg); [|apply Hh; right; exact Hx]. intros Eq. apply Hn. rewrite <- Eq. apply in_map. exact Hx.
Qed.

Theorem qpq_snaps (Qb Qc : est -> Prop) : T3 HJ (qpq A cfg) HJ Qb Qc.
Proof.
  unfold qpq. eapply t_seq with (M := HJ).
  { apply t_do. intros s [Hj Hs]. cbv zeta.
    match goal with |- HJ (if crashed ?x then _ else _) => set (s3 := x) end.
    assert (E3: sl s3 = sl s).
    { unfold s3, set_quota_r. destruct (qpq_quota A cfg _); unfold TerminateQpq.sl; cbn [cands set_quota set_crash set_txva]; apply sl_qpq_begin. }
    assert (A3: actions s3 = actions s) by (unfold s3, set_quota_r; destruct (qpq_quota A cfg _); reflexivity).
    pose proof (j_sl A cfg J s s3 E3 (or_introl eq_refl) Hj) as J3.
    destruct (crashed s3); [split; [exact J3|exact (hs_same s s3 A3 Hs)]|].
    apply hj_log; [|apply (hs_same s); [exact A3|exact Hs]].
    apply (j_sl A cfg J s); [|left; reflexivity|exact Hj]. rewrite (sl_log A cfg). unfold TerminateQpq.sl. cbn [cands set_flag set_ballots]. exact E3. }
  eapply t_seq with (M := HJ).
  { eapply t_post; [|apply (t_while est (@crashed A) HJ (fun _ => False))]; [intros s [F|[H _]]; [contradiction|exact H]|].
    eapply t_seq with (M := HJ1).
    { apply t_do. intros s [[Hj Hs] Hg].
      assert (H1: J1 s).
      { split; [exact (proj1 Hj)|]. apply negb_true_iff in Hg. unfold count_complete_q in Hg. apply orb_false_iff in Hg. destruct Hg as [Hg _].
        apply Z.leb_gt in Hg. unfold seats_left in Hg. rewrite (nlen_electeds A) in Hg. lia. }
      split; [apply (j_sl A cfg J1 s); [exact (sl_log A cfg _ _ _)|right; reflexivity|exact H1]|].
      unfold new_round. apply hs_log; [exact (proj2 Hj)|exact Hs]. }
    eapply t_seq with (M := HJ1).
    { apply t_ite; [|apply t_skip'; intros s [H _]; exact H].
      apply t_do. intros s [[[Hnd Hlt] Hs] _].
      assert (Hnd': NoDup (map (@cid A) (cands (set_flag s false)))) by exact Hnd.
      destruct (restart_facts A (set_flag s false) Hnd') as (_ & Ei & _).
      split; [|apply (hs_same s); [rewrite acts_restart; reflexivity|exact Hs]].
      split; [rewrite Ei; exact Hnd|]. pose proof (eln_restart_le A (set_flag s false)) as Hle.
      assert (Ee: eln (set_flag s false) = eln s) by reflexivity. lia. }
    eapply t_seq with (M := HJ1).
    { apply t_do. intros s [H Hs]. split; [exact (j_sl A cfg J1 s _ (proj1 (tally_sl A cfg s)) (or_intror eq_refl) H)|].
      apply (hs_same s); [apply acts_tally|exact Hs]. }
    apply t_do. intros s H. exact (step_hj s H). }
  eapply t_seq with (M := HJ).
  { apply t_ite; [|apply t_skip'; intros s [H _]; exact H].
    apply t_do. intros s [H Hg]. apply Z.leb_le in Hg. unfold seats_left in Hg. rewrite (nlen_electeds A) in Hg.
    apply hj_elect_all; [exact H|exact (nodup_map_filter _ _ _ (proj1 (proj1 H)))|exact (hop_self A s)|unfold nlen in Hg; lia]. }
  apply t_do. intros s H.
  apply hj_defeat_all; [exact H|exact (nodup_map_filter _ _ _ (proj1 (proj1 H)))|exact (hop_self A s)].
Qed.
End QN.

Section QNCount.
Variable A : arith.
Variable cfg : config.

Lemma hs_snaps (s : est A) : HS A cfg s -> Forall (fun sn => nel_sts (ssn A sn) <= cf_nseats cfg) (snaps A (actions s)).
Proof.
  unfold HS. induction (actions s) as [|a l IH]; intros H; [constructor|]. inversion H as [|? ? Ha Hl]; subst. cbn [snaps].
  destruct (a_snap a) as [sn|]; [constructor; [apply Ha; reflexivity|apply IH; exact Hl]|apply IH; exact Hl].
Qed.

(* QPQ, every arithmetic: no recorded snapshot of a count that does not crash shows more than [seats] winners *)
Theorem count_seats_qpq_every_snapshot pr fuel s k : 0 <= cf_nseats cfg -> NoDup (map pc_cid (pr_cands pr)) ->
  exec (@crashed A) fuel (count_cmd A cfg RQpq) (init_state A cfg pr) = Some (s, k) -> k <> Abort ->
  Forall (fun sn => nel_sts (ssn A sn) <= cf_nseats cfg) (snaps A (actions s)).
Proof.
  intros Hns Hnd He Hk.
  assert (Ht: triple (est A) (@crashed A) (fun s0 => s0 = init_state A cfg pr) (count_cmd A cfg RQpq) (HJ A cfg) (HJ A cfg) (HJ A cfg)).
  { unfold count_cmd. eapply t_seq with (M := HJ A cfg).
    - apply t_do. intros s0 ->. split.
      + split; [exact (proj1 (wi_init A cfg pr Hnd))|]. fold (zero_votes A (init_state A cfg pr)). rewrite (eln_init A cfg). cbn. exact Hns.
      + unfold HS. cbn [actions set_cands]. destruct (init_state_shape A cfg pr) as (_ & _ & Hn).
        eapply Forall_impl; [|exact Hn]. intros a Ha sn E. rewrite Ha in E. discriminate E.
    - eapply t_seq with (M := HJ A cfg); [cbn [rule_cmd]; apply qpq_snaps|].
      apply t_do. intros s0 [Hj Hs]. apply hj_log; [|exact Hs].
      exact (j_sl A cfg (J A cfg) s0 _ (sl_log A cfg TEnd "Count Complete" s0) (or_introl eq_refl) Hj). }
  specialize (Ht fuel _ s k eq_refl He). assert (H: HJ A cfg s) by (destruct k; try exact Ht; congruence).
  exact (hs_snaps s (proj2 H)).
Qed.
End QNCount.
