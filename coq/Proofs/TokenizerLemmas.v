(* TokenizerLemmas: layout independence of __bltBlob (Model/Profile.v tokenize), for Props/C15.v. *)
From Coq Require Import ZArith String Ascii List Bool Lia.
From Droop Require Import Model.KernelBase Gen.UnicodeTables Model.Profile Model.ProfileSpec.
Import ListNotations.
Open Scope Z_scope.

(* ------------------------------------------------------------------ every line boundary is whitespace *)
Definition ranges_subset (l1 l2 : list (Z * Z)) : bool :=
  forallb (fun r1 => existsb (fun r2 => (fst r2 <=? fst r1) && (snd r1 <=? snd r2)) l2) l1.

Lemma in_ranges_true c l : in_ranges c l = true <-> exists r, In r l /\ fst r <= c <= snd r.
Proof.
  induction l as [|[lo hi] t IH]; simpl.
  - split; [discriminate | intros [r [[] _]]].
  - destruct ((lo <=? c) && (c <=? hi)) eqn:E.
    + split; auto. intros _. exists (lo, hi). apply andb_true_iff in E. destruct E as [E1 E2].
      apply Z.leb_le in E1, E2. simpl. auto.
    + rewrite IH. split.
      * intros [r [Hr Hc]]. exists r. auto.
      * intros [r [[Hr|Hr] Hc]]; [|exists r; auto]. subst r. simpl in Hc.
        apply andb_false_iff in E. destruct E as [E|E]; [apply Z.leb_gt in E | apply Z.leb_gt in E]; lia.
Qed.

Lemma ranges_subset_ok l1 l2 c : ranges_subset l1 l2 = true -> in_ranges c l1 = true -> in_ranges c l2 = true.
Proof.
  unfold ranges_subset. intros Hs H1. apply in_ranges_true in H1. destruct H1 as [r1 [Hr1 Hc]].
  rewrite forallb_forall in Hs. specialize (Hs _ Hr1). apply existsb_exists in Hs. destruct Hs as [r2 [Hr2 Hb]].
  apply andb_true_iff in Hb. destruct Hb as [B1 B2]. apply Z.leb_le in B1, B2.
  apply in_ranges_true. exists r2. split; auto. lia.
Qed.

Lemma linebreak_is_space c : is_linebreak c = true -> is_space c = true.
Proof. apply ranges_subset_ok. vm_compute. reflexivity. Qed.

Lemma lf_is_space : is_space 10 = true.
Proof. vm_compute. reflexivity. Qed.

(* ------------------------------------------------------------------ raw tokens = split on whitespace *)
Lemma split_ws_aux_app a : forall c b cur, is_space c = true ->
  split_ws_aux (a ++ c :: b) cur = split_ws_aux a cur ++ split_ws_aux b [].
Proof.
  induction a as [|x a IH]; intros c b cur Hc; simpl.
  - rewrite Hc. reflexivity.
  - destruct (is_space x).
    + rewrite (IH c b [] Hc). rewrite app_assoc. reflexivity.
    + apply (IH c b (x :: cur) Hc).
Qed.

Lemma flush_split cur : concat (map split_ws (flush cur)) = split_ws (rev cur).
Proof.
  destruct cur as [|x cur]; simpl; [reflexivity|]. rewrite app_nil_r. reflexivity.
Qed.

Lemma raw_tokens_aux n : forall s, (List.length s <= n)%nat -> forall cur,
  concat (map split_ws (splitlines_aux s cur)) = split_ws (rev cur ++ s).
Proof.
  induction n as [|n IH]; intros s Hlen cur.
  - destruct s; [|simpl in Hlen; lia]. simpl splitlines_aux. rewrite app_nil_r. apply flush_split.
  - destruct s as [|c t]. { simpl splitlines_aux. rewrite app_nil_r. apply flush_split. }
    simpl in Hlen. simpl splitlines_aux. destruct (is_linebreak c) eqn:Eb.
    + pose proof (linebreak_is_space c Eb) as Hsp.
      change (split_ws (rev cur ++ c :: t)) with (split_ws_aux (rev cur ++ c :: t) []).
      rewrite (split_ws_aux_app (rev cur) c t [] Hsp).
      change (split_ws_aux (rev cur) []) with (split_ws (rev cur)).
      change (split_ws_aux t []) with (split_ws t).
      match goal with |- concat (map split_ws (?x :: ?y)) = _ => change (concat (map split_ws (x :: y))) with (split_ws x ++ concat (map split_ws y)) end.
      f_equal.
      destruct t as [|d t']; [reflexivity|].
      destruct ((c =? 13) && (d =? 10)) eqn:Ecrlf.
      * apply andb_true_iff in Ecrlf. destruct Ecrlf as [_ Ed]. apply Z.eqb_eq in Ed. subst d.
        rewrite (IH t' ltac:(simpl in Hlen; lia) []). simpl rev. simpl app.
        unfold split_ws. change (split_ws_aux (10 :: t') []) with (if is_space 10 then flush [] ++ split_ws_aux t' [] else split_ws_aux t' [10]).
        rewrite lf_is_space. reflexivity.
      * rewrite (IH (d :: t') ltac:(simpl in *; lia) []). reflexivity.
    + rewrite (IH t ltac:(lia) (c :: cur)). simpl rev. rewrite <- app_assoc. reflexivity.
Qed.

Lemma raw_tokens_split_ws text : raw_tokens text = split_ws text.
Proof. unfold raw_tokens, splitlines. apply (raw_tokens_aux (List.length text) text (le_n _) []). Qed.

Lemma ws_skip s : is_ws s -> forall r, split_ws_aux (s ++ r) [] = split_ws_aux r [].
Proof.
  induction s as [|c s IH]; intros Hs r; [reflexivity|].
  inversion Hs as [|? ? Hc Hs']; subst. simpl. rewrite Hc. simpl. apply IH. exact Hs'.
Qed.

Lemma tok_read t : Forall (fun c => is_space c = false) t -> forall r cur,
  split_ws_aux (t ++ r) cur = split_ws_aux r (rev t ++ cur).
Proof.
  induction t as [|c t IH]; intros Ht r cur; [reflexivity|].
  inversion Ht as [|? ? Hc Ht']; subst. simpl. rewrite Hc. rewrite IH by exact Ht'.
  rewrite <- app_assoc. reflexivity.
Qed.

Definition starts_ws (r : ustr) : Prop := match r with [] => True | c :: _ => is_space c = true end.

Lemma tok_flush t r : t <> [] -> starts_ws r -> split_ws_aux r (rev t) = t :: split_ws_aux r [].
Proof.
  intros Ht Hr. assert (Hf : flush (rev t) = [t]).
  { unfold flush. destruct (rev t) as [|x y] eqn:E.
    - exfalso. apply Ht. rewrite <- (rev_involutive t). rewrite E. reflexivity.
    - rewrite <- E. rewrite rev_involutive. reflexivity. }
  destruct r as [|c r]; simpl.
  - exact Hf.
  - simpl in Hr. rewrite Hr. rewrite Hf. reflexivity.
Qed.

Lemma layout_starts_ws l trail : layout_ok false l -> is_ws trail -> starts_ws (layout_text l trail).
Proof.
  destruct l as [|[s t] l]; simpl; intros Hl Htr.
  - unfold layout_text. simpl. destruct trail as [|c tr]; simpl; auto. inversion Htr; auto.
  - destruct Hl as (Hs & [Hf|Hne] & _); [discriminate|].
    unfold layout_text. simpl. destruct s as [|c s]; [congruence|]. simpl. inversion Hs; auto.
Qed.

Lemma split_ws_layout l : forall first trail, layout_ok first l -> is_ws trail ->
  split_ws (layout_text l trail) = map snd l.
Proof.
  induction l as [|[s t] l IH]; intros first trail Hl Htr.
  - unfold layout_text, split_ws. simpl. rewrite <- (app_nil_r trail). rewrite ws_skip by exact Htr. reflexivity.
  - simpl in Hl. destruct Hl as (Hs & _ & [Htne Htok] & Hl').
    unfold split_ws, layout_text. simpl. rewrite <- !app_assoc. rewrite ws_skip by exact Hs.
    rewrite tok_read by exact Htok. rewrite app_nil_r.
    fold (layout_text l trail). rewrite tok_flush; [|exact Htne | apply layout_starts_ws; assumption].
    f_equal. apply (IH false trail Hl' Htr).
Qed.

(* the raw tokens do not depend on the whitespace (blanks, tabs, line boundaries of any kind) between them *)
Lemma c15_raw_tokens_layout : forall l trail, layout_ok true l -> is_ws trail ->
  raw_tokens (layout_text l trail) = map snd l.
Proof. intros l trail Hl Htr. rewrite raw_tokens_split_ws. apply (split_ws_layout l true trail Hl Htr). Qed.

(* ------------------------------------------------------------------ line structure only matters for # *)
Lemma tok_line_app a : forall b ic iq, hash_free a ic iq ->
  tok_line (a ++ b) ic iq =
  let '(o1, ic1, iq1) := tok_line a ic iq in let '(o2, ic2, iq2) := tok_line b ic1 iq1 in (o1 ++ o2, ic2, iq2).
Proof.
  induction a as [|t a IH]; intros b ic iq Hf.
  - simpl. destruct (tok_line b ic iq) as [[o2 ic2] iq2]. reflexivity.
  - simpl in Hf. simpl. destruct (tok_step t ic iq) as [[act ic'] iq']. destruct act.
    + rewrite (IH b ic' iq' Hf). destruct (tok_line a ic' iq') as [[o1 ic1] iq1].
      destruct (tok_line b ic1 iq1) as [[o2 ic2] iq2]. reflexivity.
    + apply (IH b ic' iq' Hf).
    + contradiction.
Qed.

Lemma hash_free_app a : forall b ic iq, hash_free (a ++ b) ic iq ->
  hash_free a ic iq /\ (let '(_, ic1, iq1) := tok_line a ic iq in hash_free b ic1 iq1).
Proof.
  induction a as [|t a IH]; intros b ic iq Hf.
  - simpl. auto.
  - simpl in Hf. simpl. destruct (tok_step t ic iq) as [[act ic'] iq']. destruct act.
    + destruct (IH b ic' iq' Hf) as [H1 H2]. split; auto. destruct (tok_line a ic' iq') as [[o1 ic1] iq1]. exact H2.
    + apply (IH b ic' iq' Hf).
    + contradiction.
Qed.

Lemma tok_lines_flat lines : forall ic iq, hash_free (concat (map split_ws lines)) ic iq ->
  tok_lines lines ic iq = fst (fst (tok_line (concat (map split_ws lines)) ic iq)).
Proof.
  induction lines as [|l ls IH]; intros ic iq Hf; [reflexivity|].
  simpl in Hf. simpl. apply hash_free_app in Hf. destruct Hf as [H1 H2].
  rewrite (tok_line_app _ _ _ _ H1). destruct (tok_line (split_ws l) ic iq) as [[o1 ic1] iq1].
  rewrite (IH ic1 iq1 H2). destruct (tok_line (concat (map split_ws ls)) ic1 iq1) as [[o2 ic2] iq2]. reflexivity.
Qed.

(* tokens of a layout: the same whatever the whitespace, when no token opens a # comment *)
Lemma c15_tokenize_layout : forall l trail, layout_ok true l -> is_ws trail -> hash_free (map snd l) 0 false ->
  tokenize (layout_text l trail) = tok_flat (map snd l).
Proof.
  intros l trail Hl Htr Hf. unfold tokenize, tok_flat.
  pose proof (c15_raw_tokens_layout l trail Hl Htr) as Hraw. unfold raw_tokens in Hraw.
  rewrite tok_lines_flat; rewrite Hraw; auto.
Qed.

Lemma c15_two_layouts : forall l1 tr1 l2 tr2, layout_ok true l1 -> is_ws tr1 -> layout_ok true l2 -> is_ws tr2 ->
  map snd l1 = map snd l2 -> hash_free (map snd l1) 0 false ->
  tokenize (layout_text l1 tr1) = tokenize (layout_text l2 tr2).
Proof.
  intros l1 tr1 l2 tr2 H1 T1 H2 T2 E Hf. rewrite (c15_tokenize_layout l1 tr1 H1 T1 Hf).
  rewrite E in Hf. rewrite (c15_tokenize_layout l2 tr2 H2 T2 Hf). rewrite E. reflexivity.
Qed.

(* ------------------------------------------------------------------ comments *)
Lemma hash_not_quote t : starts_with [cHASH] t = true ->
  starts_with [cQUOTE] t = false /\ starts_with [cSLASH; cSTAR] t = false.
Proof.
  destruct t as [|x t]; intro H; [discriminate H|].
  change (((cHASH =? x) && true) = true) in H. apply andb_true_iff in H. destruct H as [H _].
  apply Z.eqb_eq in H. subst x. split; reflexivity.
Qed.

Lemma open_not_quote t : starts_with [cSLASH; cSTAR] t = true -> starts_with [cQUOTE] t = false.
Proof.
  destruct t as [|x t]; intro H; [discriminate H|].
  change (((cSLASH =? x) && starts_with [cSTAR] t) = true) in H. apply andb_true_iff in H. destruct H as [H _].
  apply Z.eqb_eq in H. subst x. reflexivity.
Qed.

(* a # token met outside quotes and comments ends the line: whatever follows on the line is ignored *)
Lemma c15_hash_comment : forall pre ic iq out t junk,
  tok_line pre ic iq = (out, 0, false) -> hash_free pre ic iq -> starts_with [cHASH] t = true ->
  tok_line (pre ++ t :: junk) ic iq = (out, 0, false).
Proof.
  intros pre ic iq out t junk Hpre Hf Ht. rewrite (tok_line_app pre (t :: junk) ic iq Hf). rewrite Hpre.
  destruct (hash_not_quote t Ht) as [Hq Hc].
  cbn [tok_line]. unfold tok_step. rewrite Hq, Hc, Ht. cbn. rewrite app_nil_r. reflexivity.
Qed.

(* a run of comment tokens (nested /* ... */) is skipped *)
Lemma c15_comment_block : forall blk d d' post, 0 <= d -> comment_run blk d = Some d' ->
  tok_line (blk ++ post) d false = tok_line post d' false.
Proof.
  induction blk as [|t r IH]; intros d d' post Hd Hrun.
  - simpl in Hrun. inversion Hrun. reflexivity.
  - cbn [comment_run] in Hrun. cbv zeta in Hrun. cbn [app tok_line].
    set (d1 := if starts_with [cSLASH; cSTAR] t then d + 1 else d) in *.
    destruct (d1 <=? 0) eqn:E1; [discriminate|]. apply Z.leb_gt in E1.
    assert (Hq : (d =? 0) && starts_with [cQUOTE] t = false).
    { destruct (d =? 0) eqn:E0; [|reflexivity]. apply Z.eqb_eq in E0. cbn [andb].
      destruct (starts_with [cSLASH; cSTAR] t) eqn:Eo; [apply open_not_quote; exact Eo|]. subst d1. lia. }
    unfold tok_step. rewrite Hq. cbn [andb negb]. fold d1.
    assert (Hz : (d1 =? 0) = false) by (apply Z.eqb_neq; lia). rewrite Hz. cbn [negb].
    apply IH; [|exact Hrun]. destruct (ends_with [cSTAR; cSLASH] t); lia.
Qed.

Lemma c15_comment_block_balanced : forall blk post, comment_run blk 0 = Some 0 ->
  tok_line (blk ++ post) 0 false = tok_line post 0 false.
Proof. intros blk post H. apply c15_comment_block; [lia | exact H]. Qed.
