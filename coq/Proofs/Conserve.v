(* Whole-run Gregory invariant (C02, C06, C04): in every state of a wigm / wigm-prf / scotland / cfer / mpls count
   under a non-exact integer-carrier arithmetic (Fixed, integer, Guarded with guard 0)
     - every candidate's tally is the sum of the values of the ballots standing with it, except for elected
       candidates whose surplus has been transferred (they hold the quota and no ballot);
     - no votes are created: tallies + non-transferable never exceed the total at the start of the count.
   Part 1: definitions, a single transfer, the ballot loop. *)
From Coq Require Import ZArith List Bool String Lia ZifyBool Permutation.
From Droop Require Import Model.KernelBase Model.Str Model.Arith Model.Prelude Model.State Model.Prims
  Model.RulesGregory Proofs.CmdMeta Proofs.Zlike Proofs.Gregory Proofs.Status Proofs.SortLemmas Proofs.Forward Proofs.ForwardOps Proofs.ForwardGreg2.
Import ListNotations.
Open Scope Z_scope.

Section Conserve.
Variable A : arith.
Variable S : Z.
Variable ZL : zlike A S.
Notation est := (est A).
Notation cand := (cand A).
Notation ballot := (ballot A).
Notation R := (@raw A S ZL).

(* ---------- ballots: well-formedness and value ---------- *)
Definition wfb (b : ballot) : Prop := 0 <= R (bweight b) /\ exists m, 0 <= m /\ R (bmult b) = m * S.
Definition bval (b : ballot) : Z := R (bvote A b).

Lemma bval_eq b m : R (bmult b) = m * S -> bval b = R (bweight b) * m.
Proof.
  intros Hm. unfold bval, bvote. rewrite (r_eqv_one A S ZL (bmult b) m Hm). pose proof (S_pos A S ZL) as HS.
  destruct (m =? 1) eqn:E.
  - cbv iota. assert (m = 1) by lia. subst m. rewrite Z.mul_1_r. reflexivity.
  - cbv iota. rewrite (r_mulv A S ZL), Hm. rewrite Z.mul_assoc. apply Z.div_mul. lia.
Qed.
Lemma bval_nonneg b : wfb b -> 0 <= bval b.
Proof. intros [Hw (m & Hm & E)]. rewrite (bval_eq b m E). nia. Qed.

(* value of the ballots standing with candidate i *)
Definition stand (bs : list ballot) (i : Z) : Z :=
  fold_right (fun b acc => (if top_is A i b then bval b else 0) + acc) 0 bs.
Lemma stand_app l1 l2 i : stand (l1 ++ l2) i = stand l1 i + stand l2 i.
Proof. unfold stand. induction l1 as [|b l IH]; cbn [app fold_right]; [reflexivity|]. rewrite IH. lia. Qed.
Lemma stand_cons b l i : stand (b :: l) i = (if top_is A i b then bval b else 0) + stand l i.
Proof. reflexivity. Qed.
Lemma stand_nonneg l i : Forall wfb l -> 0 <= stand l i.
Proof.
  induction 1 as [|b l Hb _ IH]; [cbn; lia|]. rewrite stand_cons. pose proof (bval_nonneg b Hb). destruct (top_is A i b); lia.
Qed.

(* sum of tallies + non-transferable: [total] of Proofs/Gregory.v *)
Notation total := (total A S ZL).

Definition cont (c : cand) : bool := is_hopeful A c || is_pending A c.

Record Good (B : Z) (s : est) : Prop := {
  g_nd : NoDup (map (@cid A) (cands s));
  g_wfb : Forall wfb (ballots s);
  g_tally : forall c, In c (cands s) ->
              R (cvote c) = stand (ballots s) (cid c) \/ (cont c = false /\ stand (ballots s) (cid c) = 0);
  g_total : total s <= B;
  g_pend : forall c, In c (cands s) -> is_pending A c = true -> R (quota s) <= R (cvote c);
  g_wd : forall c, In c (cands s) -> cst c = Withdrawn -> R (cvote c) = 0;
  g_quota : 0 <= R (quota s);
  g_nonneg : forall c, In c (cands s) -> 0 <= R (cvote c)
}.


(* ---------- one transfer ---------- *)
Lemma transfer_spec keep (s : est) (b : ballot) :
  let r := transfer A keep s b in
  bweight (snd r) = bweight b /\ bmult (snd r) = bmult b /\ brank (snd r) = brank b /\
  ((exists c cc, top_rank A (snd r) = Some c /\ find_cand A (cands s) c = Some cc /\ keep cc = true /\
                 fst r = add_vote A c (bvote A (snd r)) s) \/
   (top_rank A (snd r) = None /\ fst r = set_exhausted s (add A (exhausted s) (bvote A (snd r))))).
Proof.
  unfold transfer. cbv zeta.
  set (j := advance_from (cont_pred A keep s) (skipn (bidx b) (brank b)) (bidx b)).
  pose proof (advance_spec (cont_pred A keep s) (skipn (bidx b) (brank b)) (bidx b)) as (Hb & _ & Hland). fold j in Hb, Hland.
  destruct (top_rank A (with_bidx b j)) as [c|] eqn:Et; cbn [fst snd].
  - split; [reflexivity|]. split; [reflexivity|]. split; [reflexivity|]. left.
    pose proof Et as Et'. unfold top_rank in Et. cbn [brank bidx with_bidx] in Et.
    assert (Ec: nth_error (skipn (bidx b) (brank b)) (j - bidx b) = Some c).
    { rewrite nth_error_skipn'. replace (bidx b + (j - bidx b))%nat with j by lia. exact Et. }
    rewrite Ec in Hland. unfold cont_pred in Hland. destruct (find_cand A (cands s) c) as [cc|] eqn:Ef; [|discriminate].
    exists c, cc. split; [exact Et'|]. split; [exact Ef|]. split; [exact Hland|reflexivity].
  - split; [reflexivity|]. split; [reflexivity|]. split; [reflexivity|]. right. split; [exact Et|reflexivity].
Qed.

Lemma bval_same (b b' : ballot) : bweight b' = bweight b -> bmult b' = bmult b -> bval b' = bval b.
Proof. intros H1 H2. unfold bval, bvote. rewrite H1, H2. reflexivity. Qed.
Lemma wfb_same (b b' : ballot) : bweight b' = bweight b -> bmult b' = bmult b -> wfb b -> wfb b'.
Proof. intros H1 H2 H. unfold wfb. rewrite H1, H2. exact H. Qed.

Lemma find_cand_In (l : list cand) i c : find_cand A l i = Some c -> In c l /\ cid c = i.
Proof. unfold find_cand. intros H. apply find_some in H. destruct H as [H1 H2]. split; [exact H1|lia]. Qed.

Lemma nodup_cid_inj' (l : list cand) c c' : NoDup (map (@cid A) l) -> In c l -> In c' l -> cid c' = cid c -> c' = c.
Proof.
  induction l as [|y l IH]; intros Hnd Hc Hc' E; [contradiction|]. cbn in Hnd. inversion Hnd as [|? ? Hn Hnd']; subst.
  destruct Hc as [Hc|Hc], Hc' as [Hc'|Hc']; subst; auto.
  - exfalso. apply Hn. rewrite <- E. apply in_map. exact Hc'.
  - exfalso. apply Hn. rewrite E. apply in_map. exact Hc.
Qed.

(* candidates after add_vote *)
Lemma in_add_vote (s : est) i x c' : In c' (cands (add_vote A i x s)) ->
  exists c, In c (cands s) /\ ((cid c = i /\ c' = with_vote c (add A (cvote c) x)) \/ (cid c <> i /\ c' = c)).
Proof.
  unfold add_vote, upd, upd_cand. cbn [cands set_cands]. intros H. apply in_map_iff in H. destruct H as (c & E & Hc).
  exists c. split; [exact Hc|]. destruct (cid c =? i) eqn:Ei; [left|right]; split; auto; lia.
Qed.
Lemma cids_add_vote (s : est) i x : map (@cid A) (cands (add_vote A i x s)) = map (@cid A) (cands s).
Proof.
  unfold add_vote, upd, upd_cand. cbn [cands set_cands]. rewrite map_map. apply map_ext. intros c. destruct (cid c =? i); reflexivity.
Qed.


(* ---------- the ballot loop ---------- *)
Definition samef (s s' : est) : Prop :=
  quota s' = quota s /\ actions s' = actions s /\ lv_batch s' = lv_batch s /\ round s' = round s /\ rounds s' = rounds s /\
  surplus s' = surplus s /\ crash s' = crash s.
Lemma samef_refl s : samef s s. Proof. repeat split. Qed.
Lemma samef_trans a b c : samef a b -> samef b c -> samef a c.
Proof. unfold samef. intros (H1&H2&H3&H4&H5&H6&H7) (K1&K2&K3&K4&K5&K6&K7). repeat split; congruence. Qed.

Section Loop.
Variable keep : cand -> bool.
Variable src : Z -> bool.
Variable wsel : est -> ballot -> res (T A).
Variables v surp q0 : Z.
Variable Q : est -> Prop.
Hypothesis keep_vote : forall c x, keep (with_vote c x) = keep c.
Hypothesis Q_add : forall s c x cc, Q s -> src c = false -> find_cand A (cands s) c = Some cc -> keep cc = true -> Q (add_vote A c x s).
Hypothesis Q_exh : forall s x, Q s -> Q (set_exhausted s x).
Hypothesis Hv : 0 <= v.
Hypothesis Hsurp : 0 <= surp.
Hypothesis wsel_ok : forall s b w, Q s -> wfb b -> wsel s b = Ok w -> 0 <= R w /\ R w * v <= R (bweight b) * surp /\ 0 < v.

Definition f_gen (s : est) (b : ballot) : est * ballot :=
  match wsel s b with
  | Raise e => (set_crash s e, b)
  | Ok w => transfer A keep s (with_bweight b w)
  end.
Definition selS (b : ballot) : bool := match top_rank A b with Some c => src c | None => false end.
Definition selsum (bs : list ballot) : Z := fold_right (fun b acc => (if selS b then bval b else 0) + acc) 0 bs.

Record LI (s : est) (cur : list ballot) : Prop := {
  li_nd : NoDup (map (@cid A) (cands s));
  li_wfb : Forall wfb cur;
  li_keep : forall c, In c (cands s) -> keep c = true -> cont c = true /\ src (cid c) = false;
  li_tally : forall c, In c (cands s) -> src (cid c) = false ->
               R (cvote c) = stand cur (cid c) \/ (cont c = false /\ stand cur (cid c) = 0);
  li_pend : forall c, In c (cands s) -> is_pending A c = true -> q0 <= R (cvote c);
  li_wd : forall c, In c (cands s) -> cst c = Withdrawn -> R (cvote c) = 0;
  li_nonneg : forall c, In c (cands s) -> 0 <= R (cvote c)
}.

Lemma cont_with_vote (c : cand) x : cont (with_vote c x) = cont c.
Proof. reflexivity. Qed.
Lemma pend_with_vote (c : cand) x : is_pending A (with_vote c x) = is_pending A c.
Proof. reflexivity. Qed.

Lemma top_is_sel b i : selS b = true -> src i = false -> top_is A i b = false.
Proof.
  unfold selS, top_is. destruct (top_rank A b) as [c|]; [|reflexivity]. intros H1 H2.
  destruct (c =? i) eqn:E; [|reflexivity]. assert (c = i) by lia. subst. congruence.
Qed.

Lemma step pre b post s s' b' :
  LI s (pre ++ b :: post) -> Q s -> selS b = true -> f_gen s b = (s', b') -> crashed s' = false -> crashed s = false ->
  LI s' (pre ++ b' :: post) /\ Q s' /\ samef s s' /\ selS b' = false /\
  total s' = total s + bval b' /\ 0 <= bval b' /\ bval b' * v <= bval b * surp /\ 0 < v.
Proof.
  intros HL HQ Hs Hf Hc' Hc. unfold f_gen in Hf.
  destruct (wsel s b) as [w|e] eqn:Ew.
  2:{ inversion Hf; subst. unfold crashed in Hc', Hc. cbn [crash set_crash] in Hc'. destruct (crash s); discriminate. }
  pose proof (transfer_spec keep s (with_bweight b w)) as Ht. rewrite Hf in Ht. cbv zeta in Ht. cbn [fst snd] in Ht.
  destruct Ht as (Ebw & Ebm & Ebr & Hcase). cbn [bweight bmult brank with_bweight] in Ebw, Ebm, Ebr.
  pose proof (transfer_conserves A S ZL keep s (with_bweight b w) (li_nd _ _ HL)) as Htc. rewrite Hf in Htc. cbv zeta in Htc. cbn [fst snd] in Htc.
  destruct Htc as (Htot & _).
  assert (Hwfb0: wfb b).
  { pose proof (li_wfb _ _ HL) as F. rewrite Forall_forall in F. apply F. apply in_or_app. right. left. reflexivity. }
  destruct (wsel_ok s b w HQ Hwfb0 Ew) as (Hw0 & Hwb & Hvpos).
  destruct Hwfb0 as [Hwb0 (m & Hm0 & Hm)].
  assert (Hwfb': wfb b') by (split; [rewrite Ebw; exact Hw0|exists m; split; [exact Hm0|rewrite Ebm; exact Hm]]).
  assert (Ev': bval b' = R w * m) by (rewrite (bval_eq b' m); [rewrite Ebw; reflexivity|rewrite Ebm; exact Hm]).
  assert (Ev: bval b = R (bweight b) * m) by (apply bval_eq; exact Hm).
  assert (Hstand: forall j, stand (pre ++ b' :: post) j = stand (pre ++ b :: post) j
                             + (if top_is A j b' then bval b' else 0) - (if top_is A j b then bval b else 0)).
  { intros j. rewrite !stand_app, !stand_cons. lia. }
  assert (Hwf: Forall wfb (pre ++ b' :: post)).
  { pose proof (li_wfb _ _ HL) as F. apply Forall_app in F. destruct F as [F1 F2]. inversion F2; subst.
    apply Forall_app. split; [exact F1|]. constructor; assumption. }
  assert (Hb'nn: 0 <= bval b') by (apply bval_nonneg; exact Hwfb').
  assert (Hbound: bval b' * v <= bval b * surp) by (rewrite Ev', Ev; nia).
  destruct Hcase as [(cx & ccx & Etop & Efind & Hkeep & Es')|(Etop & Es')]; subst s'.
  - destruct (find_cand_In _ _ _ Efind) as [Hin Hcid]. destruct (li_keep _ _ HL ccx Hin Hkeep) as [Hcont Hsrc]. rewrite Hcid in Hsrc.
    split; [|split; [apply (Q_add s cx _ ccx); assumption|split; [repeat split|split; [unfold selS; rewrite Etop; exact Hsrc|split; [exact Htot|split; [assumption|split; assumption]]]]]].
    constructor.
    + rewrite cids_add_vote. exact (li_nd _ _ HL).
    + exact Hwf.
    + intros c' Hc'in Hk. destruct (in_add_vote _ _ _ _ Hc'in) as (c & Hcin & [[Ei ->]|[Ei ->]]).
      * rewrite keep_vote in Hk. cbn [cid with_vote]. rewrite cont_with_vote. exact (li_keep _ _ HL c Hcin Hk).
      * exact (li_keep _ _ HL c Hcin Hk).
    + intros c' Hc'in Hsrc'. destruct (in_add_vote _ _ _ _ Hc'in) as (c & Hcin & [[Ei ->]|[Ei ->]]).
      * cbn [cid with_vote cvote] in *. rewrite cont_with_vote.
        assert (c = ccx) by (apply (nodup_cid_inj' (cands s)); [exact (li_nd _ _ HL)|exact Hin|exact Hcin|congruence]). subst c.
        rewrite (Hstand (cid ccx)). rewrite (top_is_sel b (cid ccx) Hs Hsrc').
        assert (Et: top_is A (cid ccx) b' = true) by (unfold top_is; rewrite Etop; lia). rewrite Et.
        destruct (li_tally _ _ HL ccx Hcin Hsrc') as [El|[Er _]]; [|congruence].
        left. rewrite (r_add A S ZL). unfold bval in *. lia.
      * rewrite (Hstand (cid c)). rewrite (top_is_sel b (cid c) Hs Hsrc').
        assert (Et: top_is A (cid c) b' = false) by (unfold top_is; rewrite Etop; lia). rewrite Et.
        destruct (li_tally _ _ HL c Hcin Hsrc') as [El|[Er1 Er2]]; [left; lia|right; split; [exact Er1|lia]].
    + intros c' Hc'in Hp. destruct (in_add_vote _ _ _ _ Hc'in) as (c & Hcin & [[Ei ->]|[Ei ->]]).
      * rewrite pend_with_vote in Hp. cbn [cvote with_vote]. rewrite (r_add A S ZL). pose proof (li_pend _ _ HL c Hcin Hp). unfold bval in Hb'nn. lia.
      * exact (li_pend _ _ HL c Hcin Hp).
    + intros c' Hc'in Hw. destruct (in_add_vote _ _ _ _ Hc'in) as (c & Hcin & [[Ei ->]|[Ei ->]]); [|exact (li_wd _ _ HL c Hcin Hw)].
      cbn [cst with_vote] in Hw. exfalso.
      assert (c = ccx) by (apply (nodup_cid_inj' (cands s)); [exact (li_nd _ _ HL)|exact Hin|exact Hcin|congruence]). subst c.
      unfold cont, is_hopeful, is_pending, in_state in Hcont. rewrite Hw in Hcont. cbn in Hcont. discriminate.
    + intros c' Hc'in. destruct (in_add_vote _ _ _ _ Hc'in) as (c & Hcin & [[Ei ->]|[Ei ->]]); [|exact (li_nonneg _ _ HL c Hcin)].
      cbn [cvote with_vote]. rewrite (r_add A S ZL). pose proof (li_nonneg _ _ HL c Hcin). unfold bval in Hb'nn. lia.
  - split; [|split; [apply Q_exh; assumption|split; [repeat split|split; [unfold selS; rewrite Etop; reflexivity|split; [exact Htot|split; [assumption|split; assumption]]]]]].
    constructor; cbn [cands set_exhausted].
    + exact (li_nd _ _ HL).
    + exact Hwf.
    + exact (li_keep _ _ HL).
    + intros c Hcin Hsrc'. rewrite (Hstand (cid c)). rewrite (top_is_sel b (cid c) Hs Hsrc').
      assert (Et: top_is A (cid c) b' = false) by (unfold top_is; rewrite Etop; reflexivity). rewrite Et.
      destruct (li_tally _ _ HL c Hcin Hsrc') as [El|[Er1 Er2]]; [left; lia|right; split; [exact Er1|lia]].
    + exact (li_pend _ _ HL).
    + exact (li_wd _ _ HL).
    + exact (li_nonneg _ _ HL).
Qed.


Lemma pb_crashed f sel bs (s : est) acc : crashed s = true -> fst (process_ballots A f sel bs s acc) = s.
Proof. intros Hc. destruct bs as [|b t]; cbn [process_ballots]; [reflexivity|]. rewrite Hc. reflexivity. Qed.

Lemma selsum_cons b t : selsum (b :: t) = (if selS b then bval b else 0) + selsum t.
Proof. reflexivity. Qed.

Lemma loop bs : forall s acc,
  LI s (rev acc ++ bs) -> Q s -> crashed s = false -> Forall (fun b => selS b = false) acc ->
  forall s' bs', process_ballots A f_gen selS bs s acc = (s', bs') -> crashed s' = false ->
  LI s' bs' /\ Q s' /\ samef s s' /\ Forall (fun b => selS b = false) bs' /\
  exists mn, total s' = total s + mn /\ 0 <= mn /\ mn * v <= selsum bs * surp /\ (mn = 0 \/ 0 < v).
Proof.
  induction bs as [|b t IH]; intros s acc HL HQ Hc Hacc s' bs' Hp Hc'; cbn [process_ballots] in Hp.
  - inversion Hp; subst. rewrite app_nil_r in HL. split; [exact HL|]. split; [exact HQ|]. split; [apply samef_refl|].
    split; [apply Forall_rev; exact Hacc|]. exists 0. cbn. lia.
  - rewrite Hc in Hp. destruct (selS b) eqn:Es.
    + destruct (f_gen s b) as [s1 b1] eqn:Ef.
      assert (Hc1: crashed s1 = false).
      { destruct (crashed s1) eqn:C1; [|reflexivity]. pose proof (pb_crashed f_gen selS t s1 (b1 :: acc) C1) as E. rewrite Hp in E. cbn in E. subst s1. congruence. }
      destruct (step (rev acc) b t s s1 b1 HL HQ Es Ef Hc1 Hc) as (HL1 & HQ1 & Hsf & Hs1 & Htot & Hnn & Hbd & Hvp).
      assert (HL1': LI s1 (rev (b1 :: acc) ++ t)) by (cbn [rev]; rewrite <- app_assoc; exact HL1).
      destruct (IH s1 (b1 :: acc) HL1' HQ1 Hc1 (Forall_cons _ Hs1 Hacc) s' bs' Hp Hc') as (HL' & HQ' & Hsf' & Hall & mn & Hm1 & Hm2 & Hm3 & Hm4).
      split; [exact HL'|]. split; [exact HQ'|]. split; [exact (samef_trans _ _ _ Hsf Hsf')|]. split; [exact Hall|].
      exists (bval b1 + mn). rewrite selsum_cons, Es. split; [lia|]. split; [lia|]. split; [nia|right; exact Hvp].
    + assert (HL1': LI s (rev (b :: acc) ++ t)) by (cbn [rev]; rewrite <- app_assoc; exact HL).
      destruct (IH s (b :: acc) HL1' HQ Hc (Forall_cons _ Es Hacc) s' bs' Hp Hc') as (HL' & HQ' & Hsf' & Hall & mn & Hm1 & Hm2 & Hm3 & Hm4).
      split; [exact HL'|]. split; [exact HQ'|]. split; [exact Hsf'|]. split; [exact Hall|].
      exists mn. rewrite selsum_cons, Es. split; [lia|]. split; [lia|]. split; [lia|exact Hm4].
Qed.

(* nothing is left standing with a source *)
Lemma stand_nosel bs i : src i = true -> Forall (fun b => selS b = false) bs -> stand bs i = 0.
Proof.
  intros Hi. induction 1 as [|b l Hb _ IH]; [reflexivity|]. rewrite stand_cons, IH.
  unfold selS in Hb. unfold top_is. destruct (top_rank A b) as [c|]; [|reflexivity].
  destruct (c =? i) eqn:E; [|reflexivity]. assert (c = i) by lia. subst. congruence.
Qed.

(* the value selected is what stands with the sources *)
Lemma selsum_single bs h : (forall c, src c = (c =? h)) -> selsum bs = stand bs h.
Proof.
  intros Hs. induction bs as [|b l IH]; [reflexivity|]. rewrite selsum_cons, stand_cons, IH.
  unfold selS, top_is. destruct (top_rank A b) as [c|]; [rewrite Hs|]; reflexivity.
Qed.

End Loop.

(* ---------- the invariant with its history ---------- *)
Section Ops.
Variable cfg : config.
Variable B : Z.
Hypothesis Hmeth : cf_method cfg = MWigm.

Definition snap_ok (a : action A) : Prop :=
  match a_snap a with
  | Some sn => R (as_votes sn) + match as_nt sn with Some x => R x | None => 0 end <= B
  | None => True
  end.
Definition GH (s : est) : Prop := Good B s /\ Forall snap_ok (actions s).

Lemma good_same (s s' : est) : cands s' = cands s -> ballots s' = ballots s -> exhausted s' = exhausted s -> quota s' = quota s ->
  Good B s -> Good B s'.
Proof.
  intros E1 E2 E3 E4 [H1 H2 H3 H4 H5 H6 H7 H8]. constructor; unfold Gregory.total, tot_votes in *; rewrite ?E1, ?E2, ?E3, ?E4; assumption.
Qed.

Lemma r_fold_add (l : list (T A)) a : R (fold_left (add A) l a) = R a + fold_right (fun x acc => R x + acc) 0 l.
Proof. revert a. induction l as [|x l IH]; intros a; cbn [fold_left fold_right]; [lia|]. rewrite IH, (r_add A S ZL). lia. Qed.
Lemma r_vsum (l : list (T A)) : R (vsum A l) = fold_right (fun x acc => R x + acc) 0 l.
Proof. unfold vsum. rewrite r_fold_add, (r_of_int A S ZL). lia. Qed.

Lemma elig_sum (l : list cand) : (forall c, In c l -> cst c = Withdrawn -> R (cvote c) = 0) ->
  fold_right (fun x acc => R x + acc) 0 (map (@cvote A) (filter (fun c => negb (in_state A Withdrawn c)) l)) =
  fold_right (fun c acc => R (cvote c) + acc) 0 l.
Proof.
  induction l as [|c l IH]; intros H; [reflexivity|]. cbn [filter fold_right].
  rewrite <- (IH (fun c' Hc' => H c' (or_intror Hc'))).
  destruct (in_state A Withdrawn c) eqn:E; cbn [negb map fold_right]; [|reflexivity].
  rewrite (H c (or_introl eq_refl)); [lia|]. unfold in_state in E. destruct (cst c); cbn in E; congruence.
Qed.

Lemma snap_of_ok (s : est) : Good B s -> snap_ok (mkAction TLog EmptyString 0 (Some (snap_of A cfg s))).
Proof.
  intros G. unfold snap_ok, snap_of. cbn [a_snap as_votes as_nt]. rewrite Hmeth. rewrite r_vsum.
  unfold eligibles. rewrite (elig_sum (cands s) (g_wd _ _ G)). exact (g_total _ _ G).
Qed.

Lemma gh_log t m (s : est) : GH s -> GH (log_action A cfg t m s).
Proof.
  intros [G H]. unfold log_action. destruct (is_log t).
  - split; [apply (good_same s); try reflexivity; exact G|]. cbn [actions set_actions]. constructor; [exact I|exact H].
  - set (s1 := if is_round t then set_rounds s (rounds s ++ [cands s]) else s).
    assert (G1: Good B s1) by (unfold s1; destruct (is_round t); [apply (good_same s); try reflexivity; exact G|exact G]).
    assert (H1: actions s1 = actions s) by (unfold s1; destruct (is_round t); reflexivity).
    split; [apply (good_same s1); try reflexivity; exact G1|]. cbn [actions set_actions]. rewrite H1. constructor; [|exact H].
    exact (snap_of_ok s1 G1).
Qed.

Lemma crashed_log t m (s : est) : crashed (log_action A cfg t m s) = crashed s.
Proof. unfold log_action. destruct (is_log t); [reflexivity|]. destruct (is_round t); reflexivity. Qed.

Lemma gh_same (s s' : est) : cands s' = cands s -> ballots s' = ballots s -> exhausted s' = exhausted s -> quota s' = quota s ->
  actions s' = actions s -> GH s -> GH s'.
Proof. intros E1 E2 E3 E4 E5 [G H]. split; [exact (good_same s s' E1 E2 E3 E4 G)|rewrite E5; exact H]. Qed.

Lemma gh_new_round (s : est) : GH s -> GH (new_round A cfg s).
Proof. intros H. unfold new_round. apply gh_log. apply (gh_same s); try reflexivity. exact H. Qed.


(* ---------- status writers ---------- *)
Lemma in_upd_cand' i f (l : list cand) c' : In c' (upd_cand A i f l) ->
  exists c, In c l /\ ((cid c = i /\ c' = f c) \/ (cid c <> i /\ c' = c)).
Proof.
  unfold upd_cand. intros H. apply in_map_iff in H. destruct H as (c & E & Hc). exists c. split; [exact Hc|].
  destruct (cid c =? i) eqn:Ei; [left|right]; split; auto; lia.
Qed.

Lemma tsum_upd_same i f (l : list cand) : (forall c, cvote (f c) = cvote c) ->
  fold_right (fun c acc => R (cvote c) + acc) 0 (upd_cand A i f l) = fold_right (fun c acc => R (cvote c) + acc) 0 l.
Proof.
  intros Hf. unfold upd_cand. induction l as [|c l IH]; [reflexivity|]. cbn [map fold_right]. rewrite IH.
  destruct (cid c =? i); [rewrite Hf|]; reflexivity.
Qed.

Lemma good_upd_st (s : est) i st (pf : cand -> option bool) :
  Good B s -> st <> Withdrawn ->
  (forall c, In c (cands s) -> cid c = i -> cont (with_st c st (pf c)) = true -> cont c = true) ->
  (forall c, In c (cands s) -> cid c = i -> is_pending A (with_st c st (pf c)) = true -> R (quota s) <= R (cvote c)) ->
  Good B (upd A s i (fun c => with_st c st (pf c))).
Proof.
  intros G Hst Hcont Hpend. destruct G as [G1 G2 G3 G4 G5 G6 G7 G8].
  constructor; unfold upd; cbn [cands ballots quota exhausted set_cands].
  - rewrite cids_upd; [exact G1|reflexivity].
  - exact G2.
  - intros c' Hc'. destruct (in_upd_cand' _ _ _ _ Hc') as (c & Hc & [[Ei ->]|[Ei ->]]); [|exact (G3 c Hc)].
    cbn [cid cvote with_st]. destruct (G3 c Hc) as [El|[Er1 Er2]]; [left; exact El|right]. split; [|exact Er2].
    destruct (cont (with_st c st (pf c))) eqn:E; [|reflexivity]. rewrite (Hcont c Hc Ei E) in Er1. discriminate.
  - unfold Gregory.total, tot_votes in *. cbn [cands exhausted set_cands]. rewrite tsum_upd_same; [exact G4|reflexivity].
  - intros c' Hc' Hp. destruct (in_upd_cand' _ _ _ _ Hc') as (c & Hc & [[Ei ->]|[Ei ->]]); [exact (Hpend c Hc Ei Hp)|exact (G5 c Hc Hp)].
  - intros c' Hc' Hw. destruct (in_upd_cand' _ _ _ _ Hc') as (c & Hc & [[Ei ->]|[Ei ->]]); [cbn [cst with_st] in Hw; congruence|exact (G6 c Hc Hw)].
  - exact G7.
  - intros c' Hc'. destruct (in_upd_cand' _ _ _ _ Hc') as (c & Hc & [[Ei ->]|[Ei ->]]); exact (G8 c Hc).
Qed.

Lemma gh_upd_st (s : est) i st pf : GH s -> st <> Withdrawn ->
  (forall c, In c (cands s) -> cid c = i -> cont (with_st c st (pf c)) = true -> cont c = true) ->
  (forall c, In c (cands s) -> cid c = i -> is_pending A (with_st c st (pf c)) = true -> R (quota s) <= R (cvote c)) ->
  GH (upd A s i (fun c => with_st c st (pf c))).
Proof. intros [G H] H1 H2 H3. split; [apply good_upd_st; assumption|exact H]. Qed.

(* defeat, elect without pending transfer, unpend: no precondition *)
Lemma gh_defeat i m (s : est) : GH s -> GH (defeat A cfg i m s).
Proof.
  intros H. unfold defeat. destruct (find_cand A (cands s) i); [|apply (gh_same s); try reflexivity; exact H].
  apply gh_log. apply (gh_upd_st s i Defeated (@cpend A)); [exact H|discriminate| |]; intros c1 _ _ E; cbn in E; discriminate.
Qed.
Lemma gh_elect_np i m (s : est) : GH s -> GH (elect A cfg i m false s).
Proof.
  intros H. unfold elect. destruct (find_cand A (cands s) i); [|apply (gh_same s); try reflexivity; exact H].
  apply gh_log. apply (gh_upd_st s i Elected (fun _ => Some false)); [exact H|discriminate| |]; intros c1 _ _ E; cbn in E; discriminate.
Qed.
Lemma gh_elect_p i m (s : est) : GH s ->
  (forall c, In c (cands s) -> cid c = i -> cont c = true /\ R (quota s) <= R (cvote c)) ->
  GH (elect A cfg i m true s).
Proof.
  intros H Hp. unfold elect. destruct (find_cand A (cands s) i); [|apply (gh_same s); try reflexivity; exact H].
  apply gh_log. apply (gh_upd_st s i Elected (fun _ => Some true)); [exact H|discriminate| |]; intros c1 Hc Ei _; exact (proj1 (Hp c1 Hc Ei)) || exact (proj2 (Hp c1 Hc Ei)).
Qed.
Lemma gh_unpend i m (s : est) : GH s -> GH (unpend A cfg i m s).
Proof.
  intros H. unfold unpend. destruct (find_cand A (cands s) i) as [c|]; [|apply (gh_same s); try reflexivity; exact H].
  destruct (is_pending A c); [|apply (gh_same s); try reflexivity; exact H].
  assert (H1: GH (upd A s i (fun c0 => with_st c0 Elected (Some false)))).
  { apply (gh_upd_st s i Elected (fun _ => Some false)); [exact H|discriminate| |]; intros c0 _ _ E; cbn in E; discriminate. }
  destruct m; [apply gh_log; exact H1|exact H1].
Qed.

(* crash flag through the status writers *)
Lemma crashed_upd (s : est) i f : crashed (upd A s i f) = crashed s. Proof. reflexivity. Qed.
Lemma sticky_set_crash (s : est) e : crashed (set_crash s e) = true.
Proof. unfold crashed, set_crash. cbn [crash]. destruct (crash s); reflexivity. Qed.
Lemma sticky_elect i m p (s : est) : crashed s = true -> crashed (elect A cfg i m p s) = true.
Proof. intros H. unfold elect. destruct (find_cand A (cands s) i); [rewrite crashed_log; exact H|apply sticky_set_crash]. Qed.
Lemma sticky_defeat i m (s : est) : crashed s = true -> crashed (defeat A cfg i m s) = true.
Proof. intros H. unfold defeat. destruct (find_cand A (cands s) i); [rewrite crashed_log; exact H|apply sticky_set_crash]. Qed.
Lemma sticky_unpend i m (s : est) : crashed s = true -> crashed (unpend A cfg i m s) = true.
Proof.
  intros H. unfold unpend. destruct (find_cand A (cands s) i) as [c|]; [|apply sticky_set_crash].
  destruct (is_pending A c); [|apply sticky_set_crash]. destruct m; [rewrite crashed_log|]; exact H.
Qed.

Lemma gh_fold {X} (g : est -> X -> est) l : (forall s x, GH s -> GH (g s x)) -> forall s, GH s -> GH (fold_left g l s).
Proof. intros Hg. induction l as [|x l IH]; intros s H; cbn [fold_left]; [exact H|]. apply IH, Hg, H. Qed.


(* frame facts *)
Lemma quota_log t m (s : est) : quota (log_action A cfg t m s) = quota s.
Proof. unfold log_action. destruct (is_log t); [reflexivity|]. destruct (is_round t); reflexivity. Qed.
Lemma ballots_log t m (s : est) : ballots (log_action A cfg t m s) = ballots s.
Proof. unfold log_action. destruct (is_log t); [reflexivity|]. destruct (is_round t); reflexivity. Qed.
Lemma exhausted_log t m (s : est) : exhausted (log_action A cfg t m s) = exhausted s.
Proof. unfold log_action. destruct (is_log t); [reflexivity|]. destruct (is_round t); reflexivity. Qed.
Lemma quota_elect i m p (s : est) : quota (elect A cfg i m p s) = quota s.
Proof. unfold elect. destruct (find_cand A (cands s) i); [rewrite quota_log|]; reflexivity. Qed.
Lemma quota_defeat i m (s : est) : quota (defeat A cfg i m s) = quota s.
Proof. unfold defeat. destruct (find_cand A (cands s) i); [rewrite quota_log|]; reflexivity. Qed.
Lemma ballots_elect i m p (s : est) : ballots (elect A cfg i m p s) = ballots s.
Proof. unfold elect. destruct (find_cand A (cands s) i); [rewrite ballots_log|]; reflexivity. Qed.
Lemma ballots_defeat i m (s : est) : ballots (defeat A cfg i m s) = ballots s.
Proof. unfold defeat. destruct (find_cand A (cands s) i); [rewrite ballots_log|]; reflexivity. Qed.

Lemma in_other_upd i f (l : list cand) c : In c l -> cid c <> i -> In c (upd_cand A i f l).
Proof.
  intros Hc Hi. unfold upd_cand. apply in_map_iff. exists c. split; [|exact Hc]. destruct (cid c =? i) eqn:E; [lia|reflexivity].
Qed.
Lemma in_other_elect i m p (s : est) c : In c (cands s) -> cid c <> i -> In c (cands (elect A cfg i m p s)).
Proof.
  intros Hc Hi. unfold elect. destruct (find_cand A (cands s) i); [|exact Hc]. rewrite cands_log. apply in_other_upd; assumption.
Qed.
Lemma in_other_defeat i m (s : est) c : In c (cands s) -> cid c <> i -> In c (cands (defeat A cfg i m s)).
Proof.
  intros Hc Hi. unfold defeat. destruct (find_cand A (cands s) i); [|exact Hc]. rewrite cands_log. apply in_other_upd; assumption.
Qed.

Lemma hopeful_cont (c : cand) : is_hopeful A c = true -> cont c = true.
Proof. intros H. unfold cont. rewrite H. reflexivity. Qed.

(* a fold of elect() over distinct hopeful candidates holding the quota *)
Lemma gh_fold_elect (msg : option string) (pend : est -> cand -> bool) (l : list cand) : forall s,
  GH s -> NoDup (map (@cid A) l) ->
  (forall c, In c l -> In c (cands s) /\ is_hopeful A c = true /\ R (quota s) <= R (cvote c)) ->
  GH (fold_left (fun s c => match msg with
                            | None => elect_default A cfg (cid c) (pend s c) s
                            | Some m => elect A cfg (cid c) m (pend s c) s end) l s).
Proof.
  induction l as [|c0 l IH]; intros s H Hnd Hl; cbn [fold_left]; [exact H|].
  inversion Hnd as [|? ? Hnotin Hnd']; subst.
  destruct (Hl c0 (or_introl eq_refl)) as (Hin0 & Hh0 & Hq0).
  assert (Hstep: forall m, GH (elect A cfg (cid c0) m (pend s c0) s)).
  { intros m. destruct (pend s c0); [|apply gh_elect_np; exact H]. apply gh_elect_p; [exact H|].
    intros c Hc Ec. rewrite (nodup_cid_inj' (cands s) c0 c (g_nd _ _ (proj1 H)) Hin0 Hc Ec). split; [apply hopeful_cont; exact Hh0|exact Hq0]. }
  assert (Hrest: forall m c, In c l -> In c (cands (elect A cfg (cid c0) m (pend s c0) s)) /\ is_hopeful A c = true /\
                                        R (quota (elect A cfg (cid c0) m (pend s c0) s)) <= R (cvote c)).
  { intros m c Hc. destruct (Hl c (or_intror Hc)) as (Hin & Hh & Hq). rewrite quota_elect. split; [|split; assumption].
    apply in_other_elect; [exact Hin|]. intros E. apply Hnotin. rewrite <- E. apply in_map. exact Hc. }
  destruct msg as [m|]; [|unfold elect_default at 2]; apply IH; auto.
Qed.


Lemma nodup_filter_map {X Y} (f : X -> Y) (p : X -> bool) (l : list X) : NoDup (map f l) -> NoDup (map f (filter p l)).
Proof.
  induction l as [|x l IH]; intros H; [constructor|]. cbn in H. inversion H as [|? ? Hn Hnd]; subst. cbn [filter].
  destruct (p x); [|apply IH; exact Hnd]. cbn [map]. constructor; [|apply IH; exact Hnd].
  intros Hin. apply Hn. apply in_map_iff in Hin. destruct Hin as (y & E & Hy). apply filter_In in Hy. rewrite <- E. apply in_map. exact (proj1 Hy).
Qed.

Lemma nodup_sorted (lt : cand -> cand -> bool) rv (l : list cand) : NoDup (map (@cid A) l) -> NoDup (map (@cid A) (py_sorted lt rv l)).
Proof. intros H. eapply Permutation_NoDup; [|exact H]. apply Permutation_map. symmetry. apply py_sorted_perm. Qed.

Lemma gh_elect_with_quota hq pend msg extra (s : est) :
  (forall c, hq s c = true -> R (quota s) <= R (cvote c)) ->
  GH s -> GH (elect_with_quota A cfg hq pend msg extra s).
Proof.
  intros Hq H. unfold elect_with_quota. cbv zeta. apply gh_fold_elect; [exact H| |].
  - apply nodup_filter_map. unfold by_vote. apply nodup_sorted. unfold hopefuls. apply nodup_filter_map. exact (g_nd _ _ (proj1 H)).
  - intros c Hc. apply filter_In in Hc. destruct Hc as [Hc Hx]. unfold by_vote in Hc. apply py_sorted_in in Hc.
    unfold hopefuls in Hc. apply filter_In in Hc. destruct Hc as [Hin Hh]. split; [exact Hin|]. split; [exact Hh|].
    apply Hq. apply andb_prop in Hx. exact (proj2 Hx).
Qed.


(* ---------- a whole ballot loop from a good state ---------- *)
Lemma li_of_good keep src (s : est) : Good B s ->
  (forall c, In c (cands s) -> keep c = true -> cont c = true /\ src (cid c) = false) ->
  LI keep src (R (quota s)) s (ballots s).
Proof.
  intros G Hk. constructor.
  - exact (g_nd _ _ G).
  - exact (g_wfb _ _ G).
  - exact Hk.
  - intros c Hc _. exact (g_tally _ _ G c Hc).
  - exact (g_pend _ _ G).
  - exact (g_wd _ _ G).
  - exact (g_nonneg _ _ G).
Qed.

Lemma move keep src wsel v surp (Q : est -> Prop) (s : est) :
  (forall c x, keep (with_vote c x) = keep c) ->
  (forall s c x cc, Q s -> src c = false -> find_cand A (cands s) c = Some cc -> keep cc = true -> Q (add_vote A c x s)) ->
  (forall s x, Q s -> Q (set_exhausted s x)) ->
  (forall s bs, Q s -> Q (set_ballots s bs)) ->
  (forall s b w, Q s -> wfb b -> wsel s b = Ok w -> 0 <= R w /\ R w * v <= R (bweight b) * surp /\ 0 < v) ->
  Good B s -> crashed s = false -> Q s ->
  (forall c, In c (cands s) -> keep c = true -> cont c = true /\ src (cid c) = false) ->
  let s' := for_ballots A (f_gen keep wsel) (selS src) s in
  crashed s' = false ->
  LI keep src (R (quota s)) s' (ballots s') /\ Q s' /\ samef s s' /\ Forall (fun b => selS src b = false) (ballots s') /\
  exists mn, total s' = total s + mn /\ 0 <= mn /\ mn * v <= selsum src (ballots s) * surp /\ (mn = 0 \/ 0 < v).
Proof.
  intros Hkv HQa HQe HQb Hw G Hc HQ Hk s' Hc'. unfold s', for_ballots in *.
  destruct (process_ballots A (f_gen keep wsel) (selS src) (ballots s) s []) as [s1 bs1] eqn:Ep.
  assert (Hc1: crashed s1 = false) by exact Hc'.
  destruct (loop keep src wsel v surp (R (quota s)) Q Hkv HQa HQe Hw (ballots s) s [] (li_of_good keep src s G Hk) HQ Hc (Forall_nil _) s1 bs1 Ep Hc1)
    as (HL & HQ1 & Hsf & Hall & mn & Hm).
  split; [|split; [apply HQb; exact HQ1|split; [exact Hsf|split; [exact Hall|exists mn; exact Hm]]]].
  destruct HL as [L1 L2 L3 L4 L5 L6 L7]. constructor; assumption.
Qed.


(* ---------- after the loop: the source's tally is overwritten ---------- *)
Lemma tsum_set_one i x (l : list cand) c0 : NoDup (map (@cid A) l) -> In c0 l -> cid c0 = i ->
  fold_right (fun c acc => R (cvote c) + acc) 0 (upd_cand A i (fun c => with_vote c x) l) =
  fold_right (fun c acc => R (cvote c) + acc) 0 l - R (cvote c0) + R x.
Proof.
  unfold upd_cand. induction l as [|c l IH]; intros Hnd Hin Hi; [contradiction|]. cbn [map fold_right].
  cbn [map] in Hnd. inversion Hnd as [|? ? Hn Hnd']; subst. destruct Hin as [->|Hin].
  - rewrite Z.eqb_refl. cbn [cvote with_vote].
    assert (E: map (fun c => if cid c =? cid c0 then with_vote c x else c) l = l).
    { clear IH Hnd Hnd'. induction l as [|d l IHl]; [reflexivity|]. cbn [map]. cbn [map In] in Hn.
      destruct (cid d =? cid c0) eqn:E; [exfalso; apply Hn; left; lia|]. rewrite IHl; [reflexivity|]. intros H; apply Hn; right; exact H. }
    rewrite E. lia.
  - destruct (cid c =? cid c0) eqn:E.
    + exfalso. apply Hn. assert (cid c = cid c0) by lia. rewrite H. apply in_map. exact Hin.
    + rewrite (IH Hnd' Hin eq_refl). lia.
Qed.

Lemma good_finish_single keep h x (s0 s3 : est) ch :
  LI keep (fun c => c =? h) (R (quota s0)) s3 (ballots s3) ->
  Forall (fun b => selS (fun c => c =? h) b = false) (ballots s3) ->
  quota s3 = quota s0 -> 0 <= R (quota s0) ->
  In ch (cands s3) -> cid ch = h -> (R x = 0 \/ cont ch = false) -> cst ch <> Withdrawn -> is_pending A ch = false -> 0 <= R x ->
  total s3 - R (cvote ch) + R x <= B ->
  Good B (set_vote A h x s3).
Proof.
  intros HL Hall Hq Hq0 Hin Hid Hx Hnw Hnp Hx0 Htot. destruct HL as [L1 L2 L3 L4 L5 L6 L7].
  assert (Hst: stand (ballots s3) h = 0) by (apply (stand_nosel (fun c => c =? h)); [apply Z.eqb_refl|exact Hall]).
  constructor; unfold set_vote, upd; cbn [cands ballots quota exhausted set_cands].
  - rewrite cids_upd; [exact L1|reflexivity].
  - exact L2.
  - intros c' Hc'. destruct (in_upd_cand' _ _ _ _ Hc') as (c & Hc & [[Ei ->]|[Ei ->]]).
    + cbn [cid cvote with_vote]. assert (c = ch) by (apply (nodup_cid_inj' (cands s3)); [exact L1|exact Hin|exact Hc|congruence]). subst c.
      rewrite Hid, Hst. destruct Hx as [Hx|Hx]; [left; exact Hx|right; split; [exact Hx|reflexivity]].
    + apply L4; [exact Hc|]. destruct (cid c =? h) eqn:E; [lia|reflexivity].
  - unfold Gregory.total, tot_votes in *. cbn [cands exhausted set_cands]. rewrite (tsum_set_one h x (cands s3) ch L1 Hin Hid). lia.
  - rewrite Hq. intros c' Hc' Hp. destruct (in_upd_cand' _ _ _ _ Hc') as (c & Hc & [[Ei ->]|[Ei ->]]); [|exact (L5 c Hc Hp)].
    assert (c = ch) by (apply (nodup_cid_inj' (cands s3)); [exact L1|exact Hin|exact Hc|congruence]). subst c.
    rewrite pend_with_vote in Hp. congruence.
  - intros c' Hc' Hw. destruct (in_upd_cand' _ _ _ _ Hc') as (c & Hc & [[Ei ->]|[Ei ->]]); [|exact (L6 c Hc Hw)].
    assert (c = ch) by (apply (nodup_cid_inj' (cands s3)); [exact L1|exact Hin|exact Hc|congruence]). subst c. cbn [cst with_vote] in Hw. contradiction.
  - rewrite Hq. exact Hq0.
  - intros c' Hc'. destruct (in_upd_cand' _ _ _ _ Hc') as (c & Hc & [[Ei ->]|[Ei ->]]); [exact Hx0|exact (L7 c Hc)].
Qed.


(* ---------- surplus transfer of one candidate ---------- *)
Lemma find_upd_other i j f (l : list cand) : i <> j -> (forall c, cid (f c) = cid c) ->
  find_cand A (upd_cand A i f l) j = find_cand A l j.
Proof.
  intros Hij Hf. unfold find_cand, upd_cand. induction l as [|c l IH]; [reflexivity|]. cbn [map find].
  destruct (cid c =? i) eqn:E.
  - rewrite Hf. assert (cid c = i) by lia. destruct (cid c =? j) eqn:E2; [lia|exact IH].
  - destruct (cid c =? j); [reflexivity|exact IH].
Qed.
Lemma find_of_in (l : list cand) c : NoDup (map (@cid A) l) -> In c l -> find_cand A l (cid c) = Some c.
Proof.
  intros Hnd Hin. destruct (find_cand_in A l (cid c) (in_map _ _ _ Hin)) as [c' E]. rewrite E. f_equal.
  destruct (find_cand_In _ _ _ E) as [Hin' Hid]. exact (nodup_cid_inj' l c c' Hnd Hin Hin' Hid).
Qed.

Definition rew_ok (rew : T A -> T A -> T A -> res (T A)) : Prop :=
  forall w surp v w', 0 <= R w -> 0 <= R surp -> 0 <= R v -> rew w surp v = Ok w' ->
    0 <= R w' /\ R w' * R v <= R w * R surp /\ 0 < R v.

Lemma rew_wigm_ok : rew_ok (rew_wigm A).
Proof.
  intros w surp v w' Hw Hs Hv E. destruct (Z.eq_dec (R v) 0) as [Hz|Hnz].
  - unfold rew_wigm in E. rewrite (r_divv0 A S ZL _ _ Hz) in E. discriminate.
  - destruct (rew_wigm_value A S ZL w surp v Hnz) as (w2 & E2 & V2). rewrite E in E2. inversion E2; subst w2.
    pose proof (S_pos A S ZL) as HS. assert (Hvp: 0 < R v) by lia.
    pose proof (one_ballot S (R w) (R surp) (R v) 1 HS Hvp Hw Hs ltac:(lia)) as H1. rewrite V2.
    assert (H0: 0 <= fdiv S (fmul S (R w) (R surp)) (R v)).
    { unfold fdiv, fmul. apply Z.div_pos; [|lia]. apply Z.mul_nonneg_nonneg; [|lia]. apply Z.div_pos; [|lia]. nia. }
    split; [exact H0|]. split; [nia|exact Hvp].
Qed.
Lemma rew_scot_ok : rew_ok (rew_scot A).
Proof.
  intros w surp v w' Hw Hs Hv E. destruct (Z.eq_dec (R v) 0) as [Hz|Hnz].
  - unfold rew_scot in E. rewrite (r_kmuldiv0 A S ZL _ _ _ _ Hz) in E. discriminate.
  - destruct (rew_scot_value A S ZL w surp v Hnz) as (w2 & E2 & V2). rewrite E in E2. inversion E2; subst w2. rewrite V2.
    assert (Hvp: 0 < R v) by lia.
    pose proof (Z.mod_pos_bound (R w * R surp) (R v) Hvp). pose proof (Z.div_mod (R w * R surp) (R v) ltac:(lia)).
    assert (0 <= R w * R surp / R v) by (apply Z.div_pos; nia).
    split; [assumption|]. split; [nia|exact Hvp].
Qed.

Lemma gh_surplus_core keep rew h (s2 : est) ch :
  rew_ok rew -> (forall c x, keep (with_vote c x) = keep c) ->
  GH s2 -> crashed s2 = false ->
  (forall c, In c (cands s2) -> keep c = true -> cont c = true /\ cid c <> h) ->
  In ch (cands s2) -> cid ch = h -> cont ch = false -> cst ch <> Withdrawn ->
  R (quota s2) <= R (cvote ch) -> R (cvote ch) = stand (ballots s2) h ->
  let surp := sub A (cvote_of A s2 h) (quota s2) in
  let s3 := for_ballots A (reweigh_transfer A keep rew h surp) (top_is A h) s2 in
  crashed s3 = false ->
  GH (set_vote A h (quota s3) s3) /\ crashed (set_vote A h (quota s3) s3) = false /\
  (forall c, In c (cands s2) -> cid c <> h -> keep c = false -> In c (cands (set_vote A h (quota s3) s3))) /\
  lv_batch (set_vote A h (quota s3) s3) = lv_batch s2.
Proof.
  intros Hrew Hkv [G H] Hc Hk Hin Hid Hcont Hnw Hq Hst surp s3 Hc3.
  pose proof (g_nd _ _ G) as Hnd.
  assert (Ecv: cvote_of A s2 h = cvote ch) by (unfold cvote_of; rewrite <- Hid, (find_of_in _ _ Hnd Hin); reflexivity).
  assert (Hsurp: R surp = R (cvote ch) - R (quota s2)) by (unfold surp; rewrite (r_sub A S ZL), Ecv; reflexivity).
  set (Q := fun s : est => NoDup (map (@cid A) (cands s)) /\ In ch (cands s) /\ cvote_of A s h = cvote ch /\
                           (forall c, In c (cands s2) -> cid c <> h -> keep c = false -> In c (cands s))).
  assert (Hmove := move keep (fun c => c =? h) (fun s b => rew (bweight b) surp (cvote_of A s h)) (R (cvote ch)) (R surp) Q s2 Hkv).
  cbv zeta in Hmove.
  change (for_ballots A (f_gen keep (fun s b => rew (bweight b) surp (cvote_of A s h))) (selS (fun c => c =? h)) s2) with s3 in Hmove.
  destruct Hmove as (HL & (HQ0 & HQ1 & HQ2 & HQ3) & Hsf & Hall & mn & Hm1 & Hm2 & Hm3 & Hm4); try assumption.
  - intros s c x cc (Q0 & Q1 & Q2 & Q3) Hsrc Hf Hkc. assert (c <> h) by lia. split; [rewrite cids_add_vote; exact Q0|]. split; [|split].
    + unfold add_vote, upd. cbn [cands set_cands]. apply in_other_upd; [exact Q1|congruence].
    + unfold cvote_of, add_vote, upd. cbn [cands set_cands]. rewrite find_upd_other; [exact Q2|assumption|reflexivity].
    + intros c0 Hc0 Hne Hk0. unfold add_vote, upd. cbn [cands set_cands]. apply in_other_upd; [exact (Q3 c0 Hc0 Hne Hk0)|].
      intros E. rewrite <- E in Hf. rewrite (find_of_in _ _ Q0 (Q3 c0 Hc0 Hne Hk0)) in Hf. inversion Hf; subst. congruence.
  - intros s x HQ. exact HQ.
  - intros s bs HQ. exact HQ.
  - intros s b w (_ & Q1 & Q2 & _) [Hw0 _] Ew. rewrite Q2 in Ew. apply (Hrew (bweight b) surp (cvote ch) w Hw0); [lia|exact (g_nonneg _ _ G ch Hin)|exact Ew].
  - split; [exact Hnd|]. split; [exact Hin|]. split; [exact Ecv|auto].
  - intros c Hcin Hkc. destruct (Hk c Hcin Hkc) as [H1 H2]. split; [exact H1|]. destruct (cid c =? h) eqn:E; [lia|reflexivity].
  - destruct Hsf as (Eq & Ea & Elb & _).
    assert (Hsel: selsum (fun c => c =? h) (ballots s2) = stand (ballots s2) h) by (apply selsum_single; reflexivity).
    rewrite Hsel, <- Hst in Hm3.
    assert (Hmn: mn <= R surp) by (destruct Hm4 as [->|Hv]; [lia|nia]).
    split; [split|split; [exact Hc3|split]].
    + apply (good_finish_single keep h (quota s3) s2 s3 ch); try assumption.
      * exact (g_quota _ _ G).
      * right; exact Hcont.
      * unfold is_pending. unfold cont, is_pending in Hcont. apply orb_false_elim in Hcont. exact (proj2 Hcont).
      * rewrite Eq. exact (g_quota _ _ G).
      * rewrite Eq. pose proof (g_total _ _ G). lia.
    + unfold set_vote, upd. cbn [actions set_cands]. rewrite Ea. exact H.
    + intros c Hc0 Hne Hk0. unfold set_vote, upd. cbn [cands set_cands]. apply in_other_upd; [exact (HQ3 c Hc0 Hne Hk0)|exact Hne].
    + exact Elb.
Qed.


(* ---------- tie-breakers only log ---------- *)
Definition bt_logs (bt : list cand -> est -> est * option Z) : Prop :=
  forall tied s, fst (bt tied s) = s \/ (exists t m, fst (bt tied s) = log_action A cfg t m s) \/
                 (exists e, fst (bt tied s) = set_crash s e /\ snd (bt tied s) = None).
Lemma bt_simple_logs reason : bt_logs (bt_simple A cfg reason).
Proof.
  intros tied s. unfold bt_simple, break_tie. destruct tied as [|c [|c2 t]]; cbn [fst snd].
  - right; right. eexists; split; reflexivity.
  - left; reflexivity.
  - destruct (by_tie A (c :: c2 :: t)); cbn [fst snd]; [right; right; eexists; split; reflexivity|right; left; eexists; eexists; reflexivity].
Qed.
Lemma scot_bt_logs isd reason : bt_logs (scot_break_tie A cfg isd reason).
Proof.
  intros tied s. unfold scot_break_tie. destruct tied as [|c [|c2 t]]; cbn [fst snd].
  - right; right. eexists; split; reflexivity.
  - left; reflexivity.
  - cbv zeta. destruct (scot_search A _ _ _); cbn [fst snd]; [right; left; eexists; eexists; reflexivity|].
    destruct (by_tie A (c :: c2 :: t)); cbn [fst snd]; [right; right; eexists; split; reflexivity|right; left; eexists; eexists; reflexivity].
Qed.

Lemma bt_frame bt tied (s : est) : bt_logs bt -> GH s ->
  GH (fst (bt tied s)) /\ cands (fst (bt tied s)) = cands s /\ ballots (fst (bt tied s)) = ballots s /\
  quota (fst (bt tied s)) = quota s /\ (snd (bt tied s) <> None -> crashed (fst (bt tied s)) = crashed s).
Proof.
  intros Hb H. destruct (Hb tied s) as [E|[(t & m & E)|(e & E & En)]]; rewrite E.
  - split; [exact H|]. split; [reflexivity|]. split; [reflexivity|]. split; [reflexivity|]. intros _; reflexivity.
  - split; [apply gh_log; exact H|]. split; [apply cands_log|]. split; [apply ballots_log|]. split; [apply quota_log|]. intros _; apply crashed_log.
  - split; [apply (gh_same s); try reflexivity; exact H|]. split; [reflexivity|]. split; [reflexivity|]. split; [reflexivity|]. intros Hn. congruence.
Qed.


(* ---------- unpend of a pending candidate, spelled out ---------- *)
Lemma unpend_pending h m (s1 : est) c : NoDup (map (@cid A) (cands s1)) -> In c (cands s1) -> cid c = h -> is_pending A c = true ->
  let s2 := unpend A cfg h m s1 in
  cands s2 = upd_cand A h (fun c0 => with_st c0 Elected (Some false)) (cands s1) /\ ballots s2 = ballots s1 /\
  quota s2 = quota s1 /\ crashed s2 = crashed s1.
Proof.
  intros Hnd Hin Hid Hp. cbv zeta. unfold unpend. rewrite <- Hid, (find_of_in _ _ Hnd Hin), Hp.
  destruct m; [rewrite cands_log, ballots_log, quota_log, crashed_log|]; repeat split; reflexivity.
Qed.

Lemma pending_in (s : est) c : In c (pendings A s) -> In c (cands s) /\ is_pending A c = true.
Proof. unfold pendings. intros H. apply filter_In in H. exact H. Qed.

Lemma pending_cont (c : cand) : is_pending A c = true -> cont c = true.
Proof. intros H. unfold cont. rewrite H. apply orb_true_r. Qed.

Lemma hopeful_not_elected (c : cand) st p : is_hopeful A (with_st c st p) = true -> st = Hopeful.
Proof. unfold is_hopeful, in_state. cbn [cst with_st]. destruct st; cbn; congruence. Qed.

Lemma gh_transfer_high bt rew (s : est) : bt_logs bt -> bt_ok A bt -> rew_ok rew ->
  GH s -> crashed s = false -> crashed (transfer_high_surplus A cfg bt rew s) = false ->
  GH (transfer_high_surplus A cfg bt rew s).
Proof.
  intros Hbl Hbo Hrew H Hc Hcf. unfold transfer_high_surplus in *.
  destruct (max_vote A (pendings A s)) as [hv|]; [|rewrite sticky_set_crash in Hcf; discriminate].
  cbv zeta in *. set (highs := filter (fun c => eqv A (cvote c) hv) (pendings A s)) in *.
  destruct (bt_frame bt highs s Hbl H) as (H1 & Ec1 & Eb1 & Eq1 & Ecr1).
  destruct (Hbo highs s) as (_ & _ & Hmem).
  destruct (bt highs s) as [s1 [h|]] eqn:Ebt; cbn [fst snd] in *; [|exact H1].
  destruct (Hmem h eq_refl) as (c & Hch & Hid). unfold highs in Hch. apply filter_In in Hch. destruct Hch as [Hcp _].
  destruct (pending_in s c Hcp) as [Hcin Hpend].
  pose proof (g_nd _ _ (proj1 H)) as Hnd.
  assert (Hnd1: NoDup (map (@cid A) (cands s1))) by (rewrite Ec1; exact Hnd).
  assert (Hcin1: In c (cands s1)) by (rewrite Ec1; exact Hcin).
  assert (Hc1: crashed s1 = false) by (rewrite Ecr1; [exact Hc|discriminate]).
  destruct (unpend_pending h (Some "Transfer high surplus"%string) s1 c Hnd1 Hcin1 Hid Hpend) as (Ec2 & Eb2 & Eq2 & Ecr2).
  set (s2 := unpend A cfg h (Some "Transfer high surplus"%string) s1) in *.
  assert (H2: GH s2) by (apply gh_unpend; exact H1).
  assert (Hc2: crashed s2 = false) by (rewrite Ecr2; exact Hc1).
  rewrite Hc2 in *.
  set (ch := with_st c Elected (Some false)).
  assert (Hchin: In ch (cands s2)).
  { rewrite Ec2. unfold upd_cand. apply in_map_iff. exists c. split; [|exact Hcin1]. rewrite Hid, Z.eqb_refl. reflexivity. }
  pose proof (gh_surplus_core (is_hopeful A) rew h s2 ch Hrew (fun _ _ => eq_refl) H2 Hc2) as Hcore.
  cbv zeta in Hcore.
  match type of Hcore with _ -> _ -> _ -> _ -> _ -> _ -> _ -> crashed ?x = false -> _ => set (s3 := x) in * end.
  destruct (crashed s3) eqn:Hc3; [cbv iota in Hcf; congruence|].
  destruct Hcore as [H4 Hc4]; try reflexivity; try assumption.
  - intros c' Hc' Hk. rewrite Ec2 in Hc'. destruct (in_upd_cand' _ _ _ _ Hc') as (c0 & Hc0 & [[Ei ->]|[Ei ->]]).
    + apply hopeful_not_elected in Hk. discriminate.
    + split; [apply hopeful_cont; exact Hk|exact Ei].
  - discriminate.
  - rewrite Eq2, Eq1. exact (g_pend _ _ (proj1 H) c Hcin Hpend).
  - rewrite Eb2, Eb1. cbn [cvote ch with_st]. destruct (g_tally _ _ (proj1 H) c Hcin) as [El|[Er _]]; [rewrite <- Hid; exact El|].
    rewrite (pending_cont c Hpend) in Er. discriminate.
  - apply gh_log. exact H4.
Qed.


(* ---------- exclusion: ballots pass on at unchanged weight ---------- *)
Lemma transfer_as_gen keep (s : est) (b : ballot) : transfer A keep s b = f_gen keep (fun _ b => Ok (bweight b)) s b.
Proof. unfold f_gen. destruct b; reflexivity. Qed.
Lemma pb_ext f g sel : (forall (s : est) (b : ballot), f s b = g s b) ->
  forall bs s acc, process_ballots A f sel bs s acc = process_ballots A g sel bs s acc.
Proof.
  intros H. induction bs as [|b t IH]; intros s acc; cbn [process_ballots]; [reflexivity|].
  destruct (crashed s); [reflexivity|]. destruct (sel b); [|apply IH]. rewrite H. destruct (g s b). apply IH.
Qed.
Lemma for_ballots_ext f g sel (s : est) : (forall (s : est) (b : ballot), f s b = g s b) -> for_ballots A f sel s = for_ballots A g sel s.
Proof. intros H. unfold for_ballots. rewrite (pb_ext f g sel H). reflexivity. Qed.

Lemma crashed_transfer keep (s : est) b : crashed (fst (transfer A keep s b)) = crashed s.
Proof.
  pose proof (transfer_spec keep s b) as H. cbv zeta in H. destruct H as (_ & _ & _ & [(c & cc & _ & _ & _ & E)|(_ & E)]); rewrite E; reflexivity.
Qed.
Lemma crashed_pb_plain keep sel bs : forall (s : est) acc, crashed (fst (process_ballots A (transfer A keep) sel bs s acc)) = crashed s.
Proof.
  induction bs as [|b t IH]; intros s acc; cbn [process_ballots]; [reflexivity|].
  destruct (crashed s) eqn:C; [exact C|]. destruct (sel b); [|rewrite IH; exact C].
  destruct (transfer A keep s b) as [s1 b1] eqn:E. rewrite IH. pose proof (crashed_transfer keep s b) as H. rewrite E in H. cbn in H. rewrite H. exact C.
Qed.
Lemma crashed_for_ballots_plain keep sel (s : est) : crashed (for_ballots A (transfer A keep) sel s) = crashed s.
Proof.
  unfold for_ballots. pose proof (crashed_pb_plain keep sel (ballots s) s []) as H.
  destruct (process_ballots A (transfer A keep) sel (ballots s) s []) as [s1 bs1]. exact H.
Qed.

Lemma move_plain keep src (Q : est -> Prop) (s : est) :
  (forall c x, keep (with_vote c x) = keep c) ->
  (forall s c x cc, Q s -> src c = false -> find_cand A (cands s) c = Some cc -> keep cc = true -> Q (add_vote A c x s)) ->
  (forall s x, Q s -> Q (set_exhausted s x)) ->
  (forall s bs, Q s -> Q (set_ballots s bs)) ->
  Good B s -> crashed s = false -> Q s ->
  (forall c, In c (cands s) -> keep c = true -> cont c = true /\ src (cid c) = false) ->
  let s' := for_ballots A (transfer A keep) (selS src) s in
  LI keep src (R (quota s)) s' (ballots s') /\ Q s' /\ samef s s' /\ Forall (fun b => selS src b = false) (ballots s') /\
  exists mn, total s' = total s + mn /\ 0 <= mn /\ mn <= selsum src (ballots s).
Proof.
  intros Hkv HQa HQe HQb G Hc HQ Hk s'.
  assert (Hc': crashed s' = false) by (unfold s'; rewrite crashed_for_ballots_plain; exact Hc).
  unfold s' in *. rewrite (for_ballots_ext _ _ _ s (transfer_as_gen keep)) in *.
  destruct (move keep src (fun _ b => Ok (bweight b)) 1 1 Q s Hkv HQa HQe HQb) as (HL & HQ' & Hsf & Hall & mn & Hm1 & Hm2 & Hm3 & _); try assumption.
  - intros s0 b w _ [Hw _] E. inversion E; subst. lia.
  - split; [exact HL|]. split; [exact HQ'|]. split; [exact Hsf|]. split; [exact Hall|]. exists mn. lia.
Qed.

Lemma gh_excl_one keep i (s : est) ci :
  (forall c x, keep (with_vote c x) = keep c) ->
  GH s -> crashed s = false ->
  (forall c, In c (cands s) -> keep c = true -> cont c = true /\ cid c <> i) ->
  In ci (cands s) -> cid ci = i -> cst ci <> Withdrawn -> is_pending A ci = false ->
  let s1 := for_ballots A (transfer A keep) (top_is A i) s in
  GH (set_vote A i (V0 A) s1) /\ crashed (set_vote A i (V0 A) s1) = false.
Proof.
  intros Hkv [G H] Hc Hk Hin Hid Hnw Hnp s1.
  set (Q := fun s : est => In ci (cands s)).
  assert (Hmv := move_plain keep (fun c => c =? i) Q s Hkv). cbv zeta in Hmv.
  change (for_ballots A (transfer A keep) (selS (fun c => c =? i)) s) with s1 in Hmv.
  destruct Hmv as (HL & HQ1 & Hsf & Hall & mn & Hm1 & Hm2 & Hm3); try assumption.
  - intros s0 c x cc Q1 Hsrc _ _. unfold Q, add_vote, upd. cbn [cands set_cands]. apply in_other_upd; [exact Q1|]. intros E. rewrite Hid in E. subst c. rewrite Z.eqb_refl in Hsrc. discriminate.
  - intros s0 x HQ. exact HQ.
  - intros s0 bs HQ. exact HQ.
  - intros c Hcin Hkc. destruct (Hk c Hcin Hkc) as [H1 H2]. split; [exact H1|]. destruct (cid c =? i) eqn:E; [lia|reflexivity].
  - destruct Hsf as (Eq & Ea & _).
    assert (Hsel: selsum (fun c => c =? i) (ballots s) = stand (ballots s) i) by (apply selsum_single; reflexivity).
    assert (Hge: stand (ballots s) i <= R (cvote ci)).
    { destruct (g_tally _ _ G ci Hin) as [El|[_ Er]]; rewrite Hid in *; [lia|]. rewrite Er. exact (g_nonneg _ _ G ci Hin). }
    assert (HV0: R (V0 A) = 0) by (unfold V0; rewrite (r_of_int A S ZL); lia).
    split; [split|].
    + apply (good_finish_single keep i (V0 A) s s1 ci); try assumption.
      * exact (g_quota _ _ G).
      * left; exact HV0.
      * lia.
      * pose proof (g_total _ _ G). lia.
    + unfold set_vote, upd. cbn [actions set_cands]. rewrite Ea. exact H.
    + change (crashed s1 = false). unfold s1. rewrite crashed_for_ballots_plain. exact Hc.
Qed.


(* ---------- statuses are untouched by ballot transfers ---------- *)
Notation stl := (stl A).
Notation Sat := (Sat A).
Lemma stl_transfer keep (s : est) b : stl (cands (fst (transfer A keep s b))) = stl (cands s).
Proof.
  pose proof (transfer_spec keep s b) as H. cbv zeta in H. destruct H as (_ & _ & _ & [(c & cc & _ & _ & _ & E)|(_ & E)]); rewrite E; [|reflexivity].
  unfold add_vote, upd. cbn [cands set_cands]. apply stl_upd_same. intros c0; repeat split.
Qed.
Lemma stl_pb_plain keep sel bs : forall (s : est) acc, stl (cands (fst (process_ballots A (transfer A keep) sel bs s acc))) = stl (cands s).
Proof.
  induction bs as [|b t IH]; intros s acc; cbn [process_ballots]; [reflexivity|].
  destruct (crashed s); [reflexivity|]. destruct (sel b); [|apply IH].
  destruct (transfer A keep s b) as [s1 b1] eqn:E. rewrite IH. pose proof (stl_transfer keep s b) as H. rewrite E in H. exact H.
Qed.
Lemma stl_for_ballots_plain keep sel (s : est) : stl (cands (for_ballots A (transfer A keep) sel s)) = stl (cands s).
Proof.
  unfold for_ballots. pose proof (stl_pb_plain keep sel (ballots s) s []) as H.
  destruct (process_ballots A (transfer A keep) sel (ballots s) s []) as [s1 bs1]. exact H.
Qed.
Lemma stl_set_vote i x (s : est) : stl (cands (set_vote A i x s)) = stl (cands s).
Proof. unfold set_vote, upd. cbn [cands set_cands]. apply stl_upd_same. intros c0; repeat split. Qed.
Lemma stl_tdo i (s : est) : stl (cands (transfer_defeated_one A cfg i s)) = stl (cands s).
Proof. unfold transfer_defeated_one. cbv zeta. rewrite cands_log, stl_set_vote, stl_for_ballots_plain. reflexivity. Qed.

Lemma sat_stl (s s' : est) i P : stl (cands s') = stl (cands s) -> Sat s i P -> Sat s' i P.
Proof.
  intros E HS c' Hc' Hi. assert (Hin: In (cid c', (cst c', cpend c')) (stl (cands s'))) by (unfold Forward.stl; apply in_map_iff; exists c'; auto).
  rewrite E in Hin. unfold Forward.stl in Hin. apply in_map_iff in Hin. destruct Hin as (c & Ec & Hc).
  pose proof (f_equal fst Ec) as E1. pose proof (f_equal snd Ec) as E2. cbn [fst snd] in E1, E2. rewrite <- E2. apply HS; [exact Hc|congruence].
Qed.
Lemma ids_stl (s s' : est) : stl (cands s') = stl (cands s) -> map (@cid A) (cands s') = map (@cid A) (cands s).
Proof.
  intros E. assert (H: map fst (stl (cands s')) = map fst (stl (cands s))) by (rewrite E; reflexivity).
  unfold Forward.stl in H. rewrite !map_map in H. exact H.
Qed.

Definition isD (a : sp) : Prop := fst a = Defeated.

Lemma gh_tdo i (s : est) : GH s -> crashed s = false -> In i (map (@cid A) (cands s)) -> Sat s i isD ->
  GH (transfer_defeated_one A cfg i s) /\ crashed (transfer_defeated_one A cfg i s) = false.
Proof.
  intros H Hc Hi HS. destruct (find_cand_in A _ _ Hi) as [ci Ef]. destruct (find_cand_In _ _ _ Ef) as [Hin Hid].
  pose proof (HS ci Hin Hid) as HD. unfold isD in HD. cbn in HD.
  unfold transfer_defeated_one. cbv zeta.
  destruct (gh_excl_one (is_hopeful A) i s ci (fun _ _ => eq_refl) H Hc) as [H2 Hc2]; try assumption.
  - intros c Hcin Hk. split; [apply hopeful_cont; exact Hk|]. intros E.
    pose proof (HS c Hcin E) as HD'. unfold isD in HD'. cbn in HD'. unfold is_hopeful, in_state in Hk. rewrite HD' in Hk. discriminate.
  - rewrite HD. discriminate.
  - unfold is_pending, in_state. rewrite HD. reflexivity.
  - split; [apply gh_log; exact H2|rewrite crashed_log; exact Hc2].
Qed.

Lemma defeat_found i m (s : est) : In i (map (@cid A) (cands s)) ->
  cands (defeat A cfg i m s) = upd_cand A i (fun c => with_st c Defeated (cpend c)) (cands s) /\
  crashed (defeat A cfg i m s) = crashed s.
Proof.
  intros Hi. split; [apply cands_defeat; exact Hi|]. unfold defeat. destruct (find_cand_in A _ _ Hi) as [c ->]. rewrite crashed_log. reflexivity.
Qed.
Lemma sat_defeat_D i m (s : est) : In i (map (@cid A) (cands s)) -> Sat (defeat A cfg i m s) i isD.
Proof.
  intros Hi c' Hc' Hid. rewrite (proj1 (defeat_found i m s Hi)) in Hc'. destruct (in_upd_cand' _ _ _ _ Hc') as (c & Hc & [[Ei ->]|[Ei ->]]); [reflexivity|congruence].
Qed.
Lemma ids_defeat i m (s : est) : map (@cid A) (cands (defeat A cfg i m s)) = map (@cid A) (cands s).
Proof. unfold defeat. destruct (find_cand A (cands s) i); [|reflexivity]. rewrite cands_log. unfold upd. cbn [cands set_cands]. apply cids_upd. reflexivity. Qed.
Lemma sat_defeat_keepD i j m (s : est) : Sat s j isD -> Sat (defeat A cfg i m s) j isD.
Proof.
  intros HS c' Hc' Hid. unfold defeat in Hc'. destruct (find_cand A (cands s) i); [|exact (HS c' Hc' Hid)].
  rewrite cands_log in Hc'. unfold upd in Hc'. cbn [cands set_cands] in Hc'.
  destruct (in_upd_cand' _ _ _ _ Hc') as (c1 & Hc & [[Ei ->]|[Ei ->]]); [reflexivity|exact (HS c1 Hc Hid)].
Qed.

Lemma low_in_hop (s : est) lv lows c : low_candidates A s = Some (lv, lows) -> In c lows -> In c (cands s) /\ is_hopeful A c = true.
Proof.
  unfold low_candidates. destruct (min_vote A (hopefuls A s)); [|discriminate]. intros H Hc; inversion H; subst.
  apply filter_In in Hc. destruct Hc as [Hc _]. unfold hopefuls in Hc. apply filter_In in Hc. exact Hc.
Qed.

Lemma gh_defeat_low bt msg (s : est) : bt_logs bt -> bt_ok A bt -> GH s -> crashed s = false ->
  crashed (defeat_low A cfg bt msg s) = false -> GH (defeat_low A cfg bt msg s).
Proof.
  intros Hbl Hbo H Hc Hcf. unfold defeat_low in *.
  destruct (low_candidates A s) as [[lv lows]|] eqn:El; [|rewrite sticky_set_crash in Hcf; discriminate].
  destruct (bt_frame bt lows s Hbl H) as (H1 & Ec1 & Eb1 & Eq1 & Ecr1).
  destruct (Hbo lows s) as (_ & _ & Hmem).
  destruct (bt lows s) as [s1 [l|]] eqn:Ebt; cbn [fst snd] in *; [|exact H1].
  destruct (Hmem l eq_refl) as (c & Hcl & Hid). destruct (low_in_hop s lv lows c El Hcl) as [Hcin Hh].
  assert (Hi1: In l (map (@cid A) (cands s1))) by (rewrite Ec1, <- Hid; apply in_map; exact Hcin).
  assert (Hc1: crashed s1 = false) by (rewrite Ecr1; [exact Hc|discriminate]).
  destruct (defeat_found l msg s1 Hi1) as [Ec2 Ecr2].
  set (s2 := defeat A cfg l msg s1) in *. rewrite Ecr2, Hc1 in *.
  destruct (gh_tdo l s2) as [H3 _]; [apply gh_defeat; exact H1|exact Ecr2|unfold s2; rewrite ids_defeat; exact Hi1|apply sat_defeat_D; exact Hi1|exact H3].
Qed.

Lemma gh_fold_tdo (l : list cand) : forall s, GH s -> crashed s = false ->
  (forall c, In c l -> In (cid c) (map (@cid A) (cands s)) /\ Sat s (cid c) isD) ->
  GH (fold_left (fun s c => transfer_defeated_one A cfg (cid c) s) l s) /\
  crashed (fold_left (fun s c => transfer_defeated_one A cfg (cid c) s) l s) = false.
Proof.
  induction l as [|c0 l IH]; intros s H Hc Hl; cbn [fold_left]; [split; assumption|].
  destruct (Hl c0 (or_introl eq_refl)) as [Hi0 HS0]. destruct (gh_tdo (cid c0) s H Hc Hi0 HS0) as [H1 Hc1].
  apply IH; [exact H1|exact Hc1|]. intros c Hcin. destruct (Hl c (or_intror Hcin)) as [Hi HS].
  split; [rewrite (ids_stl _ _ (stl_tdo (cid c0) s)); exact Hi|exact (sat_stl _ _ _ _ (stl_tdo (cid c0) s) HS)].
Qed.

Lemma fold_defeat_facts m (l : list cand) : forall s, GH s ->
  (forall c, In c l -> In (cid c) (map (@cid A) (cands s))) ->
  let s' := fold_left (fun s c => defeat A cfg (cid c) m s) l s in
  GH s' /\ crashed s' = crashed s /\ map (@cid A) (cands s') = map (@cid A) (cands s) /\
  (forall j, Sat s j isD -> Sat s' j isD) /\ (forall c, In c l -> Sat s' (cid c) isD).
Proof.
  induction l as [|c0 l IH]; intros s H Hl; cbn [fold_left].
  - split; [exact H|]. split; [reflexivity|]. split; [reflexivity|]. split; [auto|intros c []].
  - pose proof (Hl c0 (or_introl eq_refl)) as Hi0. destruct (defeat_found (cid c0) m s Hi0) as [_ Ecr].
    destruct (IH (defeat A cfg (cid c0) m s) (gh_defeat _ _ _ H)) as (H' & Ecr' & Eid' & Hkeep & HD).
    { intros c Hc. rewrite ids_defeat. apply Hl. right; exact Hc. }
    cbv zeta in *. split; [exact H'|]. split; [rewrite Ecr'; exact Ecr|]. split; [rewrite Eid'; apply ids_defeat|]. split.
    + intros j HS. apply Hkeep. apply sat_defeat_keepD. exact HS.
    + intros c [<-|Hc]; [apply Hkeep; apply sat_defeat_D; exact Hi0|apply HD; exact Hc].
Qed.

Lemma gh_wigm_defeat (s : est) : GH s -> crashed s = false -> crashed (wigm_defeat A cfg s) = false -> GH (wigm_defeat A cfg s).
Proof.
  intros H Hc Hcf. unfold wigm_defeat in *. destruct (low_candidates A s) as [[lv lows]|] eqn:El; [|rewrite sticky_set_crash in Hcf; discriminate].
  destruct (eqv A lv (V0 A) && cf_batch_zero cfg && (seats_left A cfg s <=? nlen (hopefuls A s) - nlen lows)).
  - assert (Hl: forall c, In c lows -> In (cid c) (map (@cid A) (cands s))) by (intros c Hcl; apply in_map; exact (proj1 (low_in_hop s lv lows c El Hcl))).
    destruct (fold_defeat_facts "Defeat batch(zero)" lows s H Hl) as (H1 & Ecr1 & Eid1 & _ & HD). cbv zeta in *.
    apply gh_fold_tdo; [exact H1|rewrite Ecr1; exact Hc|]. intros c Hcl. split; [rewrite Eid1; apply Hl; exact Hcl|apply HD; exact Hcl].
  - pose proof (gh_defeat_low (bt_simple A cfg "defeat") "Defeat" s (bt_simple_logs _) (bt_simple_ok A cfg _) H Hc) as G.
    unfold defeat_low in G. rewrite El in G. exact (G Hcf).
Qed.


(* ---------- the start of a count ---------- *)
Definition bsum (bs : list ballot) : Z := fold_right (fun b acc => bval b + acc) 0 bs.

Record Pre (s : est) : Prop := {
  p_nd : NoDup (map (@cid A) (cands s));
  p_zero : forall c, In c (cands s) -> R (cvote c) = 0;
  p_wfb : Forall wfb (ballots s);
  p_B : bsum (ballots s) <= B;
  p_np : forall c, In c (cands s) -> is_pending A c = false;
  p_wd : forall c, In c (cands s) -> cst c = Withdrawn -> stand (ballots s) (cid c) = 0;
  p_act : Forall snap_ok (actions s)
}.

Definition ic_step (s : est) (b : ballot) : est :=
  match top_rank A b with Some c => add_vote A c (bvote A b) s | None => set_crash s AttributeError end.

Lemma tsum_add_le (s : est) i x : NoDup (map (@cid A) (cands s)) -> 0 <= R x ->
  tot_votes A S ZL (add_vote A i x s) <= tot_votes A S ZL s + R x.
Proof.
  intros Hnd Hx. unfold tot_votes, add_vote, upd. cbn [cands set_cands].
  destruct (in_dec Z.eq_dec i (map (@cid A) (cands s))) as [Hin|Hn].
  - rewrite (tot_add_vote A S ZL (cands s) i x Hnd Hin). lia.
  - rewrite (tot_upd_other A S ZL (cands s) i x Hn). lia.
Qed.

Lemma ic_fold bs : forall s, NoDup (map (@cid A) (cands s)) -> Forall wfb bs ->
  let s' := fold_left ic_step bs s in
  map (@cid A) (cands s') = map (@cid A) (cands s) /\
  stl (cands s') = stl (cands s) /\ ballots s' = ballots s /\ quota s' = quota s /\ actions s' = actions s /\
  (crashed s' = false -> tot_votes A S ZL s' <= tot_votes A S ZL s + bsum bs) /\
  (crashed s' = false -> forall c', In c' (cands s') -> exists c, In c (cands s) /\ cid c = cid c' /\ cst c = cst c' /\ cpend c = cpend c' /\ R (cvote c') = R (cvote c) + stand bs (cid c)).
Proof.
  induction bs as [|b t IH]; intros s Hnd Hw; cbn [fold_left].
  - repeat split; auto; try (cbn; lia). intros _ c' Hc'. exists c'. repeat split; auto. cbn. lia.
  - inversion Hw as [|? ? Hb Ht]; subst.
    assert (Hnd1: NoDup (map (@cid A) (cands (ic_step s b)))).
    { unfold ic_step. destruct (top_rank A b); [rewrite cids_add_vote|]; exact Hnd. }
    destruct (IH (ic_step s b) Hnd1 Ht) as (E1 & E2 & E3 & E4 & E5 & Htot & Hc). cbv zeta in *.
    assert (Hs1: map (@cid A) (cands (ic_step s b)) = map (@cid A) (cands s) /\ stl (cands (ic_step s b)) = stl (cands s) /\
                 ballots (ic_step s b) = ballots s /\ quota (ic_step s b) = quota s /\ actions (ic_step s b) = actions s).
    { unfold ic_step. destruct (top_rank A b); [|repeat split]. split; [apply cids_add_vote|]. split; [|repeat split].
      unfold add_vote, upd. cbn [cands set_cands]. apply stl_upd_same. intros c0; repeat split. }
    destruct Hs1 as (F1 & F2 & F3 & F4 & F5).
    split; [congruence|]. split; [congruence|]. split; [congruence|]. split; [congruence|]. split; [congruence|].
    assert (Hcr: crashed (fold_left ic_step t (ic_step s b)) = false -> exists c, top_rank A b = Some c).
    { intros Hf. destruct (top_rank A b) as [c|] eqn:Et; [eauto|]. exfalso.
      assert (E: forall l s0, crashed s0 = true -> crashed (fold_left ic_step l s0) = true).
      { clear. induction l as [|x l IHl]; intros s0 H; cbn [fold_left]; [exact H|]. apply IHl. unfold ic_step.
        destruct (top_rank A x); [exact H|apply sticky_set_crash]. }
      rewrite E in Hf; [discriminate|]. unfold ic_step. rewrite Et. apply sticky_set_crash. }
    split.
    + intros Hf. destruct (Hcr Hf) as [c Et]. specialize (Htot Hf).
      assert (Es: ic_step s b = add_vote A c (bvote A b) s) by (unfold ic_step; rewrite Et; reflexivity). rewrite Es in *.
      pose proof (tsum_add_le s c (bvote A b) Hnd (bval_nonneg b Hb)) as Hle. cbn [bsum fold_right]. fold (bsum t). unfold bval at 1. lia.
    + intros Hf c' Hc'. destruct (Hcr Hf) as [c Et]. destruct (Hc Hf c' Hc') as (c1 & Hc1 & Eid & Est & Epd & Ev).
      assert (Es: ic_step s b = add_vote A c (bvote A b) s) by (unfold ic_step; rewrite Et; reflexivity). rewrite Es in Hc1.
      destruct (in_add_vote _ _ _ _ Hc1) as (c0 & Hc0 & [[Ei ->]|[Ei ->]]).
      * exists c0. split; [exact Hc0|]. cbn [cid cst cpend cvote with_vote] in *. split; [exact Eid|]. split; [exact Est|]. split; [exact Epd|]. rewrite Ev, (r_add A S ZL), stand_cons.
        unfold top_is. rewrite Et. assert (E: (c =? cid c0) = true) by lia. rewrite E. unfold bval. lia.
      * exists c0. split; [exact Hc0|]. split; [exact Eid|]. split; [exact Est|]. split; [exact Epd|]. rewrite Ev, stand_cons. unfold top_is. rewrite Et.
        assert (E: (c =? cid c0) = false) by lia. rewrite E. lia.
Qed.


Lemma tsum_zero (l : list cand) : (forall c, In c l -> R (cvote c) = 0) -> fold_right (fun c acc => R (cvote c) + acc) 0 l = 0.
Proof. induction l as [|c l IH]; intros H; [reflexivity|]. cbn [fold_right]. rewrite (H c (or_introl eq_refl)), IH; [lia|]. intros c' Hc'. apply H. right; exact Hc'. Qed.

Lemma gh_start q (s : est) : Pre s -> 0 <= R q ->
  crashed (start_count A (Ok q) s) = false -> GH (start_count A (Ok q) s).
Proof.
  intros P Hq Hc. unfold start_count in *. unfold initial_count in *.
  change (fold_left _ (ballots (set_quota s q)) (set_quota s q)) with (fold_left ic_step (ballots s) (set_quota s q)) in *.
  destruct (ic_fold (ballots s) (set_quota s q) (p_nd _ P) (p_wfb _ P)) as (E1 & E2 & E3 & E4 & E5 & Htot & Hcs). cbv zeta in *.
  set (s1 := fold_left ic_step (ballots s) (set_quota s q)) in *.
  assert (Hc1: crashed s1 = false) by exact Hc.
  specialize (Htot Hc1). specialize (Hcs Hc1). cbn [cands ballots quota actions set_quota] in *.
  assert (HV0: R (V0 A) = 0) by (unfold V0; rewrite (r_of_int A S ZL); lia).
  split.
  - constructor; cbn [cands ballots quota exhausted set_exhausted].
    + rewrite E1. exact (p_nd _ P).
    + rewrite E3. exact (p_wfb _ P).
    + intros c' Hc'. destruct (Hcs c' Hc') as (c & Hcin & Eid & _ & _ & Ev). left. rewrite E3, Ev, (p_zero _ P c Hcin), Eid. lia.
    + unfold Gregory.total. cbn [exhausted set_exhausted]. change (tot_votes A S ZL (set_exhausted s1 (V0 A))) with (tot_votes A S ZL s1).
      unfold tot_votes in Htot at 2. cbn [cands set_quota] in Htot. rewrite (tsum_zero (cands s) (p_zero _ P)) in Htot.
      pose proof (p_B _ P). lia.
    + intros c' Hc' Hp. destruct (Hcs c' Hc') as (c & Hcin & _ & Est & Epd & _).
      assert (is_pending A c = true) by (unfold is_pending, in_state in *; rewrite Est, Epd; exact Hp). rewrite (p_np _ P c Hcin) in H. discriminate.
    + intros c' Hc' Hw. destruct (Hcs c' Hc') as (c & Hcin & Eid & Est & _ & Ev). rewrite Ev, (p_zero _ P c Hcin), (p_wd _ P c Hcin); [lia|congruence].
    + rewrite E4. exact Hq.
    + intros c' Hc'. destruct (Hcs c' Hc') as (c & Hcin & _ & _ & _ & Ev). rewrite Ev, (p_zero _ P c Hcin). pose proof (stand_nonneg (ballots s) (cid c) (p_wfb _ P)). lia.
  - cbn [actions set_exhausted]. rewrite E5. exact (p_act _ P).
Qed.


(* ---------- lifting to whole runs ---------- *)
Definition GN (s : est) : Prop := GH s /\ crashed s = false.
Fixpoint pnc (c : cmd est) : Prop :=
  match c with
  | Do f => forall s, GH s -> crashed s = false -> crashed (f s) = false -> GH (f s)
  | Seq a b | Ite _ a b => pnc a /\ pnc b
  | While _ b => pnc b
  | _ => True
  end.
Lemma pnc_triple c : pnc c -> triple est (@crashed A) GN c GN GN GN.
Proof.
  induction c as [f|a IHa b IHb|g a IHa b IHb|g body IH| | |]; cbn [pnc]; intros H.
  - apply t_do_nc. intros s [H1 H2] Hc. split; [apply H; assumption|exact Hc].
  - destruct H as [Ha Hb]. eapply t_seq; [apply IHa; exact Ha|apply IHb; exact Hb].
  - destruct H as [Ha Hb]. apply t_ite; (eapply t_pre; [|first [apply IHa; exact Ha|apply IHb; exact Hb]]); intros s [Hs _]; exact Hs.
  - eapply t_post; [|apply (t_while est (@crashed A) GN GN)].
    + intros s [Hs|[Hs _]]; exact Hs.
    + eapply t_pre; [|apply IH; exact H]. intros s [Hs _]; exact Hs.
  - apply t_break'. auto.
  - apply t_continue'. auto.
  - apply t_skip'. auto.
Qed.

Lemma gh_unpend_all (s : est) : GH s -> GH (unpend_all A cfg s).
Proof. intros H. unfold unpend_all. apply gh_fold; [|exact H]. intros; apply gh_unpend; assumption. Qed.
Lemma gh_elect_or_defeat (s : est) : GH s -> GH (elect_or_defeat_remaining A cfg s).
Proof.
  intros H. unfold elect_or_defeat_remaining. apply gh_fold; [|exact H]. intros s0 c H0.
  destruct (_ <? _); [apply gh_elect_np|apply gh_defeat]; exact H0.
Qed.

Hypothesis Hex : exact A = false.
Lemma has_quota_exact_le (s : est) c : has_quota_exact A s c = true -> R (quota s) <= R (cvote c).
Proof. unfold has_quota_exact. rewrite Hex, (r_gev_exact A S ZL Hex). lia. Qed.
Lemma ge_quota_le (s : est) c : ge_quota A s c = true -> R (quota s) <= R (cvote c).
Proof. unfold ge_quota. rewrite (r_gev_exact A S ZL Hex). lia. Qed.

Local Open Scope cmd_scope.
Ltac pnc_split := repeat match goal with |- _ /\ _ => split | |- True => exact I end.
Lemma pnc_wigm_loop :
  pnc (While (guard_main A cfg) (
    Do (new_round A cfg) ;;
    Do (elect_with_quota A cfg (has_quota_exact A) (fun _ _ => true) None (fun _ => true)) ;;
    Ite (fun s => nonempty (pendings A s))
      (Do (transfer_high_surplus A cfg (bt_simple A cfg "surplus") (rew_wigm A)))
      (Ite (fun s => nonempty (hopefuls A s)) (Do (wigm_defeat A cfg)) Skip)) ;;
  Do (unpend_all A cfg) ;;
  Do (elect_or_defeat_remaining A cfg)).
Proof.
  cbn [pnc]. pnc_split.
  - intros s H _ _. apply gh_new_round; exact H.
  - intros s H _ _. apply gh_elect_with_quota; [intros c; apply has_quota_exact_le|exact H].
  - intros s H Hc Hcf. apply gh_transfer_high; try assumption; [apply bt_simple_logs|apply bt_simple_ok|apply rew_wigm_ok].
  - intros s H Hc Hcf. apply gh_wigm_defeat; assumption.
  - intros s H _ _. apply gh_unpend_all; exact H.
  - intros s H _ _. apply gh_elect_or_defeat; exact H.
Qed.


Hypothesis Hnb : 0 <= cf_nballots cfg.
Hypothesis Hns : 0 <= cf_nseats cfg.

Lemma droop_quota_eps_nonneg q : droop_quota_eps A cfg = Ok q -> 0 <= R q.
Proof.
  unfold droop_quota_eps. pose proof (S_pos A S ZL) as HS.
  destruct (Z.eq_dec (R (of_int A (cf_nseats cfg + 1))) 0) as [Hz|Hnz].
  - rewrite (r_divv0 A S ZL _ _ Hz). discriminate.
  - destruct (r_divv A S ZL (of_int A (cf_nballots cfg)) (of_int A (cf_nseats cfg + 1)) Hnz) as (c & E & Ec). rewrite E.
    intros H; inversion H; subst. rewrite (r_add A S ZL), Ec, !(r_of_int A S ZL). pose proof (r_eps A S ZL).
    assert (0 <= cf_nballots cfg * S * S / ((cf_nseats cfg + 1) * S)) by (apply Z.div_pos; nia). lia.
Qed.
Lemma wigm_quota_nonneg q : wigm_quota A cfg = Ok q -> 0 <= R q.
Proof.
  unfold wigm_quota. pose proof (S_pos A S ZL) as HS. destruct (cf_integer_quota cfg).
  - intros H. assert (E: q = of_int A (1 + cf_nballots cfg / (cf_nseats cfg + 1))) by congruence. rewrite E, (r_of_int A S ZL).
    assert (0 <= cf_nballots cfg / (cf_nseats cfg + 1)) by (apply Z.div_pos; lia). apply Z.mul_nonneg_nonneg; lia.
  - rewrite Hex. apply droop_quota_eps_nonneg.
Qed.
Lemma integer_quota_nonneg : 0 <= R (integer_droop_quota A cfg).
Proof.
  unfold integer_droop_quota. pose proof (S_pos A S ZL) as HS. rewrite (r_of_int A S ZL).
  assert (0 <= cf_nballots cfg / (cf_nseats cfg + 1)) by (apply Z.div_pos; lia). apply Z.mul_nonneg_nonneg; lia.
Qed.

Lemma start_triple (qr : res (T A)) tg msg (P' : est -> Prop) :
  (forall q, qr = Ok q -> 0 <= R q) ->
  triple est (@crashed A) Pre (Do (fun s => log_action A cfg tg msg (start_count A qr s))) GN GN GN.
Proof.
  intros Hq. apply t_do_nc. intros s P Hc. rewrite crashed_log in Hc. destruct qr as [q|e].
  - split; [apply gh_log, gh_start; [exact P|apply Hq; reflexivity|exact Hc]|rewrite crashed_log; exact Hc].
  - unfold start_count in Hc. rewrite sticky_set_crash in Hc. discriminate.
Qed.

Theorem wigm_triple : triple est (@crashed A) Pre (wigm A cfg) GN GN GN.
Proof.
  unfold wigm. eapply t_seq; [apply (start_triple _ _ _ (fun _ => True)); apply wigm_quota_nonneg|].
  apply pnc_triple. exact pnc_wigm_loop.
Qed.


(* ---------- a batch of excluded candidates: all their ballots move, then their tallies are zeroed ---------- *)
Definition srcf (cids : list Z) (i : Z) : bool := existsb (Z.eqb i) cids.
Definition srcvotes (src : Z -> bool) (l : list cand) : Z := fold_right (fun c acc => (if src (cid c) then R (cvote c) else 0) + acc) 0 l.
Definition srcstand (src : Z -> bool) (bs : list ballot) (l : list cand) : Z :=
  fold_right (fun c acc => (if src (cid c) then stand bs (cid c) else 0) + acc) 0 l.

Lemma fold_set_vote_frame x (l : list Z) : forall s : est,
  let s' := fold_left (fun s i => set_vote A i x s) l s in
  cands s' = map (fun c => if existsb (Z.eqb (cid c)) l then with_vote c x else c) (cands s) /\
  ballots s' = ballots s /\ quota s' = quota s /\ exhausted s' = exhausted s /\ actions s' = actions s /\ crash s' = crash s.
Proof.
  induction l as [|i l IH]; intros s; cbn [fold_left existsb].
  - split; [rewrite map_id; reflexivity|repeat split].
  - destruct (IH (set_vote A i x s)) as (E1 & E2 & E3 & E4 & E5 & E6). cbv zeta in *.
    split; [|repeat split; assumption]. rewrite E1. unfold set_vote, upd, upd_cand. cbn [cands set_cands]. rewrite map_map. apply map_ext.
    intros c. destruct (cid c =? i) eqn:E; cbn [cid with_vote orb]; [destruct (existsb _ l); reflexivity|reflexivity].
Qed.

Lemma tsum_map_zero (src : Z -> bool) x (l : list cand) : R x = 0 ->
  fold_right (fun c acc => R (cvote c) + acc) 0 (map (fun c : cand => if src (cid c) then with_vote c x else c) l) =
  fold_right (fun c acc => R (cvote c) + acc) 0 l - srcvotes src l.
Proof.
  intros Hx. unfold srcvotes. induction l as [|c l IH]; [reflexivity|]. cbn [map fold_right]. rewrite IH.
  destruct (src (cid c)); cbn [cvote with_vote]; lia.
Qed.

Lemma count_one (l : list cand) i x : NoDup (map (@cid A) l) -> In i (map (@cid A) l) ->
  fold_right (fun c acc => (if cid c =? i then x else 0) + acc) 0 l = x.
Proof.
  induction l as [|c l IH]; intros Hnd Hin; [contradiction|]. cbn [map] in *. inversion Hnd as [|? ? Hn Hnd']; subst. cbn [fold_right].
  destruct Hin as [E|Hin].
  - rewrite E, Z.eqb_refl. assert (Hz: fold_right (fun c0 acc => (if cid c0 =? i then x else 0) + acc) 0 l = 0).
    { clear IH Hnd Hnd'. induction l as [|d l IHl]; [reflexivity|]. cbn [fold_right map In] in *.
      destruct (cid d =? i) eqn:Ed; [exfalso; apply Hn; left; lia|]. rewrite IHl; [lia|]. intros H; apply Hn; right; exact H. }
    rewrite Hz. lia.
  - destruct (cid c =? i) eqn:Ec; [exfalso; apply Hn; assert (cid c = i) by lia; congruence|]. rewrite (IH Hnd' Hin). lia.
Qed.
Lemma count_zero (l : list cand) i x : ~ In i (map (@cid A) l) ->
  fold_right (fun c acc => (if cid c =? i then x else 0) + acc) 0 l = 0.
Proof.
  induction l as [|c l IH]; intros Hn; [reflexivity|]. cbn [fold_right map In] in *.
  destruct (cid c =? i) eqn:Ec; [exfalso; apply Hn; left; lia|]. rewrite IH; [lia|]. intros H; apply Hn; right; exact H.
Qed.

Lemma fsum_ext (f g : cand -> Z) (l : list cand) : (forall c, In c l -> f c = g c) ->
  fold_right (fun c acc => f c + acc) 0 l = fold_right (fun c acc => g c + acc) 0 l.
Proof. induction l as [|c l IH]; intros H; [reflexivity|]. cbn [fold_right]. rewrite (H c (or_introl eq_refl)), IH; [reflexivity|]. intros c' Hc'. apply H; right; exact Hc'. Qed.
Lemma fsum_add (f g : cand -> Z) (l : list cand) :
  fold_right (fun c acc => (f c + g c) + acc) 0 l = fold_right (fun c acc => f c + acc) 0 l + fold_right (fun c acc => g c + acc) 0 l.
Proof. induction l as [|c l IH]; [reflexivity|]. cbn [fold_right]. rewrite IH. lia. Qed.
Lemma fsum_zero (l : list cand) : fold_right (fun (c : cand) acc => 0 + acc) 0 l = 0.
Proof. induction l as [|c l IH]; [reflexivity|]. cbn [fold_right]. rewrite IH. lia. Qed.

Lemma selsum_srcstand src (l : list cand) bs : NoDup (map (@cid A) l) -> (forall i, src i = true -> In i (map (@cid A) l)) ->
  selsum src bs = srcstand src bs l.
Proof.
  intros Hnd Hsrc. unfold srcstand. induction bs as [|b t IH].
  - cbn [selsum fold_right]. rewrite (fsum_ext _ (fun _ => 0) l); [rewrite fsum_zero; reflexivity|]. intros c _. destruct (src (cid c)); reflexivity.
  - rewrite selsum_cons, IH.
    rewrite (fsum_ext (fun c => if src (cid c) then stand (b :: t) (cid c) else 0)
                      (fun c => (if src (cid c) then (if top_is A (cid c) b then bval b else 0) else 0) + (if src (cid c) then stand t (cid c) else 0)) l).
    2:{ intros c _. rewrite stand_cons. destruct (src (cid c)); lia. }
    rewrite fsum_add. f_equal. unfold selS, top_is. destruct (top_rank A b) as [i|].
    + rewrite (fsum_ext _ (fun c => if cid c =? i then (if src i then bval b else 0) else 0) l).
      2:{ intros c _. destruct (cid c =? i) eqn:E.
          - assert (cid c = i) by lia. subst i. rewrite Z.eqb_refl. reflexivity.
          - assert (E': (i =? cid c) = false) by lia. rewrite E'. destruct (src (cid c)); reflexivity. }
      destruct (src i) eqn:Es.
      * rewrite (count_one l i (bval b) Hnd (Hsrc i Es)). reflexivity.
      * rewrite (fsum_ext _ (fun _ => 0) l); [rewrite fsum_zero; reflexivity|]. intros c _. destruct (cid c =? i); reflexivity.
    + rewrite (fsum_ext _ (fun _ => 0) l); [rewrite fsum_zero; reflexivity|]. intros c _. destruct (src (cid c)); reflexivity.
Qed.


Lemma existsb_eqb_in i (l : list Z) : existsb (Z.eqb i) l = true <-> In i l.
Proof. rewrite existsb_exists. split; [intros (x & Hx & E); assert (i = x) by lia; subst; exact Hx|intros H; exists i; split; [exact H|lia]]. Qed.

Definition relv (src : Z -> bool) (l0 l1 : list cand) : Prop :=
  Forall2 (fun c0 c1 : cand => cid c1 = cid c0 /\ (src (cid c0) = true -> cvote c1 = cvote c0)) l0 l1.
Lemma relv_refl src l : relv src l l.
Proof. induction l; constructor; auto. Qed.
Lemma relv_upd src l0 l1 i (f : cand -> cand) : (forall c, cid (f c) = cid c) -> src i = false -> relv src l0 l1 -> relv src l0 (upd_cand A i f l1).
Proof.
  intros Hf Hs H. unfold upd_cand. induction H as [|c0 c1 l0 l1 [E1 E2] _ IH]; cbn [map]; constructor; [|exact IH].
  destruct (cid c1 =? i) eqn:E; [|split; assumption]. split; [rewrite Hf; exact E1|]. intros Hsrc. assert (cid c1 = i) by lia. congruence.
Qed.
Lemma relv_srcvotes src l0 l1 : relv src l0 l1 -> srcvotes src l1 = srcvotes src l0.
Proof. unfold srcvotes. induction 1 as [|c0 c1 l0 l1 [E1 E2] _ IH]; [reflexivity|]. cbn [fold_right]. rewrite IH, E1. destruct (src (cid c0)); [rewrite E2; reflexivity|reflexivity]. Qed.

Lemma srcstand_le_votes src (s : est) : Good B s -> srcstand src (ballots s) (cands s) <= srcvotes src (cands s).
Proof.
  intros G. unfold srcstand, srcvotes. assert (H: forall c, In c (cands s) -> stand (ballots s) (cid c) <= R (cvote c)).
  { intros c Hc. destruct (g_tally _ _ G c Hc) as [E|[_ E]]; [lia|]. rewrite E. exact (g_nonneg _ _ G c Hc). }
  revert H. generalize (cands s). induction l as [|c l IH]; intros H; [cbn; lia|]. cbn [fold_right].
  pose proof (H c (or_introl eq_refl)). pose proof (IH (fun c' Hc' => H c' (or_intror Hc'))). destruct (src (cid c)); lia.
Qed.

Lemma gh_batch_core keep (cids : list Z) (s : est) :
  (forall c x, keep (with_vote c x) = keep c) -> (forall c, keep c = true -> cont c = true) -> (forall c, keep c = true -> cst c <> Defeated) ->
  GH s -> crashed s = false ->
  (forall i, In i cids -> In i (map (@cid A) (cands s)) /\ Sat s i isD) ->
  let s1 := for_ballots A (transfer A keep) (top_in A cids) s in
  let s2 := fold_left (fun s i => set_vote A i (V0 A) s) cids s1 in
  GH s2 /\ crashed s2 = false.
Proof.
  intros Hkv Hkc Hkd [G H] Hc Hb s1 s2. set (src := srcf cids).
  assert (Hsrc_in: forall i, src i = true -> In i cids) by (intros i; apply existsb_eqb_in).
  set (Q := fun t : est => relv src (cands s) (cands t)).
  assert (Hmv := move_plain keep src Q s Hkv). cbv zeta in Hmv.
  change (for_ballots A (transfer A keep) (selS src) s) with s1 in Hmv.
  destruct Hmv as (HL & HQ1 & Hsf & Hall & mn & Hm1 & Hm2 & Hm3); try assumption.
  - intros t c x cc HQ Hs _ _. unfold Q, add_vote, upd. cbn [cands set_cands]. apply relv_upd; [reflexivity|exact Hs|exact HQ].
  - intros t x HQ. exact HQ.
  - intros t bs HQ. exact HQ.
  - apply relv_refl.
  - intros c Hcin Hk. split; [apply Hkc; exact Hk|]. destruct (src (cid c)) eqn:Es; [|reflexivity]. exfalso.
    destruct (Hb (cid c) (Hsrc_in _ Es)) as [_ HS]. pose proof (HS c Hcin eq_refl) as HD. unfold isD in HD. cbn in HD. exact (Hkd c Hk HD).
  - destruct Hsf as (Eq & Ea & _ & _ & _ & _ & Ecr).
    destruct (fold_set_vote_frame (V0 A) cids s1) as (F1 & F2 & F3 & F4 & F5 & F6). fold s2 in F1, F2, F3, F4, F5, F6.
    assert (HV0: R (V0 A) = 0) by (unfold V0; rewrite (r_of_int A S ZL); lia).
    assert (Hstl1: stl (cands s1) = stl (cands s)) by (apply stl_for_ballots_plain).
    assert (HD1: forall c, In c (cands s1) -> src (cid c) = true -> cst c = Defeated).
    { intros c Hc1 Es. destruct (Hb (cid c) (Hsrc_in _ Es)) as [_ HS]. exact (sat_stl s s1 (cid c) isD Hstl1 HS c Hc1 eq_refl). }
    destruct HL as [L1 L2 L3 L4 L5 L6 L7].
    assert (Htot: tot_votes A S ZL s2 <= tot_votes A S ZL s1 - mn).
    { unfold tot_votes. rewrite F1. change (fun c : cand => if existsb (Z.eqb (cid c)) cids then with_vote c (V0 A) else c) with (fun c : cand => if src (cid c) then with_vote c (V0 A) else c).
      rewrite (tsum_map_zero src (V0 A) (cands s1) HV0). rewrite (relv_srcvotes src _ _ HQ1).
      pose proof (srcstand_le_votes src s G) as Hle.
      rewrite <- (selsum_srcstand src (cands s) (ballots s) (g_nd _ _ G)) in Hle; [lia|].
      intros i Hi. exact (proj1 (Hb i (Hsrc_in i Hi))). }
    split; [split|unfold crashed; rewrite F6; exact (eq_trans (f_equal (fun o => match o with Some _ => true | None => false end) Ecr) Hc)].
    + constructor.
      * rewrite F1, map_map. erewrite map_ext; [exact L1|]. intros c. destruct (existsb _ cids); reflexivity.
      * rewrite F2. exact L2.
      * rewrite F1, F2. intros c' Hc'. apply in_map_iff in Hc'. destruct Hc' as (c & <- & Hc1). change (existsb (Z.eqb (cid c)) cids) with (src (cid c)). destruct (src (cid c)) eqn:Es.
        -- left. cbn [cid cvote with_vote]. rewrite HV0. symmetry. apply (stand_nosel src); assumption.
        -- exact (L4 c Hc1 Es).
      * pose proof (g_total _ _ G). unfold Gregory.total in *. rewrite F4. lia.
      * rewrite F1, F3, Eq. intros c' Hc' Hp. apply in_map_iff in Hc'. destruct Hc' as (c & <- & Hc1). change (existsb (Z.eqb (cid c)) cids) with (src (cid c)) in *. destruct (src (cid c)) eqn:Es; [|exact (L5 c Hc1 Hp)].
        rewrite pend_with_vote in Hp. unfold is_pending, in_state in Hp. rewrite (HD1 c Hc1 Es) in Hp. discriminate.
      * rewrite F1. intros c' Hc' Hw. apply in_map_iff in Hc'. destruct Hc' as (c & <- & Hc1). change (existsb (Z.eqb (cid c)) cids) with (src (cid c)) in *. destruct (src (cid c)) eqn:Es; [|exact (L6 c Hc1 Hw)].
        cbn [cst with_vote] in Hw. rewrite (HD1 c Hc1 Es) in Hw. discriminate.
      * rewrite F3, Eq. exact (g_quota _ _ G).
      * rewrite F1. intros c' Hc'. apply in_map_iff in Hc'. destruct Hc' as (c & <- & Hc1). change (existsb (Z.eqb (cid c)) cids) with (src (cid c)). destruct (src (cid c)); [cbn [cvote with_vote]; lia|exact (L7 c Hc1)].
    + rewrite F5, Ea. exact H.
Qed.


(* ---------- batches chosen in one statement group, defeated in the next, transferred in a third ---------- *)
Definition BatchIn (s : est) : Prop := forall i, In i (lv_batch s) -> In i (map (@cid A) (cands s)).
Definition BatchD (s : est) : Prop := forall i, In i (lv_batch s) -> In i (map (@cid A) (cands s)) /\ Sat s i isD.

Lemma lvb_log t m (s : est) : lv_batch (log_action A cfg t m s) = lv_batch s.
Proof. unfold log_action. destruct (is_log t); [reflexivity|]. destruct (is_round t); reflexivity. Qed.
Lemma lvb_defeat i m (s : est) : lv_batch (defeat A cfg i m s) = lv_batch s.
Proof. unfold defeat. destruct (find_cand A (cands s) i); [rewrite lvb_log|]; reflexivity. Qed.
Lemma lvb_fold_defeat m (l : list cand) : forall s : est, lv_batch (fold_left (fun s c => defeat A cfg (cid c) m s) l s) = lv_batch s.
Proof. induction l as [|c l IH]; intros s; cbn [fold_left]; [reflexivity|]. rewrite IH. apply lvb_defeat. Qed.

Lemma batchin_of_hopefuls (s s' : est) (l : list cand) : cands s' = cands s -> lv_batch s' = map (@cid A) l ->
  Forall (fun c => In c (hopefuls A s)) l -> BatchIn s'.
Proof.
  intros Hc Hb Hl i Hi. rewrite Hb in Hi. apply in_map_iff in Hi. destruct Hi as (c & <- & Hcl). rewrite Forall_forall in Hl.
  rewrite Hc. apply in_map. specialize (Hl c Hcl). unfold hopefuls in Hl. apply filter_In in Hl. exact (proj1 Hl).
Qed.

Lemma cands_of_has (s : est) cids i : In i cids -> In i (map (@cid A) (cands s)) -> exists c, In c (cands_of A s cids) /\ cid c = i.
Proof.
  intros Hi Hin. destruct (find_cand_in A _ _ Hin) as [c Ef]. exists c. split; [|exact (proj2 (find_cand_In _ _ _ Ef))].
  unfold cands_of. apply in_flat_map. exists i. split; [exact Hi|]. rewrite Ef. left; reflexivity.
Qed.

Lemma gh_defeat_batch_order msg (s : est) : GH s -> BatchIn s ->
  let s' := defeat_batch_in_ballot_order A cfg msg s in
  GH s' /\ crashed s' = crashed s /\ BatchD s'.
Proof.
  intros H HB. unfold defeat_batch_in_ballot_order. cbv zeta.
  assert (Hl: forall c, In c (by_order A (cands_of A s (lv_batch s))) -> In (cid c) (map (@cid A) (cands s))).
  { intros c Hc. unfold by_order in Hc. apply py_sorted_in in Hc. apply in_map. exact (proj1 (cands_of_in A s _ c Hc)). }
  destruct (fold_defeat_facts msg _ s H Hl) as (H1 & Ecr & Eid & _ & HD). cbv zeta in *.
  split; [exact H1|]. split; [exact Ecr|]. intros i Hi. rewrite lvb_fold_defeat in Hi. split; [rewrite Eid; exact (HB i Hi)|].
  destruct (cands_of_has s (lv_batch s) i Hi (HB i Hi)) as (c & Hc & Ec). rewrite <- Ec. apply HD. unfold by_order. apply py_sorted_in. exact Hc.
Qed.

Lemma gh_transfer_batch keep (s : est) :
  (forall c x, keep (with_vote c x) = keep c) -> (forall c, keep c = true -> cont c = true) -> (forall c, keep c = true -> cst c <> Defeated) ->
  GH s -> crashed s = false -> BatchD s ->
  GH (transfer_batch A cfg keep s) /\ crashed (transfer_batch A cfg keep s) = false.
Proof.
  intros Hkv Hkc Hkd H Hc HB. unfold transfer_batch. cbv zeta.
  destruct (gh_batch_core keep (lv_batch s) s Hkv Hkc Hkd H Hc HB) as [H2 Hc2].
  split; [apply gh_log; exact H2|rewrite crashed_log; exact Hc2].
Qed.


(* ---------- wigm-prf / wigm-prf-batch ---------- *)
Notation T3 := (triple est (@crashed A)).
Definition GNI (s : est) : Prop := GN s /\ BatchIn s.
Definition GND (s : est) : Prop := GN s /\ BatchD s.

Lemma t_do_gn f (P' : est -> Prop) (Q' : est -> Prop) :
  (forall s, P' s -> GN s) -> (forall s, P' s -> crashed (f s) = false -> GH (f s) /\ Q' (f s)) ->
  T3 P' (Do f) (fun s => GN s /\ Q' s) GN GN.
Proof. intros H1 H2. apply t_do_nc. intros s HP Hc. destruct (H2 s HP Hc) as [G Q]. split; [split; assumption|exact Q]. Qed.

Lemma is_hopeful_props : (forall (c : cand) x, is_hopeful A (with_vote c x) = is_hopeful A c) /\
  (forall c : cand, is_hopeful A c = true -> cont c = true) /\ (forall c : cand, is_hopeful A c = true -> cst c <> Defeated).
Proof.
  split; [reflexivity|]. split; [apply hopeful_cont|]. intros c H E. unfold is_hopeful, in_state in H. rewrite E in H. discriminate.
Qed.

Lemma prf_batch_branch msg :
  T3 GNI (Do (defeat_batch_in_ballot_order A cfg msg) ;;
          Ite (fun s => nlen (hopefuls A s) <=? seats_left A cfg s) Break Skip ;;
          Do (transfer_batch A cfg (is_hopeful A)) ;; Continue) GN GN GN.
Proof.
  eapply t_seq with (M := GND); [|eapply t_seq with (M := GND); [|eapply t_seq with (M := GN)]].
  - apply (t_do_gn _ GNI BatchD); [intros s [H _]; exact H|]. intros s [[H Hc] HB] Hcf.
    destruct (gh_defeat_batch_order msg s H HB) as (H1 & _ & HD). split; assumption.
  - apply t_ite; [apply t_break'; intros s [[H _] _]; exact H|apply t_skip'; intros s [H _]; exact H].
  - apply t_do_nc. intros s [[H Hc] HD] Hcf. destruct is_hopeful_props as (K1 & K2 & K3).
    exact (gh_transfer_batch (is_hopeful A) s K1 K2 K3 H Hc HD).
  - apply t_continue'. auto.
Qed.

Lemma prf_find_batch_triple : T3 GN (Do (prf_find_batch A cfg)) GNI GN GN.
Proof.
  apply t_do_nc. intros s [H Hc] _. split; [split; [apply (gh_same s); try reflexivity; exact H|exact Hc]|].
  unfold prf_find_batch. destruct (cf_batch cfg); [|intros i []].
  apply (batchin_of_hopefuls s _ (batch_defeat A cfg (pending_surplus A s) s)); [reflexivity|reflexivity|apply batch_defeat_hopeful].
Qed.

Theorem wigm_prf_triple : T3 Pre (wigm_prf A cfg) GN GN GN.
Proof.
  unfold wigm_prf. eapply t_seq; [apply (start_triple _ _ _ (fun _ => True)); apply droop_quota_eps_nonneg|].
  eapply t_seq; [|apply pnc_triple; cbn [pnc]; pnc_split; intros s H _ _; [apply gh_unpend_all|apply gh_elect_or_defeat]; exact H].
  eapply t_post; [|apply (t_while est (@crashed A) GN GN)]; [intros s [Hs|[Hs _]]; exact Hs|].
  eapply t_pre; [intros s [Hs _]; exact Hs|].
  eapply t_seq; [apply pnc_triple; cbn [pnc]; intros s H _ _; apply gh_new_round; exact H|].
  eapply t_seq; [apply pnc_triple; cbn [pnc]; intros s H _ _; apply gh_elect_with_quota; [intros c; apply ge_quota_le|exact H]|].
  eapply t_seq; [apply prf_find_batch_triple|].
  eapply t_seq.
  - apply t_ite; [eapply t_pre; [|apply prf_batch_branch]; intros s [Hs _]; exact Hs|apply t_skip'; intros s [[Hs _] _]; exact Hs].
  - apply pnc_triple. cbn [pnc]. pnc_split.
    + intros s H Hc Hcf. apply gh_transfer_high; try assumption; [apply bt_simple_logs|apply bt_simple_ok|apply rew_wigm_ok].
    + intros s H Hc Hcf. apply gh_defeat_low; try assumption; [apply bt_simple_logs|apply bt_simple_ok].
Qed.


(* ---------- scotland ---------- *)
Lemma gh_fold_elect_np m (l : list cand) (s : est) : GH s -> GH (fold_left (fun s c => elect A cfg (cid c) m false s) l s).
Proof. intros H. apply gh_fold; [|exact H]. intros; apply gh_elect_np; assumption. Qed.
Lemma gh_fold_defeat m (l : list cand) (s : est) : GH s -> GH (fold_left (fun s c => defeat A cfg (cid c) m s) l s).
Proof. intros H. apply gh_fold; [|exact H]. intros; apply gh_defeat; assumption. Qed.

Theorem scotland_triple : T3 Pre (scotland A cfg) GN GN GN.
Proof.
  unfold scotland. eapply t_seq; [apply (start_triple _ _ _ (fun _ => True)); intros q E; inversion E; subst; apply integer_quota_nonneg|].
  apply pnc_triple. cbn [pnc]. pnc_split.
  - intros s H _ _. apply gh_elect_with_quota; [intros c; apply ge_quota_le|exact H].
  - intros s H _ _. apply gh_new_round; exact H.
  - intros s H _ _. apply (gh_same s); try reflexivity; exact H.
  - intros s H Hc Hcf. apply gh_transfer_high; try assumption; [apply scot_bt_logs|apply scot_bt_ok|apply rew_scot_ok].
  - intros s H Hc Hcf. apply gh_defeat_low; try assumption; [apply scot_bt_logs|apply scot_bt_ok].
  - intros s H _ _. apply gh_unpend_all; exact H.
  - intros s H _ _. apply gh_fold_elect_np; exact H.
  - intros s H _ _. apply gh_fold_defeat; exact H.
Qed.


(* ---------- mpls ---------- *)
Lemma elect_found i m p (s : est) : In i (map (@cid A) (cands s)) ->
  cands (elect A cfg i m p s) = upd_cand A i (fun c => with_st c Elected (Some p)) (cands s) /\
  ballots (elect A cfg i m p s) = ballots s /\ quota (elect A cfg i m p s) = quota s /\ crashed (elect A cfg i m p s) = crashed s.
Proof.
  intros Hi. split; [apply cands_elect; exact Hi|]. split; [apply ballots_elect|]. split; [apply quota_elect|].
  unfold elect. destruct (find_cand_in A _ _ Hi) as [c ->]. rewrite crashed_log. reflexivity.
Qed.

Lemma mpls_keep_props : (forall (c : cand) x, mpls_keep A (with_vote c x) = mpls_keep A c) /\
  (forall c : cand, mpls_keep A c = true -> cont c = true) /\ (forall c : cand, mpls_keep A c = true -> cst c <> Defeated).
Proof.
  split; [reflexivity|]. split; [intros c H; exact H|]. intros c H E. unfold mpls_keep, is_hopeful, is_pending, in_state in H. rewrite E in H. discriminate.
Qed.

Lemma gh_mpls_elect_high (s : est) : GH s -> crashed s = false -> crashed (mpls_elect_high A cfg s) = false -> GH (mpls_elect_high A cfg s).
Proof.
  intros H Hc Hcf. unfold mpls_elect_high in *. cbv zeta in *.
  destruct (max_vote A (hopeful_with_quota A false s)) as [hv|]; [|rewrite sticky_set_crash in Hcf; discriminate].
  set (highs := filter (fun c => eqv A (cvote c) hv) (hopeful_with_quota A false s)) in *.
  destruct (bt_frame (bt_simple A cfg "largest surplus") highs s (bt_simple_logs _) H) as (H1 & Ec1 & Eb1 & Eq1 & Ecr1).
  destruct (bt_simple_ok A cfg "largest surplus" highs s) as (_ & _ & Hmem).
  destruct (bt_simple A cfg "largest surplus" highs s) as [s1 [h|]] eqn:Ebt; cbn [fst snd] in *; [|exact H1].
  destruct (Hmem h eq_refl) as (c & Hch & Hid). unfold highs in Hch. apply filter_In in Hch. destruct Hch as [Hhq _].
  assert (Hq: R (quota s) <= R (cvote c)).
  { unfold hopeful_with_quota in Hhq. apply filter_In in Hhq. destruct Hhq as [_ Hx]. apply andb_prop in Hx. apply ge_quota_le. exact (proj2 Hx). }
  pose proof (hwq_in A s false c Hhq) as Hhop. unfold hopefuls in Hhop. apply filter_In in Hhop. destruct Hhop as [Hcin Hh].
  pose proof (g_nd _ _ (proj1 H)) as Hnd.
  assert (Hi1: In h (map (@cid A) (cands s1))) by (rewrite Ec1, <- Hid; apply in_map; exact Hcin).
  assert (Hc1: crashed s1 = false) by (rewrite Ecr1; [exact Hc|discriminate]).
  destruct (elect_found h "Elect" false s1 Hi1) as (Ec2 & Eb2 & Eq2 & Ecr2).
  set (s2 := elect A cfg h "Elect" false s1) in *.
  assert (H2: GH s2) by (apply gh_elect_np; exact H1).
  assert (Hc2: crashed s2 = false) by (rewrite Ecr2; exact Hc1). rewrite Hc2 in *.
  set (ch := with_st c Elected (Some false)).
  assert (Hchin: In ch (cands s2)).
  { rewrite Ec2, Ec1. unfold upd_cand. apply in_map_iff. exists c. split; [|exact Hcin]. rewrite Hid, Z.eqb_refl. reflexivity. }
  destruct mpls_keep_props as (K1 & K2 & K3).
  pose proof (gh_surplus_core (mpls_keep A) (rew_wigm A) h s2 ch rew_wigm_ok K1 H2 Hc2) as Hcore. cbv zeta in Hcore.
  match type of Hcore with _ -> _ -> _ -> _ -> _ -> _ -> _ -> crashed ?x = false -> _ => set (s3 := x) in * end.
  destruct (crashed s3) eqn:Hc3; [cbv iota in Hcf; congruence|].
  destruct Hcore as [H4 Hc4]; try reflexivity; try assumption.
  - intros c' Hc' Hk. rewrite Ec2 in Hc'. destruct (in_upd_cand' _ _ _ _ Hc') as (c0 & Hc0 & [[Ei ->]|[Ei ->]]).
    + unfold mpls_keep, is_hopeful, is_pending, in_state in Hk. cbn in Hk. discriminate.
    + split; [exact (K2 _ Hk)|exact Ei].
  - discriminate.
  - rewrite Eq2, Eq1. exact Hq.
  - rewrite Eb2, Eb1. cbn [cvote ch with_st]. destruct (g_tally _ _ (proj1 H) c Hcin) as [El|[Er _]]; [rewrite <- Hid; exact El|].
    rewrite (hopeful_cont c Hh) in Er. discriminate.
  - apply gh_log. apply (gh_same (set_vote A h (quota s3) s3)); try reflexivity. exact H4.
Qed.

Lemma gh_mpls_defeat_low (s : est) : GH s -> crashed s = false -> crashed (mpls_defeat_low A cfg s) = false -> GH (mpls_defeat_low A cfg s).
Proof.
  intros H Hc Hcf. unfold mpls_defeat_low in *.
  destruct (low_candidates A s) as [[lv lows]|] eqn:El; [|rewrite sticky_set_crash in Hcf; discriminate].
  destruct (bt_frame (bt_simple A cfg "defeat low candidate") lows s (bt_simple_logs _) H) as (H1 & Ec1 & Eb1 & Eq1 & Ecr1).
  destruct (bt_simple_ok A cfg "defeat low candidate" lows s) as (_ & _ & Hmem).
  destruct (bt_simple A cfg "defeat low candidate" lows s) as [s1 [l|]] eqn:Ebt; cbn [fst snd] in *; [|exact H1].
  destruct (Hmem l eq_refl) as (c & Hcl & Hid). destruct (low_in_hop s lv lows c El Hcl) as [Hcin Hh].
  assert (Hi1: In l (map (@cid A) (cands s1))) by (rewrite Ec1, <- Hid; apply in_map; exact Hcin).
  assert (Hc1: crashed s1 = false) by (rewrite Ecr1; [exact Hc|discriminate]).
  destruct (defeat_found l "Defeat low candidate" s1 Hi1) as [Ec2 Ecr2].
  set (s2 := defeat A cfg l "Defeat low candidate" s1) in *. cbv zeta in *. rewrite Ecr2, Hc1 in *.
  assert (H2: GH s2) by (apply gh_defeat; exact H1).
  destruct (seats_left A cfg s2 <? nlen (hopefuls A s2)); [|exact H2].
  set (cl := with_st c Defeated (cpend c)).
  assert (Hclin: In cl (cands s2)).
  { rewrite Ec2, Ec1. unfold upd_cand. apply in_map_iff. exists c. split; [|exact Hcin]. rewrite Hid, Z.eqb_refl. reflexivity. }
  destruct mpls_keep_props as (K1 & K2 & K3).
  destruct (gh_excl_one (mpls_keep A) l s2 cl K1 H2 Ecr2) as [H3 Hc3]; try assumption.
  - intros c' Hc' Hk. split; [exact (K2 _ Hk)|]. intros E. rewrite Ec2 in Hc'. destruct (in_upd_cand' _ _ _ _ Hc') as (c0 & Hc0 & [[Ei ->]|[Ei ->]]); [|congruence].
    unfold mpls_keep, is_hopeful, is_pending, in_state in Hk. cbn in Hk. discriminate.
  - discriminate.
  - reflexivity.
  - apply gh_log. match goal with |- GH (set_surplus ?x _) => apply (gh_same x); try reflexivity end. exact H3.
Qed.


Lemma fold_defeat_facts' (mf : cand -> string) (l : list cand) : forall s, GH s ->
  (forall c, In c l -> In (cid c) (map (@cid A) (cands s))) ->
  let s' := fold_left (fun s c => defeat A cfg (cid c) (mf c) s) l s in
  GH s' /\ crashed s' = crashed s /\ map (@cid A) (cands s') = map (@cid A) (cands s) /\ lv_batch s' = lv_batch s /\
  (forall j, Sat s j isD -> Sat s' j isD) /\ (forall c, In c l -> Sat s' (cid c) isD).
Proof.
  induction l as [|c0 l IH]; intros s H Hl; cbn [fold_left].
  - split; [exact H|]. split; [reflexivity|]. split; [reflexivity|]. split; [reflexivity|]. split; [auto|intros c []].
  - pose proof (Hl c0 (or_introl eq_refl)) as Hi0. destruct (defeat_found (cid c0) (mf c0) s Hi0) as [_ Ecr].
    destruct (IH (defeat A cfg (cid c0) (mf c0) s) (gh_defeat _ _ _ H)) as (H' & Ecr' & Eid' & Elb & Hkeep & HD).
    { intros c Hc. rewrite ids_defeat. apply Hl. right; exact Hc. }
    cbv zeta in *. split; [exact H'|]. split; [rewrite Ecr'; exact Ecr|]. split; [rewrite Eid'; apply ids_defeat|]. split; [rewrite Elb; apply lvb_defeat|]. split.
    + intros j HS. apply Hkeep. apply sat_defeat_keepD. exact HS.
    + intros c [<-|Hc]; [apply Hkeep; apply sat_defeat_D; exact Hi0|apply HD; exact Hc].
Qed.

Lemma mpls_find_defeats_in (s : est) : GH s -> crashed (mpls_find_defeats A cfg s) = false ->
  GH (mpls_find_defeats A cfg s) /\ BatchIn (mpls_find_defeats A cfg s) /\ crashed s = false.
Proof.
  intros H Hcf. unfold mpls_find_defeats in *. cbv zeta in *.
  match goal with |- context[match ?u with Ok _ => _ | Raise _ => _ end] => destruct u as [uv|e] end; [|rewrite sticky_set_crash in Hcf; discriminate].
  split; [apply (gh_same s); try reflexivity; exact H|]. split; [|exact Hcf].
  match goal with |- BatchIn (set_batch s (map _ ?l)) => apply (batchin_of_hopefuls s _ l); [reflexivity|reflexivity|] end.
  apply Forall_app. split.
  - destruct (round s =? 2); [|constructor]. apply Forall_forall. intros c Hc. apply filter_In in Hc. exact (proj1 Hc).
  - apply Forall_forall. intros c Hc. apply filter_In in Hc. destruct Hc as [Hc _].
    match type of Hc with In c (find_certain_losers A cfg ?sp s) => pose proof (certain_losers_hopeful A cfg sp s) as F end.
    rewrite Forall_forall in F. exact (F c Hc).
Qed.

Lemma gh_mpls_defeat_batch (s : est) : GH s -> crashed s = false -> BatchIn s ->
  GH (mpls_defeat_batch A cfg s) /\ crashed (mpls_defeat_batch A cfg s) = false.
Proof.
  intros H Hc HB. unfold mpls_defeat_batch. cbv zeta.
  assert (Hl: forall c, In c (cands_of A s (lv_batch s)) -> In (cid c) (map (@cid A) (cands s))).
  { intros c Hcin. apply in_map. exact (proj1 (cands_of_in A s _ c Hcin)). }
  destruct (fold_defeat_facts' (fun c => if cundecl c then "Defeat undeclared write-in"%string else "Defeat certain loser"%string) _ s H Hl)
    as (H1 & Ecr & Eid & Elb & _ & HD). cbv zeta in *.
  match goal with |- context[for_ballots A _ _ ?x] => set (s1 := x) in * end.
  destruct mpls_keep_props as (K1 & K2 & K3).
  destruct (gh_batch_core (mpls_keep A) (lv_batch s) s1 K1 K2 K3 H1) as [H2 Hc2].
  - rewrite Ecr; exact Hc.
  - intros i Hi. split; [rewrite Eid; exact (HB i Hi)|]. destruct (cands_of_has s (lv_batch s) i Hi (HB i Hi)) as (c & Hcin & Ec). rewrite <- Ec. apply HD. exact Hcin.
  - cbv zeta in *. split; [apply gh_log|rewrite crashed_log; exact Hc2].
    match goal with |- GH (set_surplus ?x _) => apply (gh_same x); try reflexivity end. exact H2.
Qed.

Theorem mpls_triple : T3 Pre (mpls A cfg) GN GN GN.
Proof.
  unfold mpls. eapply t_seq with (M := GN).
  - apply t_do_nc. intros s P Hcf. unfold new_round in Hcf. rewrite crashed_log in Hcf.
    split; [|unfold new_round; rewrite crashed_log; exact Hcf]. apply gh_new_round. apply gh_start; [exact P|apply integer_quota_nonneg|exact Hcf].
  - eapply t_seq with (M := GN).
    + eapply t_post; [|apply (t_while est (@crashed A) GN GN)]; [intros s [Hs|[Hs _]]; exact Hs|].
      eapply t_pre; [intros s [Hs _]; exact Hs|].
      eapply t_seq with (M := GN); [apply pnc_triple; cbn [pnc]; intros s H _ _; apply gh_log; apply (gh_same s); try reflexivity; exact H|].
      eapply t_seq with (M := GN); [apply pnc_triple; cbn [pnc]; pnc_split; intros s H _ _; apply gh_fold_elect_np; exact H|].
      eapply t_seq with (M := GN); [apply pnc_triple; cbn [pnc]; intros s H _ _; apply gh_new_round; exact H|].
      eapply t_seq with (M := GNI).
      { apply t_do_nc. intros s [H Hc] Hcf. destruct (mpls_find_defeats_in s H Hcf) as (H1 & HB & _). split; [split; assumption|exact HB]. }
      eapply t_seq with (M := GN).
      { apply t_ite; [|apply t_skip'; intros s [[Hs _] _]; exact Hs].
        eapply t_seq with (M := GN); [|apply t_continue'; auto].
        apply t_do_nc. intros s [[[H Hc] HB] _] _. exact (gh_mpls_defeat_batch s H Hc HB). }
      apply pnc_triple. cbn [pnc]. pnc_split.
      * intros s H Hc Hcf. apply gh_mpls_elect_high; assumption.
      * intros s H Hc Hcf. apply gh_mpls_defeat_low; assumption.
    + apply pnc_triple. cbn [pnc]. pnc_split; intros s H _ _; [apply gh_fold_elect_np|apply gh_fold_defeat]; exact H.
Qed.


(* ---------- cfer, cfer-batch ---------- *)
Lemma lvb_unpend i m (s : est) : lv_batch (unpend A cfg i m s) = lv_batch s.
Proof.
  unfold unpend. destruct (find_cand A (cands s) i) as [c|]; [|reflexivity]. destruct (is_pending A c); [|reflexivity].
  destruct m; [rewrite lvb_log|]; reflexivity.
Qed.

Definition cfer_step (s : est) (c : cand) : est :=
  if crashed s then s else
  let h := cid c in
  let s2 := unpend A cfg h (Some "Transfer surplus"%string) s in
  if crashed s2 then s2 else
  let surp := sub A (cvote_of A s2 h) (quota s2) in
  let s3 := for_ballots A (reweigh_transfer A (is_hopeful A) (rew_wigm A) h surp) (top_is A h) s2 in
  if crashed s3 then s3 else
  let s4 := set_vote A h (quota s3) s3 in
  log_action A cfg TTransfer ("Surplus transferred: " ++ cname_of A s4 h ++ " (" ++ str A surp ++ ")")%string s4.

Lemma gh_cfer_step (s : est) c : GH s -> crashed s = false -> In c (cands s) -> is_pending A c = true ->
  crashed (cfer_step s c) = false ->
  GH (cfer_step s c) /\ lv_batch (cfer_step s c) = lv_batch s /\
  (forall c', In c' (cands s) -> cid c' <> cid c -> is_hopeful A c' = false -> In c' (cands (cfer_step s c))).
Proof.
  intros H Hc Hcin Hpend Hcf. unfold cfer_step in *. rewrite Hc in *. cbv zeta in *.
  pose proof (g_nd _ _ (proj1 H)) as Hnd.
  destruct (unpend_pending (cid c) (Some "Transfer surplus"%string) s c Hnd Hcin eq_refl Hpend) as (Ec2 & Eb2 & Eq2 & Ecr2).
  set (s2 := unpend A cfg (cid c) (Some "Transfer surplus"%string) s) in *.
  assert (H2: GH s2) by (apply gh_unpend; exact H).
  assert (Hc2: crashed s2 = false) by (rewrite Ecr2; exact Hc). rewrite Hc2 in *.
  set (ch := with_st c Elected (Some false)).
  assert (Hchin: In ch (cands s2)).
  { rewrite Ec2. unfold upd_cand. apply in_map_iff. exists c. split; [|exact Hcin]. rewrite Z.eqb_refl. reflexivity. }
  pose proof (gh_surplus_core (is_hopeful A) (rew_wigm A) (cid c) s2 ch rew_wigm_ok (fun _ _ => eq_refl) H2 Hc2) as Hcore. cbv zeta in Hcore.
  match type of Hcore with _ -> _ -> _ -> _ -> _ -> _ -> _ -> crashed ?x = false -> _ => set (s3 := x) in * end.
  destruct (crashed s3) eqn:Hc3; [cbv iota in Hcf; congruence|].
  destruct Hcore as (H4 & Hc4 & Hfr & Elb); try reflexivity; try assumption.
  - intros c' Hc' Hk. rewrite Ec2 in Hc'. destruct (in_upd_cand' _ _ _ _ Hc') as (c0 & Hc0 & [[Ei ->]|[Ei ->]]).
    + apply hopeful_not_elected in Hk. discriminate.
    + split; [apply hopeful_cont; exact Hk|exact Ei].
  - discriminate.
  - rewrite Eq2. exact (g_pend _ _ (proj1 H) c Hcin Hpend).
  - rewrite Eb2. cbn [cvote ch with_st]. destruct (g_tally _ _ (proj1 H) c Hcin) as [El|[Er _]]; [exact El|].
    rewrite (pending_cont c Hpend) in Er. discriminate.
  - split; [apply gh_log; exact H4|]. split; [rewrite lvb_log, Elb; apply lvb_unpend|].
    intros c' Hc' Hne Hh. rewrite cands_log. apply Hfr; [|exact Hne|exact Hh]. rewrite Ec2. apply in_other_upd; assumption.
Qed.

Lemma cfer_step_crashed (l : list cand) : forall s : est, crashed s = true -> fold_left cfer_step l s = s.
Proof. induction l as [|c l IH]; intros s H; cbn [fold_left]; [reflexivity|]. unfold cfer_step at 2. rewrite H. apply IH. exact H. Qed.

Lemma gh_cfer_fold (l : list cand) : forall s, GH s -> crashed s = false -> NoDup (map (@cid A) l) ->
  (forall c, In c l -> In c (cands s) /\ is_pending A c = true) ->
  crashed (fold_left cfer_step l s) = false ->
  GH (fold_left cfer_step l s) /\ lv_batch (fold_left cfer_step l s) = lv_batch s.
Proof.
  induction l as [|c0 l IH]; intros s H Hc Hnd Hl Hcf; cbn [fold_left] in *; [split; [exact H|reflexivity]|].
  inversion Hnd as [|? ? Hnotin Hnd']; subst.
  assert (Hc1: crashed (cfer_step s c0) = false).
  { destruct (crashed (cfer_step s c0)) eqn:C; [|reflexivity]. rewrite (cfer_step_crashed l _ C) in Hcf. congruence. }
  destruct (Hl c0 (or_introl eq_refl)) as [Hin0 Hp0].
  destruct (gh_cfer_step s c0 H Hc Hin0 Hp0 Hc1) as (H1 & Elb & Hfr).
  destruct (IH (cfer_step s c0) H1 Hc1 Hnd') as [H' Elb']; [|exact Hcf|split; [exact H'|rewrite Elb'; exact Elb]].
  intros c Hcl. destruct (Hl c (or_intror Hcl)) as [Hin Hp]. split; [|exact Hp]. apply Hfr; [exact Hin| |].
  - intros E. apply Hnotin. rewrite <- E. apply in_map. exact Hcl.
  - unfold is_hopeful, in_state. unfold is_pending, in_state in Hp. destruct (cst c); cbn in *; congruence.
Qed.

Lemma gh_cfer_transfer_all (s : est) : GH s -> crashed s = false -> crashed (cfer_transfer_all_pending A cfg s) = false ->
  GH (cfer_transfer_all_pending A cfg s) /\ lv_batch (cfer_transfer_all_pending A cfg s) = lv_batch s.
Proof.
  intros H Hc Hcf. unfold cfer_transfer_all_pending in *.
  change (fold_left _ (pendings A s) s) with (fold_left cfer_step (pendings A s) s) in *.
  apply gh_cfer_fold; try assumption.
  - unfold pendings. apply nodup_filter_map. exact (g_nd _ _ (proj1 H)).
  - intros c Hcp. exact (pending_in s c Hcp).
Qed.


Lemma sat_same_cands (s s' : est) i P : cands s' = cands s -> Sat s i P -> Sat s' i P.
Proof. intros E HS c Hc Hi. rewrite E in Hc. exact (HS c Hc Hi). Qed.

Lemma bt_simple_none reason tied (s : est) : snd (bt_simple A cfg reason tied s) = None -> crashed (fst (bt_simple A cfg reason tied s)) = true.
Proof.
  unfold bt_simple, break_tie. destruct tied as [|c [|c2 t]]; cbn [fst snd]; [intros _; apply sticky_set_crash|discriminate|].
  destruct (by_tie A (c :: c2 :: t)); cbn [fst snd]; [intros _; apply sticky_set_crash|discriminate].
Qed.

Lemma gh_cfer_defeat_low (s : est) : GH s -> crashed s = false -> crashed (cfer_defeat_low A cfg s) = false ->
  GH (cfer_defeat_low A cfg s) /\ BatchD (cfer_defeat_low A cfg s).
Proof.
  intros H Hc Hcf. unfold cfer_defeat_low in *.
  destruct (low_candidates A s) as [[lv lows]|] eqn:El; [|rewrite sticky_set_crash in Hcf; discriminate].
  destruct (bt_frame (bt_simple A cfg "defeat") lows s (bt_simple_logs _) H) as (H1 & Ec1 & Eb1 & Eq1 & Ecr1).
  destruct (bt_simple_ok A cfg "defeat" lows s) as (_ & _ & Hmem).
  pose proof (bt_simple_none "defeat" lows s) as Hnone.
  destruct (bt_simple A cfg "defeat" lows s) as [s1 [l|]] eqn:Ebt; cbn [fst snd] in *.
  - destruct (Hmem l eq_refl) as (c & Hcl & Hid). destruct (low_in_hop s lv lows c El Hcl) as [Hcin Hh].
    assert (Hi1: In l (map (@cid A) (cands s1))) by (rewrite Ec1, <- Hid; apply in_map; exact Hcin).
    split; [apply (gh_same (defeat A cfg l "Defeat" s1)); try reflexivity; apply gh_defeat; exact H1|].
    intros i Hi. cbn [lv_batch set_batch] in Hi. destruct Hi as [<-|[]]. cbn [cands set_batch]. split; [rewrite ids_defeat; exact Hi1|].
    apply (sat_same_cands (defeat A cfg l "Defeat" s1)); [reflexivity|apply sat_defeat_D; exact Hi1].
  - rewrite (Hnone eq_refl) in Hcf. discriminate.
Qed.

Lemma cfer_find_batch_triple : T3 GN (Do (cfer_find_batch A cfg)) GNI GN GN.
Proof.
  apply t_do_nc. intros s [H Hc] _. split; [split; [apply (gh_same s); try reflexivity; exact H|exact Hc]|].
  unfold cfer_find_batch. destruct (cf_batch cfg); [|intros i []].
  apply (batchin_of_hopefuls s _ (cfer_batch A cfg s)); [reflexivity|reflexivity|apply cfer_batch_hopeful].
Qed.

Lemma nonempty_false {X} (l : list X) : nonempty l = false -> l = [].
Proof. destruct l; [reflexivity|discriminate]. Qed.

Theorem cfer_triple : T3 Pre (cfer A cfg) GN GN GN.
Proof.
  unfold cfer. eapply t_seq; [apply (start_triple _ _ _ (fun _ => True)); apply droop_quota_eps_nonneg|].
  eapply t_post; [|apply (t_while est (@crashed A) GN GN)]; [intros s [Hs|[Hs _]]; exact Hs|].
  eapply t_pre; [intros s [Hs _]; exact Hs|].
  eapply t_seq with (M := GN); [apply pnc_triple; cbn [pnc]; intros s H _ _; apply gh_new_round; exact H|].
  eapply t_seq with (M := GN); [apply pnc_triple; cbn [pnc]; pnc_split; intros s H _ _; apply gh_fold_elect_np; exact H|].
  eapply t_seq with (M := GN); [apply pnc_triple; cbn [pnc]; intros s H _ _; apply gh_elect_with_quota; [intros c; apply ge_quota_le|exact H]|].
  eapply t_seq with (M := GN); [apply pnc_triple; cbn [pnc]; pnc_split; intros s H _ _; [apply gh_unpend_all|apply gh_fold_defeat]; exact H|].
  eapply t_seq with (M := GNI); [apply cfer_find_batch_triple|].
  eapply t_seq with (M := GND).
  - apply t_ite.
    + apply t_do_nc. intros s [[[H Hc] HB] _] _. destruct (gh_defeat_batch_order "Defeat batch" s H HB) as (H1 & Ecr & HD).
      split; [split; [exact H1|rewrite Ecr; exact Hc]|exact HD].
    + apply t_ite.
      * apply t_do_nc. intros s [[[[H Hc] HB] Hg] _] Hcf. destruct (gh_cfer_transfer_all s H Hc Hcf) as [H1 Elb].
        split; [split; assumption|]. intros i Hi. rewrite Elb, (nonempty_false _ Hg) in Hi. destruct Hi.
      * apply t_do_nc. intros s [[[[H Hc] HB] Hg] _] Hcf. destruct (gh_cfer_defeat_low s H Hc Hcf) as [H1 HD]. split; [split; assumption|exact HD].
  - apply t_ite; [|apply t_skip'; intros s [[Hs _] _]; exact Hs].
    eapply t_seq with (M := GND).
    + apply t_ite; [|apply t_skip'; intros s [[Hs _] _]; exact Hs].
      eapply t_seq with (M := GN); [apply t_do_nc; intros s [[[[H Hc] _] _] _] Hcf; split; [apply gh_fold_elect_np; exact H|exact Hcf]|].
      eapply t_seq with (M := GN); [apply t_do_nc; intros s [H Hc] Hcf; split; [apply gh_fold_elect_np; exact H|exact Hcf]|].
      apply t_break'. auto.
    + apply t_do_nc. intros s [[H Hc] HD] _. destruct is_hopeful_props as (K1 & K2 & K3).
      exact (gh_transfer_batch (is_hopeful A) s K1 K2 K3 H Hc HD).
Qed.


(* ====================================================================================================
   Seats are never over-committed (C09): while every winner was elected on reaching the quota, at most
   [seats] candidates are elected; the epilogues only elect while seats remain.
   ==================================================================================================== *)
Definition ElQ (s : est) : Prop := forall c, In c (cands s) -> cst c = Elected -> R (quota s) <= R (cvote c).

(* tallies never decrease and statuses do not change through a ballot loop *)
Definition relmono (l0 l1 : list cand) : Prop :=
  Forall2 (fun c0 c1 : cand => cid c1 = cid c0 /\ cst c1 = cst c0 /\ cpend c1 = cpend c0 /\ R (cvote c0) <= R (cvote c1)) l0 l1.
Lemma relmono_refl l : relmono l l.
Proof. induction l; constructor; auto. repeat split; lia. Qed.
Lemma relmono_trans l0 l1 l2 : relmono l0 l1 -> relmono l1 l2 -> relmono l0 l2.
Proof.
  intros H. revert l2. induction H as [|a b l0 l1 (E1 & E2 & E3 & E4) _ IH]; intros l2 H2; inversion H2 as [|? c ? l2' (F1 & F2 & F3 & F4) H2']; subst; constructor; [|apply IH; exact H2'].
  repeat split; try congruence; lia.
Qed.
Lemma relmono_add (l : list cand) i x : 0 <= R x -> relmono l (upd_cand A i (fun c => with_vote c (add A (cvote c) x)) l).
Proof.
  intros Hx. unfold upd_cand. induction l as [|c l IH]; cbn [map]; constructor; [|exact IH].
  destruct (cid c =? i); cbn [cid cst cpend cvote with_vote]; repeat split; try lia. rewrite (r_add A S ZL). lia.
Qed.
Lemma relmono_in l0 l1 c1 : relmono l0 l1 -> In c1 l1 ->
  exists c0, In c0 l0 /\ cid c1 = cid c0 /\ cst c1 = cst c0 /\ cpend c1 = cpend c0 /\ R (cvote c0) <= R (cvote c1).
Proof.
  induction 1 as [|a b l0 l1 Hab _ IH]; intros Hin; [contradiction|]. destruct Hin as [<-|Hin].
  - exists a. split; [left; reflexivity|exact Hab].
  - destruct (IH Hin) as (c0 & H0 & Hr). exists c0. split; [right; exact H0|exact Hr].
Qed.

Lemma mono_transfer keep (s : est) b : wfb b ->
  relmono (cands s) (cands (fst (transfer A keep s b))) /\ R (exhausted s) <= R (exhausted (fst (transfer A keep s b))).
Proof.
  intros Hw. pose proof (transfer_spec keep s b) as H. cbv zeta in H. destruct H as (Ew & Em & _ & [(c & cc & _ & _ & _ & E)|(_ & E)]); rewrite E.
  - split; [|cbn; lia]. unfold add_vote, upd. cbn [cands set_cands]. apply relmono_add. apply (bval_nonneg (snd (transfer A keep s b))). exact (wfb_same b _ Ew Em Hw).
  - split; [apply relmono_refl|]. cbn [exhausted set_exhausted]. rewrite (r_add A S ZL).
    pose proof (bval_nonneg (snd (transfer A keep s b)) (wfb_same b _ Ew Em Hw)) as Hn. unfold bval in Hn. lia.
Qed.

Lemma mono_pb keep wsel sel (P' : est -> Prop) :
  (forall s b w, P' s -> wfb b -> wsel s b = Ok w -> 0 <= R w) ->
  (forall s s', P' s -> relmono (cands s) (cands s') -> P' s') ->
  forall bs s acc, Forall wfb bs -> P' s ->
    relmono (cands s) (cands (fst (process_ballots A (f_gen keep wsel) sel bs s acc))) /\
    R (exhausted s) <= R (exhausted (fst (process_ballots A (f_gen keep wsel) sel bs s acc))).
Proof.
  intros Hw HP. induction bs as [|b t IH]; intros s acc Hwf Hs; cbn [process_ballots]; [cbn [fst]; split; [apply relmono_refl|lia]|].
  inversion Hwf as [|? ? Hb Ht]; subst. destruct (crashed s); [cbn [fst]; split; [apply relmono_refl|lia]|]. destruct (sel b); [|apply IH; assumption].
  destruct (f_gen keep wsel s b) as [s1 b1] eqn:Ef.
  assert (H1: relmono (cands s) (cands s1) /\ R (exhausted s) <= R (exhausted s1)).
  { unfold f_gen in Ef. destruct (wsel s b) as [w|e] eqn:Ew; [|inversion Ef; subst; split; [apply relmono_refl|cbn; lia]].
    pose proof (mono_transfer keep s (with_bweight b w)) as Hm. rewrite Ef in Hm. apply Hm.
    split; [cbn [bweight with_bweight]; exact (Hw s b w Hs Hb Ew)|exact (proj2 Hb)]. }
  destruct H1 as [H1 H1e]. destruct (IH s1 (b1 :: acc) Ht (HP s s1 Hs H1)) as [H2 H2e].
  split; [eapply relmono_trans; [exact H1|exact H2]|lia].
Qed.



(* ---- ElQ through the micro-operations ---- *)
Lemma elq_same (s s' : est) : cands s' = cands s -> quota s' = quota s -> ElQ s -> ElQ s'.
Proof. intros E1 E2 H c Hc. rewrite E1 in Hc. rewrite E2. exact (H c Hc). Qed.
Lemma elq_log t m (s : est) : ElQ s -> ElQ (log_action A cfg t m s).
Proof. apply elq_same; [apply cands_log|apply quota_log]. Qed.
Lemma elq_new_round (s : est) : ElQ s -> ElQ (new_round A cfg s).
Proof. intros H. unfold new_round. apply elq_log. apply (elq_same s); [reflexivity|reflexivity|exact H]. Qed.

Lemma elq_upd_st (s : est) i st (pf : cand -> option bool) : ElQ s ->
  (st = Elected -> forall c, In c (cands s) -> cid c = i -> R (quota s) <= R (cvote c)) ->
  ElQ (upd A s i (fun c => with_st c st (pf c))).
Proof.
  intros H Hq c' Hc' He. unfold upd in *. cbn [cands quota set_cands] in *.
  destruct (in_upd_cand' _ _ _ _ Hc') as (c & Hc & [[Ei ->]|[Ei ->]]); [|exact (H c Hc He)].
  cbn [cst cvote with_st] in *. exact (Hq He c Hc Ei).
Qed.
Lemma elq_defeat i m (s : est) : ElQ s -> ElQ (defeat A cfg i m s).
Proof.
  intros H. unfold defeat. destruct (find_cand A (cands s) i); [|apply (elq_same s); [reflexivity|reflexivity|exact H]].
  apply elq_log. apply (elq_upd_st s i Defeated (@cpend A)); [exact H|discriminate].
Qed.
Lemma elq_unpend i m (s : est) : GH s -> ElQ s -> ElQ (unpend A cfg i m s).
Proof.
  intros G H. unfold unpend. destruct (find_cand A (cands s) i) as [c|] eqn:Ef; [|apply (elq_same s); [reflexivity|reflexivity|exact H]].
  destruct (is_pending A c) eqn:Ep; [|apply (elq_same s); [reflexivity|reflexivity|exact H]].
  assert (H1: ElQ (upd A s i (fun c0 => with_st c0 Elected (Some false)))).
  { apply (elq_upd_st s i Elected (fun _ => Some false)); [exact H|]. intros _ c0 Hc0 Ei. apply (H c0 Hc0).
    destruct (find_cand_In _ _ _ Ef) as [Hcin Hid].
    rewrite (nodup_cid_inj' (cands s) c c0 (g_nd _ _ (proj1 G)) Hcin Hc0 (eq_trans Ei (eq_sym Hid))).
    unfold is_pending, in_state in Ep. destruct (cst c); cbn in Ep; try discriminate. reflexivity. }
  destruct m; [apply elq_log|]; exact H1.
Qed.

Definition HQ (s : est) (i : Z) : Prop := forall c, In c (cands s) -> cid c = i -> R (quota s) <= R (cvote c).
Lemma elq_elect i m p (s : est) : ElQ s -> HQ s i -> ElQ (elect A cfg i m p s).
Proof.
  intros H Hq. unfold elect. destruct (find_cand A (cands s) i); [|apply (elq_same s); [reflexivity|reflexivity|exact H]].
  apply elq_log. apply (elq_upd_st s i Elected (fun _ => Some p)); [exact H|]. intros _ c1 Hc Ei. exact (Hq c1 Hc Ei).
Qed.
Lemma hq_elect i j m p (s : est) : HQ s j -> HQ (elect A cfg i m p s) j.
Proof.
  intros H c' Hc' Ej. rewrite quota_elect. unfold elect in Hc'. destruct (find_cand A (cands s) i); [|exact (H c' Hc' Ej)].
  rewrite cands_log in Hc'. unfold upd in Hc'. cbn [cands set_cands] in Hc'.
  destruct (in_upd_cand' _ _ _ _ Hc') as (c1 & Hc & [[Ei ->]|[Ei ->]]); [cbn [cid cvote with_st] in *|]; exact (H c1 Hc Ej).
Qed.

Lemma elq_fold_elect (msg : option string) (pend : est -> cand -> bool) (l : list cand) : forall s,
  ElQ s -> (forall c, In c l -> HQ s (cid c)) ->
  ElQ (fold_left (fun s c => match msg with
                             | None => elect_default A cfg (cid c) (pend s c) s
                             | Some m => elect A cfg (cid c) m (pend s c) s end) l s).
Proof.
  induction l as [|c0 l IH]; intros s H Hl; cbn [fold_left]; [exact H|].
  apply IH.
  - destruct msg; [|unfold elect_default]; apply elq_elect; [exact H|apply Hl; left; reflexivity|exact H|apply Hl; left; reflexivity].
  - intros c Hc. destruct msg; [|unfold elect_default]; apply hq_elect; apply Hl; right; exact Hc.
Qed.

Lemma elq_elect_with_quota hq pend msg extra (s : est) :
  (forall c, hq s c = true -> R (quota s) <= R (cvote c)) ->
  GH s -> ElQ s -> ElQ (elect_with_quota A cfg hq pend msg extra s).
Proof.
  intros Hq G H. unfold elect_with_quota. cbv zeta. apply elq_fold_elect; [exact H|].
  intros c Hc. apply filter_In in Hc. destruct Hc as [Hc Hx]. unfold by_vote in Hc. apply py_sorted_in in Hc.
  unfold hopefuls in Hc. apply filter_In in Hc. destruct Hc as [Hin _]. apply andb_prop in Hx. destruct Hx as [_ Hx].
  intros c' Hc' E. rewrite (nodup_cid_inj' (cands s) c c' (g_nd _ _ (proj1 G)) Hin Hc' E). exact (Hq c Hx).
Qed.

(* ---- frame: the quota never changes and the non-transferable pile never shrinks ---- *)
Definition FR (s s' : est) : Prop := quota s' = quota s /\ R (exhausted s) <= R (exhausted s').
Lemma fr_refl s : FR s s. Proof. split; [reflexivity|lia]. Qed.
Lemma fr_trans a b c : FR a b -> FR b c -> FR a c.
Proof. intros [H1 H2] [K1 K2]. split; [congruence|lia]. Qed.
Lemma fr_same (s s' : est) : quota s' = quota s -> exhausted s' = exhausted s -> FR s s'.
Proof. intros E1 E2. split; [exact E1|rewrite E2; lia]. Qed.
Lemma fr_log t m (s : est) : FR s (log_action A cfg t m s).
Proof. apply fr_same; [apply quota_log|apply exhausted_log]. Qed.
Lemma fr_elect i m p (s : est) : FR s (elect A cfg i m p s).
Proof. unfold elect. destruct (find_cand A (cands s) i); [eapply fr_trans; [|apply fr_log]|]; apply fr_same; reflexivity. Qed.
Lemma fr_defeat i m (s : est) : FR s (defeat A cfg i m s).
Proof. unfold defeat. destruct (find_cand A (cands s) i); [eapply fr_trans; [|apply fr_log]|]; apply fr_same; reflexivity. Qed.
Lemma fr_unpend i m (s : est) : FR s (unpend A cfg i m s).
Proof.
  unfold unpend. destruct (find_cand A (cands s) i) as [c|]; [|apply fr_same; reflexivity]. destruct (is_pending A c); [|apply fr_same; reflexivity].
  destruct m; [eapply fr_trans; [|apply fr_log]|]; apply fr_same; reflexivity.
Qed.
Lemma fr_fold {X} (g : est -> X -> est) (l : list X) : (forall s x, FR s (g s x)) -> forall s, FR s (fold_left g l s).
Proof. intros Hg. induction l as [|x l IH]; intros s; cbn [fold_left]; [apply fr_refl|]. eapply fr_trans; [apply Hg|apply IH]. Qed.
Lemma fr_bt bt tied (s : est) : bt_logs bt -> FR s (fst (bt tied s)).
Proof. intros Hb. destruct (Hb tied s) as [E|[(t & m & E)|(e & E & _)]]; rewrite E; [apply fr_refl|apply fr_log|apply fr_same; reflexivity]. Qed.

(* ---- ElQ through ballot loops ---- *)
Lemma quota_transfer keep (s : est) b : quota (fst (transfer A keep s b)) = quota s.
Proof. pose proof (transfer_spec keep s b) as H. cbv zeta in H. destruct H as (_ & _ & _ & [(c & cc & _ & _ & _ & E)|(_ & E)]); rewrite E; reflexivity. Qed.
Lemma quota_pb keep wsel sel bs : forall (s : est) acc, quota (fst (process_ballots A (f_gen keep wsel) sel bs s acc)) = quota s.
Proof.
  induction bs as [|b t IH]; intros s acc; cbn [process_ballots]; [reflexivity|]. destruct (crashed s); [reflexivity|]. destruct (sel b); [|apply IH].
  destruct (f_gen keep wsel s b) as [s1 b1] eqn:Ef. rewrite IH. unfold f_gen in Ef. destruct (wsel s b) as [w0|e0]; [|inversion Ef; reflexivity].
  pose proof (quota_transfer keep s (with_bweight b w0)) as Hq. rewrite Ef in Hq. exact Hq.
Qed.

Lemma elq_relmono (s s' : est) : relmono (cands s) (cands s') -> quota s' = quota s -> ElQ s -> ElQ s'.
Proof.
  intros Hm Eq H c' Hc' He. destruct (relmono_in _ _ c' Hm Hc') as (c & Hc & _ & Est & _ & Hv). rewrite Eq.
  pose proof (H c Hc (eq_trans (eq_sym Est) He)). lia.
Qed.

Lemma elq_for_ballots keep wsel sel (P' : est -> Prop) (s : est) :
  (forall s b w, P' s -> wfb b -> wsel s b = Ok w -> 0 <= R w) ->
  (forall s s', P' s -> relmono (cands s) (cands s') -> P' s') ->
  GH s -> P' s -> ElQ s -> ElQ (for_ballots A (f_gen keep wsel) sel s) /\ relmono (cands s) (cands (for_ballots A (f_gen keep wsel) sel s)) /\
  FR s (for_ballots A (f_gen keep wsel) sel s).
Proof.
  intros Hw HP G Hs H. unfold FR, for_ballots.
  destruct (mono_pb keep wsel sel P' Hw HP (ballots s) s [] (g_wfb _ _ (proj1 G)) Hs) as [Hm Hme].
  pose proof (quota_pb keep wsel sel (ballots s) s []) as Hq.
  destruct (process_ballots A (f_gen keep wsel) sel (ballots s) s []) as [s1 bs1]. cbn [fst] in *.
  split; [apply (elq_relmono s); [exact Hm|exact Hq|exact H]|split; [exact Hm|split; [exact Hq|exact Hme]]].
Qed.


Lemma cvote_of_mono (l0 l1 : list cand) h : relmono l0 l1 ->
  R (match find_cand A l0 h with Some c => cvote c | None => V0 A end) <= R (match find_cand A l1 h with Some c => cvote c | None => V0 A end).
Proof.
  unfold find_cand. induction 1 as [|a b l0 l1 (E1 & _ & _ & E4) _ IH]; cbn [find]; [lia|]. rewrite E1. destruct (cid a =? h); [exact E4|exact IH].
Qed.

Lemma elq_set_vote_quota h (s : est) : ElQ s -> ElQ (set_vote A h (quota s) s).
Proof.
  intros H c' Hc' He. unfold set_vote, upd in *. cbn [cands quota set_cands] in *.
  destruct (in_upd_cand' _ _ _ _ Hc') as (c & Hc & [[Ei ->]|[Ei ->]]); [cbn [cvote with_vote]; lia|exact (H c Hc He)].
Qed.
Lemma elq_set_vote_other i x (s : est) : (forall c, In c (cands s) -> cid c = i -> cst c <> Elected) -> ElQ s -> ElQ (set_vote A i x s).
Proof.
  intros Hn H c' Hc' He. unfold set_vote, upd in *. cbn [cands quota set_cands] in *.
  destruct (in_upd_cand' _ _ _ _ Hc') as (c & Hc & [[Ei ->]|[Ei ->]]); [cbn [cst with_vote] in He; exfalso; exact (Hn c Hc Ei He)|exact (H c Hc He)].
Qed.

Lemma unpend_ok i m (s : est) : crashed (unpend A cfg i m s) = false ->
  exists c, find_cand A (cands s) i = Some c /\ is_pending A c = true.
Proof.
  unfold unpend. destruct (find_cand A (cands s) i) as [c|]; [|rewrite sticky_set_crash; discriminate].
  destruct (is_pending A c) eqn:E; [intros _; exists c; split; [reflexivity|exact E]|rewrite sticky_set_crash; discriminate].
Qed.

Lemma elq_transfer_high bt rew (s : est) : bt_logs bt -> rew_ok rew -> GH s -> ElQ s ->
  ElQ (transfer_high_surplus A cfg bt rew s) /\ FR s (transfer_high_surplus A cfg bt rew s).
Proof.
  intros Hbl Hrew G H. unfold transfer_high_surplus.
  destruct (max_vote A (pendings A s)) as [hv|]; [|split; [apply (elq_same s); [reflexivity|reflexivity|exact H]|apply fr_same; reflexivity]].
  cbv zeta. set (highs := filter (fun c => eqv A (cvote c) hv) (pendings A s)).
  destruct (bt_frame bt highs s Hbl G) as (G1 & Ec1 & Eb1 & Eq1 & _).
  assert (H1: ElQ (fst (bt highs s))) by (apply (elq_same s); assumption).
  pose proof (fr_bt bt highs s Hbl) as F1.
  destruct (bt highs s) as [s1 [h|]]; cbn [fst snd] in *; [|split; assumption].
  set (s2 := unpend A cfg h (Some "Transfer high surplus"%string) s1).
  assert (G2: GH s2) by (apply gh_unpend; exact G1).
  assert (H2: ElQ s2) by (apply elq_unpend; assumption).
  assert (F2: FR s s2) by (eapply fr_trans; [exact F1|apply fr_unpend]).
  destruct (crashed s2) eqn:Hc2; [split; assumption|].
  destruct (unpend_ok h _ s1 Hc2) as (c & Ef & Ep).
  set (surp := sub A (cvote_of A s2 h) (quota s2)).
  assert (Hs: 0 <= R surp /\ 0 <= R (cvote_of A s2 h)).
  { unfold surp. rewrite (r_sub A S ZL). unfold cvote_of. destruct (find_cand A (cands s2) h) as [c2|] eqn:Ef2.
    - destruct (find_cand_In _ _ _ Ef2) as [Hc2in Hid2].
      assert (He2: cst c2 = Elected).
      { destruct (find_cand_In _ _ _ Ef) as [Hcin Hid].
        destruct (unpend_pending h (Some "Transfer high surplus"%string) s1 c (g_nd _ _ (proj1 G1)) Hcin Hid Ep) as (Ec2 & _).
        fold s2 in Ec2. rewrite Ec2 in Hc2in. destruct (in_upd_cand' _ _ _ _ Hc2in) as (c0 & Hc0 & [[Ei ->]|[Ei ->]]); [reflexivity|congruence]. }
      pose proof (H2 c2 Hc2in He2). pose proof (g_nonneg _ _ (proj1 G2) c2 Hc2in). lia.
    - exfalso. destruct (find_cand_In _ _ _ Ef) as [Hcin Hid].
      destruct (unpend_pending h (Some "Transfer high surplus"%string) s1 c (g_nd _ _ (proj1 G1)) Hcin Hid Ep) as (Ec2 & _). fold s2 in Ec2.
      assert (Hin2: In h (map (@cid A) (cands s2))) by (rewrite Ec2, cids_upd; [rewrite <- Hid; apply in_map; exact Hcin|reflexivity]).
      destruct (find_cand_in A _ _ Hin2) as [c2 E2]. congruence. }
  destruct (elq_for_ballots (is_hopeful A) (fun s b => rew (bweight b) surp (cvote_of A s h)) (top_is A h)
              (fun t => 0 <= R (cvote_of A t h)) s2) as (H3 & _ & F3); try assumption.
  - intros t b w Ht [Hw0 _] Ew. exact (proj1 (Hrew (bweight b) surp (cvote_of A t h) w Hw0 (proj1 Hs) Ht Ew)).
  - intros t t' Ht Hm. pose proof (cvote_of_mono (cands t) (cands t') h Hm) as Hle. unfold cvote_of. unfold cvote_of in Ht. lia.
  - exact (proj2 Hs).
  - change (for_ballots A (f_gen (is_hopeful A) (fun s b => rew (bweight b) surp (cvote_of A s h))) (top_is A h) s2)
      with (for_ballots A (reweigh_transfer A (is_hopeful A) rew h surp) (top_is A h) s2) in H3, F3.
    set (s3 := for_ballots A (reweigh_transfer A (is_hopeful A) rew h surp) (top_is A h) s2) in *.
    assert (F3': FR s s3) by (eapply fr_trans; [exact F2|exact F3]).
    destruct (crashed s3); [split; assumption|]. split; [apply elq_log; apply elq_set_vote_quota; exact H3|].
    eapply fr_trans; [exact F3'|]. eapply fr_trans; [|apply fr_log]. apply fr_same; reflexivity.
Qed.


Lemma elq_plain keep sel (s : est) : GH s -> ElQ s -> ElQ (for_ballots A (transfer A keep) sel s).
Proof.
  intros G H. rewrite (for_ballots_ext _ _ sel s (transfer_as_gen keep)).
  destruct (elq_for_ballots keep (fun _ b => Ok (bweight b)) sel (fun _ => True) s) as [H1 _]; auto.
  intros t b w _ [Hw _] E. inversion E; subst. exact Hw.
Qed.

Lemma elq_tdo i (s : est) : GH s -> ElQ s -> Sat s i isD -> ElQ (transfer_defeated_one A cfg i s).
Proof.
  intros G H HS. unfold transfer_defeated_one. cbv zeta. apply elq_log. apply elq_set_vote_other; [|apply elq_plain; assumption].
  intros c Hc Ei He. pose proof (sat_stl s _ i isD (stl_for_ballots_plain (is_hopeful A) (top_is A i) s) HS c Hc Ei) as HD.
  unfold isD in HD. cbn in HD. congruence.
Qed.

Lemma elq_defeat_low bt msg (s : est) : bt_logs bt -> bt_ok A bt -> GH s -> ElQ s -> ElQ (defeat_low A cfg bt msg s).
Proof.
  intros Hbl Hbo G H. unfold defeat_low. destruct (low_candidates A s) as [[lv lows]|] eqn:El; [|apply (elq_same s); [reflexivity|reflexivity|exact H]].
  destruct (bt_frame bt lows s Hbl G) as (G1 & Ec1 & _ & Eq1 & _). destruct (Hbo lows s) as (_ & _ & Hmem).
  assert (H1: ElQ (fst (bt lows s))) by (apply (elq_same s); assumption).
  destruct (bt lows s) as [s1 [l|]]; cbn [fst snd] in *; [|exact H1].
  destruct (Hmem l eq_refl) as (c & Hcl & Hid). destruct (low_in_hop s lv lows c El Hcl) as [Hcin _].
  assert (Hi1: In l (map (@cid A) (cands s1))) by (rewrite Ec1, <- Hid; apply in_map; exact Hcin).
  destruct (crashed (defeat A cfg l msg s1)); [apply elq_defeat; exact H1|].
  apply elq_tdo; [apply gh_defeat; exact G1|apply elq_defeat; exact H1|apply sat_defeat_D; exact Hi1].
Qed.

Lemma elq_fold_defeat' (mf : cand -> string) (l : list cand) : forall s, ElQ s -> ElQ (fold_left (fun s c => defeat A cfg (cid c) (mf c) s) l s).
Proof. induction l as [|c l IH]; intros s H; cbn [fold_left]; [exact H|]. apply IH. apply elq_defeat. exact H. Qed.

Lemma elq_fold_tdo (l : list cand) : forall s, GH s -> crashed s = false -> ElQ s ->
  (forall c, In c l -> In (cid c) (map (@cid A) (cands s)) /\ Sat s (cid c) isD) ->
  ElQ (fold_left (fun s c => transfer_defeated_one A cfg (cid c) s) l s).
Proof.
  induction l as [|c0 l IH]; intros s G Hc H Hl; cbn [fold_left]; [exact H|].
  destruct (Hl c0 (or_introl eq_refl)) as [Hi0 HS0]. destruct (gh_tdo (cid c0) s G Hc Hi0 HS0) as [G1 Hc1].
  apply IH; [exact G1|exact Hc1|apply elq_tdo; assumption|]. intros c Hcin. destruct (Hl c (or_intror Hcin)) as [Hi HS].
  split; [rewrite (ids_stl _ _ (stl_tdo (cid c0) s)); exact Hi|exact (sat_stl _ _ _ _ (stl_tdo (cid c0) s) HS)].
Qed.

Lemma elq_wigm_defeat (s : est) : GH s -> crashed s = false -> ElQ s -> ElQ (wigm_defeat A cfg s).
Proof.
  intros G Hc H. unfold wigm_defeat. destruct (low_candidates A s) as [[lv lows]|] eqn:El; [|apply (elq_same s); [reflexivity|reflexivity|exact H]].
  destruct (eqv A lv (V0 A) && cf_batch_zero cfg && (seats_left A cfg s <=? nlen (hopefuls A s) - nlen lows)).
  - assert (Hl: forall c, In c lows -> In (cid c) (map (@cid A) (cands s))) by (intros c Hcl; apply in_map; exact (proj1 (low_in_hop s lv lows c El Hcl))).
    destruct (fold_defeat_facts "Defeat batch(zero)" lows s G Hl) as (G1 & Ecr1 & Eid1 & _ & HD). cbv zeta in *.
    apply elq_fold_tdo; [exact G1|rewrite Ecr1; exact Hc|apply (elq_fold_defeat' (fun _ => "Defeat batch(zero)"%string)); exact H|].
    intros c Hcl. split; [rewrite Eid1; apply Hl; exact Hcl|apply HD; exact Hcl].
  - pose proof (elq_defeat_low (bt_simple A cfg "defeat") "Defeat" s (bt_simple_logs _) (bt_simple_ok A cfg _) G H) as E.
    unfold defeat_low in E. rewrite El in E. exact E.
Qed.

(* batches *)
Lemma elq_defeat_batch_order msg (s : est) : ElQ s -> ElQ (defeat_batch_in_ballot_order A cfg msg s).
Proof. intros H. unfold defeat_batch_in_ballot_order. apply (elq_fold_defeat' (fun _ => msg)). exact H. Qed.

Lemma elq_fold_set_vote0 (l : list Z) : forall s : est, (forall i c, In i l -> In c (cands s) -> cid c = i -> cst c <> Elected) -> ElQ s ->
  ElQ (fold_left (fun s i => set_vote A i (V0 A) s) l s).
Proof.
  induction l as [|i l IH]; intros s Hn H; cbn [fold_left]; [exact H|]. apply IH.
  - intros j c' Hj Hc' Ej. unfold set_vote, upd in Hc'. cbn [cands set_cands] in Hc'.
    destruct (in_upd_cand' _ _ _ _ Hc') as (c & Hcin & [[Ei ->]|[Ei ->]]); cbn [cid cst with_vote] in *; exact (Hn j c (or_intror Hj) Hcin Ej).
  - apply elq_set_vote_other; [intros c Hcin Ei; exact (Hn i c (or_introl eq_refl) Hcin Ei)|exact H].
Qed.

Lemma elq_transfer_batch keep (s : est) : GH s -> ElQ s -> BatchD s -> ElQ (transfer_batch A cfg keep s).
Proof.
  intros G H HB. unfold transfer_batch. cbv zeta. apply elq_log. apply elq_fold_set_vote0; [|apply elq_plain; assumption].
  intros i c Hi Hc Ei He. destruct (HB i Hi) as [_ HS].
  pose proof (sat_stl s _ i isD (stl_for_ballots_plain keep (top_in A (lv_batch s)) s) HS c Hc Ei) as HD. unfold isD in HD. cbn in HD. congruence.
Qed.


Lemma fr_for_ballots keep wsel sel (P' : est -> Prop) (s : est) :
  (forall s b w, P' s -> wfb b -> wsel s b = Ok w -> 0 <= R w) ->
  (forall s s', P' s -> relmono (cands s) (cands s') -> P' s') ->
  GH s -> P' s -> FR s (for_ballots A (f_gen keep wsel) sel s).
Proof.
  intros Hw HP G Hs. unfold for_ballots.
  destruct (mono_pb keep wsel sel P' Hw HP (ballots s) s [] (g_wfb _ _ (proj1 G)) Hs) as [_ Hme].
  pose proof (quota_pb keep wsel sel (ballots s) s []) as Hq.
  destruct (process_ballots A (f_gen keep wsel) sel (ballots s) s []) as [s1 bs1]. cbn [fst] in *. split; [exact Hq|exact Hme].
Qed.
Lemma fr_plain keep sel (s : est) : GH s -> FR s (for_ballots A (transfer A keep) sel s).
Proof.
  intros G. rewrite (for_ballots_ext _ _ sel s (transfer_as_gen keep)).
  apply (fr_for_ballots keep (fun _ b => Ok (bweight b)) sel (fun _ => True)); auto. intros t b w _ [Hw _] E. inversion E; subst. exact Hw.
Qed.

(* the bundle carried through the main loop *)
Definition EQ (s : est) : Prop := ElQ s /\ 0 <= R (exhausted s) /\ B < (cf_nseats cfg + 1) * R (quota s).
Lemma eq_fr (s s' : est) : FR s s' -> ElQ s' -> EQ s -> EQ s'.
Proof. intros [F1 F2] H' (_ & E2 & E3). split; [exact H'|]. split; [lia|rewrite F1; exact E3]. Qed.


Lemma fr_tdo i (s : est) : GH s -> FR s (transfer_defeated_one A cfg i s).
Proof.
  intros G. unfold transfer_defeated_one. cbv zeta. eapply fr_trans; [apply (fr_plain (is_hopeful A) (top_is A i) s G)|].
  eapply fr_trans; [|apply fr_log]. apply fr_same; reflexivity.
Qed.
Lemma fr_defeat_low bt msg (s : est) : bt_logs bt -> GH s -> FR s (defeat_low A cfg bt msg s).
Proof.
  intros Hbl G. unfold defeat_low. destruct (low_candidates A s) as [[lv lows]|]; [|apply fr_same; reflexivity].
  destruct (bt_frame bt lows s Hbl G) as (G1 & _). pose proof (fr_bt bt lows s Hbl) as F1.
  destruct (bt lows s) as [s1 [l|]]; cbn [fst snd] in *; [|exact F1].
  assert (F2: FR s (defeat A cfg l msg s1)) by (eapply fr_trans; [exact F1|apply fr_defeat]).
  destruct (crashed (defeat A cfg l msg s1)); [exact F2|]. eapply fr_trans; [exact F2|]. apply fr_tdo. apply gh_defeat. exact G1.
Qed.
Lemma fr_fold_tdo (l : list cand) : forall s, GH s -> crashed s = false ->
  (forall c, In c l -> In (cid c) (map (@cid A) (cands s)) /\ Sat s (cid c) isD) ->
  FR s (fold_left (fun s c => transfer_defeated_one A cfg (cid c) s) l s).
Proof.
  induction l as [|c0 l IH]; intros s G Hc Hl; cbn [fold_left]; [apply fr_refl|].
  destruct (Hl c0 (or_introl eq_refl)) as [Hi0 HS0]. destruct (gh_tdo (cid c0) s G Hc Hi0 HS0) as [G1 Hc1].
  eapply fr_trans; [apply fr_tdo; exact G|]. apply IH; [exact G1|exact Hc1|]. intros c Hcin. destruct (Hl c (or_intror Hcin)) as [Hi HS].
  split; [rewrite (ids_stl _ _ (stl_tdo (cid c0) s)); exact Hi|exact (sat_stl _ _ _ _ (stl_tdo (cid c0) s) HS)].
Qed.
Lemma fr_wigm_defeat (s : est) : GH s -> crashed s = false -> FR s (wigm_defeat A cfg s).
Proof.
  intros G Hc. unfold wigm_defeat. destruct (low_candidates A s) as [[lv lows]|] eqn:El; [|apply fr_same; reflexivity].
  destruct (eqv A lv (V0 A) && cf_batch_zero cfg && (seats_left A cfg s <=? nlen (hopefuls A s) - nlen lows)).
  - assert (Hl: forall c, In c lows -> In (cid c) (map (@cid A) (cands s))) by (intros c Hcl; apply in_map; exact (proj1 (low_in_hop s lv lows c El Hcl))).
    destruct (fold_defeat_facts "Defeat batch(zero)" lows s G Hl) as (G1 & Ecr1 & Eid1 & _ & HD). cbv zeta in *.
    eapply fr_trans; [apply (fr_fold (fun s c => defeat A cfg (cid c) "Defeat batch(zero)" s) lows); intros; apply fr_defeat|].
    apply fr_fold_tdo; [exact G1|rewrite Ecr1; exact Hc|]. intros c Hcl. split; [rewrite Eid1; apply Hl; exact Hcl|apply HD; exact Hcl].
  - pose proof (fr_defeat_low (bt_simple A cfg "defeat") "Defeat" s (bt_simple_logs _) G) as E. unfold defeat_low in E. rewrite El in E. exact E.
Qed.
Lemma fr_defeat_batch_order msg (s : est) : FR s (defeat_batch_in_ballot_order A cfg msg s).
Proof. unfold defeat_batch_in_ballot_order. apply fr_fold. intros; apply fr_defeat. Qed.
Lemma fr_transfer_batch keep (s : est) : GH s -> FR s (transfer_batch A cfg keep s).
Proof.
  intros G. unfold transfer_batch. cbv zeta. eapply fr_trans; [apply (fr_plain keep (top_in A (lv_batch s)) s G)|].
  eapply fr_trans; [|apply fr_log]. destruct (fold_set_vote_frame (V0 A) (lv_batch s) (for_ballots A (transfer A keep) (top_in A (lv_batch s)) s)) as (_ & _ & E3 & E4 & _).
  apply fr_same; assumption.
Qed.
Lemma fr_elect_with_quota hq pend msg extra (s : est) : FR s (elect_with_quota A cfg hq pend msg extra s).
Proof. unfold elect_with_quota. cbv zeta. apply fr_fold. intros s0 c. destruct msg; [|unfold elect_default]; apply fr_elect. Qed.

(* ---- the bound ---- *)
Lemma elected_sum_le (l : list cand) q : (forall c, In c l -> 0 <= R (cvote c)) -> (forall c, In c l -> cst c = Elected -> q <= R (cvote c)) ->
  nlen (filter (in_state A Elected) l) * q <= fold_right (fun c acc => R (cvote c) + acc) 0 l.
Proof.
  unfold nlen. induction l as [|c l IH]; intros Hn Hq; [cbn; lia|]. cbn [filter fold_right].
  pose proof (IH (fun c' H' => Hn c' (or_intror H')) (fun c' H' => Hq c' (or_intror H'))) as IH'.
  pose proof (Hn c (or_introl eq_refl)) as Hc. destruct (in_state A Elected c) eqn:E.
  - assert (Hst: cst c = Elected) by (unfold in_state in E; destruct (cst c); cbn in E; congruence).
    pose proof (Hq c (or_introl eq_refl) Hst). cbn [List.length]. rewrite Nat2Z.inj_succ. lia.
  - lia.
Qed.

Theorem seats_bound (s : est) : Good B s -> EQ s -> nlen (electeds A s) <= cf_nseats cfg.
Proof.
  intros G (HE & Hx & Hq). pose proof (elected_sum_le (cands s) (R (quota s)) (g_nonneg _ _ G) HE) as Hs.
  pose proof (g_total _ _ G) as Ht. unfold Gregory.total, tot_votes in Ht. unfold electeds.
  pose proof (g_quota _ _ G) as Hq0.
  destruct (Z_le_gt_dec (nlen (filter (in_state A Elected) (cands s))) (cf_nseats cfg)) as [Hle|Hgt]; [exact Hle|exfalso]. nia.
Qed.


(* ---- counting elected candidates ---- *)
Definition nel (l : list cand) : Z := nlen (filter (in_state A Elected) l).
Lemma upd_absent i f (l : list cand) : ~ In i (map (@cid A) l) -> upd_cand A i f l = l.
Proof.
  unfold upd_cand. induction l as [|c l IH]; intros Hn; [reflexivity|]. cbn [map In] in *. destruct (cid c =? i) eqn:E; [exfalso; apply Hn; left; lia|].
  rewrite IH; [reflexivity|]. intros H; apply Hn; right; exact H.
Qed.
Lemma nel_upd_le i f (l : list cand) : NoDup (map (@cid A) l) -> nel (upd_cand A i f l) <= nel l + 1.
Proof.
  unfold nel, nlen. induction l as [|c l IH]; intros Hnd; [cbn; lia|]. cbn [map] in Hnd. inversion Hnd as [|? ? Hn Hnd']; subst.
  unfold upd_cand in *. cbn [map]. destruct (cid c =? i) eqn:E.
  - assert (cid c = i) by lia. subst i. pose proof (upd_absent (cid c) f l Hn) as Ha. unfold upd_cand in Ha. rewrite Ha. cbn [filter].
    destruct (in_state A Elected (f c)), (in_state A Elected c); cbn [List.length]; lia.
  - cbn [filter]. specialize (IH Hnd'). destruct (in_state A Elected c); cbn [List.length]; lia.
Qed.
Lemma nel_upd_notel i f (l : list cand) : (forall c, in_state A Elected (f c) = true -> in_state A Elected c = true) -> nel (upd_cand A i f l) <= nel l.
Proof.
  intros Hf. unfold nel, nlen, upd_cand. induction l as [|c l IH]; [cbn; lia|]. cbn [map filter]. destruct (cid c =? i).
  - destruct (in_state A Elected (f c)) eqn:E1; [rewrite (Hf c E1)|destruct (in_state A Elected c)]; cbn [List.length]; lia.
  - destruct (in_state A Elected c); cbn [List.length]; lia.
Qed.
Lemma nel_elect i m p (s : est) : NoDup (map (@cid A) (cands s)) -> nel (cands (elect A cfg i m p s)) <= nel (cands s) + 1.
Proof. intros Hnd. unfold elect. destruct (find_cand A (cands s) i); [|cbn; lia]. rewrite cands_log. unfold upd. cbn [cands set_cands]. apply nel_upd_le. exact Hnd. Qed.
Lemma nel_defeat i m (s : est) : nel (cands (defeat A cfg i m s)) <= nel (cands s).
Proof. unfold defeat. destruct (find_cand A (cands s) i); [|cbn; lia]. rewrite cands_log. unfold upd. cbn [cands set_cands]. apply nel_upd_notel. intros c1 E. cbn in E. discriminate. Qed.
Lemma nel_upd_same i f (l : list cand) : (forall c, In c l -> cid c = i -> in_state A Elected (f c) = in_state A Elected c) -> nel (upd_cand A i f l) = nel l.
Proof.
  unfold nel, nlen, upd_cand. induction l as [|c l IH]; intros H; [reflexivity|]. cbn [map filter].
  pose proof (IH (fun c' Hc' => H c' (or_intror Hc'))) as IH'. destruct (cid c =? i) eqn:E.
  - rewrite (H c (or_introl eq_refl) ltac:(lia)). destruct (in_state A Elected c); cbn [List.length]; lia.
  - destruct (in_state A Elected c); cbn [List.length]; lia.
Qed.
Lemma nel_unpend i m (s : est) : NoDup (map (@cid A) (cands s)) -> nel (cands (unpend A cfg i m s)) = nel (cands s).
Proof.
  intros Hnd. unfold unpend. destruct (find_cand A (cands s) i) as [c|] eqn:Ef; [|reflexivity]. destruct (is_pending A c) eqn:Ep; [|reflexivity].
  assert (H: nel (cands (upd A s i (fun c0 => with_st c0 Elected (Some false)))) = nel (cands s)).
  { unfold upd. cbn [cands set_cands]. apply nel_upd_same. intros c0 Hc0 Ei. destruct (find_cand_In _ _ _ Ef) as [Hcin Hid].
    rewrite (nodup_cid_inj' (cands s) c c0 Hnd Hcin Hc0 (eq_trans Ei (eq_sym Hid))).
    unfold is_pending in Ep. apply andb_prop in Ep. rewrite (proj1 Ep). reflexivity. }
  destruct m; [rewrite cands_log|]; exact H.
Qed.
Lemma ids_unpend i m (s : est) : map (@cid A) (cands (unpend A cfg i m s)) = map (@cid A) (cands s).
Proof.
  unfold unpend. destruct (find_cand A (cands s) i) as [c|]; [|reflexivity]. destruct (is_pending A c); [|reflexivity].
  destruct m; [rewrite cands_log|]; unfold upd; cbn [cands set_cands]; apply cids_upd; reflexivity.
Qed.
Lemma ids_elect i m p (s : est) : map (@cid A) (cands (elect A cfg i m p s)) = map (@cid A) (cands s).
Proof. unfold elect. destruct (find_cand A (cands s) i); [|reflexivity]. rewrite cands_log. unfold upd. cbn [cands set_cands]. apply cids_upd. reflexivity. Qed.

Lemma nel_unpend_all (s : est) : NoDup (map (@cid A) (cands s)) -> nel (cands (unpend_all A cfg s)) = nel (cands s).
Proof.
  unfold unpend_all. generalize (pendings A s) as l. intros l. revert s. induction l as [|c l IH]; intros s Hnd; cbn [fold_left]; [reflexivity|].
  rewrite IH; [apply nel_unpend; exact Hnd|rewrite ids_unpend; exact Hnd].
Qed.

Lemma nel_eodr (s : est) : NoDup (map (@cid A) (cands s)) -> nel (cands s) <= cf_nseats cfg ->
  nel (cands (elect_or_defeat_remaining A cfg s)) <= cf_nseats cfg.
Proof.
  unfold elect_or_defeat_remaining. generalize (hopefuls A s) as l. intros l. revert s. induction l as [|c l IH]; intros s Hnd Hle; cbn [fold_left]; [exact Hle|].
  apply IH.
  - destruct (_ <? _); [rewrite ids_elect|rewrite ids_defeat]; exact Hnd.
  - destruct (nlen (electeds A s) <? cf_nseats cfg) eqn:E.
    + pose proof (nel_elect (cid c) "Elect remaining" false s Hnd). unfold nel, electeds in *. lia.
    + pose proof (nel_defeat (cid c) "Defeat remaining" s). lia.
Qed.

Lemma nel_fold_elect m p (l : list cand) : forall s : est, NoDup (map (@cid A) (cands s)) ->
  nel (cands (fold_left (fun s c => elect A cfg (cid c) m p s) l s)) <= nel (cands s) + nlen l.
Proof.
  unfold nlen. induction l as [|c l IH]; intros s Hnd; cbn [fold_left List.length]; [lia|].
  specialize (IH (elect A cfg (cid c) m p s)). rewrite ids_elect in IH. specialize (IH Hnd). pose proof (nel_elect (cid c) m p s Hnd). rewrite Nat2Z.inj_succ. lia.
Qed.
Lemma nel_fold_defeat m (l : list cand) : forall s : est, nel (cands (fold_left (fun s c => defeat A cfg (cid c) m s) l s)) <= nel (cands s).
Proof. induction l as [|c l IH]; intros s; cbn [fold_left]; [lia|]. pose proof (IH (defeat A cfg (cid c) m s)). pose proof (nel_defeat (cid c) m s). lia. Qed.


(* ---- the quota exceeds ballots/(seats+1) ---- *)
Hypothesis HB : B = cf_nballots cfg * S.
Definition QX (q : T A) : Prop := B < (cf_nseats cfg + 1) * R q.

Lemma floor_plus_one n d : 0 < d -> n < d * (n / d + 1).
Proof. intros Hd. pose proof (Z.mod_pos_bound n d Hd). pose proof (Z.div_mod n d ltac:(lia)). nia. Qed.

Lemma integer_quota_exceeds : QX (integer_droop_quota A cfg).
Proof.
  unfold QX, integer_droop_quota. rewrite HB, (r_of_int A S ZL). pose proof (S_pos A S ZL) as HS.
  pose proof (floor_plus_one (cf_nballots cfg) (cf_nseats cfg + 1) ltac:(lia)). nia.
Qed.
Lemma droop_quota_eps_exceeds q : droop_quota_eps A cfg = Ok q -> QX q.
Proof.
  unfold droop_quota_eps, QX. pose proof (S_pos A S ZL) as HS.
  destruct (Z.eq_dec (R (of_int A (cf_nseats cfg + 1))) 0) as [Hz|Hnz]; [rewrite (r_divv0 A S ZL _ _ Hz); discriminate|].
  destruct (r_divv A S ZL (of_int A (cf_nballots cfg)) (of_int A (cf_nseats cfg + 1)) Hnz) as (c & E & Ec). rewrite E.
  intros H. assert (Eq: q = add A c (epsilon A)) by congruence. rewrite Eq, (r_add A S ZL), Ec, !(r_of_int A S ZL), HB. pose proof (r_eps A S ZL).
  rewrite Z.div_mul_cancel_r by lia. pose proof (floor_plus_one (cf_nballots cfg * S) (cf_nseats cfg + 1) ltac:(lia)). nia.
Qed.
Lemma wigm_quota_exceeds q : wigm_quota A cfg = Ok q -> QX q.
Proof.
  unfold wigm_quota. destruct (cf_integer_quota cfg).
  - intros H. assert (E: q = of_int A (1 + cf_nballots cfg / (cf_nseats cfg + 1))) by congruence. rewrite E. unfold QX. rewrite HB, (r_of_int A S ZL).
    pose proof (S_pos A S ZL) as HS. pose proof (floor_plus_one (cf_nballots cfg) (cf_nseats cfg + 1) ltac:(lia)). nia.
  - rewrite Hex. apply droop_quota_eps_exceeds.
Qed.

(* ---- the main loops keep GH and EQ together ---- *)
Definition GE (s : est) : Prop := GN s /\ EQ s.
Fixpoint pnc2 (c : cmd est) : Prop :=
  match c with
  | Do f => forall s, GH s -> EQ s -> crashed s = false -> crashed (f s) = false -> GH (f s) /\ EQ (f s)
  | Seq a b | Ite _ a b => pnc2 a /\ pnc2 b
  | While _ b => pnc2 b
  | _ => True
  end.
Lemma pnc2_triple c : pnc2 c -> T3 GE c GE GE GE.
Proof.
  induction c as [f|a IHa b IHb|g a IHa b IHb|g body IH| | |]; cbn [pnc2]; intros H.
  - apply t_do_nc. intros s [[H1 H2] H3] Hc. destruct (H s H1 H3 H2 Hc) as [K1 K2]. split; [split; assumption|exact K2].
  - destruct H as [Ha Hb]. eapply t_seq; [apply IHa; exact Ha|apply IHb; exact Hb].
  - destruct H as [Ha Hb]. apply t_ite; (eapply t_pre; [|first [apply IHa; exact Ha|apply IHb; exact Hb]]); intros s [Hs _]; exact Hs.
  - eapply t_post; [|apply (t_while est (@crashed A) GE GE)].
    + intros s [Hs|[Hs _]]; exact Hs.
    + eapply t_pre; [|apply IH; exact H]. intros s [Hs _]; exact Hs.
  - apply t_break'. auto.
  - apply t_continue'. auto.
  - apply t_skip'. auto.
Qed.

Lemma ge_new_round (s : est) : GH s -> EQ s -> GH (new_round A cfg s) /\ EQ (new_round A cfg s).
Proof.
  intros G E. split; [apply gh_new_round; exact G|]. apply (eq_fr s); [|apply elq_new_round; exact (proj1 E)|exact E].
  unfold new_round. eapply fr_trans; [|apply fr_log]. apply fr_same; reflexivity.
Qed.
Lemma ge_elect_with_quota hq pend msg extra (s : est) : (forall c, hq s c = true -> R (quota s) <= R (cvote c)) ->
  GH s -> EQ s -> GH (elect_with_quota A cfg hq pend msg extra s) /\ EQ (elect_with_quota A cfg hq pend msg extra s).
Proof.
  intros Hq G E. split; [apply gh_elect_with_quota; assumption|]. apply (eq_fr s); [apply fr_elect_with_quota|apply elq_elect_with_quota; [exact Hq|exact G|exact (proj1 E)]|exact E].
Qed.
Lemma ge_transfer_high bt rew (s : est) : bt_logs bt -> bt_ok A bt -> rew_ok rew -> GH s -> EQ s -> crashed s = false ->
  crashed (transfer_high_surplus A cfg bt rew s) = false ->
  GH (transfer_high_surplus A cfg bt rew s) /\ EQ (transfer_high_surplus A cfg bt rew s).
Proof.
  intros Hbl Hbo Hrew G E Hc Hcf. split; [apply gh_transfer_high; assumption|].
  destruct (elq_transfer_high bt rew s Hbl Hrew G (proj1 E)) as [H F]. exact (eq_fr s _ F H E).
Qed.
Lemma ge_wigm_defeat (s : est) : GH s -> EQ s -> crashed s = false -> crashed (wigm_defeat A cfg s) = false ->
  GH (wigm_defeat A cfg s) /\ EQ (wigm_defeat A cfg s).
Proof.
  intros G E Hc Hcf. split; [apply gh_wigm_defeat; assumption|]. apply (eq_fr s); [apply fr_wigm_defeat; assumption|apply elq_wigm_defeat; [exact G|exact Hc|exact (proj1 E)]|exact E].
Qed.
Lemma ge_defeat_low bt msg (s : est) : bt_logs bt -> bt_ok A bt -> GH s -> EQ s -> crashed s = false -> crashed (defeat_low A cfg bt msg s) = false ->
  GH (defeat_low A cfg bt msg s) /\ EQ (defeat_low A cfg bt msg s).
Proof.
  intros Hbl Hbo G E Hc Hcf. split; [apply gh_defeat_low; assumption|]. apply (eq_fr s); [apply fr_defeat_low; assumption|apply elq_defeat_low; try assumption; exact (proj1 E)|exact E].
Qed.


(* ---- whole rules: at most [seats] candidates are elected ---- *)
Definition Pre2 (s : est) : Prop := Pre s /\ forall c, In c (cands s) -> cst c <> Elected.
Definition SeatsOK (s : est) : Prop := GN s /\ nel (cands s) <= cf_nseats cfg.

Lemma start_facts q (s : est) : Pre s ->
  stl (cands (start_count A (Ok q) s)) = stl (cands s) /\ quota (start_count A (Ok q) s) = q /\ exhausted (start_count A (Ok q) s) = V0 A.
Proof.
  intros P. unfold start_count, initial_count.
  change (fold_left _ (ballots (set_quota s q)) (set_quota s q)) with (fold_left ic_step (ballots s) (set_quota s q)).
  destruct (ic_fold (ballots s) (set_quota s q) (p_nd _ P) (p_wfb _ P)) as (_ & E2 & _ & E4 & _). cbv zeta in *.
  split; [exact E2|]. split; [exact E4|reflexivity].
Qed.

Lemma start_triple2 (qr : res (T A)) tg msg (Qb Qc : est -> Prop) :
  (forall q, qr = Ok q -> 0 <= R q /\ QX q) ->
  T3 Pre2 (Do (fun s => log_action A cfg tg msg (start_count A qr s))) GE Qb Qc.
Proof.
  intros Hq. apply t_do_nc. intros s [P Hne] Hc. rewrite crashed_log in Hc. destruct qr as [q|e].
  2:{ unfold start_count in Hc. rewrite sticky_set_crash in Hc. discriminate. }
  destruct (Hq q eq_refl) as [Hq0 Hqx]. destruct (start_facts q s P) as (Est & Eqq & Eex).
  assert (G: GH (start_count A (Ok q) s)) by (apply gh_start; assumption).
  split; [split; [apply gh_log; exact G|rewrite crashed_log; exact Hc]|].
  apply (eq_fr (start_count A (Ok q) s)); [apply fr_log| |].
  - apply elq_log. intros c Hcin He. exfalso.
    assert (Hin: In (cid c, (cst c, cpend c)) (stl (cands (start_count A (Ok q) s)))) by (unfold Forward.stl; apply in_map_iff; exists c; auto).
    rewrite Est in Hin. unfold Forward.stl in Hin. apply in_map_iff in Hin. destruct Hin as (c0 & E0 & Hc0).
    apply (Hne c0 Hc0). pose proof (f_equal (fun x => fst (snd x)) E0) as E1. cbn in E1. congruence.
  - split; [intros c Hcin He; exfalso|].
    + assert (Hin: In (cid c, (cst c, cpend c)) (stl (cands (start_count A (Ok q) s)))) by (unfold Forward.stl; apply in_map_iff; exists c; auto).
      rewrite Est in Hin. unfold Forward.stl in Hin. apply in_map_iff in Hin. destruct Hin as (c0 & E0 & Hc0).
      apply (Hne c0 Hc0). pose proof (f_equal (fun x => fst (snd x)) E0) as E1. cbn in E1. congruence.
    + rewrite Eex, Eqq. split; [unfold V0; rewrite (r_of_int A S ZL); lia|exact Hqx].
Qed.

Lemma epilogue_wigm : T3 GE (Do (unpend_all A cfg) ;; Do (elect_or_defeat_remaining A cfg)) SeatsOK SeatsOK SeatsOK.
Proof.
  eapply t_seq with (M := SeatsOK).
  - apply t_do_nc. intros s [[G Hc] E] Hcf. split; [split; [apply gh_unpend_all; exact G|exact Hcf]|].
    rewrite (nel_unpend_all s (g_nd _ _ (proj1 G))). exact (seats_bound s (proj1 G) E).
  - apply t_do_nc. intros s [[G Hc] Hn] Hcf. split; [split; [apply gh_elect_or_defeat; exact G|exact Hcf]|].
    apply nel_eodr; [exact (g_nd _ _ (proj1 G))|exact Hn].
Qed.

Theorem wigm_seats : T3 Pre2 (wigm A cfg) SeatsOK SeatsOK SeatsOK.
Proof.
  unfold wigm. eapply t_seq with (M := GE).
  - apply start_triple2. intros q E. split; [exact (wigm_quota_nonneg q E)|exact (wigm_quota_exceeds q E)].
  - eapply t_seq with (M := GE); [|apply epilogue_wigm].
    eapply t_conseq; [| | | |apply pnc2_triple]; try (intros s Hs; exact Hs).
    + intros s [[G Hc] E]. split; [split; [exact G|exact Hc]|exact (seats_bound s (proj1 G) E)].
    + intros s [[G Hc] E]. split; [split; [exact G|exact Hc]|exact (seats_bound s (proj1 G) E)].
    + cbn [pnc2]. repeat match goal with |- _ /\ _ => split | |- True => exact I end.
      * intros s G E _ _. apply ge_new_round; assumption.
      * intros s G E _ _. apply ge_elect_with_quota; [intros c; apply has_quota_exact_le|exact G|exact E].
      * intros s G E Hc Hcf. apply ge_transfer_high; try assumption; [apply bt_simple_logs|apply bt_simple_ok|apply rew_wigm_ok].
      * intros s G E Hc Hcf. apply ge_wigm_defeat; assumption.
Qed.


Definition GEI (s : est) : Prop := GE s /\ BatchIn s.
Definition GED (s : est) : Prop := GE s /\ BatchD s.

Lemma prf_batch_branch2 msg :
  T3 GEI (Do (defeat_batch_in_ballot_order A cfg msg) ;;
          Ite (fun s => nlen (hopefuls A s) <=? seats_left A cfg s) Break Skip ;;
          Do (transfer_batch A cfg (is_hopeful A)) ;; Continue) GE GE GE.
Proof.
  eapply t_seq with (M := GED); [|eapply t_seq with (M := GED); [|eapply t_seq with (M := GE)]].
  - apply t_do_nc. intros s [[[G Hc] E] HB0] Hcf. destruct (gh_defeat_batch_order msg s G HB0) as (G1 & Ecr & HD).
    split; [split; [split; [exact G1|exact Hcf]|]|exact HD].
    apply (eq_fr s); [apply fr_defeat_batch_order|apply elq_defeat_batch_order; exact (proj1 E)|exact E].
  - apply t_ite; [apply t_break'; intros s [[H _] _]; exact H|apply t_skip'; intros s [H _]; exact H].
  - apply t_do_nc. intros s [[[G Hc] E] HD] Hcf. destruct is_hopeful_props as (K1 & K2 & K3).
    destruct (gh_transfer_batch (is_hopeful A) s K1 K2 K3 G Hc HD) as [G1 Hc1]. split; [split; assumption|].
    apply (eq_fr s); [apply fr_transfer_batch; exact G|apply elq_transfer_batch; [exact G|exact (proj1 E)|exact HD]|exact E].
  - apply t_continue'. auto.
Qed.

Theorem wigm_prf_seats : T3 Pre2 (wigm_prf A cfg) SeatsOK SeatsOK SeatsOK.
Proof.
  unfold wigm_prf. eapply t_seq with (M := GE).
  - apply start_triple2. intros q E. split; [exact (droop_quota_eps_nonneg q E)|exact (droop_quota_eps_exceeds q E)].
  - eapply t_seq with (M := GE); [|apply epilogue_wigm].
    eapply t_post; [|apply (t_while est (@crashed A) GE GE)]; [intros s [Hs|[Hs _]]; exact Hs|].
    eapply t_pre; [intros s [Hs _]; exact Hs|].
    eapply t_seq with (M := GE); [apply pnc2_triple; cbn [pnc2]; intros s G E _ _; apply ge_new_round; assumption|].
    eapply t_seq with (M := GE); [apply pnc2_triple; cbn [pnc2]; intros s G E _ _; apply ge_elect_with_quota; [intros c; apply ge_quota_le|exact G|exact E]|].
    eapply t_seq with (M := GEI).
    { apply t_do_nc. intros s [[G Hc] E] _. split; [split; [split; [apply (gh_same s); try reflexivity; exact G|exact Hc]|]|].
      - apply (eq_fr s); [apply fr_same; reflexivity|apply (elq_same s); [reflexivity|reflexivity|exact (proj1 E)]|exact E].
      - unfold prf_find_batch. destruct (cf_batch cfg); [|intros i []].
        apply (batchin_of_hopefuls s _ (batch_defeat A cfg (pending_surplus A s) s)); [reflexivity|reflexivity|apply batch_defeat_hopeful]. }
    eapply t_seq with (M := GE).
    { apply t_ite; [eapply t_pre; [|apply prf_batch_branch2]; intros s [Hs _]; exact Hs|apply t_skip'; intros s [[Hs _] _]; exact Hs]. }
    apply pnc2_triple. cbn [pnc2]. repeat match goal with |- _ /\ _ => split | |- True => exact I end.
    + intros s G E Hc Hcf. apply ge_transfer_high; try assumption; [apply bt_simple_logs|apply bt_simple_ok|apply rew_wigm_ok].
    + intros s G E Hc Hcf. apply ge_defeat_low; try assumption; [apply bt_simple_logs|apply bt_simple_ok].
Qed.

Theorem scotland_seats : T3 Pre2 (scotland A cfg) SeatsOK SeatsOK SeatsOK.
Proof.
  unfold scotland. eapply t_seq with (M := GE).
  - apply start_triple2. intros q E. inversion E; subst. split; [apply integer_quota_nonneg|apply integer_quota_exceeds].
  - eapply t_seq with (M := GE).
    + eapply t_conseq; [| | | |apply pnc2_triple]; try (intros s Hs; exact Hs);
        try (intros s [[G Hc] E]; split; [split; [exact G|exact Hc]|exact (seats_bound s (proj1 G) E)]).
      cbn [pnc2]. repeat match goal with |- _ /\ _ => split | |- True => exact I end.
      * intros s G E _ _. apply ge_elect_with_quota; [intros c; apply ge_quota_le|exact G|exact E].
      * intros s G E _ _. apply ge_new_round; assumption.
      * intros s G E _ _. split; [apply (gh_same s); try reflexivity; exact G|].
        apply (eq_fr s); [apply fr_same; reflexivity|apply (elq_same s); [reflexivity|reflexivity|exact (proj1 E)]|exact E].
      * intros s G E Hc Hcf. apply ge_transfer_high; try assumption; [apply scot_bt_logs|apply scot_bt_ok|apply rew_scot_ok].
      * intros s G E Hc Hcf. apply ge_defeat_low; try assumption; [apply scot_bt_logs|apply scot_bt_ok].
    + eapply t_seq with (M := SeatsOK).
      * apply t_do_nc. intros s [[G Hc] E] Hcf. split; [split; [apply gh_unpend_all; exact G|exact Hcf]|].
        rewrite (nel_unpend_all s (g_nd _ _ (proj1 G))). exact (seats_bound s (proj1 G) E).
      * eapply t_seq with (M := SeatsOK).
        -- apply t_ite; [|apply t_skip'; intros s [Hs _]; exact Hs].
           apply t_do_nc. intros s [[[G Hc] Hn] Hg] Hcf. split; [split; [apply gh_fold_elect_np; exact G|exact Hcf]|].
           pose proof (nel_fold_elect "Elect remaining candidates" false (hopefuls A s) s (g_nd _ _ (proj1 G))) as Hle.
           unfold seats_left, electeds in Hg. unfold nel in *. lia.
        -- apply t_do_nc. intros s [[G Hc] Hn] Hcf. split; [split; [apply gh_fold_defeat; exact G|exact Hcf]|].
           pose proof (nel_fold_defeat "Defeat remaining candidates" (hopefuls A s) s). lia.
Qed.


(* ---- the seat bound for the Minneapolis rule ---- *)
Lemma eq_mpls_defeat_batch (s : est) : GH s -> crashed s = false -> BatchIn s -> ElQ s ->
  ElQ (mpls_defeat_batch A cfg s) /\ FR s (mpls_defeat_batch A cfg s).
Proof.
  intros G Hc HB0 H. unfold mpls_defeat_batch. cbv zeta.
  assert (Hl: forall c, In c (cands_of A s (lv_batch s)) -> In (cid c) (map (@cid A) (cands s))).
  { intros c Hcin. apply in_map. exact (proj1 (cands_of_in A s _ c Hcin)). }
  set (mf := fun c : cand => if cundecl c then "Defeat undeclared write-in"%string else "Defeat certain loser"%string).
  destruct (fold_defeat_facts' mf _ s G Hl) as (G1 & Ecr & Eid & Elb & _ & HD). cbv zeta in *.
  pose proof (elq_fold_defeat' mf (cands_of A s (lv_batch s)) s H) as H1.
  assert (F1: FR s (fold_left (fun s c => defeat A cfg (cid c) (mf c) s) (cands_of A s (lv_batch s)) s)).
  { apply (fr_fold (fun s c => defeat A cfg (cid c) (mf c) s)). intros; apply fr_defeat. }
  fold mf. set (s1 := fold_left (fun s c => defeat A cfg (cid c) (mf c) s) (cands_of A s (lv_batch s)) s) in *.
  pose proof (elq_plain (mpls_keep A) (top_in A (lv_batch s)) s1 G1 H1) as H2.
  pose proof (fr_plain (mpls_keep A) (top_in A (lv_batch s)) s1 G1) as F2.
  set (s2 := for_ballots A (transfer A (mpls_keep A)) (top_in A (lv_batch s)) s1) in *.
  destruct (fold_set_vote_frame (V0 A) (lv_batch s) s2) as (_ & _ & E3 & E4 & _). cbv zeta in *.
  split.
  - apply elq_log. match goal with |- ElQ (set_surplus ?x _) => apply (elq_same x); [reflexivity|reflexivity|] end.
    apply elq_fold_set_vote0; [|exact H2]. intros i c Hi Hcin Ei He.
    destruct (cands_of_has s (lv_batch s) i Hi (HB0 i Hi)) as (c0 & Hc0 & Ec0).
    pose proof (HD c0 Hc0) as HS. rewrite Ec0 in HS.
    pose proof (sat_stl s1 s2 i isD (stl_for_ballots_plain (mpls_keep A) (top_in A (lv_batch s)) s1) HS c Hcin Ei) as HDD.
    unfold isD in HDD. cbn in HDD. congruence.
  - eapply fr_trans; [exact F1|]. eapply fr_trans; [exact F2|]. eapply fr_trans; [|apply fr_log]. apply fr_same; assumption.
Qed.

Lemma eq_mpls_defeat_low (s : est) : GH s -> crashed s = false -> ElQ s ->
  ElQ (mpls_defeat_low A cfg s) /\ FR s (mpls_defeat_low A cfg s).
Proof.
  intros G Hc H. unfold mpls_defeat_low.
  destruct (low_candidates A s) as [[lv lows]|] eqn:El; [|split; [apply (elq_same s); [reflexivity|reflexivity|exact H]|apply fr_same; reflexivity]].
  destruct (bt_frame (bt_simple A cfg "defeat low candidate") lows s (bt_simple_logs _) G) as (G1 & Ec1 & Eb1 & Eq1 & Ecr1).
  destruct (bt_simple_ok A cfg "defeat low candidate" lows s) as (_ & _ & Hmem).
  assert (H1: ElQ (fst (bt_simple A cfg "defeat low candidate" lows s))) by (apply (elq_same s); assumption).
  pose proof (fr_bt (bt_simple A cfg "defeat low candidate") lows s (bt_simple_logs _)) as F1.
  destruct (bt_simple A cfg "defeat low candidate" lows s) as [s1 [l|]] eqn:Ebt; cbn [fst snd] in *; [|split; assumption].
  destruct (Hmem l eq_refl) as (c & Hcl & Hid). destruct (low_in_hop s lv lows c El Hcl) as [Hcin Hh].
  assert (Hi1: In l (map (@cid A) (cands s1))) by (rewrite Ec1, <- Hid; apply in_map; exact Hcin).
  set (s2 := defeat A cfg l "Defeat low candidate" s1) in *. cbv zeta.
  assert (G2: GH s2) by (apply gh_defeat; exact G1).
  assert (H2: ElQ s2) by (apply elq_defeat; exact H1).
  assert (F2: FR s s2) by (eapply fr_trans; [exact F1|apply fr_defeat]).
  destruct (crashed s2); [split; assumption|].
  destruct (seats_left A cfg s2 <? nlen (hopefuls A s2)); [|split; assumption].
  pose proof (elq_plain (mpls_keep A) (top_is A l) s2 G2 H2) as H3.
  pose proof (fr_plain (mpls_keep A) (top_is A l) s2 G2) as F3.
  set (s3 := for_ballots A (transfer A (mpls_keep A)) (top_is A l) s2) in *.
  split.
  - apply elq_log. match goal with |- ElQ (set_surplus ?x _) => apply (elq_same x); [reflexivity|reflexivity|] end.
    apply elq_set_vote_other; [|exact H3]. intros c' Hc' Ei He.
    pose proof (sat_stl s2 s3 l isD (stl_for_ballots_plain (mpls_keep A) (top_is A l) s2) (sat_defeat_D l "Defeat low candidate" s1 Hi1) c' Hc' Ei) as HDD.
    unfold isD in HDD. cbn in HDD. congruence.
  - eapply fr_trans; [exact F2|]. eapply fr_trans; [exact F3|]. eapply fr_trans; [|apply fr_log]. apply fr_same; reflexivity.
Qed.

Lemma eq_mpls_elect_high (s : est) : GH s -> crashed s = false -> ElQ s ->
  ElQ (mpls_elect_high A cfg s) /\ FR s (mpls_elect_high A cfg s).
Proof.
  intros G Hc H. unfold mpls_elect_high. cbv zeta.
  destruct (max_vote A (hopeful_with_quota A false s)) as [hv|]; [|split; [apply (elq_same s); [reflexivity|reflexivity|exact H]|apply fr_same; reflexivity]].
  set (highs := filter (fun c => eqv A (cvote c) hv) (hopeful_with_quota A false s)) in *.
  destruct (bt_frame (bt_simple A cfg "largest surplus") highs s (bt_simple_logs _) G) as (G1 & Ec1 & Eb1 & Eq1 & Ecr1).
  destruct (bt_simple_ok A cfg "largest surplus" highs s) as (_ & _ & Hmem).
  assert (H1: ElQ (fst (bt_simple A cfg "largest surplus" highs s))) by (apply (elq_same s); assumption).
  pose proof (fr_bt (bt_simple A cfg "largest surplus") highs s (bt_simple_logs _)) as F1.
  destruct (bt_simple A cfg "largest surplus" highs s) as [s1 [h|]] eqn:Ebt; cbn [fst snd] in *; [|split; assumption].
  destruct (Hmem h eq_refl) as (c & Hch & Hid). unfold highs in Hch. apply filter_In in Hch. destruct Hch as [Hhq _].
  assert (Hq: R (quota s) <= R (cvote c)).
  { unfold hopeful_with_quota in Hhq. apply filter_In in Hhq. destruct Hhq as [_ Hx]. apply andb_prop in Hx. apply ge_quota_le. exact (proj2 Hx). }
  pose proof (hwq_in A s false c Hhq) as Hhop. unfold hopefuls in Hhop. apply filter_In in Hhop. destruct Hhop as [Hcin Hh].
  pose proof (g_nd _ _ (proj1 G)) as Hnd.
  assert (Hi1: In h (map (@cid A) (cands s1))) by (rewrite Ec1, <- Hid; apply in_map; exact Hcin).
  destruct (elect_found h "Elect" false s1 Hi1) as (Ec2 & Eb2 & Eq2 & Ecr2).
  assert (HQ1: HQ s1 h).
  { intros c' Hc' Ei. rewrite Ec1 in Hc'. rewrite Eq1. rewrite <- Hid in Ei. pose proof (nodup_cid_inj' (cands s) c' c Hnd Hc' Hcin (eq_sym Ei)) as Ecc. first [rewrite Ecc|rewrite <- Ecc]; exact Hq. }
  set (s2 := elect A cfg h "Elect" false s1) in *.
  assert (G2: GH s2) by (apply gh_elect_np; exact G1).
  assert (H2: ElQ s2) by (apply elq_elect; assumption).
  assert (F2: FR s s2) by (eapply fr_trans; [exact F1|apply fr_elect]).
  destruct (crashed s2) eqn:Hc2; [split; assumption|].
  set (surp := sub A (cvote_of A s2 h) (quota s2)).
  assert (Hs: 0 <= R surp /\ 0 <= R (cvote_of A s2 h)).
  { unfold surp. rewrite (r_sub A S ZL). unfold cvote_of. destruct (find_cand A (cands s2) h) as [c2|] eqn:Ef2.
    - destruct (find_cand_In _ _ _ Ef2) as [Hc2in Hid2].
      assert (He2: cst c2 = Elected).
      { rewrite Ec2 in Hc2in. destruct (in_upd_cand' _ _ _ _ Hc2in) as (c0 & Hc0 & [[Ei ->]|[Ei ->]]); [reflexivity|congruence]. }
      pose proof (H2 c2 Hc2in He2). pose proof (g_nonneg _ _ (proj1 G2) c2 Hc2in). lia.
    - exfalso. assert (Hin2: In h (map (@cid A) (cands s2))) by (rewrite Ec2, cids_upd; [exact Hi1|reflexivity]).
      destruct (find_cand_in A _ _ Hin2) as [c2 E2]. congruence. }
  destruct (elq_for_ballots (mpls_keep A) (fun s b => rew_wigm A (bweight b) surp (cvote_of A s h)) (top_is A h)
              (fun t => 0 <= R (cvote_of A t h)) s2) as (H3 & _ & F3); try assumption.
  - intros t b w Ht [Hw0 _] Ew. exact (proj1 (rew_wigm_ok (bweight b) surp (cvote_of A t h) w Hw0 (proj1 Hs) Ht Ew)).
  - intros t t' Ht Hm. pose proof (cvote_of_mono (cands t) (cands t') h Hm) as Hle. unfold cvote_of. unfold cvote_of in Ht. lia.
  - exact (proj2 Hs).
  - change (for_ballots A (f_gen (mpls_keep A) (fun s b => rew_wigm A (bweight b) surp (cvote_of A s h))) (top_is A h) s2)
      with (for_ballots A (reweigh_transfer A (mpls_keep A) (rew_wigm A) h surp) (top_is A h) s2) in H3, F3.
    set (s3 := for_ballots A (reweigh_transfer A (mpls_keep A) (rew_wigm A) h surp) (top_is A h) s2) in *.
    assert (F3': FR s s3) by (eapply fr_trans; [exact F2|exact F3]).
    destruct (crashed s3); [split; assumption|]. split.
    + apply elq_log. match goal with |- ElQ (set_surplus ?x _) => apply (elq_same x); [reflexivity|reflexivity|] end. apply elq_set_vote_quota; exact H3.
    + eapply fr_trans; [exact F3'|]. eapply fr_trans; [|apply fr_log]. apply fr_same; reflexivity.
Qed.

Lemma start_ge q (s : est) : Pre2 s -> 0 <= R q -> QX q -> crashed (start_count A (Ok q) s) = false ->
  GH (start_count A (Ok q) s) /\ EQ (start_count A (Ok q) s).
Proof.
  intros [P Hne] Hq0 Hqx Hc. destruct (start_facts q s P) as (Est & Eqq & Eex).
  assert (G: GH (start_count A (Ok q) s)) by (apply gh_start; assumption).
  split; [exact G|].
  assert (Hno: forall c, In c (cands (start_count A (Ok q) s)) -> cst c <> Elected).
  { intros c Hcin He.
    assert (Hin: In (cid c, (cst c, cpend c)) (stl (cands (start_count A (Ok q) s)))) by (unfold Forward.stl; apply in_map_iff; exists c; auto).
    rewrite Est in Hin. unfold Forward.stl in Hin. apply in_map_iff in Hin. destruct Hin as (c0 & E0 & Hc0).
    apply (Hne c0 Hc0). pose proof (f_equal (fun x => fst (snd x)) E0) as E1. cbn in E1. congruence. }
  split; [intros c Hcin He; exfalso; exact (Hno c Hcin He)|].
  rewrite Eex, Eqq. split; [unfold V0; rewrite (r_of_int A S ZL); lia|exact Hqx].
Qed.

Lemma hq_of_member (s : est) c : GH s -> In c (cands s) -> R (quota s) <= R (cvote c) -> HQ s (cid c).
Proof.
  intros G Hcin Hq c' Hc' Ei. pose proof (nodup_cid_inj' (cands s) c' c (g_nd _ _ (proj1 G)) Hc' Hcin (eq_sym Ei)) as Ecc.
  first [rewrite Ecc|rewrite <- Ecc]; exact Hq.
Qed.

Theorem mpls_seats : T3 Pre2 (mpls A cfg) SeatsOK SeatsOK SeatsOK.
Proof.
  unfold mpls. eapply t_seq with (M := GE).
  - apply t_do_nc. intros s P Hcf. unfold new_round in Hcf. rewrite crashed_log in Hcf.
    change (crashed (start_count A (Ok (integer_droop_quota A cfg)) s) = false) in Hcf.
    destruct (start_ge _ s P (integer_quota_nonneg) integer_quota_exceeds Hcf) as [G E].
    destruct (ge_new_round _ G E) as [G1 E1].
    split; [split; [exact G1|unfold new_round; rewrite crashed_log; exact Hcf]|exact E1].
  - eapply t_seq with (M := GE).
    + eapply t_post; [|apply (t_while est (@crashed A) GE GE)]; [intros s [Hs|[Hs _]]; exact Hs|].
      eapply t_pre; [intros s [Hs _]; exact Hs|].
      eapply t_seq with (M := GE).
      { apply pnc2_triple; cbn [pnc2]; intros s G E _ _. split; [apply gh_log; apply (gh_same s); try reflexivity; exact G|].
        apply (eq_fr s); [eapply fr_trans; [|apply fr_log]; apply fr_same; reflexivity|apply elq_log; apply (elq_same s); [reflexivity|reflexivity|exact (proj1 E)]|exact E]. }
      eapply t_seq with (M := GE).
      { apply pnc2_triple; cbn [pnc2]. repeat match goal with |- _ /\ _ => split | |- True => exact I end.
        intros s G E _ _. split; [apply gh_fold_elect_np; exact G|].
        apply (eq_fr s); [apply (fr_fold (fun s c => elect A cfg (cid c) "Candidate at threshold" false s)); intros; apply fr_elect| |exact E].
        apply (elq_fold_elect (Some "Candidate at threshold"%string) (fun _ _ => false)); [exact (proj1 E)|].
        intros c Hc. pose proof (hwq_in A s true c Hc) as Hhop. unfold hopefuls in Hhop. apply filter_In in Hhop. destruct Hhop as [Hcin _].
        apply hq_of_member; [exact G|exact Hcin|]. unfold hopeful_with_quota in Hc. apply filter_In in Hc. destruct Hc as [_ Hx]. apply andb_prop in Hx. apply ge_quota_le. exact (proj2 Hx). }
      eapply t_seq with (M := GE); [apply pnc2_triple; cbn [pnc2]; intros s G E _ _; apply ge_new_round; assumption|].
      eapply t_seq with (M := GEI).
      { apply t_do_nc. intros s [[G Hc] E] Hcf. destruct (mpls_find_defeats_in s G Hcf) as (G1 & HB0 & _). split; [split; [split; assumption|]|exact HB0].
        unfold mpls_find_defeats in *. cbv zeta in *.
        match goal with |- context[match ?u with Ok _ => _ | Raise _ => _ end] => destruct u as [uv|e] end; [|rewrite sticky_set_crash in Hcf; discriminate].
        apply (eq_fr s); [apply fr_same; reflexivity|apply (elq_same s); [reflexivity|reflexivity|exact (proj1 E)]|exact E]. }
      eapply t_seq with (M := GE).
      { apply t_ite; [|apply t_skip'; intros s [[Hs _] _]; exact Hs].
        eapply t_seq with (M := GE); [|apply t_continue'; auto].
        apply t_do_nc. intros s [[[[G Hc] E] HB0] _] _. destruct (gh_mpls_defeat_batch s G Hc HB0) as [G1 Hc1].
        destruct (eq_mpls_defeat_batch s G Hc HB0 (proj1 E)) as [H1 F1]. split; [split; assumption|exact (eq_fr s _ F1 H1 E)]. }
      apply pnc2_triple. cbn [pnc2]. repeat match goal with |- _ /\ _ => split | |- True => exact I end.
      * intros s G E Hc Hcf. split; [apply gh_mpls_elect_high; assumption|]. destruct (eq_mpls_elect_high s G Hc (proj1 E)) as [H1 F1]. exact (eq_fr s _ F1 H1 E).
      * intros s G E Hc Hcf. split; [apply gh_mpls_defeat_low; assumption|]. destruct (eq_mpls_defeat_low s G Hc (proj1 E)) as [H1 F1]. exact (eq_fr s _ F1 H1 E).
    + eapply t_seq with (M := SeatsOK).
      * apply t_ite; [|apply t_skip'; intros s [[[G Hc] E] _]; split; [split; assumption|exact (seats_bound s (proj1 G) E)]].
        apply t_do_nc. intros s [[[G Hc] E] Hg] Hcf. split; [split; [apply gh_fold_elect_np; exact G|exact Hcf]|].
        pose proof (nel_fold_elect "Elect remaining candidates" false (hopefuls A s) s (g_nd _ _ (proj1 G))) as Hle.
        pose proof (seats_bound s (proj1 G) E) as Hsb.
        unfold seats_left, electeds in Hg. unfold nel, electeds in *. lia.
      * apply t_ite; [|apply t_skip'; intros s [Hs _]; exact Hs].
        apply t_do_nc. intros s [[[G Hc] Hn] Hg] Hcf. split; [split; [apply gh_fold_defeat; exact G|exact Hcf]|].
        pose proof (nel_fold_defeat "Defeat remaining candidates" (hopefuls A s) s). lia.
Qed.


(* ---- the round number only changes in new_round ---- *)
Lemma rd_log t m (s : est) : round (log_action A cfg t m s) = round s.
Proof. unfold log_action. destruct (is_log t); [reflexivity|]. destruct (is_round t); reflexivity. Qed.
Lemma rd_elect i m p (s : est) : round (elect A cfg i m p s) = round s.
Proof. unfold elect. destruct (find_cand A (cands s) i); [rewrite rd_log|]; reflexivity. Qed.
Lemma rd_defeat i m (s : est) : round (defeat A cfg i m s) = round s.
Proof. unfold defeat. destruct (find_cand A (cands s) i); [rewrite rd_log|]; reflexivity. Qed.
Lemma rd_unpend i m (s : est) : round (unpend A cfg i m s) = round s.
Proof.
  unfold unpend. destruct (find_cand A (cands s) i) as [c|]; [|reflexivity]. destruct (is_pending A c); [|reflexivity].
  destruct m; [rewrite rd_log|]; reflexivity.
Qed.
Lemma rd_fold {X} (g : est -> X -> est) (l : list X) : (forall s x, round (g s x) = round s) -> forall s, round (fold_left g l s) = round s.
Proof. intros Hg. induction l as [|x l IH]; intros s; cbn [fold_left]; [reflexivity|]. rewrite IH. apply Hg. Qed.
Lemma rd_bt bt tied (s : est) : bt_logs bt -> round (fst (bt tied s)) = round s.
Proof. intros Hb. destruct (Hb tied s) as [E|[(t & m & E)|(e & E & _)]]; rewrite E; [reflexivity|apply rd_log|reflexivity]. Qed.
Lemma rd_transfer keep (s : est) b : round (fst (transfer A keep s b)) = round s.
Proof. pose proof (transfer_spec keep s b) as H. cbv zeta in H. destruct H as (_ & _ & _ & [(c & cc & _ & _ & _ & E)|(_ & E)]); rewrite E; reflexivity. Qed.
Lemma rd_pb keep wsel sel bs : forall (s : est) acc, round (fst (process_ballots A (f_gen keep wsel) sel bs s acc)) = round s.
Proof.
  induction bs as [|b t IH]; intros s acc; cbn [process_ballots]; [reflexivity|]. destruct (crashed s); [reflexivity|]. destruct (sel b); [|apply IH].
  destruct (f_gen keep wsel s b) as [s1 b1] eqn:Ef. rewrite IH. unfold f_gen in Ef. destruct (wsel s b) as [w0|e0]; [|inversion Ef; reflexivity].
  pose proof (rd_transfer keep s (with_bweight b w0)) as Hq. rewrite Ef in Hq. exact Hq.
Qed.
Lemma rd_for_ballots keep wsel sel (s : est) : round (for_ballots A (f_gen keep wsel) sel s) = round s.
Proof.
  unfold for_ballots. pose proof (rd_pb keep wsel sel (ballots s) s []) as Hq.
  destruct (process_ballots A (f_gen keep wsel) sel (ballots s) s []) as [s1 bs1]. exact Hq.
Qed.
Lemma rd_plain keep sel (s : est) : round (for_ballots A (transfer A keep) sel s) = round s.
Proof. rewrite (for_ballots_ext _ _ sel s (transfer_as_gen keep)). apply rd_for_ballots. Qed.
Lemma rd_fold_set_vote x (l : list Z) : forall s : est, round (fold_left (fun s i => set_vote A i x s) l s) = round s.
Proof. apply rd_fold. reflexivity. Qed.
Lemma rd_elect_with_quota hq pend msg extra (s : est) : round (elect_with_quota A cfg hq pend msg extra s) = round s.
Proof. unfold elect_with_quota. cbv zeta. apply rd_fold. intros s0 c. destruct msg; [|unfold elect_default]; apply rd_elect. Qed.
Lemma rd_unpend_all (s : est) : round (unpend_all A cfg s) = round s.
Proof. unfold unpend_all. apply rd_fold. intros; apply rd_unpend. Qed.
Lemma rd_transfer_batch keep (s : est) : round (transfer_batch A cfg keep s) = round s.
Proof. unfold transfer_batch. cbv zeta. rewrite rd_log, rd_fold_set_vote, rd_plain. reflexivity. Qed.
Lemma rd_defeat_batch_order msg (s : est) : round (defeat_batch_in_ballot_order A cfg msg s) = round s.
Proof. unfold defeat_batch_in_ballot_order. apply rd_fold. intros; apply rd_defeat. Qed.
Lemma rd_cfer_defeat_low (s : est) : round (cfer_defeat_low A cfg s) = round s.
Proof.
  unfold cfer_defeat_low. destruct (low_candidates A s) as [[lv lows]|]; [|reflexivity].
  pose proof (rd_bt (bt_simple A cfg "defeat") lows s (bt_simple_logs _)) as E.
  destruct (bt_simple A cfg "defeat" lows s) as [s1 [l|]]; cbn [fst] in E; [|exact E]. cbn [round set_batch]. rewrite rd_defeat. exact E.
Qed.
Lemma rd_cfer_step (s : est) c : round (cfer_step s c) = round s.
Proof.
  unfold cfer_step. destruct (crashed s); [reflexivity|]. cbv zeta.
  pose proof (rd_unpend (cid c) (Some "Transfer surplus"%string) s) as E2.
  set (s2 := unpend A cfg (cid c) (Some "Transfer surplus"%string) s) in *.
  destruct (crashed s2); [exact E2|].
  pose proof (rd_for_ballots (is_hopeful A) (fun s b => rew_wigm A (bweight b) (sub A (cvote_of A s2 (cid c)) (quota s2)) (cvote_of A s (cid c))) (top_is A (cid c)) s2) as E3.
  change (for_ballots A (f_gen (is_hopeful A) (fun s b => rew_wigm A (bweight b) (sub A (cvote_of A s2 (cid c)) (quota s2)) (cvote_of A s (cid c)))) (top_is A (cid c)) s2)
    with (for_ballots A (reweigh_transfer A (is_hopeful A) (rew_wigm A) (cid c) (sub A (cvote_of A s2 (cid c)) (quota s2))) (top_is A (cid c)) s2) in E3.
  set (s3 := for_ballots A (reweigh_transfer A (is_hopeful A) (rew_wigm A) (cid c) (sub A (cvote_of A s2 (cid c)) (quota s2))) (top_is A (cid c)) s2) in *.
  destruct (crashed s3); [congruence|]. rewrite rd_log. transitivity (round s3); [reflexivity|congruence].
Qed.
Lemma rd_cfer_transfer_all (s : est) : round (cfer_transfer_all_pending A cfg s) = round s.
Proof.
  unfold cfer_transfer_all_pending. change (fold_left _ (pendings A s) s) with (fold_left cfer_step (pendings A s) s).
  apply rd_fold. intros; apply rd_cfer_step.
Qed.
Lemma rd_start q (s : est) : round (start_count A (Ok q) s) = round s.
Proof.
  unfold start_count, initial_count. cbn [round set_exhausted].
  rewrite (rd_fold (fun s b => match top_rank A b with Some c => add_vote A c (bvote A b) s | None => set_crash s AttributeError end)); [reflexivity|].
  intros s0 b. destruct (top_rank A b); reflexivity.
Qed.

Lemma eq_cfer_step (s : est) c : GH s -> In c (cands s) -> is_pending A c = true -> ElQ s ->
  ElQ (cfer_step s c) /\ FR s (cfer_step s c).
Proof.
  intros G Hcin Ep H. unfold cfer_step. destruct (crashed s) eqn:Hc; [split; [exact H|apply fr_refl]|]. cbv zeta.
  set (h := cid c).
  set (s2 := unpend A cfg h (Some "Transfer surplus"%string) s).
  assert (G2: GH s2) by (apply gh_unpend; exact G).
  assert (H2: ElQ s2) by (apply elq_unpend; assumption).
  assert (F2: FR s s2) by apply fr_unpend.
  destruct (crashed s2) eqn:Hc2; [split; assumption|].
  set (surp := sub A (cvote_of A s2 h) (quota s2)).
  assert (Hs: 0 <= R surp /\ 0 <= R (cvote_of A s2 h)).
  { unfold surp. rewrite (r_sub A S ZL). unfold cvote_of. destruct (find_cand A (cands s2) h) as [c2|] eqn:Ef2.
    - destruct (find_cand_In _ _ _ Ef2) as [Hc2in Hid2].
      assert (He2: cst c2 = Elected).
      { destruct (unpend_pending h (Some "Transfer surplus"%string) s c (g_nd _ _ (proj1 G)) Hcin eq_refl Ep) as (Ec2 & _).
        fold s2 in Ec2. rewrite Ec2 in Hc2in. destruct (in_upd_cand' _ _ _ _ Hc2in) as (c0 & Hc0 & [[Ei ->]|[Ei ->]]); [reflexivity|congruence]. }
      pose proof (H2 c2 Hc2in He2). pose proof (g_nonneg _ _ (proj1 G2) c2 Hc2in). lia.
    - exfalso.
      destruct (unpend_pending h (Some "Transfer surplus"%string) s c (g_nd _ _ (proj1 G)) Hcin eq_refl Ep) as (Ec2 & _). fold s2 in Ec2.
      assert (Hin2: In h (map (@cid A) (cands s2))) by (rewrite Ec2, cids_upd; [apply in_map; exact Hcin|reflexivity]).
      destruct (find_cand_in A _ _ Hin2) as [c2 E2]. congruence. }
  destruct (elq_for_ballots (is_hopeful A) (fun s b => rew_wigm A (bweight b) surp (cvote_of A s h)) (top_is A h)
              (fun t => 0 <= R (cvote_of A t h)) s2) as (H3 & _ & F3); try assumption.
  - intros t b w Ht [Hw0 _] Ew. exact (proj1 (rew_wigm_ok (bweight b) surp (cvote_of A t h) w Hw0 (proj1 Hs) Ht Ew)).
  - intros t t' Ht Hm. pose proof (cvote_of_mono (cands t) (cands t') h Hm) as Hle. unfold cvote_of. unfold cvote_of in Ht. lia.
  - exact (proj2 Hs).
  - change (for_ballots A (f_gen (is_hopeful A) (fun s b => rew_wigm A (bweight b) surp (cvote_of A s h))) (top_is A h) s2)
      with (for_ballots A (reweigh_transfer A (is_hopeful A) (rew_wigm A) h surp) (top_is A h) s2) in H3, F3.
    set (s3 := for_ballots A (reweigh_transfer A (is_hopeful A) (rew_wigm A) h surp) (top_is A h) s2) in *.
    assert (F3': FR s s3) by (eapply fr_trans; [exact F2|exact F3]).
    destruct (crashed s3); [split; assumption|]. split; [apply elq_log; apply elq_set_vote_quota; exact H3|].
    eapply fr_trans; [exact F3'|]. eapply fr_trans; [|apply fr_log]. apply fr_same; reflexivity.
Qed.

Lemma eq_cfer_fold (l : list cand) : forall s, GH s -> crashed s = false -> NoDup (map (@cid A) l) ->
  (forall c, In c l -> In c (cands s) /\ is_pending A c = true) -> ElQ s ->
  crashed (fold_left cfer_step l s) = false ->
  ElQ (fold_left cfer_step l s) /\ FR s (fold_left cfer_step l s).
Proof.
  induction l as [|c0 l IH]; intros s G Hc Hnd Hl H Hcf; cbn [fold_left] in *; [split; [exact H|apply fr_refl]|].
  inversion Hnd as [|? ? Hnotin Hnd']; subst.
  assert (Hc1: crashed (cfer_step s c0) = false).
  { destruct (crashed (cfer_step s c0)) eqn:C; [|reflexivity]. rewrite (cfer_step_crashed l _ C) in Hcf. congruence. }
  destruct (Hl c0 (or_introl eq_refl)) as [Hin0 Hp0].
  destruct (gh_cfer_step s c0 G Hc Hin0 Hp0 Hc1) as (G1 & Elb & Hfr).
  destruct (eq_cfer_step s c0 G Hin0 Hp0 H) as [H1 F1].
  destruct (IH (cfer_step s c0) G1 Hc1 Hnd') as [H' F']; [|exact H1|exact Hcf|split; [exact H'|eapply fr_trans; [exact F1|exact F']]].
  intros c Hcl. destruct (Hl c (or_intror Hcl)) as [Hin Hp]. split; [|exact Hp]. apply Hfr; [exact Hin| |].
  - intros E. apply Hnotin. rewrite <- E. apply in_map. exact Hcl.
  - unfold is_hopeful, in_state. unfold is_pending, in_state in Hp. destruct (cst c); cbn in *; congruence.
Qed.

Lemma eq_cfer_transfer_all (s : est) : GH s -> crashed s = false -> ElQ s -> crashed (cfer_transfer_all_pending A cfg s) = false ->
  ElQ (cfer_transfer_all_pending A cfg s) /\ FR s (cfer_transfer_all_pending A cfg s).
Proof.
  intros G Hc H Hcf. unfold cfer_transfer_all_pending in *.
  change (fold_left _ (pendings A s) s) with (fold_left cfer_step (pendings A s) s) in *.
  apply eq_cfer_fold; try assumption.
  - unfold pendings. apply nodup_filter_map. exact (g_nd _ _ (proj1 G)).
  - intros c Hcp. exact (pending_in s c Hcp).
Qed.

Lemma eq_cfer_defeat_low (s : est) : GH s -> ElQ s -> ElQ (cfer_defeat_low A cfg s) /\ FR s (cfer_defeat_low A cfg s).
Proof.
  intros G H. unfold cfer_defeat_low.
  destruct (low_candidates A s) as [[lv lows]|] eqn:El; [|split; [apply (elq_same s); [reflexivity|reflexivity|exact H]|apply fr_same; reflexivity]].
  destruct (bt_frame (bt_simple A cfg "defeat") lows s (bt_simple_logs _) G) as (G1 & Ec1 & Eb1 & Eq1 & Ecr1).
  assert (H1: ElQ (fst (bt_simple A cfg "defeat" lows s))) by (apply (elq_same s); assumption).
  pose proof (fr_bt (bt_simple A cfg "defeat") lows s (bt_simple_logs _)) as F1.
  destruct (bt_simple A cfg "defeat" lows s) as [s1 [l|]]; cbn [fst snd] in *; [|split; assumption].
  split; [apply (elq_same (defeat A cfg l "Defeat" s1)); [reflexivity|reflexivity|apply elq_defeat; exact H1]|].
  eapply fr_trans; [exact F1|]. eapply fr_trans; [apply (fr_defeat l "Defeat" s1)|apply fr_same; reflexivity].
Qed.


(* ---- counting the candidates still in the running (elected or hopeful) ---- *)
Definition eh (c : cand) : bool := in_state A Elected c || in_state A Hopeful c.
Definition neh (l : list cand) : Z := nlen (filter eh l).
Lemma neh_split (l : list cand) : neh l = nel l + nlen (filter (in_state A Hopeful) l).
Proof.
  unfold neh, nel, nlen, eh. induction l as [|c l IH]; [reflexivity|]. cbn [filter].
  assert (Hx: in_state A Elected c && in_state A Hopeful c = false) by (unfold in_state; destruct (cst c); reflexivity).
  destruct (in_state A Elected c), (in_state A Hopeful c); cbn [orb andb] in *; try discriminate; cbn [List.length]; lia.
Qed.
Lemma neh_upd_same i f (l : list cand) : (forall c, In c l -> cid c = i -> eh (f c) = eh c) -> neh (upd_cand A i f l) = neh l.
Proof.
  unfold neh, nlen, upd_cand. induction l as [|c l IH]; intros H; [reflexivity|]. cbn [map filter].
  pose proof (IH (fun c' Hc' => H c' (or_intror Hc'))) as IH'. destruct (cid c =? i) eqn:E.
  - rewrite (H c (or_introl eq_refl) ltac:(lia)). destruct (eh c); cbn [List.length]; lia.
  - destruct (eh c); cbn [List.length]; lia.
Qed.
Definition SatEH (s : est) (j : Z) : Prop := forall c, In c (cands s) -> cid c = j -> eh c = true.
Lemma neh_elect i m p (s : est) : SatEH s i -> neh (cands (elect A cfg i m p s)) = neh (cands s).
Proof.
  intros H. unfold elect. destruct (find_cand A (cands s) i) as [c0|]; [|reflexivity]. rewrite cands_log. unfold upd. cbn [cands set_cands].
  apply neh_upd_same. intros c Hc Ei. rewrite (H c Hc Ei). reflexivity.
Qed.
Lemma sateh_elect i j m p (s : est) : SatEH s j -> SatEH (elect A cfg i m p s) j.
Proof.
  intros H c' Hc' Ej. unfold elect in Hc'. destruct (find_cand A (cands s) i) as [c0|]; [|exact (H c' Hc' Ej)].
  rewrite cands_log in Hc'. unfold upd in Hc'. cbn [cands set_cands] in Hc'.
  destruct (in_upd_cand' _ _ _ _ Hc') as (c1 & Hc & [[Ei ->]|[Ei ->]]); [reflexivity|exact (H c1 Hc Ej)].
Qed.
Lemma neh_fold_elect m p (l : list cand) : forall s : est, (forall c, In c l -> SatEH s (cid c)) ->
  neh (cands (fold_left (fun s c => elect A cfg (cid c) m p s) l s)) = neh (cands s).
Proof.
  induction l as [|c0 l IH]; intros s Hl; cbn [fold_left]; [reflexivity|]. rewrite IH.
  - apply neh_elect. apply Hl. left; reflexivity.
  - intros c Hc. apply sateh_elect. apply Hl. right; exact Hc.
Qed.
Lemma nel_le_neh (l : list cand) : nel l <= neh l.
Proof. rewrite neh_split. unfold nlen. lia. Qed.
Lemma sateh_member (s : est) c : NoDup (map (@cid A) (cands s)) -> In c (cands s) -> eh c = true -> SatEH s (cid c).
Proof.
  intros Hnd Hcin He c' Hc' Ei. pose proof (nodup_cid_inj' (cands s) c' c Hnd Hc' Hcin (eq_sym Ei)) as Ecc.
  first [rewrite Ecc|rewrite <- Ecc]; exact He.
Qed.
Lemma sateh_hopefuls (s : est) c : NoDup (map (@cid A) (cands s)) -> In c (hopefuls A s) -> SatEH s (cid c).
Proof.
  intros Hnd Hc. unfold hopefuls in Hc. apply filter_In in Hc. destruct Hc as [Hcin Hh]. apply sateh_member; [exact Hnd|exact Hcin|].
  unfold eh. rewrite Hh. apply orb_true_r.
Qed.
Lemma sateh_pendings (s : est) c : NoDup (map (@cid A) (cands s)) -> In c (pendings A s) -> SatEH s (cid c).
Proof.
  intros Hnd Hc. destruct (pending_in s c Hc) as [Hcin Hp]. apply sateh_member; [exact Hnd|exact Hcin|].
  unfold is_pending in Hp. apply andb_prop in Hp. unfold eh. rewrite (proj1 Hp). reflexivity.
Qed.


(* ---- cfer, cfer-batch: the seat bound.  Round 1 may elect every candidate when they all fit; that happens before anybody
        else is elected (the round counter starts at 0 and only new_round changes it). ---- *)
Definition Pre3 (s : est) : Prop := Pre2 s /\ round s = 0.
Definition GR (s : est) : Prop := GE s /\ 1 <= round s.
Definition GRI (s : est) : Prop := GR s /\ BatchIn s.
Definition GRD (s : est) : Prop := GR s /\ BatchD s.
Definition CI (s : est) : Prop := GE s /\ 0 <= round s /\ (round s = 0 -> nel (cands s) = 0).

Lemma gr_step (f : est -> est) (Qb Qc : est -> Prop) : (forall s, round (f s) = round s) ->
  (forall s, GH s -> EQ s -> crashed s = false -> crashed (f s) = false -> GH (f s) /\ EQ (f s)) ->
  T3 GR (Do f) GR Qb Qc.
Proof.
  intros Hr Hf. apply t_do_nc. intros s [[[G Hc] E] Hrd] Hcf. destruct (Hf s G E Hc Hcf) as [G1 E1].
  split; [split; [split; assumption|exact E1]|rewrite Hr; exact Hrd].
Qed.

Lemma nel_zero (l : list cand) : (forall c, In c l -> cst c <> Elected) -> nel l = 0.
Proof.
  unfold nel, nlen. induction l as [|c l IH]; intros H; [reflexivity|]. cbn [filter].
  assert (E: in_state A Elected c = false) by (unfold in_state; pose proof (H c (or_introl eq_refl)); destruct (cst c); try reflexivity; congruence).
  rewrite E. apply IH. intros c' Hc'. apply H. right; exact Hc'.
Qed.

Lemma seatsok_of_neh (s : est) : GN s -> neh (cands s) <= cf_nseats cfg -> SeatsOK s.
Proof. intros G Hn. split; [exact G|]. pose proof (nel_le_neh (cands s)). lia. Qed.

Theorem cfer_seats : T3 Pre3 (cfer A cfg) SeatsOK SeatsOK SeatsOK.
Proof.
  unfold cfer. eapply t_seq with (M := CI).
  { apply t_do_nc. intros s [P Hr0] Hcf. rewrite crashed_log in Hcf. destruct (droop_quota_eps A cfg) as [q|e] eqn:Edq.
    2:{ unfold start_count in Hcf. rewrite sticky_set_crash in Hcf. discriminate. }
    destruct (start_ge q s P (droop_quota_eps_nonneg q Edq) (droop_quota_eps_exceeds q Edq) Hcf) as [G E].
    split; [split; [split; [apply gh_log; exact G|rewrite crashed_log; exact Hcf]|]|].
    - apply (eq_fr (start_count A (Ok q) s)); [apply fr_log|apply elq_log; exact (proj1 E)|exact E].
    - rewrite rd_log, rd_start, Hr0. split; [lia|]. intros _. rewrite cands_log.
      destruct (start_facts q s (proj1 P)) as (Est & _). destruct P as [_ Hne].
      apply nel_zero. intros c Hcin He.
      assert (Hin: In (cid c, (cst c, cpend c)) (stl (cands (start_count A (Ok q) s)))) by (unfold Forward.stl; apply in_map_iff; exists c; auto).
      rewrite Est in Hin. unfold Forward.stl in Hin. apply in_map_iff in Hin. destruct Hin as (c0 & E0 & Hc0).
      apply (Hne c0 Hc0). pose proof (f_equal (fun x => fst (snd x)) E0) as E1. cbn in E1. congruence. }
  eapply t_post; [|apply (t_while est (@crashed A) CI SeatsOK)]; [intros s [Hs|[_ Hg]]; [exact Hs|discriminate]|].
  eapply t_pre; [intros s [Hs _]; exact Hs|].
  (* new round *)
  eapply t_seq with (M := fun s => GR s /\ (round s = 1 -> nel (cands s) = 0)).
  { apply t_do_nc. intros s [[[G Hc] E] [Hr0 Hn0]] Hcf. destruct (ge_new_round s G E) as [G1 E1].
    assert (Er: round (new_round A cfg s) = round s + 1) by (unfold new_round; rewrite rd_log; reflexivity).
    split; [split; [split; [split; assumption|exact E1]|lia]|]. intros H1. unfold new_round. rewrite cands_log. apply Hn0. lia. }
  (* everybody fits: elect all *)
  eapply t_seq with (M := GR).
  { apply t_ite; [|apply t_skip'; intros s [[Hs _] _]; exact Hs].
    eapply t_seq with (M := SeatsOK); [|apply t_break'; auto].
    apply t_do_nc. intros s [[[[[G Hc] E] Hrd] Hn1] Hg] Hcf. apply andb_prop in Hg. destruct Hg as [Hg1 Hg2].
    apply seatsok_of_neh; [split; [apply gh_fold_elect_np; exact G|exact Hcf]|].
    rewrite neh_fold_elect; [|intros c Hcin; apply sateh_hopefuls; [exact (g_nd _ _ (proj1 G))|exact Hcin]].
    rewrite neh_split, (Hn1 ltac:(lia)). unfold hopefuls in Hg2. lia. }
  eapply t_seq with (M := GR).
  { apply gr_step; [intros; apply rd_elect_with_quota|]. intros s G E _ _. apply ge_elect_with_quota; [intros c; apply ge_quota_le|exact G|exact E]. }
  (* all seats filled *)
  eapply t_seq with (M := GR).
  { apply t_ite; [|apply t_skip'; intros s [Hs _]; exact Hs].
    eapply t_seq with (M := SeatsOK); [|eapply t_seq with (M := SeatsOK); [|apply t_break'; auto]].
    - apply t_do_nc. intros s [[[[G Hc] E] _] _] Hcf. split; [split; [apply gh_unpend_all; exact G|exact Hcf]|].
      rewrite (nel_unpend_all s (g_nd _ _ (proj1 G))). exact (seats_bound s (proj1 G) E).
    - apply t_do_nc. intros s [[G Hc] Hn] Hcf. split; [split; [apply gh_fold_defeat; exact G|exact Hcf]|].
      pose proof (nel_fold_defeat "Defeat remaining" (hopefuls A s) s). lia. }
  eapply t_seq with (M := GRI).
  { apply t_do_nc. intros s [[[G Hc] E] Hrd] _. split; [split; [split; [split; [apply (gh_same s); try reflexivity; exact G|exact Hc]|]|exact Hrd]|].
    - apply (eq_fr s); [apply fr_same; reflexivity|apply (elq_same s); [reflexivity|reflexivity|exact (proj1 E)]|exact E].
    - unfold cfer_find_batch. destruct (cf_batch cfg); [|intros i []].
      apply (batchin_of_hopefuls s _ (cfer_batch A cfg s)); [reflexivity|reflexivity|apply cfer_batch_hopeful]. }
  eapply t_seq with (M := GRD).
  { apply t_ite.
    - apply t_do_nc. intros s [[[[[G Hc] E] Hrd] HB0] _] _. destruct (gh_defeat_batch_order "Defeat batch" s G HB0) as (G1 & Ecr & HD).
      split; [split; [split; [split; [exact G1|rewrite Ecr; exact Hc]|]|rewrite rd_defeat_batch_order; exact Hrd]|exact HD].
      apply (eq_fr s); [apply fr_defeat_batch_order|apply elq_defeat_batch_order; exact (proj1 E)|exact E].
    - apply t_ite.
      + apply t_do_nc. intros s [[[[[[G Hc] E] Hrd] HB0] Hg] _] Hcf. destruct (gh_cfer_transfer_all s G Hc Hcf) as [G1 Elb].
        destruct (eq_cfer_transfer_all s G Hc (proj1 E) Hcf) as [H1 F1].
        split; [split; [split; [split; assumption|exact (eq_fr s _ F1 H1 E)]|rewrite rd_cfer_transfer_all; exact Hrd]|].
        intros i Hi. rewrite Elb, (nonempty_false _ Hg) in Hi. destruct Hi.
      + apply t_do_nc. intros s [[[[[[G Hc] E] Hrd] HB0] Hg] _] Hcf. destruct (gh_cfer_defeat_low s G Hc Hcf) as [G1 HD].
        destruct (eq_cfer_defeat_low s G (proj1 E)) as [H1 F1].
        split; [split; [split; [split; assumption|exact (eq_fr s _ F1 H1 E)]|rewrite rd_cfer_defeat_low; exact Hrd]|exact HD]. }
  assert (HCI: forall s, GR s -> CI s).
  { intros s [Hs Hrd]. split; [exact Hs|]. split; [lia|intros; lia]. }
  apply t_ite; [|apply t_skip'; intros s [[Hs _] _]; apply HCI; exact Hs].
  eapply t_seq with (M := GRD).
  - apply t_ite; [|apply t_skip'; intros s [[Hs _] _]; exact Hs].
    eapply t_seq with (M := fun s => GN s /\ neh (cands s) <= cf_nseats cfg); [|eapply t_seq with (M := SeatsOK); [|apply t_break'; auto]].
    + apply t_do_nc. intros s [[[[[[G Hc] E] _] _] _] Hg] Hcf. split; [split; [apply gh_fold_elect_np; exact G|exact Hcf]|].
      rewrite neh_fold_elect; [|intros c Hcin; apply sateh_pendings; [exact (g_nd _ _ (proj1 G))|exact Hcin]].
      rewrite neh_split. unfold hopefuls, electeds in Hg. unfold nel. lia.
    + apply t_do_nc. intros s [[G Hc] Hn] Hcf. apply seatsok_of_neh; [split; [apply gh_fold_elect_np; exact G|exact Hcf]|].
      rewrite neh_fold_elect; [exact Hn|intros c Hcin; apply sateh_hopefuls; [exact (g_nd _ _ (proj1 G))|exact Hcin]].
  - apply t_do_nc. intros s [[[[G Hc] E] Hrd] HD] Hcf. destruct is_hopeful_props as (K1 & K2 & K3).
    destruct (gh_transfer_batch (is_hopeful A) s K1 K2 K3 G Hc HD) as [G1 Hc1]. apply HCI.
    split; [split; [split; assumption|]|rewrite rd_transfer_batch; exact Hrd].
    apply (eq_fr s); [apply fr_transfer_batch; exact G|apply elq_transfer_batch; [exact G|exact (proj1 E)|exact HD]|exact E].
Qed.


End Ops.
End Conserve.
