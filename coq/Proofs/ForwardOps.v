(* Forward-only status for the micro-operations of the rules (C09, C18).  Same structure as Hist.v, with
   preconditions where a status is written. *)
From Coq Require Import ZArith List Bool String Lia Permutation.
From Droop Require Import Model.KernelBase Model.Str Model.Arith Model.Prelude Model.State Model.Prims
  Model.RulesGregory Model.RulesMeek Model.Election Proofs.CmdMeta Proofs.SortLemmas Proofs.Forward Proofs.Ties.
Import ListNotations.
Open Scope Z_scope.

Section Ops.
Variable A : arith.
Variable cfg : config.
Notation est := (est A).
Notation R := (R A).
Notation Sat := (Sat A).

Definition ND (s : est) : Prop := NoDup (map (@cid A) (cands s)).
Lemma nd_R x s : R x s -> ND x -> ND s.
Proof. intros H Hn. unfold ND. rewrite <- (R_cids A _ _ H). exact Hn. Qed.

(* setters that touch neither candidates nor actions *)
Ltac same := intros H; eapply (r_same A); [exact H|reflexivity|reflexivity].
Lemma f_ballots x s c : R x s -> R x (set_ballots s c). Proof. same. Qed.
Lemma f_eballots x s c : R x s -> R x (set_eballots s c). Proof. same. Qed.
Lemma f_quota x s c : R x s -> R x (set_quota s c). Proof. same. Qed.
Lemma f_surplus x s c : R x s -> R x (set_surplus s c). Proof. same. Qed.
Lemma f_votes x s c : R x s -> R x (set_votes s c). Proof. same. Qed.
Lemma f_exhausted x s c : R x s -> R x (set_exhausted s c). Proof. same. Qed.
Lemma f_residual x s c : R x s -> R x (set_residual s c). Proof. same. Qed.
Lemma f_round x s c : R x s -> R x (set_round s c). Proof. same. Qed.
Lemma f_rounds x s c : R x s -> R x (set_rounds s c). Proof. same. Qed.
Lemma f_crash x s c : R x s -> R x (set_crash s c). Proof. same. Qed.
Lemma f_flag x s c : R x s -> R x (set_flag s c). Proof. same. Qed.
Lemma f_last x s c : R x s -> R x (set_last s c). Proof. same. Qed.
Lemma f_status x s c : R x s -> R x (set_status s c). Proof. same. Qed.
Lemma f_batch x s c : R x s -> R x (set_batch s c). Proof. same. Qed.
Lemma f_txva x s a b : R x s -> R x (set_txva s a b). Proof. same. Qed.

Lemma f_log x t m s : R x s -> R x (log_action A cfg t m s). Proof. apply r_log. Qed.
Lemma f_logmsg x m s : R x s -> R x (log_msg A cfg m s). Proof. apply r_log. Qed.
Lemma f_new_round x s : R x s -> R x (new_round A cfg s).
Proof. intros H. unfold new_round. apply f_log, f_round, H. Qed.

Lemma f_set_vote x i v s : R x s -> R x (set_vote A i v s).
Proof. intros H. apply r_upd_same; [exact H|]. intros c; repeat split. Qed.
Lemma f_add_vote x i v s : R x s -> R x (add_vote A i v s).
Proof. intros H. apply r_upd_same; [exact H|]. intros c; repeat split. Qed.
Lemma f_upd_kf x i k s : R x s -> R x (upd A s i (fun c => with_kf c k)).
Proof. intros H. apply r_upd_same; [exact H|]. intros c; repeat split. Qed.
Lemma f_upd_quo x i k s : R x s -> R x (upd A s i (fun c => with_quo c k)).
Proof. intros H. apply r_upd_same; [exact H|]. intros c; repeat split. Qed.

(* unpend: checked by the model itself (is_pending), hence unconditional given distinct cids *)
Lemma nodup_cid_inj (l : list (cand A)) c c' : NoDup (map (@cid A) l) -> In c l -> In c' l -> cid c' = cid c -> c' = c.
Proof.
  induction l as [|y l IH]; intros Hnd Hc Hc' E; [contradiction|]. cbn in Hnd. inversion Hnd as [|? ? Hn Hnd']; subst.
  destruct Hc as [Hc|Hc], Hc' as [Hc'|Hc']; subst; auto.
  - exfalso. apply Hn. rewrite <- E. apply in_map. exact Hc'.
  - exfalso. apply Hn. rewrite E. apply in_map. exact Hc.
Qed.
Lemma find_cand_unique (l : list (cand A)) i c c' : NoDup (map (@cid A) l) ->
  find_cand A l i = Some c -> In c' l -> cid c' = i -> c' = c.
Proof.
  intros Hnd Hf Hin Hi. unfold find_cand in Hf. apply find_some in Hf. destruct Hf as [Hc Hci].
  apply (nodup_cid_inj l); auto. lia.
Qed.

Lemma f_unpend x i m s : R x s -> ND s -> R x (unpend A cfg i m s).
Proof.
  intros H Hnd. unfold unpend. destruct (find_cand A (cands s) i) as [c|] eqn:Ef; [|apply f_crash; exact H].
  destruct (is_pending A c) eqn:Ep; [|apply f_crash; exact H].
  assert (HR: R x (upd A s i (fun c0 => with_st c0 Elected (Some false)))).
  { apply (r_upd_st A x s i Elected (fun _ => Some false)); [exact H|]. intros c' Hc' Hi _.
    rewrite (find_cand_unique _ _ _ _ Hnd Ef Hc' Hi). unfold is_pending, in_state in Ep.
    destruct (cst c); cbn in Ep; try discriminate Ep. unfold fwd. cbn [fst snd pend_true]. intros X; discriminate X. }
  destruct m; [apply f_log|]; exact HR.
Qed.

Lemma f_fold {X} (f : est -> X -> est) l : (forall x s y, R x s -> ND s -> R x (f s y)) ->
  forall x s, R x s -> ND s -> R x (fold_left f l s).
Proof.
  intros Hf. induction l as [|y l IH]; intros x s H Hn; cbn [fold_left]; [exact H|].
  apply IH; [apply Hf; assumption|]. eapply nd_R; [apply Hf; [apply R_refl|exact Hn]|exact Hn].
Qed.

(* ballots *)
Lemma f_transfer x keep s b : R x s -> R x (fst (transfer A keep s b)).
Proof.
  intros H. unfold transfer. cbv zeta. destruct (top_rank A _); cbn [fst]; [apply f_add_vote|apply f_exhausted]; exact H.
Qed.
Lemma f_reweigh x keep rew i surp s b : R x s -> R x (fst (reweigh_transfer A keep rew i surp s b)).
Proof.
  intros H. unfold reweigh_transfer. destruct (rew _ _ _); [apply f_transfer|cbn [fst]; apply f_crash]; exact H.
Qed.
Lemma f_process f sel : (forall x s b, R x s -> R x (fst (f s b))) ->
  forall bs x s acc, R x s -> R x (fst (process_ballots A f sel bs s acc)).
Proof.
  intros Hf. induction bs as [|b t IH]; intros x s acc H; cbn [process_ballots]; [exact H|].
  destruct (crashed s); [exact H|]. destruct (sel b); [|apply IH; exact H].
  specialize (Hf x s b H). destruct (f s b) as [s' b']. apply IH. exact Hf.
Qed.
Lemma f_for_ballots f sel x s : (forall x s b, R x s -> R x (fst (f s b))) -> R x s -> R x (for_ballots A f sel s).
Proof.
  intros Hf H. unfold for_ballots. pose proof (f_process f sel Hf (ballots s) x s [] H) as P.
  destruct (process_ballots A f sel (ballots s) s []) as [s' bs]. apply f_ballots. exact P.
Qed.
Lemma f_fold0 {X} (f : est -> X -> est) l : (forall x s y, R x s -> R x (f s y)) ->
  forall x s, R x s -> R x (fold_left f l s).
Proof. intros Hf. induction l as [|y l IH]; intros x s H; cbn [fold_left]; [exact H|]. apply IH, Hf, H. Qed.

Lemma f_initial_count x s : R x s -> R x (initial_count A s).
Proof.
  intros H. unfold initial_count. apply f_fold0; [|exact H]. intros y t b Hy.
  destruct (top_rank A b); [apply f_add_vote|apply f_crash]; exact Hy.
Qed.

Lemma f_start_count x q s : R x s -> R x (start_count A q s).
Proof. intros H. unfold start_count. destruct q; [apply f_exhausted, f_initial_count, f_quota|apply f_crash]; exact H. Qed.

Lemma f_transfer_defeated_one x i s : R x s -> R x (transfer_defeated_one A cfg i s).
Proof.
  intros H. unfold transfer_defeated_one. cbv zeta. apply f_log, f_set_vote, f_for_ballots; [|exact H].
  intros; apply f_transfer; assumption.
Qed.

(* break_tie only logs; its choice is one of the tied *)
Lemma f_break_tie x fmt tied s : R x s -> R x (fst (break_tie A cfg fmt tied s)).
Proof.
  intros H. unfold break_tie. destruct tied as [|c [|c2 t]]; cbn [fst]; [apply f_crash; exact H|exact H|].
  destruct (by_tie A (c :: c2 :: t)); cbn [fst]; [apply f_crash|apply f_log]; exact H.
Qed.
Lemma break_tie_cands fmt tied (s : est) : cands (fst (break_tie A cfg fmt tied s)) = cands s.
Proof.
  unfold break_tie. destruct tied as [|c [|c2 t]]; cbn [fst]; try reflexivity.
  destruct (by_tie A (c :: c2 :: t)); cbn [fst]; [reflexivity|]. unfold log_action. cbn [is_log is_round]. reflexivity.
Qed.

(* a tie-breaker: logs only, keeps the candidates, chooses among the tied *)
Definition bt_ok (bt : list (cand A) -> est -> est * option Z) : Prop :=
  forall tied s, (forall x, R x s -> R x (fst (bt tied s))) /\ cands (fst (bt tied s)) = cands s /\
                 (forall i, snd (bt tied s) = Some i -> exists c, In c tied /\ cid c = i).
Lemma bt_simple_ok reason : bt_ok (bt_simple A cfg reason).
Proof.
  intros tied s. unfold bt_simple. split; [intros; apply f_break_tie; assumption|]. split; [apply break_tie_cands|].
  intros i Hi. destruct (break_tie A cfg (tie_fmt reason) tied s) as [s' o] eqn:E. cbn in Hi. subst o.
  exact (proj1 (break_tie_spec A cfg _ _ _ _ _ E)).
Qed.

(* elect the hopefuls in list l (all hopeful in s, distinct) *)
Lemma sat_of_pre (s : est) i (P Q : sp -> Prop) : (forall a, P a -> Q a) -> Sat s i P -> Sat s i Q.
Proof. intros HPQ HS c Hc Hi. apply HPQ. exact (HS c Hc Hi). Qed.

Lemma f_fold_cand (op : est -> cand A -> est) (pre : sp -> Prop) (l : list (cand A)) :
  (forall x s c, R x s -> Sat s (cid c) pre -> R x (op s c)) ->
  (forall s c j, j <> cid c -> Sat s j pre -> Sat (op s c) j pre) ->
  forall x s, R x s -> NoDup (map (@cid A) l) -> (forall c, In c l -> Sat s (cid c) pre) ->
  R x (fold_left op l s).
Proof.
  intros Hop Hoth. induction l as [|c0 l IH]; intros x s HR Hnd Hpre; cbn [fold_left]; [exact HR|].
  inversion Hnd as [|? ? Hnotin Hnd']; subst. apply IH; [|exact Hnd'|].
  - apply Hop; [exact HR|apply Hpre; left; reflexivity].
  - intros c Hc. apply Hoth; [|apply Hpre; right; exact Hc].
    intros E. apply Hnotin. rewrite <- E. apply in_map. exact Hc.
Qed.

Definition isH (a : sp) : Prop := fst a = Hopeful.

Lemma f_elect_H x i m p s : R x s -> Sat s i isH -> R x (elect A cfg i m p s).
Proof. intros H HS. apply r_elect; [exact H|]. eapply sat_of_pre; [|exact HS]. intros [st pd] Ha. unfold isH in Ha. cbn in Ha. rewrite Ha. exact I. Qed.
Lemma f_defeat_H x i m s : R x s -> Sat s i isH -> R x (defeat A cfg i m s).
Proof. intros H HS. apply r_defeat; [exact H|]. eapply sat_of_pre; [|exact HS]. intros a Ha. left; exact Ha. Qed.

Lemma hopeful_list_ok (s : est) (l : list (cand A)) : ND s -> (forall c, In c l -> In c (hopefuls A s)) ->
  forall c, In c l -> Sat s (cid c) isH.
Proof. intros Hnd Hl c Hc. apply hopeful_sat; [exact Hnd|apply Hl; exact Hc]. Qed.

Lemma nodup_hopefuls (s : est) : ND s -> NoDup (map (@cid A) (hopefuls A s)).
Proof. intros H. unfold hopefuls. apply nodup_map_filter. exact H. Qed.
Lemma nodup_sorted_hopefuls (s : est) lt rv : ND s -> NoDup (map (@cid A) (py_sorted lt rv (hopefuls A s))).
Proof.
  intros H. eapply Permutation_NoDup; [|apply nodup_hopefuls; exact H].
  apply Permutation_map. symmetry. apply py_sorted_perm.
Qed.

Lemma f_elect_with_quota x hq pend msg extra s : R x s -> ND s -> R x (elect_with_quota A cfg hq pend msg extra s).
Proof.
  intros H Hnd. unfold elect_with_quota. cbv zeta.
  apply (f_fold_cand (fun s0 c => match msg with None => elect_default A cfg (cid c) (pend s0 c) s0
                                                 | Some m => elect A cfg (cid c) m (pend s0 c) s0 end) isH).
  - intros y t c Hy HS. destruct msg; [|unfold elect_default]; apply f_elect_H; assumption.
  - intros t c j Hj HS. destruct msg; [|unfold elect_default]; apply sat_elect_other; assumption.
  - exact H.
  - apply nodup_map_filter. unfold by_vote. apply nodup_sorted_hopefuls. exact Hnd.
  - apply hopeful_list_ok; [exact Hnd|]. intros c Hc. apply filter_In in Hc. destruct Hc as [Hc _].
    unfold by_vote in Hc. apply py_sorted_in in Hc. exact Hc.
Qed.

Lemma f_unpend_all x s : R x s -> ND s -> R x (unpend_all A cfg s).
Proof. intros H Hnd. unfold unpend_all. apply f_fold; [|exact H|exact Hnd]. intros; apply f_unpend; assumption. Qed.

Lemma f_elect_or_defeat x s : R x s -> ND s -> R x (elect_or_defeat_remaining A cfg s).
Proof.
  intros H Hnd. unfold elect_or_defeat_remaining.
  apply (f_fold_cand (fun s0 c => if nlen (electeds A s0) <? cf_nseats cfg then elect A cfg (cid c) "Elect remaining" false s0
                                  else defeat A cfg (cid c) "Defeat remaining" s0) isH).
  - intros y t c Hy HS. destruct (_ <? _); [apply f_elect_H|apply f_defeat_H]; assumption.
  - intros t c j Hj HS. destruct (_ <? _); [apply sat_elect_other|apply sat_defeat_other]; assumption.
  - exact H.
  - apply nodup_hopefuls; exact Hnd.
  - apply hopeful_list_ok; [exact Hnd|auto].
Qed.

Lemma f_elect_all x m p s : R x s -> ND s -> R x (fold_left (fun s c => elect A cfg (cid c) m p s) (hopefuls A s) s).
Proof.
  intros H Hnd. apply (f_fold_cand (fun s0 c => elect A cfg (cid c) m p s0) isH); auto.
  - intros; apply f_elect_H; assumption.
  - intros; apply sat_elect_other; assumption.
  - apply nodup_hopefuls; exact Hnd.
  - apply hopeful_list_ok; [exact Hnd|auto].
Qed.
Lemma f_defeat_all x m s : R x s -> ND s -> R x (fold_left (fun s c => defeat A cfg (cid c) m s) (hopefuls A s) s).
Proof.
  intros H Hnd. apply (f_fold_cand (fun s0 c => defeat A cfg (cid c) m s0) isH); auto.
  - intros; apply f_defeat_H; assumption.
  - intros; apply sat_defeat_other; assumption.
  - apply nodup_hopefuls; exact Hnd.
  - apply hopeful_list_ok; [exact Hnd|auto].
Qed.

(* the candidates the rules select from are hopeful / pending in the current state *)
Lemma pending_sat (s : est) c : ND s -> In c (pendings A s) -> Sat s (cid c) (fun a => fst a = Elected /\ pend_true (snd a) = true).
Proof.
  intros Hnd Hc c' Hc' E. unfold pendings in Hc. apply filter_In in Hc. destruct Hc as [Hin Hst].
  rewrite (nodup_cid_inj (cands s) c c' Hnd Hin Hc' E). unfold is_pending, in_state in Hst. cbn.
  destruct (cst c); cbn in Hst; try discriminate Hst. split; [reflexivity|]. unfold pend_true. destruct (cpend c) as [[]|]; auto; discriminate.
Qed.

Lemma f_transfer_high x bt rew s : bt_ok bt -> R x s -> ND s -> R x (transfer_high_surplus A cfg bt rew s).
Proof.
  intros Hbt H Hnd. unfold transfer_high_surplus. destruct (max_vote A (pendings A s)); [|apply f_crash; exact H].
  cbv zeta. set (tied := filter (fun c => eqv A (cvote c) t) (pendings A s)).
  destruct (Hbt tied s) as (HR & Hc & Hin). specialize (HR x H).
  destruct (bt tied s) as [s1 [h|]]; cbn [fst snd] in *; [|exact HR].
  assert (Hnd1: ND s1) by (unfold ND; rewrite Hc; exact Hnd).
  assert (P2: R x (unpend A cfg h (Some "Transfer high surplus"%string) s1)) by (apply f_unpend; assumption).
  destruct (crashed (unpend A cfg h _ s1)); [exact P2|].
  match goal with |- context[for_ballots A ?f ?sel ?st] =>
    assert (P3: R x (for_ballots A f sel st)) by (apply f_for_ballots; [intros; apply f_reweigh; assumption|exact P2]) end.
  match goal with |- context[crashed ?st] => destruct (crashed st) end; [exact P3|].
  apply f_log, f_set_vote. exact P3.
Qed.

Lemma low_in_hopefuls (s : est) lv lows : low_candidates A s = Some (lv, lows) -> forall c, In c lows -> In c (hopefuls A s).
Proof.
  unfold low_candidates. destruct (min_vote A (hopefuls A s)); [|discriminate]. intros H; inversion H; subst.
  intros c Hc. apply filter_In in Hc. exact (proj1 Hc).
Qed.

Lemma f_defeat_low x bt msg s : bt_ok bt -> R x s -> ND s -> R x (defeat_low A cfg bt msg s).
Proof.
  intros Hbt H Hnd. unfold defeat_low. destruct (low_candidates A s) as [[lv lows]|] eqn:El; [|apply f_crash; exact H].
  destruct (Hbt lows s) as (HR & Hc & Hin). specialize (HR x H).
  destruct (bt lows s) as [s1 [l|]]; cbn [fst snd] in *; [|exact HR].
  destruct (Hin l eq_refl) as (c & Hcl & <-).
  assert (HS: Sat s1 (cid c) isH).
  { intros c' Hc' E. rewrite Hc in Hc'. exact (hopeful_sat A s c Hnd (low_in_hopefuls s lv lows El c Hcl) c' Hc' E). }
  assert (P2: R x (defeat A cfg (cid c) msg s1)) by (apply f_defeat_H; assumption).
  destruct (crashed _); [exact P2|apply f_transfer_defeated_one; exact P2].
Qed.

Lemma f_wigm_defeat x s : R x s -> ND s -> R x (wigm_defeat A cfg s).
Proof.
  intros H Hnd. unfold wigm_defeat. destruct (low_candidates A s) as [[lv lows]|] eqn:El; [|apply f_crash; exact H].
  destruct (_ && _).
  - apply f_fold0; [intros; apply f_transfer_defeated_one; assumption|].
    apply (f_fold_cand (fun s0 c => defeat A cfg (cid c) "Defeat batch(zero)" s0) isH).
    + intros; apply f_defeat_H; assumption.
    + intros; apply sat_defeat_other; assumption.
    + exact H.
    + unfold low_candidates in El. destruct (min_vote A (hopefuls A s)); [|discriminate]. inversion El; subst.
      apply nodup_map_filter. apply nodup_hopefuls. exact Hnd.
    + apply hopeful_list_ok; [exact Hnd|]. apply (low_in_hopefuls s lv lows El).
  - destruct (bt_simple_ok "defeat"%string lows s) as (HR & Hc & Hin). specialize (HR x H).
    destruct (bt_simple A cfg "defeat" lows s) as [s1 [l|]]; cbn [fst snd] in *; [|exact HR].
    destruct (Hin l eq_refl) as (c & Hcl & <-).
    assert (HS: Sat s1 (cid c) isH).
    { intros c' Hc' E. rewrite Hc in Hc'. exact (hopeful_sat A s c Hnd (low_in_hopefuls s lv lows El c Hcl) c' Hc' E). }
    assert (P2: R x (defeat A cfg (cid c) "Defeat" s1)) by (apply f_defeat_H; assumption).
    destruct (crashed _); [exact P2|apply f_transfer_defeated_one; exact P2].
Qed.

(* ---- batches chosen in one statement group and defeated in the next ---- *)
Definition isHD (a : sp) : Prop := fst a = Hopeful \/ fst a = Defeated.

Lemma sat_defeat_HD i j m (s : est) : Sat s j isHD -> Sat (defeat A cfg i m s) j isHD.
Proof.
  intros HS. destruct (Z.eq_dec j i) as [->|Hne]; [|apply sat_defeat_other; assumption].
  unfold defeat. destruct (find_cand A (cands s) i); [|apply (sat_same A s); auto].
  apply sat_log. intros c' Hc' Hi. unfold upd in Hc'. cbn [cands set_cands] in Hc'.
  destruct (in_upd_cand A _ _ _ _ Hc') as (c0 & Hc0 & ->). destruct (cid c0 =? i) eqn:E.
  - right. reflexivity.
  - cbn in Hi. lia.
Qed.

Lemma f_fold_defeat x m (l : list (cand A)) : forall s, R x s -> (forall c, In c l -> Sat s (cid c) isHD) ->
  R x (fold_left (fun s c => defeat A cfg (cid c) m s) l s).
Proof.
  induction l as [|c0 l IH]; intros s H Hp; cbn [fold_left]; [exact H|].
  apply IH.
  - apply r_defeat; [exact H|]. apply Hp. left; reflexivity.
  - intros c Hc. apply sat_defeat_HD. apply Hp. right; exact Hc.
Qed.

Definition BatchH (s : est) : Prop := forall i, In i (lv_batch s) -> Sat s i isH.

Lemma cands_of_in (s : est) cids c : In c (cands_of A s cids) -> In c (cands s) /\ In (cid c) cids.
Proof.
  unfold cands_of. intros H. apply in_flat_map in H. destruct H as (i & Hi & Hc).
  destruct (find_cand A (cands s) i) as [c0|] eqn:Ef; [|contradiction]. destruct Hc as [<-|[]].
  unfold find_cand in Ef. apply find_some in Ef. destruct Ef as [Hin He]. split; [exact Hin|]. assert (cid c0 = i) by lia. subst i. exact Hi.
Qed.

Lemma f_defeat_batch_order x msg s : R x s -> BatchH s -> R x (defeat_batch_in_ballot_order A cfg msg s).
Proof.
  intros H HB. unfold defeat_batch_in_ballot_order. apply f_fold_defeat; [exact H|].
  intros c Hc. unfold by_order in Hc. apply py_sorted_in in Hc. destruct (cands_of_in s _ c Hc) as [_ Hi].
  eapply sat_of_pre; [|apply HB; exact Hi]. intros a Ha. left; exact Ha.
Qed.

(* group_tied / batch_defeat / cfer_batch / mpls certain losers only return hopeful candidates *)
Lemma Forall_firstn' {X} (Q : X -> Prop) n : forall l, Forall Q l -> Forall Q (firstn n l).
Proof. induction n as [|n IH]; intros [|y l] H; cbn; try constructor; inversion H; subst; auto. Qed.
Lemma Forall_concat' {X} (Q : X -> Prop) (ll : list (list X)) : Forall (Forall Q) ll -> Forall Q (List.concat ll).
Proof. induction 1 as [|l ll Hl _ IH]; cbn; [constructor|]. apply Forall_app. split; assumption. Qed.

Lemma group_tied_all (P : cand A -> Prop) surp : forall l vote group acc,
  Forall P l -> Forall P group -> Forall (Forall P) acc -> Forall (Forall P) (group_tied A surp l vote group acc).
Proof.
  induction l as [|y l IH]; intros vote group acc Hl Hg Ha; cbn [group_tied].
  - apply Forall_rev. destruct group; [exact Ha|]. constructor; [apply Forall_rev; exact Hg|exact Ha].
  - inversion Hl; subst. destruct (gev A (add A vote surp) (cvote y)).
    + apply IH; auto.
    + apply IH; auto. destruct group; [exact Ha|]. constructor; [apply Forall_rev; exact Hg|exact Ha].
Qed.

Lemma sorted_hopefuls_all (s : est) rv : Forall (fun c => In c (hopefuls A s)) (by_vote A rv (hopefuls A s)).
Proof. apply Forall_forall. intros c Hc. unfold by_vote in Hc. apply py_sorted_in in Hc. exact Hc. Qed.

Lemma batch_defeat_hopeful surp (s : est) : Forall (fun c => In c (hopefuls A s)) (batch_defeat A cfg surp s).
Proof.
  unfold batch_defeat. cbv zeta. destruct (scan_groups A surp _ _ _ _ _ _); [|constructor].
  apply Forall_concat', Forall_firstn'. apply group_tied_all; [apply sorted_hopefuls_all|constructor|constructor].
Qed.

Lemma batchH_of_hopefuls (s s' : est) (l : list (cand A)) : ND s -> cands s' = cands s -> lv_batch s' = map (@cid A) l ->
  Forall (fun c => In c (hopefuls A s)) l -> BatchH s'.
Proof.
  intros Hnd Hc Hb Hl i Hi. rewrite Hb in Hi. apply in_map_iff in Hi. destruct Hi as (c & <- & Hcl).
  rewrite Forall_forall in Hl. intros c' Hc' E. rewrite Hc in Hc'. exact (hopeful_sat A s c Hnd (Hl c Hcl) c' Hc' E).
Qed.

Lemma prf_find_batch_H (s : est) : ND s -> BatchH (prf_find_batch A cfg s).
Proof.
  intros Hnd. unfold prf_find_batch. destruct (cf_batch cfg).
  - eapply (batchH_of_hopefuls s _ _ Hnd); [reflexivity|reflexivity|apply batch_defeat_hopeful].
  - intros i [].
Qed.

(* ---- whole rules (those without a batch carried across statement groups): wigm, scotland ---- *)
Section Whole.
Variable x : est.
Hypothesis Hx : ND x.
Definition InvF (s : est) : Prop := R x s.
Lemma inv_nd s : InvF s -> ND s.
Proof. intros H. exact (nd_R x s H Hx). Qed.

Ltac pres_split := cbn [pres]; repeat match goal with |- _ /\ _ => split | |- True => exact I end.

Theorem wigm_forward : pres est InvF (wigm A cfg).
Proof.
  unfold wigm. pres_split; intros s Hs; pose proof (inv_nd s Hs) as Hn; unfold InvF in *.
  - apply f_log, f_start_count, Hs.
  - apply f_new_round, Hs.
  - apply f_elect_with_quota; assumption.
  - apply f_transfer_high; [apply bt_simple_ok|assumption|assumption].
  - apply f_wigm_defeat; assumption.
  - apply f_unpend_all; assumption.
  - apply f_elect_or_defeat; assumption.
Qed.

Lemma scot_bt_ok isd reason : bt_ok (scot_break_tie A cfg isd reason).
Proof.
  intros tied s. unfold scot_break_tie. destruct tied as [|c [|c2 t]]; cbn [fst snd].
  - split; [intros; apply f_crash; assumption|]. split; [reflexivity|discriminate].
  - split; [auto|]. split; [reflexivity|]. intros i Hi. inversion Hi; subst. exists c. split; [left; reflexivity|reflexivity].
  - destruct (scot_search A isd _ _) as [cn0|] eqn:Es; cbn [fst snd].
    + split; [intros; apply f_log; assumption|]. split; [unfold log_action; reflexivity|].
      intros i Hi. inversion Hi; subst.
      (* cn0 is a saved copy whose cid is one of the tied cids *)
      assert (G: forall stages, scot_search A isd (map (@cid A) (c :: c2 :: t)) stages = Some cn0 ->
                 In (cid cn0) (map (@cid A) (c :: c2 :: t))).
      { induction stages as [|CN older IHs]; cbn [scot_search]; [discriminate|].
        destruct (scot_stage_pick A isd _ CN) as [p|] eqn:Ep; [|exact IHs].
        intros Hp; inversion Hp; subst p. unfold scot_stage_pick in Ep. cbv zeta in Ep.
        destruct (if isd then _ else _) as [ref|]; [|discriminate].
        destruct (filter _ _) as [|y [|y2 l2]] eqn:Ef; try discriminate. inversion Ep; subst y.
        assert (Hin: In cn0 (filter (fun cn => eqv A (cvote cn) (cvote ref)) (by_vote A false (filter (fun cn => existsb (Z.eqb (cid cn)) (map (@cid A) (c :: c2 :: t))) CN))))
          by (rewrite Ef; left; reflexivity).
        apply filter_In in Hin. destruct Hin as [Hin _]. unfold by_vote in Hin. apply py_sorted_in in Hin.
        apply filter_In in Hin. destruct Hin as [_ Hex]. apply existsb_exists in Hex. destruct Hex as (z & Hz & Ez).
        assert (z = cid cn0) by lia. subst z. exact Hz. }
      specialize (G _ Es). apply in_map_iff in G. destruct G as (c' & Ec & Hc'). exists c'. auto.
    + destruct (by_tie A (c :: c2 :: t)) as [|c0 rest] eqn:Eb; cbn [fst snd].
      * split; [intros; apply f_crash; assumption|]. split; [reflexivity|discriminate].
      * split; [intros; apply f_log; assumption|]. split; [unfold log_action; reflexivity|].
        intros i Hi. inversion Hi; subst. exists c0. split; [|reflexivity].
        unfold by_tie in Eb. apply (py_sorted_in _ (fun a b : cand A => ctie a <? ctie b) false). rewrite Eb. left; reflexivity.
Qed.

Theorem scotland_forward : pres est InvF (scotland A cfg).
Proof.
  unfold scotland. pres_split; intros s Hs; pose proof (inv_nd s Hs) as Hn; unfold InvF in *.
  - apply f_log, f_start_count, Hs.
  - apply f_elect_with_quota; assumption.
  - apply f_new_round, Hs.
  - apply f_surplus, Hs.
  - apply f_transfer_high; [apply scot_bt_ok|assumption|assumption].
  - apply f_defeat_low; [apply scot_bt_ok|assumption|assumption].
  - apply f_unpend_all; assumption.
  - apply f_elect_all; assumption.
  - apply f_defeat_all; assumption.
Qed.

(* ---- rules that choose a batch in one statement group and defeat it in the next: Hoare logic ---- *)
Notation triple := (triple est (@crashed A)).
Definition IB (s : est) : Prop := InvF s /\ BatchH s.

Lemma f_transfer_batch y keep s : R y s -> R y (transfer_batch A cfg keep s).
Proof.
  intros H. unfold transfer_batch. cbv zeta. apply f_log. apply f_fold0; [intros; apply f_set_vote; assumption|].
  apply f_for_ballots; [intros; apply f_transfer; assumption|exact H].
Qed.

Lemma td f (Qb Qc : est -> Prop) : (forall s, InvF s -> InvF (f s)) -> triple InvF (Do f) InvF Qb Qc.
Proof. intros H. apply t_do. exact H. Qed.
Lemma tpre (P : est -> Prop) c (Qn Qb Qc : est -> Prop) : (forall s, P s -> InvF s) -> triple InvF c Qn Qb Qc -> triple P c Qn Qb Qc.
Proof. intros HP H. eapply t_pre; [exact HP|exact H]. Qed.

Lemma wigm_prf_tail : triple InvF
  (Ite (fun s => nonempty (pendings A s))
      (Do (transfer_high_surplus A cfg (bt_simple A cfg "surplus") (rew_wigm A)))
      (Ite (fun s => nonempty (hopefuls A s)) (Do (defeat_low A cfg (bt_simple A cfg "defeat") "Defeat")) Skip))
  InvF InvF InvF.
Proof.
  apply t_ite.
  - apply (tpre _ _ _ _ _ (fun s H => proj1 H)). apply td. intros s Hs. apply f_transfer_high; [apply bt_simple_ok|exact Hs|exact (inv_nd s Hs)].
  - apply t_ite.
    + apply (tpre _ _ _ _ _ (fun s H => proj1 (proj1 H))). apply td. intros s Hs. apply f_defeat_low; [apply bt_simple_ok|exact Hs|exact (inv_nd s Hs)].
    + apply t_skip'. intros s [[H _] _]. exact H.
Qed.

Theorem wigm_prf_forward : triple InvF (wigm_prf A cfg) InvF InvF InvF.
Proof.
  unfold wigm_prf.
  eapply t_seq; [apply td; intros s Hs; apply f_log, f_start_count, Hs|].
  eapply t_seq with (M := InvF).
  { eapply t_post; [|apply (t_while est (@crashed A) InvF InvF)].
    - intros s [H|[H _]]; exact H.
    - apply (tpre _ _ _ _ _ (fun s H => proj1 H)).
      eapply t_seq; [apply td; intros s Hs; apply f_new_round, Hs|].
      eapply t_seq; [apply td; intros s Hs; apply f_elect_with_quota; [exact Hs|exact (inv_nd s Hs)]|].
      eapply t_seq with (M := IB).
      { apply t_do. intros s Hs. split; [apply f_batch; exact Hs|apply prf_find_batch_H; exact (inv_nd s Hs)]. }
      eapply t_seq with (M := InvF).
      { apply t_ite.
        - eapply t_seq with (M := InvF).
          { apply t_do. intros s [[Hs HB] _]. apply f_defeat_batch_order; assumption. }
          eapply t_seq with (M := InvF); [apply t_ite; [apply t_break'; intros s [H _]; exact H|apply t_skip'; intros s [H _]; exact H]|].
          eapply t_seq with (M := InvF); [apply td; intros s Hs; apply f_transfer_batch, Hs|].
          apply t_continue'. auto.
        - apply t_skip'. intros s [[H _] _]. exact H. }
      apply wigm_prf_tail. }
  eapply t_seq; [apply td; intros s Hs; apply f_unpend_all; [exact Hs|exact (inv_nd s Hs)]|].
  apply td. intros s Hs. apply f_elect_or_defeat; [exact Hs|exact (inv_nd s Hs)].
Qed.
End Whole.
End Ops.
