(* Forward-only status: meek-prf and meek/warren *)
From Coq Require Import ZArith List Bool String Lia Permutation.
From Droop Require Import Model.KernelBase Model.Str Model.Arith Model.Prelude Model.State Model.Prims
  Model.RulesGregory Model.RulesMeek Model.Election Proofs.CmdMeta Proofs.SortLemmas Proofs.Forward Proofs.Ties
  Proofs.ForwardOps.
Import ListNotations.
Open Scope Z_scope.

Section M.
Variable A : arith.
Variable cfg : config.
Notation est := (est A).
Notation R := (R A).
Notation Sat := (Sat A).
Notation ND := (ND A).
Notation stl := (stl A).

Lemma stl_upd_vote i v (l : list (cand A)) : stl (upd_cand A i (fun c => with_vote c (add A (cvote c) v)) l) = stl l.
Proof. apply stl_upd_same. intros c; repeat split. Qed.

Lemma dist_ballot_stl cs mult r w br : stl (fst (fst (dist_ballot A cfg cs mult r w br))) = stl cs.
Proof.
  revert cs w br. induction r as [|i r IH]; intros cs w br; cbn [dist_ballot]; [reflexivity|].
  destruct (find_cand A cs i) as [c|]; [|apply IH]. destruct (kf_truthy A c); [|apply IH].
  destruct (kt A cfg (kf_of A c) w) as [keep w']. cbv zeta.
  destruct (lev A w' (V0 A)); cbn [fst]; [|rewrite IH]; apply stl_upd_vote.
Qed.
Lemma dist_ballot_prf_stl cs mult r w br : stl (fst (fst (dist_ballot_prf A cs mult r w br))) = stl cs.
Proof.
  revert cs w br. induction r as [|i r IH]; intros cs w br; cbn [dist_ballot_prf]; [reflexivity|].
  destruct (find_cand A cs i) as [c|]; [|apply IH]. destruct (kf_truthy A c); [|apply IH]. cbv zeta.
  destruct (lev A _ (V0 A)); cbn [fst]; [|rewrite IH]; apply stl_upd_vote.
Qed.
Lemma dist_eq_stl cset mult ranks : forall w st cs br cs' br',
  st = Ok (cs, br) -> dist_eq A cfg cset mult ranks w st = Ok (cs', br') -> stl cs' = stl cs.
Proof.
  induction ranks as [|rank deeper IH]; intros w st cs br cs' br' -> H; cbn [dist_eq] in H.
  - destruct (negb (truth A w)); inversion H; reflexivity.
  - destruct (negb (truth A w)); [inversion H; reflexivity|].
    destruct (filter _ rank) as [|i0 cids0] eqn:Ef; [inversion H; reflexivity|].
    destruct (divv A w _) as [cw|]; [|discriminate].
    revert cs br H. generalize (i0 :: cids0). intros l. induction l as [|i l IHl]; intros cs br H; cbn [fold_left] in H.
    + inversion H; reflexivity.
    + destruct (find_cand A cs i) as [c|] eqn:Ec.
      * destruct (kt A cfg (kf_of A c) cw) as [keep w'] eqn:Ek. cbv zeta in H.
        match type of H with fold_left _ _ ?x = _ => destruct x as [[cs2 br2]|e] eqn:E2 end.
        -- rewrite (IHl _ _ H). rewrite (IH _ _ _ _ _ _ eq_refl E2). apply stl_upd_vote.
        -- exfalso. clear - H. induction l as [|j l IHl']; cbn in H; [discriminate|exact (IHl' H)].
      * exfalso. clear - H. induction l as [|j l IHl']; cbn in H; [discriminate|exact (IHl' H)].
Qed.
Lemma zero_he_stl s : stl (cands (zero_he_votes A s)) = stl (cands s).
Proof. unfold zero_he_votes. cbn [cands set_cands]. apply stl_map_same. intros c. destruct (_ || _); repeat split. Qed.

Lemma distribute_stl s : stl (cands (distribute_votes A cfg s)) = stl (cands s).
Proof.
  unfold distribute_votes. cbv zeta.
  match goal with |- context[fold_left ?f (ballots ?s0) ?i] =>
    assert (G: forall bs cs r acc, stl (fst (fst (fold_left f bs (cs, r, acc)))) = stl cs) end.
  { induction bs as [|b bs IHb]; intros cs r acc; cbn [fold_left]; [reflexivity|].
    destruct (dist_ballot A cfg cs (bmult b) (brank b) (V1 A) (bmult b)) as [[cs1 w1] br1] eqn:Ed.
    rewrite IHb. pose proof (dist_ballot_stl cs (bmult b) (brank b) (V1 A) (bmult b)) as H. rewrite Ed in H. exact H. }
  match goal with |- context[fold_left ?f (ballots ?s0) ?i] =>
    pose proof (G (ballots s0) (cands s0) (V0 A) []) as G0; destruct (fold_left f (ballots s0) i) as [[cs r] bs] end.
  cbn [fst] in G0.
  match goal with |- stl (cands (fold_left ?f ?l ?s1)) = _ =>
    assert (G2: forall l0 s0, stl (cands (fold_left f l0 s0)) = stl (cands s0)) end.
  { induction l0 as [|eb l0 IHl]; intros s0; cbn [fold_left]; [reflexivity|]. rewrite IHl.
    destruct (crashed s0); [reflexivity|].
    destruct (dist_eq A cfg _ (emult eb) (erank eb) (V1 A) (Ok (cands s0, emult eb))) as [[cs2 br2]|e] eqn:Ee; [|reflexivity].
    cbn [cands set_residual set_cands]. exact (dist_eq_stl _ _ _ _ _ _ _ _ _ eq_refl Ee). }
  rewrite G2. cbn [cands set_ballots set_residual set_cands]. rewrite G0. cbn [cands set_residual]. apply zero_he_stl.
Qed.
Lemma prf_distribute_stl s : stl (cands (prf_distribute A s)) = stl (cands s).
Proof.
  unfold prf_distribute. cbv zeta.
  match goal with |- context[fold_left ?f (ballots ?s0) ?i] =>
    assert (G: forall bs cs r acc, stl (fst (fst (fold_left f bs (cs, r, acc)))) = stl cs) end.
  { induction bs as [|b bs IHb]; intros cs r acc; cbn [fold_left]; [reflexivity|].
    destruct (dist_ballot_prf A cs (bmult b) (brank b) (V1 A) (bmult b)) as [[cs1 w1] br1] eqn:Ed.
    rewrite IHb. pose proof (dist_ballot_prf_stl cs (bmult b) (brank b) (V1 A) (bmult b)) as H. rewrite Ed in H. exact H. }
  match goal with |- context[fold_left ?f (ballots ?s0) ?i] =>
    pose proof (G (ballots s0) (cands s0) (V0 A) []) as G0; destruct (fold_left f (ballots s0) i) as [[cs r] bs] end.
  cbn [fst] in G0. cbn [cands set_ballots set_residual set_cands]. rewrite G0. cbn [cands set_residual]. apply zero_he_stl.
Qed.

(* a state whose candidates have the same (cid, status, pending) and whose actions are the same *)
Lemma r_stl x s s' : R x s -> stl (cands s') = stl (cands s) -> actions s' = actions s -> R x s'.
Proof.
  intros (l & E & C) Es Ea. exists l. rewrite Ea. split; [exact E|]. rewrite Es. exact C.
Qed.
Lemma actions_distribute s : actions (distribute_votes A cfg s) = actions s.
Proof.
  unfold distribute_votes. cbv zeta.
  match goal with |- context[fold_left ?f (ballots ?s0) ?i] => destruct (fold_left f (ballots s0) i) as [[cs r] bs] end.
  match goal with |- actions (fold_left ?f ?l ?s1) = _ => assert (G: forall l0 s0, actions (fold_left f l0 s0) = actions s0) end.
  { induction l0 as [|eb l0 IHl]; intros s0; cbn [fold_left]; [reflexivity|]. rewrite IHl.
    destruct (crashed s0); [reflexivity|]. destruct (dist_eq _ _ _ _ _ _ _) as [[? ?]|]; reflexivity. }
  rewrite G. reflexivity.
Qed.
Lemma f_distribute x s : R x s -> R x (distribute_votes A cfg s).
Proof. intros H. eapply r_stl; [exact H|apply distribute_stl|apply actions_distribute]. Qed.
Lemma f_prf_distribute x s : R x s -> R x (prf_distribute A s).
Proof.
  intros H. eapply r_stl; [exact H|apply prf_distribute_stl|].
  unfold prf_distribute. cbv zeta. match goal with |- context[fold_left ?f (ballots ?s0) ?i] => destruct (fold_left f (ballots s0) i) as [[cs r] bs] end. reflexivity.
Qed.
Lemma sat_stl (s s' : est) j P : stl (cands s') = stl (cands s) -> Sat s j P -> Sat s' j P.
Proof.
  intros E HS c' Hc' Hj.
  assert (G: forall (l l' : list (cand A)), stl l' = stl l -> forall c', In c' l' -> exists c, In c l /\ cid c = cid c' /\ cst c = cst c' /\ cpend c = cpend c').
  { induction l as [|y l IH]; intros [|y' l'] El c0 Hc0; cbn in El; try discriminate; [contradiction|].
    injection El as E1 E2 E3 E4. destruct Hc0 as [<-|Hc0]; [exists y; repeat split; auto; left; reflexivity|].
    destruct (IH l' E4 c0 Hc0) as (c & Hc & Hx). exists c. split; [right; exact Hc|exact Hx]. }
  destruct (G _ _ E c' Hc') as (c & Hc & E1 & E2 & E3). rewrite <- E2, <- E3. apply (HS c Hc). congruence.
Qed.

Lemma f_set_quota_r x s q : R x s -> R x (set_quota_r A s q).
Proof. intros H. unfold set_quota_r. destruct q; [apply f_quota|apply f_crash]; exact H. Qed.
Lemma f_zero_cand x i s : R x s -> R x (zero_cand A i s).
Proof. intros H. unfold zero_cand. apply r_upd_same; [exact H|]. intros c; repeat split. Qed.
Lemma sat_zero_cand i j (s : est) P : Sat s j P -> Sat (zero_cand A i s) j P.
Proof. intros HS. eapply sat_stl; [|exact HS]. unfold zero_cand, upd. cbn [cands set_cands]. apply stl_upd_same. intros c; repeat split. Qed.
Lemma f_update_kfs cl x s : R x s -> R x (update_kfs A cl s).
Proof.
  intros H. unfold update_kfs. apply f_fold0; [|exact H]. intros y t c Hy. destruct (crashed t); [exact Hy|].
  destruct (kdiv A _ _ _); [apply f_upd_kf|apply f_crash]; exact Hy.
Qed.
Lemma f_init_kfs x s : R x s -> R x (init_kfs A s).
Proof.
  intros H. unfold init_kfs. apply r_cands; [exact H|]. rewrite stl_map_same; [apply FwdL_refl|].
  intros c. destruct (in_state A Hopeful c); repeat split.
Qed.

(* elect the hopefuls of a filtered list, each followed by a status-neutral step *)
Lemma f_elect_winners x (p : cand A -> bool) (s : est) : R x s -> ND s ->
  R x (fold_left (fun s0 c => set_status (elect A cfg (cid c) "Elect" false s0) IS_elected) (filter p (hopefuls A s)) s).
Proof.
  intros H Hnd.
  apply (f_fold_cand A (fun s0 c => set_status (elect A cfg (cid c) "Elect" false s0) IS_elected) (isH)).
  - intros y t c Hy HS. apply f_status. apply f_elect_H; assumption.
  - intros t c j Hj HS. eapply (sat_same A); [|apply sat_elect_other; eassumption]. reflexivity.
  - exact H.
  - apply nodup_map_filter. apply nodup_hopefuls. exact Hnd.
  - apply hopeful_list_ok; [exact Hnd|]. intros c Hc. apply filter_In in Hc. exact (proj1 Hc).
Qed.

Lemma low_within_in (s : est) lows : low_within_surplus A s = Ok lows -> forall c, In c lows -> In c (hopefuls A s).
Proof.
  unfold low_within_surplus. destruct (map (@cvote A) (hopefuls A s)); [discriminate|]. intros H; inversion H; subst.
  intros c Hc. destruct (filter _ (hopefuls A s)) eqn:Ef; [|rewrite <- Ef in Hc]; apply filter_In in Hc; exact (proj1 Hc).
Qed.

Lemma f_meek_defeat_low x fmt rd s : R x s -> ND s -> R x (meek_defeat_low A cfg fmt rd s).
Proof.
  intros H Hnd. unfold meek_defeat_low. destruct (low_within_surplus A s) as [lows|] eqn:El; [|apply f_crash; exact H].
  pose proof (f_break_tie A cfg x fmt lows s H) as HR. pose proof (break_tie_cands A cfg fmt lows s) as Hc.
  destruct (break_tie A cfg fmt lows s) as [s1 [l|]] eqn:Eb; cbn [fst snd] in *; [|exact HR].
  destruct (proj1 (break_tie_spec A cfg _ _ _ _ _ Eb)) as (c & Hcl & <-). cbv zeta.
  assert (HS: Sat s1 (cid c) isH).
  { intros c' Hc' E. rewrite Hc in Hc'. exact (hopeful_sat A s c Hnd (low_within_in s lows El c Hcl) c' Hc' E). }
  match goal with |- context[zero_cand A (cid c) ?a] => assert (P2: R x (zero_cand A (cid c) a)) by (apply f_zero_cand, f_defeat_H; assumption) end.
  match goal with |- context[crashed ?a] => destruct (crashed a) end; [exact P2|].
  destruct rd; [apply f_distribute|]; exact P2.
Qed.

Lemma f_meek_final x rd s : R x s -> ND s -> R x (meek_final A cfg rd s).
Proof.
  intros H Hnd. unfold meek_final. cbv zeta. apply f_residual, f_votes.
  apply (f_fold_cand A (fun s0 c => if crashed s0 then s0 else
      let s' := if nlen (electeds A s0) <? cf_nseats cfg then elect A cfg (cid c) "Elect remaining" false s0
                else zero_cand A (cid c) (defeat A cfg (cid c) "Defeat remaining" s0) in
      if rd then distribute_votes A cfg s' else s') isH).
  - intros y t c Hy HS. destruct (crashed t); [exact Hy|]. cbv zeta.
    destruct rd; [apply f_distribute|]; (destruct (_ <? _); [apply f_elect_H|apply f_zero_cand, f_defeat_H]; assumption).
  - intros t c j Hj HS. destruct (crashed t); [exact HS|]. cbv zeta.
    destruct rd.
    + eapply sat_stl; [apply distribute_stl|]. destruct (_ <? _); [apply sat_elect_other|apply sat_zero_cand, sat_defeat_other]; assumption.
    + destruct (_ <? _); [apply sat_elect_other|apply sat_zero_cand, sat_defeat_other]; assumption.
  - exact H.
  - apply nodup_hopefuls; exact Hnd.
  - apply hopeful_list_ok; [exact Hnd|auto].
Qed.

Lemma f_prf_iterate_step x s : R x s -> ND s -> R x (prf_iterate_step A cfg s).
Proof.
  intros H Hnd. unfold prf_iterate_step. cbv zeta.
  pose proof (f_prf_distribute x s H) as P.
  assert (Hnd1: ND (prf_distribute A s)) by (eapply nd_R; [apply f_prf_distribute, R_refl|exact Hnd]).
  match goal with |- context[set_quota_r A ?a ?b] => assert (P2: R x (set_quota_r A a b)) by (apply f_set_quota_r, f_votes; exact P);
     assert (Hnd2: ND (set_quota_r A a b)) by (eapply nd_R; [apply f_set_quota_r, f_votes, f_prf_distribute, R_refl|exact Hnd]) end.
  match goal with |- context[crashed ?a] => destruct (crashed a) end; [exact P2|].
  match goal with |- context[fold_left ?f (filter ?p (hopefuls A ?a)) ?a] =>
    assert (P3: R x (fold_left f (filter p (hopefuls A a)) a)) by (apply f_elect_winners; assumption) end.
  match goal with |- context[set_surplus ?a ?b] => assert (P4: R x (set_surplus a b)) by (apply f_surplus; exact P3);
    generalize dependent (set_surplus a b) end.
  intros s5 P4.
  assert (P5: R x (if lv_status s5 =? IS_elected then s5
               else if ltv A (surplus s5) (omega_or0 A cfg) then set_status s5 IS_omega
               else if gev A (surplus s5) (lv_last s5)
                    then log_msg A cfg ("Stable state detected (" ++ str A (surplus s5) ++ ")")%string (set_status s5 IS_stable)
                    else s5)).
  { destruct (_ =? _); [exact P4|]. destruct (ltv A _ _); [apply f_status; exact P4|]. destruct (gev A _ _); [apply f_logmsg, f_status|]; exact P4. }
  match goal with |- context[if lv_status ?a =? IS_iterate then _ else _] => generalize dependent a end.
  intros s6 P6. destruct (lv_status s6 =? IS_iterate); [apply f_update_kfs, f_last|]; exact P6.
Qed.

(* composite steps over a batch of hopeful-or-already-defeated candidates *)
Lemma f_fold_HD (op : est -> cand A -> est) (l : list (cand A)) :
  (forall x s c, R x s -> Sat s (cid c) isHD -> R x (op s c)) ->
  (forall s c j, Sat s j isHD -> Sat (op s c) j isHD) ->
  forall x s, R x s -> (forall c, In c l -> Sat s (cid c) isHD) -> R x (fold_left op l s).
Proof.
  intros Hop Hoth. induction l as [|c0 l IH]; intros x s H Hp; cbn [fold_left]; [exact H|].
  apply IH; [apply Hop; [exact H|apply Hp; left; reflexivity]|].
  intros c Hc. apply Hoth. apply Hp. right; exact Hc.
Qed.

Lemma cands_of'_in (s : est) cids c : In c (cands_of' A s cids) -> In (cid c) cids.
Proof.
  unfold cands_of'. intros H. apply in_flat_map in H. destruct H as (i & Hi & Hc).
  destruct (find_cand A (cands s) i) as [c0|] eqn:Ef; [|contradiction]. destruct Hc as [<-|[]].
  unfold find_cand in Ef. apply find_some in Ef. destruct Ef as [_ He]. assert (cid c0 = i) by lia. subst i. exact Hi.
Qed.

Lemma f_meek_defeat_batch x s : R x s -> BatchH A s -> R x (meek_defeat_batch A cfg s).
Proof.
  intros H HB. unfold meek_defeat_batch.
  apply (f_fold_HD (fun s0 c => if crashed s0 then s0 else
            distribute_votes A cfg (zero_cand A (cid c) (defeat A cfg (cid c) "Defeat certain loser" s0)))).
  - intros y t c Hy HS. destruct (crashed t); [exact Hy|]. apply f_distribute, f_zero_cand, r_defeat; assumption.
  - intros t c j HS. destruct (crashed t); [exact HS|]. eapply sat_stl; [apply distribute_stl|]. apply sat_zero_cand, sat_defeat_HD. exact HS.
  - exact H.
  - intros c Hc. unfold by_order in Hc. apply py_sorted_in in Hc. apply cands_of'_in in Hc.
    eapply sat_of_pre; [|apply HB; exact Hc]. intros a Ha. left; exact Ha.
Qed.

Lemma f_meek_iter_head x s : R x s -> ND s -> R x (meek_iter_head A cfg s).
Proof.
  intros H Hnd. unfold meek_iter_head. cbv zeta. pose proof (f_distribute x s H) as P.
  assert (Hnd1: ND (distribute_votes A cfg s)) by (eapply nd_R; [apply f_distribute, R_refl|exact Hnd]).
  destruct (crashed (distribute_votes A cfg s)); [exact P|].
  match goal with |- context[set_quota_r A ?a ?b] => assert (P2: R x (set_quota_r A a b)) by (apply f_set_quota_r, f_votes; exact P);
     assert (Hnd2: ND (set_quota_r A a b)) by (eapply nd_R; [apply f_set_quota_r, f_votes, f_distribute, R_refl|exact Hnd]) end.
  match goal with |- context[crashed ?a] => destruct (crashed a) end; [exact P2|].
  apply f_surplus. apply f_elect_winners; assumption.
Qed.

Section WholeM.
Variable x : est.
Hypothesis Hx : ND x.
Notation InvF := (InvF A x).
Ltac pres_split := cbn [pres]; repeat match goal with |- _ /\ _ => split | |- True => exact I end.

Theorem meek_prf_forward : pres est InvF (meek_prf A cfg).
Proof.
  unfold meek_prf. pres_split; intros s Hs; pose proof (inv_nd A x Hx s Hs) as Hn; unfold ForwardOps.InvF in *.
  - destruct (omega A cfg); [|apply f_crash; exact Hs]. cbv zeta. destruct (divv A _ _); [|apply f_crash, f_votes, f_init_kfs; exact Hs].
    apply f_log. apply f_fold0; [|apply f_quota, f_votes, f_init_kfs; exact Hs].
    intros y t b Hy. destruct (top_rank A b); [apply f_add_vote|apply f_crash]; exact Hy.
  - apply f_new_round, Hs.
  - apply f_last, f_status, Hs.
  - apply f_prf_iterate_step; assumption.
  - apply f_meek_defeat_low; assumption.
  - apply f_meek_final; assumption.
Qed.

(* meek / warren: the batch is chosen inside the iteration and defeated after it: Hoare logic *)
Notation triple := (triple est (@crashed A)).
Definition IBm (s : est) : Prop := InvF s /\ BatchH A s.
Definition I0 (s : est) : Prop := InvF s /\ lv_batch s = [].
Lemma i0_ib s : I0 s -> IBm s.
Proof. intros [H E]. split; [exact H|]. intros i Hi. rewrite E in Hi. destruct Hi. Qed.

Lemma batchH_same (s s' : est) : stl (cands s') = stl (cands s) -> lv_batch s' = lv_batch s -> BatchH A s -> BatchH A s'.
Proof. intros Es Eb HB i Hi. rewrite Eb in Hi. eapply sat_stl; [exact Es|apply HB; exact Hi]. Qed.

(* lv_batch is written only by set_batch *)
Lemma lvb_log t m (s : est) : lv_batch (log_action A cfg t m s) = lv_batch s.
Proof. unfold log_action. destruct (is_log t); [reflexivity|]. destruct (is_round t); reflexivity. Qed.
Lemma lvb_elect i m p (s : est) : lv_batch (elect A cfg i m p s) = lv_batch s.
Proof. unfold elect. destruct (find_cand A (cands s) i); [rewrite lvb_log|]; reflexivity. Qed.
Lemma lvb_distribute (s : est) : lv_batch (distribute_votes A cfg s) = lv_batch s.
Proof.
  unfold distribute_votes. cbv zeta.
  match goal with |- context[fold_left ?f (ballots ?s0) ?i] => destruct (fold_left f (ballots s0) i) as [[cs r] bs] end.
  match goal with |- lv_batch (fold_left ?f ?l ?s1) = _ => assert (G: forall l0 s0, lv_batch (fold_left f l0 s0) = lv_batch s0) end.
  { induction l0 as [|eb l0 IHl]; intros s0; cbn [fold_left]; [reflexivity|]. rewrite IHl.
    destruct (crashed s0); [reflexivity|]. destruct (dist_eq _ _ _ _ _ _ _) as [[? ?]|]; reflexivity. }
  rewrite G. reflexivity.
Qed.
Lemma lvb_fold {X} (f : est -> X -> est) l : (forall s y, lv_batch (f s y) = lv_batch s) -> forall s, lv_batch (fold_left f l s) = lv_batch s.
Proof. intros Hf. induction l as [|y l IH]; intros s; cbn [fold_left]; [reflexivity|]. rewrite IH. apply Hf. Qed.
Lemma lvb_set_quota_r (s : est) q : lv_batch (set_quota_r A s q) = lv_batch s.
Proof. unfold set_quota_r. destruct q; reflexivity. Qed.
Lemma lvb_iter_head (s : est) : lv_batch (meek_iter_head A cfg s) = lv_batch s.
Proof.
  unfold meek_iter_head. cbv zeta. destruct (crashed (distribute_votes A cfg s)); [apply lvb_distribute|].
  match goal with |- context[crashed ?a] => destruct (crashed a) end.
  - rewrite lvb_set_quota_r. cbn [lv_batch set_votes]. apply lvb_distribute.
  - cbn [lv_batch set_surplus]. rewrite lvb_fold; [rewrite lvb_set_quota_r; cbn [lv_batch set_votes]; apply lvb_distribute|].
    intros t c. cbn [lv_batch set_status]. apply lvb_elect.
Qed.
Lemma lvb_update_kfs cl (s : est) : lv_batch (update_kfs A cl s) = lv_batch s.
Proof.
  unfold update_kfs. apply lvb_fold. intros t c. destruct (crashed t); [reflexivity|]. destruct (kdiv A _ _ _); reflexivity.
Qed.

Lemma meek_iterate_forward : triple InvF (meek_iterate A cfg) IBm IBm IBm.
Proof.
  unfold meek_iterate.
  eapply t_seq with (M := I0).
  { apply t_do. intros s Hs. split; [apply f_batch, f_last, f_status; exact Hs|reflexivity]. }
  eapply t_post; [|apply (t_while est (@crashed A) I0 IBm)].
  - intros s [H|[H _]]; [exact H|apply i0_ib; exact H].
  - eapply t_pre with (P := I0); [intros s H; exact (proj1 H)|].
    eapply t_seq with (M := I0).
    { apply t_do. intros s [Hs Eb]. split; [apply f_meek_iter_head; [exact Hs|exact (inv_nd A x Hx s Hs)]|].
      rewrite lvb_iter_head. exact Eb. }
    eapply t_seq with (M := I0); [apply t_ite; [apply t_break'; intros s [H _]; apply i0_ib; exact H|apply t_skip'; intros s [H _]; exact H]|].
    eapply t_seq with (M := I0).
    { apply t_ite; [|apply t_skip'; intros s [H _]; exact H].
      eapply t_seq with (M := I0); [apply t_do; intros s [[Hs Eb] _]; split; [apply f_status; exact Hs|exact Eb]|].
      apply t_break'. intros s H; apply i0_ib; exact H. }
    eapply t_seq with (M := I0).
    { apply t_ite; [|apply t_skip'; intros s [H _]; exact H].
      eapply t_seq with (M := I0).
      { apply t_do. intros s [[Hs Eb] _]. split; [apply f_status, f_logmsg; exact Hs|]. cbn [lv_batch set_status]. unfold log_msg. rewrite lvb_log. exact Eb. }
      apply t_break'. intros s H; apply i0_ib; exact H. }
    eapply t_seq with (M := IBm).
    { apply t_do. intros s [Hs Eb]. split; [apply f_batch; exact Hs|].
      destruct (cf_batch cfg); [|intros i []].
      eapply (batchH_of_hopefuls A s _ _ (inv_nd A x Hx s Hs)); [reflexivity|reflexivity|apply batch_defeat_hopeful]. }
    eapply t_seq with (M := I0).
    { apply t_ite.
      - eapply t_seq with (M := IBm).
        { apply t_do. intros s [[Hs HB] _]. split; [apply f_status; exact Hs|]. eapply batchH_same; [| |exact HB]; reflexivity. }
        apply t_break'. auto.
      - apply t_skip'. intros s [[Hs HB] Hg]. split; [exact Hs|]. destruct (lv_batch s); [reflexivity|discriminate Hg]. }
    apply t_do. intros s [Hs Eb]. split; [apply f_update_kfs, f_last; exact Hs|]. rewrite lvb_update_kfs. exact Eb.
Qed.

Theorem meek_forward : triple InvF (meek A cfg) InvF InvF InvF.
Proof.
  unfold meek.
  eapply t_seq with (M := InvF).
  { apply t_do. intros s Hs. unfold ForwardOps.InvF in *. destruct (omega A cfg); [|apply f_crash; exact Hs]. cbv zeta.
    match goal with |- context[crashed ?a] => assert (P: R x a) by (apply f_set_quota_r, f_votes; exact Hs); destruct (crashed a) end; [exact P|].
    apply f_log. unfold meek_first_prefs. apply f_fold0.
    - intros y t eb Hy. destruct (crashed t); [exact Hy|]. destruct (erank eb); [apply f_crash; exact Hy|].
      destruct (divv A _ _); [|apply f_crash; exact Hy]. cbv zeta. apply f_fold0; [intros; apply f_add_vote; assumption|exact Hy].
    - apply f_fold0; [|apply f_init_kfs; exact P]. intros y t b Hy. destruct (top_rank A b); [apply f_add_vote|]; exact Hy. }
  eapply t_seq with (M := InvF).
  { eapply t_post; [|apply (t_while est (@crashed A) InvF InvF)].
    - intros s [H|[H _]]; exact H.
    - eapply t_pre with (P := InvF); [intros s H; exact (proj1 H)|].
      eapply t_seq with (M := InvF); [apply t_do; intros s Hs; apply f_new_round; exact Hs|].
      eapply t_seq with (M := IBm).
      { eapply t_conseq; [| | | |apply meek_iterate_forward]; cbv beta; auto; intros s H; exact (proj1 H). }
      eapply t_seq with (M := IBm).
      { apply t_do. intros s [Hs HB]. split; [apply f_log; exact Hs|]. eapply batchH_same; [| |exact HB]; [|apply lvb_log].
        unfold log_action. reflexivity. }
      eapply t_seq with (M := IBm); [apply t_ite; [apply t_continue'; intros s [[H _] _]; exact H|apply t_skip'; intros s [H _]; exact H]|].
      eapply t_seq with (M := InvF).
      { apply t_ite; [|apply t_skip'; intros s [[H _] _]; exact H].
        eapply t_seq with (M := InvF); [apply t_do; intros s [[Hs HB] _]; apply f_meek_defeat_batch; assumption|].
        apply t_continue'. auto. }
      apply t_ite; [|apply t_skip'; intros s [H _]; exact H].
      apply t_do. intros s [Hs _]. apply f_meek_defeat_low; [exact Hs|exact (inv_nd A x Hx s Hs)]. }
  apply t_do. intros s Hs. apply f_meek_final; [exact Hs|exact (inv_nd A x Hx s Hs)].
Qed.
End WholeM.
End M.
