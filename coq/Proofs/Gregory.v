(* Gregory-family micro-operations: what a transfer does to a ballot and to the tallies (C02, C06). *)
From Coq Require Import ZArith List Bool Lia String.
From Droop Require Import Model.KernelBase Model.Arith Model.Prelude Model.State Model.Prims Proofs.Zlike.
Import ListNotations.
Open Scope Z_scope.

(* ---------- pure arithmetic: truncating transfer values never create votes ---------- *)
Definition fmul (S a b : Z) := (a * b) / S.
Definition fdiv (S a b : Z) := (a * S) / b.
Fixpoint sumf (f : Z * Z -> Z) (l : list (Z * Z)) : Z :=
  match l with [] => 0 | x :: t => f x + sumf f t end.

Lemma one_ballot S w s v m : 0 < S -> 0 < v -> 0 <= w -> 0 <= s -> 0 <= m ->
  fdiv S (fmul S w s) v * m * v <= w * m * s.
Proof.
  intros. unfold fdiv, fmul.
  assert (w * s / S * S <= w * s) by (rewrite Z.mul_comm; apply Z.mul_div_le; lia).
  assert (w * s / S * S / v * v <= w * s / S * S) by (rewrite (Z.mul_comm _ v); apply Z.mul_div_le; lia).
  nia.
Qed.

(* (weight, multiplier) pairs of the ballots standing with a candidate whose tally is v: the re-weighted
   ballots are worth at most the surplus s *)
Lemma transfer_le S s v l : 0 < S -> 0 < v -> 0 <= s ->
  Forall (fun x => 0 <= fst x /\ 0 <= snd x) l ->
  sumf (fun x => fst x * snd x) l = v ->
  sumf (fun x => fdiv S (fmul S (fst x) s) v * snd x) l <= s.
Proof.
  intros HS Hv Hs Hall Hsum.
  assert (G: sumf (fun x => fdiv S (fmul S (fst x) s) v * snd x) l * v <= sumf (fun x => fst x * snd x) l * s).
  { clear Hsum. induction Hall as [|[w m] t [Hw Hm] _ IH]; simpl in *; [lia|].
    pose proof (one_ballot S w s v m HS Hv Hw Hs Hm). nia. }
  rewrite Hsum in G. nia.
Qed.

(* ... and lose less than two units per ballot paper *)
Lemma one_ballot_loss S w s v : 0 < S -> 0 < v -> 0 <= w -> 0 <= s ->
  w * s - S - v < fdiv S (fmul S w s) v * v.
Proof.
  intros HS Hv Hw Hs. unfold fdiv, fmul.
  pose proof (Z.mod_pos_bound (w * s) S HS). pose proof (Z.div_mod (w * s) S ltac:(lia)).
  pose proof (Z.mod_pos_bound (w * s / S * S) v Hv). pose proof (Z.div_mod (w * s / S * S) v ltac:(lia)).
  nia.
Qed.

Section G.
Variable A : arith.
Variable S : Z.
Variable ZL : zlike A S.
Notation est := (est A).
Notation R := (@raw A S ZL).

(* the transfer value of the parametric / PRF / CfER / Minneapolis rules: (w * surplus) / vote, two truncations;
   Scottish: muldiv(w, surplus, vote, 'down'), one truncation.  Never up; never above the old value. *)
Lemma rew_wigm_value w surp v : R v <> 0 ->
  exists w', rew_wigm A w surp v = Ok w' /\ R w' = fdiv S (fmul S (R w) (R surp)) (R v).
Proof.
  intros Hv. unfold rew_wigm. destruct (r_divv A S ZL (mulv A w surp) v Hv) as (c & E & Ec).
  exists c. split; [exact E|]. rewrite Ec, (r_mulv A S ZL). reflexivity.
Qed.
Lemma rew_scot_value w surp v : R v <> 0 ->
  exists w', rew_scot A w surp v = Ok w' /\ R w' = R w * R surp / R v.
Proof. intros Hv. unfold rew_scot. apply (r_kmuldiv_down A S ZL); exact Hv. Qed.

Lemma rew_wigm_bounds w surp v w' : 0 <= R w -> 0 <= R surp <= R v -> 0 < R v ->
  rew_wigm A w surp v = Ok w' ->
  0 <= R w' <= R w /\ R w' * R v <= R w * R surp /\ R w * R surp - S - R v < R w' * R v.
Proof.
  intros Hw [Hs0 Hsv] Hv E. destruct (rew_wigm_value w surp v ltac:(lia)) as (w2 & E2 & V2).
  rewrite E in E2. inversion E2; subst w2. rewrite V2. pose proof (S_pos A S ZL) as HS.
  pose proof (one_ballot S (R w) (R surp) (R v) 1 HS Hv Hw Hs0 ltac:(lia)) as H1.
  pose proof (one_ballot_loss S (R w) (R surp) (R v) HS Hv Hw Hs0) as H2.
  assert (H0: 0 <= fdiv S (fmul S (R w) (R surp)) (R v)).
  { unfold fdiv, fmul. apply Z.div_pos; [|lia]. apply Z.mul_nonneg_nonneg; [|lia]. apply Z.div_pos; [|lia]. nia. }
  repeat split; try lia; nia.
Qed.
Lemma rew_scot_bounds w surp v w' : 0 <= R w -> 0 <= R surp <= R v -> 0 < R v ->
  rew_scot A w surp v = Ok w' ->
  0 <= R w' <= R w /\ R w' * R v <= R w * R surp /\ R w * R surp - R v < R w' * R v.
Proof.
  intros Hw [Hs0 Hsv] Hv E. destruct (rew_scot_value w surp v ltac:(lia)) as (w2 & E2 & V2).
  rewrite E in E2. inversion E2; subst w2. rewrite V2.
  pose proof (Z.mod_pos_bound (R w * R surp) (R v) Hv). pose proof (Z.div_mod (R w * R surp) (R v) ltac:(lia)).
  assert (0 <= R w * R surp / R v) by (apply Z.div_pos; nia).
  repeat split; try lia; nia.
Qed.

(* ---------- transfer(ballot): where the ballot goes ---------- *)
Lemma advance_spec cont r i :
  let j := advance_from cont r i in
  (i <= j <= i + List.length r)%nat /\
  (forall k, (k < j - i)%nat -> exists c, nth_error r k = Some c /\ cont c = false) /\
  (match nth_error r (j - i) with Some c => cont c = true | None => j = (i + List.length r)%nat end).
Proof.
  revert i. induction r as [|c r IH]; intros i; cbn [advance_from List.length].
  - replace (i - i)%nat with O by lia. cbn. split; [lia|]. split; [intros k Hk; lia|lia].
  - destruct (cont c) eqn:E.
    + replace (i - i)%nat with O by lia. cbn. split; [lia|]. split; [intros k Hk; lia|exact E].
    + destruct (IH (Datatypes.S i)) as (B & Sk & L). cbv zeta in *. set (j := advance_from cont r (Datatypes.S i)) in *.
      split; [lia|]. split.
      * intros k Hk. destruct k as [|k]; [exists c; split; [reflexivity|exact E]|].
        destruct (Sk k ltac:(lia)) as (c' & Hn & Hc). exists c'. split; [exact Hn|exact Hc].
      * replace (j - i)%nat with (Datatypes.S (j - Datatypes.S i)) by lia. cbn [nth_error].
        destruct (nth_error r (j - Datatypes.S i)); [exact L|lia].
Qed.

Lemma nth_error_skipn' {X} (l : list X) n k : nth_error (skipn n l) k = nth_error l (n + k).
Proof.
  revert l. induction n as [|n IH]; intros l; [reflexivity|]. destruct l as [|x l]; cbn [skipn Nat.add nth_error].
  - destruct k; reflexivity.
  - apply IH.
Qed.

(* tallies *)
Definition tot_votes (s : est) : Z := fold_right (fun c acc => R (cvote c) + acc) 0 (cands s).
Definition total (s : est) : Z := tot_votes s + R (exhausted s).

Lemma tot_upd_other (l : list (cand A)) i v :
  ~ In i (map (@cid A) l) ->
  fold_right (fun c acc => R (cvote c) + acc) 0 (upd_cand A i (fun c => with_vote c (add A (cvote c) v)) l) =
  fold_right (fun c acc => R (cvote c) + acc) 0 l.
Proof.
  unfold upd_cand. induction l as [|c l IH]; intros Hn; cbn [map fold_right]; [reflexivity|]. cbn [map In] in Hn.
  destruct (cid c =? i) eqn:E; [exfalso; apply Hn; left; lia|]. rewrite IH; [reflexivity|]. intros H; apply Hn; right; exact H.
Qed.

Lemma tot_add_vote (l : list (cand A)) i v : NoDup (map (@cid A) l) -> In i (map (@cid A) l) ->
  fold_right (fun c acc => R (cvote c) + acc) 0 (upd_cand A i (fun c => with_vote c (add A (cvote c) v)) l) =
  fold_right (fun c acc => R (cvote c) + acc) 0 l + R v.
Proof.
  induction l as [|c l IH]; intros Hnd Hin; cbn [map In] in *; [contradiction|].
  inversion Hnd as [|? ? Hnotin Hnd']; subst.
  unfold upd_cand in *. cbn [map fold_right].
  destruct (cid c =? i) eqn:E.
  - assert (cid c = i) by lia. subst i. cbn [cvote with_vote]. rewrite (r_add A S ZL).
    pose proof (tot_upd_other l (cid c) v Hnotin) as Ho. unfold upd_cand in Ho. rewrite Ho. lia.
  - destruct Hin as [Hin|Hin]; [lia|]. rewrite (IH Hnd' Hin). lia.
Qed.

Lemma find_in (l : list (cand A)) i c : find_cand A l i = Some c -> In i (map (@cid A) l).
Proof.
  unfold find_cand. intros H. apply find_some in H. destruct H as [Hin Heq].
  apply in_map_iff. exists c. split; [lia|exact Hin].
Qed.

(* the key conservation step: a transferred ballot's value is credited once, to a candidate or to the
   non-transferable pile; the ballot keeps its weight; candidates' identities and statuses are untouched *)
Theorem transfer_conserves keep (s : est) (b : ballot A) :
  NoDup (map (@cid A) (cands s)) ->
  let r := transfer A keep s b in
  total (fst r) = total s + R (bvote A (snd r)) /\
  bweight (snd r) = bweight b /\ bmult (snd r) = bmult b /\ brank (snd r) = brank b /\
  (bidx b <= bidx (snd r))%nat /\
  map (fun c => (cid c, cst c, cpend c)) (cands (fst r)) = map (fun c => (cid c, cst c, cpend c)) (cands s).
Proof.
  intros Hnd. unfold transfer. cbv zeta.
  set (j := advance_from (cont_pred A keep s) (skipn (bidx b) (brank b)) (bidx b)).
  pose proof (advance_spec (cont_pred A keep s) (skipn (bidx b) (brank b)) (bidx b)) as (Hb & _ & Hland). fold j in Hb, Hland.
  destruct (top_rank A (with_bidx b j)) as [c|] eqn:Et; cbn [fst snd].
  - (* lands on continuing candidate c *)
    unfold top_rank in Et. cbn [brank bidx with_bidx] in Et.
    assert (Ec: nth_error (skipn (bidx b) (brank b)) (j - bidx b) = Some c).
    { rewrite nth_error_skipn'. replace (bidx b + (j - bidx b))%nat with j by lia. exact Et. }
    rewrite Ec in Hland. unfold cont_pred in Hland. destruct (find_cand A (cands s) c) as [cc|] eqn:Ef; [|discriminate].
    unfold total, tot_votes, add_vote, upd. cbn [cands exhausted set_cands].
    rewrite (tot_add_vote (cands s) c _ Hnd (find_in _ _ _ Ef)).
    split; [lia|]. split; [reflexivity|]. split; [reflexivity|]. split; [reflexivity|].
    split; [cbn [bidx with_bidx]; lia|].
    unfold upd_cand. rewrite map_map. apply map_ext. intros x. destruct (cid x =? c); reflexivity.
  - unfold total, tot_votes. cbn [cands exhausted set_exhausted]. rewrite (r_add A S ZL).
    split; [lia|]. split; [reflexivity|]. split; [reflexivity|]. split; [reflexivity|].
    split; [cbn [bidx with_bidx]; lia|reflexivity].
Qed.
End G.
