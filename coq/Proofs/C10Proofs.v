(* C10, layout part: a corollary of the C15 tokenizer theorems *)
From Coq Require Import ZArith List Bool.
From Droop Require Import Model.KernelBase Model.Profile Model.ProfileSpec Proofs.TokenizerLemmas Proofs.C15Proofs.
Import ListNotations.

Lemma c10_layout l1 tr1 l2 tr2 :
  layout_ok true l1 -> is_ws tr1 -> layout_ok true l2 -> is_ws tr2 ->
  map snd l1 = map snd l2 -> hash_free (map snd l1) 0 false ->
  layout_text l1 tr1 <> [] -> layout_text l2 tr2 <> [] ->
  parse (layout_text l1 tr1) = parse (layout_text l2 tr2).
Proof.
  intros H1 W1 H2 W2 E HF N1 N2. unfold parse.
  destruct (layout_text l1 tr1) eqn:E1; [congruence|]. destruct (layout_text l2 tr2) eqn:E2; [congruence|].
  rewrite <- E1, <- E2. f_equal. apply c15_two_layouts; assumption.
Qed.

