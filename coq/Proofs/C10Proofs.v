(* C10, layout part: a corollary of the C15 tokenizer theorems *)
From Coq Require Import ZArith List Bool.
From Droop Require Import Model.KernelBase Model.Profile Model.ProfileSpec Proofs.TokenizerLemmas Proofs.C15Proofs.
Import ListNotations.

Lemma c10_layout l1 tr1 l2 tr2 :
  layout_ok true l1 -> is_ws tr1 -> layout_ok true l2 -> is_ws tr2 ->
  map snd l1 = map snd l2 -> hash_free (map snd l1) 0 false ->
  layout_text l1 tr1 <> [] -> layout_text l2 tr2 <> [] ->
  parse (layout_text l1 tr1) = parse (layout_text l2 tr2).
Proof.
  intros H1 W1 H2 W2 E HF N1 N2. unfold parse.
  destruct (layout_text l1 tr1) eqn:E1; [congruence|]. destruct (layout_text l2 tr2) eqn:E2; [congruence|].
  rewrite <- E1, <- E2. f_equal. apply c15_two_layouts; assumption.
Qed.


(* ---- a nickname and the candidate's number name the same candidate (getCid, token by token) ---- *)
From Coq Require Import Lia.
From Droop Require Import Proofs.RenderLemmas.
Open Scope Z_scope.
Lemma nick_or_number (st : pst) (nick d : ustr) (cid : Z) :
  all_digits nick = false -> smap_get nick (s_nickCid st) = Some cid -> s_nickCid st <> [] ->
  denotes d cid -> 0 < cid <= s_nCand st ->
  getCid st nick = Ok cid /\ getCid st d = Ok cid.
Proof.
  intros Hn Hg Hne Hd Hr. split.
  - unfold getCid. rewrite Hn. destruct (s_nickCid st) as [|x t] eqn:E; [contradiction|]. rewrite Hg. reflexivity.
  - unfold getCid. destruct Hd as [Hd1 Hd2]. rewrite Hd1. rewrite (p_int_denotes d cid (conj Hd1 Hd2)). cbn [bind].
    destruct ((0 <? cid) && (cid <=? s_nCand st)) eqn:E; [reflexivity|]. apply andb_false_iff in E. destruct E as [E|E]; [apply Z.ltb_ge in E|apply Z.leb_gt in E]; lia.
Qed.
