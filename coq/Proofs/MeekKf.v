(* After fix F12 (/repo meek.py: the keep factor is capped at 1) the keep-factor update of meek/warren leaves every
   elected candidate with a keep factor of at most 1 (non-exact integer-carrier arithmetics). *)
From Coq Require Import ZArith List Bool Lia ZifyBool.
From Droop Require Import Model.KernelBase Model.Arith Model.Prelude Model.State Model.Prims Model.RulesMeek Proofs.Zlike.
Import ListNotations.
Open Scope Z_scope.

Section Kf.
Variable A : arith.
Variable S : Z.
Variable ZL : zlike A S.
Hypothesis Hex : exact A = false.
Notation est := (est A).
Notation cand := (cand A).
Notation R := (@raw A S ZL).

Definition kf_le_one (c : cand) : Prop := exists k, ckf c = Some k /\ R k <= S.

Lemma clamp_le_one k : R (if true && gtv A k (V1 A) then V1 A else k) <= S.
Proof.
  cbn [andb]. rewrite (r_gtv_exact A S ZL Hex). unfold V1. rewrite (r_of_int A S ZL).
  destruct (1 * S <? R k) eqn:E; [rewrite (r_of_int A S ZL)|]; lia.
Qed.

Definition step (s : est) (c : cand) : est :=
  if crashed s then s else
  match kdiv A (kmul A (kf_of A c) (quota s) true) (cvote c) true with
  | Ok k => let k' := if true && gtv A k (V1 A) then V1 A else k in upd A s (cid c) (fun c => with_kf c (Some k'))
  | Raise e => set_crash s e
  end.

Lemma step_spec (s : est) c : crashed (step s c) = false ->
  crashed s = false /\ exists k', R k' <= S /\ step s c = upd A s (cid c) (fun c0 => with_kf c0 (Some k')).
Proof.
  unfold step. destruct (crashed s) eqn:C; [intros H; congruence|].
  destruct (kdiv A _ _ _) as [k|e]; intros H.
  - split; [reflexivity|]. eexists. split; [apply (clamp_le_one k)|reflexivity].
  - unfold crashed, set_crash in H. cbn [crash] in H. destruct (crash s); discriminate.
Qed.

Lemma in_upd (s : est) i f c' : In c' (cands (upd A s i f)) ->
  exists c, In c (cands s) /\ ((cid c = i /\ c' = f c) \/ (cid c <> i /\ c' = c)).
Proof.
  unfold upd, upd_cand. cbn [cands set_cands]. intros H. apply in_map_iff in H. destruct H as (c & E & Hc). exists c. split; [exact Hc|].
  destruct (cid c =? i) eqn:Ei; [left|right]; split; auto; lia.
Qed.

Lemma fold_kf (l : list cand) : forall s, crashed (fold_left step l s) = false ->
  forall c', In c' (cands (fold_left step l s)) ->
    (In (cid c') (map (@cid A) l) -> kf_le_one c') /\
    (exists c, In c (cands s) /\ cid c = cid c' /\ cst c = cst c' /\ (kf_le_one c -> kf_le_one c')).
Proof.
  induction l as [|c0 l IH]; intros s Hc c' Hc'; cbn [fold_left] in *.
  - split; [intros []|]. exists c'. repeat split; auto.
  - assert (Hc1: crashed (step s c0) = false).
    { destruct (crashed (step s c0)) eqn:C; [|reflexivity]. exfalso.
      assert (E: forall l s, crashed s = true -> fold_left step l s = s).
      { clear. induction l as [|x l IHl]; intros s H; cbn [fold_left]; [reflexivity|]. unfold step at 2. rewrite H. apply IHl. exact H. }
      rewrite (E l _ C) in Hc. congruence. }
    destruct (step_spec s c0 Hc1) as (Hcs & k' & Hk' & Es).
    destruct (IH (step s c0) Hc c' Hc') as [H1 (c1 & Hc1in & Eid & Est & Hkeep)].
    rewrite Es in Hc1in. destruct (in_upd _ _ _ _ Hc1in) as (c & Hcin & [[Ei ->]|[Ei ->]]).
    + split.
      * intros _. apply Hkeep. exists k'. split; [reflexivity|exact Hk'].
      * exists c. cbn [cid cst with_kf] in *. repeat split; auto. intros _. apply Hkeep. exists k'. split; [reflexivity|exact Hk'].
    + split.
      * intros [E|Hin]; [congruence|exact (H1 Hin)].
      * exists c. repeat split; auto.
Qed.

Theorem update_kfs_le_one (s : est) : crashed (update_kfs A true s) = false ->
  forall c', In c' (cands (update_kfs A true s)) -> cst c' = Elected -> kf_le_one c'.
Proof.
  intros Hc c' Hc' Hst. unfold update_kfs in *. change (fold_left _ (electeds A s) s) with (fold_left step (electeds A s) s) in *.
  destruct (fold_kf (electeds A s) s Hc c' Hc') as [H1 (c & Hcin & Eid & Est & _)].
  apply H1. rewrite <- Eid. apply in_map. unfold electeds. apply filter_In. split; [exact Hcin|].
  unfold in_state. rewrite Est, Hst. reflexivity.
Qed.
End Kf.
