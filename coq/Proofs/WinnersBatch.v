(* The number of winners (C01) for wigm-prf WITH sure-loser batches (wigm-prf-batch): a batch never takes the number of
   candidates in the running below the number of seats (LowestExcluded.batch_defeat_sure_losers: the scan stops at
   hopefuls - seats left), its members are distinct hopefuls, so the invariant of Winners.v survives batch exclusions. *)
From Coq Require Import ZArith List Bool String Lia PArith Permutation.
From Droop Require Import Model.KernelBase Model.Str Model.Arith Model.Prelude Model.State Model.Prims Model.RulesGregory
  Model.Election Proofs.CmdMeta Proofs.Zlike Proofs.Status Proofs.Ties Proofs.SortLemmas Proofs.Forward Proofs.ForwardOps
  Proofs.Terminate Proofs.TerminateQpq Proofs.Conserve Proofs.ConserveCount Proofs.Winners Proofs.LowestExcluded.
Import ListNotations.
Open Scope Z_scope.

Section WB.
Variable A : arith.
Variable S : Z.
Variable ZL : zlike A S.
Variable cfg : config.
Hypothesis Hex : exact A = false.
Notation est := (est A).
Notation cand := (cand A).
Notation actn := (actn A).
Notation hopn := (hopn A).
Notation eln := (eln A).
Notation dfn := (dfn A).
Notation sl := (sl A).
Notation seats := (cf_nseats cfg).
Notation WI := (WI A cfg).
Local Open Scope cmd_scope.
Notation T3 := (triple est (@crashed A)).

(* the groups partition the scanned list, in order *)
Lemma group_tied_concat surp (l : list cand) : forall vote group acc,
  List.concat (group_tied A surp l vote group acc) = (List.concat (rev acc) ++ rev group ++ l)%list.
Proof.
  induction l as [|x l IH]; intros vote group acc; cbn [group_tied].
  - rewrite app_nil_r. destruct group as [|g0 gr]; [rewrite app_nil_r; reflexivity|].
    cbn [rev]. rewrite concat_app. cbn [List.concat]. rewrite app_nil_r. reflexivity.
  - destruct (gev A (add A vote surp) (cvote x)).
    + rewrite IH. cbn [rev]. rewrite <- !app_assoc. reflexivity.
    + rewrite IH. destruct group as [|g0 gr]; cbn [rev app]; [reflexivity|].
      rewrite concat_app. cbn [List.concat]. rewrite app_nil_r, <- !app_assoc. reflexivity.
Qed.

Lemma nodup_app_l {X} (l1 l2 : list X) : NoDup (l1 ++ l2) -> NoDup l1.
Proof.
  induction l1 as [|x l1 IH]; intros H; [constructor|]. cbn [app] in H. inversion H as [|? ? Hn H']; subst.
  constructor; [intros Hin; apply Hn; apply in_or_app; left; exact Hin|apply IH; exact H'].
Qed.

Lemma batch_nodup surp (s : est) : NoDup (map (@cid A) (cands s)) -> NoDup (map (@cid A) (batch_defeat A cfg surp s)).
Proof.
  intros Hnd. unfold batch_defeat. cbv zeta. set (sorted := by_vote A false (hopefuls A s)).
  set (groups := group_tied A surp sorted (V0 A) [] []).
  destruct (scan_groups A surp _ groups (V0 A) 0 0 None) as [g|]; [|constructor].
  assert (Ec: List.concat groups = sorted) by (unfold groups; rewrite group_tied_concat; reflexivity).
  assert (Hs: NoDup (map (@cid A) sorted)).
  { unfold sorted, by_vote. eapply Permutation_NoDup; [apply Permutation_map, Permutation_sym, py_sorted_perm|]. apply nodup_map_filter. exact Hnd. }
  rewrite <- Ec, <- (firstn_skipn (Datatypes.S g) groups), concat_app, map_app in Hs. exact (nodup_app_l _ _ Hs).
Qed.

Lemma cands_of_len (s : est) ids : (List.length (cands_of A s ids) <= List.length ids)%nat.
Proof. unfold cands_of. induction ids as [|i t IH]; cbn [flat_map List.length]; [lia|]. rewrite app_length. destruct (find_cand A (cands s) i); cbn [List.length]; lia. Qed.
Lemma cands_of_nodup (s : est) ids : NoDup ids -> NoDup (map (@cid A) (cands_of A s ids)).
Proof.
  unfold cands_of. induction ids as [|i t IH]; intros Hnd; cbn [flat_map map]; [constructor|]. inversion Hnd as [|? ? Hn Hnd']; subst.
  rewrite map_app. destruct (find_cand A (cands s) i) as [c|] eqn:Ef; cbn [map app]; [|apply IH; exact Hnd'].
  destruct (find_cand_In A _ _ _ Ef) as [_ Ei]. constructor; [|apply IH; exact Hnd'].
  intros Hin. apply in_map_iff in Hin. destruct Hin as (c' & Ec' & Hc'). apply Hn. rewrite <- Ei, <- Ec'. exact (proj2 (cands_of_in A s t c' Hc')).
Qed.

Lemma ids_fold_defeat msg (L : list cand) : forall t : est,
  map (@cid A) (cands (fold_left (fun s c => defeat A cfg (cid c) msg s) L t)) = map (@cid A) (cands t).
Proof. induction L as [|c l IH]; intros t; cbn [fold_left]; [reflexivity|]. rewrite IH. apply (ids_defeat A cfg). Qed.

(* a batch of distinct hopefuls, small enough: afterwards the seats can still be filled *)
Lemma wi_defeat_batch msg (L : list cand) (s : est) : WI s -> lv_batch s = map (@cid A) L ->
  (forall c, In c L -> In c (hopefuls A s)) -> NoDup (map (@cid A) L) ->
  nlen L <= nlen (hopefuls A s) - seats_left A cfg s ->
  WI (defeat_batch_in_ballot_order A cfg msg s) /\ seats <= Z.of_nat (actn (defeat_batch_in_ballot_order A cfg msg s)).
Proof.
  intros [Hnd Hi] Eb HL HLn Hlen. unfold defeat_batch_in_ballot_order.
  set (Lf := by_order A (cands_of A s (lv_batch s))).
  assert (Pf: Permutation Lf (cands_of A s (lv_batch s))) by (unfold Lf, by_order; apply py_sorted_perm).
  assert (Hh: forall c, In c Lf -> HopId A s (cid c)).
  { intros c Hc. apply (Permutation_in _ Pf) in Hc. destruct (cands_of_in A s _ c Hc) as [Hcin Hid]. rewrite Eb in Hid. apply in_map_iff in Hid.
    destruct Hid as (c0 & E0 & Hc0). pose proof (HL c0 Hc0) as Hh0. exists c0. split; [exact Hh0|exact E0]. }
  assert (Hnf: NoDup (map (@cid A) Lf)).
  { eapply Permutation_NoDup; [apply Permutation_map, Permutation_sym, Pf|]. apply cands_of_nodup. rewrite Eb. exact HLn. }
  destruct (defeat_all_fold A cfg msg Lf s Hnd Hnf Hh) as (F1 & F2 & F3). cbv zeta in *.
  set (s' := fold_left (fun s c => defeat A cfg (cid c) msg s) Lf s) in *.
  assert (Eids: map (@cid A) (cands s') = map (@cid A) (cands s)) by (unfold s'; apply ids_fold_defeat).
  assert (Hlf: (List.length Lf <= List.length L)%nat).
  { rewrite (Permutation_length Pf). eapply Nat.le_trans; [apply cands_of_len|]. rewrite Eb, map_length. lia. }
  assert (Hge: seats <= Z.of_nat (actn s')).
  { rewrite (actn_split A s'), F1. unfold seats_left in Hlen. rewrite (nlen_electeds A), (nlen_hopefuls A) in Hlen. unfold nlen in Hlen. lia. }
  split; [split; [rewrite Eids; exact Hnd|right; exact Hge]|exact Hge].
Qed.

Definition BL (s : est) : Prop :=
  lv_batch s = [] \/
  exists L, lv_batch s = map (@cid A) L /\ (forall c, In c L -> In c (hopefuls A s)) /\ NoDup (map (@cid A) L) /\
            nlen L <= nlen (hopefuls A s) - seats_left A cfg s.

Lemma prf_find_batch_bl (s : est) : NoDup (map (@cid A) (cands s)) -> BL (prf_find_batch A cfg s).
Proof.
  intros Hnd. unfold prf_find_batch. destruct (cf_batch cfg); [|left; reflexivity].
  set (L := batch_defeat A cfg (pending_surplus A s) s). destruct L as [|c0 L0] eqn:EL; [left; reflexivity|]. right.
  exists (c0 :: L0). cbn [lv_batch set_batch]. split; [reflexivity|].
  assert (Hne: batch_defeat A cfg (pending_surplus A s) s <> []) by (fold L; rewrite EL; discriminate).
  destruct (batch_defeat_sure_losers A S ZL cfg Hex (pending_surplus A s) s Hne) as [Hlen _]. fold L in Hlen. rewrite EL in Hlen.
  pose proof (batch_defeat_hopeful A cfg (pending_surplus A s) s) as Hh. fold L in Hh. rewrite EL in Hh. rewrite Forall_forall in Hh.
  pose proof (batch_nodup (pending_surplus A s) s Hnd) as Hn. fold L in Hn. rewrite EL in Hn.
  split; [exact Hh|split; [exact Hn|exact Hlen]].
Qed.

Lemma wigm_prf_winners_any (Qb Qc : est -> Prop) : T3 WI (wigm_prf A cfg) (POST A cfg) Qb Qc.
Proof.
  unfold wigm_prf.
  eapply t_seq with (M := WI).
  { apply t_do. intros s H. apply (wi_mono A cfg s); [|exact H]. eapply mono_trans; [apply mono_sl, sl_start_count|apply mono_log]. }
  eapply t_seq with (M := WI).
  { eapply t_post; [|apply (t_while est (@crashed A) WI WI)].
    - intros s [H|[H _]]; exact H.
    - eapply t_seq with (M := fun s => WI s /\ seats < Z.of_nat (actn s)).
      { apply t_do. intros s [H Hg]. pose proof (guard_actn A cfg s Hg) as Hlt. pose proof (mono_sl A s (new_round A cfg s) (sl_log A cfg _ _ _)) as M.
        split; [apply (wi_mono A cfg s); assumption|destruct M as (_ & M2 & _); lia]. }
      eapply t_seq with (M := fun s => WI s /\ seats < Z.of_nat (actn s)).
      { apply t_do. intros s [H Hlt]. pose proof (mono_elect_with_quota A cfg (ge_quota A) (fun _ _ => true) None (fun _ => true) s) as M.
        split; [apply (wi_mono A cfg s); assumption|destruct M as (_ & M2 & _); lia]. }
      eapply t_seq with (M := fun s => (WI s /\ seats < Z.of_nat (actn s)) /\ BL s).
      { apply t_do. intros s [H Hlt]. split; [exact (conj H Hlt)|apply prf_find_batch_bl; exact (proj1 H)]. }
      eapply t_seq with (M := fun s => WI s /\ seats < Z.of_nat (actn s)).
      { apply t_ite; [|apply t_skip'; intros s [[H _] _]; exact H].
        eapply t_seq with (M := fun s => WI s /\ seats <= Z.of_nat (actn s)).
        { apply t_do. intros s [[[H Hlt] Hb] Hg]. destruct Hb as [Hb|(L & Eb & HL & HLn & Hlen)]; [rewrite Hb in Hg; discriminate Hg|].
          exact (wi_defeat_batch "Defeat sure loser" L s H Eb HL HLn Hlen). }
        eapply t_seq with (M := fun s => WI s /\ seats < Z.of_nat (actn s)).
        { apply t_ite; [apply t_break'; intros s [[H _] _]; exact H|].
          apply t_skip'. intros s [[H Hge] Hg]. split; [exact H|]. apply Z.leb_gt in Hg. unfold seats_left in Hg.
          rewrite (nlen_electeds A), (nlen_hopefuls A) in Hg. rewrite (actn_split A). lia. }
        eapply t_seq with (M := WI); [|apply t_continue'; auto].
        apply t_do. intros s [H _]. apply (wi_mono A cfg s); [|exact H]. apply mono_sl.
        unfold transfer_batch. cbv zeta. rewrite (sl_log A cfg).
        match goal with |- TerminateQpq.sl A (fold_left ?g ?l ?t) = _ => assert (G: forall l0 t0, TerminateQpq.sl A (fold_left g l0 t0) = TerminateQpq.sl A t0) end.
        { induction l0 as [|i l0 IH]; intros t0; cbn [fold_left]; [reflexivity|]. rewrite IH. apply (sl_set_vote A). }
        rewrite G. apply (sl_for_ballots A). intros; apply (sl_transfer A). }
      apply t_ite.
      + apply t_do. intros s [[H _] _]. apply (wi_mono A cfg s); [apply mono_transfer_high, bt_simple_ok|exact H].
      + apply t_ite; [|apply t_skip'; intros s [[[H _] _] _]; exact H].
        apply t_do. intros s [[[H Hlt] _] _]. unfold defeat_low. destruct (low_candidates A s) as [[lv lows]|] eqn:El; [|apply (wi_mono A cfg s); [apply mono_sl; reflexivity|exact H]].
        exact (wi_defeat_after_tie A cfg _ "Defeat" lv lows s (bt_simple_ok A cfg "defeat") H Hlt El). }
  eapply t_seq with (M := WI).
  { apply t_do. intros s H. apply (wi_mono A cfg s); [apply mono_unpend_all|exact H]. }
  apply t_do. intros s H. exists s. split; [exact H|reflexivity].
Qed.
End WB.

Section WBCount.
Variable A : arith.
Variable S : Z.
Variable ZL : zlike A S.
Variable cfg : config.
Hypothesis Hmeth : cf_method cfg = MWigm.
Hypothesis Hex : exact A = false.
Hypothesis Hnb : 0 <= cf_nballots cfg.
Hypothesis Hns : 0 <= cf_nseats cfg.

(* wigm-prf and wigm-prf-batch alike: a count that ends normally elects exactly min(seats, candidates not withdrawn) *)
Theorem count_winners_prf_any pr fuel s k : wf_profile pr -> cf_nballots cfg = ballot_total pr ->
  exec (@crashed A) fuel (count_cmd A cfg RWigmPrf) (init_state A cfg pr) = Some (s, k) -> k <> Abort ->
  nlen (electeds A s) = Z.min (cf_nseats cfg) (nlen (eligibles A s)).
Proof.
  intros Hwf Hnbt He Hk.
  assert (Hsr: seat_rule RWigmPrf) by (right; left; reflexivity).
  pose proof (count_seats A S ZL cfg Hmeth Hex Hnb Hns RWigmPrf pr fuel s k Hsr Hwf Hnbt He Hk) as Hle.
  assert (Ht: triple (est A) (@crashed A) (fun s0 => s0 = init_state A cfg pr) (count_cmd A cfg RWigmPrf)
            (fun sf => exists s2, WI A cfg s2 /\ sl A sf = sl A (elect_or_defeat_remaining A cfg s2)) (fun _ => False) (fun _ => False)).
  { unfold count_cmd. eapply t_seq with (M := WI A cfg).
    - apply t_do. intros s0 ->. apply wi_init. exact (proj1 Hwf).
    - eapply t_seq with (M := POST A cfg); [cbn [rule_cmd]; apply (wigm_prf_winners_any A S ZL cfg Hex)|].
      apply t_do. intros s0 (s2 & W2 & ->). exists s2. split; [exact W2|apply sl_log]. }
  specialize (Ht fuel _ s k eq_refl He). destruct k; try contradiction.
  destruct Ht as (s2 & W2 & Esl). destruct (counts_sl4 A _ _ Esl) as (E1 & E2 & E3 & E4).
  rewrite (nlen_electeds A), (nlen_eligibles A Hex). rewrite (nlen_electeds A) in Hle. unfold nonw. rewrite E1, E3, E4 in *.
  destruct (eodr_counts A cfg s2 (proj1 W2)) as (C1 & _ & _). cbv zeta in C1.
  assert (Hle2: Z.of_nat (eln A s2) <= cf_nseats cfg) by lia.
  destruct (winners_from_inv A cfg s2 W2 Hle2) as (F1 & F2 & _). unfold nonw in F2. rewrite F1. f_equal. f_equal. unfold nonw. symmetry. exact F2.
Qed.
End WBCount.
