(* Termination of QPQ, under any arithmetic.  QPQ excludes a candidate, then restarts: every winner so far goes back to
   hopeful.  So statuses do not only move forward; the measure is lexicographic: first the candidates still in the running
   (hopeful or elected), which only an exclusion changes, then the hopefuls, which an election reduces and only a restart
   -- right after an exclusion -- can raise:  (N+1) * active + (N if a restart is pending else hopeful). *)
From Coq Require Import ZArith List Bool String Lia PArith.
From Droop Require Import Model.KernelBase Model.Str Model.Arith Model.Prelude Model.State Model.Prims Model.RulesGregory
  Model.RulesMeek Model.Election Proofs.CmdMeta Proofs.Status Proofs.Ties Proofs.Forward Proofs.ForwardOps Proofs.Terminate.
Import ListNotations.

Section TQ.
Variable A : arith.
Variable cfg : config.
Notation est := (est A).
Notation cand := (cand A).

Definition actc (c : cand) : nat := match cst c with Hopeful | Elected => 1 | _ => 0 end.
Definition hopc (c : cand) : nat := match cst c with Hopeful => 1 | _ => 0 end.
Definition sumc (f : cand -> nat) (l : list cand) : nat := fold_right (fun c acc => f c + acc)%nat 0%nat l.
Definition actn (s : est) : nat := sumc actc (cands s).
Definition hopn (s : est) : nat := sumc hopc (cands s).
Definition sl (s : est) : list (Z * cstate) := map (fun c => (cid c, cst c)) (cands s).

Lemma sumc_sl (f : cstate -> nat) (l l' : list cand) :
  map (fun c => (cid c, cst c)) l' = map (fun c => (cid c, cst c)) l ->
  sumc (fun c => f (cst c)) l' = sumc (fun c => f (cst c)) l.
Proof.
  revert l'. induction l as [|c l IH]; intros [|c' l'] E; cbn [map] in E; try discriminate; [reflexivity|].
  injection E as E1 E2 E3. cbn [sumc fold_right]. fold (sumc (fun c => f (cst c)) l'). fold (sumc (fun c => f (cst c)) l). rewrite (IH l' E3), E2. reflexivity.
Qed.
Lemma counts_sl (s s' : est) : sl s' = sl s -> actn s' = actn s /\ hopn s' = hopn s /\ map (@cid A) (cands s') = map (@cid A) (cands s).
Proof.
  intros E. unfold sl in E. split; [|split].
  - exact (sumc_sl (fun st => match st with Hopeful | Elected => 1 | _ => 0 end)%nat _ _ E).
  - exact (sumc_sl (fun st => match st with Hopeful => 1 | _ => 0 end)%nat _ _ E).
  - assert (H: map fst (map (fun c : cand => (cid c, cst c)) (cands s')) = map fst (map (fun c : cand => (cid c, cst c)) (cands s))) by (rewrite E; reflexivity).
    rewrite !map_map in H. exact H.
Qed.
Lemma sl_upd_same i f (s : est) : (forall c, cid (f c) = cid c /\ cst (f c) = cst c) -> sl (upd A s i f) = sl s.
Proof.
  intros Hf. unfold sl, upd, upd_cand. cbn [cands set_cands]. rewrite map_map. apply map_ext. intros c.
  destruct (Z.eqb (cid c) i); [|reflexivity]. destruct (Hf c) as [-> ->]. reflexivity.
Qed.
Lemma sl_log t m (s : est) : sl (log_action A cfg t m s) = sl s.
Proof. unfold sl. rewrite (cands_log A cfg). reflexivity. Qed.
Lemma flag_log t m (s : est) : lv_flag (log_action A cfg t m s) = lv_flag s.
Proof. unfold log_action. destruct (is_log t); [reflexivity|]. destruct (is_round t); reflexivity. Qed.
Lemma sl_fold {X} (g : est -> X -> est) (l : list X) : (forall s x, sl (g s x) = sl s /\ lv_flag (g s x) = lv_flag s) ->
  forall s, sl (fold_left g l s) = sl s /\ lv_flag (fold_left g l s) = lv_flag s.
Proof.
  intros Hg. induction l as [|x l IH]; intros s; cbn [fold_left]; [split; reflexivity|].
  destruct (IH (g s x)) as [E1 E2]. destruct (Hg s x) as [F1 F2]. rewrite E1, E2, F1, F2. split; reflexivity.
Qed.
Lemma hopn_le (s : est) : (hopn s <= List.length (cands s))%nat.
Proof. unfold hopn. induction (cands s) as [|c l IH]; cbn [sumc fold_right List.length]; [lia|]. fold (sumc hopc l). unfold hopc at 1. destruct (cst c); lia. Qed.
Lemma actn_le (s : est) : (actn s <= List.length (cands s))%nat.
Proof. unfold actn. induction (cands s) as [|c l IH]; cbn [sumc fold_right List.length]; [lia|]. fold (sumc actc l). unfold actc at 1. destruct (cst c); lia. Qed.
Lemma len_ids (s s' : est) : map (@cid A) (cands s') = map (@cid A) (cands s) -> List.length (cands s') = List.length (cands s).
Proof. intros E. rewrite <- (map_length (@cid A) (cands s')), E, map_length. reflexivity. Qed.

(* ---- the tally touches no status ---- *)
Lemma tally_sl (s : est) : sl (qpq_tally A cfg s) = sl s /\ lv_flag (qpq_tally A cfg s) = lv_flag s.
Proof.
  unfold qpq_tally. cbv zeta.
  set (s1 := set_cands (set_txva s (V0 A) (V0 A)) _).
  assert (E1: sl s1 = sl s /\ lv_flag s1 = lv_flag s).
  { split; [|reflexivity]. unfold sl, s1. cbn [cands set_cands set_txva]. rewrite map_map. apply map_ext. intros c. destruct (in_state A Hopeful c); reflexivity. }
  set (s2 := fold_left _ (ballots s1) s1).
  assert (E2: sl s2 = sl s1 /\ lv_flag s2 = lv_flag s1).
  { unfold s2. apply sl_fold. intros t b. destruct (b_exhausted A b); [split; reflexivity|]. cbv zeta.
    destruct (top_rank A b); [|split; reflexivity]. split; [|reflexivity]. rewrite sl_upd_same; [reflexivity|]. intros c; split; reflexivity. }
  set (s3 := fold_left _ (hopefuls A s2) s2).
  assert (E3: sl s3 = sl s2 /\ lv_flag s3 = lv_flag s2).
  { unfold s3. apply sl_fold. intros t c. destruct (crashed t); [split; reflexivity|]. destruct (divv A _ _); [|split; reflexivity].
    split; [|reflexivity]. apply sl_upd_same. intros c0; split; reflexivity. }
  assert (E4: sl (if crashed s3 then s3 else set_quota_r A s3 (qpq_quota A cfg s3)) = sl s3 /\ lv_flag (if crashed s3 then s3 else set_quota_r A s3 (qpq_quota A cfg s3)) = lv_flag s3).
  { destruct (crashed s3); [split; reflexivity|]. unfold set_quota_r. destruct (qpq_quota A cfg s3); split; reflexivity. }
  destruct E1 as [A1 B1], E2 as [A2 B2], E3 as [A3 B3], E4 as [A4 B4]. split; congruence.
Qed.

(* ---- restart: the winners go back to hopeful, nobody else moves ---- *)
Definition AE (t : est) (i : Z) : Prop := forall c, In c (cands t) -> cid c = i -> cst c = Hopeful \/ cst c = Elected.

Lemma unelect_facts i (t : est) : AE t i ->
  actn (unelect A i t) = actn t /\ map (@cid A) (cands (unelect A i t)) = map (@cid A) (cands t) /\ (forall j, AE t j -> AE (unelect A i t) j) /\
  lv_flag (unelect A i t) = lv_flag t.
Proof.
  intros H. unfold unelect, upd. cbn [cands set_cands lv_flag]. split; [|split; [apply cids_upd; reflexivity|split; [|reflexivity]]].
  - unfold actn. cbn [cands set_cands]. unfold upd_cand. revert H. unfold AE. induction (cands t) as [|c l IH]; intros H; [reflexivity|].
    cbn [map sumc fold_right]. fold (sumc actc l). fold (sumc actc (map (fun c0 => if Z.eqb (cid c0) i then with_st c0 Hopeful (cpend c0) else c0) l)).
    rewrite (IH (fun c' Hc' => H c' (or_intror Hc'))). destruct (Z.eqb (cid c) i) eqn:E; [|reflexivity].
    destruct (H c (or_introl eq_refl) ltac:(lia)) as [Hs|Hs]; unfold actc; cbn [cst with_st]; rewrite Hs; reflexivity.
  - intros j Hj c' Hc' Ej. destruct (in_upd_cand A i _ _ c' Hc') as (c0 & Hc0 & ->).
    destruct (Z.eqb (cid c0) i); [left; reflexivity|apply (Hj c0 Hc0); exact Ej].
Qed.

Lemma restart_facts (s : est) : NoDup (map (@cid A) (cands s)) ->
  actn (qpq_restart A s) = actn s /\ map (@cid A) (cands (qpq_restart A s)) = map (@cid A) (cands s) /\ lv_flag (qpq_restart A s) = lv_flag s.
Proof.
  intros Hnd. unfold qpq_restart. cbv zeta. cbn [cands set_ballots lv_flag].
  assert (G: forall (L : list cand) (t : est), (forall c, In c L -> AE t (cid c)) ->
             actn (fold_left (fun s c => unelect A (cid c) s) L t) = actn t /\
             map (@cid A) (cands (fold_left (fun s c => unelect A (cid c) s) L t)) = map (@cid A) (cands t) /\
             lv_flag (fold_left (fun s c => unelect A (cid c) s) L t) = lv_flag t).
  { induction L as [|c L IH]; intros t HL; cbn [fold_left]; [repeat split|].
    destruct (unelect_facts (cid c) t (HL c (or_introl eq_refl))) as (F1 & F2 & F3 & F4).
    destruct (IH (unelect A (cid c) t)) as (G1 & G2 & G3); [intros c' Hc'; apply F3; apply HL; right; exact Hc'|].
    split; [congruence|split; congruence]. }
  apply G. intros c Hc c' Hc' E. unfold electeds in Hc. apply filter_In in Hc. destruct Hc as [Hc Hst].
  assert (c' = c) by (apply (nodup_cid_inj A (cands s)); [exact Hnd|exact Hc|exact Hc'|exact E]). subst c'.
  right. unfold in_state in Hst. destruct (cst c); cbn in Hst; congruence.
Qed.


(* ---- one election or exclusion ---- *)
Lemma upd_cand_notin i f (l : list cand) : ~ In i (map (@cid A) l) -> upd_cand A i f l = l.
Proof.
  unfold upd_cand. induction l as [|c l IH]; intros H; [reflexivity|]. cbn [map] in *. rewrite IH by (intros Hi; apply H; right; exact Hi).
  destruct (Z.eqb (cid c) i) eqn:E; [exfalso; apply H; left; lia|reflexivity].
Qed.
Lemma sumc_upd_one (g : cand -> nat) i f (l : list cand) c : NoDup (map (@cid A) l) -> In c l -> cid c = i ->
  (sumc g (upd_cand A i f l) + g c = sumc g l + g (f c))%nat.
Proof.
  induction l as [|y l IH]; intros Hnd Hin Ei; [contradiction|]. cbn [map] in Hnd. inversion Hnd as [|? ? Hn Hnd']; subst.
  destruct Hin as [->|Hin].
  - unfold upd_cand. cbn [map]. rewrite Z.eqb_refl. fold (upd_cand A (cid c) f l). rewrite (upd_cand_notin _ f l Hn). unfold sumc. cbn [fold_right].
    generalize (fold_right (fun (c0 : cand) (acc : nat) => g c0 + acc)%nat 0%nat l) (g (f c)) (g c). intros n a b. lia.
  - assert (Hne: (cid y =? cid c)%Z = false) by (apply Z.eqb_neq; intros E; apply Hn; rewrite E; apply in_map; exact Hin).
    unfold upd_cand. cbn [map]. rewrite Hne. fold (upd_cand A (cid c) f l).
    specialize (IH Hnd' Hin eq_refl). unfold sumc in *. cbn [fold_right].
    revert IH. generalize (fold_right (fun (c0 : cand) (acc : nat) => g c0 + acc)%nat 0%nat (upd_cand A (cid c) f l))
      (fold_right (fun (c0 : cand) (acc : nat) => g c0 + acc)%nat 0%nat l) (g (f c)) (g c) (g y). intros n1 n2 a b d IH. lia.
Qed.

Lemma st_change (st : cstate) (p : cand -> option bool) i (s : est) c : NoDup (map (@cid A) (cands s)) -> In c (hopefuls A s) -> cid c = i ->
  let s' := upd A s i (fun c0 => with_st c0 st (p c0)) in
  (hopn s' + 1 = hopn s + match st with Hopeful => 1 | _ => 0 end)%nat /\
  (actn s' + 1 = actn s + match st with Hopeful | Elected => 1 | _ => 0 end)%nat /\
  map (@cid A) (cands s') = map (@cid A) (cands s) /\ lv_flag s' = lv_flag s.
Proof.
  intros Hnd Hc Ei. cbv zeta. unfold hopefuls in Hc. apply filter_In in Hc. destruct Hc as [Hc Hh].
  assert (Es: cst c = Hopeful) by (unfold in_state in Hh; destruct (cst c); cbn in Hh; congruence).
  unfold hopn, actn, upd. cbn [cands set_cands lv_flag].
  pose proof (sumc_upd_one hopc i (fun c0 => with_st c0 st (p c0)) (cands s) c Hnd Hc Ei) as H1.
  pose proof (sumc_upd_one actc i (fun c0 => with_st c0 st (p c0)) (cands s) c Hnd Hc Ei) as H2.
  cbv beta in H1, H2.
  assert (E1: hopc c = 1%nat) by (unfold hopc; rewrite Es; reflexivity).
  assert (E2: actc c = 1%nat) by (unfold actc; rewrite Es; reflexivity).
  assert (E3: hopc (with_st c st (p c)) = match st with Hopeful => 1 | _ => 0 end%nat) by reflexivity.
  assert (E4: actc (with_st c st (p c)) = match st with Hopeful | Elected => 1 | _ => 0 end%nat) by reflexivity.
  rewrite E1, E3 in H1. rewrite E2, E4 in H2.
  split; [exact H1|split; [exact H2|split; [apply cids_upd; reflexivity|reflexivity]]].
Qed.

Lemma elect_facts h m (s : est) : NoDup (map (@cid A) (cands s)) -> (exists c, In c (hopefuls A s) /\ cid c = h) ->
  (hopn (elect A cfg h m false s) < hopn s)%nat /\ actn (elect A cfg h m false s) = actn s /\
  map (@cid A) (cands (elect A cfg h m false s)) = map (@cid A) (cands s) /\ lv_flag (elect A cfg h m false s) = lv_flag s.
Proof.
  intros Hnd (c & Hc & Ei). unfold elect. destruct (find_cand A (cands s) h) as [c0|] eqn:Ef.
  - destruct (st_change Elected (fun _ => Some false) h s c Hnd Hc Ei) as (H1 & H2 & H3 & H4). cbv zeta in *.
    destruct (counts_sl _ _ (sl_log TElect (m ++ ": " ++ cname c0)%string (upd A s h (fun c1 => with_st c1 Elected (Some false))))) as (E1 & E2 & E3).
    rewrite E1, E2, E3, flag_log. repeat split; try lia; assumption.
  - exfalso. unfold hopefuls in Hc. apply filter_In in Hc. destruct (find_cand_in A (cands s) h) as [y Hy]; [rewrite <- Ei; apply in_map; exact (proj1 Hc)|congruence].
Qed.
Lemma defeat_facts l m (s : est) : NoDup (map (@cid A) (cands s)) -> (exists c, In c (hopefuls A s) /\ cid c = l) ->
  (actn (defeat A cfg l m s) < actn s)%nat /\
  map (@cid A) (cands (defeat A cfg l m s)) = map (@cid A) (cands s).
Proof.
  intros Hnd (c & Hc & Ei). unfold defeat. destruct (find_cand A (cands s) l) as [c0|] eqn:Ef.
  - destruct (st_change Defeated (fun c1 => cpend c1) l s c Hnd Hc Ei) as (H1 & H2 & H3 & H4). cbv zeta in *.
    destruct (counts_sl _ _ (sl_log TDefeat (m ++ ": " ++ cname c0)%string (upd A s l (fun c1 => with_st c1 Defeated (cpend c1))))) as (E1 & E2 & E3).
    rewrite E1, E3. split; [lia|assumption].
  - exfalso. unfold hopefuls in Hc. apply filter_In in Hc. destruct (find_cand_in A (cands s) l) as [y Hy]; [rewrite <- Ei; apply in_map; exact (proj1 Hc)|congruence].
Qed.

(* what a step that does not raise achieves: either an election (fewer hopefuls, restart flag untouched) or an exclusion
   (fewer candidates in the running, restart requested) *)
Lemma step_facts (s : est) : NoDup (map (@cid A) (cands s)) -> crashed (qpq_step A cfg s) = false ->
  map (@cid A) (cands (qpq_step A cfg s)) = map (@cid A) (cands s) /\
  (((hopn (qpq_step A cfg s) < hopn s)%nat /\ actn (qpq_step A cfg s) = actn s /\ lv_flag (qpq_step A cfg s) = lv_flag s) \/
   ((actn (qpq_step A cfg s) < actn s)%nat /\ lv_flag (qpq_step A cfg s) = true)).
Proof.
  intros Hnd. unfold qpq_step. destruct (max_quo A (hopefuls A s)) as [hq|]; [|rewrite sticky_crash; discriminate].
  destruct (gtv A hq (quota s)).
  - set (highs := filter _ (hopefuls A s)).
    pose proof (break_tie_cands A cfg (qpq_tie "largest quotient") highs s) as Ec. pose proof (break_tie_none A cfg (qpq_tie "largest quotient") highs s) as Hn.
    destruct (break_tie A cfg (qpq_tie "largest quotient") highs s) as [s1 [h|]] eqn:Eb; cbn [fst snd] in *; [|intros Hc; rewrite (Hn eq_refl) in Hc; discriminate].
    destruct (proj1 (break_tie_spec A cfg _ _ _ _ _ Eb)) as (c & Hch & Eh).
    assert (Hc1: exists c', In c' (hopefuls A s1) /\ cid c' = h).
    { exists c. split; [|exact Eh]. unfold hopefuls. rewrite Ec. unfold highs in Hch. apply filter_In in Hch. exact (proj1 Hch). }
    assert (Hnd1: NoDup (map (@cid A) (cands s1))) by (rewrite Ec; exact Hnd).
    destruct (elect_facts h "Elect high quotient" s1 Hnd1 Hc1) as (F1 & F2 & F3 & F4).
    assert (G1: hopn s1 = hopn s /\ actn s1 = actn s) by (unfold hopn, actn; rewrite Ec; split; reflexivity).
    assert (Fl: lv_flag s1 = lv_flag s).
    { destruct (proj2 (break_tie_spec A cfg _ _ _ _ _ Eb)) as [(c1 & _ & ->)|(_ & c1 & _ & _ & ->)]; [reflexivity|apply flag_log]. }
    cbv zeta. set (s2 := elect A cfg h "Elect high quotient" false s1) in *.
    destruct (crashed s2) eqn:C2; [congruence|].
    destruct (divv A (V1 A) _) as [nw|e]; [|rewrite sticky_crash; discriminate]. intros _.
    match goal with |- context[log_action A cfg TTransfer ?m ?t] => set (r := log_action A cfg TTransfer m t) end.
    assert (Er: cands r = cands s2 /\ lv_flag r = lv_flag s2) by (unfold r; rewrite (cands_log A cfg), flag_log; split; reflexivity).
    destruct Er as [Er1 Er2]. destruct G1 as [G1 G2]. unfold hopn, actn in *. rewrite Er1, Er2.
    split; [rewrite F3, Ec; reflexivity|]. left. split; [lia|split; [lia|congruence]].
  - destruct (min_quo A (hopefuls A s)) as [lq|]; [|rewrite sticky_crash; discriminate].
    set (lows := filter _ (hopefuls A s)).
    pose proof (break_tie_cands A cfg (qpq_tie "smallest quotient") lows s) as Ec. pose proof (break_tie_none A cfg (qpq_tie "smallest quotient") lows s) as Hn.
    destruct (break_tie A cfg (qpq_tie "smallest quotient") lows s) as [s1 [l|]] eqn:Eb; cbn [fst snd] in *; [|intros Hc; rewrite (Hn eq_refl) in Hc; discriminate].
    destruct (proj1 (break_tie_spec A cfg _ _ _ _ _ Eb)) as (c & Hcl & El).
    assert (Hc1: exists c', In c' (hopefuls A s1) /\ cid c' = l).
    { exists c. split; [|exact El]. unfold hopefuls. rewrite Ec. unfold lows in Hcl. apply filter_In in Hcl. exact (proj1 Hcl). }
    assert (Hnd1: NoDup (map (@cid A) (cands s1))) by (rewrite Ec; exact Hnd).
    destruct (defeat_facts l "Defeat low quotient" s1 Hnd1 Hc1) as (F1 & F3).
    assert (G2: actn s1 = actn s) by (unfold actn; rewrite Ec; reflexivity).
    cbv zeta. set (s2 := defeat A cfg l "Defeat low quotient" s1) in *.
    destruct (crashed s2) eqn:C2; [congruence|]. intros _.
    match goal with |- context[log_action A cfg TTransfer ?m ?t] => set (r := log_action A cfg TTransfer m t) end.
    assert (Er: cands (set_flag r true) = cands s2) by (unfold r; cbn [cands set_flag]; rewrite (cands_log A cfg); reflexivity).
    unfold actn in *. rewrite Er. split; [rewrite F3, Ec; reflexivity|]. right. split; [lia|reflexivity].
Qed.


(* ---- the round ---- *)
Variable N : nat.
Definition IQ (s : est) : Prop := NoDup (map (@cid A) (cands s)) /\ List.length (cands s) = N.
Definition muq (s : est) : nat := ((N + 1) * actn s + (if lv_flag s then N else hopn s))%nat.
Notation T3 := (triple est (@crashed A)).

Lemma iq_ids (s s' : est) : map (@cid A) (cands s') = map (@cid A) (cands s) -> IQ s -> IQ s'.
Proof. intros E [H1 H2]. split; [rewrite E; exact H1|rewrite (len_ids _ _ E); exact H2]. Qed.

Definition qpq_round : cmd est :=
  Do (new_round A cfg) ;;
  Ite (fun s => lv_flag s) (Do (fun s => qpq_restart A (set_flag s false))) Skip ;;
  Do (qpq_tally A cfg) ;;
  Do (qpq_step A cfg).

Definition M2 (n : nat) (s : est) : Prop := IQ s /\ lv_flag s = false /\ ((N + 1) * actn s + hopn s <= n)%nat.

Lemma qpq_round_decreases n :
  T3 (fun s => IQ s /\ negb (count_complete_q A cfg s) = true /\ muq s = n) qpq_round
     (fun s' => IQ s' /\ (muq s' < n)%nat) (fun _ => True) (fun s' => IQ s' /\ (muq s' < n)%nat).
Proof.
  unfold qpq_round.
  eapply t_seq with (M := fun s => IQ s /\ muq s = n).
  { apply t_do. intros s (Hi & _ & Hm). unfold new_round.
    destruct (counts_sl _ _ (sl_log TRound "New Round" (set_round s (round s + 1)))) as (E1 & E2 & E3).
    split; [apply (iq_ids s); [exact E3|exact Hi]|]. unfold muq. rewrite E1, E2, flag_log. exact Hm. }
  eapply t_seq with (M := M2 n).
  { apply t_ite.
    - apply t_do. intros s [[Hi Hm] Hf]. destruct (restart_facts (set_flag s false) (proj1 Hi)) as (F1 & F2 & F3).
      split; [apply (iq_ids s); [exact F2|exact Hi]|split; [rewrite F3; reflexivity|]].
      rewrite F1. change (actn (set_flag s false)) with (actn s). unfold muq in Hm. rewrite Hf in Hm.
      pose proof (hopn_le (qpq_restart A (set_flag s false))) as Hle. rewrite (len_ids _ _ F2) in Hle. cbn [cands set_flag] in Hle. rewrite (proj2 Hi) in Hle. lia.
    - apply t_skip'. intros s [[Hi Hm] Hf]. split; [exact Hi|split; [exact Hf|]]. unfold muq in Hm. rewrite Hf in Hm. lia. }
  eapply t_seq with (M := M2 n).
  { apply t_do. intros s (Hi & Hf & Hm). destruct (tally_sl s) as [E Ef]. destruct (counts_sl _ _ E) as (E1 & E2 & E3).
    split; [apply (iq_ids s); assumption|split; [rewrite Ef; exact Hf|rewrite E1, E2; exact Hm]]. }
  apply t_do_nc. intros s (Hi & Hf & Hm) Hc. destruct (step_facts s (proj1 Hi) Hc) as [Eids [(H1 & H2 & H3)|(H1 & H3)]].
  - split; [apply (iq_ids s); assumption|]. unfold muq. rewrite H3, Hf, H2. lia.
  - split; [apply (iq_ids s); assumption|]. unfold muq. rewrite H3. nia.
Qed.

Theorem qpq_total fuel (s : est) : IQ s -> ((N + 1) * (N + 1) < Pos.to_nat fuel)%nat ->
  exists r, exec (@crashed A) fuel (qpq A cfg) s = Some r.
Proof.
  intros Hi Hf. revert s Hi. change (total est (@crashed A) fuel IQ (qpq A cfg)). unfold qpq.
  eapply total_seq with (M := fun s => IQ s /\ (muq s < Pos.to_nat fuel)%nat) (Qb := fun _ => True) (Qc := fun _ => True).
  - apply total_loopfree. exact I.
  - apply t_do. intros s Hi.
    match goal with |- IQ ?b /\ _ => set (s1 := b) end.
    assert (E1: map (@cid A) (cands s1) = map (@cid A) (cands s)).
    { unfold s1. cbv zeta. match goal with |- context[if crashed ?x then _ else _] => destruct (crashed x) end.
      - unfold set_quota_r. destruct (qpq_quota A cfg _); cbn [cands set_quota set_crash set_txva set_cands]; rewrite map_map; apply map_ext; intros c; destruct (in_state A Hopeful c); reflexivity.
      - rewrite (cands_log A cfg). cbn [cands set_flag set_ballots]. unfold set_quota_r. destruct (qpq_quota A cfg _); cbn [cands set_quota set_crash set_txva set_cands]; rewrite map_map; apply map_ext; intros c; destruct (in_state A Hopeful c); reflexivity. }
    split; [apply (iq_ids s); assumption|].
    unfold muq. pose proof (actn_le s1) as Ha. pose proof (hopn_le s1) as Hh. rewrite (len_ids _ _ E1), (proj2 Hi) in Ha, Hh.
    destruct (lv_flag s1); nia.
  - eapply total_seq with (M := fun _ => True) (Qb := fun _ => True) (Qc := fun _ => True); [|apply t_any|apply total_loopfree; cbn [loopfree]; tauto].
    apply (while_total' est (@crashed A) IQ muq (fun s => negb (count_complete_q A cfg s)) qpq_round fuel).
    + apply total_loopfree. unfold qpq_round. cbn [loopfree]. tauto.
    + intros n. apply qpq_round_decreases.
Qed.

End TQ.

Section TQCount.
Variable A : arith.
Variable cfg : config.

(* QPQ under every arithmetic: the count ends once the fuel exceeds (candidates + 1)^2 *)
Theorem qpq_count_terminates (pr : profile) fuel : NoDup (map pc_cid (pr_cands pr)) ->
  ((List.length (pr_cands pr) + 1) * (List.length (pr_cands pr) + 1) < Pos.to_nat fuel)%nat ->
  exists s k, exec (@crashed A) fuel (count_cmd A cfg RQpq) (init_state A cfg pr) = Some (s, k).
Proof.
  intros Hnd Hf. unfold count_cmd. cbn [exec rule_cmd].
  set (s0 := set_cands (init_state A cfg pr) _).
  destruct (crashed s0); [eexists; eexists; reflexivity|].
  destruct (qpq_total A cfg (List.length (pr_cands pr)) fuel s0) as [[s1 k1] E1].
  - split; unfold s0; cbn [cands set_cands]; [rewrite map_map; cbn [cid with_vote]; rewrite cids_init; exact Hnd|rewrite map_length; apply cands_init_len].
  - exact Hf.
  - rewrite E1. destruct k1; eexists; eexists; reflexivity.
Qed.
End TQCount.
