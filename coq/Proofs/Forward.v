(* Status only moves forward (C09), as a preorder on states that also records the chain of snapshots
   logged in between (so that consecutive recorded snapshots are forward-related). *)
From Coq Require Import ZArith List Bool String Lia Permutation.
From Droop Require Import Model.KernelBase Model.Str Model.Arith Model.Prelude Model.State Model.Prims
  Proofs.SortLemmas.
Import ListNotations.
Open Scope Z_scope.

Definition sp : Type := (cstate * option bool)%type.
Definition pend_true (p : option bool) : bool := match p with Some true => true | _ => false end.

(* hopeful -> elected (possibly transfer-pending) -> elected, hopeful -> defeated; nothing else;
   a transfer-pending flag, once dropped, does not come back *)
Definition fwd (a b : sp) : Prop :=
  match fst a, fst b with
  | Hopeful, Hopeful | Hopeful, Elected | Hopeful, Defeated => True
  | Elected, Elected => pend_true (snd b) = true -> pend_true (snd a) = true
  | Defeated, Defeated | Withdrawn, Withdrawn => True
  | _, _ => False
  end.

Lemma fwd_refl a : fwd a a.
Proof. destruct a as [[] p]; cbn; auto. Qed.
Lemma fwd_trans a b c : fwd a b -> fwd b c -> fwd a c.
Proof. destruct a as [[] pa], b as [[] pb], c as [[] pc]; cbn; auto; try tauto. Qed.

Definition sts : Type := list (Z * sp).
Definition FwdL (x y : sts) : Prop := Forall2 (fun a b => fst a = fst b /\ fwd (snd a) (snd b)) x y.
Lemma FwdL_refl x : FwdL x x.
Proof. induction x; constructor; auto using fwd_refl. Qed.
Lemma FwdL_trans x y z : FwdL x y -> FwdL y z -> FwdL x z.
Proof.
  intros H. revert z. induction H as [|a b x y [E F] H IH]; intros z Hz; inversion Hz as [|b' c y' z' [E' F'] Hz']; subst; constructor.
  - split; [congruence|eapply fwd_trans; eauto].
  - apply IH; assumption.
Qed.
Lemma FwdL_cids x y : FwdL x y -> map fst x = map fst y.
Proof. induction 1 as [|a b x y [E _] _ IH]; cbn; [reflexivity|]. rewrite E, IH. reflexivity. Qed.

Section Fwd.
Variable A : arith.
Variable cfg : config.
Notation est := (est A).

Definition stl (l : list (cand A)) : sts := map (fun c => (cid c, (cst c, cpend c))) l.
Definition ssn (sn : asnap A) : sts := map (fun c => (sn_cid c, (sn_st c, sn_pend c))) (as_c sn).

(* newest action first: every snapshot is forward of the one before it, the oldest is forward of [lo],
   and [hi] is forward of the newest *)
Fixpoint chain (lo : sts) (l : list (action A)) (hi : sts) : Prop :=
  match l with
  | [] => FwdL lo hi
  | a :: t => match a_snap a with
              | None => chain lo t hi
              | Some sn => FwdL (ssn sn) hi /\ chain lo t (ssn sn)
              end
  end.

Lemma chain_fwd lo l hi : chain lo l hi -> FwdL lo hi.
Proof.
  revert hi. induction l as [|a t IH]; intros hi H; cbn in H; [exact H|].
  destruct (a_snap a); [destruct H as [H1 H2]; eapply FwdL_trans; [apply IH; exact H2|exact H1]|apply IH; exact H].
Qed.
Lemma chain_hi lo l : forall hi hi', chain lo l hi -> FwdL hi hi' -> chain lo l hi'.
Proof.
  induction l as [|a t IH]; intros hi hi' H F; cbn in *; [eapply FwdL_trans; eauto|].
  destruct (a_snap a); [destruct H as [H1 H2]; split; [eapply FwdL_trans; eauto|exact H2]|eapply IH; eauto].
Qed.
Lemma chain_app lo l1 mid l2 hi : chain lo l1 mid -> chain mid l2 hi -> chain lo (l2 ++ l1) hi.
Proof.
  revert hi. induction l2 as [|a t IH]; intros hi H1 H2; cbn in *.
  - eapply chain_hi; eauto.
  - destruct (a_snap a); [destruct H2 as [H2 H3]; split; [exact H2|apply IH; assumption]|apply IH; assumption].
Qed.

Definition R (s s' : est) : Prop :=
  exists l, actions s' = (l ++ actions s)%list /\ chain (stl (cands s)) l (stl (cands s')).

Lemma R_refl s : R s s.
Proof. exists []. split; [reflexivity|apply FwdL_refl]. Qed.
Lemma R_trans a b c : R a b -> R b c -> R a c.
Proof.
  intros (l1 & E1 & C1) (l2 & E2 & C2). exists (l2 ++ l1)%list. split; [rewrite E2, E1, app_assoc; reflexivity|].
  eapply chain_app; eauto.
Qed.
Lemma R_fwd s s' : R s s' -> FwdL (stl (cands s)) (stl (cands s')).
Proof. intros (l & _ & C). eapply chain_fwd; eauto. Qed.
Lemma R_cids s s' : R s s' -> map (@cid A) (cands s) = map (@cid A) (cands s').
Proof.
  intros H. pose proof (FwdL_cids _ _ (R_fwd _ _ H)) as E. unfold stl in E. rewrite !map_map in E. exact E.
Qed.

(* ---- cumulative lemmas ---- *)
Lemma r_same x s s' : R x s -> cands s' = cands s -> actions s' = actions s -> R x s'.
Proof. intros (l & E & C) Ec Ea. exists l. rewrite Ea, Ec. split; assumption. Qed.

Lemma r_cands x s l' : R x s -> FwdL (stl (cands s)) (stl l') -> R x (set_cands s l').
Proof. intros (l & E & C) F. exists l. split; [exact E|]. cbn [cands set_cands]. eapply chain_hi; eauto. Qed.

Lemma ssn_snap (s : est) : ssn (snap_of A cfg s) = stl (cands s).
Proof. unfold ssn, snap_of, stl. cbn [as_c]. rewrite map_map. reflexivity. Qed.

Lemma r_log x t m s : R x s -> R x (log_action A cfg t m s).
Proof.
  intros (l & E & C). unfold log_action. destruct (is_log t).
  - eexists (_ :: l). cbn [actions set_actions cands]. split; [rewrite E; reflexivity|]. cbn [chain a_snap]. exact C.
  - destruct (is_round t).
    + eexists (_ :: l). cbn [actions set_actions set_rounds cands]. split; [rewrite E; reflexivity|].
      cbn [chain a_snap]. change (snap_of A cfg (set_rounds s _)) with (snap_of A cfg (set_rounds s (rounds s ++ [cands s])%list)).
      rewrite ssn_snap. cbn [cands set_rounds]. split; [apply FwdL_refl|exact C].
    + eexists (_ :: l). cbn [actions set_actions cands]. split; [rewrite E; reflexivity|].
      cbn [chain a_snap]. rewrite ssn_snap. split; [apply FwdL_refl|exact C].
Qed.

(* updates that keep (cid, status, pending) *)
Lemma stl_upd_same i f (l : list (cand A)) :
  (forall c, cid (f c) = cid c /\ cst (f c) = cst c /\ cpend (f c) = cpend c) -> stl (upd_cand A i f l) = stl l.
Proof.
  intros Hf. unfold stl, upd_cand. rewrite map_map. apply map_ext. intros c.
  destruct (cid c =? i); [destruct (Hf c) as (-> & -> & ->)|]; reflexivity.
Qed.
Lemma r_upd_same x s i f : R x s ->
  (forall c, cid (f c) = cid c /\ cst (f c) = cst c /\ cpend (f c) = cpend c) -> R x (upd A s i f).
Proof. intros H Hf. unfold upd. apply r_cands; [exact H|]. rewrite stl_upd_same by exact Hf. apply FwdL_refl. Qed.
Lemma stl_map_same f (l : list (cand A)) :
  (forall c, cid (f c) = cid c /\ cst (f c) = cst c /\ cpend (f c) = cpend c) -> stl (map f l) = stl l.
Proof. intros Hf. unfold stl. rewrite map_map. apply map_ext. intros c. destruct (Hf c) as (-> & -> & ->). reflexivity. Qed.

(* status changes at one cid *)
Definition Sat (s : est) (i : Z) (P : sp -> Prop) : Prop :=
  forall c, In c (cands s) -> cid c = i -> P (cst c, cpend c).

Lemma stl_upd_st i st p (l : list (cand A)) :
  (forall c, In c l -> cid c = i -> fwd (cst c, cpend c) (st, p c)) ->
  FwdL (stl l) (stl (upd_cand A i (fun c => with_st c st (p c)) l)).
Proof.
  intros H. unfold stl, upd_cand. induction l as [|c l IH]; cbn [map]; [constructor|].
  constructor.
  - destruct (cid c =? i) eqn:E; cbn; [split; [reflexivity|apply H; [left; reflexivity|lia]]|split; [reflexivity|apply fwd_refl]].
  - apply IH. intros c' Hc'. apply H. right; exact Hc'.
Qed.

Lemma r_upd_st x s i st p : R x s -> Sat s i (fun a => forall c, fwd a (st, p c)) ->
  R x (upd A s i (fun c => with_st c st (p c))).
Proof.
  intros H HS. unfold upd. apply r_cands; [exact H|]. apply stl_upd_st. intros c Hc Hi. exact (HS c Hc Hi c).
Qed.

Lemma r_elect x i m p s : R x s -> Sat s i (fun a => fwd a (Elected, Some p)) -> R x (elect A cfg i m p s).
Proof.
  intros H HS. unfold elect. destruct (find_cand A (cands s) i); [|apply (r_same x s); auto].
  apply r_log. apply (r_upd_st x s i Elected (fun _ => Some p)); [exact H|]. intros c0 Hc Hi _. exact (HS c0 Hc Hi).
Qed.
Lemma r_defeat x i m s : R x s -> Sat s i (fun a => fst a = Hopeful \/ fst a = Defeated) -> R x (defeat A cfg i m s).
Proof.
  intros H HS. unfold defeat. destruct (find_cand A (cands s) i); [|apply (r_same x s); auto].
  apply r_log. apply (r_upd_st x s i Defeated (fun c => cpend c)); [exact H|].
  intros c0 Hc Hi c'. specialize (HS c0 Hc Hi). cbn in HS. unfold fwd. cbn [fst snd]. destruct HS as [-> | ->]; exact I.
Qed.

(* ---- Sat bookkeeping ---- *)
Lemma sat_other_upd (s : est) i j f P : j <> i -> Sat s j P -> Sat (upd A s i f) j P ->  Sat (upd A s i f) j P.
Proof. auto. Qed.

Lemma in_upd_cand i f (l : list (cand A)) c' : In c' (upd_cand A i f l) ->
  exists c, In c l /\ c' = (if cid c =? i then f c else c).
Proof. unfold upd_cand. intros H. apply in_map_iff in H. destruct H as (c & E & Hc). exists c. auto. Qed.

Lemma sat_upd_other (s : est) i j f P : (forall c, cid (f c) = cid c) -> j <> i -> Sat s j P -> Sat (upd A s i f) j P.
Proof.
  intros Hf Hne HS c' Hc' Hj. unfold upd in Hc'. cbn [cands set_cands] in Hc'.
  destruct (in_upd_cand _ _ _ _ Hc') as (c & Hc & ->). destruct (cid c =? i) eqn:E.
  - rewrite Hf in Hj. lia.
  - exact (HS c Hc Hj).
Qed.
Lemma sat_log (s : est) t m j P : Sat s j P -> Sat (log_action A cfg t m s) j P.
Proof. unfold Sat. unfold log_action. destruct (is_log t); [auto|]. destruct (is_round t); auto. Qed.
Lemma sat_same (s s' : est) j P : cands s' = cands s -> Sat s j P -> Sat s' j P.
Proof. unfold Sat. intros ->. auto. Qed.

Lemma sat_elect_other i j m p (s : est) P : j <> i -> Sat s j P -> Sat (elect A cfg i m p s) j P.
Proof.
  intros Hne HS. unfold elect. destruct (find_cand A (cands s) i); [|apply (sat_same s); auto].
  apply sat_log. apply sat_upd_other; auto.
Qed.
Lemma sat_defeat_other i j m (s : est) P : j <> i -> Sat s j P -> Sat (defeat A cfg i m s) j P.
Proof.
  intros Hne HS. unfold defeat. destruct (find_cand A (cands s) i); [|apply (sat_same s); auto].
  apply sat_log. apply sat_upd_other; auto.
Qed.

(* "for c in L: op(c)" where op settles cid c and leaves the others alone *)
Lemma r_fold (op : est -> Z -> est) (pre : sp -> Prop) (l : list (cand A)) :
  (forall x s i, R x s -> Sat s i pre -> R x (op s i)) ->
  (forall s i j, j <> i -> Sat s j pre -> Sat (op s i) j pre) ->
  forall x s, R x s -> NoDup (map (@cid A) l) -> (forall c, In c l -> Sat s (cid c) pre) ->
  R x (fold_left (fun s c => op s (cid c)) l s).
Proof.
  intros Hop Hoth. induction l as [|c0 l IH]; intros x s HR Hnd Hpre; cbn [fold_left]; [exact HR|].
  inversion Hnd as [|? ? Hnotin Hnd']; subst. apply IH; [|exact Hnd'|].
  - apply Hop; [exact HR|apply Hpre; left; reflexivity].
  - intros c Hc. apply Hoth; [|apply Hpre; right; exact Hc].
    intros E. apply Hnotin. rewrite <- E. apply in_map. exact Hc.
Qed.

(* candidates drawn from the current state *)
Lemma hopeful_sat (s : est) c : NoDup (map (@cid A) (cands s)) -> In c (hopefuls A s) -> Sat s (cid c) (fun a => fst a = Hopeful).
Proof.
  intros Hnd Hc c' Hc' E. unfold hopefuls in Hc. apply filter_In in Hc. destruct Hc as [Hin Hst].
  assert (c' = c).
  { clear Hst. induction (cands s) as [|x l IH]; [contradiction|]. cbn in Hnd. inversion Hnd as [|? ? Hn Hnd']; subst.
    destruct Hin as [->|Hin], Hc' as [->|Hc']; auto.
    - exfalso. apply Hn. rewrite <- E. apply in_map. exact Hc'.
    - exfalso. apply Hn. rewrite E. apply in_map. exact Hin. }
  subst c'. cbn. unfold in_state in Hst. destruct (cst c); cbn in Hst; try discriminate; reflexivity.
Qed.

Lemma nodup_map_filter {X Y} (f : X -> Y) (p : X -> bool) (l : list X) : NoDup (map f l) -> NoDup (map f (filter p l)).
Proof.
  induction l as [|x l IH]; cbn; intros H; [constructor|]. inversion H as [|? ? Hn Hnd]; subst.
  destruct (p x); cbn; [constructor; [|apply IH; exact Hnd]|apply IH; exact Hnd].
  intros Hin. apply Hn. apply in_map_iff in Hin. destruct Hin as (y & E & Hy). apply filter_In in Hy. rewrite <- E. apply in_map. exact (proj1 Hy).
Qed.
End Fwd.
