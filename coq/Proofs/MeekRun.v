(* Meek / Warren, whole runs (C08): every 'iterate' action of the record shows tallies + residual = the ballots cast.
   Part 1: one distribution (strict and equal-ranking ballots) conserves votes and touches only candidates with a
   non-zero keep factor. *)
From Coq Require Import ZArith List Bool String Lia ZifyBool.
From Droop Require Import Model.KernelBase Model.Str Model.Arith Model.Prelude Model.State Model.Prims Model.RulesMeek
  Proofs.CmdMeta Proofs.Zlike Proofs.Gregory Proofs.MeekDist Proofs.Status Proofs.ForwardOps Proofs.Decided.
Import ListNotations.
Open Scope Z_scope.

Section MeekRun.
Variable A : arith.
Variable S : Z.
Variable ZL : zlike A S.
Variable cfg : config.
Notation est := (est A).
Notation cand := (cand A).
Notation R := (@raw A S ZL).
Notation tot := (tot A S ZL).

Lemma find_cand_In' (l : list cand) i c : find_cand A l i = Some c -> In c l /\ cid c = i.
Proof. unfold find_cand. intros H. apply find_some in H. destruct H as [H1 H2]. split; [exact H1|lia]. Qed.

(* only the vote may differ, and not for candidates satisfying P (P does not look at the vote) *)
Section RK.
Variable P : cand -> bool.
Hypothesis HP : forall c v, P (with_vote c v) = P c.
Definition rk (c c' : cand) : Prop := c' = with_vote c (cvote c') /\ (P c = true -> cvote c' = cvote c).
Definition relk (l l' : list cand) : Prop := Forall2 rk l l'.
Lemma with_vote_same (c : cand) : with_vote c (cvote c) = c. Proof. destruct c; reflexivity. Qed.
Lemma rk_refl c : rk c c. Proof. split; [symmetry; apply with_vote_same|auto]. Qed.
Lemma relk_refl l : relk l l. Proof. induction l; constructor; auto using rk_refl. Qed.
Lemma rk_trans a b c : rk a b -> rk b c -> rk a c.
Proof.
  intros [A1 A2] [B1 B2]. split.
  - rewrite B1 at 1. rewrite A1. reflexivity.
  - intros Hk. rewrite B2; [apply A2; exact Hk|]. rewrite A1, HP. exact Hk.
Qed.
Lemma relk_trans l1 l2 l3 : relk l1 l2 -> relk l2 l3 -> relk l1 l3.
Proof.
  intros H. revert l3. induction H as [|a b l1 l2 Hab _ IH]; intros l3 H3; inversion H3 as [|? c ? l3' Hbc H3']; subst; constructor;
    [eapply rk_trans; eauto|apply IH; exact H3'].
Qed.
Lemma rk_id c c' : rk c c' -> cid c' = cid c /\ cst c' = cst c /\ cpend c' = cpend c /\ ckf c' = ckf c.
Proof. intros [E _]. rewrite E. repeat split. Qed.
Lemma relk_ids l l' : relk l l' -> map (@cid A) l' = map (@cid A) l.
Proof. induction 1 as [|a b l l' Hab _ IH]; cbn [map]; [reflexivity|]. rewrite (proj1 (rk_id _ _ Hab)), IH. reflexivity. Qed.
Lemma relk_map (g : cand -> cand) (l : list cand) : (forall x, In x l -> rk x (g x)) -> relk l (map g l).
Proof. induction l as [|y l IH]; intros H; cbn [map]; constructor; [apply H; left; reflexivity|apply IH; intros x Hx; apply H; right; exact Hx]. Qed.
Lemma relk_in l l' c' : relk l l' -> In c' l' -> exists c, In c l /\ rk c c'.
Proof.
  induction 1 as [|a b l l' Hab _ IH]; intros Hin; [contradiction|]. destruct Hin as [<-|Hin]; [exists a; split; [left; reflexivity|exact Hab]|].
  destruct (IH Hin) as (c & Hc & Hr). exists c. split; [right; exact Hc|exact Hr].
Qed.
(* tallies of the candidates satisfying P are unchanged, so is the sum over them *)
Lemma relk_upd (l : list cand) i c kv : NoDup (map (@cid A) l) -> find_cand A l i = Some c -> P c = false ->
  relk l (upd_cand A i (fun c0 => with_vote c0 (add A (cvote c0) kv)) l).
Proof.
  intros Hnd Ef Hk. unfold upd_cand. apply relk_map. intros x Hx. destruct (cid x =? i) eqn:E; [|apply rk_refl].
  assert (x = c).
  { unfold find_cand in Ef. apply find_some in Ef. destruct Ef as [Hc Hci]. apply (nodup_cid_inj A l c x Hnd Hc Hx). lia. }
  subst x. split; [reflexivity|]. intros Hf. congruence.
Qed.
End RK.

Definition Pk (c : cand) : bool := negb (kf_truthy A c).
Lemma Pk_vote c v : Pk (with_vote c v) = Pk c. Proof. reflexivity. Qed.

Lemma dist_ballot_frame r : forall cs mult w br, NoDup (map (@cid A) cs) ->
  relk Pk cs (fst (fst (dist_ballot A cfg cs mult r w br))).
Proof.
  induction r as [|i r IH]; intros cs mult w br Hnd; cbn [dist_ballot]; [apply relk_refl|].
  destruct (find_cand A cs i) as [c|] eqn:Ef; [|apply IH; exact Hnd].
  destruct (kf_truthy A c) eqn:Hk; [|apply IH; exact Hnd].
  destruct (kt A cfg (kf_of A c) w) as [keep w']. cbv zeta. set (kv := mulv A keep mult).
  assert (H1: relk Pk cs (upd_cand A i (fun c0 => with_vote c0 (add A (cvote c0) kv)) cs)) by (apply (relk_upd Pk cs i c kv Hnd Ef); unfold Pk; rewrite Hk; reflexivity).
  destruct (lev A w' (V0 A)); cbn [fst snd]; [exact H1|].
  eapply (relk_trans Pk Pk_vote); [exact H1|]. apply IH. rewrite (relk_ids Pk _ _ H1). exact Hnd.
Qed.

Lemma strict_fold_frame (bs : list (ballot A)) : forall cs res acc, NoDup (map (@cid A) cs) ->
  relk Pk cs (fst (fst (fold_left (fun '(cs, res_, acc) b =>
      let '(cs', w', br') := dist_ballot A cfg cs (bmult b) (brank b) (V1 A) (bmult b) in
      (cs', add A res_ br', with_bres (with_bweight b w') br' :: acc)) bs (cs, res, acc)))).
Proof.
  induction bs as [|b bs IH]; intros cs res acc Hnd; cbn [fold_left]; [apply relk_refl|].
  pose proof (dist_ballot_frame (brank b) cs (bmult b) (V1 A) (bmult b) Hnd) as H1.
  destruct (dist_ballot A cfg cs (bmult b) (brank b) (V1 A) (bmult b)) as [[cs1 w1] br1]. cbn [fst snd] in H1.
  eapply (relk_trans Pk Pk_vote); [exact H1|]. apply IH. rewrite (relk_ids Pk _ _ H1). exact Hnd.
Qed.

(* ---- ballots with equal rankings ---- *)
Definition Pc (cset : list Z) (c : cand) : bool := negb (existsb (Z.eqb (cid c)) cset).
Lemma Pc_vote cset c v : Pc cset (with_vote c v) = Pc cset c. Proof. reflexivity. Qed.

Lemma dist_eq_spec cset mult ranks : forall w cs bres cs' bres',
  NoDup (map (@cid A) cs) ->
  dist_eq A cfg cset mult ranks w (Ok (cs, bres)) = Ok (cs', bres') ->
  tot cs' + R bres' = tot cs + R bres /\ relk (Pc cset) cs cs'.
Proof.
  induction ranks as [|rank deeper IH]; intros w cs bres cs' bres' Hnd He; cbn [dist_eq] in He.
  - assert (E: Ok (cs, bres) = Ok (cs', bres')) by (destruct (negb (truth A w)); exact He). inversion E; subst. split; [reflexivity|apply relk_refl].
  - destruct (negb (truth A w)); [inversion He; subst; split; [reflexivity|apply relk_refl]|].
    set (cids := filter (fun i => existsb (Z.eqb i) cset) rank) in *.
    destruct cids as [|i0 cids0] eqn:Ec; [inversion He; subst; split; [reflexivity|apply relk_refl]|]. rewrite <- Ec in He.
    destruct (divv A w (of_int A (nlen cids))) as [cw|e]; [|discriminate].
    assert (Hsub: forall i, In i cids -> existsb (Z.eqb i) cset = true) by (intros i Hi; unfold cids in Hi; apply filter_In in Hi; exact (proj2 Hi)).
    clear Ec. revert cs bres Hnd He Hsub. generalize cids as l. clear cids.
    induction l as [|i l IHl]; intros cs bres Hnd He Hsub; cbn [fold_left] in He.
    + inversion He; subst. split; [reflexivity|apply relk_refl].
    + destruct (find_cand A cs i) as [c|] eqn:Ef.
      2:{ exfalso. clear -He. induction l as [|j l IHl']; cbn [fold_left] in He; [discriminate|apply IHl'; exact He]. }
      destruct (kt A cfg (kf_of A c) cw) as [keep w'] eqn:Ek. set (kv := mulv A keep mult) in *.
      set (cs1 := upd_cand A i (fun c0 => with_vote c0 (add A (cvote c0) kv)) cs) in *.
      assert (Hnd1: NoDup (map (@cid A) cs1)) by (unfold cs1; rewrite cids_upd_vote; exact Hnd).
      assert (E1: tot cs1 = tot cs + R kv) by (unfold cs1, MeekDist.tot; apply (tot_add_vote A S ZL cs i kv Hnd); apply (find_in A _ _ _ Ef)).
      assert (H1: relk (Pc cset) cs cs1).
      { apply (relk_upd (Pc cset) cs i c kv Hnd Ef). unfold Pc. destruct (find_cand_In' _ _ _ Ef) as [_ Hid]. rewrite Hid, (Hsub i (or_introl eq_refl)). reflexivity. }
      destruct (dist_eq A cfg cset mult deeper w' (Ok (cs1, sub A bres kv))) as [[cs2 br2]|e] eqn:Ed.
      2:{ exfalso. clear -He. induction l as [|j l IHl']; cbn [fold_left] in He; [discriminate|apply IHl'; exact He]. }
      destruct (IH w' cs1 (sub A bres kv) cs2 br2 Hnd1 Ed) as [T2 K2].
      assert (Hnd2: NoDup (map (@cid A) cs2)) by (rewrite (relk_ids _ _ _ K2); exact Hnd1).
      destruct (IHl cs2 br2 Hnd2 He (fun j Hj => Hsub j (or_intror Hj))) as [T3 K3].
      split; [rewrite T3, T2, E1, (r_sub A S ZL); lia|].
      eapply (relk_trans _ (Pc_vote cset)); [exact H1|]. eapply (relk_trans _ (Pc_vote cset)); [exact K2|exact K3].
Qed.


(* ---- a whole distribution ---- *)
Lemma relk_weaken (P P' : cand -> bool) l l' : (forall c, In c l -> P' c = true -> P c = true) -> relk P l l' -> relk P' l l'.
Proof.
  intros H Hr. induction Hr as [|a b l l' [E1 E2] _ IH]; constructor.
  - split; [exact E1|]. intros Hp. apply E2. apply H; [left; reflexivity|exact Hp].
  - apply IH. intros c Hc. apply H. right; exact Hc.
Qed.

Definition is_he (c : cand) : bool := in_state A Hopeful c || in_state A Elected c.
Definition Pnh (c : cand) : bool := negb (is_he c) && negb (kf_truthy A c).
Lemma Pnh_vote c v : Pnh (with_vote c v) = Pnh c. Proof. reflexivity. Qed.

Definition nonhe_tot (l : list cand) : Z := fold_right (fun c acc => (if is_he c then 0 else R (cvote c)) + acc) 0 l.
Definition sum_emult (l : list (eballot A)) : Z := fold_right (fun b acc => R (emult b) + acc) 0 l.

Lemma he_ids_in (l : list cand) c : In c l -> is_he c = true ->
  existsb (Z.eqb (cid c)) (map (@cid A) (filter (in_state A Hopeful) l ++ filter (in_state A Elected) l)) = true.
Proof.
  intros Hc Hh. apply existsb_exists. exists (cid c). split; [|lia]. apply in_map. apply in_or_app. unfold is_he in Hh.
  apply orb_prop in Hh. destruct Hh as [Hh|Hh]; [left|right]; apply filter_In; split; assumption.
Qed.
Lemma he_ids_only (l : list cand) c : NoDup (map (@cid A) l) -> In c l ->
  existsb (Z.eqb (cid c)) (map (@cid A) (filter (in_state A Hopeful) l ++ filter (in_state A Elected) l)) = true -> is_he c = true.
Proof.
  intros Hnd Hc He. apply existsb_exists in He. destruct He as (i & Hi & E). assert (i = cid c) by lia. subst i.
  apply in_map_iff in Hi. destruct Hi as (c0 & E0 & Hc0). apply in_app_or in Hc0.
  assert (Hc0in: In c0 l) by (destruct Hc0 as [H|H]; apply filter_In in H; exact (proj1 H)).
  assert (c0 = c) by (apply (nodup_cid_inj A l c c0 Hnd Hc Hc0in); exact E0). subst c0.
  unfold is_he. destruct Hc0 as [H|H]; apply filter_In in H; rewrite (proj2 H); [reflexivity|apply orb_true_r].
Qed.

Lemma tot_zero_he (l : list cand) : tot (map (fun c => if in_state A Hopeful c || in_state A Elected c then with_vote c (V0 A) else c) l) = nonhe_tot l.
Proof.
  unfold MeekDist.tot, nonhe_tot, is_he. induction l as [|c l IH]; [reflexivity|]. cbn [map fold_right]. rewrite IH.
  destruct (in_state A Hopeful c || in_state A Elected c); [cbn [cvote with_vote]; unfold V0; rewrite (r_of_int A S ZL); lia|reflexivity].
Qed.

Record dv_spec (s s' : est) : Prop := {
  dv_tot : tot (cands s') + R (residual s') = nonhe_tot (cands s) + sum_mult A S ZL (ballots s) + sum_emult (eballots s);
  dv_rel : relk Pnh (cands s) (cands s');
  dv_mult : sum_mult A S ZL (ballots s') = sum_mult A S ZL (ballots s);
  dv_eb : eballots s' = eballots s;
  dv_quota : quota s' = quota s;
  dv_actions : actions s' = actions s
}.


Lemma strict_fold_mults (bs : list (ballot A)) : forall cs res acc,
  sum_mult A S ZL (snd (fold_left (fun '(cs, res_, acc) b =>
      let '(cs', w', br') := dist_ballot A cfg cs (bmult b) (brank b) (V1 A) (bmult b) in
      (cs', add A res_ br', with_bres (with_bweight b w') br' :: acc)) bs (cs, res, acc))) = sum_mult A S ZL acc + sum_mult A S ZL bs.
Proof.
  induction bs as [|b bs IH]; intros cs res acc; cbn [fold_left]; [unfold sum_mult; cbn; lia|].
  destruct (dist_ballot A cfg cs (bmult b) (brank b) (V1 A) (bmult b)) as [[cs1 w1] br1]. rewrite IH. unfold sum_mult. cbn [fold_right bmult with_bres with_bweight]. lia.
Qed.
Lemma sum_mult_rev (l : list (ballot A)) : sum_mult A S ZL (rev l) = sum_mult A S ZL l.
Proof.
  unfold sum_mult. induction l as [|b l IH]; [reflexivity|]. cbn [rev fold_right]. rewrite <- IH. clear IH.
  induction (rev l) as [|x t IHt]; cbn [app fold_right]; [lia|]. rewrite IHt. lia.
Qed.

Definition eq_step (s : est) (eb : eballot A) : est :=
  if crashed s then s else
  let cset := map (@cid A) (he_cands A s) in
  match dist_eq A cfg cset (emult eb) (erank eb) (V1 A) (Ok (cands s, emult eb)) with
  | Raise e => set_crash s e
  | Ok (cs, br) => set_residual (set_cands s cs) (add A (residual s) br)
  end.

Lemma eq_step_crashed (l : list (eballot A)) : forall s : est, crashed s = true -> fold_left eq_step l s = s.
Proof. induction l as [|e l IH]; intros s H; cbn [fold_left]; [reflexivity|]. unfold eq_step at 2. rewrite H. apply IH. exact H. Qed.

Lemma sticky_set_crash' (s : est) e : crashed (set_crash s e) = true.
Proof. unfold crashed, set_crash. cbn [crash]. destruct (crash s); reflexivity. Qed.

Lemma eq_fold_spec (l : list (eballot A)) : forall s, NoDup (map (@cid A) (cands s)) -> crashed (fold_left eq_step l s) = false ->
  let s' := fold_left eq_step l s in
  tot (cands s') + R (residual s') = tot (cands s) + R (residual s) + sum_emult l /\
  relk Pnh (cands s) (cands s') /\ ballots s' = ballots s /\ eballots s' = eballots s /\ quota s' = quota s /\ actions s' = actions s.
Proof.
  induction l as [|eb l IH]; intros s Hnd Hcf; cbn [fold_left] in *.
  - split; [unfold sum_emult; cbn; lia|]. split; [apply relk_refl|]. repeat split.
  - assert (Hc1: crashed (eq_step s eb) = false).
    { destruct (crashed (eq_step s eb)) eqn:C; [|reflexivity]. rewrite (eq_step_crashed l _ C) in Hcf. congruence. }
    assert (Hc: crashed s = false).
    { destruct (crashed s) eqn:C; [|reflexivity]. unfold eq_step in Hc1. rewrite C in Hc1. congruence. }
    set (cset := map (@cid A) (he_cands A s)).
    destruct (dist_eq A cfg cset (emult eb) (erank eb) (V1 A) (Ok (cands s, emult eb))) as [[cs br]|e] eqn:Ed.
    2:{ exfalso. unfold eq_step in Hc1. rewrite Hc in Hc1. cbv zeta in Hc1. fold cset in Hc1. rewrite Ed, sticky_set_crash' in Hc1. discriminate. }
    set (s1 := set_residual (set_cands s cs) (add A (residual s) br)).
    assert (Estep: eq_step s eb = s1) by (unfold eq_step; rewrite Hc; cbv zeta; fold cset; rewrite Ed; reflexivity).
    rewrite Estep in *.
    destruct (dist_eq_spec cset (emult eb) (erank eb) (V1 A) (cands s) (emult eb) cs br Hnd Ed) as [T1 K1].
    assert (Hnd1: NoDup (map (@cid A) (cands s1))) by (cbn [cands s1 set_residual set_cands]; rewrite (relk_ids _ _ _ K1); exact Hnd).
    destruct (IH s1 Hnd1 Hcf) as (T2 & K2 & E1 & E2 & E3 & E4). cbv zeta in *.
    split; [rewrite T2; cbn [cands residual s1 set_residual set_cands]; rewrite (r_add A S ZL); unfold sum_emult; cbn [fold_right]; lia|].
    split; [|split; [exact E1|split; [exact E2|split; [exact E3|exact E4]]]].
    eapply (relk_trans _ Pnh_vote); [|exact K2]. cbn [cands s1 set_residual set_cands].
    apply (relk_weaken (Pc cset) Pnh); [|exact K1]. intros c Hc0 Hp. unfold Pnh in Hp. apply andb_prop in Hp. destruct Hp as [Hp _].
    unfold Pc. destruct (existsb (Z.eqb (cid c)) cset) eqn:Ee; [|reflexivity]. exfalso.
    pose proof (he_ids_only (cands s) c Hnd Hc0 Ee) as Hh. rewrite Hh in Hp. discriminate.
Qed.


Theorem distribute_spec (s : est) : NoDup (map (@cid A) (cands s)) -> crashed (distribute_votes A cfg s) = false ->
  dv_spec s (distribute_votes A cfg s).
Proof.
  intros Hnd Hcf. unfold distribute_votes in *.
  set (s0 := set_residual (zero_he_votes A s) (V0 A)) in *.
  assert (Ec0: cands s0 = map (fun c => if in_state A Hopeful c || in_state A Elected c then with_vote c (V0 A) else c) (cands s)) by reflexivity.
  assert (Hnd0: NoDup (map (@cid A) (cands s0))).
  { rewrite Ec0, map_map. erewrite map_ext; [exact Hnd|]. intros c. destruct (_ || _); reflexivity. }
  assert (K0: relk Pnh (cands s) (cands s0)).
  { rewrite Ec0. apply relk_map. intros c _. unfold rk, Pnh, is_he. destruct (in_state A Hopeful c || in_state A Elected c); cbn [negb andb].
    - split; [reflexivity|discriminate].
    - split; [symmetry; apply with_vote_same|reflexivity]. }
  pose proof (strict_fold_conserves A S ZL cfg (ballots s0) (cands s0) (V0 A) [] Hnd0) as [T1 I1].
  pose proof (strict_fold_frame (ballots s0) (cands s0) (V0 A) [] Hnd0) as K1.
  pose proof (strict_fold_mults (ballots s0) (cands s0) (V0 A) []) as M1.
  cbv zeta in T1, I1.
  destruct (fold_left _ (ballots s0) (cands s0, V0 A, [])) as [[cs res_] bs_rev] eqn:Ef. cbn [fst snd] in *.
  set (s1 := set_ballots (set_residual (set_cands s0 cs) res_) (rev bs_rev)) in *.
  change (fold_left _ (eballots s1) s1) with (fold_left eq_step (eballots s1) s1) in *.
  assert (Hnd1: NoDup (map (@cid A) (cands s1))) by (cbn [cands s1 set_ballots set_residual set_cands]; rewrite I1; exact Hnd0).
  destruct (eq_fold_spec (eballots s1) s1 Hnd1 Hcf) as (T2 & K2 & E1 & E2 & E3 & E4). cbv zeta in *.
  assert (HV0: R (V0 A) = 0) by (unfold V0; rewrite (r_of_int A S ZL); lia).
  constructor.
  - rewrite T2. cbn [cands residual eballots s1 set_ballots set_residual set_cands]. rewrite T1, Ec0, tot_zero_he, HV0. cbn [ballots eballots s0 set_residual zero_he_votes set_cands]. lia.
  - eapply (relk_trans _ Pnh_vote); [exact K0|]. eapply (relk_trans _ Pnh_vote); [|exact K2]. cbn [cands s1 set_ballots set_residual set_cands].
    apply (relk_weaken Pk Pnh); [|exact K1]. intros c _ Hp. unfold Pnh in Hp. apply andb_prop in Hp. exact (proj2 Hp).
  - rewrite E1. cbn [ballots s1 set_ballots]. rewrite sum_mult_rev, M1. unfold sum_mult at 1. cbn [fold_right]. cbn [ballots s0 set_residual zero_he_votes set_cands]. lia.
  - rewrite E2. reflexivity.
  - rewrite E3. reflexivity.
  - rewrite E4. reflexivity.
Qed.


(* ================= whole runs ================= *)
Variable T0 : Z.
Hypothesis Hmeth : cf_method cfg = MMeek.

(* the quota the rule prescribes for v raw units of votes still credited: v / (seats + 1), truncated, plus one unit
   in the last place unless the arithmetic is exact *)
Definition qf (v : Z) : Z := v * S / ((cf_nseats cfg + 1) * S) + (if exact A then 0 else R (epsilon A)).
Definition iter_ok (a : action A) : Prop :=
  a_tag a = TIterate ->
  match a_snap a with
  | Some sn => R (as_votes sn) + match as_nt sn with Some x => R x | None => 0 end = T0 /\
               R (as_quota sn) = qf (R (as_votes sn))
  | None => True
  end.
Record MI (s : est) : Prop := {
  mi_nd : NoDup (map (@cid A) (cands s));
  mi_z0 : forall c, In c (cands s) -> is_he c = false -> R (cvote c) = 0;
  mi_kf0 : forall c, In c (cands s) -> is_he c = false -> kf_truthy A c = false;
  mi_tm : sum_mult A S ZL (ballots s) + sum_emult (eballots s) = T0;
  mi_hist : Forall iter_ok (actions s)
}.
Definition CV (s : est) : Prop := tot (cands s) + R (residual s) = T0.
Definition QV (s : est) : Prop := R (quota s) = qf (tot (cands s)).
Definition CVQ (s : est) : Prop := CV s /\ QV s.

Lemma nonhe_tot_zero (l : list cand) : (forall c, In c l -> is_he c = false -> R (cvote c) = 0) -> nonhe_tot l = 0.
Proof.
  unfold nonhe_tot. induction l as [|c l IH]; intros H; [reflexivity|]. cbn [fold_right]. rewrite IH; [|intros c' Hc'; apply H; right; exact Hc'].
  destruct (is_he c) eqn:E; [lia|]. rewrite (H c (or_introl eq_refl) E). lia.
Qed.

Lemma mi_distribute (s : est) : MI s -> crashed (distribute_votes A cfg s) = false ->
  MI (distribute_votes A cfg s) /\ CV (distribute_votes A cfg s).
Proof.
  intros M Hcf. destruct (distribute_spec s (mi_nd _ M) Hcf) as [D1 D2 D3 D4 D5 D6].
  assert (Hback: forall c', In c' (cands (distribute_votes A cfg s)) -> is_he c' = false ->
            exists c, In c (cands s) /\ is_he c = false /\ cvote c' = cvote c /\ kf_truthy A c' = false).
  { intros c' Hc' Hh. destruct (relk_in _ _ _ c' D2 Hc') as (c & Hc & Hr). destruct (rk_id _ _ _ Hr) as (E1 & E2 & E3 & E4).
    assert (Hhc: is_he c = false) by (unfold is_he, in_state in *; rewrite <- E2; exact Hh).
    pose proof (mi_kf0 _ M c Hc Hhc) as Hk. exists c. split; [exact Hc|]. split; [exact Hhc|]. split.
    - apply (proj2 Hr). unfold Pnh. rewrite Hhc, Hk. reflexivity.
    - unfold kf_truthy in *. rewrite E4. exact Hk. }
  split.
  - constructor.
    + rewrite (relk_ids _ _ _ D2). exact (mi_nd _ M).
    + intros c' Hc' Hh. destruct (Hback c' Hc' Hh) as (c & Hc & Hhc & Ev & _). rewrite Ev. exact (mi_z0 _ M c Hc Hhc).
    + intros c' Hc' Hh. destruct (Hback c' Hc' Hh) as (c & _ & _ & _ & Hk). exact Hk.
    + rewrite D3, D4. exact (mi_tm _ M).
    + rewrite D6. exact (mi_hist _ M).
  - unfold CV. rewrite D1, (nonhe_tot_zero _ (mi_z0 _ M)). pose proof (mi_tm _ M). lia.
Qed.

(* operations that change neither candidates' votes, keep factors of non-continuing candidates, nor ballots *)
Lemma mi_same (s s' : est) : cands s' = cands s -> ballots s' = ballots s -> eballots s' = eballots s -> actions s' = actions s -> MI s -> MI s'.
Proof. intros E1 E2 E3 E4 [M1 M2 M3 M4 M5]. constructor; rewrite ?E1, ?E2, ?E3, ?E4; assumption. Qed.
Lemma cv_same (s s' : est) : cands s' = cands s -> residual s' = residual s -> CV s -> CV s'.
Proof. intros E1 E2 H. unfold CV in *. rewrite E1, E2. exact H. Qed.

Lemma r_vsum' (l : list (T A)) : R (vsum A l) = fold_right (fun x acc => R x + acc) 0 l.
Proof.
  unfold vsum. assert (H: forall a, R (fold_left (add A) l a) = R a + fold_right (fun x acc => R x + acc) 0 l).
  { induction l as [|x l IH]; intros a; cbn [fold_left fold_right]; [lia|]. rewrite IH, (r_add A S ZL). lia. }
  rewrite H, (r_of_int A S ZL). lia.
Qed.
Lemma elig_tot (l : list cand) : (forall c, In c l -> is_he c = false -> R (cvote c) = 0) ->
  fold_right (fun x acc => R x + acc) 0 (map (@cvote A) (filter (fun c => negb (in_state A Withdrawn c)) l)) = tot l.
Proof.
  unfold MeekDist.tot. induction l as [|c l IH]; intros H; [reflexivity|]. cbn [filter fold_right]. rewrite <- (IH (fun c' Hc' => H c' (or_intror Hc'))).
  destruct (in_state A Withdrawn c) eqn:E; cbn [negb map fold_right]; [|reflexivity].
  rewrite (H c (or_introl eq_refl)); [lia|]. unfold is_he, in_state in *. destruct (cst c); cbn in *; congruence.
Qed.

Lemma mi_log t m (s : est) : (t = TIterate -> CVQ s) -> MI s -> MI (log_action A cfg t m s).
Proof.
  intros Hcv [M1 M2 M3 M4 M5]. unfold log_action. destruct (is_log t) eqn:El.
  - constructor; cbn [cands ballots eballots actions set_actions]; try assumption. constructor; [|exact M5]. unfold iter_ok. cbn [a_tag a_snap]. auto.
  - set (s1 := if is_round t then set_rounds s (rounds s ++ [cands s]) else s).
    assert (E1: cands s1 = cands s /\ ballots s1 = ballots s /\ eballots s1 = eballots s /\ actions s1 = actions s /\ residual s1 = residual s /\ quota s1 = quota s)
      by (unfold s1; destruct (is_round t); repeat split).
    destruct E1 as (E1 & E2 & E3 & E4 & E5 & E6).
    constructor; cbn [cands ballots eballots actions set_actions]; rewrite ?E1, ?E2, ?E3, ?E4; try assumption.
    constructor; [|exact M5]. unfold iter_ok. cbn [a_tag a_snap]. intros Et. unfold snap_of, eligibles. cbn [as_votes as_nt as_quota]. rewrite Hmeth, E1, E5, E6.
    rewrite r_vsum'. rewrite (elig_tot _ M2). exact (Hcv Et).
Qed.
Lemma cands_log' t m (s : est) : cands (log_action A cfg t m s) = cands s /\ residual (log_action A cfg t m s) = residual s.
Proof. unfold log_action. destruct (is_log t); [split; reflexivity|]. destruct (is_round t); split; reflexivity. Qed.
Lemma cv_log t m (s : est) : CV s -> CV (log_action A cfg t m s).
Proof. intros H. destruct (cands_log' t m s) as [E1 E2]. apply (cv_same s); assumption. Qed.
Lemma qv_same (s s' : est) : cands s' = cands s -> quota s' = quota s -> QV s -> QV s'.
Proof. intros E1 E2 H. unfold QV in *. rewrite E1, E2. exact H. Qed.
Lemma quota_log t m (s : est) : quota (log_action A cfg t m s) = quota s.
Proof. unfold log_action. destruct (is_log t); [reflexivity|]. destruct (is_round t); reflexivity. Qed.
Lemma qv_log t m (s : est) : QV s -> QV (log_action A cfg t m s).
Proof. intros H. apply (qv_same s); [exact (proj1 (cands_log' t m s))|apply quota_log|exact H]. Qed.
Lemma cvq_same (s s' : est) : cands s' = cands s -> residual s' = residual s -> quota s' = quota s -> CVQ s -> CVQ s'.
Proof. intros E1 E2 E3 [V Q']. split; [exact (cv_same s s' E1 E2 V)|exact (qv_same s s' E1 E3 Q')]. Qed.
Lemma cvq_log t m (s : est) : CVQ s -> CVQ (log_action A cfg t m s).
Proof. intros [V Q']. split; [apply cv_log; exact V|apply qv_log; exact Q']. Qed.


(* ---- status writers and the keep-factor update ---- *)
Lemma hist_log_other t m (s : est) : t <> TIterate -> Forall iter_ok (actions s) -> Forall iter_ok (actions (log_action A cfg t m s)).
Proof.
  intros Ht H. unfold log_action. destruct (is_log t); cbn [actions set_actions]; [constructor; [intros E; cbn in E; congruence|exact H]|].
  destruct (is_round t); cbn [actions set_actions set_rounds]; (constructor; [intros E; cbn in E; congruence|exact H]).
Qed.
Lemma actions_upd (s : est) i f : actions (upd A s i f) = actions s. Proof. reflexivity. Qed.

Lemma in_upd_c i f (l : list cand) c' : In c' (upd_cand A i f l) -> exists c, In c l /\ ((cid c = i /\ c' = f c) \/ (cid c <> i /\ c' = c)).
Proof.
  unfold upd_cand. intros H. apply in_map_iff in H. destruct H as (c & E & Hc). exists c. split; [exact Hc|].
  destruct (cid c =? i) eqn:Ei; [left|right]; split; auto; lia.
Qed.
Lemma tot_upd_votes_same i f (l : list cand) : (forall c, cvote (f c) = cvote c) -> tot (upd_cand A i f l) = tot l.
Proof. intros Hf. unfold MeekDist.tot, upd_cand. induction l as [|c l IH]; [reflexivity|]. cbn [map fold_right]. rewrite IH. destruct (cid c =? i); [rewrite Hf|]; reflexivity. Qed.

(* a status/keep-factor change that leaves the touched candidates hopeful or elected *)
Lemma mi_upd_he (s : est) i f : (forall c, cid (f c) = cid c /\ cvote (f c) = cvote c) ->
  (forall c, In c (cands s) -> cid c = i -> is_he (f c) = true) -> MI s -> MI (upd A s i f).
Proof.
  intros Hf Hh [M1 M2 M3 M4 M5]. constructor; unfold upd; cbn [cands ballots eballots actions set_cands]; try assumption.
  - rewrite cids_upd; [exact M1|intros c; exact (proj1 (Hf c))].
  - intros c' Hc' Hn. destruct (in_upd_c _ _ _ _ Hc') as (c & Hc & [[Ei ->]|[Ei ->]]); [rewrite (Hh c Hc Ei) in Hn; discriminate|exact (M2 c Hc Hn)].
  - intros c' Hc' Hn. destruct (in_upd_c _ _ _ _ Hc') as (c & Hc & [[Ei ->]|[Ei ->]]); [rewrite (Hh c Hc Ei) in Hn; discriminate|exact (M3 c Hc Hn)].
Qed.
Lemma cv_upd_same (s : est) i f : (forall c, cvote (f c) = cvote c) -> CV s -> CV (upd A s i f).
Proof. intros Hf H. unfold CV, upd in *. cbn [cands residual set_cands]. rewrite tot_upd_votes_same; assumption. Qed.

Lemma mi_set_crash (s : est) e : MI s -> MI (set_crash s e). Proof. apply mi_same; reflexivity. Qed.
Lemma cv_set_crash (s : est) e : CV s -> CV (set_crash s e). Proof. apply cv_same; reflexivity. Qed.

Lemma mi_elect i m p (s : est) : MI s -> MI (elect A cfg i m p s).
Proof.
  intros M. unfold elect. destruct (find_cand A (cands s) i); [|apply mi_set_crash; exact M].
  apply mi_log; [discriminate|]. apply mi_upd_he; [intros c1; split; reflexivity|intros c1 _ _; reflexivity|exact M].
Qed.
Lemma cv_elect i m p (s : est) : CV s -> CV (elect A cfg i m p s).
Proof. intros H. unfold elect. destruct (find_cand A (cands s) i); [|apply cv_set_crash; exact H]. apply cv_log. apply cv_upd_same; [reflexivity|exact H]. Qed.

Lemma mi_fold {X} (g : est -> X -> est) (l : list X) : (forall s x, MI s -> MI (g s x)) -> forall s, MI s -> MI (fold_left g l s).
Proof. intros Hg. induction l as [|x l IH]; intros s H; cbn [fold_left]; [exact H|]. apply IH, Hg, H. Qed.
Lemma cv_fold {X} (g : est -> X -> est) (l : list X) : (forall s x, CV s -> CV (g s x)) -> forall s, CV s -> CV (fold_left g l s).
Proof. intros Hg. induction l as [|x l IH]; intros s H; cbn [fold_left]; [exact H|]. apply IH, Hg, H. Qed.

(* update_kfs touches the keep factors of elected candidates only *)
Lemma mi_update_kfs cl (s : est) : MI s -> MI (update_kfs A cl s).
Proof.
  intros M. unfold update_kfs.
  assert (G: forall (l : list cand) (s0 : est), MI s0 -> (forall c, In c l -> forall x, In x (cands s0) -> cid x = cid c -> cst x = Elected) ->
             MI (fold_left (fun s c => if crashed s then s else
                 match kdiv A (kmul A (kf_of A c) (quota s) true) (cvote c) true with
                 | Ok k => let k' := if cl && gtv A k (V1 A) then V1 A else k in upd A s (cid c) (fun c0 => with_kf c0 (Some k'))
                 | Raise e => set_crash s e end) l s0)).
  { induction l as [|c l IH]; intros s0 M0 Hl; cbn [fold_left]; [exact M0|]. apply IH.
    - destruct (crashed s0); [exact M0|]. destruct (kdiv A _ _ _); [|apply mi_set_crash; exact M0]. cbv zeta.
      apply mi_upd_he; [intros c0; split; reflexivity| |exact M0]. intros x Hx Ex. unfold is_he, in_state. cbn [cst with_kf].
      rewrite (Hl c (or_introl eq_refl) x Hx Ex). reflexivity.
    - intros c' Hc' x Hx Ex. destruct (crashed s0); [exact (Hl c' (or_intror Hc') x Hx Ex)|]. destruct (kdiv A _ _ _); [|exact (Hl c' (or_intror Hc') x Hx Ex)].
      cbv zeta in Hx. unfold upd in Hx. cbn [cands set_cands] in Hx. destruct (in_upd_c _ _ _ _ Hx) as (x0 & Hx0 & [[Ei ->]|[Ei ->]]); cbn [cid cst with_kf] in *; exact (Hl c' (or_intror Hc') x0 Hx0 Ex). }
  apply G; [exact M|]. intros c Hc x Hx Ex. unfold electeds in Hc. apply filter_In in Hc. destruct Hc as [Hcin Hel].
  rewrite (nodup_cid_inj A (cands s) c x (mi_nd _ M) Hcin Hx Ex). unfold in_state in Hel. destruct (cst c); cbn in Hel; congruence.
Qed.
Lemma cv_update_kfs cl (s : est) : CV s -> CV (update_kfs A cl s).
Proof.
  intros H. unfold update_kfs. apply cv_fold; [|exact H]. intros s0 c H0. destruct (crashed s0); [exact H0|]. destruct (kdiv A _ _ _); [|apply cv_set_crash; exact H0].
  cbv zeta. apply cv_upd_same; [reflexivity|exact H0].
Qed.


(* ---- exclusion: defeat, zero the tally and the keep factor, redistribute ---- *)
Lemma kf_truthy_zero (c : cand) : kf_truthy A (with_vote (with_kf c (Some (V0 A))) (V0 A)) = false.
Proof. unfold kf_truthy. cbn [ckf with_vote with_kf]. rewrite (r_truth A S ZL). unfold V0. rewrite (r_of_int A S ZL). reflexivity. Qed.

Lemma mi_dz i msg (s : est) : MI s -> MI (zero_cand A i (defeat A cfg i msg s)).
Proof.
  intros [M1 M2 M3 M4 M5]. unfold defeat. destruct (find_cand A (cands s) i) as [c0|] eqn:Ef.
  - assert (HV0: R (V0 A) = 0) by (unfold V0; rewrite (r_of_int A S ZL); lia).
    constructor; unfold zero_cand, upd; cbn [cands ballots eballots actions set_cands]; rewrite ?cands_log.
    + rewrite cids_upd; [|reflexivity]. unfold upd. cbn [cands set_cands]. rewrite cids_upd; [exact M1|reflexivity].
    + intros c' Hc' Hn. destruct (in_upd_c _ _ _ _ Hc') as (c1 & Hc1 & [[Ei ->]|[Ei ->]]); [cbn [cvote with_vote]; exact HV0|].
      unfold upd in Hc1. cbn [cands set_cands] in Hc1. destruct (in_upd_c _ _ _ _ Hc1) as (c2 & Hc2 & [[Ej ->]|[Ej ->]]); [cbn [cid with_st] in Ei; congruence|exact (M2 c2 Hc2 Hn)].
    + intros c' Hc' Hn. destruct (in_upd_c _ _ _ _ Hc') as (c1 & Hc1 & [[Ei ->]|[Ei ->]]); [apply kf_truthy_zero|].
      unfold upd in Hc1. cbn [cands set_cands] in Hc1. destruct (in_upd_c _ _ _ _ Hc1) as (c2 & Hc2 & [[Ej ->]|[Ej ->]]); [cbn [cid with_st] in Ei; congruence|exact (M3 c2 Hc2 Hn)].
    + destruct (cands_log' TDefeat (msg ++ ": " ++ cname c0)%string (upd A s i (fun c => with_st c Defeated (cpend c)))) as [_ _].
      unfold log_action. cbn [is_log is_round ballots eballots set_actions]. exact M4.
    + apply hist_log_other; [discriminate|exact M5].
  - constructor; unfold zero_cand, upd; cbn [cands ballots eballots actions set_cands set_crash]; try assumption.
    + rewrite cids_upd; [exact M1|reflexivity].
    + intros c' Hc' Hn. destruct (in_upd_c _ _ _ _ Hc') as (c1 & Hc1 & [[Ei ->]|[Ei ->]]); [|exact (M2 c1 Hc1 Hn)].
      exfalso. destruct (find_cand_in A (cands s) i) as [x Hx]; [rewrite <- Ei; apply in_map; exact Hc1|congruence].
    + intros c' Hc' Hn. destruct (in_upd_c _ _ _ _ Hc') as (c1 & Hc1 & [[Ei ->]|[Ei ->]]); [|exact (M3 c1 Hc1 Hn)].
      exfalso. destruct (find_cand_in A (cands s) i) as [x Hx]; [rewrite <- Ei; apply in_map; exact Hc1|congruence].
Qed.

Lemma crashed_dist_sticky (s : est) : crashed s = true -> crashed (distribute_votes A cfg s) = true.
Proof.
  intros Hc. unfold distribute_votes. set (s0 := set_residual (zero_he_votes A s) (V0 A)).
  destruct (fold_left _ (ballots s0) (cands s0, V0 A, [])) as [[cs res_] bs_rev].
  set (s1 := set_ballots (set_residual (set_cands s0 cs) res_) (rev bs_rev)).
  assert (H1: crashed s1 = true) by exact Hc.
  change (fold_left _ (eballots s1) s1) with (fold_left eq_step (eballots s1) s1). rewrite (eq_step_crashed _ _ H1). exact H1.
Qed.

Lemma mi_dzd i msg (s : est) : MI s -> crashed (distribute_votes A cfg (zero_cand A i (defeat A cfg i msg s))) = false ->
  MI (distribute_votes A cfg (zero_cand A i (defeat A cfg i msg s))) /\ CV (distribute_votes A cfg (zero_cand A i (defeat A cfg i msg s))).
Proof. intros M Hcf. apply mi_distribute; [apply mi_dz; exact M|exact Hcf]. Qed.


(* ---- folds that stop at the first crash ---- *)
Lemma guard_fold_crashed {X} (h : est -> X -> est) (l : list X) : forall s : est, crashed s = true ->
  fold_left (fun s x => if crashed s then s else h s x) l s = s.
Proof. induction l as [|x l IH]; intros s Hc; cbn [fold_left]; [reflexivity|]. rewrite Hc. apply IH. exact Hc. Qed.

Lemma fold_guard {X} (Inv : est -> Prop) (h : est -> X -> est) (l : list X) :
  (forall s x, Inv s -> crashed (h s x) = false -> Inv (h s x)) ->
  forall s, Inv s -> crashed (fold_left (fun s x => if crashed s then s else h s x) l s) = false ->
  Inv (fold_left (fun s x => if crashed s then s else h s x) l s).
Proof.
  intros Hh. induction l as [|x l IH]; intros s Hs Hc; cbn [fold_left] in *; [exact Hs|].
  destruct (crashed s) eqn:Cs.
  - exfalso. rewrite guard_fold_crashed in Hc by exact Cs. congruence.
  - destruct (crashed (h s x)) eqn:Ch.
    + exfalso. rewrite guard_fold_crashed in Hc by exact Ch. congruence.
    + apply IH; [apply Hh; assumption|exact Hc].
Qed.

(* ---- the pieces of the rule ---- *)
Lemma mi_set_quota_r (s : est) q : MI s -> MI (set_quota_r A s q).
Proof. intros M. unfold set_quota_r. destruct q; [revert M; apply mi_same; reflexivity|apply mi_set_crash; exact M]. Qed.
Lemma cv_set_quota_r (s : est) q : CV s -> CV (set_quota_r A s q).
Proof. intros M. unfold set_quota_r. destruct q; [revert M; apply cv_same; reflexivity|apply cv_set_crash; exact M]. Qed.

Lemma qv_upd_same (s : est) i f : (forall c, cvote (f c) = cvote c) -> QV s -> QV (upd A s i f).
Proof. intros Hf H. unfold QV, upd in *. cbn [cands quota set_cands]. rewrite tot_upd_votes_same; assumption. Qed.
Lemma qv_elect i m p (s : est) : QV s -> QV (elect A cfg i m p s).
Proof.
  intros H. unfold elect. destruct (find_cand A (cands s) i); [|revert H; apply qv_same; reflexivity].
  apply qv_log. apply qv_upd_same; [reflexivity|exact H].
Qed.
Lemma qv_fold {X} (g : est -> X -> est) (l : list X) : (forall s x, QV s -> QV (g s x)) -> forall s, QV s -> QV (fold_left g l s).
Proof. intros Hg. induction l as [|x l IH]; intros s Hs; cbn [fold_left]; [exact Hs|]. apply IH, Hg, Hs. Qed.

(* the votes still credited: hopeful and elected candidates hold everything *)
Lemma he_tot (l : list cand) : (forall c, In c l -> is_he c = false -> R (cvote c) = 0) ->
  fold_right (fun x acc => R x + acc) 0 (map (@cvote A) (filter (in_state A Hopeful) l ++ filter (in_state A Elected) l)) = tot l.
Proof.
  unfold MeekDist.tot. intros Hz. rewrite map_app.
  assert (Happ: forall a b : list (T A), fold_right (fun x acc => R x + acc) 0 (a ++ b) =
                 fold_right (fun x acc => R x + acc) 0 a + fold_right (fun x acc => R x + acc) 0 b).
  { induction a as [|x a IH]; intros b; cbn [app fold_right]; [lia|]. rewrite IH. lia. }
  rewrite Happ. induction l as [|c l IH]; [reflexivity|]. cbn [filter fold_right].
  specialize (IH (fun c' Hc' => Hz c' (or_intror Hc'))).
  destruct (in_state A Hopeful c) eqn:E1; destruct (in_state A Elected c) eqn:E2; cbn [map fold_right]; try lia.
  - unfold in_state in *. destruct (cst c); cbn in *; discriminate.
  - rewrite (Hz c (or_introl eq_refl)); [lia|]. unfold is_he. rewrite E1, E2. reflexivity.
Qed.

Lemma meek_quota_value (s : est) q : meek_quota A cfg s = Ok q -> R q = qf (R (votes s)).
Proof.
  unfold meek_quota, qf. destruct (Z.eq_dec (R (of_int A (cf_nseats cfg + 1))) 0) as [Hz|Hnz].
  - rewrite (r_divv0 A S ZL _ _ Hz). discriminate.
  - destruct (r_divv A S ZL (votes s) (of_int A (cf_nseats cfg + 1)) Hnz) as (q0 & E0 & R0). rewrite E0. intros E. inversion E; subst q.
    rewrite (r_of_int A S ZL) in R0. destruct (exact A); [rewrite R0; lia|rewrite (r_add A S ZL), R0; reflexivity].
Qed.

Lemma mi_iter_head (s : est) : MI s -> crashed (meek_iter_head A cfg s) = false ->
  MI (meek_iter_head A cfg s) /\ CVQ (meek_iter_head A cfg s).
Proof.
  intros M. unfold meek_iter_head. cbv zeta. set (s1 := distribute_votes A cfg s).
  destruct (crashed s1) eqn:C1; [congruence|]. intros Hc.
  destruct (mi_distribute s M C1) as [M1 V1']. fold s1 in M1, V1'.
  set (s2 := set_votes s1 _) in *.
  assert (M2: MI s2) by (revert M1; apply mi_same; reflexivity).
  assert (V2: CV s2) by (revert V1'; apply cv_same; reflexivity).
  assert (Hv2: R (votes s2) = tot (cands s2)).
  { unfold s2. cbn [votes cands set_votes]. rewrite r_vsum'. unfold he_cands, hopefuls, electeds. apply he_tot. exact (mi_z0 _ M1). }
  set (s3 := set_quota_r A s2 _) in *.
  assert (M3: MI s3) by (apply mi_set_quota_r; exact M2).
  assert (V3: CV s3) by (apply cv_set_quota_r; exact V2).
  destruct (crashed s3) eqn:C3; [congruence|].
  assert (Q3: QV s3).
  { unfold s3, set_quota_r in *. destruct (meek_quota A cfg s2) as [q|e] eqn:Eq; [|rewrite sticky_set_crash' in C3; discriminate].
    unfold QV. cbn [quota cands set_quota]. rewrite (meek_quota_value s2 q Eq), Hv2. reflexivity. }
  split; [|split].
  - match goal with |- MI (set_surplus ?x _) => apply (mi_same x); [reflexivity|reflexivity|reflexivity|reflexivity|] end.
    apply mi_fold; [|exact M3]. intros t c Mt. apply (mi_same (elect A cfg (cid c) "Elect" false t)); [reflexivity|reflexivity|reflexivity|reflexivity|]. apply mi_elect. exact Mt.
  - match goal with |- CV (set_surplus ?x _) => apply (cv_same x); [reflexivity|reflexivity|] end.
    apply cv_fold; [|exact V3]. intros t c Mt. apply (cv_same (elect A cfg (cid c) "Elect" false t)); [reflexivity|reflexivity|]. apply cv_elect. exact Mt.
  - match goal with |- QV (set_surplus ?x _) => apply (qv_same x); [reflexivity|reflexivity|] end.
    apply qv_fold; [|exact Q3]. intros t c Mt. apply (qv_same (elect A cfg (cid c) "Elect" false t)); [reflexivity|reflexivity|]. apply qv_elect. exact Mt.
Qed.

Lemma mi_break_tie fmt tied (s : est) : MI s -> MI (fst (break_tie A cfg fmt tied s)).
Proof.
  intros M. unfold break_tie. destruct tied as [|c [|c' l]]; cbn [fst]; [apply mi_set_crash; exact M|exact M|].
  destruct (by_tie A (c :: c' :: l)); cbn [fst]; [apply mi_set_crash; exact M|]. apply mi_log; [discriminate|exact M].
Qed.

Lemma mi_defeat_batch (s : est) : MI s -> crashed (meek_defeat_batch A cfg s) = false -> MI (meek_defeat_batch A cfg s).
Proof.
  intros M Hc. unfold meek_defeat_batch in *.
  apply (fold_guard MI (fun s c => distribute_votes A cfg (zero_cand A (cid c) (defeat A cfg (cid c) "Defeat certain loser" s)))); [|exact M|exact Hc].
  intros t c Mt Hct. apply mi_dzd; assumption.
Qed.

Lemma mi_defeat_low fmt (s : est) : MI s -> crashed (meek_defeat_low A cfg fmt true s) = false -> MI (meek_defeat_low A cfg fmt true s).
Proof.
  intros M. unfold meek_defeat_low. destruct (low_within_surplus A s) as [lows|e]; [|intros _; apply mi_set_crash; exact M].
  pose proof (mi_break_tie fmt lows s M) as Mb. destruct (break_tie A cfg fmt lows s) as [s1 [l|]]; cbn [fst] in Mb; [|intros _; exact Mb].
  cbv zeta. set (msg := if lv_status s1 =? IS_omega then _ else _).
  destruct (crashed (zero_cand A l (defeat A cfg l msg s1))) eqn:C2; [intros _; apply mi_dz; exact Mb|].
  intros Hc. apply mi_dzd; assumption.
Qed.

Lemma mi_final (s : est) : MI s -> crashed (meek_final A cfg true s) = false -> MI (meek_final A cfg true s).
Proof.
  intros M. unfold meek_final. cbv zeta. cbn [crashed set_residual set_votes]. intros Hc.
  match goal with |- MI (set_residual (set_votes ?x _) _) => apply (mi_same x); [reflexivity|reflexivity|reflexivity|reflexivity|] end.
  apply (fold_guard MI (fun s c => distribute_votes A cfg
      (if nlen (electeds A s) <? cf_nseats cfg then elect A cfg (cid c) "Elect remaining" false s
       else zero_cand A (cid c) (defeat A cfg (cid c) "Defeat remaining" s)))); [|exact M|exact Hc].
  intros t c Mt Hct. apply mi_distribute; [|exact Hct]. destruct (nlen (electeds A t) <? cf_nseats cfg); [apply mi_elect|apply mi_dz]; exact Mt.
Qed.


(* ---- the iteration and the rule as Hoare triples ---- *)
Notation T3 := (triple est (@crashed A)).
Definition MV (s : est) : Prop := MI s /\ CVQ s.

Lemma mv_same (s s' : est) : cands s' = cands s -> ballots s' = ballots s -> eballots s' = eballots s -> actions s' = actions s ->
  residual s' = residual s -> quota s' = quota s -> MV s -> MV s'.
Proof. intros E1 E2 E3 E4 E5 E6 [M V]. split; [exact (mi_same s s' E1 E2 E3 E4 M)|exact (cvq_same s s' E1 E5 E6 V)]. Qed.

Lemma meek_iterate_triple (Qb Qc : est -> Prop) : T3 MI (meek_iterate A cfg) MV Qb Qc.
Proof.
  unfold meek_iterate.
  eapply t_seq with (M := MI).
  { apply t_do. intros s M. revert M. apply mi_same; reflexivity. }
  eapply t_post; [|apply (t_while est (@crashed A) MI MV)].
  - intros s [H|[_ H]]; [exact H|discriminate H].
  - eapply t_pre with (P := MI); [intros s H; exact (proj1 H)|].
    eapply t_seq with (M := MV).
    { apply t_do_nc. intros s M Hc. apply mi_iter_head; assumption. }
    eapply t_seq with (M := MV); [apply t_ite; [apply t_break'; intros s [H _]; exact H|apply t_skip'; intros s [H _]; exact H]|].
    eapply t_seq with (M := MV).
    { apply t_ite; [|apply t_skip'; intros s [H _]; exact H].
      eapply t_seq with (M := MV); [apply t_do; intros s [H _]; revert H; apply mv_same; reflexivity|].
      apply t_break'. auto. }
    eapply t_seq with (M := MV).
    { apply t_ite; [|apply t_skip'; intros s [H _]; exact H].
      eapply t_seq with (M := MV).
      { apply t_do. intros s [[M V] _].
        match goal with |- MV (set_status ?x _) => apply (mv_same x); [reflexivity|reflexivity|reflexivity|reflexivity|reflexivity|reflexivity|] end.
        split; [apply mi_log; [discriminate|exact M]|apply cvq_log; exact V]. }
      apply t_break'. auto. }
    eapply t_seq with (M := MV).
    { apply t_do. intros s H. revert H. apply mv_same; reflexivity. }
    eapply t_seq with (M := MV).
    { apply t_ite; [|apply t_skip'; intros s [H _]; exact H].
      eapply t_seq with (M := MV); [apply t_do; intros s [H _]; revert H; apply mv_same; reflexivity|].
      apply t_break'. auto. }
    apply t_do. intros s [M V]. apply mi_update_kfs. revert M. apply mi_same; reflexivity.
Qed.

Lemma meek_body_triple (Qb : est -> Prop) : T3 MI
  (Do (new_round A cfg) ;;
   meek_iterate A cfg ;;
   Do (fun s => log_action A cfg TIterate ("Iterate (" ++ status_name (lv_status s) ++ ")") s) ;;
   Ite (fun s => lv_status s =? IS_elected) Continue Skip ;;
   Ite (fun s => lv_status s =? IS_batch) (Do (meek_defeat_batch A cfg) ;; Continue) Skip ;;
   Ite (fun s => nonempty' (hopefuls A s)) (Do (meek_defeat_low A cfg (tie_fmt "defeat") true)) Skip) MI Qb MI.
Proof.
  eapply t_seq with (M := MI).
  { apply t_do. intros s M. unfold new_round. apply mi_log; [discriminate|]. revert M. apply mi_same; reflexivity. }
  eapply t_seq with (M := MV); [apply meek_iterate_triple|].
  eapply t_seq with (M := MI).
  { apply t_do. intros s [M V]. apply mi_log; [intros _; exact V|exact M]. }
  eapply t_seq with (M := MI); [apply t_ite; [apply t_continue'; intros s [H _]; exact H|apply t_skip'; intros s [H _]; exact H]|].
  eapply t_seq with (M := MI).
  { apply t_ite; [|apply t_skip'; intros s [H _]; exact H].
    eapply t_seq with (M := MI); [|apply t_continue'; auto].
    apply t_do_nc. intros s [M _] Hc. apply mi_defeat_batch; assumption. }
  apply t_ite; [|apply t_skip'; intros s [H _]; exact H].
  apply t_do_nc. intros s [M _] Hc. apply mi_defeat_low; assumption.
Qed.


(* ---- the first operation: quota, keep factors of one, first preferences ---- *)
Variable ids : list Z.      (* the candidates that are not withdrawn *)
Definition BI (s : est) : Prop := MI s /\ forall c, In c (cands s) -> is_he c = false -> ~ In (cid c) ids.

Lemma bi_same (s s' : est) : cands s' = cands s -> ballots s' = ballots s -> eballots s' = eballots s -> actions s' = actions s -> BI s -> BI s'.
Proof. intros E1 E2 E3 E4 [M H]. split; [exact (mi_same s s' E1 E2 E3 E4 M)|rewrite E1; exact H]. Qed.
Lemma bi_set_crash (s : est) e : BI s -> BI (set_crash s e). Proof. apply bi_same; reflexivity. Qed.

Lemma bi_add_vote i v (s : est) : In i ids -> BI s -> BI (add_vote A i v s).
Proof.
  intros Hi [[M1 M2 M3 M4 M5] Hn]. unfold add_vote.
  assert (Hback: forall c', In c' (cands (upd A s i (fun c => with_vote c (add A (cvote c) v)))) -> is_he c' = false -> In c' (cands s)).
  { intros c' Hc' Hh. unfold upd in Hc'. cbn [cands set_cands] in Hc'. destruct (in_upd_c _ _ _ _ Hc') as (c & Hc & [[Ei ->]|[Ei ->]]); [|exact Hc].
    exfalso. apply (Hn c Hc Hh). rewrite Ei. exact Hi. }
  split; [constructor|].
  - unfold upd. cbn [cands set_cands]. rewrite cids_upd; [exact M1|reflexivity].
  - intros c' Hc' Hh. exact (M2 c' (Hback c' Hc' Hh) Hh).
  - intros c' Hc' Hh. exact (M3 c' (Hback c' Hc' Hh) Hh).
  - exact M4.
  - exact M5.
  - intros c' Hc' Hh. exact (Hn c' (Hback c' Hc' Hh) Hh).
Qed.

Lemma bi_init_kfs (s : est) : BI s -> BI (init_kfs A s).
Proof.
  intros [[M1 M2 M3 M4 M5] Hn]. unfold init_kfs.
  set (g := fun c : cand => if in_state A Hopeful c then with_kf c (Some (V1 A)) else c).
  assert (Hback: forall c', In c' (map g (cands s)) -> is_he c' = false -> In c' (cands s)).
  { intros c' Hc' Hh. apply in_map_iff in Hc'. destruct Hc' as (c & Ec & Hc). subst c'. unfold g in *.
    destruct (in_state A Hopeful c) eqn:E; [|exact Hc]. exfalso. unfold is_he in Hh.
    change (in_state A Hopeful (with_kf c (Some (V1 A)))) with (in_state A Hopeful c) in Hh. rewrite E in Hh. discriminate. }
  split; [constructor|]; cbn [cands ballots eballots actions set_cands].
  - replace (map (@cid A) (map g (cands s))) with (map (@cid A) (cands s)); [exact M1|].
    rewrite map_map. apply map_ext. intros c. unfold g. destruct (in_state A Hopeful c); reflexivity.
  - intros c' Hc' Hh. exact (M2 c' (Hback c' Hc' Hh) Hh).
  - intros c' Hc' Hh. exact (M3 c' (Hback c' Hc' Hh) Hh).
  - exact M4.
  - exact M5.
  - intros c' Hc' Hh. exact (Hn c' (Hback c' Hc' Hh) Hh).
Qed.

Lemma bi_fold {X} (g : est -> X -> est) (l : list X) : (forall s x, In x l -> BI s -> BI (g s x)) -> forall s, BI s -> BI (fold_left g l s).
Proof.
  induction l as [|x l IH]; intros H s Hs; cbn [fold_left]; [exact Hs|].
  apply IH; [intros t y Hy; apply H; right; exact Hy|apply H; [left; reflexivity|exact Hs]].
Qed.
Lemma proj_fold {X Y} (pj : est -> Y) (g : est -> X -> est) (l : list X) : (forall s x, pj (g s x) = pj s) -> forall s, pj (fold_left g l s) = pj s.
Proof. intros H. induction l as [|x l IH]; intros s; cbn [fold_left]; [reflexivity|]. rewrite IH. apply H. Qed.

Definition Pre0 (s : est) : Prop :=
  BI s /\ (forall b, In b (ballots s) -> forall c, top_rank A b = Some c -> In c ids) /\
  (forall eb, In eb (eballots s) -> forall g i, In g (erank eb) -> In i g -> In i ids).

Definition meek_begin (s : est) : est :=
  match omega A cfg with
  | Raise e => set_crash s e
  | Ok _ =>
    let s1 := set_votes s (of_int A (cf_nballots cfg)) in
    let s2 := set_quota_r A s1 (meek_quota A cfg s1) in
    if crashed s2 then s2 else
    log_action A cfg TBegin "Begin Count" (meek_first_prefs A (init_kfs A s2))
  end.
Definition meek_body : cmd est :=
  Do (new_round A cfg) ;;
  meek_iterate A cfg ;;
  Do (fun s => log_action A cfg TIterate ("Iterate (" ++ status_name (lv_status s) ++ ")") s) ;;
  Ite (fun s => lv_status s =? IS_elected) Continue Skip ;;
  Ite (fun s => lv_status s =? IS_batch) (Do (meek_defeat_batch A cfg) ;; Continue) Skip ;;
  Ite (fun s => nonempty' (hopefuls A s)) (Do (meek_defeat_low A cfg (tie_fmt "defeat") true)) Skip.
Lemma meek_unfold : meek A cfg =
  (Do meek_begin ;; While (fun s => negb (count_complete_m A cfg s)) meek_body ;; Do (meek_final A cfg true)).
Proof. reflexivity. Qed.

Lemma mi_begin (s : est) : Pre0 s -> crashed (meek_begin s) = false -> MI (meek_begin s).
Proof.
  intros (B & Hb & He). unfold meek_begin. destruct (omega A cfg) as [o|e]; [|intros _; apply mi_set_crash; exact (proj1 B)]. cbv zeta.
  set (s2 := set_quota_r A (set_votes s _) _).
  assert (B2: BI s2 /\ ballots s2 = ballots s /\ eballots s2 = eballots s).
  { unfold s2, set_quota_r. destruct (meek_quota A cfg _); (split; [revert B; apply bi_same; reflexivity|split; reflexivity]). }
  destruct B2 as (B2 & E2 & E3).
  destruct (crashed s2) eqn:C2; [congruence|]. intros _.
  apply mi_log; [discriminate|]. unfold meek_first_prefs.
  match goal with |- MI ?x => refine (proj1 (_ : BI x)) end.
  match goal with |- BI (fold_left _ (eballots ?s1) _) => assert (Ee: eballots s1 = eballots s) end.
  { rewrite proj_fold; [exact E3|]. intros t b. destruct (top_rank A b); reflexivity. }
  rewrite Ee. apply bi_fold.
  - intros t eb Heb Bt. destruct (crashed t); [exact Bt|]. destruct (erank eb) as [|top rest] eqn:Er; [apply bi_set_crash; exact Bt|].
    destruct (divv A _ _); [|apply bi_set_crash; exact Bt]. cbv zeta. apply bi_fold; [|exact Bt].
    intros u i Hi Bu. apply bi_add_vote; [|exact Bu]. apply (He eb Heb top i); [rewrite Er; left; reflexivity|exact Hi].
  - apply bi_fold; [|apply bi_init_kfs; exact B2].
    intros t b Hb' Bt. destruct (top_rank A b) as [c|] eqn:Et; [|exact Bt]. apply bi_add_vote; [|exact Bt].
    apply (Hb b); [|exact Et]. cbn [ballots init_kfs set_cands] in Hb'. rewrite E2 in Hb'. exact Hb'.
Qed.

Theorem meek_triple (Qb Qc : est -> Prop) : T3 Pre0 (meek A cfg) MI Qb Qc.
Proof.
  rewrite meek_unfold.
  eapply t_seq with (M := MI).
  { apply t_do_nc. intros s P Hc. apply mi_begin; assumption. }
  eapply t_seq with (M := MI).
  { eapply t_post; [|apply (t_while est (@crashed A) MI (fun _ => False))].
    - intros s [H|[H _]]; [contradiction|exact H].
    - eapply t_pre with (P := MI); [intros s H; exact (proj1 H)|]. apply meek_body_triple. }
  apply t_do_nc. intros s M Hc. apply mi_final; assumption.
Qed.


(* ---- the final 'end' snapshot: nobody is left hopeful, the residual is what the elected do not hold ---- *)
Definition EndEq (s : est) : Prop :=
  R (residual s) + fold_right (fun x acc => R x + acc) 0 (map (@cvote A) (electeds A s)) = cf_nballots cfg * S.

Lemma final_end_eq rd (s : est) : EndEq (meek_final A cfg rd s).
Proof.
  unfold meek_final, EndEq. cbv zeta. cbn [residual set_residual votes set_votes].
  rewrite (r_sub A S ZL), (r_of_int A S ZL), r_vsum'. unfold electeds. cbn [cands set_residual set_votes]. lia.
Qed.

Lemma tot_elected (l : list cand) : (forall c, In c l -> is_he c = false -> R (cvote c) = 0) ->
  filter (in_state A Hopeful) l = [] ->
  tot l = fold_right (fun x acc => R x + acc) 0 (map (@cvote A) (filter (in_state A Elected) l)).
Proof.
  unfold MeekDist.tot. induction l as [|c l IH]; intros Hz Hh; [reflexivity|]. cbn [filter] in *.
  destruct (in_state A Hopeful c) eqn:E1; [discriminate|].
  specialize (IH (fun c' Hc' => Hz c' (or_intror Hc')) Hh). cbn [fold_right]. rewrite IH.
  destruct (in_state A Elected c) eqn:E2; cbn [map fold_right]; [reflexivity|].
  rewrite (Hz c (or_introl eq_refl)); [lia|]. unfold is_he. rewrite E1, E2. reflexivity.
Qed.

Definition EndOK (s : est) : Prop := MI s /\ NoHop A s /\ EndEq s.

Theorem meek_triple_end (Qb Qc : est -> Prop) : T3 Pre0 (meek A cfg) EndOK Qb Qc.
Proof.
  rewrite meek_unfold.
  eapply t_seq with (M := MI).
  { apply t_do_nc. intros s P Hc. apply mi_begin; assumption. }
  eapply t_seq with (M := MI).
  { eapply t_post; [|apply (t_while est (@crashed A) MI (fun _ => False))].
    - intros s [H|[H _]]; [contradiction|exact H].
    - eapply t_pre with (P := MI); [intros s H; exact (proj1 H)|]. apply meek_body_triple. }
  apply t_do_nc. intros s M Hc. split; [apply mi_final; assumption|split; [apply meek_final_nohop; exact Hc|apply (final_end_eq true)]].
Qed.

Definition EndSnap (s : est) : Prop :=
  match actions s with
  | a :: _ => a_tag a = TEnd /\
              match a_snap a with
              | Some sn => R (as_votes sn) + match as_nt sn with Some x => R x | None => 0 end = cf_nballots cfg * S
              | None => False
              end
  | [] => False
  end.

Lemma end_snap m (s : est) : EndOK s -> EndSnap (log_action A cfg TEnd m s).
Proof.
  intros (M & Hn & He). unfold EndSnap, log_action. cbn [is_log is_round actions set_actions a_tag a_snap].
  split; [reflexivity|]. unfold snap_of. cbn [as_votes as_nt]. rewrite Hmeth, r_vsum'. unfold eligibles.
  rewrite (elig_tot _ (mi_z0 _ M)). rewrite (tot_elected _ (mi_z0 _ M) Hn). unfold EndEq, electeds in He. lia.
Qed.

End MeekRun.
