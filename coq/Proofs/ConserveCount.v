(* Whole counts: from the state Election.__init__ builds for a well-formed profile, every state a wigm / wigm-prf(-batch) /
   scotland / cfer(-batch) / mpls count reaches without crashing satisfies the Gregory invariant (Proofs/Conserve.v). *)
From Coq Require Import ZArith List Bool String Lia ZifyBool PArith.
From Droop Require Import Model.KernelBase Model.Str Model.Arith Model.Prelude Model.State Model.Prims Model.RulesGregory
  Model.Election Proofs.CmdMeta Proofs.Zlike Proofs.Gregory Proofs.Forward Proofs.ForwardCount Proofs.Status Proofs.Conserve.
Import ListNotations.
Open Scope Z_scope.

Section Count.
Variable A : arith.
Variable S : Z.
Variable ZL : zlike A S.
Variable cfg : config.
Hypothesis Hmeth : cf_method cfg = MWigm.
Hypothesis Hex : exact A = false.
Hypothesis Hnb : 0 <= cf_nballots cfg.
Hypothesis Hns : 0 <= cf_nseats cfg.
Notation est := (est A).
Notation R := (@raw A S ZL).

Definition wf_profile (pr : profile) : Prop :=
  NoDup (map pc_cid (pr_cands pr)) /\
  forall m r, In (m, r) (pr_ballots pr) -> 0 <= m /\
    forall c, In c r -> exists pc, In pc (pr_cands pr) /\ pc_cid pc = c /\ pc_withdrawn pc = false.

Definition ballot_total (pr : profile) : Z :=
  fold_right (fun mr acc => (match snd mr with [] => 0 | _ => fst mr end) + acc) 0 (pr_ballots pr).

Definition greg_rule (r : rule) : Prop := r = RWigm \/ r = RWigmPrf \/ r = RScotland \/ r = RCfer \/ r = RMpls.

Definition add_cand (s : est) (p : pcand) : est :=
  let c := init_cand A p in
  let s' := set_cands s (cands s ++ [c])%list in
  log_msg A cfg ((if pc_withdrawn p then "Add withdrawn: "
                  else if pc_undeclared p then "Add undeclared: " else "Add eligible: ") ++ pc_name p) s'.

Lemma init_fold (pcs : list pcand) : forall s : est,
  let s' := fold_left add_cand pcs s in
  cands s' = (cands s ++ map (init_cand A) pcs)%list /\ ballots s' = ballots s /\
  (Forall (fun a => a_snap a = None) (actions s) -> Forall (fun a => a_snap a = None) (actions s')).
Proof.
  induction pcs as [|p pcs IH]; intros s; cbn [fold_left map].
  - rewrite app_nil_r. repeat split; auto.
  - destruct (IH (add_cand s p)) as (E1 & E2 & E3). cbv zeta in *. split; [|split].
    + rewrite E1. unfold add_cand, log_msg, log_action. cbn [is_log cands set_actions set_cands]. rewrite <- app_assoc. reflexivity.
    + rewrite E2. reflexivity.
    + intros H. apply E3. unfold add_cand, log_msg, log_action. cbn [is_log actions set_actions set_cands]. constructor; [reflexivity|exact H].
Qed.

Lemma init_round (pr : profile) : round (init_state A cfg pr) = 0.
Proof.
  unfold init_state. cbv zeta. cbn [round set_eballots set_ballots].
  match goal with |- round (fold_left ?f ?l ?s0) = 0 => change (round (fold_left f l s0) = round s0); generalize s0 end.
  induction (pr_cands pr) as [|p pcs IH]; intros s; cbn [fold_left]; [reflexivity|]. rewrite IH.
  unfold log_msg, log_action. cbn [is_log round set_actions set_cands]. reflexivity.
Qed.

Definition mk_ballots (l : list (Z * list Z)) : list (ballot A) :=
  flat_map (fun '(m, r) => match r with [] => [] | _ => [mkBallot (of_int A m) O (of_int A 1) (V0' A) r] end) l.

Lemma init_state_shape (pr : profile) :
  cands (init_state A cfg pr) = map (init_cand A) (pr_cands pr) /\
  ballots (init_state A cfg pr) = mk_ballots (pr_ballots pr) /\
  Forall (fun a => a_snap a = None) (actions (init_state A cfg pr)).
Proof.
  unfold init_state. cbv zeta. cbn [cands ballots actions set_eballots set_ballots].
  match goal with |- context[fold_left ?f (pr_cands pr) ?s0] => change (fold_left f (pr_cands pr) s0) with (fold_left add_cand (pr_cands pr) s0);
    destruct (init_fold (pr_cands pr) s0) as (E1 & E2 & E3) end.
  cbv zeta in *. split; [rewrite E1; reflexivity|]. split; [reflexivity|]. apply E3. constructor.
Qed.

Lemma bval_mk m r0 r : 0 <= m -> bval A S ZL (mkBallot (of_int A m) O (of_int A 1) (V0' A) (r0 :: r)) = S * m.
Proof.
  intros Hm. rewrite (bval_eq A S ZL _ m); cbn [bweight bmult]; rewrite (r_of_int A S ZL); lia.
Qed.

Lemma mk_ballots_facts (pr : profile) : wf_profile pr ->
  Forall (wfb A S ZL) (mk_ballots (pr_ballots pr)) /\
  bsum A S ZL (mk_ballots (pr_ballots pr)) = S * ballot_total pr /\
  (forall b, In b (mk_ballots (pr_ballots pr)) -> exists c pc, top_rank A b = Some c /\ In pc (pr_cands pr) /\ pc_cid pc = c /\ pc_withdrawn pc = false).
Proof.
  intros [_ Hb]. unfold ballot_total, mk_ballots. pose proof (S_pos A S ZL) as HS.
  induction (pr_ballots pr) as [|[m r] l IH]; cbn [flat_map fold_right fst snd].
  - split; [constructor|]. split; [cbn; lia|intros b []].
  - destruct IH as (I1 & I2 & I3); [intros m' r' H'; apply Hb; right; exact H'|].
    destruct (Hb m r (or_introl eq_refl)) as [Hm Hr]. destruct r as [|r0 r]; cbn [app]; [split; [exact I1|split; [rewrite I2; lia|exact I3]]|].
    split; [|split].
    + constructor; [|exact I1]. split; cbn [bweight bmult]; [rewrite (r_of_int A S ZL); lia|exists m; split; [exact Hm|apply (r_of_int A S ZL)]].
    + unfold bsum in *. cbn [fold_right]. rewrite I2, (bval_mk m r0 r Hm). lia.
    + intros b [<-|Hin]; [|exact (I3 b Hin)]. destruct (Hr r0 (or_introl eq_refl)) as (pc & Hpc & E1 & E2).
      exists r0, pc. repeat split; auto.
Qed.

Definition zero_votes (s : est) : est := set_cands s (map (fun c => with_vote c (V0' A)) (cands s)).

Lemma pre_init (pr : profile) : wf_profile pr ->
  Pre A S ZL (S * ballot_total pr) (zero_votes (init_state A cfg pr)).
Proof.
  intros Hwf. destruct (init_state_shape pr) as (Ec & Eb & Ea). destruct (mk_ballots_facts pr Hwf) as (F1 & F2 & F3).
  assert (HV0: R (V0' A) = 0) by (unfold V0'; rewrite (r_of_int A S ZL); lia).
  constructor; unfold zero_votes; cbn [cands ballots actions set_cands].
  - rewrite Ec, !map_map. cbn [cid with_vote init_cand]. exact (proj1 Hwf).
  - intros c Hc. apply in_map_iff in Hc. destruct Hc as (c0 & <- & _). exact HV0.
  - rewrite Eb. exact F1.
  - rewrite Eb, F2. lia.
  - intros c Hc. apply in_map_iff in Hc. destruct Hc as (c0 & <- & Hc0). rewrite Ec in Hc0. apply in_map_iff in Hc0. destruct Hc0 as (p & <- & _). unfold is_pending, in_state. cbn [cst cpend with_vote init_cand]. destruct (pc_withdrawn p); reflexivity.
  - intros c Hc Hw. apply in_map_iff in Hc. destruct Hc as (c0 & <- & Hc0). rewrite Ec in Hc0. apply in_map_iff in Hc0. destruct Hc0 as (p & <- & Hp).
    cbn [cid cst with_vote init_cand] in *. rewrite Eb.
    assert (Hz: forall bs, (forall b, In b bs -> In b (mk_ballots (pr_ballots pr))) -> stand A S ZL bs (pc_cid p) = 0).
    { induction bs as [|b bs IHb]; intros Hsub; [reflexivity|]. rewrite stand_cons, IHb; [|intros b' Hb'; apply Hsub; right; exact Hb'].
      destruct (F3 b (Hsub b (or_introl eq_refl))) as (c1 & pc & Et & Hpc & E1 & E2). unfold top_is. rewrite Et.
      destruct (c1 =? pc_cid p) eqn:E; [|reflexivity]. exfalso. assert (Heq: pc_cid pc = pc_cid p) by lia.
      assert (pc = p).
      { clear -Hwf Hpc Hp Heq. destruct Hwf as [Hnd _]. revert Hnd Hpc Hp Heq. generalize (pr_cands pr). induction l as [|y l IHl]; intros Hnd Hpc Hp Heq; [contradiction|].
        cbn [map] in Hnd. inversion Hnd as [|? ? Hn Hnd']; subst. destruct Hpc as [->|Hpc], Hp as [->|Hp]; auto.
        - exfalso. apply Hn. rewrite Heq. apply in_map. exact Hp.
        - exfalso. apply Hn. rewrite <- Heq. apply in_map. exact Hpc. }
      subst pc. destruct (pc_withdrawn p); discriminate. }
    apply Hz. auto.
  - eapply Forall_impl; [|exact Ea]. intros a Ha. unfold snap_ok. rewrite Ha. exact I.
Qed.

Notation GNb pr := (GN A S ZL (S * ballot_total pr)).

Lemma rule_triple r pr : greg_rule r ->
  triple est (@crashed A) (Pre A S ZL (S * ballot_total pr)) (rule_cmd A cfg r) (GNb pr) (GNb pr) (GNb pr).
Proof.
  intros [ -> | [ -> | [ -> | [ -> | -> ] ] ] ]; cbn [rule_cmd]; [apply wigm_triple|apply wigm_prf_triple|apply scotland_triple|apply cfer_triple|apply mpls_triple]; assumption.
Qed.

Theorem count_conserves r pr fuel s k : greg_rule r -> wf_profile pr ->
  exec (@crashed A) fuel (count_cmd A cfg r) (init_state A cfg pr) = Some (s, k) -> k <> Abort ->
  Good A S ZL (S * ballot_total pr) s /\ Forall (snap_ok A S ZL (S * ballot_total pr)) (actions s) /\ crashed s = false.
Proof.
  intros Hr Hwf He Hk.
  assert (Ht: triple est (@crashed A) (fun s0 => s0 = init_state A cfg pr) (count_cmd A cfg r) (GNb pr) (GNb pr) (GNb pr)).
  { unfold count_cmd. eapply t_seq with (M := Pre A S ZL (S * ballot_total pr)).
    - apply t_do. intros s0 ->. exact (pre_init pr Hwf).
    - eapply t_seq; [apply rule_triple; exact Hr|]. apply t_do_nc. intros s0 [H Hc] Hcf. split; [apply gh_log; assumption|exact Hcf]. }
  specialize (Ht fuel _ s k eq_refl He). destruct k; try (destruct Ht as [[G H] Hc]; auto). congruence.
Qed.


Corollary count_no_votes_created r pr fuel s k : greg_rule r -> wf_profile pr ->
  exec (@crashed A) fuel (count_cmd A cfg r) (init_state A cfg pr) = Some (s, k) -> k <> Abort ->
  (total A S ZL s <= S * ballot_total pr) /\
  (Forall (snap_ok A S ZL (S * ballot_total pr)) (actions s)) /\
  (forall c, In c (cands s) -> 0 <= R (cvote c)).
Proof.
  intros H1 H2 H3 H4. destruct (count_conserves r pr fuel s k H1 H2 H3 H4) as (G & H & _).
  split; [exact (g_total _ _ _ _ _ G)|]. split; [exact H|exact (g_nonneg _ _ _ _ _ G)].
Qed.

Corollary count_tally_is_standing r pr fuel s k : greg_rule r -> wf_profile pr ->
  exec (@crashed A) fuel (count_cmd A cfg r) (init_state A cfg pr) = Some (s, k) -> k <> Abort ->
  NoDup (map (@cid A) (cands s)) /\
  Forall (wfb A S ZL) (ballots s) /\
  (forall c, In c (cands s) ->
     R (cvote c) = stand A S ZL (ballots s) (cid c) \/ (cont A c = false /\ stand A S ZL (ballots s) (cid c) = 0)) /\
  (forall c, In c (cands s) -> is_pending A c = true -> R (quota s) <= R (cvote c)).
Proof.
  intros H1 H2 H3 H4. destruct (count_conserves r pr fuel s k H1 H2 H3 H4) as (G & _ & _).
  split; [exact (g_nd _ _ _ _ _ G)|]. split; [exact (g_wfb _ _ _ _ _ G)|]. split; [exact (g_tally _ _ _ _ _ G)|exact (g_pend _ _ _ _ _ G)].
Qed.


(* ---- seats are never over-committed (every Gregory rule: wigm, wigm-prf(-batch), scotland, mpls, cfer(-batch)) ---- *)
Definition seat_rule (r : rule) : Prop := r = RWigm \/ r = RWigmPrf \/ r = RScotland \/ r = RMpls \/ r = RCfer.

Lemma pre2_init (pr : profile) : wf_profile pr ->
  Pre2 A S ZL (S * ballot_total pr) (zero_votes (init_state A cfg pr)).
Proof.
  intros Hwf. split; [exact (pre_init pr Hwf)|]. destruct (init_state_shape pr) as (Ec & _ & _).
  unfold zero_votes. cbn [cands set_cands]. intros c Hc. apply in_map_iff in Hc. destruct Hc as (c0 & <- & Hc0). rewrite Ec in Hc0.
  apply in_map_iff in Hc0. destruct Hc0 as (p & <- & _). cbn [cst with_vote init_cand]. destruct (pc_withdrawn p); discriminate.
Qed.

Theorem count_seats r pr fuel s k : seat_rule r -> wf_profile pr -> cf_nballots cfg = ballot_total pr ->
  exec (@crashed A) fuel (count_cmd A cfg r) (init_state A cfg pr) = Some (s, k) -> k <> Abort ->
  nlen (electeds A s) <= cf_nseats cfg.
Proof.
  intros Hr Hwf Hnbt He Hk.
  assert (HB: S * ballot_total pr = cf_nballots cfg * S) by (rewrite Hnbt; lia).
  set (Bv := S * ballot_total pr) in *.
  assert (Ht: triple est (@crashed A) (fun s0 => s0 = init_state A cfg pr) (count_cmd A cfg r)
                (SeatsOK A S ZL cfg Bv) (SeatsOK A S ZL cfg Bv) (SeatsOK A S ZL cfg Bv)).
  { unfold count_cmd. eapply t_seq with (M := Pre3 A S ZL Bv).
    - apply t_do. intros s0 ->. split; [exact (pre2_init pr Hwf)|]. unfold zero_votes. cbn [round set_cands]. apply init_round.
    - eapply t_seq.
      + destruct Hr as [ -> | [ -> | [ -> | [ -> | -> ] ] ] ]; cbn [rule_cmd];
        [eapply t_pre; [|apply wigm_seats]|eapply t_pre; [|apply wigm_prf_seats]|eapply t_pre; [|apply scotland_seats]|eapply t_pre; [|apply mpls_seats]|apply cfer_seats];
        try assumption; intros s0 [Hs0 _]; exact Hs0.
      + apply t_do_nc. intros s0 [[H Hc] Hn] Hcf. split; [split; [apply gh_log; assumption|exact Hcf]|]. rewrite cands_log. exact Hn. }
  specialize (Ht fuel _ s k eq_refl He). destruct k; try (destruct Ht as [_ Hn]; exact Hn). congruence.
Qed.


(* ---- ... and in every recorded snapshot: statuses only move forward, so no snapshot shows more winners than the end ---- *)
Definition nel_sts (x : sts) : Z := nlen (filter (fun a => match fst (snd a) with Elected => true | _ => false end) x).
Lemma fwdl_nel x y : FwdL x y -> nel_sts x <= nel_sts y.
Proof.
  unfold nel_sts, nlen. induction 1 as [|a b x y [_ F] _ IH]; [cbn; lia|]. cbn [filter].
  destruct a as [ia [sa pa]], b as [ib [sb pb]]. cbn [fst snd] in *. unfold fwd in F. cbn [fst snd] in F.
  destruct sa, sb; try contradiction; cbn [List.length]; lia.
Qed.
Lemma nel_stl (l : list (cand A)) : nel_sts (stl A l) = nlen (filter (in_state A Elected) l).
Proof.
  unfold nel_sts, nlen, stl. induction l as [|c l IH]; [reflexivity|]. cbn [map filter fst snd]. unfold in_state at 1.
  destruct (cst c); cbn [cstate_eqb List.length]; lia.
Qed.

Theorem count_seats_every_snapshot r pr fuel s : seat_rule r -> wf_profile pr -> cf_nballots cfg = ballot_total pr ->
  exec (@crashed A) fuel (count_cmd A cfg r) (init_state A cfg pr) = Some (s, Next) ->
  Forall (fun sn => nel_sts (ssn A sn) <= cf_nseats cfg) (snaps A (actions s)).
Proof.
  intros Hr Hwf Hnbt He.
  assert (Hfin: nlen (electeds A s) <= cf_nseats cfg) by (apply (count_seats r pr fuel s Next Hr Hwf Hnbt He); discriminate).
  assert (Hnq: not_qpq r) by (destruct Hr as [ -> | [ -> | [ -> | [ -> | -> ] ] ] ]; exact I).
  destruct (count_forward A cfg r pr fuel s Hnq (proj1 Hwf) He) as (_ & Hall & _).
  eapply Forall_impl; [|exact Hall]. intros sn [_ Hf]. pose proof (fwdl_nel _ _ Hf) as Hle. rewrite nel_stl in Hle. unfold electeds in Hfin. lia.
Qed.

End Count.
