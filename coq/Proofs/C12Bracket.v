(* C12 -- what "rounded" means in terms of exact values, independently of Qfloor:
   a result rounded down is the greatest value of the class not above the exact result,
   a result rounded up is the least value of the class not below it; and the product
   does not depend on the order of its operands. *)
From Coq Require Import ZArith QArith Qround Qabs List Bool Lia Lqa String.
From Droop Require Import Model.KernelBase Model.Arith Gen.FixedKernels Proofs.ArithLemmas Proofs.C12Proofs.
Open Scope Z_scope.

Lemma valQ_le S a b : 0 < S -> (valQ S a <= valQ S b)%Q <-> a <= b.
Proof.
  intros HS. split; intros H.
  - destruct (Z_le_gt_dec a b) as [L|G]; [exact L|].
    exfalso. assert (b < a) as G' by lia. apply (valQ_lt S b a HS) in G'.
    apply (Qlt_not_le _ _ G'). exact H.
  - destruct (Z.eq_dec a b) as [->|N]; [apply Qle_refl|].
    apply Qlt_le_weak. apply (valQ_lt S a b HS). lia.
Qed.

Lemma valQ_scale S n : S <> 0 -> (valQ S n * inject_Z S == inject_Z n)%Q.
Proof. intros HS. unfold valQ. field. apply inject_Z_nonzero; exact HS. Qed.

Lemma scale_pos S : 0 < S -> (0 < inject_Z S)%Q.
Proof. intros HS. change 0%Q with (inject_Z 0). rewrite <- Zlt_Qlt. exact HS. Qed.

(* valQ S n <= x  <->  n <= x * S, and strict *)
Lemma valQ_le_iff S n x : 0 < S -> (valQ S n <= x)%Q <-> (inject_Z n <= x * inject_Z S)%Q.
Proof.
  intros HS. pose proof (scale_pos S HS) as HP.
  rewrite <- (valQ_scale S n) by lia. split; intros H.
  - apply Qmult_le_compat_r; [exact H|apply Qlt_le_weak; exact HP].
  - apply (Qmult_le_r _ _ (inject_Z S)); assumption.
Qed.
Lemma valQ_ge_iff S n x : 0 < S -> (x <= valQ S n)%Q <-> (x * inject_Z S <= inject_Z n)%Q.
Proof.
  intros HS. pose proof (scale_pos S HS) as HP.
  rewrite <- (valQ_scale S n) by lia. split; intros H.
  - apply Qmult_le_compat_r; [exact H|apply Qlt_le_weak; exact HP].
  - apply (Qmult_le_r _ _ (inject_Z S)); assumption.
Qed.

(* the floor at p places is the greatest raw value not above x *)
Lemma floor_at_below S x : 0 < S -> (valQ S (floor_at S x) <= x)%Q.
Proof. intros HS. apply valQ_le_iff; [exact HS|]. unfold floor_at. apply Qfloor_le. Qed.
Lemma floor_at_greatest S x n : 0 < S -> (valQ S n <= x)%Q -> n <= floor_at S x.
Proof.
  intros HS H. apply valQ_le_iff in H; [|exact HS]. unfold floor_at.
  rewrite <- (Qfloor_Z n). apply Qfloor_resp_le. exact H.
Qed.
Lemma floor_at_next_above S x : 0 < S -> (x < valQ S (floor_at S x + 1))%Q.
Proof.
  intros HS. apply Qnot_le_lt. intros H.
  pose proof (floor_at_greatest S x _ HS H). lia.
Qed.

Section Bracket.
Variables (st : fixed_cls) (p : Z).
Hypothesis Hok : fixed_state_ok st p.
Let S := f_scale st.
Let HSp : 0 < S := HSpos st p Hok.

(* rounded down: the greatest value of the class that does not exceed the exact result *)
Lemma c12_down_greatest x res : rounded st RDown x res ->
  (valQ S res <= x)%Q /\ (x < valQ S (res + 1))%Q /\ (forall n, (valQ S n <= x)%Q -> n <= res).
Proof.
  cbn [rounded]. intros ->. fold S. split; [|split].
  - apply floor_at_below; exact HSp.
  - apply floor_at_next_above; exact HSp.
  - intros n; apply floor_at_greatest; exact HSp.
Qed.

(* rounded up: the least value of the class that is not below the exact result *)
Lemma c12_up_least x res : rounded st RUp x res ->
  (x <= valQ S res)%Q /\ (valQ S (res - 1) < x)%Q /\ (forall n, (x <= valQ S n)%Q -> res <= n).
Proof.
  cbn [rounded]. fold S. intros [He Hn].
  assert (D: exact_at S x \/ ~ exact_at S x).
  { unfold exact_at. destruct (Qeq_dec (inject_Z (floor_at S x)) (x * inject_Z S)); [left|right]; assumption. }
  destruct D as [E|N].
  - rewrite (He E). unfold exact_at in E.
    assert (V: (valQ S (floor_at S x) == x)%Q).
    { apply Qle_antisym; [apply floor_at_below; exact HSp|].
      apply valQ_ge_iff; [exact HSp|]. rewrite E. apply Qle_refl. }
    split; [|split].
    + rewrite V. apply Qle_refl.
    + apply (Qlt_le_trans _ (valQ S (floor_at S x))); [apply (valQ_lt S _ _ HSp); lia|rewrite V; apply Qle_refl].
    + intros n H. apply (valQ_le S _ _ HSp). apply (Qle_trans _ x); [rewrite V; apply Qle_refl|exact H].
  - rewrite (Hn N). split; [|split].
    + apply Qlt_le_weak. apply floor_at_next_above; exact HSp.
    + replace (floor_at S x + 1 - 1) with (floor_at S x) by lia.
      destruct (Qlt_le_dec (valQ S (floor_at S x)) x) as [L|G]; [exact L|].
      exfalso. apply N. unfold exact_at.
      apply Qle_antisym; [unfold floor_at; apply Qfloor_le|].
      apply valQ_ge_iff; [exact HSp|exact G].
    + intros n H.
      destruct (Z_le_gt_dec (floor_at S x + 1) n) as [L|G]; [exact L|].
      exfalso. assert (Hle: n <= floor_at S x) by lia.
      apply (valQ_le S _ _ HSp) in Hle.
      assert (V: (valQ S (floor_at S x) == x)%Q).
      { apply Qle_antisym; [apply floor_at_below; exact HSp|]. eapply Qle_trans; eassumption. }
      apply N. unfold exact_at. rewrite <- (valQ_scale S (floor_at S x)) by lia. rewrite V. reflexivity.
Qed.

(* the rounding error of either direction is below one unit of the last place *)
Lemma c12_error_below_unit r x res : r = RUp \/ r = RDown -> rounded st r x res ->
  (Qabs (valQ S res - x) < valQ S 1)%Q.
Proof.
  intros [->| ->] H.
  - destruct (c12_up_least x res H) as (A & B & _).
    assert (E: (valQ S (res - 1) == valQ S res - valQ S 1)%Q) by (apply valQ_sub; lia).
    rewrite E in B. apply Qabs_Qlt_condition. split; lra.
  - destruct (c12_down_greatest x res H) as (A & B & _).
    assert (E: (valQ S (res + 1) == valQ S res + valQ S 1)%Q) by (apply valQ_add; lia).
    rewrite E in B. apply Qabs_Qlt_condition. split; lra.
Qed.

(* operand order: the product and the fused multiply-divide do not depend on it *)
Lemma c12_mul_comm a b r : r = RUp \/ r = RDown ->
  mul st (OVal a) (OVal b) r = mul st (OVal b) (OVal a) r.
Proof. intros Hr. rewrite !(mul_k st) by (try exact Hr; exact (ok_scale st p Hok)). rewrite (Z.mul_comm b a). reflexivity. Qed.
Lemma c12_muldiv_comm a b c r : r = RUp \/ r = RDown -> c <> 0 ->
  muldiv st (OVal a) (OVal b) (OVal c) r = muldiv st (OVal b) (OVal a) (OVal c) r.
Proof. intros Hr Hc. rewrite !(muldiv_k st) by assumption. rewrite (Z.mul_comm b a). reflexivity. Qed.
Lemma c12_operand_order a b c r : r = RUp \/ r = RDown ->
  mul st (OVal a) (OVal b) r = mul st (OVal b) (OVal a) r /\
  (c <> 0 -> muldiv st (OVal a) (OVal b) (OVal c) r = muldiv st (OVal b) (OVal a) (OVal c) r).
Proof. intros Hr. split; [apply c12_mul_comm; exact Hr|apply c12_muldiv_comm; exact Hr]. Qed.
End Bracket.
