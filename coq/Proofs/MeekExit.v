(* C08, whole run, meek and warren, every arithmetic: iterations stop only when converged.
   In the record of a count (actions newest first):
   - an 'iterate' action "Iterate (omega)" shows a total surplus not above omega;
   - an 'iterate' action "Iterate (stable)" comes right after the log line "Stable state detected (...)";
   - every exclusion other than the closing "Defeat remaining" is preceded, within its round, by the 'iterate' action that
     closed the round's iteration, and that action says omega, stable or batch (a batch of sure losers). *)
From Coq Require Import ZArith List Bool String Lia.
From Droop Require Import Model.KernelBase Model.Str Model.Arith Model.Prelude Model.State Model.Prims
  Model.RulesMeek Model.Election Proofs.CmdMeta Proofs.QHist Proofs.Audit Proofs.ConserveCount.
Import ListNotations.
Open Scope Z_scope.
Open Scope string_scope.

Section MeekExit.
Variable A : arith.
Variable cfg : config.
Notation est := (est A).
Notation action := (action A).

Definition converged_msg (m : string) : bool :=
  String.eqb m "Iterate (omega)" || String.eqb m "Iterate (stable)" || String.eqb m "Iterate (batch)".
Fixpoint last_iter (l : list action) : option string :=
  match l with
  | [] => None
  | a :: t => match a_tag a with TIterate => Some (a_msg a) | TRound => None | _ => last_iter t end
  end.
Definition is_remaining (m : string) : bool := prefix "Defeat remaining" m.
Definition oka (a : action) (older : list action) : Prop :=
  match a_tag a with
  | TIterate =>
    (a_msg a = "Iterate (omega)" -> exists sn sp, a_snap a = Some sn /\ as_surplus sn = Some sp /\ lev A sp (omega_or0 A cfg) = true) /\
    (a_msg a = "Iterate (stable)" -> exists b t, older = b :: t /\ a_tag b = TLog /\ prefix "Stable state detected (" (a_msg b) = true)
  | TDefeat => is_remaining (a_msg a) = true \/ exists m, last_iter older = Some m /\ converged_msg m = true
  | _ => True
  end.
Fixpoint HI (l : list action) : Prop := match l with [] => True | a :: t => oka a t /\ HI t end.

Definition quiet (a : action) : Prop := match a_tag a with TIterate | TDefeat | TRound => False | _ => True end.
Definition QE (s s' : est) : Prop := exists l, actions s' = (l ++ actions s)%list /\ Forall quiet l.
Lemma qe_refl s : QE s s. Proof. exists []. split; [reflexivity|constructor]. Qed.
Lemma qe_trans a b c : QE a b -> QE b c -> QE a c.
Proof. intros (l1 & E1 & F1) (l2 & E2 & F2). exists (l2 ++ l1)%list. split; [rewrite E2, E1, app_assoc; reflexivity|apply Forall_app; split; assumption]. Qed.
Lemma qe_same (s s' : est) : actions s' = actions s -> QE s s'.
Proof. intros E. exists []. split; [exact E|constructor]. Qed.

Lemma hi_quiet (l old : list action) : Forall quiet l -> HI old -> HI (l ++ old).
Proof.
  induction 1 as [|a l Ha _ IH]; intros H; cbn [app HI]; [exact H|]. split; [|apply IH; exact H].
  unfold oka. unfold quiet in Ha. destruct (a_tag a); try exact I; contradiction.
Qed.
Lemma li_quiet (l old : list action) : Forall quiet l -> last_iter (l ++ old) = last_iter old.
Proof.
  induction 1 as [|a l Ha _ IH]; cbn [app last_iter]; [reflexivity|]. unfold quiet in Ha. destruct (a_tag a); try exact IH; contradiction.
Qed.
Lemma qe_hi s s' : QE s s' -> HI (actions s) -> HI (actions s').
Proof. intros (l & E & F) H. rewrite E. apply hi_quiet; assumption. Qed.
Lemma qe_li s s' : QE s s' -> last_iter (actions s') = last_iter (actions s).
Proof. intros (l & E & F). rewrite E. apply li_quiet; assumption. Qed.

(* ---- operations that are quiet ---- *)
Lemma qe_log t m (s : est) : match t with TIterate | TDefeat | TRound => False | _ => True end -> QE s (log_action A cfg t m s).
Proof.
  intros Ht. unfold log_action. destruct (is_log t).
  - eexists [_]. split; [reflexivity|]. constructor; [exact Ht|constructor].
  - destruct (is_round t); eexists [_]; (split; [reflexivity|]); (constructor; [exact Ht|constructor]).
Qed.
Lemma qe_elect i m p (s : est) : QE s (elect A cfg i m p s).
Proof.
  unfold elect. destruct (find_cand A (cands s) i); [|apply qe_same; reflexivity].
  eapply qe_trans; [|apply qe_log; exact I]. apply qe_same. reflexivity.
Qed.
Lemma qe_fold {X} (g : est -> X -> est) (l : list X) : (forall s x, QE s (g s x)) -> forall s, QE s (fold_left g l s).
Proof. intros Hg. induction l as [|x l IH]; intros s; cbn [fold_left]; [apply qe_refl|]. eapply qe_trans; [apply Hg|apply IH]. Qed.
Lemma qe_break_tie fmt tied (s : est) : QE s (fst (break_tie A cfg fmt tied s)).
Proof.
  unfold break_tie. destruct tied as [|c [|c2 t]]; cbn [fst]; [apply qe_same; reflexivity|apply qe_refl|].
  destruct (by_tie A (c :: c2 :: t)); cbn [fst]; [apply qe_same; reflexivity|apply qe_log; exact I].
Qed.

Lemma actions_set_quota_r (s : est) q : actions (set_quota_r A s q) = actions s.
Proof. unfold set_quota_r. destruct q; reflexivity. Qed.
Lemma actions_zero_cand i (s : est) : actions (zero_cand A i s) = actions s.
Proof. reflexivity. Qed.
Lemma actions_distribute (s : est) : actions (distribute_votes A cfg s) = actions s.
Proof.
  unfold distribute_votes. cbv zeta.
  match goal with |- context[fold_left ?f (ballots ?s0) ?i] => destruct (fold_left f (ballots s0) i) as [[cs r] bs] end.
  rewrite actions_fold; [reflexivity|]. intros t eb. destruct (crashed t); [reflexivity|].
  destruct (dist_eq _ _ _ _ _ _ _) as [[cs' br]|]; reflexivity.
Qed.
Lemma actions_update_kfs cl (s : est) : actions (update_kfs A cl s) = actions s.
Proof.
  unfold update_kfs. apply actions_fold. intros t c. destruct (crashed t); [reflexivity|]. destruct (kdiv A _ _ _); reflexivity.
Qed.

(* ---- exclusions ---- *)
Lemma actions_defeat i m (s : est) :
  actions (defeat A cfg i m s) = actions s \/
  exists (c : cand A) sn, actions (defeat A cfg i m s) = mkAction TDefeat (m ++ ": " ++ cname c) (round s) (Some sn) :: actions s.
Proof.
  unfold defeat. destruct (find_cand A (cands s) i) as [c|]; [|left; reflexivity]. right. exists c. eexists. reflexivity.
Qed.
Lemma hi_defeat_remaining i (s : est) : HI (actions s) -> HI (actions (defeat A cfg i "Defeat remaining" s)).
Proof.
  intros H. destruct (actions_defeat i "Defeat remaining" s) as [E|(c & sn & E)]; rewrite E; [exact H|].
  cbn [HI]. split; [|exact H]. unfold oka. cbn [a_tag a_msg]. left. reflexivity.
Qed.
Lemma hi_defeat_conv i m x (s : est) : HI (actions s) -> last_iter (actions s) = Some x -> converged_msg x = true ->
  HI (actions (defeat A cfg i m s)) /\ last_iter (actions (defeat A cfg i m s)) = Some x.
Proof.
  intros H L C. destruct (actions_defeat i m s) as [E|(c & sn & E)]; rewrite E; [split; assumption|].
  cbn [HI last_iter a_tag]. split; [|exact L]. split; [|exact H]. unfold oka. cbn [a_tag]. right. exists x. split; assumption.
Qed.

Definition K (x : string) (s : est) : Prop := HI (actions s) /\ last_iter (actions s) = Some x.
Lemma k_same x (s s' : est) : actions s' = actions s -> K x s -> K x s'.
Proof. intros E [H L]. split; rewrite E; assumption. Qed.

Lemma hi_defeat_batch x (s : est) : converged_msg x = true -> K x s -> K x (meek_defeat_batch A cfg s).
Proof.
  intros C. unfold meek_defeat_batch. generalize (by_order A (cands_of' A s (lv_batch s))) as l. intros l. revert s.
  induction l as [|c l IH]; intros s Hk; cbn [fold_left]; [exact Hk|]. apply IH.
  destruct (crashed s); [exact Hk|]. destruct Hk as [H L].
  apply (k_same x (defeat A cfg (cid c) "Defeat certain loser" s)); [rewrite actions_distribute; reflexivity|].
  exact (hi_defeat_conv _ _ x s H L C).
Qed.

Lemma hi_defeat_low x fmt rd (s : est) : converged_msg x = true -> K x s -> HI (actions (meek_defeat_low A cfg fmt rd s)).
Proof.
  intros C [H L]. unfold meek_defeat_low. destruct (low_within_surplus A s) as [lows|]; [|exact H].
  pose proof (qe_break_tie fmt lows s) as Q.
  destruct (break_tie A cfg fmt lows s) as [s1 [l|]]; cbn [fst] in Q; [|exact (qe_hi _ _ Q H)]. cbv zeta.
  pose proof (qe_hi _ _ Q H) as H1. assert (L1: last_iter (actions s1) = Some x) by (rewrite (qe_li _ _ Q); exact L).
  match goal with |- context[defeat A cfg l ?m s1] => destruct (hi_defeat_conv l m x s1 H1 L1 C) as [H2 _]; set (s2 := defeat A cfg l m s1) in * end.
  destruct (crashed (zero_cand A l s2)); [exact H2|]. destruct rd; [rewrite actions_distribute|]; exact H2.
Qed.

Lemma hi_final rd (s : est) : HI (actions s) -> HI (actions (meek_final A cfg rd s)).
Proof.
  intros H. unfold meek_final. cbv zeta. cbn [actions set_residual set_votes].
  generalize (hopefuls A s) as l. intros l. revert s H. induction l as [|c l IH]; intros s H; cbn [fold_left]; [exact H|]. apply IH.
  destruct (crashed s); [exact H|].
  assert (H1: HI (actions (if (nlen (electeds A s) <? cf_nseats cfg)%Z then elect A cfg (cid c) "Elect remaining" false s
                           else zero_cand A (cid c) (defeat A cfg (cid c) "Defeat remaining" s)))).
  { destruct (_ <? _)%Z; [exact (qe_hi _ _ (qe_elect _ _ _ s) H)|]. apply hi_defeat_remaining. exact H. }
  destruct rd; [rewrite actions_distribute|]; exact H1.
Qed.

Lemma qe_iter_head (s : est) : QE s (meek_iter_head A cfg s).
Proof.
  unfold meek_iter_head. cbv zeta. destruct (crashed (distribute_votes A cfg s)); [apply qe_same, actions_distribute|].
  match goal with |- context[set_quota_r A ?a ?b] => assert (E3: actions (set_quota_r A a b) = actions s)
    by (rewrite actions_set_quota_r; cbn [actions set_votes]; apply actions_distribute); set (s3 := set_quota_r A a b) in * end.
  destruct (crashed s3); [apply qe_same; exact E3|].
  eapply qe_trans; [apply qe_same; exact E3|]. eapply qe_trans; [|apply qe_same; reflexivity].
  apply (qe_fold (fun s c => set_status (elect A cfg (cid c) "Elect" false s) IS_elected)). intros s0 c.
  eapply qe_trans; [apply qe_elect|apply qe_same; reflexivity].
Qed.


Lemma prefix_app (p x : string) : prefix p (p ++ x) = true.
Proof.
  induction p as [|a p IH]; cbn [append prefix]; [destruct x; reflexivity|].
  destruct (Ascii.ascii_dec a a) as [_|N]; [exact IH|contradiction].
Qed.

(* ---- the iteration loop ---- *)
Local Open Scope cmd_scope.
Notation T3 := (triple est (@crashed A)).
Hypothesis Hm : cf_method cfg = MMeek.

Definition J (s : est) : Prop := HI (actions s).
Definition ST (s : est) : Prop :=
  (lv_status s = 1 \/ lv_status s = 2 \/ lv_status s = 3 \/ lv_status s = 4)%Z /\
  (lv_status s = 1%Z -> lev A (surplus s) (omega_or0 A cfg) = true) /\
  (lv_status s = 4%Z -> exists b t, actions s = b :: t /\ a_tag b = TLog /\ prefix "Stable state detected (" (a_msg b) = true).
Definition X (s : est) : Prop := J s /\ ST s.

Lemma iterate_t (Qb Qc : est -> Prop) : T3 J (meek_iterate A cfg) X Qb Qc.
Proof.
  unfold meek_iterate. eapply t_seq with (M := J); [apply t_do; intros s H; exact H|].
  eapply t_post; [|apply (t_while est (@crashed A) J X)]; [intros s [Hs|[_ Hg]]; [exact Hs|discriminate]|].
  eapply t_pre; [intros s [Hs _]; exact Hs|].
  eapply t_seq with (M := J); [apply t_do; intros s H; exact (qe_hi _ _ (qe_iter_head s) H)|].
  eapply t_seq with (M := J).
  { apply t_ite; [|apply t_skip'; intros s [Hs _]; exact Hs]. apply t_break'. intros s [H Hg]. split; [exact H|].
    assert (E: lv_status s = 3%Z) by (unfold IS_elected in Hg; lia). unfold ST. rewrite E. split; [lia|]. split; intros; lia. }
  eapply t_seq with (M := J).
  { apply t_ite; [|apply t_skip'; intros s [Hs _]; exact Hs]. eapply t_seq with (M := X); [|apply t_break'; auto].
    apply t_do. intros s [H Hg]. split; [exact H|]. unfold ST. cbn [lv_status set_status surplus actions]. unfold IS_omega.
    split; [lia|]. split; [intros _; exact Hg|intros; lia]. }
  eapply t_seq with (M := J).
  { apply t_ite; [|apply t_skip'; intros s [Hs _]; exact Hs]. eapply t_seq with (M := X); [|apply t_break'; auto].
    apply t_do. intros s [H Hg]. unfold log_msg, log_action. cbn [is_log]. split.
    - unfold J. cbn [actions set_status set_actions HI]. split; [exact I|exact H].
    - unfold ST. cbn [lv_status set_status set_actions actions]. unfold IS_stable. split; [lia|]. split; [intros; lia|].
      intros _. eexists; eexists. split; [reflexivity|]. split; [reflexivity|]. cbn [a_msg]. apply prefix_app. }
  eapply t_seq with (M := J); [apply t_do; intros s H; exact H|].
  eapply t_seq with (M := J).
  { apply t_ite; [|apply t_skip'; intros s [Hs _]; exact Hs]. eapply t_seq with (M := X); [|apply t_break'; auto].
    apply t_do. intros s [H Hg]. split; [exact H|]. unfold ST. cbn [lv_status set_status surplus actions]. unfold IS_batch.
    split; [lia|]. split; intros; lia. }
  apply t_do. intros s H. unfold J. rewrite actions_update_kfs. exact H.
Qed.

Definition iter_msg (z : Z) : string := "Iterate (" ++ status_name z ++ ")".
Definition L (s : est) : Prop :=
  J s /\ (lv_status s = 1 \/ lv_status s = 2 \/ lv_status s = 3 \/ lv_status s = 4)%Z /\ last_iter (actions s) = Some (iter_msg (lv_status s)).

Lemma log_iter_t (Qb Qc : est -> Prop) :
  T3 X (Do (fun s => log_action A cfg TIterate ("Iterate (" ++ status_name (lv_status s) ++ ")") s)) L Qb Qc.
Proof.
  apply t_do. intros s [H (Hst & Hom & Hsb)]. unfold log_action. cbn [is_log is_round].
  split; [|split; [exact Hst|reflexivity]].
  unfold J. cbn [actions set_actions HI]. split; [|exact H]. unfold oka. cbn [a_tag a_msg a_snap]. split.
  - intros Em. assert (E1: lv_status s = 1%Z).
    { destruct Hst as [E|[E|[E|E]]]; rewrite E in Em; [exact E|cbn in Em; discriminate|cbn in Em; discriminate|cbn in Em; discriminate]. }
    eexists; eexists. split; [reflexivity|]. unfold snap_of. cbn [as_surplus]. rewrite Hm. split; [reflexivity|exact (Hom E1)].
  - intros Em. assert (E4: lv_status s = 4%Z).
    { destruct Hst as [E|[E|[E|E]]]; rewrite E in Em; [cbn in Em; discriminate|cbn in Em; discriminate|cbn in Em; discriminate|exact E]. }
    exact (Hsb E4).
Qed.

Lemma new_round_j (s : est) : J s -> J (new_round A cfg s).
Proof. intros H. unfold J, new_round, log_action. cbn [is_log is_round actions set_actions set_rounds set_round HI]. split; [exact I|exact H]. Qed.

Lemma begin_qe (s : est) : QE s (match omega A cfg with
        | Raise e => set_crash s e
        | Ok _ =>
          let s1 := set_votes s (of_int A (cf_nballots cfg)) in
          let s2 := set_quota_r A s1 (meek_quota A cfg s1) in
          if crashed s2 then s2 else
          log_action A cfg TBegin "Begin Count" (meek_first_prefs A (init_kfs A s2))
        end).
Proof.
  destruct (omega A cfg); [|apply qe_same; reflexivity]. cbv zeta.
  match goal with |- context[set_quota_r A ?a ?b] => assert (E2: actions (set_quota_r A a b) = actions s) by (rewrite actions_set_quota_r; reflexivity); set (s2 := set_quota_r A a b) in * end.
  destruct (crashed s2); [apply qe_same; exact E2|].
  eapply qe_trans; [|apply qe_log; exact I]. apply qe_same. rewrite actions_first_prefs. unfold init_kfs. cbn [actions set_cands]. exact E2.
Qed.

Theorem meek_exits : T3 J (meek A cfg) J J J.
Proof.
  unfold meek. eapply t_seq with (M := J); [apply t_do; intros s H; exact (qe_hi _ _ (begin_qe s) H)|].
  eapply t_seq with (M := J); [|apply t_do; intros s H; apply hi_final; exact H].
  eapply t_post; [|apply (t_while est (@crashed A) J J)]; [intros s [Hs|[Hs _]]; exact Hs|].
  eapply t_pre; [intros s [Hs _]; exact Hs|].
  eapply t_seq with (M := J); [apply t_do; intros s H; apply new_round_j; exact H|].
  eapply t_seq with (M := X); [apply iterate_t|].
  eapply t_seq with (M := L); [apply log_iter_t|].
  eapply t_seq with (M := fun s => L s /\ (lv_status s =? IS_elected)%Z = false).
  { apply t_ite; [apply t_continue'; intros s [[H _] _]; exact H|apply t_skip'; intros s Hs; exact Hs]. }
  eapply t_seq with (M := fun s => L s /\ lv_status s <> 2%Z /\ lv_status s <> 3%Z).
  { apply t_ite.
    - eapply t_seq with (M := J); [|apply t_continue'; auto].
      apply t_do. intros s [[[H [Hst HL]] Hg3] Hg]. assert (E: lv_status s = 2%Z) by (unfold IS_batch in Hg; lia).
      rewrite E in HL. exact (proj1 (hi_defeat_batch (iter_msg 2) s eq_refl (conj H HL))).
    - apply t_skip'. intros s [[Hl Hg3] Hg]. split; [exact Hl|]. unfold IS_batch, IS_elected in *. split; lia. }
  apply t_ite; [|apply t_skip'; intros s [[[H _] _] _]; exact H].
  apply t_do. intros s [[[H [Hst HL]] [N2 N3]] _].
  assert (C: converged_msg (iter_msg (lv_status s)) = true) by (destruct Hst as [E|[E|[E|E]]]; rewrite E; try reflexivity; lia).
  exact (hi_defeat_low _ _ true s C (conj H HL)).
Qed.

(* ---- the whole count ---- *)
Lemma hi_init (pr : profile) : HI (actions (init_state A cfg pr)).
Proof.
  unfold init_state. cbv zeta. cbn [actions set_eballots set_ballots].
  match goal with |- HI (actions (fold_left ?f ?l ?s0)) => assert (G: forall s, HI (actions s) -> HI (actions (fold_left f l s))) end.
  { induction (pr_cands pr) as [|p pcs IH]; intros s H; cbn [fold_left]; [exact H|]. apply IH.
    unfold log_msg, log_action. cbn [is_log actions set_actions set_cands HI]. split; [exact I|exact H]. }
  apply G. exact I.
Qed.

Theorem count_meek_exits pr fuel s k :
  exec (@crashed A) fuel (count_cmd A cfg RMeek) (init_state A cfg pr) = Some (s, k) -> k <> Abort ->
  forall pre a older, actions s = (pre ++ a :: older)%list -> oka a older.
Proof.
  intros He Hk.
  assert (Ht: T3 (fun s0 => s0 = init_state A cfg pr) (count_cmd A cfg RMeek) J J J).
  { unfold count_cmd. cbn [rule_cmd]. eapply t_seq with (M := J); [apply t_do; intros s0 ->; exact (hi_init pr)|].
    eapply t_seq with (M := J); [apply meek_exits|]. apply t_do. intros s0 H. exact (qe_hi _ _ (qe_log TEnd _ s0 I) H). }
  specialize (Ht fuel _ s k eq_refl He). assert (H: J s) by (destruct k; try exact Ht; congruence). unfold J in H.
  intros pre. revert H. generalize (actions s). induction pre as [|x pre IH]; intros l H a older E; subst l; cbn [app HI] in H; [exact (proj1 H)|].
  exact (IH _ (proj2 H) a older eq_refl).
Qed.

Theorem count_meek_exits_spelled pr fuel s k :
  exec (@crashed A) fuel (count_cmd A cfg RMeek) (init_state A cfg pr) = Some (s, k) -> k <> Abort ->
  forall pre a older, actions s = (pre ++ a :: older)%list ->
  (a_tag a = TIterate -> a_msg a = "Iterate (omega)" ->
     exists sn sp, a_snap a = Some sn /\ as_surplus sn = Some sp /\ lev A sp (omega_or0 A cfg) = true) /\
  (a_tag a = TIterate -> a_msg a = "Iterate (stable)" ->
     exists b t, older = b :: t /\ a_tag b = TLog /\ prefix "Stable state detected (" (a_msg b) = true) /\
  (a_tag a = TDefeat -> is_remaining (a_msg a) = true \/ exists m, last_iter older = Some m /\ converged_msg m = true).
Proof.
  intros He Hk pre a older E. pose proof (count_meek_exits pr fuel s k He Hk pre a older E) as O. unfold oka in O.
  split; [|split]; intros Ht; rewrite Ht in O; [exact (proj1 O)|exact (proj2 O)|exact O].
Qed.

End MeekExit.

(* ================================================================== meek-prf (PRF reference Meek rule) ==================
   It logs no 'iterate' actions; the exclusion message itself says why the iteration ended.  Every exclusion other than the
   closing "Defeat remaining" is either "Defeat (surplus X < omega)" with a recorded total surplus below omega, or
   "Defeat (stable surplus X)" with the log line "Stable state detected (...)" earlier in the same round. *)
Section PrfExit.
Variable A : arith.
Variable cfg : config.
Notation est := (est A).
Notation action := (action A).
Hypothesis Hm : cf_method cfg = MMeek.
Local Open Scope cmd_scope.
Notation T3 := (triple est (@crashed A)).

Fixpoint stable_logged (l : list action) : bool :=
  match l with
  | [] => false
  | b :: t => match a_tag b with
              | TRound => false
              | TLog => prefix "Stable state detected (" (a_msg b) || stable_logged t
              | _ => stable_logged t
              end
  end.
Definition oka2 (a : action) (older : list action) : Prop :=
  match a_tag a with
  | TDefeat =>
    is_remaining (a_msg a) = true \/
    (prefix "Defeat (surplus " (a_msg a) = true /\
       exists sn sp, a_snap a = Some sn /\ as_surplus sn = Some sp /\ ltv A sp (omega_or0 A cfg) = true) \/
    (prefix "Defeat (stable surplus " (a_msg a) = true /\ stable_logged older = true)
  | _ => True
  end.
Fixpoint HI2 (l : list action) : Prop := match l with [] => True | a :: t => oka2 a t /\ HI2 t end.

Lemma hi2_quiet (l old : list action) : Forall (quiet A) l -> HI2 old -> HI2 (l ++ old).
Proof.
  induction 1 as [|a l Ha _ IH]; intros H; cbn [app HI2]; [exact H|]. split; [|apply IH; exact H].
  unfold oka2. unfold quiet in Ha. destruct (a_tag a); try exact I; contradiction.
Qed.
Lemma sl_quiet (l old : list action) : Forall (quiet A) l -> stable_logged old = true -> stable_logged (l ++ old) = true.
Proof.
  induction 1 as [|a l Ha _ IH]; intros H; cbn [app stable_logged]; [exact H|]. unfold quiet in Ha.
  destruct (a_tag a); try (apply IH; exact H); try contradiction. rewrite (IH H). apply orb_true_r.
Qed.
Lemma qe_hi2 s s' : QE A s s' -> HI2 (actions s) -> HI2 (actions s').
Proof. intros (l & E & F) H. rewrite E. apply hi2_quiet; assumption. Qed.
Lemma qe_sl s s' : QE A s s' -> stable_logged (actions s) = true -> stable_logged (actions s') = true.
Proof. intros (l & E & F) H. rewrite E. apply sl_quiet; assumption. Qed.

Lemma prefix_app2 (p y z : string) : prefix p ((p ++ y) ++ z) = true.
Proof.
  induction p as [|a p IH]; cbn [append prefix]; [destruct (y ++ z); reflexivity|].
  destruct (Ascii.ascii_dec a a) as [_|N]; [exact IH|contradiction].
Qed.

(* state facts *)
Definition PST (s : est) : Prop :=
  lv_status s = IS_iterate \/ lv_status s = IS_elected \/
  (lv_status s = IS_omega /\ ltv A (surplus s) (omega_or0 A cfg) = true) \/
  (lv_status s = IS_stable /\ stable_logged (actions s) = true).

Lemma fold_elect_status (L : list (cand A)) : forall t : est,
  let t' := fold_left (fun s0 c => set_status (elect A cfg (cid c) "Elect" false s0) IS_elected) L t in
  (lv_status t' = lv_status t \/ lv_status t' = IS_elected) /\ QE A t t'.
Proof.
  induction L as [|c L IH]; intros t; cbn [fold_left]; [split; [left; reflexivity|apply qe_refl]|].
  destruct (IH (set_status (elect A cfg (cid c) "Elect" false t) IS_elected)) as [Hs Hq]. cbv zeta in *. split.
  - destruct Hs as [E|E]; [right; rewrite E; reflexivity|right; exact E].
  - eapply qe_trans; [|exact Hq]. eapply qe_trans; [apply qe_elect|apply qe_same; reflexivity].
Qed.

Lemma actions_prf_distribute (s : est) : actions (prf_distribute A s) = actions s /\ lv_status (prf_distribute A s) = lv_status s.
Proof.
  unfold prf_distribute. cbv zeta.
  match goal with |- context[fold_left ?f (ballots ?s0) ?i] => destruct (fold_left f (ballots s0) i) as [[cs r] bs] end. split; reflexivity.
Qed.
Lemma status_update_kfs cl (s : est) : lv_status (update_kfs A cl s) = lv_status s.
Proof.
  unfold update_kfs. generalize (electeds A s) as l. intros l. revert s. induction l as [|c l IH]; intros s; cbn [fold_left]; [reflexivity|].
  rewrite IH. destruct (crashed s); [reflexivity|]. destruct (kdiv A _ _ _); reflexivity.
Qed.

Lemma prf_step_exit (s : est) : lv_status s = IS_iterate ->
  QE A s (prf_iterate_step A cfg s) /\ PST (prf_iterate_step A cfg s).
Proof.
  intros Hst. unfold prf_iterate_step. cbv zeta.
  destruct (actions_prf_distribute s) as [Ea1 Es1]. set (s1 := prf_distribute A s) in *.
  match goal with |- context[set_quota_r A ?a ?b] => set (s3 := set_quota_r A a b) end.
  assert (E3: actions s3 = actions s /\ lv_status s3 = IS_iterate).
  { unfold s3, set_quota_r. destruct (prf_quota A cfg _); cbn [actions lv_status set_quota set_crash set_votes]; rewrite Ea1, Es1; auto. }
  destruct E3 as [Ea3 Es3].
  destruct (crashed s3); [split; [apply qe_same; exact Ea3|left; exact Es3]|].
  match goal with |- context[fold_left ?f ?W s3] => destruct (fold_elect_status W s3) as [Hs4 Hq4]; set (s4 := fold_left f W s3) in * end.
  cbv zeta in Hs4, Hq4. rewrite Es3 in Hs4.
  assert (Q4: QE A s s4) by (eapply qe_trans; [apply qe_same; exact Ea3|exact Hq4]).
  set (sp := elected_surplus A s4).
  set (s5 := set_surplus s4 (if ltv A sp (V0 A) then V0 A else sp)).
  assert (E5: lv_status s5 = lv_status s4) by reflexivity.
  destruct (lv_status s5 =? IS_elected)%Z eqn:G5.
  - (* elected *) assert (Ee: lv_status s5 = IS_elected) by lia.
    destruct (lv_status s5 =? IS_iterate)%Z eqn:Gi; [unfold IS_elected, IS_iterate in *; lia|].
    split; [eapply qe_trans; [exact Q4|apply qe_same; reflexivity]|right; left; exact Ee].
  - assert (Ei: lv_status s5 = IS_iterate) by (destruct Hs4 as [E|E]; [congruence|unfold IS_elected in *; lia]).
    destruct (ltv A (surplus s5) (omega_or0 A cfg)) eqn:Gom.
    + cbn [lv_status set_status]. change (IS_omega =? IS_iterate)%Z with false. cbv iota.
      split; [eapply qe_trans; [exact Q4|apply qe_same; reflexivity]|]. right; right; left. split; [reflexivity|exact Gom].
    + destruct (gev A (surplus s5) (lv_last s5)) eqn:Gst.
      * unfold log_msg, log_action. cbn [is_log lv_status set_status set_actions]. change (IS_stable =? IS_iterate)%Z with false. cbv iota.
        split.
        -- eapply qe_trans; [exact Q4|]. eexists [_]. split; [reflexivity|]. constructor; [exact I|constructor].
        -- right; right; right. split; [reflexivity|]. cbn [actions set_actions set_status].
           match goal with |- stable_logged (?b :: ?t) = true =>
             change (match a_tag b with TRound => false | TLog => prefix "Stable state detected (" (a_msg b) || stable_logged t | _ => stable_logged t end = true) end.
           cbn [a_tag a_msg]. rewrite prefix_app. reflexivity.
      * rewrite Ei. change (IS_iterate =? IS_iterate)%Z with true. cbv iota. split.
        -- eapply qe_trans; [exact Q4|]. apply qe_same. rewrite actions_update_kfs. reflexivity.
        -- left. rewrite status_update_kfs. exact Ei.
Qed.

(* the exclusion step *)
Lemma bt_fields fmt tied (s : est) :
  lv_status (fst (break_tie A cfg fmt tied s)) = lv_status s /\ surplus (fst (break_tie A cfg fmt tied s)) = surplus s.
Proof.
  unfold break_tie. destruct tied as [|c [|c2 t]]; cbn [fst]; [split; reflexivity|split; reflexivity|].
  destruct (by_tie A (c :: c2 :: t)); cbn [fst]; [split; reflexivity|]. unfold log_action. cbn [is_log is_round]. split; reflexivity.
Qed.

Lemma hi2_defeat_low fmt (s : est) : HI2 (actions s) ->
  ((lv_status s = IS_omega /\ ltv A (surplus s) (omega_or0 A cfg) = true) \/ (lv_status s = IS_stable /\ stable_logged (actions s) = true)) ->
  HI2 (actions (meek_defeat_low A cfg fmt false s)).
Proof.
  intros H Hc. unfold meek_defeat_low. destruct (low_within_surplus A s) as [lows|]; [|exact H].
  pose proof (qe_break_tie A cfg fmt lows s) as Q. destruct (bt_fields fmt lows s) as [Est Esp].
  destruct (break_tie A cfg fmt lows s) as [s1 [l|]]; cbn [fst] in *; [|exact (qe_hi2 _ _ Q H)]. cbv zeta.
  pose proof (qe_hi2 _ _ Q H) as H1.
  match goal with |- context[defeat A cfg l ?m s1] => set (msg := m) end.
  assert (H2: HI2 (actions (defeat A cfg l msg s1))).
  { unfold defeat. destruct (find_cand A (cands s1) l) as [c|]; [|exact H1]. unfold log_action. cbn [is_log is_round actions set_actions HI2].
    split; [|exact H1]. unfold oka2. cbn [a_tag a_msg a_snap]. right. unfold msg. destruct Hc as [[E1 Hl]|[E4 Hs]].
    - left. rewrite Est, E1. unfold IS_omega at 1 2. cbn [Z.eqb Pos.eqb]. split; [apply prefix_app2|].
      eexists; eexists. split; [reflexivity|]. unfold snap_of. cbn [as_surplus]. rewrite Hm. split; [reflexivity|]. cbn [surplus upd set_cands]. rewrite Esp. exact Hl.
    - right. rewrite Est, E4. unfold IS_stable at 1, IS_omega at 1. cbn [Z.eqb Pos.eqb]. split; [apply prefix_app2|].
      cbn [actions upd set_cands]. exact (qe_sl _ _ Q Hs). }
  destruct (crashed (zero_cand A l (defeat A cfg l msg s1))); exact H2.
Qed.

Lemma hi2_final (s : est) : HI2 (actions s) -> HI2 (actions (meek_final A cfg false s)).
Proof.
  intros H. unfold meek_final. cbv zeta. cbn [actions set_residual set_votes].
  generalize (hopefuls A s) as l. intros l. revert s H. induction l as [|c l IH]; intros s H; cbn [fold_left]; [exact H|]. apply IH.
  destruct (crashed s); [exact H|]. destruct (_ <? _)%Z; [exact (qe_hi2 _ _ (qe_elect A cfg _ _ _ s) H)|].
  cbn [actions zero_cand upd set_cands]. unfold defeat. destruct (find_cand A (cands s) (cid c)) as [c0|]; [|exact H].
  unfold log_action. cbn [is_log is_round actions set_actions HI2]. split; [|exact H]. unfold oka2. cbn [a_tag a_msg]. left. reflexivity.
Qed.

Lemma prf_begin_qe (f : est -> est) rest : meek_prf A cfg = Seq (Do f) rest -> forall s, QE A s (f s).
Proof.
  unfold meek_prf. intros E. injection E as Ef _. subst f. intros s. cbv beta. destruct (omega A cfg); [|apply qe_same; reflexivity]. cbv zeta.
  destruct (divv A _ _); [|apply qe_same; reflexivity].
  eapply qe_trans; [|apply qe_log; exact I]. apply qe_same. rewrite actions_fold; [reflexivity|]. intros s0 b. destruct (top_rank A b); reflexivity.
Qed.

Definition J2 (s : est) : Prop := HI2 (actions s).

Theorem meek_prf_exits : T3 J2 (meek_prf A cfg) J2 J2 J2.
Proof.
  pose proof prf_begin_qe as Hb. unfold meek_prf in *.
  eapply t_seq with (M := J2); [apply t_do; intros s H; exact (qe_hi2 _ _ (Hb _ _ eq_refl s) H)|]. clear Hb.
  eapply t_seq with (M := J2); [|apply t_do; intros s H; apply hi2_final; exact H].
  eapply t_post; [|apply (t_while est (@crashed A) J2 J2)]; [intros s [Hs|[Hs _]]; exact Hs|].
  eapply t_pre; [intros s [Hs _]; exact Hs|].
  eapply t_seq with (M := J2).
  { apply t_do. intros s H. unfold J2, new_round, log_action. cbn [is_log is_round actions set_actions set_rounds set_round HI2]. split; [exact I|exact H]. }
  eapply t_seq with (M := fun s => J2 s /\ PST s).
  { apply t_do. intros s H. split; [exact H|]. left. reflexivity. }
  eapply t_seq with (M := fun s => J2 s /\ PST s /\ lv_status s <> IS_iterate).
  { eapply t_post; [|apply (t_while est (@crashed A) (fun s => J2 s /\ PST s) (fun _ => False))].
    - intros s [[]|[[H P] Hg]]. split; [exact H|]. split; [exact P|]. intros E. rewrite E in Hg. discriminate.
    - apply t_do. intros s [[H _] Hg]. assert (Ei: lv_status s = IS_iterate) by lia.
      destruct (prf_step_exit s Ei) as [Q P]. split; [exact (qe_hi2 _ _ Q H)|exact P]. }
  eapply t_seq with (M := fun s => J2 s /\ PST s /\ lv_status s <> IS_iterate /\ lv_status s <> IS_elected).
  { apply t_ite; [apply t_continue'; intros s [[H _] _]; exact H|].
    apply t_skip'. intros s [[H [P N]] Hg]. split; [exact H|]. split; [exact P|]. split; [exact N|]. unfold IS_elected in *. lia. }
  apply t_ite; [|apply t_skip'; intros s [[H _] _]; exact H].
  apply t_do. intros s [[H [P [N1 N2]]] _]. apply hi2_defeat_low; [exact H|].
  destruct P as [E|[E|[P|P]]]; [contradiction|contradiction|left; exact P|right; exact P].
Qed.

Lemma hi2_init (pr : profile) : HI2 (actions (init_state A cfg pr)).
Proof.
  unfold init_state. cbv zeta. cbn [actions set_eballots set_ballots].
  match goal with |- HI2 (actions (fold_left ?f ?l ?s0)) => assert (G: forall s, HI2 (actions s) -> HI2 (actions (fold_left f l s))) end.
  { induction (pr_cands pr) as [|p pcs IH]; intros s H; cbn [fold_left]; [exact H|]. apply IH.
    unfold log_msg, log_action. cbn [is_log actions set_actions set_cands HI2]. split; [exact I|exact H]. }
  apply G. exact I.
Qed.

Theorem count_meek_prf_exits pr fuel s k :
  exec (@crashed A) fuel (count_cmd A cfg RMeekPrf) (init_state A cfg pr) = Some (s, k) -> k <> Abort ->
  forall pre a older, actions s = (pre ++ a :: older)%list -> a_tag a = TDefeat ->
    is_remaining (a_msg a) = true \/
    (prefix "Defeat (surplus " (a_msg a) = true /\
       exists sn sp, a_snap a = Some sn /\ as_surplus sn = Some sp /\ ltv A sp (omega_or0 A cfg) = true) \/
    (prefix "Defeat (stable surplus " (a_msg a) = true /\ stable_logged older = true).
Proof.
  intros He Hk.
  assert (Ht: T3 (fun s0 => s0 = init_state A cfg pr) (count_cmd A cfg RMeekPrf) J2 J2 J2).
  { unfold count_cmd. cbn [rule_cmd]. eapply t_seq with (M := J2); [apply t_do; intros s0 ->; exact (hi2_init pr)|].
    eapply t_seq with (M := J2); [apply meek_prf_exits|]. apply t_do. intros s0 H. exact (qe_hi2 _ _ (qe_log A cfg TEnd _ s0 I) H). }
  specialize (Ht fuel _ s k eq_refl He). assert (H: J2 s) by (destruct k; try exact Ht; congruence). unfold J2 in H.
  intros pre. revert H. generalize (actions s). induction pre as [|x pre IH]; intros l H a older E Ht'; subst l; cbn [app HI2] in H.
  - pose proof (proj1 H) as O. unfold oka2 in O. rewrite Ht' in O. exact O.
  - exact (IH _ (proj2 H) a older eq_refl Ht').
Qed.
End PrfExit.
