(* ClassStateProofs: lemmas about the class-state model (Model/ClassState.v) used by Props/C20.v
   and by the statutory-immunity part of Props/C17.v. *)
From Coq Require Import ZArith List Bool String Ascii Lia.
From Droop Require Import Model.KernelBase Model.Str Model.Arith Gen.FixedKernels Gen.GuardedKernels
  Model.Options Model.ClassState Proofs.OptionsProofs Proofs.ArithEq.
Import ListNotations.
Open Scope Z_scope.
Open Scope list_scope.

(* ------------------------------------------------------------------ assignment logs *)
(* the last value a log assigns to f *)
Definition last_write (f : field) (l : wlog) : option fv :=
  fold_left (fun acc x => if field_eqb (fst x) f then Some (snd x) else acc) l None.
Definition written (f : field) (l : wlog) : bool := match last_write f l with Some _ => true | None => false end.

Lemma fold_last_write f l acc :
  fold_left (fun acc x => if field_eqb (fst x) f then Some (snd x) else acc) l acc =
  match last_write f l with Some v => Some v | None => acc end.
Proof.
  unfold last_write. revert acc. induction l as [|x t IH]; intros acc; cbn; [reflexivity|].
  rewrite IH. rewrite (IH (if field_eqb (fst x) f then Some (snd x) else None)).
  destruct (fold_left _ t None); [reflexivity|]. destruct (field_eqb (fst x) f); reflexivity.
Qed.

Lemma last_write_app f l1 l2 :
  last_write f (l1 ++ l2) = match last_write f l2 with Some v => Some v | None => last_write f l1 end.
Proof. unfold last_write at 1. rewrite fold_left_app. apply fold_last_write. Qed.

Lemma last_write_cons f x l :
  last_write f (x :: l) =
  match last_write f l with Some v => Some v | None => if field_eqb (fst x) f then Some (snd x) else None end.
Proof. change (x :: l) with ([x] ++ l). rewrite last_write_app. reflexivity. Qed.

Lemma apply_log_get l g f :
  apply_log l g f = match last_write f l with Some v => Some v | None => g f end.
Proof.
  revert g. induction l as [|x t IH]; intros g; [reflexivity|].
  cbn [apply_log fold_left]. fold (apply_log t (gset (fst x) (snd x) g)). rewrite IH, last_write_cons.
  destruct (last_write f t); [reflexivity|]. unfold gset. destruct (field_eqb (fst x) f); reflexivity.
Qed.

(* an attribute the log assigns has the same value whatever the earlier class state was *)
Lemma apply_log_written l g g' f : written f l = true -> apply_log l g f = apply_log l g' f.
Proof. unfold written. rewrite !apply_log_get. destruct (last_write f l); [reflexivity|discriminate]. Qed.

Lemma getZ_apply l g f :
  getZ (apply_log l g) f = match last_write f l with Some (FZ z) => z | Some _ => 0 | None => getZ g f end.
Proof. unfold getZ. rewrite apply_log_get. destruct (last_write f l) as [[]|]; reflexivity. Qed.
Lemma getB_apply l g f :
  getB (apply_log l g) f = match last_write f l with Some (FB b) => b | Some _ => true | None => getB g f end.
Proof. unfold getB. rewrite apply_log_get. destruct (last_write f l) as [[]|]; reflexivity. Qed.
Lemma getS_apply l g f :
  getS (apply_log l g) f = match last_write f l with Some (FS s) => s | Some _ => ""%string | None => getS g f end.
Proof. unfold getS. rewrite apply_log_get. destruct (last_write f l) as [[]|]; reflexivity. Qed.

(* ------------------------------------------------------------------ inversion of successful runs *)
Lemma wbind_ok {A B} (m : WM A) (k : A -> WM B) o b o' l :
  wbind m k o = (Ok b, o', l) ->
  exists a o1 l1 l2, m o = (Ok a, o1, l1) /\ k a o1 = (Ok b, o', l2) /\ l = (l1 ++ l2)%list.
Proof.
  unfold wbind. destruct (m o) as [[[a|e] o1] l1]; [|discriminate].
  destruct (k a o1) as [[r o2] l2] eqn:E. intros H. injection H as -> -> <-.
  exists a, o1, l1, l2. auto.
Qed.
Lemma w_op_ok {A} (m : SM store A) o a o' l : w_op m o = (Ok a, o', l) -> m o = (Ok a, o') /\ l = [].
Proof. unfold w_op. intros H. injection H as H1 H2 <-. split; [|reflexivity]. destruct (m o); cbn in *; congruence. Qed.
Lemma wlift_ok {A} (r : res A) o a o' l : wlift r o = (Ok a, o', l) -> r = Ok a /\ o' = o /\ l = [].
Proof. unfold wlift. intros H. injection H as -> <- <-. auto. Qed.
Lemma wr_ok f v o u o' l : wr f v o = (Ok u, o', l) -> o' = o /\ l = [(f, v)].
Proof. unfold wr. intros H. injection H as <- <-. auto. Qed.
Lemma wtell_ok l0 o u o' l : wtell l0 o = (Ok u, o', l) -> o' = o /\ l = l0.
Proof. unfold wtell. intros H. injection H as <- <-. auto. Qed.
Lemma wret_ok {A} (a0 : A) o a o' l : wret a0 o = (Ok a, o', l) -> a = a0 /\ o' = o /\ l = [].
Proof. unfold wret. intros H. injection H as <- <- <-. auto. Qed.
Lemma wwhen_ok b e o u o' l : wwhen_raise b e o = (Ok u, o', l) -> b = false /\ o' = o /\ l = [].
Proof. unfold wwhen_raise. destruct b; [discriminate|]. intros H. apply wret_ok in H. tauto. Qed.
(* `if getopt(k) is None: setopt(k, default=...)`: assigns no class attribute *)
Lemma maybe_setopt_ok (b : bool) (m : SM store oval) o u o' l :
  (if b then wbind (w_op m) (fun _ => wret tt) else wret tt) o = (Ok u, o', l) -> l = [].
Proof.
  destruct b; intros H.
  - apply wbind_ok in H. destruct H as (a & o1 & l1 & l2 & H1 & H2 & ->).
    apply w_op_ok in H1. apply wret_ok in H2. destruct H1 as [_ ->], H2 as (_ & _ & ->). reflexivity.
  - apply wret_ok in H. tauto.
Qed.

Tactic Notation "wb" hyp(H) "as" ident(a) ident(o1) ident(l1) ident(H1) :=
  apply wbind_ok in H; destruct H as (a & o1 & l1 & ? & H1 & H & ->).

Lemma checked_int_attr_ok f v o x o' l :
  checked_int_attr f v o = (Ok x, o', l) -> o' = o /\ l = [(f, FZ x)] /\ 0 <= x /\ usage_int v = Ok x.
Proof.
  unfold checked_int_attr. intros H.
  wb H as x0 o1 l1 H1. apply wlift_ok in H1. destruct H1 as (Hu & -> & ->).
  wb H as u1 o2 l2 H2. apply wr_ok in H2. destruct H2 as (-> & ->).
  wb H as u2 o3 l3 H3. apply wwhen_ok in H3. destruct H3 as (Hc & -> & ->).
  apply wret_ok in H. destruct H as (-> & -> & ->).
  apply orb_false_iff in Hc. destruct Hc as [Hc _]. apply Z.ltb_ge in Hc.
  repeat split; auto.
Qed.

(* ------------------------------------------------------------------ the shape of successful logs *)
Definition fixed_name (p : Z) : string := if p =? 0 then "integer"%string else "fixed"%string.
Definition fixed_log (name : string) (p d : Z) : wlog :=
  ((FxName, FS name) :: (FxPrecision, FZ p) :: fixed_tail name p d)%list.
Definition guarded_log (p gd d1 : Z) : wlog :=
  ((GdPrecision, FZ p) :: (GdGuard, FZ gd) :: (GdDisplay, FZ d1) :: guarded_tail p gd d1)%list.

Lemma initialize_fixed_ok o o' l : initialize_fixed o = (Ok tt, o', l) ->
  exists name p d, l = fixed_log name p d /\ 0 <= p /\ 0 <= d <= p.
Proof.
  unfold initialize_fixed. intros H.
  wb H as arithmetic o1 l1 H1. apply w_op_ok in H1. destruct H1 as [_ ->].
  wb H as u2 o2 l2 H2. apply wwhen_ok in H2. destruct H2 as (_ & -> & ->).
  wb H as precision o3 l3 H3.
  assert (Hl : l3 = []).
  { destruct (oval_eqb arithmetic (vs "integer")); apply w_op_ok in H3; tauto. }
  subst l3. clear H3.
  wb H as u4 o4 l4 H4. apply wr_ok in H4. destruct H4 as (-> & ->).
  wb H as p o5 l5 H5. apply wlift_ok in H5. destruct H5 as (Hu & -> & ->).
  wb H as u6 o6 l6 H6. apply wr_ok in H6. destruct H6 as (-> & ->).
  wb H as u7 o7 l7 H7. apply wwhen_ok in H7. destruct H7 as (Hc & -> & ->).
  apply orb_false_iff in Hc. destruct Hc as [Hp Hs]. apply Z.ltb_ge in Hp.
  wb H as d0 o8 l8 H8. apply w_op_ok in H8. destruct H8 as [_ ->].
  wb H as u9 o9 l9 H9. apply maybe_setopt_ok in H9. subst l9.
  wb H as display o10 l10 H10. apply w_op_ok in H10. destruct H10 as [_ ->].
  wb H as d o11 l11 H11. apply wlift_ok in H11. destruct H11 as (Hd & -> & ->).
  apply wtell_ok in H. destruct H as (-> & ->).
  exists (if oval_eqb precision (VInt 0) then "integer"%string else "fixed"%string), p,
         (if (d <? 0) || (p <? d) then p else d).
  split; [reflexivity|]. split; [exact Hp|].
  destruct ((d <? 0) || (p <? d)) eqn:E; [lia|]. apply orb_false_iff in E. lia.
Qed.

Lemma initialize_guarded_ok o o' l : initialize_guarded o = (Ok tt, o', l) ->
  exists p gd d1, l = guarded_log p gd d1 /\ 0 <= p /\ 0 <= gd /\ 0 <= d1.
Proof.
  unfold initialize_guarded. intros H.
  wb H as arithmetic o1 l1 H1. apply w_op_ok in H1. destruct H1 as [_ ->].
  wb H as u2 o2 l2 H2. apply wwhen_ok in H2. destruct H2 as (_ & -> & ->).
  wb H as precision o3 l3 H3. apply w_op_ok in H3. destruct H3 as [_ ->].
  wb H as p o4 l4 H4. apply checked_int_attr_ok in H4. destruct H4 as (-> & -> & Hp & _).
  wb H as g0 o5 l5 H5. apply w_op_ok in H5. destruct H5 as [_ ->].
  wb H as u6 o6 l6 H6. apply maybe_setopt_ok in H6. subst l6.
  wb H as guard o7 l7 H7. apply w_op_ok in H7. destruct H7 as [_ ->].
  wb H as gd o8 l8 H8. apply checked_int_attr_ok in H8. destruct H8 as (-> & -> & Hg & _).
  wb H as d0 o9 l9 H9. apply w_op_ok in H9. destruct H9 as [_ ->].
  wb H as u10 o10 l10 H10. apply maybe_setopt_ok in H10. subst l10.
  wb H as display o11 l11 H11. apply w_op_ok in H11. destruct H11 as [_ ->].
  wb H as d1 o12 l12 H12. apply checked_int_attr_ok in H12. destruct H12 as (-> & -> & Hd & _).
  apply wtell_ok in H. destruct H as (-> & ->).
  exists p, gd, d1. repeat split; auto.
Qed.

Lemma initialize_rational_ok o o' l : initialize_rational o = (Ok tt, o', l) ->
  exists dp n, l = [(RtDp, FO dp); (RtDps, FZ n); (RtDpr, FZ (n * 2)); (RtDfmt, FS ("%d.%0" ++ py_str dp ++ "d")%string)].
Proof.
  unfold initialize_rational. intros H.
  wb H as d0 o1 l1 H1. apply w_op_ok in H1. destruct H1 as [_ ->].
  wb H as u2 o2 l2 H2. apply maybe_setopt_ok in H2. subst l2.
  wb H as dp o3 l3 H3. apply w_op_ok in H3. destruct H3 as [_ ->].
  wb H as u4 o4 l4 H4. apply wr_ok in H4. destruct H4 as (-> & ->).
  wb H as dps o5 l5 H5. apply wlift_ok in H5. destruct H5 as (Hd & -> & ->).
  wb H as u6 o6 l6 H6. apply wr_ok in H6. destruct H6 as (-> & ->).
  destruct dps as [n| | | |]; try discriminate.
  wb H as u7 o7 l7 H7. apply wr_ok in H7. destruct H7 as (-> & ->).
  apply wr_ok in H. destruct H as (-> & ->).
  exists dp, n. reflexivity.
Qed.

(* ------------------------------------------------------------------ every attribute read was just assigned *)
Ltac field_cases f :=
  destruct f; cbn; try reflexivity; try discriminate.

Lemma fixed_reads_written name p d g f :
  reads AFixed (apply_log (fixed_log name p d) g) f = true -> written f (fixed_log name p d) = true.
Proof. destruct f; cbn; intros H; try reflexivity; discriminate H. Qed.

Lemma rational_reads_written l dp n g f :
  l = [(RtDp, FO dp); (RtDps, FZ n); (RtDpr, FZ (n * 2)); (RtDfmt, FS ("%d.%0" ++ py_str dp ++ "d")%string)] ->
  reads ARational (apply_log l g) f = true -> written f l = true.
Proof. intros ->. destruct f; cbn; intros H; try reflexivity; discriminate H. Qed.

Arguments Z.pow : simpl never.
Arguments Z.div : simpl never.
Arguments Z.mul : simpl never.
Arguments Z.add : simpl never.
Arguments Z.sub : simpl never.
Arguments string_of_Z : simpl never.
Arguments String.append : simpl never.

(* case analysis on every `if` of an explicit log, innermost condition first *)
Ltac split_ifs :=
  repeat (cbv beta iota;
          match goal with
          | |- context [if ?c then _ else _] =>
              lazymatch c with
              | context [if _ then _ else _] => fail
              | _ => let t := type of c in lazymatch t with bool => destruct c eqn:? end
              end
          end); cbv beta iota.
(* string-valued attributes whose text depends on a condition: hidden when only keys / integers matter *)
Ltac hide_strings :=
  repeat match goal with
         | |- context [FS ?s] =>
             lazymatch s with context [if _ then _ else _] => let x := fresh "str" in generalize s; intro x end
         end.
Ltac log_compute := unfold guarded_log, guarded_tail; cbv zeta; hide_strings; split_ifs.
Ltac log_compute_full := unfold guarded_log, guarded_tail; cbv zeta; split_ifs.

Lemma guarded_log_precision p gd d1 g : getZ (apply_log (guarded_log p gd d1) g) GdPrecision = p.
Proof. rewrite getZ_apply. log_compute; reflexivity. Qed.
Lemma guarded_log_display p gd d1 g :
  getZ (apply_log (guarded_log p gd d1) g) GdDisplay = (if p + gd <? d1 then p + gd else d1).
Proof. rewrite getZ_apply. log_compute; reflexivity. Qed.
Lemma guarded_log_exact p gd d1 g : getB (apply_log (guarded_log p gd d1) g) GdExact = negb (gd =? 0).
Proof. rewrite getB_apply. log_compute; reflexivity. Qed.

Lemma guarded_reads_written p gd d1 g f :
  reads AGuarded (apply_log (guarded_log p gd d1) g) f = true -> written f (guarded_log p gd d1) = true.
Proof.
  unfold reads. rewrite guarded_log_precision, guarded_log_display, guarded_log_exact.
  destruct f; try (intros H; cbn in H; discriminate H); intros H; unfold written.
  all: try (log_compute; reflexivity).
  - (* __scaledg: read only when precision < display, and then it has just been assigned *)
    unfold guarded_log, guarded_tail. cbv zeta. rewrite H. hide_strings. split_ifs; reflexivity.
  - (* epsilon: read only when not exact, i.e. guard = 0, and then it has just been assigned *)
    apply negb_true_iff, negb_false_iff in H. unfold guarded_log, guarded_tail. cbv zeta. rewrite H.
    hide_strings. split_ifs; reflexivity.
Qed.

(* ------------------------------------------------------------------ ArithmeticClass / Election construction *)
Definition log_for (c : acls) (l : wlog) : Prop :=
  match c with
  | AFixed => exists name p d, l = fixed_log name p d /\ 0 <= p /\ 0 <= d <= p
  | AGuarded => exists p gd d1, l = guarded_log p gd d1 /\ 0 <= p /\ 0 <= gd /\ 0 <= d1
  | ARational => exists dp n, l = [(RtDp, FO dp); (RtDps, FZ n); (RtDpr, FZ (n * 2)); (RtDfmt, FS ("%d.%0" ++ py_str dp ++ "d")%string)]
  end.

Lemma arithmetic_class_ok o c o' l : arithmetic_class o = (Ok c, o', l) -> log_for c l.
Proof.
  unfold arithmetic_class. intros H.
  wb H as a o1 l1 H1. apply w_op_ok in H1. destruct H1 as [_ ->].
  wb H as c0 o2 l2 H2. apply wlift_ok in H2. destruct H2 as (_ & -> & ->).
  destruct c0; wb H as u3 o3 l3 H3; apply wret_ok in H; destruct H as (-> & -> & ->); destruct u3;
    rewrite app_nil_r; cbn.
  - apply initialize_fixed_ok in H3. exact H3.
  - apply initialize_guarded_ok in H3. exact H3.
  - apply initialize_rational_ok in H3. exact H3.
Qed.

Lemma election_setup_w_ok o k p c o' l : election_setup_w o = (Ok (k, p, c), o', l) -> log_for c l.
Proof.
  unfold election_setup_w. intros H.
  wb H as rulename o1 l1 H1. apply w_op_ok in H1. destruct H1 as [_ ->].
  wb H as u2 o2 l2 H2. apply wwhen_ok in H2. destruct H2 as (_ & -> & ->).
  destruct (match rulename with VStr s => rule_by_name s | _ => None end); [|discriminate].
  wb H as params o3 l3 H3. apply w_op_ok in H3. destruct H3 as [_ ->].
  wb H as c0 o4 l4 H4. apply wret_ok in H. destruct H as (E & -> & ->). injection E as <- <- <-.
  rewrite app_nil_r. cbn. apply arithmetic_class_ok in H4. exact H4.
Qed.

Lemma reads_written c l g f : log_for c l -> reads c (apply_log l g) f = true -> written f l = true.
Proof.
  destruct c; cbn [log_for].
  - intros (name & p & d & -> & _). apply fixed_reads_written.
  - intros (p & gd & d1 & -> & _). apply guarded_reads_written.
  - intros (dp & n & E). apply (rational_reads_written l dp n g f E).
Qed.

(* C20 core: constructing an election after any earlier class state *)
Lemma setup_history_independent o g g' :
  let r := election_setup (o, g) in let r' := election_setup (o, g') in
  fst r = fst r' /\ fst (snd r) = fst (snd r') /\
  (forall k p c, fst r = Ok (k, p, c) ->
     forall f, reads c (snd (snd r)) f = true ->
               snd (snd r) f = snd (snd r') f /\ reads c (snd (snd r')) f = true).
Proof.
  unfold election_setup, run_w. cbn [fst snd].
  destruct (election_setup_w o) as [[r o'] l] eqn:E. cbn [fst snd].
  split; [reflexivity|]. split; [reflexivity|].
  intros k p c -> f Hr. pose proof (election_setup_w_ok _ _ _ _ _ _ E) as Hl.
  pose proof (reads_written c l g f Hl Hr) as Hw. split; [apply apply_log_written; exact Hw|].
  (* reads looks only at attributes the log assigns *)
  destruct c; cbn [log_for] in Hl.
  - exact Hr.
  - destruct Hl as (pp & gd & d1 & -> & _). revert Hr. unfold reads.
    rewrite !guarded_log_precision, !guarded_log_display, !guarded_log_exact. intros H; exact H.
  - exact Hr.
Qed.

Lemma run_history_independent o h h' :
  let r := election_setup (o, run_history h g_init) in let r' := election_setup (o, run_history h' g_init) in
  fst r = fst r' /\ fst (snd r) = fst (snd r') /\
  (forall k p c, fst r = Ok (k, p, c) ->
     forall f, reads c (snd (snd r)) f = true ->
               snd (snd r) f = snd (snd r') f /\ reads c (snd (snd r')) f = true).
Proof. apply setup_history_independent. Qed.

(* per class, directly on initialize(): same outcome, same store, same value of everything read *)
Lemma initialize_history_independent (c : acls) o g g' :
  let m := match c with AFixed => initialize_fixed | AGuarded => initialize_guarded | ARational => initialize_rational end in
  let r := run_w m (o, g) in let r' := run_w m (o, g') in
  fst r = fst r' /\ fst (snd r) = fst (snd r') /\
  (fst r = Ok tt -> forall f, reads c (snd (snd r)) f = true -> snd (snd r) f = snd (snd r') f).
Proof.
  cbn zeta. unfold run_w. cbn [fst snd].
  destruct c.
  - destruct (initialize_fixed o) as [[r o'] l] eqn:E. cbn [fst snd]. repeat split. intros -> f Hr.
    apply initialize_fixed_ok in E. apply apply_log_written. exact (reads_written AFixed l g f E Hr).
  - destruct (initialize_guarded o) as [[r o'] l] eqn:E. cbn [fst snd]. repeat split. intros -> f Hr.
    apply initialize_guarded_ok in E. apply apply_log_written. exact (reads_written AGuarded l g f E Hr).
  - destruct (initialize_rational o) as [[r o'] l] eqn:E. cbn [fst snd]. repeat split. intros -> f Hr.
    apply initialize_rational_ok in E. apply apply_log_written. exact (reads_written ARational l g f E Hr).
Qed.

(* ------------------------------------------------------------------ the state is the one Arith.v builds *)
Lemma guarded_state_is_mk p gd d1 g :
  guarded_cls_of (apply_log (guarded_log p gd d1) g) = mk_guarded_cls p gd d1 (getZ g GdScaledg).
Proof.
  unfold guarded_cls_of, mk_guarded_cls. rewrite !getZ_apply. log_compute; reflexivity.
Qed.

Lemma guarded_state_attrs p gd d1 g :
  let s := apply_log (guarded_log p gd d1) g in
  let d := if p + gd <? d1 then p + gd else d1 in
  getS s GdInfo = guarded_info p gd d /\ getB s GdExact = negb (gd =? 0) /\ getB s GdQuasiExact = negb (gd =? 0) /\
  (gd = 0 -> getZ s GdEpsilon = 1) /\ getZ s GdMaxDiff = 0 /\ getZ s GdMinDiff = 10 ^ (p + gd) * 100.
Proof.
  cbv zeta. rewrite !getZ_apply, !getB_apply, !getS_apply. unfold guarded_info.
  log_compute_full; repeat split; try reflexivity; intros ->; discriminate.
Qed.

Lemma fixed_state_is_mk name p d g : 0 <= d <= p ->
  fixed_cls_of (apply_log (fixed_log name p d) g) = mk_fixed_cls p d.
Proof.
  intros H. unfold fixed_cls_of, mk_fixed_cls, fixed_display. rewrite !getZ_apply. cbn.
  assert (E : (d <? 0) || (p <? d) = false) by (apply orb_false_iff; lia). rewrite E. reflexivity.
Qed.

Lemma fixed_state_attrs p d g :
  let s := apply_log (fixed_log (fixed_name p) p d) g in
  getS s FxName = fixed_name p /\ getS s FxInfo = fixed_info p d /\ getZ s FxEpsilon = 1.
Proof.
  cbn zeta. rewrite !getZ_apply, !getS_apply. unfold fixed_log, fixed_tail, fixed_info, fixed_name. cbn.
  repeat split. destruct (p =? 0); reflexivity.
Qed.

(* ------------------------------------------------------------------ a stale __scaledg never matters *)
(* Proofs/ArithEq.v shows Guarded p g d s = Guarded p g d s' (the whole arithmetic instance) and the same
   for printing; what the renderers read besides (name, info, report()) does not mention it either *)
Lemma guarded_meta_stale p g d s s' : GuardedMeta p g d s = GuardedMeta p g d s'.
Proof. reflexivity. Qed.

Lemma guarded_state_after o o' l g : initialize_guarded o = (Ok tt, o', l) ->
  exists p gd d, 0 <= p /\ 0 <= gd /\ 0 <= d /\
    let s := apply_log l g in
    guarded_cls_of s = mk_guarded_cls p gd d (getZ g GdScaledg) /\
    getS s GdInfo = guarded_info p gd (if p + gd <? d then p + gd else d) /\
    getB s GdExact = negb (gd =? 0) /\ getB s GdQuasiExact = negb (gd =? 0) /\
    (gd = 0 -> getZ s GdEpsilon = 1) /\ getZ s GdMaxDiff = 0 /\ getZ s GdMinDiff = 10 ^ (p + gd) * 100.
Proof.
  intros H. apply initialize_guarded_ok in H. destruct H as (p & gd & d & -> & Hp & Hg & Hd).
  exists p, gd, d. repeat (split; [assumption|]). cbv zeta. split; [apply guarded_state_is_mk|].
  exact (guarded_state_attrs p gd d g).
Qed.

Lemma fixed_state_after o o' l g : initialize_fixed o = (Ok tt, o', l) ->
  exists name p d, 0 <= p /\ 0 <= d <= p /\
    let s := apply_log l g in
    fixed_cls_of s = mk_fixed_cls p d /\ getS s FxName = name /\ getZ s FxEpsilon = 1 /\
    (name = (if (p =? 0)%Z then "integer"%string else "fixed"%string) -> getS s FxInfo = fixed_info p d).
Proof.
  intros H. apply initialize_fixed_ok in H. destruct H as (name & p & d & -> & Hp & Hd).
  exists name, p, d. split; [exact Hp|]. split; [exact Hd|]. cbv zeta.
  split; [apply fixed_state_is_mk; exact Hd|]. split; [rewrite getS_apply; reflexivity|].
  split; [rewrite getZ_apply; reflexivity|]. intros ->. exact (proj1 (proj2 (fixed_state_attrs p d g))).
Qed.
