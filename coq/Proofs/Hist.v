(* Monotone history: every micro-operation only appends to the action list and never lowers the
   round number.  Lifted to whole runs with CmdMeta.exec_steps.  (C19 prefix property, C09 rounds) *)
From Coq Require Import ZArith List Bool String Lia Sorted.
From Droop Require Import Model.KernelBase Model.Str Model.Arith Model.Prelude Model.State Model.Prims
  Model.RulesGregory Model.RulesMeek Model.Election Proofs.CmdMeta.
Import ListNotations.
Open Scope Z_scope.

Section Hist.
Variable A : arith.
Variable cfg : config.
Notation est := (est A).

(* s' extends s: same older actions (newest first), round not lower, and every action added carries a
   round between the two *)
Definition newer (a b : action A) : Prop := a_round b <= a_round a.   (* the list is newest first *)
Definition Ext (s s' : est) : Prop :=
  round s <= round s' /\
  exists l, actions s' = (l ++ actions s)%list /\ Forall (fun a => round s <= a_round a <= round s') l /\
            StronglySorted newer l.

Lemma ext_refl s : Ext s s.
Proof. split; [lia|]. exists []. split; [reflexivity|]. split; constructor. Qed.

Lemma sorted_app (l2 l1 : list (action A)) m :
  StronglySorted newer l2 -> StronglySorted newer l1 ->
  Forall (fun a => m <= a_round a) l2 -> Forall (fun a => a_round a <= m) l1 -> StronglySorted newer (l2 ++ l1).
Proof.
  intros S2 S1 F2 F1. induction l2 as [|a l2 IH]; cbn; [exact S1|].
  inversion S2; subst. inversion F2; subst. constructor; [apply IH; assumption|].
  apply Forall_app. split; [assumption|]. eapply Forall_impl; [|exact F1]. unfold newer. cbn. intros; lia.
Qed.

Lemma ext_trans a b c : Ext a b -> Ext b c -> Ext a c.
Proof.
  intros [R1 (l1 & E1 & F1 & S1)] [R2 (l2 & E2 & F2 & S2)]. split; [lia|].
  exists (l2 ++ l1)%list. split; [rewrite E2, E1, app_assoc; reflexivity|]. split.
  - apply Forall_app. split.
    + eapply Forall_impl; [|exact F2]. cbn. intros; lia.
    + eapply Forall_impl; [|exact F1]. cbn. intros; lia.
  - apply (sorted_app l2 l1 (round b)); try assumption.
    + eapply Forall_impl; [|exact F2]. cbn. intros; lia.
    + eapply Forall_impl; [|exact F1]. cbn. intros; lia.
Qed.

(* operations that do not touch the history *)
Definition same_hist (s s' : est) : Prop := actions s' = actions s /\ round s' = round s.
Lemma same_ext s s' x : Ext x s -> same_hist s s' -> Ext x s'.
Proof.
  intros [R (l & E & F & S)] [Ea Er]. split; [lia|]. exists l. rewrite Ea, Er. repeat split; assumption.
Qed.

Ltac sh := split; reflexivity.
Lemma sh_cands s c : same_hist s (set_cands s c). Proof. sh. Qed.
Lemma sh_ballots s c : same_hist s (set_ballots s c). Proof. sh. Qed.
Lemma sh_eballots s c : same_hist s (set_eballots s c). Proof. sh. Qed.
Lemma sh_quota s c : same_hist s (set_quota s c). Proof. sh. Qed.
Lemma sh_surplus s c : same_hist s (set_surplus s c). Proof. sh. Qed.
Lemma sh_votes s c : same_hist s (set_votes s c). Proof. sh. Qed.
Lemma sh_exhausted s c : same_hist s (set_exhausted s c). Proof. sh. Qed.
Lemma sh_residual s c : same_hist s (set_residual s c). Proof. sh. Qed.
Lemma sh_rounds s c : same_hist s (set_rounds s c). Proof. sh. Qed.
Lemma sh_crash s c : same_hist s (set_crash s c). Proof. sh. Qed.
Lemma sh_flag s c : same_hist s (set_flag s c). Proof. sh. Qed.
Lemma sh_last s c : same_hist s (set_last s c). Proof. sh. Qed.
Lemma sh_status s c : same_hist s (set_status s c). Proof. sh. Qed.
Lemma sh_batch s c : same_hist s (set_batch s c). Proof. sh. Qed.
Lemma sh_txva s a b : same_hist s (set_txva s a b). Proof. sh. Qed.

(* cumulative forms: Ext x s -> Ext x (op s) *)
Lemma e_cands x s c : Ext x s -> Ext x (set_cands s c). Proof. intros; eapply same_ext; eauto using sh_cands. Qed.
Lemma e_ballots x s c : Ext x s -> Ext x (set_ballots s c). Proof. intros; eapply same_ext; eauto using sh_ballots. Qed.
Lemma e_eballots x s c : Ext x s -> Ext x (set_eballots s c). Proof. intros; eapply same_ext; eauto using sh_eballots. Qed.
Lemma e_quota x s c : Ext x s -> Ext x (set_quota s c). Proof. intros; eapply same_ext; eauto using sh_quota. Qed.
Lemma e_surplus x s c : Ext x s -> Ext x (set_surplus s c). Proof. intros; eapply same_ext; eauto using sh_surplus. Qed.
Lemma e_votes x s c : Ext x s -> Ext x (set_votes s c). Proof. intros; eapply same_ext; eauto using sh_votes. Qed.
Lemma e_exhausted x s c : Ext x s -> Ext x (set_exhausted s c). Proof. intros; eapply same_ext; eauto using sh_exhausted. Qed.
Lemma e_residual x s c : Ext x s -> Ext x (set_residual s c). Proof. intros; eapply same_ext; eauto using sh_residual. Qed.
Lemma e_rounds x s c : Ext x s -> Ext x (set_rounds s c). Proof. intros; eapply same_ext; eauto using sh_rounds. Qed.
Lemma e_crash x s c : Ext x s -> Ext x (set_crash s c). Proof. intros; eapply same_ext; eauto using sh_crash. Qed.
Lemma e_flag x s c : Ext x s -> Ext x (set_flag s c). Proof. intros; eapply same_ext; eauto using sh_flag. Qed.
Lemma e_last x s c : Ext x s -> Ext x (set_last s c). Proof. intros; eapply same_ext; eauto using sh_last. Qed.
Lemma e_status x s c : Ext x s -> Ext x (set_status s c). Proof. intros; eapply same_ext; eauto using sh_status. Qed.
Lemma e_batch x s c : Ext x s -> Ext x (set_batch s c). Proof. intros; eapply same_ext; eauto using sh_batch. Qed.
Lemma e_txva x s a b : Ext x s -> Ext x (set_txva s a b). Proof. intros; eapply same_ext; eauto using sh_txva. Qed.
Lemma e_upd x s i f : Ext x s -> Ext x (upd A s i f). Proof. intros; unfold upd; apply e_cands; assumption. Qed.

Lemma ext_log_action t m s : Ext s (log_action A cfg t m s).
Proof.
  unfold log_action. destruct (is_log t).
  - split; [cbn; lia|]. exists [mkAction t m (round s) None]. split; [reflexivity|]. split.
    + constructor; [cbn; lia|constructor].
    + repeat constructor.
  - destruct (is_round t); (split; [cbn; lia|]); eexists [_]; (split; [reflexivity|]); split;
      try (constructor; [cbn; lia|constructor]); repeat constructor.
Qed.
Lemma e_log x t m s : Ext x s -> Ext x (log_action A cfg t m s).
Proof. intros; eapply ext_trans; [eassumption|apply ext_log_action]. Qed.
Lemma e_logmsg x m s : Ext x s -> Ext x (log_msg A cfg m s).
Proof. apply e_log. Qed.

Lemma e_set_round x s r : Ext x s -> round s <= r -> Ext x (set_round s r).
Proof.
  intros [R (l & E & F & S)] Hr. split; [cbn; lia|]. exists l. split; [exact E|]. split; [|exact S].
  eapply Forall_impl; [|exact F]. cbn. intros; lia.
Qed.
Lemma e_new_round x s : Ext x s -> Ext x (new_round A cfg s).
Proof. intros H. unfold new_round. apply e_log. apply e_set_round; [exact H|lia]. Qed.

Lemma e_elect x i m p s : Ext x s -> Ext x (elect A cfg i m p s).
Proof. intros H. unfold elect. destruct (find_cand A (cands s) i); [apply e_log, e_upd|apply e_crash]; exact H. Qed.
Lemma e_elect_default x i p s : Ext x s -> Ext x (elect_default A cfg i p s).
Proof. apply e_elect. Qed.
Lemma e_defeat x i m s : Ext x s -> Ext x (defeat A cfg i m s).
Proof. intros H. unfold defeat. destruct (find_cand A (cands s) i); [apply e_log, e_upd|apply e_crash]; exact H. Qed.
Lemma e_unpend x i m s : Ext x s -> Ext x (unpend A cfg i m s).
Proof.
  intros H. unfold unpend. destruct (find_cand A (cands s) i); [|apply e_crash; exact H].
  destruct (is_pending A c); [|apply e_crash; exact H].
  destruct m; [apply e_log|]; apply e_upd; exact H.
Qed.
Lemma e_unelect x i s : Ext x s -> Ext x (unelect A i s). Proof. apply e_upd. Qed.
Lemma e_set_vote x i v s : Ext x s -> Ext x (set_vote A i v s). Proof. apply e_upd. Qed.
Lemma e_add_vote x i v s : Ext x s -> Ext x (add_vote A i v s). Proof. apply e_upd. Qed.

Lemma e_fold {X} (f : est -> X -> est) l : (forall x s y, Ext x s -> Ext x (f s y)) ->
  forall x s, Ext x s -> Ext x (fold_left f l s).
Proof. intros Hf. induction l as [|y l IH]; intros x s H; cbn [fold_left]; [exact H|]. apply IH, Hf, H. Qed.

Lemma e_break_tie x fmt tied s : Ext x s -> Ext x (fst (break_tie A cfg fmt tied s)).
Proof.
  intros H. unfold break_tie. destruct tied as [|c [|c2 t]]; cbn [fst]; [apply e_crash; exact H|exact H|].
  destruct (by_tie A (c :: c2 :: t)); cbn [fst]; [apply e_crash|apply e_log]; exact H.
Qed.

Lemma e_transfer x keep s b : Ext x s -> Ext x (fst (transfer A keep s b)).
Proof.
  intros H. unfold transfer. cbv zeta. destruct (top_rank A _); cbn [fst]; [apply e_add_vote|apply e_exhausted]; exact H.
Qed.

Lemma e_process f sel : (forall x s b, Ext x s -> Ext x (fst (f s b))) ->
  forall bs x s acc, Ext x s -> Ext x (fst (process_ballots A f sel bs s acc)).
Proof.
  intros Hf. induction bs as [|b t IH]; intros x s acc H; cbn [process_ballots]; [exact H|].
  destruct (crashed s); [exact H|]. destruct (sel b); [|apply IH; exact H].
  specialize (Hf x s b H). destruct (f s b) as [s' b']. apply IH. exact Hf.
Qed.
Lemma e_for_ballots f sel x s : (forall x s b, Ext x s -> Ext x (fst (f s b))) -> Ext x s -> Ext x (for_ballots A f sel s).
Proof.
  intros Hf H. unfold for_ballots. pose proof (e_process f sel Hf (ballots s) x s [] H) as P.
  destruct (process_ballots A f sel (ballots s) s []) as [s' bs]. apply e_ballots. exact P.
Qed.
Lemma e_reweigh x keep rew i surp s b : Ext x s -> Ext x (fst (reweigh_transfer A keep rew i surp s b)).
Proof.
  intros H. unfold reweigh_transfer. destruct (rew _ _ _); [apply e_transfer|cbn [fst]; apply e_crash]; exact H.
Qed.
Lemma e_initial_count x s : Ext x s -> Ext x (initial_count A s).
Proof.
  intros H. unfold initial_count. apply e_fold; [|exact H]. intros y t b Hy.
  destruct (top_rank A b); [apply e_add_vote|apply e_crash]; exact Hy.
Qed.
Lemma e_elect_with_quota x hq pend msg extra s : Ext x s -> Ext x (elect_with_quota A cfg hq pend msg extra s).
Proof.
  intros H. unfold elect_with_quota. cbv zeta. apply e_fold; [|exact H]. intros y t c Hy.
  destruct msg; [apply e_elect|apply e_elect_default]; exact Hy.
Qed.

Definition bt_ext (bt : list (cand A) -> est -> est * option Z) : Prop :=
  forall x tied s, Ext x s -> Ext x (fst (bt tied s)).

Lemma e_transfer_high x bt rew s : bt_ext bt -> Ext x s -> Ext x (transfer_high_surplus A cfg bt rew s).
Proof.
  intros Hbt H. unfold transfer_high_surplus. destruct (max_vote A (pendings A s)); [|apply e_crash; exact H].
  cbv zeta. pose proof (Hbt x (filter (fun c => eqv A (cvote c) t) (pendings A s)) s H) as P.
  destruct (bt _ s) as [s1 [h|]]; cbn [fst] in P; [|exact P].
  assert (P2: Ext x (unpend A cfg h (Some "Transfer high surplus"%string) s1)) by (apply e_unpend; exact P).
  destruct (crashed (unpend A cfg h _ s1)); [exact P2|].
  match goal with |- context[for_ballots A ?f ?sel ?st] =>
    assert (P3: Ext x (for_ballots A f sel st)) by (apply e_for_ballots; [intros; apply e_reweigh; assumption|exact P2]) end.
  match goal with |- context[crashed ?st] => destruct (crashed st) end; [exact P3|].
  apply e_log, e_set_vote. exact P3.
Qed.
Lemma e_transfer_defeated_one x i s : Ext x s -> Ext x (transfer_defeated_one A cfg i s).
Proof.
  intros H. unfold transfer_defeated_one. cbv zeta. apply e_log, e_set_vote, e_for_ballots; [|exact H].
  intros; apply e_transfer; assumption.
Qed.
Lemma e_defeat_low x bt msg s : bt_ext bt -> Ext x s -> Ext x (defeat_low A cfg bt msg s).
Proof.
  intros Hbt H. unfold defeat_low. destruct (low_candidates A s) as [[lv lows]|]; [|apply e_crash; exact H].
  pose proof (Hbt x lows s H) as P. destruct (bt lows s) as [s1 [l|]]; cbn [fst] in P; [|exact P].
  assert (P2: Ext x (defeat A cfg l msg s1)) by (apply e_defeat; exact P).
  destruct (crashed _); [exact P2|apply e_transfer_defeated_one; exact P2].
Qed.
Lemma e_unpend_all x s : Ext x s -> Ext x (unpend_all A cfg s).
Proof. intros H. unfold unpend_all. apply e_fold; [|exact H]. intros; apply e_unpend; assumption. Qed.
Lemma e_elect_or_defeat x s : Ext x s -> Ext x (elect_or_defeat_remaining A cfg s).
Proof.
  intros H. unfold elect_or_defeat_remaining. apply e_fold; [|exact H]. intros y t c Hy.
  destruct (_ <? _); [apply e_elect|apply e_defeat]; exact Hy.
Qed.
End Hist.

(* ---------------------------------------------------------------- the rule trees *)
Section HistRules.
Variable A : arith.
Variable cfg : config.
Notation est := (est A).

Hint Resolve ext_refl e_cands e_ballots e_eballots e_quota e_surplus e_votes e_exhausted e_residual e_rounds
  e_crash e_flag e_last e_status e_batch e_txva e_upd e_log e_logmsg e_new_round e_elect e_elect_default e_defeat
  e_unpend e_unelect e_set_vote e_add_vote e_initial_count e_elect_with_quota e_transfer_defeated_one
  e_unpend_all e_elect_or_defeat e_transfer e_reweigh : ext.

(* solve  Ext A x (E[s])  by walking the term: destruct conditionals, chain the cumulative lemmas *)
Ltac ext_step :=
  match goal with
  | H : Ext _ ?x ?s |- Ext _ ?x ?s => exact H
  | |- Ext _ ?x ?x => apply ext_refl
  | |- Ext _ _ (if ?c then _ else _) => destruct c eqn:?
  | |- Ext _ _ (match ?c with _ => _ end) => destruct c eqn:?
  | |- Ext _ _ (fold_left _ _ _) => apply e_fold; [intros|]
  | |- Ext _ _ (for_ballots _ _ _ _) => apply e_for_ballots; [intros|]
  | |- Ext _ _ (fst (if ?c then _ else _)) => destruct c eqn:?
  | |- Ext _ _ (fst (match ?c with _ => _ end)) => destruct c eqn:?
  | |- Ext _ _ (fst (_, _)) => cbn [fst]
  | _ => progress cbv zeta
  | _ => first [ apply e_new_round | apply e_elect_with_quota | apply e_transfer_defeated_one | apply e_unpend_all | apply e_elect_or_defeat | apply e_initial_count | apply e_log | apply e_logmsg | apply e_elect | apply e_elect_default | apply e_defeat
               | apply e_unpend | apply e_unelect | apply e_set_vote | apply e_add_vote | apply e_initial_count
               | apply e_elect_with_quota | apply e_transfer_defeated_one | apply e_unpend_all | apply e_elect_or_defeat
               | apply e_transfer | apply e_reweigh | apply e_upd
               | apply e_cands | apply e_ballots | apply e_eballots | apply e_quota | apply e_surplus | apply e_votes
               | apply e_exhausted | apply e_residual | apply e_rounds | apply e_crash | apply e_flag | apply e_last
               | apply e_status | apply e_batch | apply e_txva ]
  | _ => progress eauto 6 with ext
  end.
Ltac ext_go := repeat ext_step.
Ltac steps_split := cbn [steps]; repeat match goal with |- _ /\ _ => split | |- True => exact I end.

Lemma bt_simple_ext reason : bt_ext A (bt_simple A cfg reason).
Proof. intros x tied s H. unfold bt_simple. apply e_break_tie. exact H. Qed.

Lemma scot_bt_ext isd reason : bt_ext A (scot_break_tie A cfg isd reason).
Proof.
  intros x tied s H. unfold scot_break_tie. destruct tied as [|c [|c2 t]]; cbn [fst]; ext_go.
Qed.

Lemma start_count_ext x q s : Ext A x s -> Ext A x (start_count A q s).
Proof. intros H. unfold start_count. ext_go. Qed.
Hint Resolve start_count_ext : ext.

Lemma transfer_batch_ext x keep s : Ext A x s -> Ext A x (transfer_batch A cfg keep s).
Proof. intros H. unfold transfer_batch. ext_go. Qed.
Hint Resolve transfer_batch_ext : ext.

Lemma wigm_defeat_ext x s : Ext A x s -> Ext A x (wigm_defeat A cfg s).
Proof.
  intros H. unfold wigm_defeat. destruct (low_candidates A s) as [[lv lows]|]; [|ext_go].
  destruct (_ && _).
  - ext_go.
  - pose proof (bt_simple_ext "defeat"%string x lows s H) as P.
    destruct (bt_simple A cfg "defeat" lows s) as [s1 [l|]]; cbn [fst] in P; [|exact P]. ext_go.
Qed.


Lemma defeat_batch_order_ext x msg s : Ext A x s -> Ext A x (defeat_batch_in_ballot_order A cfg msg s).
Proof. intros H. unfold defeat_batch_in_ballot_order. ext_go. Qed.



Lemma cfer_transfer_ext x s : Ext A x s -> Ext A x (cfer_transfer_all_pending A cfg s).
Proof. intros H. unfold cfer_transfer_all_pending. ext_go. Qed.
Lemma cfer_defeat_low_ext x s : Ext A x s -> Ext A x (cfer_defeat_low A cfg s).
Proof.
  intros H. unfold cfer_defeat_low. destruct (low_candidates A s) as [[lv lows]|]; [|ext_go].
  pose proof (bt_simple_ext "defeat"%string x lows s H) as P.
  destruct (bt_simple A cfg "defeat" lows s) as [s1 [l|]]; cbn [fst] in P; [|exact P]. ext_go.
Qed.


Lemma mpls_find_ext x s : Ext A x s -> Ext A x (mpls_find_defeats A cfg s).
Proof. intros H. unfold mpls_find_defeats. cbv zeta. match goal with |- context[match ?u with Ok _ => _ | Raise _ => _ end] => destruct u end; ext_go. Qed.
Lemma mpls_defeat_batch_ext x s : Ext A x s -> Ext A x (mpls_defeat_batch A cfg s).
Proof. intros H. unfold mpls_defeat_batch. ext_go. Qed.
Lemma mpls_elect_high_ext x s : Ext A x s -> Ext A x (mpls_elect_high A cfg s).
Proof.
  intros H. unfold mpls_elect_high. cbv zeta. destruct (max_vote A _); [|ext_go].
  match goal with |- context[bt_simple A cfg ?r ?l s] =>
    pose proof (bt_simple_ext r x l s H) as P; destruct (bt_simple A cfg r l s) as [s1 [h|]] end; cbn [fst] in P; [|exact P].
  ext_go.
Qed.
Lemma mpls_defeat_low_ext x s : Ext A x s -> Ext A x (mpls_defeat_low A cfg s).
Proof.
  intros H. unfold mpls_defeat_low. destruct (low_candidates A s) as [[lv lows]|]; [|ext_go].
  match goal with |- context[bt_simple A cfg ?r ?l s] =>
    pose proof (bt_simple_ext r x l s H) as P; destruct (bt_simple A cfg r l s) as [s1 [h|]] end; cbn [fst] in P; [|exact P].
  ext_go.
Qed.

Lemma prf_find_batch_ext x s : Ext A x s -> Ext A x (prf_find_batch A cfg s).
Proof. intros H. unfold prf_find_batch. ext_go. Qed.
Lemma cfer_find_batch_ext x s : Ext A x s -> Ext A x (cfer_find_batch A cfg s).
Proof. intros H. unfold cfer_find_batch. ext_go. Qed.

(* ---- meek, meek-prf, qpq ---- *)
Lemma set_quota_r_ext x s q : Ext A x s -> Ext A x (set_quota_r A s q).
Proof. intros H. unfold set_quota_r. ext_go. Qed.
Lemma zero_cand_ext x i s : Ext A x s -> Ext A x (zero_cand A i s).
Proof. intros H. unfold zero_cand. ext_go. Qed.
Lemma zero_he_ext x s : Ext A x s -> Ext A x (zero_he_votes A s).
Proof. intros H. unfold zero_he_votes. ext_go. Qed.
Lemma distribute_ext x s : Ext A x s -> Ext A x (distribute_votes A cfg s).
Proof.
  intros H. unfold distribute_votes. cbv zeta.
  match goal with |- context[fold_left ?f (ballots ?s0) ?i] => destruct (fold_left f (ballots s0) i) as [[cs r] bs] end.
  apply e_fold.
  - intros y t eb Hy. destruct (crashed t); [exact Hy|]. destruct (dist_eq _ _ _ _ _ _ _) as [[cs' br]|]; ext_go.
  - apply e_ballots, e_residual, e_cands, e_residual, zero_he_ext; exact H.
Qed.
Lemma update_kfs_ext cl x s : Ext A x s -> Ext A x (update_kfs A cl s).
Proof. intros H. unfold update_kfs. ext_go. Qed.
Lemma meek_iter_head_ext x s : Ext A x s -> Ext A x (meek_iter_head A cfg s).
Proof.
  intros H. unfold meek_iter_head. cbv zeta. pose proof (distribute_ext x s H) as P.
  destruct (crashed (distribute_votes A cfg s)); [exact P|].
  match goal with |- context[set_quota_r A ?a ?b] => assert (P2: Ext A x (set_quota_r A a b)) by (apply set_quota_r_ext, e_votes; exact P) end.
  match goal with |- context[crashed ?a] => destruct (crashed a) end; [exact P2|].
  apply e_surplus. apply e_fold; [|exact P2]. intros; ext_go.
Qed.
Lemma meek_defeat_batch_ext x s : Ext A x s -> Ext A x (meek_defeat_batch A cfg s).
Proof.
  intros H. unfold meek_defeat_batch. apply e_fold; [|exact H]. intros y t c Hy.
  destruct (crashed t); [exact Hy|]. apply distribute_ext, zero_cand_ext, e_defeat. exact Hy.
Qed.
Lemma meek_defeat_low_ext x fmt rd s : Ext A x s -> Ext A x (meek_defeat_low A cfg fmt rd s).
Proof.
  intros H. unfold meek_defeat_low. destruct (low_within_surplus A s) as [lows|]; [|ext_go].
  pose proof (e_break_tie A cfg x fmt lows s H) as P.
  destruct (break_tie A cfg fmt lows s) as [s1 [l|]]; cbn [fst] in P; [|exact P]. cbv zeta.
  match goal with |- context[zero_cand A l ?a] => assert (P2: Ext A x (zero_cand A l a)) by (apply zero_cand_ext, e_defeat; exact P) end.
  match goal with |- context[crashed ?a] => destruct (crashed a) end; [exact P2|].
  destruct rd; [apply distribute_ext|]; exact P2.
Qed.
Lemma meek_final_ext x rd s : Ext A x s -> Ext A x (meek_final A cfg rd s).
Proof.
  intros H. unfold meek_final. cbv zeta. apply e_residual, e_votes. apply e_fold; [|exact H].
  intros y t c Hy. destruct (crashed t); [exact Hy|].
  destruct rd.
  - apply distribute_ext. destruct (_ <? _); [apply e_elect|apply zero_cand_ext, e_defeat]; exact Hy.
  - destruct (_ <? _); [apply e_elect|apply zero_cand_ext, e_defeat]; exact Hy.
Qed.
Lemma init_kfs_ext x s : Ext A x s -> Ext A x (init_kfs A s).
Proof. intros H. unfold init_kfs. ext_go. Qed.
Lemma meek_first_prefs_ext x s : Ext A x s -> Ext A x (meek_first_prefs A s).
Proof. intros H. unfold meek_first_prefs. ext_go. Qed.
Lemma prf_distribute_ext x s : Ext A x s -> Ext A x (prf_distribute A s).
Proof.
  intros H. unfold prf_distribute. cbv zeta.
  match goal with |- context[fold_left ?f (ballots ?s0) ?i] => destruct (fold_left f (ballots s0) i) as [[cs r] bs] end.
  apply e_ballots, e_residual, e_cands, e_residual, zero_he_ext; exact H.
Qed.
Lemma prf_iterate_step_ext x s : Ext A x s -> Ext A x (prf_iterate_step A cfg s).
Proof.
  intros H. unfold prf_iterate_step. cbv zeta. pose proof (prf_distribute_ext x s H) as P.
  match goal with |- context[set_quota_r A ?a ?b] => assert (P2: Ext A x (set_quota_r A a b)) by (apply set_quota_r_ext, e_votes; exact P) end.
  match goal with |- context[crashed ?a] => destruct (crashed a) end; [exact P2|].
  match goal with |- context[fold_left ?f ?l ?a] =>
    assert (P3: Ext A x (fold_left f l a)) by (apply e_fold; [intros; ext_go|exact P2]) end.
  match goal with |- context[set_surplus ?a ?b] => assert (P4: Ext A x (set_surplus a b)) by (apply e_surplus; exact P3);
    generalize dependent (set_surplus a b) end.
  intros s5 P4.
  assert (P5: Ext A x (if lv_status s5 =? IS_elected then s5
               else if ltv A (surplus s5) (omega_or0 A cfg) then set_status s5 IS_omega
               else if gev A (surplus s5) (lv_last s5)
                    then log_msg A cfg ("Stable state detected (" ++ str A (surplus s5) ++ ")")%string (set_status s5 IS_stable)
                    else s5)) by ext_go.
  match goal with |- context[if lv_status ?a =? IS_iterate then _ else _] => generalize dependent a end.
  intros s6 P6. destruct (lv_status s6 =? IS_iterate); [apply update_kfs_ext, e_last|]; exact P6.
Qed.
Lemma qpq_restart_ext x s : Ext A x s -> Ext A x (qpq_restart A s).
Proof. intros H. unfold qpq_restart. ext_go. Qed.
Lemma qpq_tally_ext x s : Ext A x s -> Ext A x (qpq_tally A cfg s).
Proof.
  intros H. unfold qpq_tally. cbv zeta.
  match goal with |- context[crashed ?a] => assert (P: Ext A x a) end.
  { apply e_fold; [intros; ext_go|]. apply e_fold; [intros; ext_go|]. ext_go. }
  match goal with |- context[crashed ?a] => destruct (crashed a) end; [exact P|apply set_quota_r_ext; exact P].
Qed.
Lemma qpq_step_ext x s : Ext A x s -> Ext A x (qpq_step A cfg s).
Proof.
  intros H. unfold qpq_step. destruct (max_quo A (hopefuls A s)); [|ext_go].
  destruct (gtv A t (quota s)).
  - match goal with |- context[break_tie A cfg ?f ?l s] =>
      pose proof (e_break_tie A cfg x f l s H) as P; destruct (break_tie A cfg f l s) as [s1 [h|]] end; cbn [fst] in P; [|exact P].
    ext_go.
  - destruct (min_quo A (hopefuls A s)); [|ext_go].
    match goal with |- context[break_tie A cfg ?f ?l s] =>
      pose proof (e_break_tie A cfg x f l s H) as P; destruct (break_tie A cfg f l s) as [s1 [h|]] end; cbn [fst] in P; [|exact P].
    ext_go.
Qed.

Ltac rule_do :=
  intros s;
  first [ solve [ext_go]
        | solve [apply e_transfer_high; [first [apply bt_simple_ext | apply scot_bt_ext] | apply ext_refl]]
        | solve [apply e_defeat_low; [first [apply bt_simple_ext | apply scot_bt_ext] | apply ext_refl]]
        | solve [apply wigm_defeat_ext, ext_refl]
        | solve [apply defeat_batch_order_ext, ext_refl]
        | solve [apply prf_find_batch_ext, ext_refl]
        | solve [apply cfer_find_batch_ext, ext_refl]
        | solve [apply cfer_transfer_ext, ext_refl]
        | solve [apply cfer_defeat_low_ext, ext_refl]
        | solve [apply mpls_find_ext, ext_refl]
        | solve [apply mpls_defeat_batch_ext, ext_refl]
        | solve [apply mpls_elect_high_ext, ext_refl]
        | solve [apply mpls_defeat_low_ext, ext_refl]
        | solve [apply transfer_batch_ext, ext_refl]
        | solve [apply start_count_ext, ext_refl]
        | solve [apply meek_iter_head_ext, ext_refl]
        | solve [apply meek_defeat_batch_ext, ext_refl]
        | solve [apply meek_defeat_low_ext, ext_refl]
        | solve [apply meek_final_ext, ext_refl]
        | solve [apply prf_iterate_step_ext, ext_refl]
        | solve [apply qpq_tally_ext, ext_refl]
        | solve [apply qpq_step_ext, ext_refl]
        | solve [apply update_kfs_ext; ext_go]
        | solve [apply qpq_restart_ext; ext_go] ].

Theorem wigm_steps : steps est (Ext A) (wigm A cfg).
Proof. unfold wigm. steps_split; rule_do. Qed.
Theorem wigm_prf_steps : steps est (Ext A) (wigm_prf A cfg).
Proof. unfold wigm_prf. steps_split; rule_do. Qed.
Theorem scotland_steps : steps est (Ext A) (scotland A cfg).
Proof. unfold scotland. steps_split; rule_do. Qed.
Theorem cfer_steps : steps est (Ext A) (cfer A cfg).
Proof. unfold cfer. steps_split; rule_do. Qed.
Theorem mpls_steps : steps est (Ext A) (mpls A cfg).
Proof. unfold mpls. steps_split; rule_do. Qed.
Lemma meek_begin_ext x s : Ext A x s ->
  Ext A x (match omega A cfg with
           | Raise e => set_crash s e
           | Ok _ =>
             let s1 := set_votes s (of_int A (cf_nballots cfg)) in
             let s2 := set_quota_r A s1 (meek_quota A cfg s1) in
             if crashed s2 then s2 else
             log_action A cfg TBegin "Begin Count" (meek_first_prefs A (init_kfs A s2))
           end).
Proof.
  intros H. destruct (omega A cfg); [|ext_go]. cbv zeta.
  match goal with |- context[crashed ?a] => assert (P: Ext A x a) by (apply set_quota_r_ext; ext_go); destruct (crashed a) end; [exact P|].
  apply e_log, meek_first_prefs_ext, init_kfs_ext. exact P.
Qed.
Theorem meek_iterate_steps : steps est (Ext A) (meek_iterate A cfg).
Proof. unfold meek_iterate. steps_split; rule_do. Qed.
Theorem meek_steps : steps est (Ext A) (meek A cfg).
Proof.
  unfold meek. steps_split; try exact meek_iterate_steps; try rule_do.
  all: try (intros s; apply meek_begin_ext, ext_refl).
Qed.
Theorem meek_prf_steps : steps est (Ext A) (meek_prf A cfg).
Proof.
  unfold meek_prf. steps_split; try rule_do.
  all: try (intros s; destruct (omega A cfg); [|ext_go]; cbv zeta; destruct (divv A _ _); [|ext_go];
            apply e_log; apply e_fold; [intros; ext_go|]; apply e_quota, e_votes, init_kfs_ext, ext_refl).
Qed.
Theorem qpq_steps : steps est (Ext A) (qpq A cfg).
Proof.
  unfold qpq. steps_split; try rule_do.
  all: try (intros s; cbv zeta;
    match goal with |- context[crashed ?a] => assert (P: Ext A s a) by (apply set_quota_r_ext; ext_go); destruct (crashed a) end; [exact P|];
    ext_go).
Qed.

(* every rule, and the whole of Election.count() *)
Theorem rule_steps r : steps est (Ext A) (rule_cmd A cfg r).
Proof.
  destruct r; cbn [rule_cmd]; auto using wigm_steps, wigm_prf_steps, scotland_steps, cfer_steps, mpls_steps,
    meek_steps, meek_prf_steps, qpq_steps.
Qed.
Theorem count_steps r : steps est (Ext A) (count_cmd A cfg r).
Proof.
  unfold count_cmd. cbn [steps]. split; [intros s; ext_go|]. split; [apply rule_steps|]. intros s; ext_go.
Qed.
End HistRules.
